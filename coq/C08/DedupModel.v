(* C08 — executable model of the two deduplication mechanisms of libsquashfs:

   * lib/sqfs/src/block_writer.c  : write_data_block, store_block_location,
     deduplicate_blocks (+ lib/util/src/file_cmp.c check_file_range_equal)
   * lib/sqfs/src/block_processor : process_block (worker), process_completed_block,
     process_completed_fragment, enqueue_block (in-flight copy), chunk_info_equals,
     load_frag_block, the io queue (store_io_block / dequeue_block drain loop),
     sync / finish; the hash table of lib/util/src/hash_table.c as an association list.

   Definitions only; proofs are in DedupProofs*.v.

   Conventions: bytes and checksums / size words are N; offsets, lengths and indices are nat
   (unbounded, no wrap); the output file is a [list N].  The oracles are Section variables:
   [hashf] (xxh32) carries NO hypothesis anywhere, [compress]/[uncompress] carry the contract of
   include/sqfs/compressor.h only in the proof files. *)
From Coq Require Import List NArith Arith Bool.
Import ListNotations.

(* ---------------------------------------------------------------------- *)
(* small helpers                                                            *)

Fixpoint list_eqb (a b : list N) : bool :=
  match a, b with
  | [], [] => true
  | x :: a', y :: b' => N.eqb x y && list_eqb a' b'
  | _, _ => false
  end.

(* lib/util/src/is_memory_zero.c *)
Fixpoint all_zero (l : list N) : bool :=
  match l with
  | [] => true
  | x :: r => N.eqb x 0 && all_zero r
  end.

Definition slice (f : list N) (off n : nat) : list N := firstn n (skipn off f).

(* sqfs_file_t.read_at: SQFS_ERROR_OUT_OF_BOUNDS when the range is not inside the file *)
Definition read_at (f : list N) (off n : nat) : option (list N) :=
  if off + n <=? length f then Some (slice f off n) else None.

(* sqfs_file_t.truncate *)
Definition truncate (f : list N) (n : nat) : list N :=
  firstn n f ++ repeat 0%N (n - length f).

(* size words: size | (1 << 24) for uncompressed blocks (range guard: size < 2^24) *)
Definition two24 : N := 16777216%N.
Definition sw_of (size : nat) (compressed : bool) : N :=
  if compressed then N.of_nat size else (N.of_nat size + two24)%N.
Definition sw_size (w : N) : nat := N.to_nat (w mod two24).          (* SQFS_ON_DISK_BLOCK_SIZE, SIZE_FROM_HASH *)
Definition sw_compressed (w : N) : bool := N.even (w / two24).       (* SQFS_IS_BLOCK_COMPRESSED *)
Definition sw_sparse (w : N) : bool := N.eqb (w mod two24) 0.        (* SQFS_IS_SPARSE_BLOCK *)

Inductive res (A : Type) : Type :=
| Ok (a : A)
| Err          (* the C code returns an error code (graceful failure) *)
| Fuel.        (* a fuelled loop of the model ran out of fuel (proved unreachable) *)
Arguments Ok {A} a.
Arguments Err {A}.
Arguments Fuel {A}.

(* observable side effects on the output file, for the correspondence check *)
Inductive ev :=
| EvWrite (off : nat) (d : list N)
| EvTrunc (sz : nat).

(* ---------------------------------------------------------------------- *)
(* block writer                                                            *)

(* blk_info_t: offset and MK_BLK_HASH(chksum, size-word); the 64-bit packing is injective on
   (u32, u32), so the pair is kept unpacked *)
Record blk_info := { bi_off : nat; bi_sw : N; bi_chk : N }.
Definition bi_size (b : blk_info) : nat := sw_size (bi_sw b).
Definition bi_hash_eqb (a b : blk_info) : bool :=
  N.eqb (bi_sw a) (bi_sw b) && N.eqb (bi_chk a) (bi_chk b).

Record writer := { w_file : list N; w_blocks : list blk_info; w_fstart : nat }.

Record wflags := { wf_first : bool; wf_last : bool; wf_sparse : bool;
                   wf_compressed : bool; wf_dont_dedup : bool }.

Inductive wres :=
| WOk (w : writer) (loc : nat) (evs : list ev)
| WErr
| WFuel.

Inductive cmpres := CmpEq | CmpNe | CmpErr | CmpFuel.

(* check_file_range_equal: compares in pieces of scratch_sz/2 = [half] bytes *)
Fixpoint range_equal (fuel half : nat) (f : list N) (a b sz : nat) : cmpres :=
  match fuel with
  | O => CmpFuel
  | S fuel' =>
    if sz =? 0 then CmpEq else
    let diff := Nat.min half sz in
    match read_at f a diff with
    | None => CmpErr
    | Some xa =>
      match read_at f b diff with
      | None => CmpErr
      | Some xb =>
        if list_eqb xa xb
        then range_equal fuel' half f (a + diff) (b + diff) (sz - diff)
        else CmpNe
      end
    end
  end.

(* inner j-loop of deduplicate_blocks: blocks[i + j].hash == blocks[file_start + j].hash, j < count *)
Fixpoint hashes_match (a cur : list blk_info) {struct cur} : bool :=
  match cur with
  | [] => true
  | c :: cur' =>
    match a with
    | [] => false
    | x :: a' => bi_hash_eqb x c && hashes_match a' cur'
    end
  end.

Inductive fres := FAt (i : nat) | FNone | FErr | FFuel.

Definition dflt_bi : blk_info := {| bi_off := 0; bi_sw := 0%N; bi_chk := 0%N |}.

Section Writer.
Variable hash_only : bool.   (* SQFS_BLOCK_WRITER_HASH_COMPARE_ONLY *)
Variable half : nat.         (* SCRATCH_SIZE / 2 *)

(* outer i-loop of deduplicate_blocks, i = fstart - n .. fstart - 1 *)
Fixpoint find_match (f : list N) (blocks cur : list blk_info) (count loc_a sz : nat)
         (n i : nat) : fres :=
  match n with
  | O => FNone
  | S n' =>
    if hashes_match (firstn count (skipn i blocks)) cur then
      if hash_only then FAt i
      else
        match range_equal (S sz) half f loc_a (bi_off (nth i blocks dflt_bi)) sz with
        | CmpEq => FAt i
        | CmpNe => find_match f blocks cur count loc_a sz n' (S i)
        | CmpErr => FErr
        | CmpFuel => FFuel
        end
    else find_match f blocks cur count loc_a sz n' (S i)
  end.

Definition deduplicate_blocks (w : writer) (dont_dedup : bool) (evs : list ev) : wres :=
  let blocks := w_blocks w in
  let fstart := w_fstart w in
  let count := length blocks - fstart in
  if count =? 0 then WOk w 0 evs
  else
    let cur := skipn fstart blocks in
    let loc_a := bi_off (nth fstart blocks dflt_bi) in
    if dont_dedup then WOk w loc_a evs
    else
      let sz := fold_right (fun b s => bi_size b + s) 0 cur in
      match find_match (w_file w) blocks cur count loc_a sz fstart 0 with
      | FErr => WErr
      | FFuel => WFuel
      | FNone => WOk w loc_a evs
      | FAt i =>
        let used := if fstart - i <=? count then i + count else fstart in
        let lastb := nth (used - 1) blocks dflt_bi in
        let tsz := bi_off lastb + bi_size lastb in
        WOk {| w_file := truncate (w_file w) tsz;
               w_blocks := firstn used blocks;
               w_fstart := fstart |}
            (bi_off (nth i blocks dflt_bi))
            (evs ++ [EvTrunc tsz])
      end.

(* write_data_block; [size] of the C function is [length data] *)
Definition write_data_block (w : writer) (fl : wflags) (chk : N) (data : list N) : wres :=
  let fstart := if wf_first fl then length (w_blocks w) else w_fstart w in
  let loc := length (w_file w) in
  let store := negb (length data =? 0) && negb (wf_sparse fl) in
  let w1 :=
    if store
    then {| w_file := w_file w ++ data;
            w_blocks := w_blocks w ++
                        [{| bi_off := loc; bi_sw := sw_of (length data) (wf_compressed fl); bi_chk := chk |}];
            w_fstart := fstart |}
    else {| w_file := w_file w; w_blocks := w_blocks w; w_fstart := fstart |} in
  let evs := if store then [EvWrite loc data] else [] in
  if wf_last fl then deduplicate_blocks w1 (wf_dont_dedup fl) evs
  else WOk w1 loc evs.

End Writer.

(* ---------------------------------------------------------------------- *)
(* block processor                                                         *)

Record uflags := { uf_dont_compress : bool; uf_dont_hash : bool;
                   uf_dont_fragment : bool; uf_dont_dedup : bool;
                   uf_ignore_sparse : bool }.

(* what the frontend submits for one file (begin_file / append / end_file): the data blocks in
   order - the last one carries SQFS_BLK_LAST_BLOCK and is either the zero-size sentinel of
   add_sentinel_block or the short tail of a DONT_FRAGMENT file - and the tail end *)
Record fjob := { j_fl : uflags; j_blocks : list (list N); j_tail : option (list N) }.

Fixpoint take_blocks (bs n : nat) (d : list N) : list (list N) :=
  match n with
  | O => []
  | S n' => firstn bs d :: take_blocks bs n' (skipn bs d)
  end.

Definition file_job (bs : nat) (fl : uflags) (d : list N) : fjob :=
  let n := length d / bs in
  let full := take_blocks bs n d in
  let r := skipn (n * bs) d in
  match r with
  | [] => if n =? 0 then {| j_fl := fl; j_blocks := []; j_tail := None |}
          else {| j_fl := fl; j_blocks := full ++ [[]]; j_tail := None |}
  | _ :: _ =>
    if uf_dont_fragment fl then {| j_fl := fl; j_blocks := full ++ [r]; j_tail := None |}
    else if n =? 0 then {| j_fl := fl; j_blocks := []; j_tail := Some r |}
    else {| j_fl := fl; j_blocks := full ++ [[]]; j_tail := Some r |}
  end.

(* a block after the worker (process_block) has seen it *)
Record pblock := { pb_sparse : bool; pb_compressed : bool; pb_chk : N; pb_data : list N }.

Record chunk := { ck_index : nat; ck_offset : nat; ck_size : nat; ck_hash : N }.   (* chunk_info_t *)
Record fblk := { fb_index : nat; fb_data : list N; fb_dont_compress : bool }.      (* proc->frag_block *)

Inductive qitem :=
| QFile (fid : nat) (dont_dedup : bool) (blocks : list pblock)   (* the data blocks of one file, in order *)
| QFrag (ready : bool) (index : nat) (pb : pblock).               (* a fragment block; ready = back from the pool *)

Record proc := {
  p_wr : writer;
  p_nfrag : nat;                         (* sqfs_frag_table_t: used, entries (start, size word) *)
  p_ftab : nat -> nat * N;
  p_fragblk : option fblk;
  p_inflight : list (nat * list N);      (* fblk_in_flight, newest first *)
  p_ioq : list qitem;                    (* io_queue in io_seq_num order, with the reserved slots *)
  p_ht : list chunk;                     (* frag_ht *)
  p_cached : option (nat * list N);      (* cached_frag_blk *)
  (* the inodes: block start, block size words, number of words, fragment location *)
  p_start : nat -> nat;
  p_size : nat -> nat -> option N;
  p_nwords : nat -> nat;
  p_frag : nat -> option (nat * nat);
  p_evs : list ev                        (* log of the write_at / truncate calls (newest last) *)
}.

Definition set_wr (st : proc) (w : writer) (e : list ev) : proc :=
  {| p_wr := w; p_nfrag := p_nfrag st; p_ftab := p_ftab st; p_fragblk := p_fragblk st;
     p_inflight := p_inflight st; p_ioq := p_ioq st; p_ht := p_ht st; p_cached := p_cached st;
     p_start := p_start st; p_size := p_size st; p_nwords := p_nwords st; p_frag := p_frag st;
     p_evs := p_evs st ++ e |}.
Definition set_ioq (st : proc) (q : list qitem) : proc :=
  {| p_wr := p_wr st; p_nfrag := p_nfrag st; p_ftab := p_ftab st; p_fragblk := p_fragblk st;
     p_inflight := p_inflight st; p_ioq := q; p_ht := p_ht st; p_cached := p_cached st;
     p_start := p_start st; p_size := p_size st; p_nwords := p_nwords st; p_frag := p_frag st;
     p_evs := p_evs st |}.
Definition set_cached (st : proc) (c : option (nat * list N)) : proc :=
  {| p_wr := p_wr st; p_nfrag := p_nfrag st; p_ftab := p_ftab st; p_fragblk := p_fragblk st;
     p_inflight := p_inflight st; p_ioq := p_ioq st; p_ht := p_ht st; p_cached := c;
     p_start := p_start st; p_size := p_size st; p_nwords := p_nwords st; p_frag := p_frag st;
     p_evs := p_evs st |}.
Definition set_ht (st : proc) (h : list chunk) : proc :=
  {| p_wr := p_wr st; p_nfrag := p_nfrag st; p_ftab := p_ftab st; p_fragblk := p_fragblk st;
     p_inflight := p_inflight st; p_ioq := p_ioq st; p_ht := h; p_cached := p_cached st;
     p_start := p_start st; p_size := p_size st; p_nwords := p_nwords st; p_frag := p_frag st;
     p_evs := p_evs st |}.
Definition set_fragblk (st : proc) (fb : option fblk) : proc :=
  {| p_wr := p_wr st; p_nfrag := p_nfrag st; p_ftab := p_ftab st; p_fragblk := fb;
     p_inflight := p_inflight st; p_ioq := p_ioq st; p_ht := p_ht st; p_cached := p_cached st;
     p_start := p_start st; p_size := p_size st; p_nwords := p_nwords st; p_frag := p_frag st;
     p_evs := p_evs st |}.
Definition set_inflight (st : proc) (l : list (nat * list N)) : proc :=
  {| p_wr := p_wr st; p_nfrag := p_nfrag st; p_ftab := p_ftab st; p_fragblk := p_fragblk st;
     p_inflight := l; p_ioq := p_ioq st; p_ht := p_ht st; p_cached := p_cached st;
     p_start := p_start st; p_size := p_size st; p_nwords := p_nwords st; p_frag := p_frag st;
     p_evs := p_evs st |}.
(* sqfs_frag_table_set *)
Definition set_ftab (st : proc) (idx : nat) (v : nat * N) : proc :=
  {| p_wr := p_wr st; p_nfrag := p_nfrag st;
     p_ftab := (fun i => if i =? idx then v else p_ftab st i);
     p_fragblk := p_fragblk st;
     p_inflight := p_inflight st; p_ioq := p_ioq st; p_ht := p_ht st; p_cached := p_cached st;
     p_start := p_start st; p_size := p_size st; p_nwords := p_nwords st; p_frag := p_frag st;
     p_evs := p_evs st |}.
(* sqfs_frag_table_append(tbl, 0, 0, &index) *)
Definition append_ftab (st : proc) : proc :=
  {| p_wr := p_wr st; p_nfrag := S (p_nfrag st);
     p_ftab := (fun i => if i =? p_nfrag st then (0, 0%N) else p_ftab st i);
     p_fragblk := p_fragblk st;
     p_inflight := p_inflight st; p_ioq := p_ioq st; p_ht := p_ht st; p_cached := p_cached st;
     p_start := p_start st; p_size := p_size st; p_nwords := p_nwords st; p_frag := p_frag st;
     p_evs := p_evs st |}.
(* set_block_size(inode, index, size) *)
Definition set_size (st : proc) (fid idx : nat) (w : N) : proc :=
  {| p_wr := p_wr st; p_nfrag := p_nfrag st; p_ftab := p_ftab st; p_fragblk := p_fragblk st;
     p_inflight := p_inflight st; p_ioq := p_ioq st; p_ht := p_ht st; p_cached := p_cached st;
     p_start := p_start st;
     p_size := (fun f k => if (f =? fid) && (k =? idx) then Some w else p_size st f k);
     p_nwords := (fun f => if f =? fid then Nat.max (S idx) (p_nwords st f) else p_nwords st f);
     p_frag := p_frag st;
     p_evs := p_evs st |}.
(* sqfs_inode_set_file_block_start *)
Definition set_start (st : proc) (fid loc : nat) : proc :=
  {| p_wr := p_wr st; p_nfrag := p_nfrag st; p_ftab := p_ftab st; p_fragblk := p_fragblk st;
     p_inflight := p_inflight st; p_ioq := p_ioq st; p_ht := p_ht st; p_cached := p_cached st;
     p_start := (fun f => if f =? fid then loc else p_start st f);
     p_size := p_size st; p_nwords := p_nwords st; p_frag := p_frag st;
     p_evs := p_evs st |}.
(* sqfs_inode_set_frag_location *)
Definition set_frag (st : proc) (fid idx off : nat) : proc :=
  {| p_wr := p_wr st; p_nfrag := p_nfrag st; p_ftab := p_ftab st; p_fragblk := p_fragblk st;
     p_inflight := p_inflight st; p_ioq := p_ioq st; p_ht := p_ht st; p_cached := p_cached st;
     p_start := p_start st; p_size := p_size st; p_nwords := p_nwords st;
     p_frag := (fun f => if f =? fid then Some (idx, off) else p_frag st f);
     p_evs := p_evs st |}.

Definition init_proc (file0 : list N) : proc :=
  {| p_wr := {| w_file := file0; w_blocks := []; w_fstart := 0 |};
     p_nfrag := 0; p_ftab := (fun _ => (0, 0%N)); p_fragblk := None; p_inflight := [];
     p_ioq := []; p_ht := []; p_cached := None;
     p_start := (fun _ => 0); p_size := (fun _ _ => None); p_nwords := (fun _ => 0);
     p_frag := (fun _ => None); p_evs := [] |}.

Fixpoint remove_inflight (idx : nat) (l : list (nat * list N)) : list (nat * list N) :=
  match l with
  | [] => []
  | (i, d) :: r => if i =? idx then r else (i, d) :: remove_inflight idx r
  end.

Fixpoint find_inflight (idx : nat) (l : list (nat * list N)) : option (list N) :=
  match l with
  | [] => None
  | (i, d) :: r => if i =? idx then Some d else find_inflight idx r
  end.

(* the pool hands back the oldest fragment block that is still being compressed *)
Fixpoint mark_first_ready (q : list qitem) : list qitem :=
  match q with
  | [] => []
  | QFrag false i pb :: r => QFrag true i pb :: r
  | it :: r => it :: mark_first_ready r
  end.

Definition mark_all_ready (q : list qitem) : list qitem :=
  map (fun it => match it with QFrag _ i pb => QFrag true i pb | _ => it end) q.

Section Processor.
Variable hashf : list N -> N.                       (* xxh32: no assumption *)
Variable compress : list N -> option (list N).      (* do_block of the compressor: None = "does not shrink" *)
Variable uncompress : list N -> nat -> option (list N).  (* do_block of the uncompressor, capacity *)
Variable bs : nat.                                  (* max_block_size *)
Variable hash_only : bool.                          (* block writer created with HASH_COMPARE_ONLY *)
Variable bytecmp : bool.                            (* desc.file != NULL && desc.uncmp != NULL *)
Variable half : nat.                                (* SCRATCH_SIZE / 2 of block_writer.c *)

(* process_block (the worker): sparse detection, checksum, compression.
   [no_sparse] = SQFS_BLK_IGNORE_SPARSE or SQFS_BLK_FRAGMENT_BLOCK is set (an assembled fragment
   block is never treated as sparse) *)
Definition work_block (no_sparse is_frag dont_compress dont_hash : bool) (d : list N) : pblock :=
  let raw := fun chk => {| pb_sparse := false; pb_compressed := false; pb_chk := chk; pb_data := d |} in
  if length d =? 0 then raw 0%N
  else if negb no_sparse && all_zero d
       then {| pb_sparse := true; pb_compressed := false; pb_chk := 0%N; pb_data := d |}
  else
    let chk := if dont_hash then 0%N else hashf d in
    if is_frag || dont_compress then raw chk
    else match compress d with
         | Some c => if length c =? 0 then raw chk
                     else {| pb_sparse := false; pb_compressed := true; pb_chk := chk; pb_data := c |}
         | None => raw chk
         end.

(* process_completed_block for the data blocks of one file (consecutive in the io queue) *)
Fixpoint complete_blocks (st : proc) (fid : nat) (dd : bool) (k : nat) (blocks : list pblock) : res proc :=
  match blocks with
  | [] => Ok st
  | b :: rest =>
    let last := match rest with [] => true | _ => false end in
    let fl := {| wf_first := (k =? 0); wf_last := last; wf_sparse := pb_sparse b;
                 wf_compressed := pb_compressed b; wf_dont_dedup := dd |} in
    match write_data_block hash_only half (p_wr st) fl (pb_chk b) (pb_data b) with
    | WErr => Err
    | WFuel => Fuel
    | WOk w loc e =>
      let st1 := set_wr st w e in
      let st2 := if pb_sparse b then set_size st1 fid k 0%N
                 else if length (pb_data b) =? 0 then st1
                 else set_size st1 fid k (sw_of (length (pb_data b)) (pb_compressed b)) in
      let st3 := if last then set_start st2 fid loc else st2 in
      complete_blocks st3 fid dd (S k) rest
    end
  end.

(* process_completed_block for a fragment block *)
Definition complete_fragblk (st : proc) (idx : nat) (pb : pblock) : res proc :=
  let st0 := set_inflight st (remove_inflight idx (p_inflight st)) in
  let fl := {| wf_first := false; wf_last := false; wf_sparse := pb_sparse pb;
               wf_compressed := pb_compressed pb; wf_dont_dedup := false |} in
  match write_data_block hash_only half (p_wr st0) fl (pb_chk pb) (pb_data pb) with
  | WErr => Err
  | WFuel => Fuel
  | WOk w loc e =>
    let st1 := set_wr st0 w e in
    if pb_sparse pb then Ok st1
    else if length (pb_data pb) =? 0 then Ok st1
    else Ok (set_ftab st1 idx (loc, sw_of (length (pb_data pb)) (pb_compressed pb)))
  end.

(* the while loop at the top of dequeue_block: write everything whose turn has come *)
Fixpoint drain_q (q : list qitem) (st : proc) : res proc :=
  match q with
  | [] => Ok (set_ioq st [])
  | QFile fid dd blocks :: q' =>
    match complete_blocks st fid dd 0 blocks with
    | Ok st' => drain_q q' st'
    | Err => Err
    | Fuel => Fuel
    end
  | QFrag true idx pb :: q' =>
    match complete_fragblk st idx pb with
    | Ok st' => drain_q q' st'
    | Err => Err
    | Fuel => Fuel
    end
  | QFrag false _ _ :: _ => Ok (set_ioq st q)
  end.

Definition drain (st : proc) : res proc := drain_q (p_ioq st) st.

(* load_frag_block: the part after the cache test (read the block back, uncompress it) *)
Definition load_from_disk (st : proc) (idx : nat) : option (list N * option (nat * list N)) :=
  if idx <? p_nfrag st then
    let '(off, w) := p_ftab st idx in
    let size := sw_size w in
    if bs <? size then None
    else
      match read_at (w_file (p_wr st)) off size with
      | None => None
      | Some raw =>
        if sw_compressed w then
          match uncompress raw bs with
          | Some d => if length d =? 0 then None else Some (d, Some (idx, d))
          | None => None
          end
        else Some (raw, Some (idx, raw))
      end
  else None.

(* load_frag_block *)
Definition load_frag_block (st : proc) (cached : option (nat * list N)) (idx : nat)
  : option (list N * option (nat * list N)) :=
  match cached with
  | Some (i, d) => if i =? idx then Some (d, cached) else load_from_disk st idx
  | None => load_from_disk st idx
  end.

(* the three places chunk_info_equals looks for the bytes of fragment block [idx]:
   the in-flight copies, the block being filled, the block on disk (through the cache) *)
Definition frag_lookup (st : proc) (cached : option (nat * list N)) (idx : nat)
  : option (list N * option (nat * list N)) :=
  match find_inflight idx (p_inflight st) with
  | Some d => Some (d, cached)
  | None =>
    match p_fragblk st with
    | Some fb => if fb_index fb =? idx then Some (fb_data fb, cached)
                 else load_frag_block st cached idx
    | None => load_frag_block st cached idx
    end
  end.

Inductive eqres := EqYes | EqNo | EqErr.

(* chunk_info_equals(proc, key, cmp) with proc->current_frag->data = cur *)
Definition chunk_equals (st : proc) (cached : option (nat * list N))
           (ksize : nat) (khash : N) (cur : list N) (cmp : chunk)
  : eqres * option (nat * list N) :=
  if negb ((ksize =? ck_size cmp) && N.eqb khash (ck_hash cmp)) then (EqNo, cached)
  else if negb bytecmp then (EqYes, cached)
  else
    let found := frag_lookup st cached (ck_index cmp) in
    match found with
    | None => (EqErr, cached)
    | Some (d, cached') =>
      if (length d <=? ck_offset cmp) || (length d - ck_offset cmp <? ck_size cmp) then (EqErr, cached')
      else if negb (ck_size cmp =? length cur) then (EqErr, cached')
      else if list_eqb (slice d (ck_offset cmp) (ck_size cmp)) (firstn (ck_size cmp) cur)
           then (EqYes, cached') else (EqNo, cached')
    end.

Inductive sres :=
| SFound (c : chunk) (cached : option (nat * list N))
| SNone (cached : option (nat * list N))
| SErr.

(* hash_table_search_pre_hashed: an entry with the same hash for which the callback says yes *)
Fixpoint ht_search (st : proc) (cached : option (nat * list N))
         (ksize : nat) (khash : N) (cur : list N) (l : list chunk) : sres :=
  match l with
  | [] => SNone cached
  | c :: r =>
    if N.eqb (ck_hash c) khash then
      match chunk_equals st cached ksize khash cur c with
      | (EqYes, ca) => SFound c ca
      | (EqNo, ca) => ht_search st ca ksize khash cur r
      | (EqErr, _) => SErr
      end
    else ht_search st cached ksize khash cur r
  end.

(* hash_table_insert_pre_hashed: replaces an entry the callback declares equal, else adds *)
Fixpoint ht_insert (st : proc) (cached : option (nat * list N))
         (nc : chunk) (cur : list N) (l : list chunk) : option (list chunk * option (nat * list N)) :=
  match l with
  | [] => Some ([nc], cached)
  | c :: r =>
    if N.eqb (ck_hash c) (ck_hash nc) then
      match chunk_equals st cached (ck_size nc) (ck_hash nc) cur c with
      | (EqYes, ca) => Some (nc :: r, ca)
      | (EqNo, ca) =>
        match ht_insert st ca nc cur r with
        | Some (r', ca') => Some (c :: r', ca')
        | None => None
        end
      | (EqErr, _) => None
      end
    else
      match ht_insert st cached nc cur r with
      | Some (r', ca') => Some (c :: r', ca')
      | None => None
      end
  end.

(* enqueue_block for a fragment block (io_seq_num taken, in-flight copy, off to the pool) *)
Definition enqueue_fragblk (st : proc) (fb : fblk) : proc :=
  let pb := work_block true false (fb_dont_compress fb) false (fb_data fb) in
  let st1 := if bytecmp then set_inflight st ((fb_index fb, fb_data fb) :: p_inflight st) else st in
  set_fragblk (set_ioq st1 (p_ioq st1 ++ [QFrag false (fb_index fb) pb])) None.

(* process_completed_fragment after the duplicate search came back empty (or was skipped):
   flush the fragment block if the fragment does not fit, put the fragment into the (new) block,
   enter it into the hash table, record the location in the inode *)
Definition store_fragment (st : proc) (fid : nat) (fl : uflags) (d : list N) (chk : N) : res proc :=
  let st1 :=
    match p_fragblk st with
    | Some fb => if bs <? length (fb_data fb) + length d then enqueue_fragblk st fb else st
    | None => st
    end in
  let '(st2, index, offset) :=
    match p_fragblk st1 with
    | None =>
      let i := p_nfrag st1 in
      (set_fragblk (append_ftab st1)
                   (Some {| fb_index := i; fb_data := d; fb_dont_compress := uf_dont_compress fl |}),
       i, 0)
    | Some fb =>
      (set_fragblk st1 (Some {| fb_index := fb_index fb; fb_data := fb_data fb ++ d;
                                fb_dont_compress := fb_dont_compress fb || uf_dont_compress fl |}),
       fb_index fb, length (fb_data fb))
    end in
  let nc := {| ck_index := index; ck_offset := offset; ck_size := length d; ck_hash := chk |} in
  match ht_insert st2 (p_cached st2) nc d (p_ht st2) with
  | None => Err
  | Some (h, ca) => Ok (set_frag (set_cached (set_ht st2 h) ca) fid index offset)
  end.

(* process_completed_fragment; [idx] = block index of the tail within its file *)
Definition process_fragment (st : proc) (fid idx : nat) (fl : uflags) (d : list N) : res proc :=
  let pb := work_block (uf_ignore_sparse fl) true (uf_dont_compress fl) (uf_dont_hash fl) d in
  if pb_sparse pb then Ok (set_size st fid idx 0%N)
  else if uf_dont_dedup fl then store_fragment st fid fl d (pb_chk pb)
  else
    match ht_search st (p_cached st) (length d) (pb_chk pb) d (p_ht st) with
    | SErr => Err
    | SFound c ca => Ok (set_frag (set_cached st ca) fid (ck_index c) (ck_offset c))
    | SNone ca => store_fragment (set_cached st ca) fid fl d (pb_chk pb)
    end.

(* everything the frontend submits for one file comes out of the pool *)
Definition step_file (st : proc) (fid : nat) (j : fjob) : res proc :=
  match drain st with
  | Err => Err
  | Fuel => Fuel
  | Ok st1 =>
    let st2 :=
      match j_blocks j with
      | [] => st1
      | _ :: _ =>
        set_ioq st1 (p_ioq st1 ++
                     [QFile fid (uf_dont_dedup (j_fl j))
                            (map (work_block (uf_ignore_sparse (j_fl j)) false (uf_dont_compress (j_fl j))
                                             (uf_dont_hash (j_fl j)))
                                 (j_blocks j))])
      end in
    match drain st2 with
    | Err => Err
    | Fuel => Fuel
    | Ok st3 =>
      match j_tail j with
      | None => Ok st3
      | Some t => process_fragment st3 fid (length (j_blocks j) - 1) (j_fl j) t
      end
    end
  end.

(* a compressed fragment block comes out of the pool *)
Definition step_fragdone (st : proc) : res proc :=
  match drain st with
  | Ok st1 => Ok (set_ioq st1 (mark_first_ready (p_ioq st1)))
  | e => e
  end.

(* sqfs_block_processor_sync *)
Definition sync (st : proc) : res proc := drain (set_ioq st (mark_all_ready (p_ioq st))).

(* sqfs_block_processor_finish *)
Definition finish (st : proc) : res proc :=
  match sync st with
  | Ok st1 =>
    match p_fragblk st1 with
    | Some fb => sync (enqueue_fragblk st1 fb)
    | None => Ok st1
    end
  | e => e
  end.

(* [sched]: how many fragment blocks come back from the pool before each file *)
Fixpoint fragdone_n (n : nat) (st : proc) : res proc :=
  match n with
  | O => Ok st
  | S n' => match step_fragdone st with Ok st' => fragdone_n n' st' | e => e end
  end.

Fixpoint run_files (jobs : list fjob) (sched : list nat) (fid : nat) (st : proc) : res proc :=
  match jobs with
  | [] => Ok st
  | j :: rest =>
    match fragdone_n (hd 0 sched) st with
    | Ok st1 =>
      match step_file st1 fid j with
      | Ok st2 => run_files rest (tl sched) (S fid) st2
      | e => e
      end
    | e => e
    end
  end.

Definition pack (file0 : list N) (files : list (uflags * list N)) (sched : list nat) : res proc :=
  match run_files (map (fun f => file_job bs (fst f) (snd f)) files) sched 0 (init_proc file0) with
  | Ok st => finish st
  | e => e
  end.

(* ---------------------------------------------------------------------- *)
(* data reader (specification of the on-disk format: lib/sqfs/src/data_reader.c get_block,
   sqfs_data_reader_read) *)

Definition decode_block (f : list N) (off : nat) (w : N) (maxsz : nat) : option (list N) :=
  if sw_sparse w then Some (repeat 0%N maxsz)
  else
    let n := sw_size w in
    if maxsz <? n then None
    else
      match read_at f off n with
      | None => None
      | Some raw =>
        if sw_compressed w then
          match uncompress raw maxsz with
          | Some b => if length b =? 0 then None else Some b
          | None => None
          end
        else Some raw
      end.

Fixpoint read_blocks (f : list N) (sizes : nat -> option N) (count k off remaining : nat)
  : option (list N) :=
  match count with
  | O => Some []
  | S count' =>
    let want := Nat.min bs remaining in
    match sizes k with
    | None => None
    | Some w =>
      if sw_sparse w then
        match read_blocks f sizes count' (S k) off (remaining - want) with
        | Some r => Some (repeat 0%N want ++ r)
        | None => None
        end
      else
        match decode_block f off w bs with
        | Some b =>
          if length b =? want then
            match read_blocks f sizes count' (S k) (off + sw_size w) (remaining - want) with
            | Some r => Some (b ++ r)
            | None => None
            end
          else None
        | None => None
        end
    end
  end.

Definition block_count (size : nat) (has_frag : bool) : nat :=
  if size mod bs =? 0 then size / bs
  else if has_frag then size / bs else S (size / bs).

Definition read_file (f : list N) (nfrag : nat) (ftab : nat -> nat * N)
           (start : nat) (sizes : nat -> option N) (frag : option (nat * nat)) (size : nat)
  : option (list N) :=
  let has_frag := match frag with Some _ => true | None => false end in
  let count := block_count size has_frag in
  match read_blocks f sizes count 0 start size with
  | None => None
  | Some blocks =>
    let r := size mod bs in
    match frag with
    | Some (i, o) =>
      if r =? 0 then Some blocks
      else if i <? nfrag then
        let '(loc, w) := ftab i in
        match decode_block f loc w bs with
        | Some fb => if o + r <=? length fb then Some (blocks ++ slice fb o r) else None
        | None => None
        end
      else None
    | None => Some blocks
    end
  end.

Definition read_back (st : proc) (fid size : nat) : option (list N) :=
  read_file (w_file (p_wr st)) (p_nfrag st) (p_ftab st)
            (p_start st fid) (p_size st fid) (p_frag st fid) size.

End Processor.

(* ---------------------------------------------------------------------- *)
(* the toy compressor of the component harness (props/C08/h_dedup.c implements the same):
   a block of 5 <= n < 2^24 equal bytes x becomes [x; n as le24]; nothing else shrinks *)

Fixpoint all_eq (x : N) (l : list N) : bool :=
  match l with
  | [] => true
  | y :: r => N.eqb x y && all_eq x r
  end.

Definition toy_compress (b : list N) : option (list N) :=
  match b with
  | [] => None
  | x :: r =>
    let n := N.of_nat (length b) in
    if (5 <=? length b) && N.ltb n 16777216 && all_eq x r then
      Some [x; (n mod 256)%N; ((n / 256) mod 256)%N; ((n / 65536) mod 256)%N]
    else None
  end.

Definition toy_uncompress (c : list N) (cap : nat) : option (list N) :=
  match c with
  | [x; a; b; d] =>
    let n := N.to_nat (a + 256 * b + 65536 * d)%N in
    if (5 <=? n) && (n <=? cap) then Some (repeat x n) else None
  | _ => None
  end.

(* toy checksum of the component harness: sum of (i+1)*byte[i], modulo m (m = 0: constant 0) *)
Fixpoint toy_sum (i : N) (l : list N) : N :=
  match l with
  | [] => 0%N
  | x :: r => ((i * x) + toy_sum (i + 1) r)%N
  end.
Definition toy_hash (m : N) (l : list N) : N :=
  if N.eqb m 0 then 0%N else ((toy_sum 1 l) mod m)%N.
