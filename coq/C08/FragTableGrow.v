(* C08 — sqfs_frag_table_append over a whole list of entries, array growth included.

   [ftobj] is Util's array_t model, so the capacity ([a_count]) and array_append's growth (first capacity 128, then
   doubling, both SZ_MUL_OV tests) ARE in the model; what was open is the statement over every list length:
   appending l to an object leaves exactly the old entries followed by the new ones, the indices handed out are the
   positions, lookups return the entries, get_size = the count - across any number of growth steps.

   Capacity bound (stated, not hidden): a_used t + length l <= 2^32.  It is what makes "*index = (sqfs_u32)used" the
   position, and it also keeps both SZ_MUL_OV tests of array_append quiet (a growth step happens with count = used
   <= 2^32, so 2 * count * 16 < 2^64).

   Allocation failure: Util.ArrayModel has no realloc oracle.  [array_append_o] / [ft_append_o] add one (the bool is
   "realloc returned non-NULL"), in the order array.c has it (overflow tests, realloc, only then data / count /
   used are written); with the oracle always true it IS ft_append, and every failing call leaves the object as it was. *)
From Coq Require Import List NArith ZArith Bool Lia.
From SqfsV Require Import Gen.Constants Base.Bytes.
From SqfsV Require Import Util.GenUtil Util.HashModel Util.HashBase Util.ArrayModel.
From SqfsV Require Import Image.FinishModel Image.ImageProofs.
From SqfsV Require C05.RBase C01.Res.
From SqfsV Require Import C08.FragTableModel C08.FragTableProofs.
From SqfsV Require Import ImgData.FragLoader.
Import ListNotations.
Local Open Scope N_scope.

(* the invariant of the object: 16-byte elements, [used] elements stored, used <= capacity *)
Definition ft_inv (t : ftobj) : Prop :=
  a_size t = FSZ /\ lenN (a_data t) = a_used t /\ a_used t <= a_count t.

(* the capacity after one more append (array.c: 128 the first time, then twice the old one) *)
Definition next_count (t : ftobj) : N :=
  if a_used t =? a_count t then (if a_count t =? 0 then 128 else a_count t * 2) else a_count t.

Lemma ft_create_inv : ft_inv ft_create.
Proof. unfold ft_inv. cbn. repeat split; try reflexivity; try lia. Qed.

Lemma ft_holding_inv l : ft_inv (ft_holding l).
Proof. unfold ft_inv, ft_holding, mk_ft. cbn. unfold lenN, Res.nlen. rewrite map_length. repeat split; lia. Qed.

(* ---- one append ---- *)
Lemma ft_append_step t a b :
  ft_inv t -> a_used t < RBase.two32 ->
  ft_append t a b =
  (0%Z, mk_ft FSZ (next_count t) (a_used t + 1) (a_data t ++ [frag_entry (a, b)]), a_used t).
Proof.
  intros (Hs & Hl & Hu) Hb. unfold ft_append, array_append, next_count, ft_entry.
  rewrite (N.mod_small _ _ Hb), Hs. change RBase.two32 with 4294967296 in Hb.
  destruct (a_used t =? a_count t) eqn:Ef.
  - apply N.eqb_eq in Ef. destruct (a_count t =? 0) eqn:E0.
    + reflexivity.
    + unfold sz_ov. change util_array_growth with 2. change util_size_max with 18446744073709551615.
      change FSZ with 16.
      destruct (N.ltb_spec 18446744073709551615 (a_count t * 2)) as [H|_]; [exfalso; lia|].
      destruct (N.ltb_spec 18446744073709551615 (a_count t * 2 * 16)) as [H|_]; [exfalso; lia|].
      reflexivity.
  - reflexivity.
Qed.

Lemma ft_step_inv t x :
  ft_inv t -> ft_inv (mk_ft FSZ (next_count t) (a_used t + 1) (a_data t ++ [x])).
Proof.
  intros (Hs & Hl & Hu). unfold ft_inv, mk_ft, next_count. cbn [a_size a_count a_used a_data].
  rewrite lenN_app, Hl. split; [reflexivity|]. split; [reflexivity|].
  destruct (N.eqb_spec (a_used t) (a_count t)) as [E|E].
  - destruct (N.eqb_spec (a_count t) 0); lia.
  - lia.
Qed.

Lemma next_count_ge t : a_count t <= next_count t.
Proof.
  unfold next_count. destruct (a_used t =? a_count t); [|lia]. destruct (N.eqb_spec (a_count t) 0); lia.
Qed.

(* ---- a list of appends: the object afterwards ---- *)
Lemma ft_appends_state : forall l t,
  ft_inv t -> a_used t + lenN l <= RBase.two32 ->
  ft_inv (ft_appends t l) /\
  a_data (ft_appends t l) = a_data t ++ map frag_entry l /\
  a_used (ft_appends t l) = a_used t + lenN l /\
  a_count t <= a_count (ft_appends t l).
Proof.
  induction l as [|[a b] l IH]; intros t I B.
  - cbn [ft_appends map]. rewrite app_nil_r. change (lenN (@nil (N * N))) with 0. rewrite N.add_0_r. split; [exact I|]. split; [reflexivity|]. split; [reflexivity|]. lia.
  - rewrite lenN_cons in B. cbn [ft_appends fst snd].
    rewrite (ft_append_step t a b I) by lia. cbn [fst snd].
    set (t1 := mk_ft FSZ (next_count t) (a_used t + 1) (a_data t ++ [frag_entry (a, b)])).
    assert (I1 : ft_inv t1) by (apply ft_step_inv; exact I).
    assert (B1 : a_used t1 + lenN l <= RBase.two32) by (unfold t1, mk_ft; cbn [a_used]; lia).
    destruct (IH t1 I1 B1) as (J & D & U & C). split; [exact J|]. split; [|split].
    + rewrite D. unfold t1, mk_ft. cbn [a_data map]. rewrite <- app_assoc. reflexivity.
    + rewrite U, lenN_cons. unfold t1, mk_ft. cbn [a_used]. lia.
    + pose proof (next_count_ge t). assert (Q : a_count t1 = next_count t) by reflexivity. lia.
Qed.

(* ---- what every call returned: (return value, *index) ---- *)
Fixpoint ft_appends_res (t : ftobj) (l : list (N * N)) : list (Z * N) :=
  match l with
  | [] => []
  | f :: r => let '(rc, t', i) := ft_append t (fst f) (snd f) in (rc, i) :: ft_appends_res t' r
  end.

Fixpoint idx_from (start : N) (n : nat) : list (Z * N) :=
  match n with
  | O => []
  | S n' => (0%Z, start) :: idx_from (start + 1) n'
  end.

Lemma ft_appends_indices : forall l t,
  ft_inv t -> a_used t + lenN l <= RBase.two32 ->
  ft_appends_res t l = idx_from (a_used t) (length l).
Proof.
  induction l as [|[a b] l IH]; intros t I B; [reflexivity|].
  rewrite lenN_cons in B. cbn [ft_appends_res fst snd length idx_from].
  rewrite (ft_append_step t a b I) by lia. f_equal.
  rewrite IH.
  - reflexivity.
  - apply ft_step_inv; exact I.
  - unfold mk_ft. cbn [a_used]. lia.
Qed.

Lemma idx_from_nth : forall n s k, (k < n)%nat -> nth_error (idx_from s n) k = Some (0%Z, s + N.of_nat k).
Proof.
  induction n; intros s k H; [lia|]. destruct k as [|k]; cbn [idx_from nth_error].
  - f_equal. f_equal. lia.
  - rewrite IHn by lia. f_equal. f_equal. lia.
Qed.

(* ---- THE statement ---- *)
Theorem ft_appends_holds : forall t l,
  ft_inv t -> a_used t + lenN l <= RBase.two32 ->
  let t' := ft_appends t l in
  (* the object: old entries, then the appended ones; still an object; the capacity never shrinks *)
  ft_inv t' /\ a_data t' = a_data t ++ map frag_entry l /\ a_count t <= a_count t' /\
  (* sqfs_frag_table_get_size *)
  ft_get_size t' = ft_get_size t + lenN l /\
  (* every call returned 0 and *index = the position of the new entry = the count before the call *)
  (forall k, (k < length l)%nat -> nth_error (ft_appends_res t l) k = Some (0%Z, ft_get_size t + N.of_nat k)) /\
  (* lookups: old indices answer as before, new ones with the appended entry (location: u64, size: u32, as the C
     parameter types make them), everything beyond is out of bounds *)
  (forall i, i < ft_get_size t -> ft_lookup t' i = ft_lookup t i) /\
  (forall k f, nth_error l k = Some f -> frag_okb f = true ->
     ft_lookup t' (ft_get_size t + N.of_nat k) = RBase.Ok (fst f, snd f, 0)) /\
  (forall i, ft_get_size t + lenN l <= i -> ft_lookup t' i = RBase.Err RBase.E_OOB).
Proof.
  intros t l I B. cbv zeta. destruct (ft_appends_state l t I B) as (J & D & U & C).
  destruct I as (Hs & Hl & Hu). unfold ft_get_size.
  split; [exact J|]. split; [exact D|]. split; [exact C|]. split; [exact U|].
  assert (Ln : length (a_data t) = N.to_nat (a_used t)) by (unfold lenN in Hl; lia).
  split; [|split; [|split]].
  - intros k Hk. rewrite ft_appends_indices by (try assumption; repeat split; assumption).
    apply idx_from_nth. exact Hk.
  - intros i Hi. unfold ft_lookup, array_get. rewrite U, D.
    destruct (N.leb_spec (a_used t + lenN l) i) as [H|_]; [lia|].
    destruct (N.leb_spec (a_used t) i) as [H|_]; [lia|].
    rewrite !nthN_nth_error, nth_error_app1 by lia. reflexivity.
  - intros k f Hn Fk. unfold ft_lookup, array_get. rewrite U, D.
    assert (Hk : (k < length l)%nat) by (apply nth_error_Some; congruence).
    destruct (N.leb_spec (a_used t + lenN l) (a_used t + N.of_nat k)) as [H|_]; [unfold lenN in H; lia|].
    rewrite nthN_nth_error, nth_error_app2 by lia.
    replace (N.to_nat (a_used t + N.of_nat k) - length (a_data t))%nat with k by lia.
    rewrite nth_error_map, Hn. cbn [option_map].
    destruct f as [a b]. destruct (frag_okb_bounds _ Fk) as [Ha Hb]. cbn [fst snd] in Ha, Hb |- *.
    destruct (frag_entry_fields a b Ha Hb) as (E1 & E2 & E3). rewrite E1, E2, E3. reflexivity.
  - intros i Hi. unfold ft_lookup, array_get. rewrite U.
    destruct (N.leb_spec (a_used t + lenN l) i) as [_|H]; [reflexivity|lia].
Qed.

(* from sqfs_frag_table_create: the object the writer-side theorem (frag_table_write_is_image_step) is about and,
   but for the capacity, the object sqfs_frag_table_read leaves on the image written from it ([ft_holding]) *)
Corollary ft_appends_create : forall l,
  lenN l <= RBase.two32 ->
  ft_appends ft_create l = mk_ft FSZ (a_count (ft_appends ft_create l)) (Res.nlen l) (map frag_entry l) /\
  ft_pairs (ft_appends ft_create l) = ft_pairs (ft_holding l) /\
  ft_get_size (ft_appends ft_create l) = ft_get_size (ft_holding l) /\
  (forall i, ft_lookup (ft_appends ft_create l) i = ft_lookup (ft_holding l) i).
Proof.
  intros l B.
  assert (B0 : a_used ft_create + lenN l <= RBase.two32) by (change (a_used ft_create) with 0; lia).
  destruct (ft_appends_state l ft_create ft_create_inv B0) as ((Hs & _ & _) & D & U & _).
  change (a_data ft_create) with (@nil fent) in D. change (a_used ft_create) with 0 in U. cbn [app] in D.
  assert (E : ft_appends ft_create l = mk_ft FSZ (a_count (ft_appends ft_create l)) (Res.nlen l) (map frag_entry l)).
  { destruct (ft_appends ft_create l) as [s c u d]. cbn [a_size a_count a_used a_data] in *. subst.
    unfold mk_ft. f_equal. }
  split; [exact E|]. rewrite E. split; [reflexivity|]. split; [reflexivity|]. intro i. reflexivity.
Qed.

(* ---- allocation failure ---- *)
Section Oracle.
Variable E : Type.
(* array_append with the result of realloc as an input: [ok] = "realloc returned non-NULL" (consulted only when the
   array has to grow and both SZ_MUL_OV tests passed, as in array.c) *)
Definition array_append_o (ok : bool) (a : arr E) (x : E) : Z * arr E :=
  let grown :=
    if a_used a =? a_count a then
      let new_count := if a_count a =? 0 then util_array_first_count else a_count a * util_array_growth in
      if sz_ov new_count then None
      else if sz_ov (new_count * a_size a) then None
      else if ok then Some new_count else None
    else Some (a_count a) in
  match grown with
  | None => (c_SQFS_ERROR_ALLOC, a)
  | Some c => (0%Z, mk_arr E (a_size a) c (a_used a + 1) (a_data a ++ [x]))
  end.

Lemma array_append_o_true a x : array_append_o true a x = array_append E a x.
Proof. reflexivity. Qed.

Lemma array_append_o_fail ok a x : fst (array_append_o ok a x) <> 0%Z -> array_append_o ok a x = (c_SQFS_ERROR_ALLOC, a).
Proof.
  unfold array_append_o. destruct (a_used a =? a_count a).
  - destruct (sz_ov _); [reflexivity|]. destruct (sz_ov _); [reflexivity|]. destruct ok; [|reflexivity].
    cbn [fst]. intro H. exfalso. apply H. reflexivity.
  - cbn [fst]. intro H. exfalso. apply H. reflexivity.
Qed.

Lemma array_append_o_false_full a x : a_used a = a_count a -> array_append_o false a x = (c_SQFS_ERROR_ALLOC, a).
Proof.
  intro H. unfold array_append_o. rewrite H, N.eqb_refl.
  destruct (sz_ov _); [reflexivity|]. destruct (sz_ov _); reflexivity.
Qed.
End Oracle.

(* sqfs_frag_table_append with the oracle: on error *index is not written (modelled: the index is still reported,
   the caller must not use it - C leaves the caller's variable alone) *)
Definition ft_append_o (ok : bool) (t : ftobj) (location size : N) : Z * ftobj * N :=
  let '(r, t') := array_append_o fent ok t (ft_entry location size) in
  (r, t', a_used t mod RBase.two32).

Theorem ft_append_o_no_failure t a b : ft_append_o true t a b = ft_append t a b.
Proof. reflexivity. Qed.

(* a failed append - whatever the reason, whatever the state - changes nothing: entries, count, capacity *)
Theorem ft_append_failure_keeps_entries ok t a b :
  fst (fst (ft_append_o ok t a b)) <> 0%Z ->
  fst (fst (ft_append_o ok t a b)) = c_SQFS_ERROR_ALLOC /\
  snd (fst (ft_append_o ok t a b)) = t /\
  (forall i, ft_lookup (snd (fst (ft_append_o ok t a b))) i = ft_lookup t i) /\
  ft_get_size (snd (fst (ft_append_o ok t a b))) = ft_get_size t.
Proof.
  unfold ft_append_o. intro H.
  assert (F : array_append_o fent ok t (ft_entry a b) = (c_SQFS_ERROR_ALLOC, t)).
  { apply array_append_o_fail. destruct (array_append_o fent ok t (ft_entry a b)). exact H. }
  rewrite F. cbn [fst snd]. repeat split; reflexivity.
Qed.

(* and it does fail when the table is full and realloc says no *)
Theorem ft_append_refused_when_full t a b :
  a_used t = a_count t -> ft_append_o false t a b = (c_SQFS_ERROR_ALLOC, t, a_used t mod RBase.two32).
Proof. intro H. unfold ft_append_o. rewrite array_append_o_false_full by exact H. reflexivity. Qed.

(* ---- examples (vm_compute), through the growth steps 0 -> 128 -> 256 -> 512 ---- *)
Definition ex_entries (n : nat) : list (N * N) :=
  map (fun k => (96 + 1000 * N.of_nat k, if Nat.even k then 300 + N.of_nat k else 16777216 + N.of_nat k)) (seq 0 n).

Definition counts_along (t : ftobj) (l : list (N * N)) : list N :=
  (fix go (t : ftobj) (l : list (N * N)) (last : N) : list N :=
     match l with
     | [] => []
     | f :: r => let t' := snd (fst (ft_append t (fst f) (snd f))) in
                 if a_count t' =? last then go t' r last else a_count t' :: go t' r (a_count t')
     end) t l (a_count t).

Example ex_grow_from_create :
  let l := ex_entries 300 in
  let t := ft_appends ft_create l in
  forallb frag_okb l = true /\
  counts_along ft_create l = [128; 256; 512] /\
  a_count t = 512 /\ ft_get_size t = 300 /\ ft_pairs t = l /\
  ft_appends_res ft_create l = idx_from 0 300 /\
  ft_lookup t 0 = RBase.Ok (96, 300, 0) /\
  ft_lookup t 128 = RBase.Ok (128096, 428, 0) /\
  ft_lookup t 257 = RBase.Ok (257096, 16777473, 0) /\
  ft_lookup t 299 = RBase.Ok (299096, 16777515, 0) /\
  ft_lookup t 300 = RBase.Err RBase.E_OOB.
Proof. vm_compute. repeat split; reflexivity. Qed.

(* a LOADED table (count = used = 3, as sqfs_frag_table_read leaves it) grows 3 -> 6 -> 12 *)
Example ex_grow_from_loaded :
  let t0 := ft_holding (ex_entries 3) in
  let l := skipn 3 (ex_entries 10) in
  let t := ft_appends t0 l in
  counts_along t0 l = [6; 12] /\
  ft_pairs t = ex_entries 10 /\ ft_get_size t = 10 /\
  ft_appends_res t0 l = idx_from 3 7 /\
  ft_lookup t 2 = ft_lookup t0 2 /\ ft_lookup t 9 = RBase.Ok (9096, 16777225, 0).
Proof. vm_compute. repeat split; reflexivity. Qed.

(* the oracle: a full table (128 of 128) refuses, and is left as it was; a table with room does not ask *)
Example ex_append_refused :
  let t := ft_appends ft_create (ex_entries 128) in
  a_used t = a_count t /\
  ft_append_o false t 5 6 = (c_SQFS_ERROR_ALLOC, t, 128) /\
  fst (fst (ft_append_o true t 5 6)) = 0%Z /\ a_count (snd (fst (ft_append_o true t 5 6))) = 256 /\
  let t2 := ft_appends ft_create (ex_entries 5) in ft_append_o false t2 5 6 = ft_append t2 5 6.
Proof. vm_compute. repeat split; reflexivity. Qed.

(* the bound is needed for "index = position": at used = 2^32 the u32 index wraps to 0 *)
Example ex_index_wraps :
  snd (ft_append (mk_ft FSZ 8589934592 4294967296 []) 1 2) = 0 /\
  a_used (snd (fst (ft_append (mk_ft FSZ 8589934592 4294967296 []) 1 2))) = 4294967297.
Proof. vm_compute. split; reflexivity. Qed.
