(* C08 — the lemmas Properties_C08.v exports, in closed form. *)
From Coq Require Import List NArith Arith Bool Lia.
From SqfsV Require Import Gen.Constants C08.GenC08.
From SqfsV Require Import C08.DedupModel C08.DedupLemmas C08.DedupWriterProofs
     C08.DedupReaderProofs C08.DedupPipeProofs.
Import ListNotations.

(* ---------------------------------------------------------------------- *)
(* the literals of the model are the ones of the working tree (GenC08.v and Gen/Constants.v are
   regenerated from the sources on every run) *)

Lemma model_constants_match :
  two24 = c08_UNCOMPRESSED_BIT /\ two24 = c08_ON_DISK_SIZE_RANGE /\
  two24 = c08_SIZE_FROM_HASH_RANGE /\
  c08_MK_BLK_HASH_0_1 = (2 ^ 32)%N /\ c08_MK_BLK_HASH_1_0 = 1%N /\
  c08_SIZE_FROM_HASH_OF_UNCOMPRESSED_5 = 5%N.
Proof. repeat split; reflexivity. Qed.

(* SCRATCH_SIZE / 2 of block_writer.c: the comparison window of check_file_range_equal *)
Definition half_scratch : nat := N.to_nat (c08_SCRATCH_SIZE / 2).

Lemma half_scratch_pos : 0 < half_scratch.
Proof.
  unfold half_scratch.
  assert (H : (0 < c08_SCRATCH_SIZE / 2)%N) by (vm_compute; reflexivity).
  lia.
Qed.

(* every block size the super block accepts keeps the size word inside its 24 bits *)
Lemma max_block_size_small bs : (N.of_nat bs <= c_SQFS_MAX_BLOCK_SIZE)%N -> small bs.
Proof.
  unfold small. intro H.
  assert (L : (c_SQFS_MAX_BLOCK_SIZE < two24)%N) by (vm_compute; reflexivity).
  lia.
Qed.

(* ---------------------------------------------------------------------- *)
(* dedup_sound / frag_source_agree *)

Section Top.
Variable hashf : list N -> N.
Variable compress : list N -> option (list N).
Variable uncompress : list N -> nat -> option (list N).
Variable bs half : nat.
Hypothesis Hcomp : forall b c, compress b = Some c ->
  length c < length b /\ forall n, length b <= n -> uncompress c n = Some b.
Hypothesis Hbs : 0 < bs.
Hypothesis Hmax : (N.of_nat bs <= c_SQFS_MAX_BLOCK_SIZE)%N.
Hypothesis Hhalf : 0 < half.

Lemma dedup_sound_l file0 files sched :
  exists st,
    pack hashf compress uncompress bs false true half file0 files sched = Ok st /\
    (forall fid fl d, nth_error files fid = Some (fl, d) ->
                      read_back uncompress bs st fid (length d) = Some d) /\
    firstn (length file0) (w_file (p_wr st)) = file0.
Proof.
  apply (dedup_sound_sec hashf compress uncompress bs half (length file0) Hcomp Hbs
           (max_block_size_small bs Hmax) Hhalf files file0 sched eq_refl).
Qed.

Lemma frag_source_agree_l file0 files n sched st :
  run_files hashf compress uncompress bs false true half
            (firstn n (map (fun f => file_job bs (fst f) (snd f)) files)) sched 0 (init_proc file0)
  = Ok st ->
  forall fid fl data idx o t,
    nth_error files fid = Some (fl, data) -> p_frag st fid = Some (idx, o) ->
    j_tail (file_job bs fl data) = Some t ->
    exists d ca,
      frag_lookup uncompress bs st (p_cached st) idx = Some (d, ca) /\
      o + length t <= length d /\ slice d o (length t) = t.
Proof.
  apply (frag_source_agree_sec hashf compress uncompress bs half (length file0) Hcomp Hbs
           (max_block_size_small bs Hmax) Hhalf files file0 n sched st eq_refl).
Qed.

End Top.

(* ---------------------------------------------------------------------- *)
(* writer_ranges_stable: the block writer alone, under any sequence of files and loose blocks *)

Inductive wop :=
| WGroup (dont_dedup : bool) (blocks : list pblock)    (* one file: FIRST ... LAST *)
| WSingle (pb : pblock).                               (* a block outside of any file *)

Fixpoint wgroup (half : nat) (w : writer) (dd : bool) (k : nat) (blocks : list pblock)
  : option (writer * nat) :=
  match blocks with
  | [] => None
  | b :: rest =>
    let last := match rest with [] => true | _ => false end in
    match write_data_block false half w (mkfl b (k =? 0) last dd) (pb_chk b) (pb_data b) with
    | WOk w' loc _ => if last then Some (w', loc) else wgroup half w' dd (S k) rest
    | _ => None
    end
  end.

(* runs the operations; collects (returned location, bytes the caller expects there) *)
Fixpoint wrun (half : nat) (ops : list wop) (w : writer) (acc : list (nat * list N))
  : option (writer * list (nat * list N)) :=
  match ops with
  | [] => Some (w, acc)
  | WGroup dd blocks :: r =>
    match blocks with
    | [] => wrun half r w acc
    | _ :: _ =>
      match wgroup half w dd 0 blocks with
      | Some (w', loc) => wrun half r w' ((loc, cat (filter stored blocks)) :: acc)
      | None => None
      end
    end
  | WSingle pb :: r =>
    match write_data_block false half w (mkfl pb false false false) (pb_chk pb) (pb_data pb) with
    | WOk w' loc _ => wrun half r w' ((loc, if stored pb then pb_data pb else []) :: acc)
    | _ => None
    end
  end.

Definition op_small (op : wop) : Prop :=
  match op with
  | WGroup _ bl => all_small bl
  | WSingle pb => small (length (pb_data pb))
  end.

Section WriterTop.
Variable half : nat.
Hypothesis Hhalf : 0 < half.
Variable base : nat.

Lemma wgroup_ok dd : forall blocks w k claims pre hist cur,
  blocks <> [] -> all_small blocks ->
  (if k =? 0 then WInv base w claims /\ pre = w_file w /\ hist = w_blocks w /\ cur = []
   else WOpen base w claims pre hist cur) ->
  exists w' loc,
    wgroup half w dd k blocks = Some (w', loc) /\
    WInv base w' ((loc, cat (cur ++ filter stored blocks)) :: claims).
Proof.
  induction blocks as [|b rest IH]; intros w k claims pre hist cur Hne Hsm Hpre; [contradiction|].
  inversion Hsm as [|? ? Hsb Hsm']; subst. cbn [wgroup].
  destruct rest as [|b2 rest'].
  - destruct (wdb_last half Hhalf base w claims pre hist cur b (k =? 0) dd Hpre Hsb)
      as (w' & loc & evs' & E & I & _).
    rewrite E. exists w', loc. split; [reflexivity|].
    rewrite <- add_cur_filter. cbn [filter]. rewrite app_nil_r. exact I.
  - destruct (wdb_nonlast half base w claims pre hist cur b (k =? 0) dd Hpre Hsb) as (w1 & E & HO).
    rewrite E.
    destruct (IH w1 (S k) claims pre hist (add_cur cur b)) as (w' & loc & R1 & R2);
      [discriminate|assumption|exact HO|].
    exists w', loc. split; [exact R1|]. rewrite <- add_cur_filter. exact R2.
Qed.

Lemma wrun_ok : forall ops w claims acc,
  Forall op_small ops -> WInv base w claims -> incl acc claims ->
  exists w' acc' claims',
    wrun half ops w acc = Some (w', acc') /\ WInv base w' claims' /\
    incl acc' claims' /\ incl claims claims'.
Proof.
  induction ops as [|op ops IH]; intros w claims acc Hsm HI Hacc.
  - exists w, acc, claims. split; [reflexivity|]. split; [assumption|].
    split; [assumption|apply incl_refl].
  - inversion Hsm as [|? ? Hop Hsm']; subst. destruct op as [dd blocks|pb]; cbn [wrun].
    + destruct blocks as [|b0 bl].
      * apply IH; assumption.
      * destruct (wgroup_ok dd (b0 :: bl) w 0 claims (w_file w) (w_blocks w) [])
          as (w' & loc & E & I); [discriminate|exact Hop|simpl; tauto|].
        rewrite E. simpl (cat ([] ++ _)) in I.
        destruct (IH w' _ ((loc, cat (filter stored (b0 :: bl))) :: acc) Hsm' I)
          as (w2 & acc2 & claims2 & E2 & I2 & A2 & C2).
        { intros x [Hx|Hx]; [left; assumption|right; apply Hacc; assumption]. }
        exists w2, acc2, claims2. split; [exact E2|]. split; [exact I2|]. split; [exact A2|].
        intros x Hx. apply C2. right. assumption.
    + destruct (wdb_single half base w claims pb false HI Hop) as (w1 & E & I & _).
      rewrite E.
      destruct (IH w1 _ ((length (w_file w), if stored pb then pb_data pb else []) :: acc) Hsm' I)
        as (w2 & acc2 & claims2 & E2 & I2 & A2 & C2).
      { intros x [Hx|Hx]; [left; assumption|right; apply Hacc; assumption]. }
      exists w2, acc2, claims2. split; [exact E2|]. split; [exact I2|]. split; [exact A2|].
      intros x Hx. apply C2. right. assumption.
Qed.

End WriterTop.

Lemma writer_ranges_stable_l half ops file0 :
  0 < half -> Forall op_small ops ->
  exists w' ranges,
    wrun half ops {| w_file := file0; w_blocks := []; w_fstart := 0 |} [] = Some (w', ranges) /\
    Forall (fun r => fst r + length (snd r) <= length (w_file w') /\
                     slice (w_file w') (fst r) (length (snd r)) = snd r) ranges /\
    firstn (length file0) (w_file w') = file0.
Proof.
  intros Hh Hsm.
  destruct (wrun_ok half Hh (length file0) ops {| w_file := file0; w_blocks := []; w_fstart := 0 |}
                    [(0, file0)] [] Hsm) as (w' & acc' & claims' & E & [_ _ _ Cl] & A & C).
  - constructor; simpl; [exact I|rewrite total_nil; lia|lia|].
    constructor; [|constructor]. split; simpl; [lia|apply slice_all].
  - intros x [].
  - exists w', acc'. split; [exact E|]. rewrite Forall_forall in Cl. split.
    + apply Forall_forall. intros r Hr. apply (Cl r). apply A. assumption.
    + destruct (Cl (0, file0)) as [_ H]; [apply C; left; reflexivity|]. exact H.
Qed.

(* ---------------------------------------------------------------------- *)
(* dedup_complete for block runs: a file whose blocks (size words, checksums, bytes) already sit
   completely inside the history is not stored again - file and history are cut back to what
   they were before its first block, and the location handed out holds the same bytes *)

Lemma dedup_complete_blocks_l half base w claims pre hist cur j evs :
  0 < half ->
  WOpen base w claims pre hist cur -> cur <> [] ->
  j + length cur <= length hist ->
  hashes_match (firstn (length cur) (skipn j hist)) (infos (length pre) cur) = true ->
  slice pre (bi_off (nth j hist dflt_bi)) (length (cat cur)) = cat cur ->
  exists loc evs',
    deduplicate_blocks false half w false evs
    = WOk {| w_file := pre; w_blocks := hist; w_fstart := length hist |} loc evs' /\
    loc <= bi_off (nth j hist dflt_bi) /\
    slice pre loc (length (cat cur)) = cat cur.
Proof.
  intros Hhalf HO Hne Hj Hm Hs.
  pose proof (open_facts half Hhalf base _ _ _ _ _ HO) as HF. cbv zeta in HF.
  destruct HF as (Hch & Hend & Hcnt & Hsk & Htot & Hpre & Hlen).
  destruct HO as [Hf Hb Hfs Hc He Hcl Hsm].
  unfold deduplicate_blocks. rewrite Hcnt.
  destruct (length cur =? 0) eqn:E0; [apply Nat.eqb_eq in E0; destruct cur; [contradiction|discriminate]|].
  apply Nat.eqb_neq in E0.
  assert (Hloca : bi_off (nth (w_fstart w) (w_blocks w) dflt_bi) = length pre).
  { rewrite (chain_nth_off base _ _ _ Hch) by lia. lia. }
  rewrite Hloca, Hsk. fold (total (infos (length pre) cur)). rewrite Htot.
  set (B := w_blocks w) in *. set (count := length cur) in *. set (sz := length (cat cur)) in *.
  set (cinf := infos (length pre) cur) in *.
  assert (HBj : forall i, i + count <= length hist ->
                          firstn count (skipn i B) = firstn count (skipn i hist)).
  { intros i Hi. rewrite Hb, skipn_app, firstn_app, skipn_length.
    replace (count - (length hist - i)) with 0 by lia. simpl. apply app_nil_r. }
  assert (Hnth : forall i, i < length hist -> nth i B dflt_bi = nth i hist dflt_bi).
  { intros i Hi. rewrite Hb. apply app_nth1. assumption. }
  assert (Hrange : forall i, 0 <= i < 0 + w_fstart w ->
             hashes_match (firstn count (skipn i B)) cinf = true ->
             bi_off (nth i B dflt_bi) + sz <= length (w_file w)).
  { intros i Hi Hmi. apply hashes_match_spec in Hmi. destruct Hmi as [Hl Ht].
    unfold cinf in Hl, Ht. rewrite infos_length in Hl, Ht. fold cinf in Ht.
    rewrite (chain_nth_off base B i _ Hch) by lia.
    assert (Hfl : firstn (length cur) (firstn count (skipn i B)) = firstn count (skipn i B)).
    { rewrite firstn_firstn. f_equal. unfold count. lia. }
    rewrite Hfl in Ht.
    pose proof (total_firstn_skipn B i count) as T1.
    pose proof (total_firstn_le B (i + count)) as T2. lia. }
  assert (Hfile_a : slice (w_file w) (length pre) sz = cat cur).
  { rewrite Hf. apply slice_app_mid'. }
  assert (Hoffj : bi_off (nth j hist dflt_bi) + sz <= length pre).
  { rewrite <- (Hnth j) by lia. rewrite (chain_nth_off base B j _ Hch) by lia.
    pose proof (hashes_match_spec _ _ Hm) as [Hl Ht].
    unfold cinf in Hl, Ht. rewrite infos_length in Hl, Ht. fold cinf in Ht. fold count in Ht, Hl.
    assert (Hfl : firstn count (firstn count (skipn j hist)) = firstn count (skipn j hist)).
    { rewrite firstn_firstn. f_equal. lia. }
    rewrite Hfl in Ht. rewrite <- (HBj j) in Ht by lia.
    pose proof (total_firstn_skipn B j count) as T1.
    pose proof (total_firstn_mono B (j + count) (w_fstart w) ltac:(lia)) as T2. lia. }
  destruct (find_match_complete half Hhalf (w_file w) B cinf count (length pre) sz (w_fstart w) 0 j)
    as (j' & FM & Hj'); try lia; try assumption.
  - rewrite HBj by lia. assumption.
  - rewrite Hfile_a, Hnth by lia. rewrite Hf, slice_app_l by assumption. symmetry. assumption.
  - rewrite FM.
    pose proof (find_match_spec half Hhalf (w_file w) B cinf count (length pre) sz _ _ _ FM) as (Hi & Hm' & Hr).
    assert (Hu : (if w_fstart w - j' <=? count then j' + count else w_fstart w) = w_fstart w).
    { destruct (w_fstart w - j' <=? count) eqn:El; [apply Nat.leb_le in El; lia|reflexivity]. }
    rewrite Hu.
    pose proof (chain_last_end base B (w_fstart w) dflt_bi Hch ltac:(lia)) as Hts. rewrite Hts.
    assert (Htsz : base + total (firstn (w_fstart w) B) = length pre) by lia. rewrite Htsz.
    eexists _, _. split.
    + f_equal. rewrite truncate_le by lia. rewrite Hf, firstn_app, firstn_all, Nat.sub_diag.
      simpl. rewrite app_nil_r. fold B. rewrite Hb, Hfs, firstn_app, firstn_all, Nat.sub_diag.
      simpl. rewrite app_nil_r. reflexivity.
    + pose proof (Hrange j' ltac:(lia) Hm') as Hb'.
      destruct (range_equal_spec (S sz) half (w_file w) (length pre) (bi_off (nth j' B dflt_bi)) sz)
        as [[_ Heq]|[R _]]; try lia; [|congruence].
      assert (Hoff' : bi_off (nth j' B dflt_bi) <= bi_off (nth j hist dflt_bi)).
      { rewrite <- (Hnth j) by lia.
        rewrite (chain_nth_off base B j' _ Hch), (chain_nth_off base B j _ Hch) by lia.
        pose proof (total_firstn_mono B j' j Hj'). lia. }
      split; [exact Hoff'|].
      rewrite Hfile_a in Heq. rewrite Heq. rewrite Hf. symmetry. apply slice_app_l. lia.
Qed.

(* ---------------------------------------------------------------------- *)
(* dedup_hash_only_unsound_refuted: without the byte comparison a colliding checksum aliases data *)

Definition fl0 : uflags :=
  {| uf_dont_compress := false; uf_dont_hash := false; uf_dont_fragment := false;
     uf_dont_dedup := false; uf_ignore_sparse := false |}.

Definition no_compress (b : list N) : option (list N) := None.
Definition no_uncompress (c : list N) (n : nat) : option (list N) := None.
Definition const_hash (b : list N) : N := 0%N.

(* two different one-block files (block size 4), constant checksum, block writer created with
   SQFS_BLOCK_WRITER_HASH_COMPARE_ONLY: the second file reads back as the first *)
Definition witness_files_blocks : list (uflags * list N) :=
  [(fl0, [1; 2; 3; 4]%N); (fl0, [5; 6; 7; 8]%N)].

Lemma hash_only_aliases_blocks :
  exists st, pack const_hash no_compress no_uncompress 4 true true 4096 [] witness_files_blocks [] = Ok st /\
             read_back no_uncompress 4 st 1 4 = Some [1; 2; 3; 4]%N.
Proof. eexists. split; vm_compute; reflexivity. Qed.

(* two different two-byte files, processor created without file / uncompressor (no byte
   comparison possible in chunk_info_equals): the second file reads back as the first *)
Definition witness_files_frags : list (uflags * list N) :=
  [(fl0, [1; 2]%N); (fl0, [3; 4]%N)].

Lemma no_bytecmp_aliases_fragments :
  exists st, pack const_hash no_compress no_uncompress 4 false false 4096 [] witness_files_frags [] = Ok st /\
             read_back no_uncompress 4 st 1 2 = Some [1; 2]%N.
Proof. eexists. split; vm_compute; reflexivity. Qed.

(* ---------------------------------------------------------------------- *)
(* the toy compressor of the component harness satisfies the compressor contract
   (non-vacuity of the hypothesis of dedup_sound) *)

Lemma all_eq_repeat x l : all_eq x l = true -> l = repeat x (length l).
Proof.
  induction l as [|y l IH]; simpl; intro H; [reflexivity|].
  apply andb_true_iff in H. destruct H as [H1 H2]. apply N.eqb_eq in H1. subst y.
  rewrite <- IH by assumption. reflexivity.
Qed.

Lemma le24_roundtrip n : (n < 16777216)%N ->
  (n mod 256 + 256 * ((n / 256) mod 256) + 65536 * ((n / 65536) mod 256))%N = n.
Proof.
  intro H.
  pose proof (N.div_mod n 256 ltac:(discriminate)) as D1.
  pose proof (N.div_mod (n / 256) 256 ltac:(discriminate)) as D2.
  assert (E : (n / 65536 = n / 256 / 256)%N) by (rewrite N.div_div by discriminate; reflexivity).
  assert (S3 : (n / 65536 < 256)%N) by (apply N.div_lt_upper_bound; [discriminate|exact H]).
  rewrite (N.mod_small (n / 65536) 256) by assumption. rewrite E in *. lia.
Qed.

Lemma toy_contract : forall b c, toy_compress b = Some c ->
  length c < length b /\ forall n, length b <= n -> toy_uncompress c n = Some b.
Proof.
  intros b c H. unfold toy_compress in H. destruct b as [|x r]; [discriminate|].
  destruct ((5 <=? length (x :: r)) && (N.of_nat (length (x :: r)) <? 16777216)%N && all_eq x r) eqn:E;
    [|discriminate].
  apply andb_true_iff in E. destruct E as [E E3]. apply andb_true_iff in E. destruct E as [E1 E2].
  apply Nat.leb_le in E1. apply N.ltb_lt in E2.
  remember (x :: r) as b eqn:Eb. injection H as Hc. subst c.
  split; [simpl; lia|].
  intros n Hn. unfold toy_uncompress.
  rewrite le24_roundtrip by assumption. rewrite Nat2N.id. subst b.
  destruct (5 <=? length (x :: r)) eqn:F1; [|apply Nat.leb_gt in F1; lia].
  destruct (length (x :: r) <=? n) eqn:F2; [|apply Nat.leb_gt in F2; lia].
  simpl. f_equal. f_equal. symmetry. apply all_eq_repeat. assumption.
Qed.
