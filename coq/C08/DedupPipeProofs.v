(* C08 — the block processor: invariant of the pipeline state under every schedule of
   "fragment block comes back from the pool" events. *)
From Coq Require Import List NArith Arith Bool Lia.
From SqfsV Require Import C08.DedupModel C08.DedupLemmas C08.DedupWriterProofs C08.DedupReaderProofs.
Import ListNotations.

(* split syntactic conjunctions only (plain [repeat split] would unfold definitions) *)
Ltac splits := repeat match goal with |- _ /\ _ => split end.

(* ---------------------------------------------------------------------- *)
(* queue helpers *)

Fixpoint qfids (q : list qitem) : list nat :=
  match q with
  | [] => []
  | QFile fid _ _ :: r => fid :: qfids r
  | QFrag _ _ _ :: r => qfids r
  end.

Fixpoint qidxs (q : list qitem) : list nat :=
  match q with
  | [] => []
  | QFile _ _ _ :: r => qidxs r
  | QFrag _ idx _ :: r => idx :: qidxs r
  end.

Lemma qfids_app a b : qfids (a ++ b) = qfids a ++ qfids b.
Proof. induction a as [|[| ] a IH]; simpl; [reflexivity| |]; rewrite IH; reflexivity. Qed.

Lemma qidxs_app a b : qidxs (a ++ b) = qidxs a ++ qidxs b.
Proof. induction a as [|[| ] a IH]; simpl; [reflexivity| |]; rewrite IH; reflexivity. Qed.

Lemma qfids_mark_first q : qfids (mark_first_ready q) = qfids q.
Proof.
  induction q as [|[f dd pbs|r i pb] q IH]; simpl; [reflexivity| |].
  - rewrite IH. reflexivity.
  - destruct r; simpl; [apply IH|reflexivity].
Qed.

Lemma qidxs_mark_first q : qidxs (mark_first_ready q) = qidxs q.
Proof.
  induction q as [|[f dd pbs|r i pb] q IH]; simpl; [reflexivity| |].
  - apply IH.
  - destruct r; simpl; [rewrite IH|]; reflexivity.
Qed.

Lemma qfids_mark_all q : qfids (mark_all_ready q) = qfids q.
Proof. induction q as [|[| ] q IH]; simpl; [reflexivity| |]; rewrite IH; reflexivity. Qed.

Lemma qidxs_mark_all q : qidxs (mark_all_ready q) = qidxs q.
Proof. induction q as [|[| ] q IH]; simpl; [reflexivity| |]; rewrite IH; reflexivity. Qed.

(* ---------------------------------------------------------------------- *)
(* in-flight list *)

Lemma find_inflight_in i l d : find_inflight i l = Some d -> In i (map fst l).
Proof.
  induction l as [|[j x] l IH]; simpl; [discriminate|].
  destruct (j =? i) eqn:E.
  - apply Nat.eqb_eq in E. intros _. left. assumption.
  - intro H. right. apply IH. assumption.
Qed.

Lemma find_inflight_notin i l : ~ In i (map fst l) -> find_inflight i l = None.
Proof.
  intro H. destruct (find_inflight i l) eqn:E; [|reflexivity].
  apply find_inflight_in in E. contradiction.
Qed.

Lemma find_remove_other i idx l : i <> idx ->
  find_inflight i (remove_inflight idx l) = find_inflight i l.
Proof.
  intro Hne. induction l as [|[j x] l IH]; simpl; [reflexivity|].
  destruct (j =? idx) eqn:E.
  - apply Nat.eqb_eq in E. subst. destruct (idx =? i) eqn:E2; [apply Nat.eqb_eq in E2; lia|reflexivity].
  - simpl. rewrite IH. reflexivity.
Qed.

Lemma remove_inflight_keys idx l x : In x (map fst (remove_inflight idx l)) -> In x (map fst l).
Proof.
  induction l as [|[j y] l IH]; simpl; [tauto|].
  destruct (j =? idx); simpl; [tauto|]. intros [H|H]; [left; assumption|right; apply IH; assumption].
Qed.

Lemma remove_inflight_nodup idx l : NoDup (map fst l) -> NoDup (map fst (remove_inflight idx l)).
Proof.
  induction l as [|[j y] l IH]; simpl; intro H; [constructor|].
  inversion H; subst. destruct (j =? idx); [assumption|]. simpl. constructor.
  - intro Hin. apply remove_inflight_keys in Hin. contradiction.
  - apply IH. assumption.
Qed.

Lemma find_remove_same idx l : NoDup (map fst l) -> find_inflight idx (remove_inflight idx l) = None.
Proof.
  induction l as [|[j y] l IH]; simpl; intro H; [reflexivity|].
  inversion H; subst. destruct (j =? idx) eqn:E.
  - apply Nat.eqb_eq in E. subst. apply find_inflight_notin. assumption.
  - simpl. rewrite E. apply IH. assumption.
Qed.

(* ---------------------------------------------------------------------- *)

Section Pipe.
Variable hashf : list N -> N.
Variable compress : list N -> option (list N).
Variable uncompress : list N -> nat -> option (list N).
Variable bs half base : nat.

Hypothesis Hcomp : forall b c, compress b = Some c ->
  length c < length b /\ forall n, length b <= n -> uncompress c n = Some b.
Hypothesis Hbs : 0 < bs.
Hypothesis Hsmall : small bs.
Hypothesis Hhalf : 0 < half.

Variable files : list (uflags * list N).

Notation work := (work_block hashf compress).
Notation dec_ok := (dec_ok uncompress).

Definition dflt_fl : uflags :=
  {| uf_dont_compress := false; uf_dont_hash := false; uf_dont_fragment := false;
     uf_dont_dedup := false; uf_ignore_sparse := false |}.
Definition dflt_job : fjob := {| j_fl := dflt_fl; j_blocks := []; j_tail := None |}.
Definition jobs : list fjob := map (fun f => file_job bs (fst f) (snd f)) files.
Definition job (fid : nat) : fjob := nth fid jobs dflt_job.
Definition jwork (fid : nat) : list N -> pblock :=
  work (uf_ignore_sparse (j_fl (job fid))) false
       (uf_dont_compress (j_fl (job fid))) (uf_dont_hash (j_fl (job fid))).
(* is the tail end [t] of file [fid] dropped as sparse? *)
Definition tail_sparse (fid : nat) (t : list N) : bool :=
  negb (uf_ignore_sparse (j_fl (job fid))) && all_zero t.
Definition jpbs (fid : nat) : list pblock := map (jwork fid) (j_blocks (job fid)).

Definition fragdata_ok (d : list N) : Prop := 0 < length d <= bs.

Definition is_cur (st : proc) (idx : nat) : Prop :=
  exists fb, p_fragblk st = Some fb /\ fb_index fb = idx.

Definition OnDisk (st : proc) (claims : list (nat * list N)) (fbd : nat -> list N) (idx : nat) : Prop :=
  exists loc p,
    p_ftab st idx = (loc, word p) /\ In (loc, pb_data p) claims /\
    pb_sparse p = false /\ dec_ok p (fbd idx) /\ fragdata_ok (fbd idx).

Definition QOk (st : proc) (fbd : nat -> list N) (nb : nat) (it : qitem) : Prop :=
  match it with
  | QFile fid dd pbs =>
    fid < nb /\ pbs = jpbs fid /\ dd = uf_dont_dedup (j_fl (job fid)) /\ j_blocks (job fid) <> []
  | QFrag r idx pb =>
    idx < p_nfrag st /\ p_ftab st idx = (0, 0%N) /\ fragdata_ok (fbd idx) /\
    (exists dc, pb = work true false dc false (fbd idx)) /\
    find_inflight idx (p_inflight st) = Some (fbd idx) /\ ~ is_cur st idx
  end.

Definition Written (st : proc) (claims : list (nat * list N)) (fid : nat) : Prop :=
  In (p_start st fid, cat (filter stored (jpbs fid))) claims /\
  forall k p, nth_error (jpbs fid) k = Some p -> pb_data p <> [] -> p_size st fid k = Some (word p).

Definition cached_ok (st : proc) (claims : list (nat * list N)) (fbd : nat -> list N)
           (ca : option (nat * list N)) : Prop :=
  forall i d, ca = Some (i, d) -> d = fbd i /\ i < p_nfrag st /\ OnDisk st claims fbd i.

(* [q]: the io queue (drain_q works on its own copy); [nb]: files whose blocks have been
   queued; [nt]: files whose tail has been dealt with *)
Record PInv (st : proc) (q : list qitem) (claims : list (nat * list N))
       (fbd : nat -> list N) (nb nt : nat) : Prop := {
  pi_w : WInv base (p_wr st) claims;
  pi_q : Forall (QOk st fbd nb) q;
  pi_qnd_file : NoDup (qfids q);
  pi_qnd_frag : NoDup (qidxs q);
  pi_cur : forall fb, p_fragblk st = Some fb ->
      fb_index fb < p_nfrag st /\ p_ftab st (fb_index fb) = (0, 0%N) /\
      fbd (fb_index fb) = fb_data fb /\ fragdata_ok (fb_data fb) /\ ~ In (fb_index fb) (qidxs q);
  pi_fr : forall idx, idx < p_nfrag st ->
      is_cur st idx \/ In idx (qidxs q) \/ OnDisk st claims fbd idx;
  pi_infl : forall i d, find_inflight i (p_inflight st) = Some d -> d = fbd i /\ In i (qidxs q);
  pi_infl_nd : NoDup (map fst (p_inflight st));
  pi_cached : cached_ok st claims fbd (p_cached st);
  pi_ht : forall c, In c (p_ht st) ->
      ck_index c < p_nfrag st /\ 0 < ck_size c /\
      ck_offset c + ck_size c <= length (fbd (ck_index c));
  pi_frag : forall fid i o, p_frag st fid = Some (i, o) ->
      fid < nt /\ exists t, j_tail (job fid) = Some t /\ i < p_nfrag st /\
                            o + length t <= length (fbd i) /\ slice (fbd i) o (length t) = t;
  pi_tail : forall fid t, fid < nt -> j_tail (job fid) = Some t ->
      if tail_sparse fid t
      then p_frag st fid = None /\ p_size st fid (length (j_blocks (job fid)) - 1) = Some 0%N
      else p_frag st fid <> None;
  pi_blocks : forall fid, fid < nb -> j_blocks (job fid) <> [] ->
      In fid (qfids q) \/ Written st claims fid
}.

(* ---------------------------------------------------------------------- *)
(* shape facts about the jobs *)

Lemma job_has_shape fid : fid < length files ->
  exists fl d, nth_error files fid = Some (fl, d) /\ job fid = file_job bs fl d /\
               job_shape bs fl d (job fid).
Proof.
  intro H. destruct (nth_error files fid) as [[fl d]|] eqn:E.
  - exists fl, d. split; [reflexivity|].
    assert (J : job fid = file_job bs fl d).
    { unfold job, jobs. apply nth_error_nth. rewrite nth_error_map, E. reflexivity. }
    split; [assumption|]. rewrite J. apply file_job_shape. assumption.
  - apply nth_error_None in E. lia.
Qed.

Lemma job_out_of_range fid : length files <= fid -> job fid = dflt_job.
Proof. intro H. unfold job. apply nth_overflow. unfold jobs. rewrite map_length. assumption. Qed.

Lemma job_blocks_small fid : Forall (fun b => length b <= bs) (j_blocks (job fid)).
Proof.
  destruct (Nat.lt_ge_cases fid (length files)) as [H|H].
  - destruct (job_has_shape fid H) as (fl & d & _ & _ & S). inversion S; subst; simpl.
    + constructor.
    + apply Forall_app. split.
      * eapply Forall_impl; [|eassumption]. simpl. intros. lia.
      * constructor; [simpl; lia|constructor].
    + apply Forall_app. split.
      * eapply Forall_impl; [|eassumption]. simpl. intros. lia.
      * constructor; [lia|constructor].
    + constructor.
    + apply Forall_app. split.
      * eapply Forall_impl; [|eassumption]. simpl. intros. lia.
      * constructor; [simpl; lia|constructor].
  - rewrite job_out_of_range by assumption. constructor.
Qed.

Lemma jpbs_small fid : all_small (jpbs fid).
Proof.
  unfold all_small, jpbs. rewrite Forall_map.
  eapply Forall_impl; [|apply job_blocks_small].
  intros b Hb. cbv beta in Hb. cbv beta. eapply small_le; [|exact Hsmall].
  unfold jwork. pose proof (work_len hashf compress uncompress bs Hcomp Hbs
    (uf_ignore_sparse (j_fl (job fid))) false
    (uf_dont_compress (j_fl (job fid))) (uf_dont_hash (j_fl (job fid))) b). lia.
Qed.

(* the position the tail end uses for its "sparse" marker holds the sentinel *)
Lemma tail_slot_free fid t p :
  j_tail (job fid) = Some t ->
  nth_error (jpbs fid) (length (j_blocks (job fid)) - 1) = Some p -> pb_data p = [].
Proof.
  intros Ht Hn.
  destruct (Nat.lt_ge_cases fid (length files)) as [H|H].
  - destruct (job_has_shape fid H) as (fl & d & _ & _ & S).
    unfold jpbs, jwork in Hn. revert Ht Hn.
    destruct S as [E|full F1 F2 F3|full r F1 F2 F3 F4|r F1 F2 F3|full r F0 F1 F2 F3 F4];
      simpl; intros Ht Hn; try discriminate.
    + rewrite app_length in Hn. simpl in Hn.
      replace (length full + 1 - 1) with (length full) in Hn by lia.
      rewrite map_app, nth_error_app2 in Hn by (rewrite map_length; lia).
      rewrite map_length, Nat.sub_diag in Hn. simpl in Hn. inversion Hn. reflexivity.
  - rewrite job_out_of_range in Ht by assumption. discriminate.
Qed.

Lemma tail_facts fid t :
  j_tail (job fid) = Some t -> 0 < length t < bs.
Proof.
  intro Ht.
  destruct (Nat.lt_ge_cases fid (length files)) as [H|H].
  - destruct (job_has_shape fid H) as (fl & d & _ & _ & S).
    revert Ht.
    destruct S as [E|full F1 F2 F3|full r F1 F2 F3 F4|r F1 F2 F3|full r F0 F1 F2 F3 F4];
      simpl; intros Ht; try discriminate; inversion Ht; subst; assumption.
  - rewrite job_out_of_range in Ht by assumption. discriminate.
Qed.

(* ---------------------------------------------------------------------- *)
(* process_completed_block for the blocks of one file *)

Definition same_aux (st st' : proc) : Prop :=
  p_nfrag st' = p_nfrag st /\ p_ftab st' = p_ftab st /\ p_fragblk st' = p_fragblk st /\
  p_inflight st' = p_inflight st /\ p_ht st' = p_ht st /\ p_cached st' = p_cached st /\
  p_frag st' = p_frag st.

Lemma same_aux_refl st : same_aux st st.
Proof. unfold same_aux. splits; reflexivity. Qed.

Lemma same_aux_trans a b c : same_aux a b -> same_aux b c -> same_aux a c.
Proof.
  intros (A1 & A2 & A3 & A4 & A5 & A6 & A7) (B1 & B2 & B3 & B4 & B5 & B6 & B7).
  unfold same_aux. splits; congruence.
Qed.

Definition sane (b : pblock) : Prop := pb_sparse b = true -> pb_data b <> [].

Definition blk_update (st1 : proc) (fid k : nat) (b : pblock) : proc :=
  if pb_sparse b then set_size st1 fid k 0%N
  else if length (pb_data b) =? 0 then st1
       else set_size st1 fid k (sw_of (length (pb_data b)) (pb_compressed b)).

Lemma blk_update_spec st1 fid k b : sane b ->
  p_wr (blk_update st1 fid k b) = p_wr st1 /\
  same_aux st1 (blk_update st1 fid k b) /\
  p_start (blk_update st1 fid k b) = p_start st1 /\
  (pb_data b <> [] -> p_size (blk_update st1 fid k b) fid k = Some (word b)) /\
  (forall f kk, (f <> fid \/ kk <> k \/ pb_data b = []) ->
                p_size (blk_update st1 fid k b) f kk = p_size st1 f kk).
Proof.
  intro Hs. unfold blk_update, word.
  destruct (pb_sparse b) eqn:Esp.
  - split; [reflexivity|]. split; [unfold same_aux; simpl; splits; reflexivity|]. split; [reflexivity|]. split.
    + intros _. simpl. rewrite !Nat.eqb_refl. reflexivity.
    + intros f kk H. simpl. destruct (f =? fid) eqn:E1; [|reflexivity].
      destruct (kk =? k) eqn:E2; [|reflexivity].
      apply Nat.eqb_eq in E1. apply Nat.eqb_eq in E2.
      destruct H as [H|[H|H]]; try contradiction. exfalso. apply (Hs Esp). assumption.
  - destruct (length (pb_data b) =? 0) eqn:E0.
    + apply length_zero_iff in E0.
      split; [reflexivity|]. split; [unfold same_aux; simpl; splits; reflexivity|]. split; [reflexivity|]. split.
      * intro H. contradiction.
      * reflexivity.
    + split; [reflexivity|]. split; [unfold same_aux; simpl; splits; reflexivity|]. split; [reflexivity|]. split.
      * intros _. simpl. rewrite !Nat.eqb_refl. reflexivity.
      * intros f kk H. simpl. destruct (f =? fid) eqn:E1; [|reflexivity].
        destruct (kk =? k) eqn:E2; [|reflexivity].
        apply Nat.eqb_eq in E1. apply Nat.eqb_eq in E2.
        destruct H as [H|[H|H]]; try contradiction.
        rewrite H in E0. discriminate.
Qed.

Lemma complete_blocks_unfold st fid dd k b rest :
  complete_blocks false half st fid dd k (b :: rest) =
  match write_data_block false half (p_wr st)
          (mkfl b (k =? 0) (match rest with [] => true | _ => false end) dd) (pb_chk b) (pb_data b) with
  | WErr => Err
  | WFuel => Fuel
  | WOk w loc e =>
    let st2 := blk_update (set_wr st w e) fid k b in
    let st3 := if (match rest with [] => true | _ => false end) then set_start st2 fid loc else st2 in
    complete_blocks false half st3 fid dd (S k) rest
  end.
Proof. reflexivity. Qed.

Lemma add_cur_filter cur b r : add_cur cur b ++ filter stored r = cur ++ filter stored (b :: r).
Proof.
  unfold add_cur. cbn [filter]. destruct (stored b); [rewrite <- app_assoc|]; reflexivity.
Qed.

Lemma complete_blocks_gen fid dd : forall pbs st k claims pre hist cur,
  pbs <> [] -> all_small pbs -> Forall sane pbs ->
  (if k =? 0 then WInv base (p_wr st) claims /\ pre = w_file (p_wr st) /\
                  hist = w_blocks (p_wr st) /\ cur = []
   else WOpen base (p_wr st) claims pre hist cur) ->
  exists st' loc,
    complete_blocks false half st fid dd k pbs = Ok st' /\
    WInv base (p_wr st') ((loc, cat (cur ++ filter stored pbs)) :: claims) /\
    p_start st' fid = loc /\
    (forall f, f <> fid -> p_start st' f = p_start st f) /\
    (forall j p, nth_error pbs j = Some p -> pb_data p <> [] ->
                 p_size st' fid (k + j) = Some (word p)) /\
    (forall f kk, (f <> fid \/ kk < k \/
                   (forall p, nth_error pbs (kk - k) = Some p -> pb_data p = [])) ->
                  p_size st' f kk = p_size st f kk) /\
    same_aux st st'.
Proof.
  induction pbs as [|b rest IH]; intros st k claims pre hist cur Hne Hsm Hsane Hpre; [contradiction|].
  inversion Hsm as [|? ? Hsb Hsm']; subst. inversion Hsane as [|? ? Hsnb Hsane']; subst.
  rewrite complete_blocks_unfold.
  destruct rest as [|b2 rest'].
  - (* the block carrying SQFS_BLK_LAST_BLOCK *)
    destruct (wdb_last half Hhalf base (p_wr st) claims pre hist cur b (k =? 0) dd Hpre Hsb)
      as (w' & loc & evs' & E & I & _).
    rewrite E. cbv zeta.
    destruct (blk_update_spec (set_wr st w' evs') fid k b Hsnb) as (U1 & U2 & U3 & U4 & U5).
    set (st2 := blk_update (set_wr st w' evs') fid k b) in *.
    exists (set_start st2 fid loc), loc. split; [reflexivity|].
    split.
    { rewrite <- add_cur_filter. cbn [filter]. rewrite app_nil_r.
      cbn [set_start p_wr]. rewrite U1. exact I. }
    split; [simpl; rewrite Nat.eqb_refl; reflexivity|].
    split.
    { intros f Hf. simpl. destruct (f =? fid) eqn:Ef; [apply Nat.eqb_eq in Ef; contradiction|].
      rewrite U3. reflexivity. }
    split.
    { intros j p Hj Hp. destruct j as [|j]; [|destruct j; discriminate].
      simpl in Hj. inversion Hj; subst. rewrite Nat.add_0_r. simpl. apply U4. assumption. }
    split.
    { intros f kk H. simpl. rewrite U5; [reflexivity|].
      destruct H as [H|[H|H]]; [left; assumption|right; left; lia|].
      destruct (Nat.eq_dec kk k) as [->|Hk]; [|right; left; assumption].
      right. right. apply H. rewrite Nat.sub_diag. reflexivity. }
    { destruct U2 as (A1 & A2 & A3 & A4 & A5 & A6 & A7). unfold same_aux; splits; simpl; assumption. }
  - (* not the last block *)
    destruct (wdb_nonlast half base (p_wr st) claims pre hist cur b (k =? 0) dd Hpre Hsb)
      as (w1 & E & HO).
    rewrite E. cbv zeta.
    set (e1 := if negb (length (pb_data b) =? 0) && negb (pb_sparse b)
               then [EvWrite (length (w_file (p_wr st))) (pb_data b)] else []) in *.
    destruct (blk_update_spec (set_wr st w1 e1) fid k b Hsnb) as (U1 & U2 & U3 & U4 & U5).
    set (st2 := blk_update (set_wr st w1 e1) fid k b) in *.
    destruct (IH st2 (S k) claims pre hist (add_cur cur b)) as (st' & loc & R1 & R2 & R3 & R4 & R5 & R6 & R7);
      [discriminate|assumption|assumption|simpl; rewrite U1; exact HO|].
    exists st', loc. split; [exact R1|].
    split.
    { rewrite <- add_cur_filter. exact R2. }
    split; [exact R3|].
    split.
    { intros f Hf. rewrite (R4 f Hf), U3. reflexivity. }
    split.
    { intros j p Hj Hp. destruct j as [|j].
      - simpl in Hj. inversion Hj; subst. rewrite Nat.add_0_r.
        rewrite R6 by (right; left; lia). apply U4. assumption.
      - simpl in Hj. replace (k + S j) with (S k + j) by lia. apply (R5 j p Hj Hp). }
    split.
    { intros f kk H.
      assert (H1 : f <> fid \/ kk < S k \/
                   (forall p, nth_error (b2 :: rest') (kk - S k) = Some p -> pb_data p = [])).
      { destruct H as [H|[H|H]]; [left; assumption|right; left; lia|].
        destruct (Nat.le_gt_cases kk k) as [Hk|Hk]; [right; left; lia|].
        right. right. intros p Hp. apply H.
        replace (kk - k) with (S (kk - S k)) by lia. exact Hp. }
      rewrite (R6 f kk H1). rewrite U5; [reflexivity|].
      destruct H as [H|[H|H]]; [left; assumption|right; left; lia|].
      destruct (Nat.eq_dec kk k) as [->|Hk]; [|right; left; assumption].
      right. right. apply H. rewrite Nat.sub_diag. reflexivity. }
    { eapply same_aux_trans; [|exact R7].
      destruct U2 as (A1 & A2 & A3 & A4 & A5 & A6 & A7). unfold same_aux; splits; simpl; assumption. }
Qed.

(* ---------------------------------------------------------------------- *)
(* stability of the pieces of the invariant *)

Lemma is_cur_same st st' idx : p_fragblk st' = p_fragblk st -> is_cur st idx -> is_cur st' idx.
Proof. intros E (fb & H1 & H2). exists fb. rewrite E. split; assumption. Qed.

Lemma OnDisk_mono st st' claims claims' fbd idx :
  p_ftab st' idx = p_ftab st idx -> incl claims claims' ->
  OnDisk st claims fbd idx -> OnDisk st' claims' fbd idx.
Proof.
  intros E I (loc & p & H1 & H2 & H3 & H4 & H5). exists loc, p.
  rewrite E. split; [assumption|]. split; [apply I; assumption|].
  split; [assumption|]. split; assumption.
Qed.

Lemma QOk_same st st' fbd nb it :
  p_nfrag st' = p_nfrag st -> p_ftab st' = p_ftab st -> p_inflight st' = p_inflight st ->
  p_fragblk st' = p_fragblk st -> QOk st fbd nb it -> QOk st' fbd nb it.
Proof.
  intros E1 E2 E3 E4. destruct it as [fid dd pbs|r idx pb]; simpl; [tauto|].
  intros (H1 & H2 & H3 & H4 & H5 & H6). rewrite E1, E2, E3. splits; try assumption.
  intro C. apply H6. eapply is_cur_same; [|exact C]. symmetry. assumption.
Qed.

Lemma Written_mono st st' claims claims' fid :
  p_start st' fid = p_start st fid -> (forall k, p_size st' fid k = p_size st fid k) ->
  incl claims claims' -> Written st claims fid -> Written st' claims' fid.
Proof.
  intros E1 E2 I [W1 W2]. split.
  - rewrite E1. apply I. assumption.
  - intros k p Hk Hp. rewrite E2. apply W2; assumption.
Qed.

Lemma in_qidxs r i pb q : In (QFrag r i pb) q -> In i (qidxs q).
Proof.
  induction q as [|[f dd pbs|r' i' pb'] q IH]; simpl; [tauto| |].
  - intros [H|H]; [discriminate|apply IH; assumption].
  - intros [H|H]; [inversion H; left; reflexivity|right; apply IH; assumption].
Qed.

Lemma work_sane ns isf dc dh d : sane (work ns isf dc dh d).
Proof.
  intros Hs Hd. apply (work_data_nil hashf compress uncompress bs Hcomp Hbs) in Hd. subst.
  rewrite work_empty in Hs. discriminate.
Qed.

Lemma jpbs_sane fid : Forall sane (jpbs fid).
Proof. unfold jpbs. rewrite Forall_map. apply Forall_forall. intros b _. apply work_sane. Qed.

Definition same_all (st st' : proc) : Prop :=
  p_wr st' = p_wr st /\ same_aux st st' /\ p_start st' = p_start st /\ p_size st' = p_size st.

Lemma PInv_same st st' q claims fbd nb nt :
  same_all st st' -> PInv st q claims fbd nb nt -> PInv st' q claims fbd nb nt.
Proof.
  intros (Ew & (E1 & E2 & E3 & E4 & E5 & E6 & E7) & Es & Ez) [P1 P2 P3 P4 P5 P6 P7 P8 P9 P10 P11 P12 P13].
  constructor.
  - rewrite Ew. assumption.
  - eapply Forall_impl; [|exact P2]. intro it. apply QOk_same; assumption.
  - assumption.
  - assumption.
  - rewrite E3, E1, E2. assumption.
  - intros idx Hi. rewrite E1 in Hi. destruct (P6 idx Hi) as [H|[H|H]].
    + left. eapply is_cur_same; [|exact H]. assumption.
    + right. left. assumption.
    + right. right. eapply OnDisk_mono; [| |exact H]; [rewrite E2; reflexivity|apply incl_refl].
  - rewrite E4. assumption.
  - rewrite E4. assumption.
  - rewrite E6. intros i d H. destruct (P9 i d H) as (H1 & H2 & H3). rewrite E1.
    splits; try assumption.
    eapply OnDisk_mono; [| |exact H3]; [rewrite E2; reflexivity|apply incl_refl].
  - rewrite E5, E1. assumption.
  - rewrite E7, E1. assumption.
  - rewrite E7, Ez. assumption.
  - intros fid Hf Hb. destruct (P13 fid Hf Hb) as [H|H]; [left; assumption|right].
    eapply Written_mono; [| | |exact H]; [rewrite Es; reflexivity|intro; rewrite Ez; reflexivity|apply incl_refl].
Qed.

Lemma PInv_set_ioq st x q claims fbd nb nt :
  PInv st q claims fbd nb nt -> PInv (set_ioq st x) q claims fbd nb nt.
Proof. apply PInv_same. unfold same_all, same_aux. splits; reflexivity. Qed.

(* ---------------------------------------------------------------------- *)
(* the drain loop *)

Lemma complete_file_inv st fid dd pbs q claims fbd nb nt :
  PInv st (QFile fid dd pbs :: q) claims fbd nb nt ->
  exists st' loc,
    complete_blocks false half st fid dd 0 pbs = Ok st' /\
    PInv st' q ((loc, cat (filter stored pbs)) :: claims) fbd nb nt /\
    same_aux st st'.
Proof.
  intros [P1 P2 P3 P4 P5 P6 P7 P8 P9 P10 P11 P12 P13].
  inversion P2 as [|? ? Hq P2']; subst. simpl in Hq. destruct Hq as (Hfid & Hpbs & Hdd & Hjb).
  assert (Hne : pbs <> []).
  { rewrite Hpbs. unfold jpbs. destruct (j_blocks (job fid)); [contradiction|discriminate]. }
  destruct (complete_blocks_gen fid dd pbs st 0 claims (w_file (p_wr st)) (w_blocks (p_wr st)) [])
    as (st' & loc & R1 & R2 & R3 & R4 & R5 & R6 & R7); try assumption.
  { rewrite Hpbs. apply jpbs_small. }
  { rewrite Hpbs. apply jpbs_sane. }
  { simpl. splits; try reflexivity. assumption. }
  exists st', loc. split; [exact R1|]. split; [|exact R7].
  destruct R7 as (E1 & E2 & E3 & E4 & E5 & E6 & E7).
  set (claims' := (loc, cat (filter stored pbs)) :: claims).
  assert (Hincl : incl claims claims') by (intros x Hx; right; assumption).
  simpl in P3. apply NoDup_cons_iff in P3. destruct P3 as [P3a P3b].
  simpl in P4, P5, P6, P7.
  constructor.
  - exact R2.
  - eapply Forall_impl; [|exact P2']. intro it. apply QOk_same; assumption.
  - assumption.
  - assumption.
  - rewrite E3, E1, E2. assumption.
  - intros idx Hi. rewrite E1 in Hi. destruct (P6 idx Hi) as [H|[H|H]].
    + left. eapply is_cur_same; [|exact H]. assumption.
    + right. left. assumption.
    + right. right. eapply OnDisk_mono; [| |exact H]; [rewrite E2; reflexivity|assumption].
  - rewrite E4. assumption.
  - rewrite E4. assumption.
  - rewrite E6. intros i d H. destruct (P9 i d H) as (H1 & H2 & H3). rewrite E1.
    splits; try assumption.
    eapply OnDisk_mono; [| |exact H3]; [rewrite E2; reflexivity|assumption].
  - rewrite E5, E1. assumption.
  - rewrite E7, E1. assumption.
  - intros f t Hf Ht. rewrite E7. specialize (P12 f t Hf Ht).
    destruct (tail_sparse f t); [|assumption]. destruct P12 as [Q1 Q2]. split; [assumption|].
    rewrite R6; [assumption|].
    destruct (Nat.eq_dec f fid) as [->|Hne']; [|left; assumption].
    right. right. intros p Hp. rewrite Nat.sub_0_r in Hp. rewrite Hpbs in Hp.
    eapply tail_slot_free; eassumption.
  - intros f Hf Hb. destruct (Nat.eq_dec f fid) as [->|Hne'].
    + right. split.
      * rewrite R3. left. rewrite Hpbs. reflexivity.
      * intros k p Hk Hp. rewrite <- Hpbs in Hk. apply (R5 k p Hk Hp).
    + destruct (P13 f Hf Hb) as [H|H].
      * left. simpl in H. destruct H as [H|H]; [congruence|assumption].
      * right. eapply Written_mono; [| | |exact H]; [apply R4; assumption| |assumption].
        intro k. apply R6. left. assumption.
Qed.

Lemma word_nonsparse p : pb_sparse p = false -> word p = sw_of (length (pb_data p)) (pb_compressed p).
Proof. intro H. unfold word. rewrite H. reflexivity. Qed.

Lemma complete_fragblk_inv st idx pb q claims fbd nb nt :
  PInv st (QFrag true idx pb :: q) claims fbd nb nt ->
  exists st' loc,
    complete_fragblk false half st idx pb = Ok st' /\
    PInv st' q ((loc, pb_data pb) :: claims) fbd nb nt /\
    p_nfrag st' = p_nfrag st /\ p_fragblk st' = p_fragblk st /\ p_ht st' = p_ht st /\
    p_frag st' = p_frag st.
Proof.
  intros [P1 P2 P3 P4 P5 P6 P7 P8 P9 P10 P11 P12 P13].
  inversion P2 as [|? ? Hq P2']; subst. simpl in Hq.
  destruct Hq as (Hidx & Hft & Hfd & (dc & Hpb) & Hinf & Hnc).
  pose proof Hfd as Hfd0. destruct Hfd as [Hlen Hlen2].
  assert (Hdne : fbd idx <> []) by (intro H; rewrite H in Hlen; simpl in Hlen; lia).
  assert (Hdec : dec_ok pb (fbd idx)).
  { rewrite Hpb. apply (work_dec hashf compress uncompress bs Hcomp Hbs). assumption. }
  assert (Hsp : pb_sparse pb = false).
  { rewrite Hpb, work_sparse_iff by assumption. reflexivity. }
  destruct Hdec as (_ & Hle & _ & S2). pose proof (S2 Hsp) as (Hpne & _).
  assert (Hdec : dec_ok pb (fbd idx)).
  { rewrite Hpb. apply (work_dec hashf compress uncompress bs Hcomp Hbs). assumption. }
  assert (Hsm : small (length (pb_data pb))) by (eapply small_le; [|exact Hsmall]; lia).
  assert (Hst : stored pb = true).
  { unfold stored. rewrite Hsp. destruct (length (pb_data pb) =? 0) eqn:E0; [|reflexivity].
    apply length_zero_iff in E0. contradiction. }
  assert (Hl0 : (length (pb_data pb) =? 0) = false).
  { destruct (length (pb_data pb) =? 0) eqn:E0; [|reflexivity].
    apply length_zero_iff in E0. contradiction. }
  unfold complete_fragblk.
  set (st0 := set_inflight st (remove_inflight idx (p_inflight st))).
  destruct (wdb_single half base (p_wr st0) claims pb false) as (w1 & E & I & _);
    [exact P1|exact Hsm|].
  unfold mkfl in E. rewrite E. rewrite Hsp, Hl0. rewrite Hst in I.
  set (loc := length (w_file (p_wr st0))) in *.
  eexists _, loc. split; [reflexivity|].
  set (claims' := (loc, pb_data pb) :: claims).
  assert (Hincl : incl claims claims') by (intros x Hx; right; assumption).
  simpl in P4. apply NoDup_cons_iff in P4. destruct P4 as [P4a P4b].
  simpl in P3, P5, P6, P7.
  assert (Hdisk : OnDisk (set_ftab (set_wr st0 w1
             (if negb false && negb false then [EvWrite loc (pb_data pb)] else [])) idx
             (loc, sw_of (length (pb_data pb)) (pb_compressed pb))) claims' fbd idx).
  { exists loc, pb. simpl. rewrite Nat.eqb_refl. rewrite word_nonsparse by assumption.
    splits; try assumption; [reflexivity|left; reflexivity]. }
  split; [|splits; reflexivity].
  constructor.
  - exact I.
  - apply Forall_forall. intros it Hit. rewrite Forall_forall in P2'. specialize (P2' it Hit).
    destruct it as [f dd pbs|r i' pb']; simpl in *; [assumption|].
    destruct P2' as (H1 & H2 & H3 & H4 & H5 & H6).
    assert (Hne : i' <> idx).
    { intro; subst. apply P4a. eapply in_qidxs. eassumption. }
    destruct (i' =? idx) eqn:Ei; [apply Nat.eqb_eq in Ei; contradiction|].
    splits; try assumption.
    rewrite find_remove_other by assumption. assumption.
  - assumption.
  - assumption.
  - intros fb Hfb. simpl in Hfb. destruct (P5 fb Hfb) as (H1 & H2 & H3 & H4 & H5).
    simpl. destruct (fb_index fb =? idx) eqn:Ei.
    + apply Nat.eqb_eq in Ei. exfalso. apply Hnc. exists fb. split; assumption.
    + splits; try assumption. intro C. apply H5. right. assumption.
  - intros i Hi. simpl in Hi. destruct (Nat.eq_dec i idx) as [->|Hne].
    + right. right. exact Hdisk.
    + destruct (P6 i Hi) as [H|[H|H]].
      * left. destruct H as (fb & F1 & F2). exists fb. split; assumption.
      * right. left. destruct H as [H|H]; [congruence|assumption].
      * right. right. eapply OnDisk_mono; [| |exact H]; [|assumption].
        simpl. destruct (i =? idx) eqn:Ei; [apply Nat.eqb_eq in Ei; contradiction|reflexivity].
  - intros i d H. simpl in H. destruct (Nat.eq_dec i idx) as [->|Hne].
    + rewrite find_remove_same in H by assumption. discriminate.
    + rewrite find_remove_other in H by assumption. destruct (P7 i d H) as [H1 H2].
      split; [assumption|]. destruct H2 as [H2|H2]; [congruence|assumption].
  - simpl. apply remove_inflight_nodup. assumption.
  - intros i d H. simpl in H. destruct (P9 i d H) as (H1 & H2 & H3).
    split; [assumption|]. split; [assumption|].
    destruct (Nat.eq_dec i idx) as [->|Hne]; [exact Hdisk|].
    eapply OnDisk_mono; [| |exact H3]; [|assumption].
    simpl. destruct (i =? idx) eqn:Ei; [apply Nat.eqb_eq in Ei; contradiction|reflexivity].
  - assumption.
  - assumption.
  - assumption.
  - intros f Hf Hb. destruct (P13 f Hf Hb) as [H|H]; [left; assumption|right].
    eapply Written_mono; [| | |exact H]; [reflexivity|reflexivity|assumption].
Qed.

Lemma drain_q_inv fbd nb nt : forall q st claims,
  PInv st q claims fbd nb nt ->
  exists st' claims',
    drain_q false half q st = Ok st' /\
    PInv st' (p_ioq st') claims' fbd nb nt /\ incl claims claims' /\
    p_nfrag st' = p_nfrag st /\ p_fragblk st' = p_fragblk st /\ p_ht st' = p_ht st /\
    p_frag st' = p_frag st.
Proof.
  induction q as [|[fid dd pbs|r idx pb] q IH]; intros st claims HP.
  - exists (set_ioq st []), claims. split; [reflexivity|].
    split; [apply PInv_set_ioq; assumption|]. split; [apply incl_refl|]. splits; reflexivity.
  - destruct (complete_file_inv _ _ _ _ _ _ _ _ _ HP) as (st1 & loc & E & HP1 & A).
    destruct (IH st1 _ HP1) as (st' & claims' & E' & HP' & I & F1 & F2 & F3 & F4).
    exists st', claims'. cbn [drain_q]. rewrite E. split; [exact E'|]. split; [exact HP'|].
    destruct A as (A1 & A2 & A3 & A4 & A5 & A6 & A7).
    split; [intros x Hx; apply I; right; assumption|]. splits; congruence.
  - destruct r.
    + destruct (complete_fragblk_inv _ _ _ _ _ _ _ _ HP) as (st1 & loc & E & HP1 & A1 & A2 & A3 & A4).
      destruct (IH st1 _ HP1) as (st' & claims' & E' & HP' & I & F1 & F2 & F3 & F4).
      exists st', claims'. cbn [drain_q]. rewrite E. split; [exact E'|]. split; [exact HP'|].
      split; [intros x Hx; apply I; right; assumption|]. splits; congruence.
    + exists (set_ioq st (QFrag false idx pb :: q)), claims. split; [reflexivity|].
      split; [apply PInv_set_ioq; assumption|]. split; [apply incl_refl|]. splits; reflexivity.
Qed.

(* ---------------------------------------------------------------------- *)
(* frag_source_agree: whichever of the three sources answers, it is the content of the block *)

Lemma claim_holds st q claims fbd nb nt c :
  PInv st q claims fbd nb nt -> In c claims -> holds (w_file (p_wr st)) c.
Proof.
  intros HP Hin. destruct HP as [[_ _ _ Cl] _ _ _ _ _ _ _ _ _ _ _ _].
  rewrite Forall_forall in Cl. apply Cl. assumption.
Qed.

Lemma load_from_disk_ok st q claims fbd nb nt idx :
  PInv st q claims fbd nb nt -> idx < p_nfrag st -> OnDisk st claims fbd idx ->
  load_from_disk uncompress bs st idx = Some (fbd idx, Some (idx, fbd idx)).
Proof.
  intros HP Hi (loc & p & H1 & H2 & H3 & H4 & H5).
  pose proof (claim_holds _ _ _ _ _ _ _ HP H2) as [Hc1 Hc2]. simpl in Hc1, Hc2.
  destruct H4 as (Hdn & Hle & _ & S2). destruct (S2 H3) as (Hpne & R1 & R2).
  destruct H5 as [Hlen Hlen2].
  assert (Sm : small (length (pb_data p))) by (eapply small_le; [|exact Hsmall]; lia).
  unfold load_from_disk.
  destruct (idx <? p_nfrag st) eqn:El; [|apply Nat.ltb_ge in El; lia].
  rewrite H1. rewrite word_nonsparse by assumption.
  rewrite sw_size_of by assumption.
  destruct (bs <? length (pb_data p)) eqn:Eb; [apply Nat.ltb_lt in Eb; lia|].
  rewrite read_at_ok by assumption. rewrite Hc2.
  rewrite sw_compressed_of by assumption.
  destruct (pb_compressed p).
  - rewrite (R2 eq_refl bs) by lia.
    destruct (length (fbd idx) =? 0) eqn:E0; [apply Nat.eqb_eq in E0; lia|reflexivity].
  - rewrite (R1 eq_refl). reflexivity.
Qed.

Lemma load_ok st q claims fbd nb nt ca idx :
  PInv st q claims fbd nb nt -> cached_ok st claims fbd ca ->
  idx < p_nfrag st -> OnDisk st claims fbd idx ->
  exists ca', load_frag_block uncompress bs st ca idx = Some (fbd idx, ca') /\
              cached_ok st claims fbd ca'.
Proof.
  intros HP Hca Hi Hd.
  assert (Hnew : cached_ok st claims fbd (Some (idx, fbd idx))).
  { intros i d E. inversion E; subst. splits; [reflexivity|assumption|assumption]. }
  unfold load_frag_block. destruct ca as [[i d]|].
  - destruct (i =? idx) eqn:Ei.
    + apply Nat.eqb_eq in Ei. subst. destruct (Hca idx d eq_refl) as (E & _). subst.
      eexists. split; [reflexivity|assumption].
    + rewrite (load_from_disk_ok _ _ _ _ _ _ _ HP Hi Hd). eexists. split; [reflexivity|assumption].
  - rewrite (load_from_disk_ok _ _ _ _ _ _ _ HP Hi Hd). eexists. split; [reflexivity|assumption].
Qed.

Lemma queued_inflight st fbd nb q idx :
  Forall (QOk st fbd nb) q -> In idx (qidxs q) ->
  find_inflight idx (p_inflight st) = Some (fbd idx).
Proof.
  induction q as [|[f dd pbs|r i pb] q IH]; simpl; intros HF Hin; [contradiction| |].
  - inversion HF; subst. apply IH; assumption.
  - inversion HF as [|? ? Hq HF']; subst. destruct Hin as [->|Hin]; [|apply IH; assumption].
    simpl in Hq. tauto.
Qed.

Theorem frag_lookup_ok st q claims fbd nb nt ca idx :
  PInv st q claims fbd nb nt -> cached_ok st claims fbd ca -> idx < p_nfrag st ->
  exists ca', frag_lookup uncompress bs st ca idx = Some (fbd idx, ca') /\
              cached_ok st claims fbd ca'.
Proof.
  intros HP Hca Hi. pose proof HP as [P1 P2 P3 P4 P5 P6 P7 P8 P9 P10 P11 P12 P13].
  unfold frag_lookup.
  destruct (find_inflight idx (p_inflight st)) as [d|] eqn:Ef.
  - destruct (P7 idx d Ef) as [-> _]. eexists. split; [reflexivity|assumption].
  - assert (Hdisk : ~ is_cur st idx -> OnDisk st claims fbd idx).
    { intro Hnc. destruct (P6 idx Hi) as [H|[H|H]]; [contradiction| |assumption].
      rewrite (queued_inflight _ _ _ _ _ P2 H) in Ef. discriminate. }
    destruct (p_fragblk st) as [fb|] eqn:Efb.
    + destruct (fb_index fb =? idx) eqn:Ei.
      * apply Nat.eqb_eq in Ei. destruct (P5 fb eq_refl) as (_ & _ & E & _).
        rewrite Ei in E. rewrite E. eexists. split; [reflexivity|assumption].
      * apply Nat.eqb_neq in Ei. apply (load_ok _ _ _ _ _ _ _ _ HP Hca Hi). apply Hdisk.
        intros (fb' & F1 & F2). rewrite Efb in F1. inversion F1; subst. contradiction.
    + apply (load_ok _ _ _ _ _ _ _ _ HP Hca Hi). apply Hdisk.
      intros (fb' & F1 & F2). rewrite Efb in F1. discriminate.
Qed.

(* chunk_info_equals: never an error, "yes" only for identical bytes, and "yes" for identical bytes *)
Lemma chunk_equals_ok st q claims fbd nb nt ca khash cur c :
  PInv st q claims fbd nb nt -> cached_ok st claims fbd ca -> In c (p_ht st) ->
  exists r ca',
    chunk_equals uncompress bs true st ca (length cur) khash cur c = (r, ca') /\
    cached_ok st claims fbd ca' /\ r <> EqErr /\
    (r = EqYes <-> (ck_size c = length cur /\ ck_hash c = khash /\
                    slice (fbd (ck_index c)) (ck_offset c) (ck_size c) = cur)).
Proof.
  intros HP Hca Hin. pose proof HP as [P1 P2 P3 P4 P5 P6 P7 P8 P9 P10 P11 P12 P13].
  destruct (P10 c Hin) as (Hi & Hpos & Hb).
  unfold chunk_equals.
  destruct ((length cur =? ck_size c) && (khash =? ck_hash c)%N) eqn:Ek; cbn [negb].
  - apply andb_true_iff in Ek. destruct Ek as [Ek1 Ek2].
    apply Nat.eqb_eq in Ek1. apply N.eqb_eq in Ek2.
    destruct (frag_lookup_ok _ _ _ _ _ _ ca _ HP Hca Hi) as (ca' & E & Hca').
    rewrite E.
    destruct (length (fbd (ck_index c)) <=? ck_offset c) eqn:E1; [apply Nat.leb_le in E1; lia|].
    destruct (length (fbd (ck_index c)) - ck_offset c <? ck_size c) eqn:E2;
      [apply Nat.ltb_lt in E2; lia|].
    cbn [orb]. rewrite <- Ek1. rewrite Nat.eqb_refl. cbn [negb]. rewrite firstn_all.
    destruct (list_eqb (slice (fbd (ck_index c)) (ck_offset c) (length cur)) cur) eqn:El.
    + apply list_eqb_eq in El. exists EqYes, ca'. splits; try assumption; try discriminate;
        try reflexivity.
      split; [intros _|reflexivity]. splits; [reflexivity|congruence|assumption].
    + apply list_eqb_neq in El. exists EqNo, ca'. splits; try assumption; try discriminate;
        try reflexivity.
      split; [discriminate|]. intros (_ & _ & H). contradiction.
  - exists EqNo, ca. splits; try assumption; try discriminate; try reflexivity.
    split; [discriminate|]. intros (H1 & H2 & _).
    rewrite H1, Nat.eqb_refl, H2, N.eqb_refl in Ek. discriminate.
Qed.

Definition same_bytes (fbd : nat -> list N) (khash : N) (cur : list N) (c : chunk) : Prop :=
  ck_size c = length cur /\ ck_hash c = khash /\
  slice (fbd (ck_index c)) (ck_offset c) (ck_size c) = cur.

Lemma ht_search_ok st q claims fbd nb nt khash cur : forall l ca,
  PInv st q claims fbd nb nt -> cached_ok st claims fbd ca -> incl l (p_ht st) ->
  match ht_search uncompress bs true st ca (length cur) khash cur l with
  | SFound c ca' => In c l /\ same_bytes fbd khash cur c /\ cached_ok st claims fbd ca'
  | SNone ca' => cached_ok st claims fbd ca' /\ forall c, In c l -> ~ same_bytes fbd khash cur c
  | SErr => False
  end.
Proof.
  induction l as [|c l IH]; intros ca HP Hca Hl; cbn [ht_search].
  - split; [assumption|]. intros c [].
  - assert (Hin : In c (p_ht st)) by (apply Hl; left; reflexivity).
    assert (Hl' : incl l (p_ht st)) by (intros x Hx; apply Hl; right; assumption).
    destruct (ck_hash c =? khash)%N eqn:Eh.
    + destruct (chunk_equals_ok _ _ _ _ _ _ ca khash cur c HP Hca Hin) as (r & ca' & E & Hca' & Hne & Hy).
      rewrite E. destruct r; [| |contradiction].
      * split; [left; reflexivity|]. split; [apply Hy; reflexivity|assumption].
      * specialize (IH ca' HP Hca' Hl').
        destruct (ht_search uncompress bs true st ca' (length cur) khash cur l) as [c' ca''|ca''|];
          [|  |assumption].
        -- destruct IH as (I1 & I2 & I3). split; [right; assumption|]. split; assumption.
        -- destruct IH as (I1 & I2). split; [assumption|].
           intros c' [->|Hc']; [|apply I2; assumption].
           intro Hs. apply Hy in Hs. discriminate.
    + specialize (IH ca HP Hca Hl').
      destruct (ht_search uncompress bs true st ca (length cur) khash cur l) as [c' ca''|ca''|];
        [| |assumption].
      * destruct IH as (I1 & I2 & I3). split; [right; assumption|]. split; assumption.
      * destruct IH as (I1 & I2). split; [assumption|].
        intros c' [->|Hc']; [|apply I2; assumption].
        intros (_ & H & _). rewrite H, N.eqb_refl in Eh. discriminate.
Qed.

Lemma ht_insert_ok st q claims fbd nb nt nc cur : forall l ca,
  PInv st q claims fbd nb nt -> cached_ok st claims fbd ca -> incl l (p_ht st) ->
  ck_size nc = length cur ->
  exists h ca',
    ht_insert uncompress bs true st ca nc cur l = Some (h, ca') /\
    cached_ok st claims fbd ca' /\ In nc h /\
    (forall c, In c h -> In c l \/ c = nc) /\
    (forall c, In c l -> In c h \/ same_bytes fbd (ck_hash nc) cur c).
Proof.
  induction l as [|c l IH]; intros ca HP Hca Hl Hsz; cbn [ht_insert].
  - exists [nc], ca. splits; [reflexivity|assumption|left; reflexivity| |].
    + intros c [->|[]]. right. reflexivity.
    + intros c [].
  - assert (Hin : In c (p_ht st)) by (apply Hl; left; reflexivity).
    assert (Hl' : incl l (p_ht st)) by (intros x Hx; apply Hl; right; assumption).
    destruct (ck_hash c =? ck_hash nc)%N eqn:Eh.
    + rewrite Hsz.
      destruct (chunk_equals_ok _ _ _ _ _ _ ca (ck_hash nc) cur c HP Hca Hin) as (r & ca' & E & Hca' & Hne & Hy).
      rewrite E. destruct r; [| |contradiction].
      * exists (nc :: l), ca'. splits; [reflexivity|assumption|left; reflexivity| |].
        -- intros c' [->|Hc']; [right; reflexivity|left; right; assumption].
        -- intros c' [->|Hc']; [right; apply Hy; reflexivity|left; right; assumption].
      * destruct (IH ca' HP Hca' Hl' Hsz) as (h & ca'' & E' & I1 & I2 & I3 & I4).
        rewrite E'. exists (c :: h), ca''.
        splits; [reflexivity|assumption|right; assumption| |].
        -- intros c' [->|Hc']; [left; left; reflexivity|].
           destruct (I3 c' Hc') as [H|H]; [left; right; assumption|right; assumption].
        -- intros c' [->|Hc']; [left; left; reflexivity|].
           destruct (I4 c' Hc') as [H|H]; [left; right; assumption|right; assumption].
    + destruct (IH ca HP Hca Hl' Hsz) as (h & ca'' & E' & I1 & I2 & I3 & I4).
      rewrite E'. exists (c :: h), ca''.
      splits; [reflexivity|assumption|right; assumption| |].
      * intros c' [->|Hc']; [left; left; reflexivity|].
        destruct (I3 c' Hc') as [H|H]; [left; right; assumption|right; assumption].
      * intros c' [->|Hc']; [left; left; reflexivity|].
        destruct (I4 c' Hc') as [H|H]; [left; right; assumption|right; assumption].
Qed.

(* ---------------------------------------------------------------------- *)
(* process_completed_fragment *)

Lemma NoDup_snoc {A} (l : list A) x : NoDup l -> ~ In x l -> NoDup (l ++ [x]).
Proof.
  induction l as [|y l IH]; simpl; intros H Hn.
  - constructor; [intros []|constructor].
  - inversion H; subst. constructor.
    + rewrite in_app_iff. simpl. intros [C|[C|[]]]; [contradiction|]. apply Hn. left. congruence.
    + apply IH; [assumption|]. intro C. apply Hn. right. assumption.
Qed.

Lemma in_keys_find i l : In i (map fst l) -> exists d, find_inflight i l = Some d.
Proof.
  induction l as [|[j x] l IH]; simpl; [intros []|].
  intros [H|H].
  - subst. rewrite Nat.eqb_refl. eexists. reflexivity.
  - destruct (j =? i); [eexists; reflexivity|apply IH; assumption].
Qed.

Lemma queued_facts st fbd nb q idx :
  Forall (QOk st fbd nb) q -> In idx (qidxs q) -> idx < p_nfrag st /\ ~ is_cur st idx.
Proof.
  induction q as [|[f dd pbs|r i pb] q IH]; simpl; intros HF Hin; [contradiction| |].
  - inversion HF; subst. apply IH; assumption.
  - inversion HF as [|? ? Hq HF']; subst. destruct Hin as [->|Hin]; [|apply IH; assumption].
    simpl in Hq. tauto.
Qed.

Lemma OnDisk_mono2 st st' claims claims' fbd fbd' idx :
  p_ftab st' idx = p_ftab st idx -> incl claims claims' -> fbd' idx = fbd idx ->
  OnDisk st claims fbd idx -> OnDisk st' claims' fbd' idx.
Proof.
  intros E I F (loc & p & H1 & H2 & H3 & H4 & H5). exists loc, p.
  rewrite E, F. split; [assumption|]. split; [apply I; assumption|].
  split; [assumption|]. split; assumption.
Qed.

Lemma OnDisk_ftab_nonzero st claims fbd i : OnDisk st claims fbd i -> snd (p_ftab st i) <> 0%N.
Proof.
  intros (loc & p & H1 & H2 & H3 & H4 & H5) C. rewrite H1 in C. simpl in C.
  destruct H4 as (_ & Hle & _ & S2). destruct (S2 H3) as (Hne & _). destruct H5 as [Hl Hl2].
  assert (Sm : small (length (pb_data p))) by (eapply small_le; [|exact Hsmall]; lia).
  pose proof (sw_sparse_of (length (pb_data p)) (pb_compressed p) Sm) as Hs.
  rewrite word_nonsparse in C by assumption. rewrite C in Hs. rewrite sw_sparse_zero in Hs.
  symmetry in Hs. apply length_zero_iff in Hs. contradiction.
Qed.

Lemma enqueue_inv st claims fbd nb nt fb :
  PInv st (p_ioq st) claims fbd nb nt -> p_fragblk st = Some fb ->
  PInv (enqueue_fragblk hashf compress true st fb)
       (p_ioq (enqueue_fragblk hashf compress true st fb)) claims fbd nb nt /\
  p_fragblk (enqueue_fragblk hashf compress true st fb) = None /\
  same_all (set_fragblk (set_inflight (set_ioq st []) []) None)
           (set_fragblk (set_inflight (set_ioq (enqueue_fragblk hashf compress true st fb) []) []) None).
Proof.
  intros [P1 P2 P3 P4 P5 P6 P7 P8 P9 P10 P11 P12 P13] Hfb.
  destruct (P5 fb Hfb) as (C1 & C2 & C3 & C4 & C5).
  split; [|split; [reflexivity|unfold same_all, same_aux; splits; reflexivity]].
  unfold enqueue_fragblk. cbn [set_inflight set_ioq set_fragblk p_ioq].
  set (pb := work true false (fb_dont_compress fb) false (fb_data fb)).
  constructor; cbn [p_wr p_nfrag p_ftab p_fragblk p_inflight p_ht p_cached p_start p_size p_frag
                    set_inflight set_ioq set_fragblk].
  - assumption.
  - apply Forall_app. split.
    + apply Forall_forall. intros it Hit. rewrite Forall_forall in P2. specialize (P2 it Hit).
      destruct it as [f dd pbs|r i pb']; simpl in *; [assumption|].
      destruct P2 as (H1 & H2 & H3 & H4 & H5 & H6).
      assert (Hne : fb_index fb <> i).
      { intro; subst. apply C5. eapply in_qidxs. eassumption. }
      destruct (fb_index fb =? i) eqn:Ei; [apply Nat.eqb_eq in Ei; contradiction|].
      splits; try assumption. intros (fb' & F1 & _). discriminate.
    + constructor; [|constructor]. simpl. rewrite Nat.eqb_refl, C3.
      splits; try assumption; try reflexivity.
      * exists (fb_dont_compress fb). reflexivity.
      * intros (fb' & F1 & _). discriminate.
  - rewrite qfids_app. simpl. rewrite app_nil_r. assumption.
  - rewrite qidxs_app. simpl. apply NoDup_snoc; assumption.
  - intros fb' F. discriminate.
  - intros idx Hi. destruct (P6 idx Hi) as [H|[H|H]].
    + right. left. destruct H as (fb' & F1 & F2). rewrite Hfb in F1. inversion F1; subst.
      rewrite qidxs_app. apply in_or_app. right. left. reflexivity.
    + right. left. rewrite qidxs_app. apply in_or_app. left. assumption.
    + right. right. eapply OnDisk_mono; [| |exact H]; [reflexivity|apply incl_refl].
  - intros i d H. simpl in H. rewrite qidxs_app. destruct (fb_index fb =? i) eqn:Ei.
    + apply Nat.eqb_eq in Ei. subst. inversion H; subst. split; [symmetry; assumption|].
      apply in_or_app. right. left. reflexivity.
    + destruct (P7 i d H) as [H1 H2]. split; [assumption|]. apply in_or_app. left. assumption.
  - simpl. constructor; [|assumption]. intro C. apply in_keys_find in C. destruct C as [d C].
    destruct (P7 _ _ C) as [_ C']. contradiction.
  - intros i d H. destruct (P9 i d H) as (H1 & H2 & H3). splits; assumption.
  - assumption.
  - assumption.
  - assumption.
  - intros f Hf Hb. destruct (P13 f Hf Hb) as [H|H].
    + left. rewrite qfids_app. apply in_or_app. left. assumption.
    + right. eapply Written_mono; [| | |exact H]; [reflexivity|reflexivity|apply incl_refl].
Qed.

(* a fragment is put into the block being filled (or becomes the start of a new one) *)
Lemma PInv_place st st' q claims fbd fbd' nb nt c fb' :
  PInv st q claims fbd nb nt ->
  p_wr st' = p_wr st -> p_inflight st' = p_inflight st -> p_ht st' = p_ht st ->
  p_cached st' = p_cached st -> p_start st' = p_start st -> p_size st' = p_size st ->
  p_frag st' = p_frag st ->
  p_nfrag st <= p_nfrag st' -> (forall i, i < p_nfrag st -> p_ftab st' i = p_ftab st i) ->
  p_fragblk st' = Some fb' -> fb_index fb' = c -> c < p_nfrag st' -> p_ftab st' c = (0, 0%N) ->
  fbd' c = fb_data fb' -> fragdata_ok (fb_data fb') ->
  (forall i, i <> c -> fbd' i = fbd i) ->
  ((is_cur st c /\ p_nfrag st' = p_nfrag st /\ exists e, fbd' c = fbd c ++ e) \/
   (p_fragblk st = None /\ c = p_nfrag st /\ p_nfrag st' = S (p_nfrag st))) ->
  PInv st' q claims fbd' nb nt.
Proof.
  intros [P1 P2 P3 P4 P5 P6 P7 P8 P9 P10 P11 P12 P13] Ew Ei Eh Ec Es Ez Ef Hn Hft Hfb Hc Hcn Hc0 Hcd Hcok Hoth Hcase.
  assert (Hq : forall i, In i (qidxs q) -> i < p_nfrag st /\ i <> c).
  { intros i Hi. destruct (queued_facts _ _ _ _ _ P2 Hi) as [H1 H2]. split; [assumption|].
    intro; subst i. destruct Hcase as [(H & _)|(H & H' & _)]; [contradiction|lia]. }
  assert (Hdisk : forall i, i < p_nfrag st -> OnDisk st claims fbd i -> i <> c).
  { intros i Hi Hd E. subst i. destruct Hcase as [((fb & F1 & F2) & _)|(_ & H' & _)]; [|lia].
    destruct (P5 fb F1) as (_ & Z & _). rewrite F2 in Z.
    apply OnDisk_ftab_nonzero in Hd. rewrite Z in Hd. contradiction. }
  assert (Hlen : forall i, i < p_nfrag st -> length (fbd i) <= length (fbd' i) /\
                 forall o n, o + n <= length (fbd i) -> slice (fbd' i) o n = slice (fbd i) o n).
  { intros i Hi. destruct (Nat.eq_dec i c) as [->|Hne].
    - destruct Hcase as [(_ & _ & e & He)|(_ & H' & _)]; [|lia]. rewrite He. split.
      + rewrite app_length. lia.
      + intros o n Hon. apply slice_app_l. assumption.
    - rewrite (Hoth i Hne). split; [lia|reflexivity]. }
  constructor.
  - rewrite Ew. assumption.
  - apply Forall_forall. intros it Hit. rewrite Forall_forall in P2. specialize (P2 it Hit).
    destruct it as [f dd pbs|r i pb']; simpl in *; [assumption|].
    destruct P2 as (H1 & H2 & H3 & H4 & H5 & H6).
    destruct (Hq i (in_qidxs _ _ _ _ Hit)) as [Q1 Q2].
    rewrite (Hoth i Q2), (Hft i Q1), Ei. splits; try assumption; try lia.
    intros (fb & F1 & F2). rewrite Hfb in F1. inversion F1; subst. contradiction.
  - assumption.
  - assumption.
  - intros fb F. rewrite Hfb in F. inversion F; subst fb. rewrite Hc.
    splits; try assumption. intro C. destruct (Hq c C) as [_ C']. contradiction.
  - intros idx Hi. destruct (Nat.eq_dec idx c) as [->|Hne].
    + left. exists fb'. split; assumption.
    + assert (Hi' : idx < p_nfrag st).
      { destruct Hcase as [(_ & H & _)|(_ & H1 & H2)]; lia. }
      destruct (P6 idx Hi') as [H|[H|H]].
      * exfalso. destruct H as (fb & F1 & F2).
        destruct Hcase as [((fb0 & G1 & G2) & _)|(G & _)]; [|congruence].
        rewrite F1 in G1. inversion G1; subst. contradiction.
      * right. left. assumption.
      * right. right. eapply OnDisk_mono2; [| | |exact H];
          [apply Hft; assumption|apply incl_refl|apply Hoth; assumption].
  - rewrite Ei. intros i d H. destruct (P7 i d H) as [H1 H2]. split; [|assumption].
    destruct (Hq i H2) as [_ Q2]. rewrite (Hoth i Q2). assumption.
  - rewrite Ei. assumption.
  - rewrite Ec. intros i d H. destruct (P9 i d H) as (H1 & H2 & H3).
    pose proof (Hdisk i H2 H3) as Hne. rewrite (Hoth i Hne). splits; [assumption|lia|].
    eapply OnDisk_mono2; [| | |exact H3]; [apply Hft; assumption|apply incl_refl|apply Hoth; assumption].
  - rewrite Eh. intros c0 Hc0'. destruct (P10 c0 Hc0') as (H1 & H2 & H3).
    destruct (Hlen _ H1) as [L _]. splits; lia.
  - rewrite Ef. intros fid i o H. destruct (P11 fid i o H) as (H1 & t & H2 & H3 & H4 & H5).
    split; [assumption|]. exists t. destruct (Hlen _ H3) as [L1 L2].
    splits; try assumption; try lia. rewrite L2 by assumption. assumption.
  - rewrite Ef, Ez. assumption.
  - intros f Hf Hb. destruct (P13 f Hf Hb) as [H|H]; [left; assumption|right].
    eapply Written_mono; [| | |exact H]; [rewrite Es; reflexivity|intro; rewrite Ez; reflexivity|apply incl_refl].
Qed.

(* the tail of file [n] has got its place: (i, o) *)
Lemma PInv_set_frag st st' q claims fbd n t i o :
  PInv st q claims fbd (S n) n ->
  j_tail (job n) = Some t -> tail_sparse n t = false ->
  i < p_nfrag st -> o + length t <= length (fbd i) -> slice (fbd i) o (length t) = t ->
  p_wr st' = p_wr st -> p_nfrag st' = p_nfrag st -> p_ftab st' = p_ftab st ->
  p_fragblk st' = p_fragblk st -> p_inflight st' = p_inflight st ->
  p_start st' = p_start st -> p_size st' = p_size st ->
  (forall f, p_frag st' f = if f =? n then Some (i, o) else p_frag st f) ->
  cached_ok st claims fbd (p_cached st') ->
  (forall c, In c (p_ht st') -> ck_index c < p_nfrag st /\ 0 < ck_size c /\
                                ck_offset c + ck_size c <= length (fbd (ck_index c))) ->
  PInv st' q claims fbd (S n) (S n).
Proof.
  intros [P1 P2 P3 P4 P5 P6 P7 P8 P9 P10 P11 P12 P13] Ht Hz Hi Hb Hs Ew En Eft Efb Ei Es Ez Ef Hca Hht.
  assert (HOD : forall idx, OnDisk st claims fbd idx -> OnDisk st' claims fbd idx).
  { intros idx H. eapply OnDisk_mono; [| |exact H]; [rewrite Eft; reflexivity|apply incl_refl]. }
  constructor.
  - rewrite Ew. assumption.
  - eapply Forall_impl; [|exact P2]. intro it. apply QOk_same; assumption.
  - assumption.
  - assumption.
  - rewrite Efb, En, Eft. assumption.
  - rewrite En. intros idx Hidx. destruct (P6 idx Hidx) as [H|[H|H]].
    + left. eapply is_cur_same; [|exact H]. assumption.
    + right. left. assumption.
    + right. right. apply HOD. assumption.
  - rewrite Ei. assumption.
  - rewrite Ei. assumption.
  - intros i0 d H. destruct (Hca i0 d H) as (H1 & H2 & H3). rewrite En.
    splits; try assumption. apply HOD. assumption.
  - rewrite En. assumption.
  - intros fid i0 o0 H. rewrite Ef in H. rewrite En. destruct (fid =? n) eqn:E.
    + apply Nat.eqb_eq in E. subst fid. inversion H; subst i0 o0. split; [lia|].
      exists t. splits; assumption.
    + destruct (P11 fid i0 o0 H) as (H1 & H2). split; [lia|assumption].
  - intros fid t0 Hf Ht0. rewrite Ef, Ez. destruct (fid =? n) eqn:E.
    + apply Nat.eqb_eq in E. subst fid. rewrite Ht in Ht0. inversion Ht0; subst t0.
      rewrite Hz. discriminate.
    + apply Nat.eqb_neq in E. apply P12; [lia|assumption].
  - intros f Hf Hb'. destruct (P13 f Hf Hb') as [H|H]; [left; assumption|right].
    eapply Written_mono; [| | |exact H]; [rewrite Es; reflexivity|intro; rewrite Ez; reflexivity|apply incl_refl].
Qed.

Definition upd (fbd : nat -> list N) (c : nat) (v : list N) : nat -> list N :=
  fun i => if i =? c then v else fbd i.

(* the content of every fragment block only ever grows at its end *)
Definition fext (n : nat) (fbd fbd' : nat -> list N) : Prop :=
  forall i, i < n -> exists e, fbd' i = fbd i ++ e.

Lemma fext_refl n fbd : fext n fbd fbd.
Proof. intros i _. exists []. rewrite app_nil_r. reflexivity. Qed.

Lemma fext_trans n m f g h : n <= m -> fext n f g -> fext m g h -> fext n f h.
Proof.
  intros L A B i Hi. destruct (A i Hi) as [e1 E1]. destruct (B i ltac:(lia)) as [e2 E2].
  exists (e1 ++ e2). rewrite E2, E1, app_assoc. reflexivity.
Qed.

Lemma PInv_set_cached st q claims fbd nb nt ca :
  cached_ok st claims fbd ca -> PInv st q claims fbd nb nt ->
  PInv (set_cached st ca) q claims fbd nb nt.
Proof.
  intros Hca [P1 P2 P3 P4 P5 P6 P7 P8 P9 P10 P11 P12 P13].
  constructor; try assumption.
Qed.

Lemma store_inv st claims fbd n t chk :
  PInv st (p_ioq st) claims fbd (S n) n ->
  j_tail (job n) = Some t -> tail_sparse n t = false ->
  exists st' fbd',
    store_fragment hashf compress uncompress bs true st n (j_fl (job n)) t chk = Ok st' /\
    PInv st' (p_ioq st') claims fbd' (S n) (S n) /\
    fext (p_nfrag st) fbd fbd' /\ p_nfrag st <= p_nfrag st'.
Proof.
  intros HP Ht Hts. pose proof (tail_facts _ _ Ht) as Htl.
  unfold store_fragment.
  (* step 1: flush the fragment block if the fragment does not fit *)
  set (st1 := match p_fragblk st with
              | Some fb => if bs <? length (fb_data fb) + length t
                           then enqueue_fragblk hashf compress true st fb else st
              | None => st end).
  assert (H1 : PInv st1 (p_ioq st1) claims fbd (S n) n /\ p_nfrag st1 = p_nfrag st /\
               (p_fragblk st1 = None \/
                exists fb, p_fragblk st1 = Some fb /\ length (fb_data fb) + length t <= bs)).
  { unfold st1. destruct (p_fragblk st) as [fb|] eqn:Efb.
    - destruct (bs <? length (fb_data fb) + length t) eqn:Eo.
      + destruct (enqueue_inv _ _ _ _ _ fb HP Efb) as (Q1 & Q2 & Q3).
        split; [exact Q1|]. split; [|left; exact Q2].
        destruct Q3 as (_ & (A1 & _) & _). simpl in A1. exact A1.
      + apply Nat.ltb_ge in Eo. split; [exact HP|]. split; [reflexivity|].
        right. exists fb. split; assumption.
    - split; [exact HP|]. split; [reflexivity|]. left. exact Efb. }
  clearbody st1. destruct H1 as (HP1 & En1 & Hfb1).
  pose proof HP1 as [P1 P2 P3 P4 P5 P6 P7 P8 P9 P10 P11 P12 P13].
  (* step 2: the fragment gets its place *)
  assert (H2 : exists st2 index offset fbd',
     (match p_fragblk st1 with
      | None =>
        (set_fragblk (append_ftab st1)
           (Some {| fb_index := p_nfrag st1; fb_data := t;
                    fb_dont_compress := uf_dont_compress (j_fl (job n)) |}), p_nfrag st1, 0)
      | Some fb =>
        (set_fragblk st1
           (Some {| fb_index := fb_index fb; fb_data := fb_data fb ++ t;
                    fb_dont_compress := fb_dont_compress fb || uf_dont_compress (j_fl (job n)) |}),
         fb_index fb, length (fb_data fb))
      end) = (st2, index, offset) /\
     PInv st2 (p_ioq st1) claims fbd' (S n) n /\ p_ioq st2 = p_ioq st1 /\
     index < p_nfrag st2 /\ offset + length t <= length (fbd' index) /\
     slice (fbd' index) offset (length t) = t /\
     fext (p_nfrag st1) fbd fbd' /\ p_nfrag st1 <= p_nfrag st2).
  { destruct Hfb1 as [Efb|(fb & Efb & Hfit)]; rewrite Efb.
    - (* a new fragment block *)
      set (i := p_nfrag st1).
      set (fb' := {| fb_index := i; fb_data := t;
                     fb_dont_compress := uf_dont_compress (j_fl (job n)) |}).
      exists (set_fragblk (append_ftab st1) (Some fb')), i, 0, (upd fbd i t).
      split; [reflexivity|].
      assert (Hu : upd fbd i t i = t) by (unfold upd; rewrite Nat.eqb_refl; reflexivity).
      split.
      { apply (PInv_place st1 (set_fragblk (append_ftab st1) (Some fb')) (p_ioq st1) claims
                          fbd (upd fbd i t) (S n) n i fb' HP1);
          [reflexivity|reflexivity|reflexivity|reflexivity|reflexivity|reflexivity|reflexivity
          | | |reflexivity|reflexivity| | | | | | ].
        - simpl. lia.
        - intros j Hj. simpl. destruct (j =? p_nfrag st1) eqn:E; [apply Nat.eqb_eq in E; lia|reflexivity].
        - simpl. unfold i. lia.
        - simpl. unfold i. rewrite Nat.eqb_refl. reflexivity.
        - exact Hu.
        - simpl. unfold fragdata_ok. lia.
        - intros j Hj. unfold upd. destruct (j =? i) eqn:E; [apply Nat.eqb_eq in E; contradiction|reflexivity].
        - right. splits; [assumption|reflexivity|reflexivity]. }
      split; [reflexivity|]. split; [simpl; unfold i; lia|].
      rewrite Hu. split; [simpl; lia|]. split; [apply slice_all|]. split; [|simpl; lia].
      intros j Hj. exists []. unfold upd.
      destruct (j =? i) eqn:E; [apply Nat.eqb_eq in E; unfold i in E; lia|].
      rewrite app_nil_r. reflexivity.
    - (* appended to the block being filled *)
      destruct (P5 fb Efb) as (C1 & C2 & C3 & C4 & C5).
      set (c := fb_index fb).
      set (fb' := {| fb_index := c; fb_data := fb_data fb ++ t;
                     fb_dont_compress := fb_dont_compress fb || uf_dont_compress (j_fl (job n)) |}).
      exists (set_fragblk st1 (Some fb')), c, (length (fb_data fb)), (upd fbd c (fb_data fb ++ t)).
      split; [reflexivity|].
      assert (Hu : upd fbd c (fb_data fb ++ t) c = fb_data fb ++ t)
        by (unfold upd; rewrite Nat.eqb_refl; reflexivity).
      split.
      { apply (PInv_place st1 (set_fragblk st1 (Some fb')) (p_ioq st1) claims
                          fbd (upd fbd c (fb_data fb ++ t)) (S n) n c fb' HP1);
          [reflexivity|reflexivity|reflexivity|reflexivity|reflexivity|reflexivity|reflexivity
          | | |reflexivity|reflexivity| | | | | | ].
        - simpl. lia.
        - intros j Hj. reflexivity.
        - simpl. assumption.
        - simpl. assumption.
        - exact Hu.
        - simpl. unfold fragdata_ok. rewrite app_length. destruct C4. lia.
        - intros j Hj. unfold upd. destruct (j =? c) eqn:E; [apply Nat.eqb_eq in E; contradiction|reflexivity].
        - left. splits; [exists fb; split; [assumption|reflexivity]|reflexivity|].
          exists t. rewrite Hu. fold c in C3. rewrite C3. reflexivity. }
      split; [reflexivity|]. split; [simpl; assumption|].
      rewrite Hu. split; [rewrite app_length; lia|]. split; [apply slice_app_mid'|].
      split; [|simpl; lia].
      intros j Hj. unfold upd. destruct (j =? c) eqn:E.
      + apply Nat.eqb_eq in E. subst j. exists t. fold c in C3. rewrite C3. reflexivity.
      + exists []. rewrite app_nil_r. reflexivity. }
  destruct H2 as (st2 & index & offset & fbd' & E2 & HP2 & Eq2 & Hi & Hb & Hs & Hext & Hn2).
  rewrite E2.
  (* step 3: hash table and inode *)
  set (nc := {| ck_index := index; ck_offset := offset; ck_size := length t; ck_hash := chk |}).
  pose proof HP2 as [Q1 Q2 Q3 Q4 Q5 Q6 Q7 Q8 Q9 Q10 Q11 Q12 Q13].
  destruct (ht_insert_ok st2 _ _ _ _ _ nc t (p_ht st2) (p_cached st2) HP2 Q9 (incl_refl _) eq_refl)
    as (h & ca & E3 & Hca & Hnc & Hh & _).
  rewrite E3.
  exists (set_frag (set_cached (set_ht st2 h) ca) n index offset), fbd'.
  split; [reflexivity|]. split.
  - cbn [p_ioq set_frag set_cached set_ht]. rewrite Eq2.
    eapply (PInv_set_frag st2 _ _ _ _ n t index offset HP2); try reflexivity; try assumption.
    intros c Hc. simpl in Hc. destruct (Hh c Hc) as [H|H].
    + apply Q10. assumption.
    + subst c. simpl. splits; [assumption|lia|assumption].
  - split.
    + rewrite <- En1. assumption.
    + simpl. lia.
Qed.

Lemma PInv_sparse_tail st q claims fbd n t :
  PInv st q claims fbd (S n) n -> j_tail (job n) = Some t -> tail_sparse n t = true ->
  PInv (set_size st n (length (j_blocks (job n)) - 1) 0%N) q claims fbd (S n) (S n).
Proof.
  intros [P1 P2 P3 P4 P5 P6 P7 P8 P9 P10 P11 P12 P13] Ht Hts.
  constructor; try assumption.
  - intros fid i o H. destruct (P11 fid i o H) as [H1 H2]. split; [lia|assumption].
  - intros fid t0 Hf Ht0. cbn [p_frag p_size set_size].
    destruct (Nat.eq_dec fid n) as [->|Hne].
    + rewrite Ht in Ht0. inversion Ht0; subst t0. rewrite Hts. split.
      * destruct (p_frag st n) as [[i o]|] eqn:E; [|reflexivity].
        destruct (P11 n i o E) as [C _]. lia.
      * rewrite !Nat.eqb_refl. reflexivity.
    + specialize (P12 fid t0 ltac:(lia) Ht0). destruct (tail_sparse fid t0); [|assumption].
      destruct (fid =? n) eqn:E; [apply Nat.eqb_eq in E; contradiction|]. assumption.
  - intros f Hf Hb. destruct (P13 f Hf Hb) as [H|H]; [left; assumption|right].
    destruct H as [W1 W2]. split; [exact W1|].
    intros k p Hk Hp. cbn [p_size set_size].
    destruct ((f =? n) && (k =? length (j_blocks (job n)) - 1)) eqn:E; [|apply W2; assumption].
    apply andb_true_iff in E. destruct E as [E1 E2].
    apply Nat.eqb_eq in E1. apply Nat.eqb_eq in E2. subst f k.
    exfalso. apply Hp. eapply tail_slot_free; eassumption.
Qed.

Lemma process_fragment_inv st claims fbd n t :
  PInv st (p_ioq st) claims fbd (S n) n -> j_tail (job n) = Some t ->
  exists st' fbd',
    process_fragment hashf compress uncompress bs true st n
                     (length (j_blocks (job n)) - 1) (j_fl (job n)) t = Ok st' /\
    PInv st' (p_ioq st') claims fbd' (S n) (S n) /\
    fext (p_nfrag st) fbd fbd' /\ p_nfrag st <= p_nfrag st'.
Proof.
  intros HP Ht. pose proof (tail_facts _ _ Ht) as Htl.
  assert (Htne : t <> []) by (intro; subst; simpl in Htl; lia).
  unfold process_fragment.
  rewrite work_sparse_iff by assumption. fold (tail_sparse n t).
  destruct (tail_sparse n t) eqn:Hts.
  - exists (set_size st n (length (j_blocks (job n)) - 1) 0%N), fbd.
    split; [reflexivity|]. split; [|split; [apply fext_refl|simpl; lia]].
    apply (PInv_sparse_tail st _ _ _ n t); assumption.
  - rewrite (work_frag_raw hashf compress) by assumption. cbn [pb_chk].
    set (chk := if uf_dont_hash (j_fl (job n)) then 0%N else hashf t).
    destruct (uf_dont_dedup (j_fl (job n))).
    + apply store_inv; assumption.
    + pose proof HP as [P1 P2 P3 P4 P5 P6 P7 P8 P9 P10 P11 P12 P13].
      pose proof (ht_search_ok st _ _ _ _ _ chk t (p_ht st) (p_cached st) HP P9 (incl_refl _)) as HS.
      destruct (ht_search uncompress bs true st (p_cached st) (length t) chk t (p_ht st))
        as [c ca|ca|]; [| |contradiction].
      * destruct HS as (Hin & (B1 & B2 & B3) & Hca).
        destruct (P10 c Hin) as (H1 & H2 & H3).
        exists (set_frag (set_cached st ca) n (ck_index c) (ck_offset c)), fbd.
        split; [reflexivity|]. split; [|split; [apply fext_refl|simpl; lia]].
        eapply (PInv_set_frag st _ _ _ _ n t (ck_index c) (ck_offset c) HP); try reflexivity;
          try assumption.
        -- rewrite <- B1. assumption.
        -- rewrite <- B1. assumption.
      * destruct HS as (Hca & _).
        destruct (store_inv (set_cached st ca) claims fbd n t chk) as (st' & fbd' & E & R);
          [apply PInv_set_cached; assumption|assumption|assumption|].
        exists st', fbd'. split; [exact E|exact R].
Qed.

(* ---------------------------------------------------------------------- *)
(* the steps *)

Lemma QOk_nb st fbd nb nb' it : nb <= nb' -> QOk st fbd nb it -> QOk st fbd nb' it.
Proof. intro L. destruct it; simpl; [|tauto]. intros (H1 & H2). split; [lia|assumption]. Qed.

Lemma qfids_bound st fbd nb q f : Forall (QOk st fbd nb) q -> In f (qfids q) -> f < nb.
Proof.
  induction q as [|[f' dd pbs|r i pb] q IH]; simpl; intros HF Hin; [contradiction| |].
  - inversion HF as [|? ? Hq HF']; subst. destruct Hin as [->|Hin]; [|apply IH; assumption].
    simpl in Hq. tauto.
  - inversion HF; subst. apply IH; assumption.
Qed.

Lemma push_inv st claims fbd n :
  PInv st (p_ioq st) claims fbd n n ->
  let st2 := match j_blocks (job n) with
             | [] => st
             | _ :: _ => set_ioq st (p_ioq st ++
                 [QFile n (uf_dont_dedup (j_fl (job n)))
                    (map (work (uf_ignore_sparse (j_fl (job n))) false
                               (uf_dont_compress (j_fl (job n))) (uf_dont_hash (j_fl (job n))))
                         (j_blocks (job n)))])
             end in
  PInv st2 (p_ioq st2) claims fbd (S n) n /\ p_nfrag st2 = p_nfrag st.
Proof.
  intros [P1 P2 P3 P4 P5 P6 P7 P8 P9 P10 P11 P12 P13].
  destruct (j_blocks (job n)) as [|b0 bl] eqn:Eb; cbv zeta.
  - split; [|reflexivity]. constructor; try assumption.
    + eapply Forall_impl; [|exact P2]. intro it. apply QOk_nb. lia.
    + intros f Hf Hb. apply P13; [|assumption].
      destruct (Nat.eq_dec f n) as [->|Hne]; [congruence|lia].
  - split; [|reflexivity]. cbn [p_ioq set_ioq].
    constructor; cbn [p_wr p_nfrag p_ftab p_fragblk p_inflight p_ht p_cached p_start p_size p_frag set_ioq];
      try assumption.
    + apply Forall_app. split.
      * eapply Forall_impl; [|exact P2]. intros it Hit.
        apply (QOk_nb st fbd n (S n) it ltac:(lia)) in Hit. destruct it; exact Hit.
      * constructor; [|constructor]. simpl. splits; [lia| |reflexivity|congruence].
        unfold jpbs, jwork. rewrite Eb. reflexivity.
    + rewrite qfids_app. simpl. apply NoDup_snoc; [assumption|].
      intro C. pose proof (qfids_bound _ _ _ _ _ P2 C). lia.
    + rewrite qidxs_app. simpl. rewrite app_nil_r. assumption.
    + rewrite qidxs_app. simpl. rewrite app_nil_r. assumption.
    + rewrite qidxs_app. simpl. rewrite app_nil_r. assumption.
    + rewrite qidxs_app. simpl. rewrite app_nil_r. assumption.
    + intros f Hf Hb. rewrite qfids_app. destruct (Nat.eq_dec f n) as [->|Hne].
      * left. apply in_or_app. right. left. reflexivity.
      * destruct (P13 f ltac:(lia) Hb) as [H|H]; [left; apply in_or_app; left; assumption|right; assumption].
Qed.

Lemma PInv_no_tail st q claims fbd n :
  PInv st q claims fbd (S n) n -> j_tail (job n) = None -> PInv st q claims fbd (S n) (S n).
Proof.
  intros [P1 P2 P3 P4 P5 P6 P7 P8 P9 P10 P11 P12 P13] Ht.
  constructor; try assumption.
  - intros fid i o H. destruct (P11 fid i o H) as [H1 H2]. split; [lia|assumption].
  - intros fid t Hf Ht0. destruct (Nat.eq_dec fid n) as [->|Hne]; [congruence|].
    apply P12; [lia|assumption].
Qed.

Lemma step_file_inv st claims fbd n :
  PInv st (p_ioq st) claims fbd n n ->
  exists st' claims' fbd',
    step_file hashf compress uncompress bs false true half st n (job n) = Ok st' /\
    PInv st' (p_ioq st') claims' fbd' (S n) (S n) /\ incl claims claims' /\
    fext (p_nfrag st) fbd fbd' /\ p_nfrag st <= p_nfrag st'.
Proof.
  intro HP. unfold step_file, drain.
  destruct (drain_q_inv fbd n n _ _ _ HP) as (st1 & claims1 & E1 & HP1 & I1 & F1 & _).
  rewrite E1.
  destruct (push_inv st1 claims1 fbd n HP1) as [HP2 F2]. cbv zeta in HP2, F2.
  match goal with |- context [drain_q false half (p_ioq ?s) ?s] => set (st2 := s) in * end.
  destruct (drain_q_inv fbd (S n) n _ _ _ HP2) as (st3 & claims3 & E3 & HP3 & I3 & F3 & _).
  rewrite E3.
  destruct (j_tail (job n)) as [t|] eqn:Et.
  - destruct (process_fragment_inv st3 claims3 fbd n t HP3 Et) as (st' & fbd' & E & HP' & X & L).
    exists st', claims3, fbd'. split; [exact E|]. split; [exact HP'|].
    split; [intros x Hx; apply I3, I1; assumption|].
    assert (En : p_nfrag st3 = p_nfrag st) by congruence.
    rewrite En in X, L. split; assumption.
  - exists st3, claims3, fbd. split; [reflexivity|].
    split; [apply PInv_no_tail; assumption|].
    split; [intros x Hx; apply I3, I1; assumption|].
    split; [apply fext_refl|]. assert (En : p_nfrag st3 = p_nfrag st) by congruence. lia.
Qed.

Lemma QOk_ready st fbd nb r r' i pb : QOk st fbd nb (QFrag r i pb) -> QOk st fbd nb (QFrag r' i pb).
Proof. simpl. tauto. Qed.

Lemma Forall_QOk_mark_first st fbd nb q :
  Forall (QOk st fbd nb) q -> Forall (QOk st fbd nb) (mark_first_ready q).
Proof.
  induction q as [|[f dd pbs|r i pb] q IH]; simpl; intro H; [constructor| |].
  - inversion H; subst. constructor; [assumption|apply IH; assumption].
  - inversion H; subst. destruct r.
    + constructor; [assumption|apply IH; assumption].
    + constructor; [eapply QOk_ready; eassumption|assumption].
Qed.

Lemma Forall_QOk_mark_all st fbd nb q :
  Forall (QOk st fbd nb) q -> Forall (QOk st fbd nb) (mark_all_ready q).
Proof.
  induction q as [|[f dd pbs|r i pb] q IH]; simpl; intro H; [constructor| |];
    inversion H; subst; constructor; try (apply IH; assumption); try assumption.
Qed.

Lemma PInv_requeue st q q' claims fbd nb nt :
  qfids q' = qfids q -> qidxs q' = qidxs q -> Forall (QOk st fbd nb) q' ->
  PInv st q claims fbd nb nt -> PInv (set_ioq st q') q' claims fbd nb nt.
Proof.
  intros E1 E2 HF [P1 P2 P3 P4 P5 P6 P7 P8 P9 P10 P11 P12 P13].
  constructor; try assumption; try (rewrite E1; assumption); try (rewrite E2; assumption).
Qed.

Lemma step_fragdone_inv st claims fbd n :
  PInv st (p_ioq st) claims fbd n n ->
  exists st' claims',
    step_fragdone false half st = Ok st' /\
    PInv st' (p_ioq st') claims' fbd n n /\ incl claims claims' /\ p_nfrag st' = p_nfrag st.
Proof.
  intro HP. unfold step_fragdone, drain.
  destruct (drain_q_inv fbd n n _ _ _ HP) as (st1 & claims1 & E1 & HP1 & I1 & F1 & _).
  rewrite E1. eexists _, claims1. split; [reflexivity|]. split; [|split; [assumption|exact F1]].
  cbn [p_ioq set_ioq]. apply (PInv_requeue st1 (p_ioq st1)); [apply qfids_mark_first|apply qidxs_mark_first| |assumption].
  apply Forall_QOk_mark_first. destruct HP1. assumption.
Qed.

Lemma fragdone_n_inv n : forall k st claims fbd,
  PInv st (p_ioq st) claims fbd n n ->
  exists st' claims',
    fragdone_n false half k st = Ok st' /\
    PInv st' (p_ioq st') claims' fbd n n /\ incl claims claims' /\ p_nfrag st' = p_nfrag st.
Proof.
  induction k as [|k IH]; intros st claims fbd HP.
  - exists st, claims. split; [reflexivity|]. split; [assumption|]. split; [apply incl_refl|reflexivity].
  - cbn [fragdone_n].
    destruct (step_fragdone_inv st claims fbd n HP) as (st1 & claims1 & E1 & HP1 & I1 & F1).
    rewrite E1. destruct (IH st1 claims1 fbd HP1) as (st' & claims' & E' & HP' & I' & F').
    exists st', claims'. split; [exact E'|]. split; [exact HP'|].
    split; [intros x Hx; apply I', I1; assumption|congruence].
Qed.

(* ---------------------------------------------------------------------- *)
(* sync / finish / the whole run *)

Definition is_ready (it : qitem) : Prop :=
  match it with QFrag false _ _ => False | _ => True end.

Lemma mark_all_is_ready q : Forall is_ready (mark_all_ready q).
Proof. induction q as [|[f dd pbs|r i pb] q IH]; simpl; constructor; simpl; auto. Qed.

Lemma drain_q_all_ready : forall q st st',
  Forall is_ready q -> drain_q false half q st = Ok st' -> p_ioq st' = [].
Proof.
  induction q as [|[f dd pbs|r i pb] q IH]; intros st st' HF E; cbn [drain_q] in E.
  - inversion E. reflexivity.
  - inversion HF; subst.
    destruct (complete_blocks false half st f dd 0 pbs) as [st1| |]; try discriminate.
    eapply IH; eassumption.
  - inversion HF as [|? ? Hr HF']; subst. destruct r; [|contradiction].
    destruct (complete_fragblk false half st i pb) as [st1| |]; try discriminate.
    eapply IH; eassumption.
Qed.

Lemma sync_inv st claims fbd n :
  PInv st (p_ioq st) claims fbd n n ->
  exists st' claims',
    sync false half st = Ok st' /\ PInv st' [] claims' fbd n n /\ p_ioq st' = [] /\
    incl claims claims' /\ p_nfrag st' = p_nfrag st /\ p_fragblk st' = p_fragblk st.
Proof.
  intro HP. unfold sync, drain. cbn [p_ioq set_ioq].
  assert (HP0 : PInv (set_ioq st (mark_all_ready (p_ioq st))) (mark_all_ready (p_ioq st)) claims fbd n n).
  { apply (PInv_requeue st (p_ioq st)); [apply qfids_mark_all|apply qidxs_mark_all| |assumption].
    apply Forall_QOk_mark_all. destruct HP. assumption. }
  destruct (drain_q_inv fbd n n _ _ _ HP0) as (st1 & claims1 & E1 & HP1 & I1 & F1 & F2 & _).
  exists st1, claims1. split; [exact E1|].
  pose proof (drain_q_all_ready _ _ _ (mark_all_is_ready _) E1) as Eq.
  rewrite Eq in HP1. splits; try assumption.
Qed.

Lemma finish_inv st claims fbd n :
  PInv st (p_ioq st) claims fbd n n ->
  exists st' claims',
    finish hashf compress false true half st = Ok st' /\
    PInv st' [] claims' fbd n n /\ p_fragblk st' = None /\ incl claims claims' /\
    p_nfrag st' = p_nfrag st.
Proof.
  intro HP. unfold finish.
  destruct (sync_inv st claims fbd n HP) as (st1 & claims1 & E1 & HP1 & Q1 & I1 & N1 & B1).
  rewrite E1. destruct (p_fragblk st1) as [fb|] eqn:Efb.
  - assert (HP1' : PInv st1 (p_ioq st1) claims1 fbd n n) by (rewrite Q1; assumption).
    destruct (enqueue_inv _ _ _ _ _ fb HP1' Efb) as (HP2 & B2 & S2).
    destruct (sync_inv _ _ _ _ HP2) as (st3 & claims3 & E3 & HP3 & Q3 & I3 & N3 & B3).
    exists st3, claims3. split; [exact E3|]. split; [exact HP3|].
    split; [congruence|]. split; [intros x Hx; apply I3, I1; assumption|].
    assert (A : p_nfrag (enqueue_fragblk hashf compress true st1 fb) = p_nfrag st1) by reflexivity.
    congruence.
  - exists st1, claims1. splits; try assumption; reflexivity.
Qed.

Lemma skipn_nth_cons {A} (l : list A) n x r d : skipn n l = x :: r -> nth n l d = x /\ skipn (S n) l = r.
Proof.
  revert n; induction l as [|y l IH]; intros n H.
  - destruct n; discriminate.
  - destruct n as [|n]; simpl in *.
    + inversion H. split; reflexivity.
    + apply IH. assumption.
Qed.

Lemma run_files_inv : forall rest sched n st claims fbd,
  (exists m, rest = firstn m (skipn n jobs)) ->
  PInv st (p_ioq st) claims fbd n n ->
  exists st' claims' fbd',
    run_files hashf compress uncompress bs false true half rest sched n st = Ok st' /\
    PInv st' (p_ioq st') claims' fbd' (n + length rest) (n + length rest) /\
    incl claims claims' /\ fext (p_nfrag st) fbd fbd' /\ p_nfrag st <= p_nfrag st'.
Proof.
  induction rest as [|j rest IH]; intros sched n st claims fbd [m Hr] HP.
  - exists st, claims, fbd. split; [reflexivity|]. simpl. rewrite Nat.add_0_r.
    split; [assumption|]. split; [apply incl_refl|]. split; [apply fext_refl|lia].
  - destruct m as [|m]; [discriminate|].
    destruct (skipn n jobs) as [|j0 tl0] eqn:Es; [discriminate|].
    simpl in Hr. injection Hr as Hj0 Hrest. subst j0.
    destruct (skipn_nth_cons jobs n j tl0 dflt_job Es) as [Hj Hr'].
    fold (job n) in Hj. subst j. cbn [run_files].
    destruct (fragdone_n_inv n (hd 0 sched) st claims fbd HP) as (st1 & claims1 & E1 & HP1 & I1 & F1).
    rewrite E1.
    destruct (step_file_inv st1 claims1 fbd n HP1) as (st2 & claims2 & fbd2 & E2 & HP2 & I2 & X2 & L2).
    rewrite E2.
    destruct (IH (tl sched) (S n) st2 claims2 fbd2) as (st' & claims' & fbd' & E' & HP' & I' & X' & L');
      [exists m; rewrite Hr'; exact Hrest|exact HP2|].
    exists st', claims', fbd'. split; [exact E'|].
    replace (n + length (job n :: rest)) with (S n + length rest) by (simpl; lia).
    split; [exact HP'|].
    split; [intros x Hx; apply I', I2, I1; assumption|].
    rewrite F1 in X2, L2. split; [|lia].
    eapply fext_trans; [|exact X2|exact X']. assumption.
Qed.

Lemma init_inv file0 : base = length file0 ->
  PInv (init_proc file0) [] [(0, file0)] (fun _ => []) 0 0.
Proof.
  intro Hb. constructor; simpl.
  - constructor; simpl; [exact I|rewrite total_nil; lia|lia|].
    constructor; [|constructor]. split; simpl; [lia|apply slice_all].
  - constructor.
  - constructor.
  - constructor.
  - intros fb C. discriminate.
  - intros idx C. lia.
  - intros i d C. discriminate.
  - constructor.
  - intros i d C. discriminate.
  - intros c [].
  - intros fid i o C. discriminate.
  - intros fid t C. lia.
  - intros fid C. lia.
Qed.

Lemma pack_inv file0 sched : base = length file0 ->
  exists st claims fbd,
    pack hashf compress uncompress bs false true half file0 files sched = Ok st /\
    PInv st [] claims fbd (length files) (length files) /\ p_fragblk st = None /\
    In (0, file0) claims.
Proof.
  intro Hb. unfold pack. fold jobs.
  destruct (run_files_inv jobs sched 0 (init_proc file0) [(0, file0)] (fun _ => []))
    as (st1 & claims1 & fbd1 & E1 & HP1 & I1 & _).
  { exists (length jobs). simpl. symmetry. apply firstn_all. }
  { apply init_inv. assumption. }
  rewrite E1.
  assert (Hl : 0 + length jobs = length files) by (unfold jobs; rewrite map_length; reflexivity).
  rewrite Hl in HP1.
  destruct (finish_inv st1 claims1 fbd1 (length files) HP1) as (st2 & claims2 & E2 & HP2 & B2 & I2 & _).
  exists st2, claims2, fbd1. split; [exact E2|]. split; [exact HP2|]. split; [exact B2|].
  apply I2, I1. left. reflexivity.
Qed.

(* ---------------------------------------------------------------------- *)
(* reading everything back from the final state *)

Lemma concat_bs_length full :
  Forall (fun b : list N => length b = bs) full -> length (concat full) = length full * bs.
Proof.
  induction full as [|b full IH]; intro H; [reflexivity|].
  inversion H; subst. simpl. rewrite app_length, IH by assumption. lia.
Qed.

Lemma div_mod_nb n r : r < bs -> (n * bs + r) / bs = n /\ (n * bs + r) mod bs = r.
Proof.
  intro H. split.
  - symmetry. apply (Nat.div_unique _ _ _ r); [assumption|lia].
  - symmetry. apply (Nat.mod_unique _ _ n); [assumption|lia].
Qed.

Lemma sized_full extra full :
  Forall (fun b : list N => length b = bs) full -> sized bs extra full.
Proof.
  induction full as [|b full IH]; intro H; [exact I|].
  inversion H; subst. simpl. split; [lia|apply IH; assumption].
Qed.

Lemma sized_snoc full (r : list N) :
  Forall (fun b : list N => length b = bs) full -> length r <= bs -> sized bs 0 (full ++ [r]).
Proof.
  induction full as [|b full IH]; intros H Hr.
  - simpl. split; [lia|exact I].
  - inversion H; subst. simpl. split; [lia|apply IH; assumption].
Qed.

Definition mkpds (fid : nat) (ds : list (list N)) : list (pblock * list N) :=
  map (fun b => (jwork fid b, b)) ds.

Lemma mkpds_snd fid ds : map snd (mkpds fid ds) = ds.
Proof. unfold mkpds. rewrite map_map. simpl. apply map_id. Qed.

Lemma mkpds_length fid ds : length (mkpds fid ds) = length ds.
Proof. unfold mkpds. apply map_length. Qed.

Lemma mkpds_fst fid ds : map fst (mkpds fid ds) = map (jwork fid) ds.
Proof. unfold mkpds. rewrite map_map. reflexivity. Qed.

Lemma mkpds_dec fid ds : Forall (fun b => b <> []) ds ->
  Forall (fun pd => dec_ok (fst pd) (snd pd)) (mkpds fid ds).
Proof.
  intro H. unfold mkpds. rewrite Forall_map. eapply Forall_impl; [|exact H].
  intros b Hb. simpl. unfold jwork. apply (work_dec hashf compress uncompress bs Hcomp Hbs). assumption.
Qed.

Lemma bs_blocks_nonempty full :
  Forall (fun b : list N => length b = bs) full -> Forall (fun b => b <> []) full.
Proof.
  intro H. eapply Forall_impl; [|exact H]. intros b Hb C. subst. simpl in Hb. lia.
Qed.

Lemma data_pds st claims fid ds rest :
  j_blocks (job fid) = ds ++ rest -> Forall (fun b => b <> []) ds ->
  filter stored (map (jwork fid) rest) = [] ->
  Written st claims fid ->
  (forall j pd, nth_error (mkpds fid ds) j = Some pd -> p_size st fid j = Some (word (fst pd))) /\
  In (p_start st fid, cat (filter stored (map fst (mkpds fid ds)))) claims.
Proof.
  intros Hj Hne Hrest [W1 W2].
  assert (Hjp : jpbs fid = map (jwork fid) ds ++ map (jwork fid) rest).
  { unfold jpbs. rewrite Hj, map_app. reflexivity. }
  split.
  - intros j pd Hpd. unfold mkpds in Hpd. rewrite nth_error_map in Hpd.
    destruct (nth_error ds j) as [b|] eqn:Eb; [|discriminate]. simpl in Hpd. inversion Hpd; subst pd.
    simpl. apply W2.
    + rewrite Hjp. rewrite nth_error_app1.
      * rewrite nth_error_map, Eb. reflexivity.
      * rewrite map_length. apply nth_error_Some. congruence.
    + intro C. apply (work_data_nil hashf compress uncompress bs Hcomp Hbs) in C.
      rewrite Forall_forall in Hne. apply (Hne b); [|assumption]. eapply nth_error_In. eassumption.
  - rewrite mkpds_fst. rewrite Hjp, filter_app, Hrest, app_nil_r in W1. assumption.
Qed.

Lemma sentinel_not_stored fid : filter stored (map (jwork fid) [[]]) = [].
Proof. reflexivity. Qed.

Section Final.
Variables (st : proc) (claims : list (nat * list N)) (fbd : nat -> list N).
Hypothesis HP : PInv st [] claims fbd (length files) (length files).
Hypothesis Hfb : p_fragblk st = None.

Lemma final_written fid : fid < length files -> j_blocks (job fid) <> [] -> Written st claims fid.
Proof.
  intros Hf Hb. destruct HP as [_ _ _ _ _ _ _ _ _ _ _ _ P13].
  destruct (P13 fid Hf Hb) as [[]|H]. assumption.
Qed.

Lemma final_frag fid i o t :
  p_frag st fid = Some (i, o) -> j_tail (job fid) = Some t ->
  i < p_nfrag st /\
  decode_block uncompress (w_file (p_wr st)) (fst (p_ftab st i)) (snd (p_ftab st i)) bs = Some (fbd i) /\
  o + length t <= length (fbd i) /\ slice (fbd i) o (length t) = t.
Proof.
  intros Hf Ht. pose proof HP as [P1 P2 P3 P4 P5 P6 P7 P8 P9 P10 P11 P12 P13].
  destruct (P11 fid i o Hf) as (_ & t' & Ht' & Hi & Hb & Hs).
  rewrite Ht in Ht'. inversion Ht'; subst t'.
  split; [assumption|]. split; [|split; assumption].
  destruct (P6 i Hi) as [(fb & C & _)|[[]|(loc & p & H1 & H2 & H3 & H4 & H5)]]; [congruence|].
  rewrite H1. simpl.
  pose proof (claim_holds _ _ _ _ _ _ _ HP H2) as [Hc1 Hc2]. simpl in Hc1, Hc2.
  apply (decode_ok uncompress bs Hbs Hsmall); try assumption.
  destruct H5. lia.
Qed.

Lemma final_no_frag fid : j_tail (job fid) = None -> p_frag st fid = None.
Proof.
  intro Ht. destruct HP as [_ _ _ _ _ _ _ _ _ _ P11 _ _].
  destruct (p_frag st fid) as [[i o]|] eqn:E; [|reflexivity].
  destruct (P11 fid i o E) as (_ & t & C & _). congruence.
Qed.

Theorem final_read_back fid fl d :
  nth_error files fid = Some (fl, d) ->
  read_back uncompress bs st fid (length d) = Some d.
Proof.
  intro Hn.
  assert (Hfid : fid < length files) by (apply nth_error_Some; congruence).
  destruct (job_has_shape fid Hfid) as (fl' & d' & E & J & S).
  rewrite Hn in E. inversion E; subst fl' d'. clear E.
  pose proof HP as [P1 P2 P3 P4 P5 P6 P7 P8 P9 P10 P11 P12 P13].
  unfold read_back, read_file.
  remember (job fid) as jb eqn:Ejb.
  destruct S as [E0|full F1 F2 F3|full r F1 F2 F3 F4|r F1 F2 F3|full r F0 F1 F2 F3 F4].
  - (* empty file *)
    subst d. rewrite (final_no_frag fid) by (rewrite <- Ejb; reflexivity).
    simpl. unfold block_count. rewrite Nat.mod_0_l, Nat.div_0_l by lia. reflexivity.
  - (* full blocks only *)
    rewrite (final_no_frag fid) by (rewrite <- Ejb; reflexivity).
    assert (HW : Written st claims fid).
    { apply final_written; [assumption|]. rewrite <- Ejb. simpl. destruct full; discriminate. }
    destruct (data_pds st claims fid full [[]]) as [Hsz Hcl];
      [rewrite <- Ejb; reflexivity|apply bs_blocks_nonempty; assumption|reflexivity|assumption|].
    pose proof (claim_holds _ _ _ _ _ _ _ HP Hcl) as [Hc1 Hc2]. simpl in Hc1, Hc2.
    pose proof (concat_bs_length full F2) as Hlen. rewrite <- F3.
    destruct (div_mod_nb (length full) 0 Hbs) as [Hd Hm]. rewrite Nat.add_0_r in Hd, Hm.
    unfold block_count. rewrite Hlen, Hm, Hd. cbn [Nat.eqb].
    pose proof (read_blocks_ok uncompress bs Hbs Hsmall (w_file (p_wr st)) (p_size st fid) 0
                  (mkpds fid full) 0 (p_start st fid)) as R.
    rewrite mkpds_snd, mkpds_length in R.
    rewrite Nat.add_0_r, Hlen in R.
    rewrite R; [reflexivity|apply mkpds_dec, bs_blocks_nonempty; assumption
               |apply sized_full; assumption|exact Hsz|assumption|assumption].
  - (* DONT_FRAGMENT: the short tail is a block *)
    rewrite (final_no_frag fid) by (rewrite <- Ejb; reflexivity).
    assert (HW : Written st claims fid).
    { apply final_written; [assumption|]. rewrite <- Ejb. simpl. destruct full; discriminate. }
    assert (Hrne : r <> []) by (intro; subst; simpl in F2; lia).
    destruct (data_pds st claims fid (full ++ [r]) []) as [Hsz Hcl];
      [rewrite <- Ejb; simpl; rewrite app_nil_r; reflexivity
      |apply Forall_app; split; [apply bs_blocks_nonempty; assumption|constructor; [assumption|constructor]]
      |reflexivity|assumption|].
    pose proof (claim_holds _ _ _ _ _ _ _ HP Hcl) as [Hc1 Hc2]. simpl in Hc1, Hc2.
    pose proof (concat_bs_length full F1) as Hlen.
    assert (Hdl : length d = length full * bs + length r).
    { rewrite <- F3, app_length, Hlen. reflexivity. }
    destruct (div_mod_nb (length full) (length r) ltac:(lia)) as [Hd Hm].
    unfold block_count. rewrite Hdl, Hm, Hd.
    destruct (length r =? 0) eqn:Er0; [apply Nat.eqb_eq in Er0; lia|].
    pose proof (read_blocks_ok uncompress bs Hbs Hsmall (w_file (p_wr st)) (p_size st fid) 0
                  (mkpds fid (full ++ [r])) 0 (p_start st fid)) as R.
    rewrite mkpds_snd, mkpds_length, app_length in R.
    simpl (length [r]) in R. rewrite Nat.add_1_r in R.
    rewrite concat_app in R. simpl (concat [r]) in R. rewrite app_nil_r in R.
    rewrite app_length, Hlen, Nat.add_0_r in R.
    rewrite R; [rewrite F3; reflexivity
               |apply mkpds_dec, Forall_app; split; [apply bs_blocks_nonempty; assumption|constructor; [assumption|constructor]]
               |apply sized_snoc; [assumption|lia]|exact Hsz|assumption|assumption].
  - (* a file smaller than a block *)
    subst r. assert (Ht : j_tail (job fid) = Some d) by (rewrite <- Ejb; reflexivity).
    assert (Hjb : j_blocks (job fid) = []) by (rewrite <- Ejb; reflexivity).
    assert (Hdm : length d mod bs = length d /\ length d / bs = 0).
    { split; [apply Nat.mod_small; lia|apply Nat.div_small; lia]. }
    destruct Hdm as [Hm Hd].
    destruct (length d =? 0) eqn:Ed0; [apply Nat.eqb_eq in Ed0; lia|].
    specialize (P12 fid d Hfid Ht). destruct (tail_sparse fid d) eqn:Hts.
    + destruct P12 as [Q1 Q2]. rewrite Hjb in Q2. simpl in Q2. rewrite Q1.
      unfold block_count. rewrite Hm, Hd, Ed0. cbn [read_blocks]. rewrite Q2, sw_sparse_zero.
      replace (Nat.min bs (length d)) with (length d) by lia. rewrite app_nil_r.
      unfold tail_sparse in Hts. apply andb_true_iff in Hts. destruct Hts as [_ Hz].
      rewrite <- (all_zero_repeat d Hz). reflexivity.
    + destruct (p_frag st fid) as [[i o]|] eqn:Ef; [|contradiction].
      destruct (final_frag fid i o d Ef Ht) as (Hi & Hdec & Hb & Hs).
      unfold block_count. rewrite Hm, Hd, Ed0. cbn [read_blocks].
      destruct (i <? p_nfrag st) eqn:Ei; [|apply Nat.ltb_ge in Ei; lia].
      destruct (p_ftab st i) as [loc w]. simpl in Hdec. rewrite Hdec.
      destruct (o + length d <=? length (fbd i)) eqn:Eo; [|apply Nat.leb_gt in Eo; lia].
      rewrite Hs. reflexivity.
  - (* full blocks and a tail end *)
    assert (Ht : j_tail (job fid) = Some r) by (rewrite <- Ejb; reflexivity).
    assert (Hjb : j_blocks (job fid) = full ++ [[]]) by (rewrite <- Ejb; reflexivity).
    assert (HW : Written st claims fid).
    { apply final_written; [assumption|]. rewrite Hjb. destruct full; discriminate. }
    destruct (data_pds st claims fid full [[]]) as [Hsz Hcl];
      [assumption|apply bs_blocks_nonempty; assumption|reflexivity|assumption|].
    pose proof (claim_holds _ _ _ _ _ _ _ HP Hcl) as [Hc1 Hc2]. simpl in Hc1, Hc2.
    pose proof (concat_bs_length full F1) as Hlen.
    assert (Hdl : length d = length full * bs + length r).
    { rewrite <- F3, app_length, Hlen. reflexivity. }
    destruct (div_mod_nb (length full) (length r) ltac:(lia)) as [Hd Hm].
    destruct (length r =? 0) eqn:Er0; [apply Nat.eqb_eq in Er0; lia|].
    specialize (P12 fid r Hfid Ht). destruct (tail_sparse fid r) eqn:Hts.
    + (* the tail end is all zero: it became a sparse block *)
      destruct P12 as [Q1 Q2]. rewrite Hjb, app_length in Q2. simpl in Q2.
      replace (length full + 1 - 1) with (length full) in Q2 by lia. rewrite Q1.
      unfold block_count. rewrite Hdl, Hm, Hd, Er0.
      unfold tail_sparse in Hts. apply andb_true_iff in Hts. destruct Hts as [_ Hz].
      set (pt := {| pb_sparse := true; pb_compressed := false; pb_chk := 0%N; pb_data := r |}).
      assert (Hrne : r <> []) by (intro; subst; simpl in F2; lia).
      assert (Hpt : dec_ok pt r).
      { split; [assumption|]. simpl. split; [lia|]. split; [auto|discriminate]. }
      assert (Hst : stored pt = false) by (unfold stored, pt; simpl; apply andb_false_r).
      pose proof (read_blocks_ok uncompress bs Hbs Hsmall (w_file (p_wr st)) (p_size st fid) 0
                    (mkpds fid full ++ [(pt, r)]) 0 (p_start st fid)) as R.
      rewrite map_app, mkpds_snd in R. simpl (map snd [(pt, r)]) in R.
      rewrite app_length, mkpds_length in R.
      simpl (length [(pt, r)]) in R. rewrite Nat.add_1_r in R.
      rewrite concat_app in R. simpl (concat [r]) in R. rewrite app_nil_r in R.
      rewrite app_length, Hlen, Nat.add_0_r in R.
      rewrite R; [rewrite F3; reflexivity| | | | |].
      * apply Forall_app. split; [apply mkpds_dec, bs_blocks_nonempty; assumption|].
        constructor; [exact Hpt|constructor].
      * apply sized_snoc; [assumption|lia].
      * intros j pd Hj. simpl.
        destruct (Nat.lt_ge_cases j (length (mkpds fid full))) as [Hlt|Hge].
        -- rewrite nth_error_app1 in Hj by assumption. apply Hsz. assumption.
        -- rewrite nth_error_app2 in Hj by assumption.
           destruct (j - length (mkpds fid full)) as [|k] eqn:Ek; [|destruct k; discriminate].
           simpl in Hj. inversion Hj; subst pd. simpl.
           rewrite mkpds_length in Hge, Ek.
           assert (j = length full) by lia. subst j. exact Q2.
      * rewrite map_app, filter_app. cbn [map fst filter]. rewrite Hst, app_nil_r. assumption.
      * rewrite map_app, filter_app. cbn [map fst filter]. rewrite Hst, app_nil_r. assumption.
    + destruct (p_frag st fid) as [[i o]|] eqn:Ef; [|contradiction].
      destruct (final_frag fid i o r Ef Ht) as (Hi & Hdec & Hb & Hs).
      unfold block_count. rewrite Hdl, Hm, Hd, Er0.
      pose proof (read_blocks_ok uncompress bs Hbs Hsmall (w_file (p_wr st)) (p_size st fid) (length r)
                    (mkpds fid full) 0 (p_start st fid)) as R.
      rewrite mkpds_snd, mkpds_length in R.
      rewrite Hlen in R.
      rewrite R; [|apply mkpds_dec, bs_blocks_nonempty; assumption
                 |apply sized_full; assumption|exact Hsz|assumption|assumption].
      destruct (i <? p_nfrag st) eqn:Ei; [|apply Nat.ltb_ge in Ei; lia].
      destruct (p_ftab st i) as [loc w]. simpl in Hdec. rewrite Hdec.
      destruct (o + length r <=? length (fbd i)) eqn:Eo; [|apply Nat.leb_gt in Eo; lia].
      rewrite Hs, F3. reflexivity.
Qed.

End Final.

(* ---------------------------------------------------------------------- *)
(* the statements exported to Properties_C08.v (still relative to [base] and [files]) *)

Theorem dedup_sound_sec file0 sched : base = length file0 ->
  exists st,
    pack hashf compress uncompress bs false true half file0 files sched = Ok st /\
    (forall fid fl d, nth_error files fid = Some (fl, d) ->
                      read_back uncompress bs st fid (length d) = Some d) /\
    firstn (length file0) (w_file (p_wr st)) = file0.
Proof.
  intro Hb. destruct (pack_inv file0 sched Hb) as (st & claims & fbd & E & HP & Hfb & Hin).
  exists st. split; [exact E|]. split.
  - intros fid fl d Hn. eapply final_read_back; eassumption.
  - pose proof (claim_holds _ _ _ _ _ _ _ HP Hin) as [_ H]. simpl in H. exact H.
Qed.

Theorem frag_source_agree_sec file0 n sched st : base = length file0 ->
  run_files hashf compress uncompress bs false true half (firstn n jobs) sched 0 (init_proc file0) = Ok st ->
  forall fid fl data idx o t,
    nth_error files fid = Some (fl, data) -> p_frag st fid = Some (idx, o) ->
    j_tail (file_job bs fl data) = Some t ->
    exists d ca,
      frag_lookup uncompress bs st (p_cached st) idx = Some (d, ca) /\
      o + length t <= length d /\ slice d o (length t) = t.
Proof.
  intros Hb Hrun fid fl data idx o t Hn Hf Ht.
  destruct (run_files_inv (firstn n jobs) sched 0 (init_proc file0) [(0, file0)] (fun _ => []))
    as (st1 & claims1 & fbd1 & E1 & HP1 & _).
  { exists n. reflexivity. }
  { apply init_inv. assumption. }
  rewrite Hrun in E1. inversion E1; subst st1.
  pose proof HP1 as [P1 P2 P3 P4 P5 P6 P7 P8 P9 P10 P11 P12 P13].
  destruct (P11 fid idx o Hf) as (_ & t' & Ht' & Hi & Hbd & Hs).
  assert (Hfid : fid < length files) by (apply nth_error_Some; congruence).
  destruct (job_has_shape fid Hfid) as (fl' & d' & E & J & _).
  rewrite Hn in E. inversion E; subst fl' d'. rewrite J, Ht in Ht'. inversion Ht'; subst t'.
  destruct (frag_lookup_ok _ _ _ _ _ _ (p_cached st) idx HP1 P9 Hi) as (ca & El & _).
  exists (fbd1 idx), ca. split; [exact El|]. split; assumption.
Qed.

End Pipe.
