(* C08 x Util, part 3 -- frame lemmas: nothing of the block processor model outside
   process_completed_fragment reads or writes the fragment hash table [p_ht] or the cached
   fragment block [p_cached]: every such function commutes with replacing the two fields. *)
From Coq Require Import List NArith Arith Bool Lia.
From SqfsV Require Import C08.DedupModel C08.HashBridgeModel.
Import ListNotations.

Definition with_hc (st : proc) (h : list chunk) (c : option (nat * list N)) : proc :=
  set_cached (set_ht st h) c.

Definition mapr {A B : Type} (f : A -> B) (r : res A) : res B :=
  match r with Ok a => Ok (f a) | Err => Err | Fuel => Fuel end.

Lemma with_hc_eta st : with_hc st (p_ht st) (p_cached st) = st.
Proof. destruct st. reflexivity. Qed.

Lemma strip_is_with_hc st : strip st = with_hc st [] None.
Proof. reflexivity. Qed.

Lemma with_hc_ht st h c : p_ht (with_hc st h c) = h /\ p_cached (with_hc st h c) = c.
Proof. split; reflexivity. Qed.

Section Frame.
Variable hashf : list N -> N.
Variable compress : list N -> option (list N).
Variable uncompress : list N -> nat -> option (list N).
Variable bs : nat.
Variable hash_only bytecmp : bool.
Variable half : nat.
Variable h : list chunk.
Variable c : option (nat * list N).

Notation W := (fun s => with_hc s h c).

Lemma complete_blocks_hc : forall blocks st fid dd k,
  complete_blocks hash_only half (with_hc st h c) fid dd k blocks =
  mapr W (complete_blocks hash_only half st fid dd k blocks).
Proof.
  induction blocks as [|b rest IH]; intros st fid dd k; cbn [complete_blocks]; [reflexivity|].
  change (p_wr (with_hc st h c)) with (p_wr st).
  destruct (write_data_block hash_only half (p_wr st) _ (pb_chk b) (pb_data b)) as [w loc e| |];
    [|reflexivity|reflexivity].
  rewrite <- IH. f_equal.
  destruct (pb_sparse b); destruct (length (pb_data b) =? 0); destruct rest; reflexivity.
Qed.

Lemma complete_fragblk_hc st idx pb :
  complete_fragblk hash_only half (with_hc st h c) idx pb =
  mapr W (complete_fragblk hash_only half st idx pb).
Proof.
  unfold complete_fragblk.
  change (p_wr (set_inflight (with_hc st h c) (remove_inflight idx (p_inflight (with_hc st h c)))))
    with (p_wr (set_inflight st (remove_inflight idx (p_inflight st)))).
  destruct (write_data_block hash_only half _ _ (pb_chk pb) (pb_data pb)) as [w loc e| |];
    [|reflexivity|reflexivity].
  destruct (pb_sparse pb); [reflexivity|]. destruct (length (pb_data pb) =? 0); reflexivity.
Qed.

Lemma drain_q_hc : forall q st,
  drain_q hash_only half q (with_hc st h c) = mapr W (drain_q hash_only half q st).
Proof.
  induction q as [|[fid dd blocks|r idx pb] q IH]; intro st; cbn [drain_q].
  - reflexivity.
  - rewrite complete_blocks_hc.
    destruct (complete_blocks hash_only half st fid dd 0 blocks) as [st'| |]; cbn [mapr];
      [apply IH|reflexivity|reflexivity].
  - destruct r; [|reflexivity]. rewrite complete_fragblk_hc.
    destruct (complete_fragblk hash_only half st idx pb) as [st'| |]; cbn [mapr];
      [apply IH|reflexivity|reflexivity].
Qed.

Lemma drain_hc st :
  drain hash_only half (with_hc st h c) = mapr W (drain hash_only half st).
Proof. unfold drain. apply drain_q_hc. Qed.

Lemma step_fragdone_hc st :
  step_fragdone hash_only half (with_hc st h c) = mapr W (step_fragdone hash_only half st).
Proof.
  unfold step_fragdone. rewrite drain_hc.
  destruct (drain hash_only half st); reflexivity.
Qed.

Lemma fragdone_n_hc : forall n st,
  fragdone_n hash_only half n (with_hc st h c) = mapr W (fragdone_n hash_only half n st).
Proof.
  induction n as [|n IH]; intro st; cbn [fragdone_n]; [reflexivity|].
  rewrite step_fragdone_hc.
  destruct (step_fragdone hash_only half st) as [st'| |]; cbn [mapr]; [apply IH|reflexivity|reflexivity].
Qed.

Lemma sync_hc st :
  sync hash_only half (with_hc st h c) = mapr W (sync hash_only half st).
Proof. unfold sync. apply (drain_hc (set_ioq st (mark_all_ready (p_ioq st)))). Qed.

Lemma enqueue_fragblk_hc st fb :
  enqueue_fragblk hashf compress bytecmp (with_hc st h c) fb =
  with_hc (enqueue_fragblk hashf compress bytecmp st fb) h c.
Proof. unfold enqueue_fragblk. destruct bytecmp; reflexivity. Qed.

Lemma finish_hc st :
  finish hashf compress hash_only bytecmp half (with_hc st h c) =
  mapr W (finish hashf compress hash_only bytecmp half st).
Proof.
  unfold finish. rewrite sync_hc.
  destruct (sync hash_only half st) as [st1| |]; cbn [mapr]; [|reflexivity|reflexivity].
  change (p_fragblk (with_hc st1 h c)) with (p_fragblk st1).
  destruct (p_fragblk st1) as [fb|]; [|reflexivity].
  rewrite enqueue_fragblk_hc. apply sync_hc.
Qed.

Lemma place_fragment_hc st fl d :
  place_fragment hashf compress bs bytecmp (with_hc st h c) fl d =
  (let '(st2, i, o) := place_fragment hashf compress bs bytecmp st fl d in (with_hc st2 h c, i, o)).
Proof.
  unfold place_fragment.
  change (p_fragblk (with_hc st h c)) with (p_fragblk st).
  destruct (p_fragblk st) as [fb|] eqn:Efb.
  - destruct (bs <? length (fb_data fb) + length d).
    + rewrite enqueue_fragblk_hc.
      change (p_fragblk (with_hc (enqueue_fragblk hashf compress bytecmp st fb) h c))
        with (p_fragblk (enqueue_fragblk hashf compress bytecmp st fb)).
      destruct (p_fragblk (enqueue_fragblk hashf compress bytecmp st fb)); reflexivity.
    + change (p_fragblk (with_hc st h c)) with (p_fragblk st). rewrite Efb. reflexivity.
  - change (p_fragblk (with_hc st h c)) with (p_fragblk st). rewrite Efb. reflexivity.
Qed.

Lemma push_file_hc st fid j :
  push_file hashf compress (with_hc st h c) fid j = with_hc (push_file hashf compress st fid j) h c.
Proof. unfold push_file. destruct (j_blocks j); reflexivity. Qed.

(* the callback does not look at the two fields of the state *)
Lemma chunk_equals_hc st ca ks kh cur cmp :
  chunk_equals uncompress bs bytecmp (with_hc st h c) ca ks kh cur cmp =
  chunk_equals uncompress bs bytecmp st ca ks kh cur cmp.
Proof. reflexivity. Qed.

End Frame.

(* consequences: the functions leave the two fields alone *)
Lemma frame_keeps (f : proc -> res proc) :
  (forall h c st, f (with_hc st h c) = mapr (fun s => with_hc s h c) (f st)) ->
  forall st st', f st = Ok st' -> p_ht st' = p_ht st /\ p_cached st' = p_cached st.
Proof.
  intros Hf st st' E.
  pose proof (Hf (p_ht st) (p_cached st) st) as H. rewrite with_hc_eta, E in H. cbn in H.
  inversion H as [H1]. rewrite H1 at 1 2. split; reflexivity.
Qed.
