(* C08 — block writer: every range handed out stays intact (writer_ranges_stable), the byte
   comparison never fails, duplicates are found (completeness). *)
From Coq Require Import List NArith Arith Bool Lia.
From SqfsV Require Import C08.DedupModel C08.DedupLemmas.
Import ListNotations.

(* ---------------------------------------------------------------------- *)
(* check_file_range_equal *)

Lemma range_equal_spec : forall fuel half f a b sz,
  0 < half -> sz < fuel -> a + sz <= length f -> b + sz <= length f ->
  (range_equal fuel half f a b sz = CmpEq /\ slice f a sz = slice f b sz) \/
  (range_equal fuel half f a b sz = CmpNe /\ slice f a sz <> slice f b sz).
Proof.
  induction fuel as [|fuel IH]; intros half f a b sz Hh Hf Ha Hb; [lia|].
  cbn [range_equal]. destruct (sz =? 0) eqn:E0.
  - apply Nat.eqb_eq in E0. subst. left. split; reflexivity.
  - apply Nat.eqb_neq in E0.
    set (diff := Nat.min half sz).
    assert (Hd : 1 <= diff <= sz) by (unfold diff; lia).
    rewrite (read_at_ok f a diff) by lia. rewrite (read_at_ok f b diff) by lia.
    assert (Sa : slice f a sz = slice f a diff ++ slice f (a + diff) (sz - diff)).
    { rewrite <- slice_split. f_equal. lia. }
    assert (Sb : slice f b sz = slice f b diff ++ slice f (b + diff) (sz - diff)).
    { rewrite <- slice_split. f_equal. lia. }
    destruct (list_eqb (slice f a diff) (slice f b diff)) eqn:El.
    + apply list_eqb_eq in El.
      destruct (IH half f (a + diff) (b + diff) (sz - diff)) as [[R1 R2]|[R1 R2]]; try lia.
      * left. split; [exact R1|]. rewrite Sa, Sb, El, R2. reflexivity.
      * right. split; [exact R1|]. rewrite Sa, Sb, El. intro H. apply app_inv_head in H. contradiction.
    + apply list_eqb_neq in El. right. split; [reflexivity|].
      rewrite Sa, Sb. intro H. apply app_inj_len in H.
      * destruct H as [H _]. contradiction.
      * rewrite !slice_length by lia. reflexivity.
Qed.

(* ---------------------------------------------------------------------- *)
(* the block history is a contiguous chain *)

Fixpoint chain (o : nat) (bl : list blk_info) : Prop :=
  match bl with
  | [] => True
  | b :: r => bi_off b = o /\ chain (o + bi_size b) r
  end.

Definition total (bl : list blk_info) : nat := fold_right (fun b s => bi_size b + s) 0 bl.

Lemma total_cons x a : total (x :: a) = bi_size x + total a.
Proof. reflexivity. Qed.

Lemma total_nil : total [] = 0.
Proof. reflexivity. Qed.

Lemma total_app a b : total (a ++ b) = total a + total b.
Proof.
  induction a as [|x a IH]; [reflexivity|].
  cbn [app]. rewrite !total_cons, IH. lia.
Qed.

Arguments total : simpl never.

Lemma chain_app o a b : chain o (a ++ b) <-> chain o a /\ chain (o + total a) b.
Proof.
  revert o; induction a as [|x a IH]; intro o.
  - cbn [app chain]. rewrite total_nil, Nat.add_0_r. tauto.
  - cbn [app chain]. rewrite IH, total_cons, Nat.add_assoc. tauto.
Qed.

Lemma chain_firstn o bl k : chain o bl -> chain o (firstn k bl).
Proof.
  intro H. rewrite <- (firstn_skipn k bl) in H. apply chain_app in H. tauto.
Qed.

Lemma total_firstn_mono bl k k' : k <= k' -> total (firstn k bl) <= total (firstn k' bl).
Proof.
  intro H. replace k' with (k + (k' - k)) by lia. rewrite firstn_add, total_app. lia.
Qed.

Lemma total_firstn_le bl k : total (firstn k bl) <= total bl.
Proof.
  rewrite <- (firstn_skipn k bl) at 2. rewrite total_app. lia.
Qed.

Lemma total_firstn_skipn bl i c :
  total (firstn i bl) + total (firstn c (skipn i bl)) = total (firstn (i + c) bl).
Proof. rewrite firstn_add, total_app. reflexivity. Qed.

Lemma chain_nth_off o bl k d :
  chain o bl -> k < length bl -> bi_off (nth k bl d) = o + total (firstn k bl).
Proof.
  revert o k; induction bl as [|x bl IH]; intros o k H L; simpl in L; [lia|].
  destruct H as [H1 H2]. destruct k as [|k]; simpl.
  - unfold total. simpl. lia.
  - rewrite (IH _ k H2) by lia. rewrite total_cons. lia.
Qed.

Lemma total_firstn_S bl k d :
  k < length bl -> total (firstn (S k) bl) = total (firstn k bl) + bi_size (nth k bl d).
Proof.
  revert k; induction bl as [|x bl IH]; intros k L; simpl in L; [lia|].
  destruct k as [|k].
  - simpl. unfold total. simpl. lia.
  - rewrite (firstn_cons (S k)), (firstn_cons k). cbn [nth]. rewrite !total_cons.
    rewrite (IH k) by lia. lia.
Qed.

Lemma chain_last_end o bl u d :
  chain o bl -> 0 < u <= length bl ->
  bi_off (nth (u - 1) bl d) + bi_size (nth (u - 1) bl d) = o + total (firstn u bl).
Proof.
  intros H L. rewrite (chain_nth_off o bl (u - 1) d H) by lia.
  replace u with (S (u - 1)) at 3 by lia. rewrite (total_firstn_S bl (u - 1) d) by lia. lia.
Qed.

Lemma bi_hash_eqb_size x c : bi_hash_eqb x c = true -> bi_size x = bi_size c.
Proof.
  unfold bi_hash_eqb, bi_size. intro H. apply andb_true_iff in H. destruct H as [H _].
  apply N.eqb_eq in H. rewrite H. reflexivity.
Qed.

Lemma hashes_match_spec a cur :
  hashes_match a cur = true ->
  length cur <= length a /\ total (firstn (length cur) a) = total cur.
Proof.
  revert a; induction cur as [|c cur IH]; intros a H; simpl in *.
  - split; [lia|reflexivity].
  - destruct a as [|x a]; [discriminate|]. apply andb_true_iff in H. destruct H as [H1 H2].
    destruct (IH a H2) as [L T]. split; [simpl; lia|].
    cbn [firstn]. rewrite !total_cons, T, (bi_hash_eqb_size _ _ H1). reflexivity.
Qed.

Lemma bi_hash_eqb_refl x : bi_hash_eqb x x = true.
Proof. unfold bi_hash_eqb. rewrite !N.eqb_refl. reflexivity. Qed.

Lemma hashes_match_refl a b : hashes_match (a ++ b) a = true.
Proof. induction a as [|x a IH]; simpl; [reflexivity|]. rewrite bi_hash_eqb_refl, IH. reflexivity. Qed.

(* ---------------------------------------------------------------------- *)
(* invariants *)

Definition holds (f : list N) (c : nat * list N) : Prop :=
  fst c + length (snd c) <= length f /\ slice f (fst c) (length (snd c)) = snd c.

Lemma holds_app f g c : holds f c -> holds (f ++ g) c.
Proof.
  intros [H1 H2]. split.
  - rewrite app_length. lia.
  - rewrite slice_app_l by assumption. assumption.
Qed.

Lemma holds_firstn f t c : holds f c -> fst c + length (snd c) <= t -> t <= length f -> holds (firstn t f) c.
Proof.
  intros [H1 H2] H3 H4. split.
  - rewrite firstn_length. lia.
  - rewrite slice_firstn by assumption. assumption.
Qed.

Lemma holds_nil f o : o <= length f -> holds f (o, []).
Proof. intro H. split; simpl; [lia|reflexivity]. Qed.

Definition stored (b : pblock) : bool := negb (length (pb_data b) =? 0) && negb (pb_sparse b).

Definition info_of (o : nat) (b : pblock) : blk_info :=
  {| bi_off := o; bi_sw := sw_of (length (pb_data b)) (pb_compressed b); bi_chk := pb_chk b |}.

Fixpoint infos (o : nat) (l : list pblock) : list blk_info :=
  match l with
  | [] => []
  | b :: r => info_of o b :: infos (o + length (pb_data b)) r
  end.

Definition cat (l : list pblock) : list N := concat (map pb_data l).

Lemma cat_app a b : cat (a ++ b) = cat a ++ cat b.
Proof. unfold cat. rewrite map_app, concat_app. reflexivity. Qed.

Lemma cat_cons x a : cat (x :: a) = pb_data x ++ cat a.
Proof. reflexivity. Qed.

Definition all_small (l : list pblock) : Prop := Forall (fun b => small (length (pb_data b))) l.

Lemma infos_length o l : length (infos o l) = length l.
Proof. revert o; induction l as [|b l IH]; intro o; simpl; [reflexivity|]. rewrite IH. reflexivity. Qed.

Lemma infos_total o l : all_small l -> total (infos o l) = length (cat l).
Proof.
  revert o; induction l as [|b l IH]; intros o H; [reflexivity|].
  inversion H; subst. cbn [infos]. rewrite total_cons, cat_cons, app_length, IH by assumption.
  unfold bi_size, info_of. simpl. rewrite sw_size_of by assumption. reflexivity.
Qed.

Lemma infos_chain o l : all_small l -> chain o (infos o l).
Proof.
  revert o; induction l as [|b l IH]; intros o H; simpl; [exact I|].
  inversion H; subst. split; [reflexivity|].
  unfold bi_size. simpl. rewrite sw_size_of by assumption. apply IH. assumption.
Qed.

Lemma infos_app o a b : infos o (a ++ b) = infos o a ++ infos (o + length (cat a)) b.
Proof.
  revert o; induction a as [|x a IH]; intro o; simpl.
  - rewrite Nat.add_0_r. reflexivity.
  - rewrite IH, cat_cons, app_length, Nat.add_assoc. reflexivity.
Qed.

Section WriterProofs.
Variable half : nat.
Hypothesis Hhalf : 0 < half.
Variable base : nat.     (* length of the file when the writer was created *)

Record WInv (w : writer) (claims : list (nat * list N)) : Prop := {
  wi_chain : chain base (w_blocks w);
  wi_end : base + total (w_blocks w) = length (w_file w);
  wi_fstart : w_fstart w <= length (w_blocks w);
  wi_claims : Forall (holds (w_file w)) claims
}.

(* between SQFS_BLK_FIRST_BLOCK and SQFS_BLK_LAST_BLOCK: [pre] is the file and [hist] the history
   when the first block arrived, [cur] the blocks stored since then *)
Record WOpen (w : writer) (claims : list (nat * list N))
       (pre : list N) (hist : list blk_info) (cur : list pblock) : Prop := {
  wo_file : w_file w = pre ++ cat cur;
  wo_blocks : w_blocks w = hist ++ infos (length pre) cur;
  wo_fstart : w_fstart w = length hist;
  wo_chain : chain base hist;
  wo_end : base + total hist = length pre;
  wo_claims : Forall (holds pre) claims;
  wo_small : all_small cur
}.

Definition mkfl (b : pblock) (first last dd : bool) : wflags :=
  {| wf_first := first; wf_last := last; wf_sparse := pb_sparse b;
     wf_compressed := pb_compressed b; wf_dont_dedup := dd |}.

Definition add_cur (cur : list pblock) (b : pblock) : list pblock :=
  if stored b then cur ++ [b] else cur.

Lemma WOpen_of_WInv w claims :
  WInv w claims ->
  WOpen {| w_file := w_file w; w_blocks := w_blocks w; w_fstart := length (w_blocks w) |}
        claims (w_file w) (w_blocks w) [].
Proof.
  intros [C E F Cl]. constructor; simpl; try assumption.
  - unfold cat. simpl. rewrite app_nil_r. reflexivity.
  - rewrite app_nil_r. reflexivity.
  - reflexivity.
  - constructor.
Qed.

(* the store part of write_data_block *)
Lemma store_open w claims pre hist cur b fstart :
  WOpen {| w_file := w_file w; w_blocks := w_blocks w; w_fstart := fstart |} claims pre hist cur ->
  small (length (pb_data b)) ->
  WOpen (if negb (length (pb_data b) =? 0) && negb (pb_sparse b)
         then {| w_file := w_file w ++ pb_data b;
                 w_blocks := w_blocks w ++
                   [{| bi_off := length (w_file w);
                       bi_sw := sw_of (length (pb_data b)) (pb_compressed b);
                       bi_chk := pb_chk b |}];
                 w_fstart := fstart |}
         else {| w_file := w_file w; w_blocks := w_blocks w; w_fstart := fstart |})
        claims pre hist (add_cur cur b).
Proof.
  intros [Hf Hb Hs Hc He Hcl Hsm] Hsmall. simpl in *.
  unfold add_cur, stored. destruct (negb (length (pb_data b) =? 0) && negb (pb_sparse b)).
  - constructor; simpl; try assumption.
    + rewrite Hf, cat_app, app_assoc. unfold cat at 3. simpl. rewrite app_nil_r. reflexivity.
    + rewrite Hb, infos_app, <- app_assoc. simpl. f_equal. f_equal. unfold info_of.
      rewrite Hf, app_length. reflexivity.
    + apply Forall_app. split; [assumption|]. constructor; [assumption|constructor].
  - constructor; simpl; assumption.
Qed.

Lemma find_match_spec f blocks cur count loc_a sz : forall n i j,
  find_match false half f blocks cur count loc_a sz n i = FAt j ->
  i <= j < i + n /\
  hashes_match (firstn count (skipn j blocks)) cur = true /\
  range_equal (S sz) half f loc_a (bi_off (nth j blocks dflt_bi)) sz = CmpEq.
Proof.
  induction n as [|n IH]; intros i j H; cbn [find_match] in H; [discriminate|].
  destruct (hashes_match (firstn count (skipn i blocks)) cur) eqn:Hm.
  - destruct (range_equal (S sz) half f loc_a (bi_off (nth i blocks dflt_bi)) sz) eqn:Hr;
      try discriminate.
    + inversion H; subst. split; [lia|]. split; assumption.
    + apply IH in H. destruct H as [H1 H2]. split; [lia|assumption].
  - apply IH in H. destruct H as [H1 H2]. split; [lia|assumption].
Qed.

Lemma find_match_total f blocks cur count loc_a sz : forall n i,
  loc_a + sz <= length f ->
  (forall j, i <= j < i + n -> hashes_match (firstn count (skipn j blocks)) cur = true ->
             bi_off (nth j blocks dflt_bi) + sz <= length f) ->
  find_match false half f blocks cur count loc_a sz n i <> FErr /\
  find_match false half f blocks cur count loc_a sz n i <> FFuel.
Proof.
  induction n as [|n IH]; intros i Ha Hj; cbn [find_match]; [split; discriminate|].
  destruct (hashes_match (firstn count (skipn i blocks)) cur) eqn:Hm.
  - assert (Hb : bi_off (nth i blocks dflt_bi) + sz <= length f) by (apply Hj; [lia|assumption]).
    destruct (range_equal_spec (S sz) half f loc_a (bi_off (nth i blocks dflt_bi)) sz)
      as [[R _]|[R _]]; try lia; rewrite R.
    + split; discriminate.
    + apply IH; [assumption|]. intros j Hr. apply Hj. lia.
  - apply IH; [assumption|]. intros j Hr. apply Hj. lia.
Qed.

(* a match at j (hashes and bytes) is found at j or before *)
Lemma find_match_complete f blocks cur count loc_a sz : forall n i j,
  loc_a + sz <= length f ->
  (forall j, i <= j < i + n -> hashes_match (firstn count (skipn j blocks)) cur = true ->
             bi_off (nth j blocks dflt_bi) + sz <= length f) ->
  i <= j < i + n ->
  hashes_match (firstn count (skipn j blocks)) cur = true ->
  slice f loc_a sz = slice f (bi_off (nth j blocks dflt_bi)) sz ->
  exists j', find_match false half f blocks cur count loc_a sz n i = FAt j' /\ j' <= j.
Proof.
  induction n as [|n IH]; intros i j Ha Hb Hr Hm Hs; [lia|]. cbn [find_match].
  destruct (hashes_match (firstn count (skipn i blocks)) cur) eqn:Hmi.
  - assert (Hbi : bi_off (nth i blocks dflt_bi) + sz <= length f) by (apply Hb; [lia|assumption]).
    destruct (range_equal_spec (S sz) half f loc_a (bi_off (nth i blocks dflt_bi)) sz)
      as [[R E]|[R E]]; try lia; rewrite R.
    + exists i. split; [reflexivity|lia].
    + assert (i <> j) by (intro; subst; contradiction).
      destruct (IH (S i) j) as [j' [F L]]; try assumption; try lia.
      * intros k Hk. apply Hb. lia.
      * exists j'. split; assumption.
  - assert (i <> j) by (intro; subst; congruence).
    destruct (IH (S i) j) as [j' [F L]]; try assumption; try lia.
    + intros k Hk. apply Hb. lia.
    + exists j'. split; assumption.
Qed.

(* facts about the state deduplicate_blocks sees *)
Lemma open_facts w claims pre hist cur :
  WOpen w claims pre hist cur ->
  let B := w_blocks w in
  chain base B /\
  base + total B = length (w_file w) /\
  length B - w_fstart w = length cur /\
  skipn (w_fstart w) B = infos (length pre) cur /\
  total (infos (length pre) cur) = length (cat cur) /\
  length pre = base + total (firstn (w_fstart w) B) /\
  length (w_file w) = length pre + length (cat cur).
Proof.
  intros [Hf Hb Hs Hc He Hcl Hsm] B. unfold B. rewrite Hb, Hs, Hf.
  assert (T : total (infos (length pre) cur) = length (cat cur)) by (apply infos_total; assumption).
  repeat split.
  - apply chain_app. split; [assumption|]. rewrite He. apply infos_chain. assumption.
  - rewrite total_app, app_length, T. lia.
  - rewrite app_length, infos_length. lia.
  - rewrite skipn_app, skipn_all, Nat.sub_diag. reflexivity.
  - assumption.
  - rewrite firstn_app, firstn_all, Nat.sub_diag. simpl. rewrite app_nil_r. lia.
  - apply app_length.
Qed.

Lemma dedup_closed w claims pre hist cur dd evs :
  WOpen w claims pre hist cur ->
  exists w' loc evs',
    deduplicate_blocks false half w dd evs = WOk w' loc evs' /\
    WInv w' ((loc, cat cur) :: claims) /\
    (exists t, w_file w' = firstn t (w_file w) /\ length pre <= t <= length (w_file w)).
Proof.
  intro HO. pose proof (open_facts _ _ _ _ _ HO) as HF. cbv zeta in HF.
  destruct HF as (Hch & Hend & Hcnt & Hsk & Htot & Hpre & Hlen).
  destruct HO as [Hf Hb Hs Hc He Hcl Hsm].
  unfold deduplicate_blocks. rewrite Hcnt.
  assert (Hclf : Forall (holds (w_file w)) claims).
  { rewrite Hf. eapply Forall_impl; [|exact Hcl]. intros c. apply holds_app. }
  assert (Hfs : w_fstart w <= length (w_blocks w)).
  { rewrite Hb, Hs, app_length. lia. }
  assert (Hself : w_file w = firstn (length (w_file w)) (w_file w) /\
                  length pre <= length (w_file w) <= length (w_file w)).
  { split; [symmetry; apply firstn_all|lia]. }
  destruct (length cur =? 0) eqn:E0.
  - (* no stored block *)
    apply Nat.eqb_eq in E0. destruct cur; [|discriminate].
    exists w, 0, evs. split; [reflexivity|]. split.
    + constructor; try assumption. constructor; [|assumption]. apply holds_nil. lia.
    + exists (length (w_file w)). exact Hself.
  - apply Nat.eqb_neq in E0.
    assert (Hloca : bi_off (nth (w_fstart w) (w_blocks w) dflt_bi) = length pre).
    { rewrite (chain_nth_off base _ _ _ Hch) by lia. lia. }
    assert (Hown : holds (w_file w) (length pre, cat cur)).
    { split; simpl.
      - lia.
      - rewrite Hf. apply slice_app_mid'. }
    rewrite Hloca.
    destruct dd.
    { exists w, (length pre), evs. split; [reflexivity|]. split.
      - constructor; try assumption. constructor; assumption.
      - exists (length (w_file w)). exact Hself. }
    rewrite Hsk.
    fold (total (infos (length pre) cur)). rewrite Htot.
    set (B := w_blocks w) in *. set (count := length cur) in *. set (sz := length (cat cur)) in *.
    set (cinf := infos (length pre) cur) in *.
    assert (Hrange : forall j, 0 <= j < 0 + w_fstart w ->
               hashes_match (firstn count (skipn j B)) cinf = true ->
               bi_off (nth j B dflt_bi) + sz <= length (w_file w)).
    { intros j Hj Hm. apply hashes_match_spec in Hm. destruct Hm as [Hl Ht].
      unfold cinf in Hl, Ht. rewrite infos_length in Hl, Ht. fold cinf in Ht.
      rewrite (chain_nth_off base B j _ Hch) by lia.
      assert (Hfl : firstn (length cur) (firstn count (skipn j B)) = firstn count (skipn j B)).
      { rewrite firstn_firstn. f_equal. unfold count. lia. }
      rewrite Hfl in Ht.
      pose proof (total_firstn_skipn B j count) as T1.
      pose proof (total_firstn_le B (j + count)) as T2.
      lia. }
    destruct (find_match_total (w_file w) B cinf count (length pre) sz (w_fstart w) 0) as [NE NF];
      [lia|exact Hrange|].
    destruct (find_match false half (w_file w) B cinf count (length pre) sz (w_fstart w) 0) as [i| | |] eqn:FM;
      try congruence.
    + (* duplicate found at i *)
      apply find_match_spec in FM. destruct FM as (Hi & Hm & Hr).
      pose proof (Hrange i Hi Hm) as Hib.
      apply hashes_match_spec in Hm. destruct Hm as [Hl Ht].
      unfold cinf in Hl, Ht. rewrite infos_length in Hl, Ht. fold cinf in Ht.
      assert (Hfl : firstn (length cur) (firstn count (skipn i B)) = firstn count (skipn i B)).
      { rewrite firstn_firstn. f_equal. unfold count. lia. }
      rewrite Hfl in Ht. rewrite Htot in Ht.
      assert (Hlen_i : length (firstn count (skipn i B)) = count).
      { rewrite firstn_length in Hl. rewrite firstn_length. unfold count. lia. }
      rewrite firstn_length, skipn_length in Hlen_i.
      destruct (range_equal_spec (S sz) half (w_file w) (length pre) (bi_off (nth i B dflt_bi)) sz)
        as [[_ Heq]|[R _]]; try lia; [|congruence].
      set (used := if w_fstart w - i <=? count then i + count else w_fstart w).
      assert (Hused : used <= length B /\ w_fstart w <= used /\ i + count <= used /\ 0 < used).
      { unfold used. destruct (w_fstart w - i <=? count) eqn:El;
          [apply Nat.leb_le in El|apply Nat.leb_gt in El]; lia. }
      destruct Hused as (Hu1 & Hu2 & Hu3 & Hu4).
      pose proof (chain_last_end base B used dflt_bi Hch) as Hts.
      rewrite Hts by lia.
      set (tsz := base + total (firstn used B)).
      assert (Hoff_i : bi_off (nth i B dflt_bi) = base + total (firstn i B)).
      { apply chain_nth_off; [assumption|lia]. }
      assert (Hts1 : tsz <= length (w_file w)).
      { unfold tsz. pose proof (total_firstn_le B used). lia. }
      assert (Hts2 : length pre <= tsz).
      { unfold tsz. pose proof (total_firstn_mono B (w_fstart w) used Hu2). lia. }
      assert (Hts3 : bi_off (nth i B dflt_bi) + sz <= tsz).
      { unfold tsz. pose proof (total_firstn_skipn B i count) as T1.
        pose proof (total_firstn_mono B (i + count) used Hu3). lia. }
      eexists _, _, _. split; [reflexivity|]. split.
      * rewrite truncate_le by assumption.
        constructor; simpl.
        -- apply chain_firstn. assumption.
        -- rewrite firstn_length. fold tsz. lia.
        -- rewrite firstn_length. lia.
        -- constructor.
           ++ apply holds_firstn; [|simpl; fold sz; lia|assumption].
              split; simpl; fold sz; [lia|].
              rewrite <- Heq. destruct Hown as [_ Ho]. simpl in Ho. exact Ho.
           ++ eapply Forall_impl; [|exact Hcl]. intros c Hc0.
              apply holds_firstn; [|destruct Hc0; lia|assumption].
              rewrite Hf. apply holds_app. assumption.
      * exists tsz. simpl. rewrite truncate_le by assumption. split; [reflexivity|lia].
    + (* no duplicate *)
      exists w, (length pre), evs. split; [reflexivity|]. split.
      * constructor; try assumption. constructor; assumption.
      * exists (length (w_file w)). exact Hself.
Qed.

(* one call of write_data_block inside a file *)
Lemma wdb_nonlast w claims pre hist cur b (first : bool) dd :
  (if first then WInv w claims /\ pre = w_file w /\ hist = w_blocks w /\ cur = []
   else WOpen w claims pre hist cur) ->
  small (length (pb_data b)) ->
  exists w1,
    write_data_block false half w (mkfl b first false dd) (pb_chk b) (pb_data b)
    = WOk w1 (length (w_file w))
          (if negb (length (pb_data b) =? 0) && negb (pb_sparse b)
           then [EvWrite (length (w_file w)) (pb_data b)] else []) /\
    WOpen w1 claims pre hist (add_cur cur b).
Proof.
  intros H Hs. unfold write_data_block, mkfl. simpl.
  eexists. split; [reflexivity|].
  destruct first.
  - destruct H as (HI & -> & -> & ->). apply store_open; [|assumption].
    apply WOpen_of_WInv. assumption.
  - apply store_open; [|assumption]. destruct w. simpl. assumption.
Qed.

Lemma wdb_last w claims pre hist cur b (first : bool) dd :
  (if first then WInv w claims /\ pre = w_file w /\ hist = w_blocks w /\ cur = []
   else WOpen w claims pre hist cur) ->
  small (length (pb_data b)) ->
  exists w' loc evs',
    write_data_block false half w (mkfl b first true dd) (pb_chk b) (pb_data b) = WOk w' loc evs' /\
    WInv w' ((loc, cat (add_cur cur b)) :: claims) /\
    length pre <= length (w_file w').
Proof.
  intros H Hs. unfold write_data_block, mkfl. simpl.
  match goal with |- context [deduplicate_blocks _ _ ?w1 _ ?e] => set (w1' := w1); set (e' := e) end.
  assert (HO : WOpen w1' claims pre hist (add_cur cur b)).
  { unfold w1'. destruct first.
    - destruct H as (HI & -> & -> & ->). apply store_open; [|assumption].
      apply WOpen_of_WInv. assumption.
    - apply store_open; [|assumption]. destruct w. simpl. assumption. }
  destruct (dedup_closed w1' claims pre hist (add_cur cur b) dd e' HO) as (w' & loc & evs' & E & I & t & Ft & Lt).
  exists w', loc, evs'. split; [exact E|]. split; [exact I|].
  rewrite Ft, firstn_length. lia.
Qed.

End WriterProofs.

(* a block written outside of any file (a fragment block) *)
Lemma wdb_single half base w claims b dd :
  WInv base w claims ->
  small (length (pb_data b)) ->
  exists w1,
    write_data_block false half w (mkfl b false false dd) (pb_chk b) (pb_data b)
    = WOk w1 (length (w_file w))
          (if negb (length (pb_data b) =? 0) && negb (pb_sparse b)
           then [EvWrite (length (w_file w)) (pb_data b)] else []) /\
    WInv base w1 ((length (w_file w), if stored b then pb_data b else []) :: claims) /\
    length (w_file w) <= length (w_file w1).
Proof.
  intros [C E F Cl] Hs. unfold write_data_block, mkfl, stored. simpl.
  eexists. split; [reflexivity|].
  destruct (negb (length (pb_data b) =? 0) && negb (pb_sparse b)).
  - split; [|simpl; rewrite app_length; lia].
    constructor; simpl.
    + apply chain_app. split; [assumption|]. simpl. split; [lia|exact I].
    + rewrite total_app, app_length, total_cons, total_nil. unfold bi_size. simpl.
      rewrite sw_size_of by assumption. lia.
    + rewrite app_length. simpl. lia.
    + constructor.
      * split; simpl; [rewrite app_length; lia|]. apply slice_app_mid'.
      * eapply Forall_impl; [|exact Cl]. intro c. apply holds_app.
  - split; [|simpl; lia].
    constructor; simpl; try assumption.
    constructor; [|assumption]. apply holds_nil. lia.
Qed.
