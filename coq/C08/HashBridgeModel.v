(* C08 x Util, part 2 -- the fragment path of the block processor model with the REAL hash table
   (Util/HashModel.v: lib/util/src/hash_table.c statement by statement) in place of the
   association list [p_ht].  Definitions only.

   Everything that does not touch the table (the worker, process_completed_block, the io queue,
   drain / sync / finish, the block writer, the data reader) is C08/DedupModel.v unchanged; the
   state is a pair (proc, table) in which proc's [p_ht] stays [] and [p_cached] stays None.

   What the table model fixes and how the callback is plugged in:
   * key and data are both the chunk_info_t (backend.c: insert_pre_hashed(ht, chunk->hash, chunk,
     chunk)); the search key is the stack variable [search] of which only size and hash are set
     ([skey]); the chunk handed back is entry->data.
   * Util's callback is a PURE boolean function.  chunk_info_equals is not: (1) it leaves the
     last fragment block it had to re-read in proc->cached_frag_blk, (2) it can fail
     (proc->fblk_lookup_error) and then answers false for the rest of the table operation, after
     which process_completed_fragment returns the error.
     (1) the real-table model evaluates the callback WITHOUT cache ([cb]: cached = None, i.e.
         every on-disk block is re-read); C08/HashBridgeSim.v [cb_cache_irrelevant] shows the
         answer is the same for every coherent cache content, which content the real probing
         order leaves behind is outside the model.
     (2) [cb_errs]: the operation fails if the callback would fail on ANY live entry with the
         searched hash.  The C code fails only if it fails on an entry it actually probes (a
         subset), so "the model does not fail" implies "the C code does not fail";
         [frag_table_is_real_hash_table] proves the former.
   * hash_table_create returning NULL / insert returning NULL: RErr (SQFS_ERROR_ALLOC / goto
     fail); Util's Crash (out of bounds access) and OutOfFuel (loop still running after [size]
     iterations) are kept apart as RCrash / RFuel. *)
From Coq Require Import List NArith Arith Bool.
From SqfsV Require Import C08.DedupModel.
From SqfsV Require Util.HashModel.
Import ListNotations.

Inductive rres (A : Type) : Type :=
| ROk (a : A)
| RErr
| RFuel
| RCrash.
Arguments ROk {A} a.
Arguments RErr {A}.
Arguments RFuel {A}.
Arguments RCrash {A}.

Definition tab : Type := HashModel.htab chunk chunk.

(* chunk_info_t search; search.hash = frag->checksum; search.size = frag->size; *)
Definition skey (size : nat) (h : N) : chunk :=
  {| ck_index := 0; ck_offset := 0; ck_size := size; ck_hash := h |}.

(* the state without list and cache *)
Definition strip (st : proc) : proc := set_cached (set_ht st []) None.

Definition lift {A B : Type} (r : DedupModel.res A) (f : A -> B) : rres B :=
  match r with
  | Ok a => ROk (f a)
  | Err => RErr
  | Fuel => RFuel
  end.

Section RealProc.
Variable hashf : list N -> N.
Variable compress : list N -> option (list N).
Variable uncompress : list N -> nat -> option (list N).
Variable bs : nat.
Variable hash_only : bool.
Variable bytecmp : bool.
Variable half : nat.

(* chunk_info_equals(proc, key, c) with proc->current_frag->data = cur, no cached block *)
Definition cb (st : proc) (cur : list N) (key c : chunk) : eqres :=
  fst (chunk_equals uncompress bs bytecmp st None (ck_size key) (ck_hash key) cur c).

Definition keq_of (st : proc) (cur : list N) (key c : chunk) : bool :=
  match cb st cur key c with EqYes => true | _ => false end.

Definition cb_errs (st : proc) (cur : list N) (key : chunk) (t : tab) : bool :=
  existsb (fun e : N * chunk * chunk =>
             N.eqb (fst (fst e)) (ck_hash key) &&
             match cb st cur key (snd (fst e)) with EqErr => true | _ => false end)
          (HashModel.live chunk chunk t).

(* process_completed_fragment between the duplicate search and the table insert: flush the
   fragment block if the fragment does not fit, give the fragment its place (the first two
   steps of DedupModel.store_fragment, verbatim) *)
Definition place_fragment (st : proc) (fl : uflags) (d : list N) : proc * nat * nat :=
  let st1 :=
    match p_fragblk st with
    | Some fb => if bs <? length (fb_data fb) + length d
                 then enqueue_fragblk hashf compress bytecmp st fb else st
    | None => st
    end in
  match p_fragblk st1 with
  | None =>
    let i := p_nfrag st1 in
    (set_fragblk (append_ftab st1)
                 (Some {| fb_index := i; fb_data := d; fb_dont_compress := uf_dont_compress fl |}),
     i, 0)
  | Some fb =>
    (set_fragblk st1 (Some {| fb_index := fb_index fb; fb_data := fb_data fb ++ d;
                              fb_dont_compress := fb_dont_compress fb || uf_dont_compress fl |}),
     fb_index fb, length (fb_data fb))
  end.

Definition r_store_fragment (st : proc) (t : tab) (fid : nat) (fl : uflags) (d : list N) (chk : N)
  : rres (proc * tab) :=
  let '(st2, index, offset) := place_fragment st fl d in
  let nc := {| ck_index := index; ck_offset := offset; ck_size := length d; ck_hash := chk |} in
  if cb_errs st2 d nc t then RErr
  else
    match HashModel.ht_insert chunk chunk (keq_of st2 d) t chk nc nc with
    | HashModel.Ok (t', Some _) => ROk (set_frag st2 fid index offset, t')
    | HashModel.Ok (_, None) => RErr
    | HashModel.Crash => RCrash
    | HashModel.OutOfFuel => RFuel
    end.

Definition r_process_fragment (st : proc) (t : tab) (fid idx : nat) (fl : uflags) (d : list N)
  : rres (proc * tab) :=
  let pb := work_block hashf compress (uf_ignore_sparse fl) true (uf_dont_compress fl) (uf_dont_hash fl) d in
  if pb_sparse pb then ROk (set_size st fid idx 0%N, t)
  else if uf_dont_dedup fl then r_store_fragment st t fid fl d (pb_chk pb)
  else
    let key := skey (length d) (pb_chk pb) in
    if cb_errs st d key t then RErr
    else
      match HashModel.ht_search chunk chunk (keq_of st d) t (pb_chk pb) key with
      | HashModel.Ok (Some a) =>
        match HashModel.ht_entry chunk chunk t a with
        | Some (_, _, c) => ROk (set_frag st fid (ck_index c) (ck_offset c), t)     (* chunk = entry->data *)
        | None => RCrash
        end
      | HashModel.Ok None => r_store_fragment st t fid fl d (pb_chk pb)
      | HashModel.Crash => RCrash
      | HashModel.OutOfFuel => RFuel
      end.

(* the data blocks of the file enter the io queue (the middle of DedupModel.step_file) *)
Definition push_file (st1 : proc) (fid : nat) (j : fjob) : proc :=
  match j_blocks j with
  | [] => st1
  | _ :: _ =>
    set_ioq st1 (p_ioq st1 ++
                 [QFile fid (uf_dont_dedup (j_fl j))
                        (map (work_block hashf compress (uf_ignore_sparse (j_fl j)) false
                                         (uf_dont_compress (j_fl j)) (uf_dont_hash (j_fl j)))
                             (j_blocks j))])
  end.

Definition r_step_file (st : proc) (t : tab) (fid : nat) (j : fjob) : rres (proc * tab) :=
  match drain hash_only half st with
  | Err => RErr
  | Fuel => RFuel
  | Ok st1 =>
    match drain hash_only half (push_file st1 fid j) with
    | Err => RErr
    | Fuel => RFuel
    | Ok st3 =>
      match j_tail j with
      | None => ROk (st3, t)
      | Some tl => r_process_fragment st3 t fid (length (j_blocks j) - 1) (j_fl j) tl
      end
    end
  end.

Fixpoint r_run_files (jobs : list fjob) (sched : list nat) (fid : nat) (st : proc) (t : tab)
  : rres (proc * tab) :=
  match jobs with
  | [] => ROk (st, t)
  | j :: rest =>
    match fragdone_n hash_only half (hd 0 sched) st with
    | Ok st1 =>
      match r_step_file st1 t fid j with
      | ROk (st2, t2) => r_run_files rest (tl sched) (S fid) st2 t2
      | e => e
      end
    | Err => RErr
    | Fuel => RFuel
    end
  end.

(* sqfs_block_processor_create .. sqfs_block_processor_finish *)
Definition r_pack (file0 : list N) (files : list (uflags * list N)) (sched : list nat)
  : rres (proc * tab) :=
  match HashModel.ht_create chunk chunk with
  | None => RErr
  | Some t0 =>
    match r_run_files (map (fun f => file_job bs (fst f) (snd f)) files) sched 0
                      (strip (init_proc file0)) t0 with
    | ROk (st, t) => lift (finish hashf compress hash_only bytecmp half st) (fun s => (s, t))
    | e => e
    end
  end.

End RealProc.
