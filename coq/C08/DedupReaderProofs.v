(* C08 — the worker's output decodes back to its input; the reader walks a handed-out range;
   shape of what the frontend submits for a file. *)
From Coq Require Import List NArith Arith Bool Lia.
From SqfsV Require Import C08.DedupModel C08.DedupLemmas C08.DedupWriterProofs.
Import ListNotations.

Section Reader.
Variable hashf : list N -> N.
Variable compress : list N -> option (list N).
Variable uncompress : list N -> nat -> option (list N).
Variable bs : nat.

(* contract of include/sqfs/compressor.h: a result is shorter than the input and the
   uncompressor, given room for at least the original, gives the original back *)
Hypothesis Hcomp : forall b c, compress b = Some c ->
  length c < length b /\ forall n, length b <= n -> uncompress c n = Some b.
Hypothesis Hbs : 0 < bs.
Hypothesis Hsmall : small bs.

Notation work := (work_block hashf compress).

(* [p] is what the worker made of the non-empty block [d] *)
Definition dec_ok (p : pblock) (d : list N) : Prop :=
  d <> [] /\
  length (pb_data p) <= length d /\
  (pb_sparse p = true -> all_zero d = true /\ pb_data p = d) /\
  (pb_sparse p = false -> pb_data p <> [] /\
     (pb_compressed p = false -> pb_data p = d) /\
     (pb_compressed p = true -> forall n, length d <= n -> uncompress (pb_data p) n = Some d)).

Lemma length_zero_iff {A} (l : list A) : (length l =? 0) = true <-> l = [].
Proof. destruct l; simpl; split; intro; try reflexivity; discriminate. Qed.

Lemma work_empty ns isf dc dh : work ns isf dc dh [] =
  {| pb_sparse := false; pb_compressed := false; pb_chk := 0%N; pb_data := [] |}.
Proof. reflexivity. Qed.

Lemma work_dec ns isf dc dh d : d <> [] -> dec_ok (work ns isf dc dh d) d.
Proof.
  intro Hd. unfold work_block.
  destruct (length d =? 0) eqn:E0; [apply length_zero_iff in E0; contradiction|].
  destruct (negb ns && all_zero d) eqn:Ez.
  - apply andb_true_iff in Ez. destruct Ez as [_ Ez].
    split; [assumption|]. simpl. split; [lia|]. split; [auto|discriminate].
  - assert (Raw : forall chk, dec_ok {| pb_sparse := false; pb_compressed := false; pb_chk := chk; pb_data := d |} d).
    { intro chk. split; [assumption|]. simpl. split; [lia|]. split; [discriminate|].
      intros _. split; [assumption|]. split; [reflexivity|discriminate]. }
    destruct (isf || dc); [apply Raw|].
    destruct (compress d) as [c|] eqn:Ec; [|apply Raw].
    destruct (length c =? 0) eqn:Ec0; [apply Raw|].
    destruct (Hcomp d c Ec) as [L U].
    split; [assumption|]. simpl. split; [lia|]. split; [discriminate|].
    intros _. split.
    + intro H. subst. discriminate.
    + split; [discriminate|]. intros _. exact U.
Qed.

Lemma work_sparse_iff ns isf dc dh d : d <> [] ->
  pb_sparse (work ns isf dc dh d) = negb ns && all_zero d.
Proof.
  intro Hd. unfold work_block.
  destruct (length d =? 0) eqn:E0; [apply length_zero_iff in E0; contradiction|].
  destruct (negb ns && all_zero d); [reflexivity|].
  destruct (isf || dc); [reflexivity|].
  destruct (compress d) as [c|]; [|reflexivity].
  destruct (length c =? 0); reflexivity.
Qed.

Lemma work_frag_raw ns dc dh d : d <> [] -> negb ns && all_zero d = false ->
  work ns true dc dh d = {| pb_sparse := false; pb_compressed := false;
                            pb_chk := (if dh then 0%N else hashf d); pb_data := d |}.
Proof.
  intros Hd Hz. unfold work_block.
  destruct (length d =? 0) eqn:E0; [apply length_zero_iff in E0; contradiction|].
  rewrite Hz. reflexivity.
Qed.

Lemma work_len ns isf dc dh d : length (pb_data (work ns isf dc dh d)) <= length d.
Proof.
  destruct d as [|x d]; [simpl; lia|].
  destruct (work_dec ns isf dc dh (x :: d)) as (_ & L & _); [discriminate|exact L].
Qed.

Lemma work_data_nil ns isf dc dh d : pb_data (work ns isf dc dh d) = [] <-> d = [].
Proof.
  split.
  - intro H. destruct d as [|x d]; [reflexivity|].
    destruct (work_dec ns isf dc dh (x :: d)) as (_ & _ & S1 & S2); [discriminate|].
    destruct (pb_sparse (work ns isf dc dh (x :: d))).
    + destruct S1 as [_ E]; [reflexivity|]. congruence.
    + destruct S2 as (NE & _); [reflexivity|]. contradiction.
  - intros ->. reflexivity.
Qed.

Definition word (p : pblock) : N :=
  if pb_sparse p then 0%N else sw_of (length (pb_data p)) (pb_compressed p).

Lemma decode_ok f off p d :
  dec_ok p d -> pb_sparse p = false -> length d <= bs ->
  off + length (pb_data p) <= length f ->
  slice f off (length (pb_data p)) = pb_data p ->
  decode_block uncompress f off (word p) bs = Some d.
Proof.
  intros (Hd & L & _ & S2) Hs Hl Hr Hsl. destruct (S2 Hs) as (NE & R1 & R2).
  assert (Sm : small (length (pb_data p))) by (eapply small_le; [|exact Hsmall]; lia).
  unfold decode_block, word. rewrite Hs.
  rewrite sw_sparse_of by assumption.
  destruct (length (pb_data p) =? 0) eqn:E0; [apply length_zero_iff in E0; contradiction|].
  rewrite sw_size_of by assumption.
  destruct (bs <? length (pb_data p)) eqn:El; [apply Nat.ltb_lt in El; lia|].
  rewrite read_at_ok by assumption. rewrite Hsl.
  rewrite sw_compressed_of by assumption.
  destruct (pb_compressed p).
  - rewrite (R2 eq_refl bs Hl).
    destruct (length d =? 0) eqn:Ed; [apply length_zero_iff in Ed; contradiction|reflexivity].
  - rewrite (R1 eq_refl). reflexivity.
Qed.

(* block [j] of the file has the length the reader expects *)
Fixpoint sized (extra : nat) (ds : list (list N)) : Prop :=
  match ds with
  | [] => True
  | d :: r => length d = Nat.min bs (length d + length (concat r) + extra) /\ sized extra r
  end.

Lemma read_blocks_ok f sizes extra : forall (pds : list (pblock * list N)) k off,
  Forall (fun pd => dec_ok (fst pd) (snd pd)) pds ->
  sized extra (map snd pds) ->
  (forall j pd, nth_error pds j = Some pd -> sizes (k + j) = Some (word (fst pd))) ->
  off + length (cat (filter stored (map fst pds))) <= length f ->
  slice f off (length (cat (filter stored (map fst pds)))) = cat (filter stored (map fst pds)) ->
  read_blocks uncompress bs f sizes (length pds) k off (length (concat (map snd pds)) + extra)
  = Some (concat (map snd pds)).
Proof.
  induction pds as [|[p d] pds IH]; intros k off Hdec Hsz Hw Hr Hs; [reflexivity|].
  inversion Hdec as [|? ? Hd Hdec']; subst. simpl in Hd.
  cbn [map snd fst sized] in Hsz. destruct Hsz as [Hlen Hsz].
  cbn [length read_blocks map snd concat].
  rewrite app_length.
  assert (Hwant : Nat.min bs (length d + length (concat (map snd pds)) + extra) = length d) by lia.
  rewrite Hwant.
  pose proof (Hw 0 (p, d) eq_refl) as Hw0. rewrite Nat.add_0_r in Hw0. simpl in Hw0. rewrite Hw0.
  assert (Hw' : forall j pd, nth_error pds j = Some pd -> sizes (S k + j) = Some (word (fst pd))).
  { intros j pd Hj. replace (S k + j) with (k + S j) by lia. apply Hw. exact Hj. }
  replace (length d + length (concat (map snd pds)) + extra - length d)
    with (length (concat (map snd pds)) + extra) by lia.
  pose proof Hd as Hd0.
  destruct Hd as (Hdn & Lp & S1 & S2).
  assert (Hdl : length d <= bs) by lia.
  cbn [map fst filter] in Hr, Hs.
  destruct (pb_sparse p) eqn:Esp.
  - (* sparse block: nothing on disk *)
    destruct (S1 eq_refl) as [Hz Hpd].
    assert (Hst : stored p = false) by (unfold stored; rewrite Esp; apply andb_false_r).
    rewrite Hst in Hr, Hs.
    unfold word at 1. rewrite Esp. rewrite sw_sparse_zero.
    rewrite (IH (S k) off Hdec' Hsz Hw' Hr Hs).
    rewrite <- (all_zero_repeat d Hz). reflexivity.
  - destruct (S2 eq_refl) as (NE & R1 & R2).
    assert (Hst : stored p = true).
    { unfold stored. rewrite Esp. destruct (length (pb_data p) =? 0) eqn:E0; [|reflexivity].
      apply length_zero_iff in E0. contradiction. }
    rewrite Hst in Hr, Hs. rewrite cat_cons, app_length in Hr, Hs.
    assert (Sm : small (length (pb_data p))) by (eapply small_le; [|exact Hsmall]; lia).
    assert (Hns : sw_sparse (word p) = false).
    { unfold word. rewrite Esp. rewrite sw_sparse_of by assumption.
      destruct (length (pb_data p) =? 0) eqn:E0; [|reflexivity].
      apply length_zero_iff in E0. contradiction. }
    rewrite Hns.
    rewrite slice_split in Hs. apply app_inj_len in Hs;
      [|rewrite slice_length by lia; reflexivity].
    destruct Hs as [Hs1 Hs2].
    rewrite (decode_ok f off p d); try assumption; try lia.
    rewrite Nat.eqb_refl.
      assert (Hsw : sw_size (word p) = length (pb_data p)).
      { unfold word. rewrite Esp. apply sw_size_of. assumption. }
      rewrite Hsw.
      rewrite (IH (S k) (off + length (pb_data p)) Hdec' Hsz Hw'); [reflexivity|lia|exact Hs2].
Qed.

(* ---------------------------------------------------------------------- *)
(* what the frontend submits *)

Lemma take_blocks_spec : forall n d, n * bs <= length d ->
  concat (take_blocks bs n d) ++ skipn (n * bs) d = d /\
  Forall (fun b => length b = bs) (take_blocks bs n d) /\
  length (take_blocks bs n d) = n.
Proof.
  induction n as [|n IH]; intros d H.
  - simpl. repeat split. constructor.
  - cbn [take_blocks concat]. simpl in H.
    destruct (IH (skipn bs d)) as (E & F & L); [rewrite skipn_length; lia|].
    repeat split.
    + rewrite <- app_assoc. rewrite skipn_skipn' in E.
      replace (S n * bs) with (bs + n * bs) by (simpl; lia).
      rewrite E. apply firstn_skipn.
    + constructor; [rewrite firstn_length; lia|assumption].
    + simpl. rewrite L. reflexivity.
Qed.

Lemma div_mul_le a b : a / b * b <= a.
Proof. destruct b; [lia|]. rewrite Nat.mul_comm. apply Nat.mul_div_le. discriminate. Qed.

(* the five shapes of file_job *)
Inductive job_shape (fl : uflags) (d : list N) : fjob -> Prop :=
| JS_empty : d = [] ->
    job_shape fl d {| j_fl := fl; j_blocks := []; j_tail := None |}
| JS_full : forall full, full <> [] -> Forall (fun b => length b = bs) full -> concat full = d ->
    job_shape fl d {| j_fl := fl; j_blocks := full ++ [[]]; j_tail := None |}
| JS_nofrag : forall full r, Forall (fun b => length b = bs) full -> 0 < length r < bs ->
    concat full ++ r = d -> uf_dont_fragment fl = true ->
    job_shape fl d {| j_fl := fl; j_blocks := full ++ [r]; j_tail := None |}
| JS_small : forall r, 0 < length r < bs -> r = d -> uf_dont_fragment fl = false ->
    job_shape fl d {| j_fl := fl; j_blocks := []; j_tail := Some r |}
| JS_tail : forall full r, full <> [] -> Forall (fun b => length b = bs) full -> 0 < length r < bs ->
    concat full ++ r = d -> uf_dont_fragment fl = false ->
    job_shape fl d {| j_fl := fl; j_blocks := full ++ [[]]; j_tail := Some r |}.

Lemma file_job_shape fl d : job_shape fl d (file_job bs fl d).
Proof.
  unfold file_job.
  pose proof (div_mul_le (length d) bs) as Hle.
  destruct (take_blocks_spec (length d / bs) d Hle) as (E & F & L).
  set (n := length d / bs) in *. set (full := take_blocks bs n d) in *.
  assert (Hrl : length (skipn (n * bs) d) < bs).
  { rewrite skipn_length. unfold n.
    pose proof (Nat.div_mod (length d) bs ltac:(lia)) as DM.
    pose proof (Nat.mod_upper_bound (length d) bs ltac:(lia)). lia. }
  destruct (skipn (n * bs) d) as [|x r] eqn:Er.
  - rewrite app_nil_r in E. destruct (n =? 0) eqn:En.
    + apply Nat.eqb_eq in En. apply JS_empty.
      destruct full; [simpl in E; congruence|simpl in L; lia].
    + apply Nat.eqb_neq in En. apply JS_full; try assumption.
      intro H. rewrite H in L. simpl in L. lia.
  - destruct (uf_dont_fragment fl) eqn:Edf.
    + apply JS_nofrag; try assumption. simpl in *. lia.
    + destruct (n =? 0) eqn:En.
      * apply Nat.eqb_eq in En. apply JS_small; try assumption; [simpl in *; lia|].
        destruct full; [simpl in E; congruence|simpl in L; lia].
      * apply Nat.eqb_neq in En. apply JS_tail; try assumption; [|simpl in *; lia].
        intro H. rewrite H in L. simpl in L. lia.
Qed.

End Reader.
