(* C08 x Util -- the association list of C08/DedupModel.v against the open-addressing table of
   Util/HashModel.v (statement-by-statement model of lib/util/src/hash_table.c), part 1: the
   container-level simulation, for any entry type and any PURE boolean callback.

   [l_search] / [l_insert] are C08's [ht_search] / [ht_insert] with the callback's side effect
   (the cached fragment block) and error outcome taken out: first entry IN INSERTION ORDER whose
   stored hash equals and for which the callback says yes; replace that entry, else append.
   hash_table.c returns / replaces the first such entry ON THE PROBING SEQUENCE (after a resize
   the two orders differ: [first_match_order_differs] below).  They are the same function of the
   abstract content iff at most one live entry matches ([at_most_one]); under that hypothesis

     [bridge_search]  the table's search (any wf table representing the list) terminates inside
                      the table and returns the slot holding the entry [l_search] returns, or
                      NULL iff [l_search] finds none;
     [bridge_insert]  the table's insert (incl. grow / rehash) terminates, returns a non-NULL
                      slot holding (hash, nc, nc), and the new table represents [l_insert].

   [Rep l t]: t is well formed (Util/HashInv.v [wf]) and its live entries are, as a multiset,
   (hash_of c, c, c) for the c of l -- key and data are the same pointer in backend.c
   (hash_table_insert_pre_hashed(ht, chunk->hash, chunk, chunk)). *)
From Coq Require Import NArith List Bool Lia Permutation Arith.
From SqfsV Require Import Util.GenUtil Util.FastRem Util.HashModel Util.HashBase Util.HashRows
     Util.HashInv Util.HashContracts.
Import ListNotations.

Section Bridge.
Variable E : Type.
Variable hash_of : E -> N.

Definition ent (c : E) : N * E * E := (hash_of c, c, c).

Definition hmatch (m : E -> bool) (h : N) (c : E) : bool := N.eqb (hash_of c) h && m c.

Fixpoint l_search (m : E -> bool) (h : N) (l : list E) : option E :=
  match l with
  | [] => None
  | c :: r => if hmatch m h c then Some c else l_search m h r
  end.

Fixpoint l_insert (m : E -> bool) (nc : E) (l : list E) : list E :=
  match l with
  | [] => [nc]
  | c :: r => if hmatch m (hash_of nc) c then nc :: r else c :: l_insert m nc r
  end.

Definition at_most_one (m : E -> bool) (h : N) (l : list E) : Prop :=
  length (filter (hmatch m h) l) <= 1.

Definition Rep (l : list E) (t : htab E E) : Prop :=
  wf E E t /\ Permutation (livel E E (ht_table E E t)) (map ent l).

(* ---- the list functions in terms of the matching entries ---- *)

Lemma l_search_filter m h l : l_search m h l = hd_error (filter (hmatch m h) l).
Proof.
  induction l as [|c r IH]; cbn; [reflexivity|].
  destruct (hmatch m h c); cbn; [reflexivity|exact IH].
Qed.

Lemma filter_nil_iff {A} (f : A -> bool) l : filter f l = [] <-> forall x, In x l -> f x = false.
Proof.
  induction l as [|c r IH]; cbn.
  - split; [intros _ x []|reflexivity].
  - destruct (f c) eqn:Ec.
    + split; [discriminate|]. intro H. rewrite (H c (or_introl eq_refl)) in Ec. discriminate.
    + rewrite IH. split.
      * intros H x [->|Hx]; [exact Ec|apply H; exact Hx].
      * intros H x Hx. apply H. right. exact Hx.
Qed.

Lemma one_match m h l c :
  at_most_one m h l -> In c l -> hmatch m h c = true -> filter (hmatch m h) l = [c].
Proof.
  unfold at_most_one. intros H Hin Hm.
  assert (Hf : In c (filter (hmatch m h) l)) by (apply filter_In; split; assumption).
  destruct (filter (hmatch m h) l) as [|x [|y r]]; cbn in H.
  - contradiction.
  - destruct Hf as [->|[]]. reflexivity.
  - lia.
Qed.

(* the shape of l_insert: nothing matches and nc is appended, or the first match is replaced *)
Lemma l_insert_shape m nc l :
  (filter (hmatch m (hash_of nc)) l = [] /\ l_insert m nc l = l ++ [nc]) \/
  (exists l1 c0 l2, l = l1 ++ c0 :: l2 /\ hmatch m (hash_of nc) c0 = true /\
                    l_insert m nc l = l1 ++ nc :: l2).
Proof.
  induction l as [|c r IH]; cbn.
  - left. split; reflexivity.
  - destruct (hmatch m (hash_of nc) c) eqn:Ec.
    + right. exists [], c, r. repeat split; [exact Ec].
    + destruct IH as [[H1 H2]|(l1 & c0 & l2 & H1 & H2 & H3)].
      * left. split; [exact H1|]. rewrite H2. reflexivity.
      * right. exists (c :: l1), c0, l2. subst r. repeat split; [exact H2|].
        rewrite H3. reflexivity.
Qed.

Lemma l_insert_length m nc l : length (l_insert m nc l) <= S (length l).
Proof.
  induction l as [|c r IH]; cbn; [lia|].
  destruct (hmatch m (hash_of nc) c); cbn; lia.
Qed.

Lemma l_insert_in m nc l c : In c (l_insert m nc l) -> In c l \/ c = nc.
Proof.
  induction l as [|x r IH]; cbn.
  - intros [<-|[]]. right. reflexivity.
  - destruct (hmatch m (hash_of nc) x); cbn.
    + intros [<-|H]; [right; reflexivity|left; right; exact H].
    + intros [<-|H]; [left; left; reflexivity|].
      destruct (IH H) as [H'|H']; [left; right; exact H'|right; exact H'].
Qed.

Lemma l_search_some m h l c : l_search m h l = Some c -> In c l /\ hmatch m h c = true.
Proof.
  induction l as [|x r IH]; cbn; [discriminate|].
  destruct (hmatch m h x) eqn:Ex.
  - intro H. inversion H; subst. split; [left; reflexivity|exact Ex].
  - intro H. destruct (IH H) as [H1 H2]. split; [right; exact H1|exact H2].
Qed.

Lemma l_search_none m h l : l_search m h l = None -> forall c, In c l -> hmatch m h c = false.
Proof.
  rewrite l_search_filter. intros H c Hc.
  destruct (filter (hmatch m h) l) as [|x r] eqn:Ef; [|discriminate].
  exact (proj1 (filter_nil_iff _ _) Ef c Hc).
Qed.

Lemma in_map_ent h k d l : In (h, k, d) (map ent l) -> In k l /\ d = k /\ hash_of k = h.
Proof.
  intro H. apply in_map_iff in H. destruct H as (c & Ec & Hc). unfold ent in Ec.
  inversion Ec; subst. repeat split. exact Hc.
Qed.

Lemma Rep_entries l t : Rep l t -> ht_entries E E t = N.of_nat (length l).
Proof.
  intros [W P]. rewrite (wf_entries E E t W). unfold lenN.
  rewrite (Permutation_length P), map_length. reflexivity.
Qed.

(* ---- search ---- *)
Theorem bridge_search (keq : E -> E -> bool) l t h key :
  Rep l t -> (h < two32)%N -> at_most_one (keq key) h l ->
  exists r, ht_search E E keq t h key = Ok r /\
    match r with
    | Some a => exists c, ht_entry E E t a = Some (h, c, c) /\ l_search (keq key) h l = Some c
    | None => l_search (keq key) h l = None
    end.
Proof.
  intros [W P] Hh U.
  destruct (ht_search_spec E E keq t h key W Hh) as (r & Er & Hr).
  exists r. split; [exact Er|]. destruct r as [a|].
  - destruct Hr as (k & d & Hs & Hk).
    assert (Hin : In (h, k, d) (livel E E (ht_table E E t))) by (apply livel_In; eauto).
    apply (Permutation_in _ P) in Hin. apply in_map_ent in Hin. destruct Hin as (Hkl & -> & Hhk).
    exists k. split; [unfold ht_entry; rewrite Hs; reflexivity|].
    rewrite l_search_filter.
    rewrite (one_match (keq key) h l k U Hkl); [reflexivity|].
    unfold hmatch. rewrite Hhk, N.eqb_refl, Hk. reflexivity.
  - rewrite l_search_filter.
    assert (Hn : filter (hmatch (keq key) h) l = []).
    { apply filter_nil_iff. intros c Hc. unfold hmatch.
      destruct (N.eqb (hash_of c) h) eqn:Eh; [|reflexivity]. apply N.eqb_eq in Eh. cbn.
      assert (Hin : In (h, c, c) (livel E E (ht_table E E t))).
      { apply (Permutation_in _ (Permutation_sym P)). apply in_map_iff. exists c.
        split; [unfold ent; rewrite Eh; reflexivity|exact Hc]. }
      apply livel_In in Hin. destruct Hin as [p Hp]. exact (Hr p c c Hp). }
    rewrite Hn. reflexivity.
Qed.

(* ---- insert ---- *)
Theorem bridge_insert (keq : E -> E -> bool) l t nc :
  Rep l t -> (hash_of nc < two32)%N -> (N.of_nat (length l) < ht_safe_limit)%N ->
  at_most_one (keq nc) (hash_of nc) l ->
  exists t' a,
    ht_insert E E keq t (hash_of nc) nc nc = Ok (t', Some a) /\
    ht_entry E E t' a = Some (ent nc) /\
    Rep (l_insert (keq nc) nc l) t'.
Proof.
  intros R Hh Hlim U. pose proof (Rep_entries l t R) as He. destruct R as [W P].
  destruct (ht_insert_spec E E keq t (hash_of nc) nc nc W Hh) as (t' & a & Ei & W' & Hs & Hcase).
  { rewrite He. exact Hlim. }
  exists t', a. split; [exact Ei|]. split; [unfold ht_entry; rewrite Hs; reflexivity|].
  split; [exact W'|].
  destruct Hcase as [(k0 & d0 & rest & Hk & P0 & P1 & _)|(Hno & P1 & _)].
  - (* replaced *)
    assert (Hin : In (hash_of nc, k0, d0) (map ent l)).
    { apply (Permutation_in _ P). apply (Permutation_in _ (Permutation_sym P0)). left. reflexivity. }
    apply in_map_ent in Hin. destruct Hin as (Hkl & -> & Hhk).
    assert (Hm : hmatch (keq nc) (hash_of nc) k0 = true)
      by (unfold hmatch; rewrite Hhk, N.eqb_refl, Hk; reflexivity).
    pose proof (one_match _ _ _ _ U Hkl Hm) as Hf.
    destruct (l_insert_shape (keq nc) nc l) as [[H1 _]|(l1 & c0 & l2 & El & Hc0 & Eins)].
    { rewrite H1 in Hf. discriminate. }
    assert (c0 = k0).
    { assert (Hin0 : In c0 (filter (hmatch (keq nc) (hash_of nc)) l)).
      { apply filter_In. split; [subst l; apply in_or_app; right; left; reflexivity|exact Hc0]. }
      rewrite Hf in Hin0. destruct Hin0 as [<-|[]]. reflexivity. }
    subst c0. rewrite Eins. rewrite P1.
    assert (Prest : Permutation rest (map ent (l1 ++ l2))).
    { apply (Permutation_cons_inv (a := (hash_of nc, k0, k0))).
      rewrite <- P0, P, El, !map_app. cbn [map].
      replace (hash_of nc, k0, k0) with (ent k0) by (unfold ent; rewrite Hhk; reflexivity).
      symmetry. apply Permutation_middle. }
    rewrite Prest, !map_app. cbn [map]. apply Permutation_middle.
  - (* added *)
    destruct (l_insert_shape (keq nc) nc l) as [[_ Eins]|(l1 & c0 & l2 & El & Hc0 & _)].
    + rewrite Eins, P1, P, map_app. cbn [map]. unfold ent at 1.
      apply Permutation_cons_append.
    + exfalso. unfold hmatch in Hc0. apply andb_true_iff in Hc0. destruct Hc0 as [E1 E2].
      apply N.eqb_eq in E1.
      assert (Hin : In (hash_of nc, c0, c0) (livel E E (ht_table E E t))).
      { apply (Permutation_in _ (Permutation_sym P)). apply in_map_iff. exists c0.
        split; [unfold ent; rewrite E1; reflexivity|subst l; apply in_or_app; right; left; reflexivity]. }
      rewrite (Hno c0 c0 Hin) in E2. discriminate.
Qed.

(* the empty table represents the empty list *)
Lemma Rep_create : exists t, ht_create E E = Some t /\ Rep [] t.
Proof.
  destruct (ht_create_wf E E) as (t & Et & W & L). exists t. split; [exact Et|].
  split; [exact W|]. rewrite L. constructor.
Qed.

(* uniqueness from a key function that is injective on the list *)
Lemma at_most_one_of_key {Kt : Type} (key : E -> Kt) (m : E -> bool) h l (v : Kt) :
  NoDup (map key l) ->
  (forall c, In c l -> hmatch m h c = true -> key c = v) ->
  at_most_one m h l.
Proof.
  unfold at_most_one. induction l as [|c r IH]; cbn; intros ND Hv; [lia|].
  inversion ND as [|? ? Hnin ND']; subst.
  destruct (hmatch m h c) eqn:Ec.
  - assert (Hn : filter (hmatch m h) r = []).
    { apply filter_nil_iff. intros x Hx. destruct (hmatch m h x) eqn:Ex; [|reflexivity].
      exfalso. apply Hnin. rewrite (Hv c (or_introl eq_refl) Ec).
      rewrite <- (Hv x (or_intror Hx) Ex). apply in_map. exact Hx. }
    rewrite Hn. cbn. lia.
  - apply IH; [exact ND'|]. intros x Hx. apply Hv. right. exact Hx.
Qed.

End Bridge.

Arguments ent {E} hash_of c.
Arguments l_search {E} hash_of m h l.
Arguments l_insert {E} hash_of m nc l.
Arguments hmatch {E} hash_of m h c.
Arguments at_most_one {E} hash_of m h l.
Arguments Rep {E} hash_of l t.
