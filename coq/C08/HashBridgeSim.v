(* C08 x Util, part 4 -- the simulation: along every run of the block processor model the
   association list [p_ht] and the real table (Util/HashModel.v) answer alike.

   * [cb_value] / [cb_cache_irrelevant]: under C08's pipeline invariant PInv the callback's answer
     does not depend on the cached fragment block, is never an error, and is "yes" exactly for an
     entry denoting the same bytes;
   * [ht_search_pure] / [ht_insert_pure]: C08's stateful list functions are the pure
     [l_search] / [l_insert] of HashBridge.v plus a coherent cache;
   * [ckey], the NEW invariant [NoDup (map (ckey fbd) (p_ht st))]: the live entries are pairwise
     different as (checksum, bytes) -- C08's notes claimed it, PInv does not contain it; it is
     what makes the probing order irrelevant -- maintained by every step ([r_store_sim],
     [r_process_sim], [r_step_file_sim], [r_run_files_sim]);
   * the simulation itself: the real-table model run on the stripped state returns the stripped
     state of the list model and a well-formed table whose live entries are the list. *)
From Coq Require Import List NArith Arith Bool Lia Permutation.
From SqfsV Require Import C08.DedupModel C08.DedupLemmas C08.DedupWriterProofs
     C08.DedupReaderProofs C08.DedupPipeProofs.
From SqfsV Require Import Util.FastRem Util.HashRows Util.HashInv Util.HashContracts.
From SqfsV Require Util.HashModel.
From SqfsV Require Import C08.HashBridge C08.HashBridgeModel C08.HashBridgeFrame.
Import ListNotations.

Definition ckey (fbd : nat -> list N) (c : chunk) : N * list N :=
  (ck_hash c, slice (fbd (ck_index c)) (ck_offset c) (ck_size c)).

Definition ht_bounds (n : nat) (fbd : nat -> list N) (l : list chunk) : Prop :=
  forall c, In c l ->
    ck_index c < n /\ 0 < ck_size c /\ ck_offset c + ck_size c <= length (fbd (ck_index c)).

Lemma ckey_fext n fbd fbd' c :
  fext n fbd fbd' -> ck_index c < n -> ck_offset c + ck_size c <= length (fbd (ck_index c)) ->
  ckey fbd' c = ckey fbd c.
Proof.
  intros X Hi Hb. unfold ckey. destruct (X _ Hi) as [e ->]. rewrite slice_app_l by assumption.
  reflexivity.
Qed.

Lemma ckeys_fext n fbd fbd' l :
  fext n fbd fbd' -> ht_bounds n fbd l -> map (ckey fbd') l = map (ckey fbd) l.
Proof.
  intros X B. apply map_ext_in. intros c Hc. destruct (B c Hc) as (H1 & _ & H3).
  eapply ckey_fext; eassumption.
Qed.

Lemma same_bytes_ckey fbd h cur c : same_bytes fbd h cur c -> ckey fbd c = (h, cur).
Proof. intros (_ & H2 & H3). unfold ckey. rewrite H2, H3. reflexivity. Qed.

Lemma ckey_same_bytes fbd h cur c :
  ck_offset c + ck_size c <= length (fbd (ck_index c)) ->
  ckey fbd c = (h, cur) -> same_bytes fbd h cur c.
Proof.
  intros Hb E. unfold ckey in E. inversion E as [[E1 E2]]. unfold same_bytes.
  split; [|split; reflexivity]. rewrite <- (slice_length (fbd (ck_index c)) (ck_offset c) (ck_size c)) at 1
    by assumption. reflexivity.
Qed.

Section Sim.
Variable hashf : list N -> N.
Variable compress : list N -> option (list N).
Variable uncompress : list N -> nat -> option (list N).
Variable bs half base : nat.

Hypothesis Hcomp : forall b c, compress b = Some c ->
  length c < length b /\ forall n, length b <= n -> uncompress c n = Some b.
Hypothesis Hbs : 0 < bs.
Hypothesis Hsmall : small bs.
Hypothesis Hhalf : 0 < half.
Hypothesis Hh32 : forall d, (hashf d < two32)%N.

Variable files : list (uflags * list N).
Hypothesis Hlim : (N.of_nat (length files) <= ht_safe_limit)%N.

Notation PInv' := (PInv hashf compress uncompress bs base files).
Notation cok := (cached_ok uncompress bs).
Notation cb' := (cb uncompress bs true).
Notation keq' := (keq_of uncompress bs true).
Notation job' := (job bs files).

Lemma cok_none st claims fbd : cok st claims fbd None.
Proof. intros i d E. discriminate. Qed.

(* ---- the callback under the invariant ---- *)
Lemma cb_value st q claims fbd nb nt ca cur key c :
  PInv' st q claims fbd nb nt -> cok st claims fbd ca -> In c (p_ht st) ->
  ck_size key = length cur ->
  fst (chunk_equals uncompress bs true st ca (ck_size key) (ck_hash key) cur c) = cb' st cur key c /\
  cok st claims fbd (snd (chunk_equals uncompress bs true st ca (ck_size key) (ck_hash key) cur c)) /\
  cb' st cur key c <> EqErr /\
  (cb' st cur key c = EqYes <-> same_bytes fbd (ck_hash key) cur c).
Proof.
  intros HP Hca Hin Hsz. unfold cb. rewrite Hsz.
  destruct (chunk_equals_ok hashf compress uncompress bs half base Hbs Hsmall Hhalf files
              st q claims fbd nb nt ca (ck_hash key) cur c HP Hca Hin)
    as (r1 & ca1 & E1 & C1 & N1 & Y1).
  destruct (chunk_equals_ok hashf compress uncompress bs half base Hbs Hsmall Hhalf files
              st q claims fbd nb nt None (ck_hash key) cur c HP (cok_none _ _ _) Hin)
    as (r2 & ca2 & E2 & C2 & N2 & Y2).
  rewrite E1, E2. cbn [fst snd]. unfold same_bytes.
  split; [|split; [exact C1|split; [exact N2|exact Y2]]].
  destruct r1; destruct r2; try reflexivity; try contradiction; exfalso.
  - assert (H : EqNo = EqYes) by (apply Y2, Y1; reflexivity). discriminate.
  - assert (H : EqNo = EqYes) by (apply Y1, Y2; reflexivity). discriminate.
Qed.

(* the answer is the same for every coherent content of cached_frag_blk *)
Lemma cb_cache_irrelevant st q claims fbd nb nt ca cur key c :
  PInv' st q claims fbd nb nt -> cok st claims fbd ca -> In c (p_ht st) ->
  ck_size key = length cur ->
  fst (chunk_equals uncompress bs true st ca (ck_size key) (ck_hash key) cur c) = cb' st cur key c.
Proof. intros HP Hca Hin Hsz. apply (cb_value st q claims fbd nb nt ca cur key c HP Hca Hin Hsz). Qed.

Lemma keq_same_bytes st q claims fbd nb nt cur key c :
  PInv' st q claims fbd nb nt -> In c (p_ht st) -> ck_size key = length cur ->
  (keq' st cur key c = true <-> same_bytes fbd (ck_hash key) cur c).
Proof.
  intros HP Hin Hsz.
  destruct (cb_value st q claims fbd nb nt None cur key c HP (cok_none _ _ _) Hin Hsz) as (_ & _ & Hn & Hy).
  unfold keq_of. rewrite <- Hy. destruct (cb' st cur key c); split; try discriminate; try reflexivity;
    try contradiction.
Qed.

(* ---- C08's list functions = the pure ones + a coherent cache ---- *)
Lemma ht_search_pure st q claims fbd nb nt khash cur : forall l ca,
  PInv' st q claims fbd nb nt -> cok st claims fbd ca -> incl l (p_ht st) ->
  exists ca', cok st claims fbd ca' /\
    DedupModel.ht_search uncompress bs true st ca (length cur) khash cur l =
    match l_search ck_hash (keq' st cur (skey (length cur) khash)) khash l with
    | Some c => SFound c ca'
    | None => SNone ca'
    end.
Proof.
  induction l as [|c l IH]; intros ca HP Hca Hl; cbn [DedupModel.ht_search l_search].
  - exists ca. split; [assumption|reflexivity].
  - assert (Hin : In c (p_ht st)) by (apply Hl; left; reflexivity).
    assert (Hl' : incl l (p_ht st)) by (intros x Hx; apply Hl; right; assumption).
    unfold hmatch. destruct (ck_hash c =? khash)%N eqn:Eh; cbn [andb].
    + destruct (cb_value st q claims fbd nb nt ca cur (skey (length cur) khash) c HP Hca Hin eq_refl)
        as (V1 & V2 & V3 & _).
      cbn [skey ck_size ck_hash] in V1, V2. unfold keq_of. rewrite <- V1.
      destruct (chunk_equals uncompress bs true st ca (length cur) khash cur c) as [r ca1] eqn:Ec.
      cbn [fst snd] in *. destruct r.
      * exists ca1. split; [assumption|reflexivity].
      * apply IH; assumption.
      * exfalso. apply V3. rewrite <- V1. reflexivity.
    + apply IH; assumption.
Qed.

Lemma ht_insert_pure st q claims fbd nb nt nc cur : forall l ca,
  PInv' st q claims fbd nb nt -> cok st claims fbd ca -> incl l (p_ht st) ->
  ck_size nc = length cur ->
  exists ca', cok st claims fbd ca' /\
    DedupModel.ht_insert uncompress bs true st ca nc cur l =
    Some (l_insert ck_hash (keq' st cur nc) nc l, ca').
Proof.
  induction l as [|c l IH]; intros ca HP Hca Hl Hsz; cbn [DedupModel.ht_insert l_insert].
  - exists ca. split; [assumption|reflexivity].
  - assert (Hin : In c (p_ht st)) by (apply Hl; left; reflexivity).
    assert (Hl' : incl l (p_ht st)) by (intros x Hx; apply Hl; right; assumption).
    unfold hmatch. destruct (ck_hash c =? ck_hash nc)%N eqn:Eh; cbn [andb].
    + destruct (cb_value st q claims fbd nb nt ca cur nc c HP Hca Hin Hsz) as (V1 & V2 & V3 & _).
      unfold keq_of. rewrite <- V1.
      destruct (chunk_equals uncompress bs true st ca (ck_size nc) (ck_hash nc) cur c) as [r ca1] eqn:Ec.
      cbn [fst snd] in *. destruct r.
      * exists ca1. split; [assumption|reflexivity].
      * destruct (IH ca1 HP V2 Hl' Hsz) as (ca' & C' & E'). rewrite E'.
        exists ca'. split; [assumption|reflexivity].
      * exfalso. apply V3. rewrite <- V1. reflexivity.
    + destruct (IH ca HP Hca Hl' Hsz) as (ca' & C' & E'). rewrite E'.
      exists ca'. split; [assumption|reflexivity].
Qed.

(* ---- pairwise different entries => at most one answers a search ---- *)
Lemma uniq_amo st q claims fbd nb nt cur key :
  PInv' st q claims fbd nb nt -> ck_size key = length cur ->
  NoDup (map (ckey fbd) (p_ht st)) ->
  at_most_one ck_hash (keq' st cur key) (ck_hash key) (p_ht st).
Proof.
  intros HP Hsz ND.
  apply (at_most_one_of_key chunk ck_hash (ckey fbd) _ _ _ (ck_hash key, cur) ND).
  intros c Hc Hm. unfold hmatch in Hm. apply andb_true_iff in Hm. destruct Hm as [_ Hm].
  apply same_bytes_ckey. apply (keq_same_bytes st q claims fbd nb nt cur key c HP Hc Hsz). exact Hm.
Qed.

Lemma cb_errs_false st q claims fbd nb nt cur key t :
  PInv' st q claims fbd nb nt -> ck_size key = length cur ->
  Rep ck_hash (p_ht st) t ->
  cb_errs uncompress bs true st cur key t = false.
Proof.
  intros HP Hsz [W P]. unfold cb_errs.
  destruct (existsb _ (HashModel.live chunk chunk t)) eqn:Ex; [|reflexivity]. exfalso.
  apply existsb_exists in Ex. destruct Ex as ([[h k] d] & Hin & Hx). cbn [fst snd] in Hx.
  rewrite live_livel in Hin. apply (Permutation_in _ P) in Hin.
  apply in_map_ent in Hin. destruct Hin as (Hk & _ & _).
  apply andb_true_iff in Hx. destruct Hx as [_ Hx].
  destruct (cb_value st q claims fbd nb nt None cur key k HP (cok_none _ _ _) Hk Hsz) as (_ & _ & Hn & _).
  destruct (cb' st cur key k); try discriminate. apply Hn. reflexivity.
Qed.

(* ---- process_completed_fragment, step by step ---- *)

(* the first two steps of store_fragment (proof: the corresponding part of DedupPipeProofs.store_inv,
   which does not export the intermediate state) *)
Lemma place_inv st claims fbd n t :
  PInv' st (p_ioq st) claims fbd (S n) n -> j_tail (job' n) = Some t ->
  exists st2 index offset fbd',
    place_fragment hashf compress bs true st (j_fl (job' n)) t = (st2, index, offset) /\
    PInv' st2 (p_ioq st2) claims fbd' (S n) n /\
    index < p_nfrag st2 /\ offset + length t <= length (fbd' index) /\
    slice (fbd' index) offset (length t) = t /\
    fext (p_nfrag st) fbd fbd' /\ p_nfrag st <= p_nfrag st2 /\
    p_ht st2 = p_ht st /\ p_cached st2 = p_cached st.
Proof.
  intros HP Ht.
  pose proof (tail_facts bs half Hbs Hhalf files _ _ Ht) as Htl.
  unfold place_fragment.
  set (st1 := match p_fragblk st with
              | Some fb => if bs <? length (fb_data fb) + length t
                           then enqueue_fragblk hashf compress true st fb else st
              | None => st end).
  assert (H1 : PInv' st1 (p_ioq st1) claims fbd (S n) n /\ p_nfrag st1 = p_nfrag st /\
               p_ht st1 = p_ht st /\ p_cached st1 = p_cached st /\
               (p_fragblk st1 = None \/
                exists fb, p_fragblk st1 = Some fb /\ length (fb_data fb) + length t <= bs)).
  { unfold st1. destruct (p_fragblk st) as [fb|] eqn:Efb.
    - destruct (bs <? length (fb_data fb) + length t) eqn:Eo.
      + destruct (enqueue_inv hashf compress uncompress bs base files _ _ _ _ _ fb HP Efb) as (Q1 & Q2 & Q3).
        split; [exact Q1|]. split; [|split; [reflexivity|split; [reflexivity|left; exact Q2]]].
        destruct Q3 as (_ & (A1 & _) & _). simpl in A1. exact A1.
      + apply Nat.ltb_ge in Eo. split; [exact HP|]. split; [reflexivity|].
        split; [reflexivity|]. split; [reflexivity|].
        right. exists fb. split; assumption.
    - split; [exact HP|]. split; [reflexivity|]. split; [reflexivity|]. split; [reflexivity|].
      left. exact Efb. }
  clearbody st1. destruct H1 as (HP1 & En1 & Eh1 & Ec1 & Hfb1).
  pose proof HP1 as [P1 P2 P3 P4 P5 P6 P7 P8 P9 P10 P11 P12 P13].
  destruct Hfb1 as [Efb|(fb & Efb & Hfit)]; rewrite Efb.
  - (* a new fragment block *)
    set (i := p_nfrag st1).
    set (fb' := {| fb_index := i; fb_data := t;
                   fb_dont_compress := uf_dont_compress (j_fl (job' n)) |}).
    exists (set_fragblk (append_ftab st1) (Some fb')), i, 0, (upd fbd i t).
    split; [reflexivity|].
    assert (Hu : upd fbd i t i = t) by (unfold upd; rewrite Nat.eqb_refl; reflexivity).
    split.
    { apply (PInv_place hashf compress uncompress bs half base Hbs Hsmall Hhalf files
                        st1 (set_fragblk (append_ftab st1) (Some fb')) (p_ioq st1) claims
                        fbd (upd fbd i t) (S n) n i fb' HP1);
        [reflexivity|reflexivity|reflexivity|reflexivity|reflexivity|reflexivity|reflexivity
        | | |reflexivity|reflexivity| | | | | | ].
      - simpl. lia.
      - intros j Hj. simpl. destruct (j =? p_nfrag st1) eqn:E; [apply Nat.eqb_eq in E; lia|reflexivity].
      - simpl. unfold i. lia.
      - simpl. unfold i. rewrite Nat.eqb_refl. reflexivity.
      - exact Hu.
      - simpl. unfold fragdata_ok. lia.
      - intros j Hj. unfold upd. destruct (j =? i) eqn:E; [apply Nat.eqb_eq in E; contradiction|reflexivity].
      - right. splits; [assumption|reflexivity|reflexivity]. }
    split; [simpl; unfold i; lia|].
    rewrite Hu. split; [simpl; lia|]. split; [apply slice_all|]. split; [|split; [simpl; lia|]].
    + intros j Hj. exists []. unfold upd.
      destruct (j =? i) eqn:E; [apply Nat.eqb_eq in E; unfold i in E; lia|].
      rewrite app_nil_r. reflexivity.
    + split; assumption.
  - (* appended to the block being filled *)
    destruct (P5 fb Efb) as (C1 & C2 & C3 & C4 & C5).
    set (c := fb_index fb).
    set (fb' := {| fb_index := c; fb_data := fb_data fb ++ t;
                   fb_dont_compress := fb_dont_compress fb || uf_dont_compress (j_fl (job' n)) |}).
    exists (set_fragblk st1 (Some fb')), c, (length (fb_data fb)), (upd fbd c (fb_data fb ++ t)).
    split; [reflexivity|].
    assert (Hu : upd fbd c (fb_data fb ++ t) c = fb_data fb ++ t)
      by (unfold upd; rewrite Nat.eqb_refl; reflexivity).
    split.
    { apply (PInv_place hashf compress uncompress bs half base Hbs Hsmall Hhalf files
                        st1 (set_fragblk st1 (Some fb')) (p_ioq st1) claims
                        fbd (upd fbd c (fb_data fb ++ t)) (S n) n c fb' HP1);
        [reflexivity|reflexivity|reflexivity|reflexivity|reflexivity|reflexivity|reflexivity
        | | |reflexivity|reflexivity| | | | | | ].
      - simpl. lia.
      - intros j Hj. reflexivity.
      - simpl. assumption.
      - simpl. assumption.
      - exact Hu.
      - simpl. unfold fragdata_ok. rewrite app_length. destruct C4. lia.
      - intros j Hj. unfold upd. destruct (j =? c) eqn:E; [apply Nat.eqb_eq in E; contradiction|reflexivity].
      - left. splits; [exists fb; split; [assumption|reflexivity]|reflexivity|].
        exists t. rewrite Hu. fold c in C3. rewrite C3. reflexivity. }
    split; [simpl; assumption|].
    rewrite Hu. split; [rewrite app_length; lia|]. split; [apply slice_app_mid'|].
    split; [|split; [simpl; lia|split; assumption]].
    intros j Hj. unfold upd. destruct (j =? c) eqn:E.
    + apply Nat.eqb_eq in E. subst j. exists t. fold c in C3. rewrite C3. reflexivity.
    + exists []. rewrite app_nil_r. reflexivity.
Qed.

Lemma store_fragment_unfold st fid fl d chk :
  store_fragment hashf compress uncompress bs true st fid fl d chk =
  let '(st2, index, offset) := place_fragment hashf compress bs true st fl d in
  let nc := {| ck_index := index; ck_offset := offset; ck_size := length d; ck_hash := chk |} in
  match DedupModel.ht_insert uncompress bs true st2 (p_cached st2) nc d (p_ht st2) with
  | None => Err
  | Some (h, ca) => Ok (set_frag (set_cached (set_ht st2 h) ca) fid index offset)
  end.
Proof. reflexivity. Qed.

Lemma nodup_l_insert fbd' m nc l v :
  NoDup (map (ckey fbd') l) -> ckey fbd' nc = v ->
  (forall c, In c l -> (hmatch ck_hash m (ck_hash nc) c = true <-> ckey fbd' c = v)) ->
  NoDup (map (ckey fbd') (l_insert ck_hash m nc l)).
Proof.
  intros ND Hv Hiff.
  destruct (l_insert_shape chunk ck_hash m nc l) as [[Hf Ei]|(l1 & c0 & l2 & El & Hc0 & Ei)]; rewrite Ei.
  - rewrite map_app. cbn [map]. rewrite Hv. apply NoDup_snoc; [exact ND|].
    intro Hin. apply in_map_iff in Hin. destruct Hin as (c & Ec & Hc).
    apply (Hiff c Hc) in Ec. rewrite (proj1 (filter_nil_iff _ _) Hf c Hc) in Ec. discriminate.
  - assert (E0 : ckey fbd' c0 = v).
    { apply Hiff; [subst l; apply in_or_app; right; left; reflexivity|exact Hc0]. }
    rewrite map_app. cbn [map]. rewrite Hv, <- E0.
    rewrite El, map_app in ND. exact ND.
Qed.

Lemma r_store_sim st t claims fbd n tl chk :
  PInv' st (p_ioq st) claims fbd (S n) n ->
  NoDup (map (ckey fbd) (p_ht st)) -> Rep ck_hash (p_ht st) t ->
  length (p_ht st) <= n -> n < length files ->
  j_tail (job' n) = Some tl -> tail_sparse bs files n tl = false -> (chk < two32)%N ->
  exists st' fbd' t',
    store_fragment hashf compress uncompress bs true st n (j_fl (job' n)) tl chk = Ok st' /\
    r_store_fragment hashf compress uncompress bs true (strip st) t n (j_fl (job' n)) tl chk
      = ROk (strip st', t') /\
    PInv' st' (p_ioq st') claims fbd' (S n) (S n) /\
    NoDup (map (ckey fbd') (p_ht st')) /\ Rep ck_hash (p_ht st') t' /\ length (p_ht st') <= S n.
Proof.
  intros HP ND R Hlen Hn Ht Hts Hchk.
  destruct (place_inv st claims fbd n tl HP Ht)
    as (st2 & index & offset & fbd' & Epl & HP2 & Hi & Hb & Hs & Hext & Hn2 & Eh2 & Ec2).
  rewrite store_fragment_unfold, Epl. cbv beta iota zeta.
  unfold r_store_fragment. rewrite strip_is_with_hc, place_fragment_hc, Epl. cbv beta iota zeta.
  set (nc := {| ck_index := index; ck_offset := offset; ck_size := length tl; ck_hash := chk |}).
  pose proof HP2 as [Q1 Q2 Q3 Q4 Q5 Q6 Q7 Q8 Q9 Q10 Q11 Q12 Q13].
  pose proof HP as [P1 P2 P3 P4 P5 P6 P7 P8 P9 P10 P11 P12 P13].
  destruct (ht_insert_pure st2 (p_ioq st2) claims fbd' (S n) n nc tl (p_ht st2) (p_cached st2)
              HP2 Q9 (incl_refl _) eq_refl) as (ca' & Hca' & Ei).
  rewrite Ei.
  assert (R2 : Rep ck_hash (p_ht st2) t) by (rewrite Eh2; exact R).
  assert (ND2 : NoDup (map (ckey fbd') (p_ht st2))).
  { rewrite Eh2, (ckeys_fext (p_nfrag st) fbd fbd' (p_ht st) Hext P10). exact ND. }
  change (cb_errs uncompress bs true (with_hc st2 [] None) tl nc t)
    with (cb_errs uncompress bs true st2 tl nc t).
  rewrite (cb_errs_false st2 (p_ioq st2) claims fbd' (S n) n tl nc t HP2 eq_refl R2).
  change (keq_of uncompress bs true (with_hc st2 [] None) tl) with (keq' st2 tl).
  pose proof (uniq_amo st2 (p_ioq st2) claims fbd' (S n) n tl nc HP2 eq_refl ND2) as U.
  destruct (bridge_insert chunk ck_hash (keq' st2 tl) (p_ht st2) t nc R2 Hchk) as (t' & a & Eins & _ & R').
  { rewrite Eh2. lia. }
  { exact U. }
  change (ck_hash nc) with chk in Eins. rewrite Eins.
  exists (set_frag (set_cached (set_ht st2 (l_insert ck_hash (keq' st2 tl nc) nc (p_ht st2))) ca') n index offset),
         fbd', t'.
  split; [reflexivity|]. split; [reflexivity|].
  assert (Hnc : ckey fbd' nc = (chk, tl)) by (unfold ckey; cbn [nc ck_hash ck_index ck_offset ck_size]; rewrite Hs; reflexivity).
  split; [|split; [|split]].
  - cbn [p_ioq set_frag set_cached set_ht].
    eapply (PInv_set_frag hashf compress uncompress bs half base Hbs Hhalf files st2 _ _ _ _ n tl index offset HP2);
      try reflexivity; try assumption.
    intros c Hc. cbn [p_ht set_frag set_cached set_ht] in Hc.
    destruct (l_insert_in chunk ck_hash _ _ _ _ Hc) as [H|H].
    + apply Q10. assumption.
    + subst c. cbn [nc ck_index ck_size ck_offset].
      pose proof (tail_facts bs half Hbs Hhalf files _ _ Ht). splits; [assumption|lia|assumption].
  - cbn [p_ht set_frag set_cached set_ht].
    apply (nodup_l_insert fbd' _ nc (p_ht st2) (chk, tl) ND2 Hnc).
    intros c Hc. destruct (Q10 c Hc) as (B1 & B2 & B3). unfold hmatch. change (ck_hash nc) with chk. split.
    + intro Hm. apply andb_true_iff in Hm. destruct Hm as [_ Hm].
      apply (same_bytes_ckey fbd' chk tl c).
      apply (keq_same_bytes st2 (p_ioq st2) claims fbd' (S n) n tl nc c HP2 Hc eq_refl). exact Hm.
    + intro Ek. pose proof (ckey_same_bytes fbd' chk tl c B3 Ek) as SB.
      apply andb_true_iff. split.
      * destruct SB as (_ & SB2 & _). rewrite SB2. apply N.eqb_refl.
      * apply (keq_same_bytes st2 (p_ioq st2) claims fbd' (S n) n tl nc c HP2 Hc eq_refl). exact SB.
  - exact R'.
  - cbn [p_ht set_frag set_cached set_ht].
    pose proof (l_insert_length chunk ck_hash (keq' st2 tl nc) nc (p_ht st2)). rewrite Eh2 in *. lia.
Qed.

(* the invariant of the simulation *)
Definition BInv (st : proc) (t : tab) (n : nat) (claims : list (nat * list N)) (fbd : nat -> list N) : Prop :=
  PInv' st (p_ioq st) claims fbd n n /\
  NoDup (map (ckey fbd) (p_ht st)) /\ Rep ck_hash (p_ht st) t /\ length (p_ht st) <= n.

Lemma r_process_sim st t claims fbd n tl :
  PInv' st (p_ioq st) claims fbd (S n) n ->
  NoDup (map (ckey fbd) (p_ht st)) -> Rep ck_hash (p_ht st) t ->
  length (p_ht st) <= n -> n < length files ->
  j_tail (job' n) = Some tl ->
  exists st' fbd' t',
    process_fragment hashf compress uncompress bs true st n
                     (length (j_blocks (job' n)) - 1) (j_fl (job' n)) tl = Ok st' /\
    r_process_fragment hashf compress uncompress bs true (strip st) t n
                     (length (j_blocks (job' n)) - 1) (j_fl (job' n)) tl = ROk (strip st', t') /\
    BInv st' t' (S n) claims fbd'.
Proof.
  intros HP ND R Hlen Hn Ht. pose proof (tail_facts bs half Hbs Hhalf files _ _ Ht) as Htl.
  assert (Htne : tl <> []) by (intro; subst; simpl in Htl; lia).
  pose proof HP as [P1 P2 P3 P4 P5 P6 P7 P8 P9 P10 P11 P12 P13].
  unfold process_fragment, r_process_fragment.
  rewrite work_sparse_iff by assumption.
  change (negb (uf_ignore_sparse (j_fl (job' n))) && all_zero tl) with (tail_sparse bs files n tl).
  destruct (tail_sparse bs files n tl) eqn:Hts.
  - exists (set_size st n (length (j_blocks (job' n)) - 1) 0%N), fbd, t.
    split; [reflexivity|]. split; [reflexivity|].
    split; [|split; [exact ND|split; [exact R|cbn [p_ht set_size]; lia]]].
    apply (PInv_sparse_tail hashf compress uncompress bs half base Hbs Hhalf files st _ _ _ n tl); assumption.
  - rewrite (work_frag_raw hashf compress) by assumption. cbn [pb_chk].
    set (chk := if uf_dont_hash (j_fl (job' n)) then 0%N else hashf tl).
    assert (Hchk : (chk < two32)%N).
    { unfold chk. destruct (uf_dont_hash (j_fl (job' n))); [rewrite two32_val; lia|apply Hh32]. }
    destruct (uf_dont_dedup (j_fl (job' n))).
    + destruct (r_store_sim st t claims fbd n tl chk HP ND R Hlen Hn Ht Hts Hchk)
        as (st' & fbd' & t' & E1 & E2 & HP' & ND' & R' & L').
      exists st', fbd', t'. split; [exact E1|]. split; [exact E2|].
      split; [exact HP'|split; [exact ND'|split; [exact R'|exact L']]].
    + destruct (ht_search_pure st (p_ioq st) claims fbd (S n) n chk tl (p_ht st) (p_cached st)
                  HP P9 (incl_refl _)) as (ca' & Hca' & Es).
      rewrite Es.
      set (key := skey (length tl) chk).
      change (cb_errs uncompress bs true (strip st) tl key t) with (cb_errs uncompress bs true st tl key t).
      rewrite (cb_errs_false st (p_ioq st) claims fbd (S n) n tl key t HP eq_refl R).
      change (keq_of uncompress bs true (strip st) tl) with (keq' st tl).
      pose proof (uniq_amo st (p_ioq st) claims fbd (S n) n tl key HP eq_refl ND) as U.
      change (ck_hash key) with chk in U.
      destruct (bridge_search chunk ck_hash (keq' st tl) (p_ht st) t chk key R Hchk U) as (r & Er & Hr).
      rewrite Er. destruct r as [a|].
      * destruct Hr as (c & Ea & Ec). rewrite Ea, Ec.
        destruct (l_search_some chunk ck_hash _ _ _ _ Ec) as [Hin Hm].
        unfold hmatch in Hm. apply andb_true_iff in Hm. destruct Hm as [_ Hm].
        apply (keq_same_bytes st (p_ioq st) claims fbd (S n) n tl key c HP Hin eq_refl) in Hm.
        destruct Hm as (B1 & B2 & B3). destruct (P10 c Hin) as (H1 & H2 & H3).
        exists (set_frag (set_cached st ca') n (ck_index c) (ck_offset c)), fbd, t.
        split; [reflexivity|]. split; [reflexivity|].
        split; [|split; [exact ND|split; [exact R|cbn [p_ht set_frag set_cached]; lia]]].
        cbn [p_ioq set_frag set_cached].
        eapply (PInv_set_frag hashf compress uncompress bs half base Hbs Hhalf files st _ _ _ _ n tl
                  (ck_index c) (ck_offset c) HP); try reflexivity; try assumption.
        -- rewrite <- B1. assumption.
        -- rewrite <- B1. assumption.
      * rewrite Hr.
        destruct (r_store_sim (set_cached st ca') t claims fbd n tl chk)
          as (st' & fbd' & t' & E1 & E2 & HP' & ND' & R' & L'); try assumption.
        { apply (PInv_set_cached hashf compress uncompress bs base files); assumption. }
        exists st', fbd', t'. split; [exact E1|]. split; [exact E2|].
      split; [exact HP'|split; [exact ND'|split; [exact R'|exact L']]].
Qed.

Lemma step_file_unfold st fid j :
  step_file hashf compress uncompress bs false true half st fid j =
  match drain false half st with
  | Err => Err
  | Fuel => Fuel
  | Ok st1 =>
    match drain false half (push_file hashf compress st1 fid j) with
    | Err => Err
    | Fuel => Fuel
    | Ok st3 =>
      match j_tail j with
      | None => Ok st3
      | Some t => process_fragment hashf compress uncompress bs true st3 fid (length (j_blocks j) - 1) (j_fl j) t
      end
    end
  end.
Proof. reflexivity. Qed.

Lemma r_step_file_sim st t claims fbd n :
  BInv st t n claims fbd -> n < length files ->
  exists st' claims' fbd' t',
    step_file hashf compress uncompress bs false true half st n (job' n) = Ok st' /\
    r_step_file hashf compress uncompress bs false true half (strip st) t n (job' n) = ROk (strip st', t') /\
    BInv st' t' (S n) claims' fbd'.
Proof.
  intros (HP & ND & R & Hlen) Hn.
  rewrite step_file_unfold. unfold r_step_file. rewrite strip_is_with_hc, drain_hc.
  destruct (drain_q_inv hashf compress uncompress bs half base Hcomp Hbs Hsmall Hhalf files
              fbd n n _ _ _ HP) as (st1 & claims1 & E1 & HP1 & I1 & F1 & _ & Eh1 & _).
  change (drain_q false half (p_ioq st) st) with (drain false half st) in E1.
  rewrite E1. cbn [mapr]. rewrite push_file_hc, drain_hc.
  destruct (push_inv hashf compress uncompress bs half base Hbs Hhalf files st1 claims1 fbd n HP1) as [HP2 F2].
  cbv zeta in HP2, F2. fold (push_file hashf compress st1 n (job' n)) in HP2, F2.
  assert (Eh2 : p_ht (push_file hashf compress st1 n (job' n)) = p_ht st1)
    by (unfold push_file; destruct (j_blocks (job' n)); reflexivity).
  set (st2 := push_file hashf compress st1 n (job' n)) in *.
  destruct (drain_q_inv hashf compress uncompress bs half base Hcomp Hbs Hsmall Hhalf files
              fbd (S n) n _ _ _ HP2) as (st3 & claims3 & E3 & HP3 & I3 & F3 & _ & Eh3 & _).
  change (drain_q false half (p_ioq st2) st2) with (drain false half st2) in E3.
  rewrite E3. cbn [mapr].
  assert (Eh : p_ht st3 = p_ht st) by congruence.
  destruct (j_tail (job' n)) as [tl|] eqn:Et.
  - destruct (r_process_sim st3 t claims3 fbd n tl HP3) as (st' & fbd' & t' & Ea & Eb & B');
      try assumption; try (rewrite Eh; assumption).
    exists st', claims3, fbd', t'. split; [exact Ea|]. split; [exact Eb|exact B'].
  - exists st3, claims3, fbd, t. split; [reflexivity|]. split; [reflexivity|].
    split; [|rewrite Eh; split; [exact ND|split; [exact R|lia]]].
    apply (PInv_no_tail hashf compress uncompress bs half base Hbs Hhalf files); assumption.
Qed.

Lemma fragdone_n_keeps k st st' :
  fragdone_n false half k st = Ok st' -> p_ht st' = p_ht st /\ p_cached st' = p_cached st.
Proof. apply (frame_keeps (fragdone_n false half k)). intros h c s. apply fragdone_n_hc. Qed.

Lemma finish_keeps st st' :
  finish hashf compress false true half st = Ok st' -> p_ht st' = p_ht st /\ p_cached st' = p_cached st.
Proof. apply (frame_keeps (finish hashf compress false true half)). intros h c s. apply finish_hc. Qed.

Lemma r_run_files_sim : forall rest sched n st t claims fbd,
  (exists m, rest = firstn m (skipn n (jobs bs files))) ->
  BInv st t n claims fbd ->
  exists st' claims' fbd' t',
    run_files hashf compress uncompress bs false true half rest sched n st = Ok st' /\
    r_run_files hashf compress uncompress bs false true half rest sched n (strip st) t = ROk (strip st', t') /\
    BInv st' t' (n + length rest) claims' fbd'.
Proof.
  induction rest as [|j rest IH]; intros sched n st t claims fbd [m Hr] HB.
  - exists st, claims, fbd, t. split; [reflexivity|]. split; [reflexivity|].
    simpl. rewrite Nat.add_0_r. exact HB.
  - destruct m as [|m]; [discriminate|].
    destruct (skipn n (jobs bs files)) as [|j0 tl0] eqn:Es; [discriminate|].
    simpl in Hr. injection Hr as Hj0 Hrest. subst j0.
    destruct (skipn_nth_cons (jobs bs files) n j tl0 dflt_job Es) as [Hj Hr'].
    assert (Hn : n < length files).
    { assert (n < length (jobs bs files)).
      { destruct (Nat.lt_ge_cases n (length (jobs bs files))) as [H|H]; [exact H|].
        rewrite skipn_all2 in Es by exact H. discriminate. }
      unfold jobs in H. rewrite map_length in H. exact H. }
    change (nth n (jobs bs files) dflt_job) with (job' n) in Hj. subst j.
    cbn [run_files r_run_files].
    destruct HB as (HP & ND & R & Hlen).
    destruct (fragdone_n_inv hashf compress uncompress bs half base Hcomp Hbs Hsmall Hhalf files
                n (hd 0 sched) st claims fbd HP) as (st1 & claims1 & E1 & HP1 & I1 & F1).
    rewrite strip_is_with_hc, fragdone_n_hc, E1. cbn [mapr].
    destruct (fragdone_n_keeps _ _ _ E1) as [Eh1 _].
    destruct (r_step_file_sim st1 t claims1 fbd n) as (st2 & claims2 & fbd2 & t2 & E2 & E2r & HB2).
    { split; [exact HP1|]. rewrite Eh1. split; [exact ND|split; [exact R|exact Hlen]]. }
    { exact Hn. }
    rewrite E2. rewrite <- strip_is_with_hc, E2r.
    destruct (IH (tl sched) (S n) st2 t2 claims2 fbd2) as (st' & claims' & fbd' & t' & E' & Er' & HB');
      [exists m; rewrite Hr'; exact Hrest|exact HB2|].
    exists st', claims', fbd', t'. split; [exact E'|]. split; [exact Er'|].
    replace (n + length (job' n :: rest)) with (S n + length rest) by (simpl; lia). exact HB'.
Qed.

Lemma init_BInv file0 t0 : base = length file0 -> HashModel.ht_create chunk chunk = Some t0 ->
  BInv (init_proc file0) t0 0 [(0, file0)] (fun _ => []).
Proof.
  intros Hb Ec. split; [|split; [constructor|split; [|simpl; lia]]].
  - apply (init_inv hashf compress uncompress bs half base Hbs Hhalf files). exact Hb.
  - destruct (Rep_create chunk ck_hash) as (t1 & E1 & R1). rewrite Ec in E1. inversion E1. exact R1.
Qed.

(* the whole run *)
Lemma r_pack_sim file0 sched : base = length file0 ->
  exists st t claims fbd,
    pack hashf compress uncompress bs false true half file0 files sched = Ok st /\
    r_pack hashf compress uncompress bs false true half file0 files sched = ROk (strip st, t) /\
    PInv' st [] claims fbd (length files) (length files) /\
    NoDup (map (ckey fbd) (p_ht st)) /\ Rep ck_hash (p_ht st) t /\ length (p_ht st) <= length files.
Proof.
  intro Hb. unfold pack, r_pack.
  destruct (Rep_create chunk ck_hash) as (t0 & Ec & _). rewrite Ec.
  change (map (fun f => file_job bs (fst f) (snd f)) files) with (jobs bs files).
  destruct (r_run_files_sim (jobs bs files) sched 0 (init_proc file0) t0 [(0, file0)] (fun _ => []))
    as (st1 & claims1 & fbd1 & t1 & E1 & E1r & (HP1 & ND1 & R1 & L1)).
  { exists (length (jobs bs files)). simpl. symmetry. apply firstn_all. }
  { apply init_BInv; assumption. }
  rewrite E1, E1r.
  assert (Hl : 0 + length (jobs bs files) = length files) by (unfold jobs; rewrite map_length; reflexivity).
  rewrite Hl in HP1, L1.
  destruct (finish_inv hashf compress uncompress bs half base Hcomp Hbs Hsmall Hhalf files
              st1 claims1 fbd1 (length files) HP1) as (st2 & claims2 & E2 & HP2 & _).
  rewrite strip_is_with_hc, finish_hc, E2. cbn [mapr lift].
  destruct (finish_keeps _ _ E2) as [Eh2 _].
  exists st2, t1, claims2, fbd1. split; [reflexivity|]. split; [reflexivity|].
  split; [exact HP2|]. rewrite Eh2. split; [exact ND1|split; [exact R1|exact L1]].
Qed.

End Sim.
