(* C08 — lib/sqfs/src/frag_table.c as an OBJECT with state: sqfs_frag_table_create / _read / _write / _lookup /
   _append / _set / _get_size.  Definitions only (extracted).

   C                                                   model
   struct sqfs_frag_table_t { base; array_t table; }   [ftobj] = Util.ArrayModel.arr of 16-byte elements: size / count /
                                                         used and the [used] elements, each the 16 bytes of a
                                                         sqfs_fragment_t in memory (= on disk: the entries are stored
                                                         little endian and converted on lookup / append)
   array_cleanup(&tbl->table); table.size = 16          [ft_reset]: the FIRST statement of sqfs_frag_table_read
   the early "return 0" exits, the window tests,        [ft_read], statement by statement; every exit hands back the
     SZ_MUL_OV, sqfs_read_table, free(raw) on error       object as it is at that point
   sqfs_read_table (read_table.c)                       C05.Super.read_table (NOT copied: the model that coq/ImgReader
                                                         proves correct on what sqfs_write_table wrote)
   sqfs_write_table (write_table.c)                     C03.TableModel.write_table
   array_get / array_set / array_append                 Util.ArrayModel (proved + tied in C19)

   NOT modelled: malloc / realloc failure (C13); frag_table_copy; the object header. *)
From Coq Require Import List NArith ZArith Bool.
From SqfsV Require Import Gen.Constants Base.Bytes.
From SqfsV Require C03.Common C03.TableModel.
From SqfsV Require Image.FinishModel.
From SqfsV Require Util.ArrayModel.
From SqfsV Require Import C05.RBase C05.GenC05 C05.Meta C05.Super.
Import ListNotations.
Local Open Scope N_scope.

Definition fent := list N.
Definition ftobj := ArrayModel.arr fent.
Definition FSZ : N := sizeof_sqfs_fragment_t.
Definition o_pad0 : N := o_sqfs_fragment_t_size + 4.

Definition mk_ft (size count used : N) (d : list fent) : ftobj := ArrayModel.mk_arr fent size count used d.

(* sqfs_frag_table_create: calloc + array_init(&tbl->table, sizeof(sqfs_fragment_t), 0) *)
Definition ft_create : ftobj := snd (ArrayModel.array_init fent FSZ 0).

(* array_cleanup(&tbl->table); tbl->table.size = sizeof(sqfs_fragment_t); *)
Definition ft_reset (t : ftobj) : ftobj :=
  let z := ArrayModel.arr_zero fent in
  mk_ft FSZ (ArrayModel.a_count z) (ArrayModel.a_used z) (ArrayModel.a_data z).

(* the first n k-byte elements of a buffer *)
Fixpoint chunks (k n : nat) (l : list N) : list (list N) :=
  match n with
  | O => []
  | S n' => firstn k l :: chunks k n' (skipn k l)
  end.

(* which of the three "return 0" exits is taken (0 = none) *)
Definition ft_early (s : sup) : bool :=
  negb (N.land (s_flags s) c_SQFS_FLAG_NO_FRAGMENTS =? 0) || (s_frag_start s =? max64) || (s_frag_count s =? 0).

Section WithCodec.
Variable uncompress : list N -> N -> res (list N).
Variable img : list N.

(* sqfs_frag_table_read: (the object afterwards, return value) *)
Definition ft_read (fuel : nat) (s : sup) (t : ftobj) : ftobj * res unit :=
  let t1 := ft_reset t in
  if negb (N.land (s_flags s) c_SQFS_FLAG_NO_FRAGMENTS =? 0) then (t1, Ok tt)
  else if s_frag_start s =? max64 then (t1, Ok tt)
  else if s_frag_count s =? 0 then (t1, Ok tt)
  else if s_bytes_used s <=? s_frag_start s then (t1, Err E_OOB)
  else if s_frag_start s <? s_dir_start s then (t1, Err E_CORRUPTED)
  else if s_id_start s <=? s_frag_start s then (t1, Err E_CORRUPTED)
  else
    let upper := if s_export_start s <? s_id_start s then s_export_start s else s_id_start s in
    match sz_mul_ov (s_frag_count s) FSZ with
    | None => (t1, Err E_OVERFLOW)
    | Some size =>
      match read_table uncompress img fuel size (s_frag_start s) (s_dir_start s) upper with
      | Ok raw =>
        (* table.data = raw; table.count = table.used = fragment_entry_count *)
        (mk_ft (ArrayModel.a_size t1) (s_frag_count s) (s_frag_count s)
               (chunks (nN FSZ) (nN (s_frag_count s)) raw), Ok tt)
      | Err e => (t1, Err e)
      | Crash => (t1, Crash)
      | OutOfFuel => (t1, OutOfFuel)
      end
    end.
End WithCodec.

(* sqfs_frag_table_lookup: (start_offset, size, pad0) after le64toh / le32toh *)
Definition ft_lookup (t : ftobj) (idx : N) : res (N * N * N) :=
  match ArrayModel.array_get fent t idx with
  | None => Err E_OOB
  | Some e => Ok (fld 8 o_sqfs_fragment_t_start_offset e, fld 4 o_sqfs_fragment_t_size e, fld 4 o_pad0 e)
  end.

Definition ft_get_size (t : ftobj) : N := ArrayModel.a_used t.

(* memset(&frag, 0, ..); frag.start_offset = htole64(location); frag.size = htole32(size) *)
Definition ft_entry (location size : N) : fent := FinishModel.frag_entry (location, size).

(* sqfs_frag_table_append: (return value, object, *index = (sqfs_u32)table.used) *)
Definition ft_append (t : ftobj) (location size : N) : Z * ftobj * N :=
  let '(r, t') := ArrayModel.array_append fent t (ft_entry location size) in
  (r, t', ArrayModel.a_used t mod two32).

Definition ft_set (t : ftobj) (idx location size : N) : Z * ftobj :=
  ArrayModel.array_set fent t idx (ft_entry location size).

(* SQFS_IS_BLOCK_COMPRESSED(le32toh(frag->size)) *)
Definition fent_compressed (e : fent) : bool := N.land (fld 4 o_sqfs_fragment_t_size e) 16777216 =? 0.

Section WithCompressor.
Variable compress : list N -> Common.cres.

(* sqfs_frag_table_write on a file of size0 bytes:
   (bytes appended, super->fragment_table_start, super->fragment_entry_count, super->flags) *)
Definition ft_write (size0 : N) (t : ftobj) (count0 flags : N) : Common.res (list N * N * N * N) :=
  if ArrayModel.a_used t =? 0 then
    Common.Ok ([], max64, count0,
               FinishModel.flag_clr (FinishModel.flag_clr (FinishModel.flag_set flags c_SQFS_FLAG_NO_FRAGMENTS)
                                       c_SQFS_FLAG_ALWAYS_FRAGMENTS) c_SQFS_FLAG_UNCOMPRESSED_FRAGMENTS)
  else
    match TableModel.write_table compress size0 (concat (ArrayModel.a_data t)) with
    | Common.Ok (bytes, start) =>
      let f1 := FinishModel.flag_set (FinishModel.flag_set (FinishModel.flag_clr flags c_SQFS_FLAG_NO_FRAGMENTS)
                                        c_SQFS_FLAG_ALWAYS_FRAGMENTS) c_SQFS_FLAG_UNCOMPRESSED_FRAGMENTS in
      let f2 := if existsb fent_compressed (ArrayModel.a_data t)
                then FinishModel.flag_clr f1 c_SQFS_FLAG_UNCOMPRESSED_FRAGMENTS else f1 in
      Common.Ok (bytes, start, ArrayModel.a_used t mod two32, f2)
    | Common.Err e => Common.Err e
    | Common.Fuel => Common.Fuel
    end.
End WithCompressor.

(* a table built the way the block processor builds it: create, then one append per fragment block *)
Fixpoint ft_appends (t : ftobj) (l : list (N * N)) : ftobj :=
  match l with
  | [] => t
  | f :: r => ft_appends (snd (fst (ft_append t (fst f) (snd f)))) r
  end.

(* what the data reader keeps per entry: (start offset, size word) *)
Definition ft_pairs (t : ftobj) : list (N * N) :=
  map (fun e => (fld 8 o_sqfs_fragment_t_start_offset e, fld 4 o_sqfs_fragment_t_size e)) (ArrayModel.a_data t).
