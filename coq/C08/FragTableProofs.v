(* C08 — state hygiene of sqfs_frag_table_read (what seed C10-9 broke) and the link of the object model to the
   stateless C05 model of the loader. *)
From Coq Require Import List NArith ZArith Bool Lia.
From SqfsV Require Import Gen.Constants Base.Bytes.
From SqfsV Require Util.ArrayModel Util.HashModel.
From SqfsV Require Import C05.RBase C05.GenC05 C05.Meta C05.Super.
From SqfsV Require Import C08.FragTableModel.
Import ListNotations.
Local Open Scope N_scope.

Definition ft_empty : ftobj := mk_ft FSZ 0 0 [].

Lemma ft_create_empty : ft_create = ft_empty.
Proof. reflexivity. Qed.

Lemma ft_reset_any t : ft_reset t = ft_empty.
Proof. reflexivity. Qed.

(* the table a successful, non-trivial load leaves: count = used = fragment_entry_count, the elements cut from what
   sqfs_read_table returned *)
Definition ft_loaded (s : sup) (raw : list N) : ftobj :=
  mk_ft FSZ (s_frag_count s) (s_frag_count s) (chunks (nN FSZ) (nN (s_frag_count s)) raw).

Definition is_ok (r : res unit) : bool := match r with Ok _ => true | _ => false end.

Section Hygiene.
Variable uc : list N -> N -> res (list N).
Variable img : list N.

(* 1. the object a call leaves does not depend on the object it was given *)
Lemma ft_read_indep fuel s t : ft_read uc img fuel s t = ft_read uc img fuel s ft_create.
Proof. unfold ft_read. rewrite !ft_reset_any. reflexivity. Qed.

(* 2. early "return 0" exits and every error exit leave the EMPTY table *)
Lemma ft_read_early fuel s t : ft_early s = true -> ft_read uc img fuel s t = (ft_empty, Ok tt).
Proof.
  unfold ft_early, ft_read. rewrite ft_reset_any. intro E.
  destruct (negb (N.land (s_flags s) c_SQFS_FLAG_NO_FRAGMENTS =? 0)); [reflexivity|].
  destruct (s_frag_start s =? max64); [reflexivity|].
  destruct (s_frag_count s =? 0); [reflexivity|discriminate].
Qed.

Lemma ft_read_failed fuel s t : is_ok (snd (ft_read uc img fuel s t)) = false -> fst (ft_read uc img fuel s t) = ft_empty.
Proof.
  unfold ft_read. rewrite ft_reset_any.
  destruct (negb (N.land (s_flags s) c_SQFS_FLAG_NO_FRAGMENTS =? 0)); [reflexivity|].
  destruct (s_frag_start s =? max64); [reflexivity|].
  destruct (s_frag_count s =? 0); [reflexivity|].
  destruct (s_bytes_used s <=? s_frag_start s); [reflexivity|].
  destruct (s_frag_start s <? s_dir_start s); [reflexivity|].
  destruct (s_id_start s <=? s_frag_start s); [reflexivity|].
  destruct (sz_mul_ov (s_frag_count s) FSZ); [|reflexivity].
  destruct (read_table uc img fuel n (s_frag_start s) (s_dir_start s) _); cbn [fst snd is_ok]; intro; try reflexivity.
  discriminate.
Qed.

(* 3. link to the stateless model coq/ImgReader reasons about *)
Lemma ft_read_c05 fuel s t :
  match frag_table_read uc img fuel s with
  | Ok raw => ft_read uc img fuel s t = (if ft_early s then ft_empty else ft_loaded s raw, Ok tt)
  | Err e => ft_read uc img fuel s t = (ft_empty, Err e)
  | Crash => ft_read uc img fuel s t = (ft_empty, Crash)
  | OutOfFuel => ft_read uc img fuel s t = (ft_empty, OutOfFuel)
  end.
Proof.
  unfold frag_table_read, ft_read, ft_early. rewrite ft_reset_any.
  destruct (negb (N.land (s_flags s) c_SQFS_FLAG_NO_FRAGMENTS =? 0)); [reflexivity|].
  destruct (s_frag_start s =? max64); [reflexivity|].
  destruct (s_frag_count s =? 0); [reflexivity|]. cbn [orb].
  destruct (s_bytes_used s <=? s_frag_start s); [reflexivity|].
  destruct (s_frag_start s <? s_dir_start s); [reflexivity|].
  destruct (s_id_start s <=? s_frag_start s); [reflexivity|].
  change FSZ with sizeof_sqfs_fragment_t.
  destruct (sz_mul_ov (s_frag_count s) sizeof_sqfs_fragment_t); [|reflexivity].
  destruct (read_table uc img fuel n (s_frag_start s) (s_dir_start s) _); reflexivity.
Qed.

(* THE state-hygiene statement: whatever table the object held, after the call it holds exactly what THIS call
   loaded: the loaded table on a non-trivial success, the empty table on the early exits and on every error *)
Theorem ft_read_replaces_state_l fuel s t :
  ft_read uc img fuel s t = ft_read uc img fuel s ft_create /\
  (ft_early s = true -> ft_read uc img fuel s t = (ft_empty, Ok tt)) /\
  (is_ok (snd (ft_read uc img fuel s t)) = false -> fst (ft_read uc img fuel s t) = ft_empty) /\
  (ft_early s = false -> is_ok (snd (ft_read uc img fuel s t)) = true ->
   exists raw, frag_table_read uc img fuel s = Ok raw /\ fst (ft_read uc img fuel s t) = ft_loaded s raw).
Proof.
  split; [apply ft_read_indep|]. split; [apply ft_read_early|]. split; [apply ft_read_failed|].
  intros E K. pose proof (ft_read_c05 fuel s t) as C.
  destruct (frag_table_read uc img fuel s) as [raw|e| |]; rewrite C in K |- *; try discriminate.
  rewrite E. exists raw. split; reflexivity.
Qed.
End Hygiene.

(* what a client sees of the empty table: every lookup out of bounds, size 0 *)
Lemma ft_empty_lookup idx : ft_lookup ft_empty idx = Err E_OOB.
Proof. unfold ft_lookup, ArrayModel.array_get, ft_empty, mk_ft. cbn [ArrayModel.a_used]. destruct (0 <=? idx) eqn:E; [reflexivity|]. apply N.leb_gt in E. lia. Qed.

Theorem ft_no_stale_entries uc img fuel s t idx :
  ft_early s = true \/ is_ok (snd (ft_read uc img fuel s t)) = false ->
  ft_lookup (fst (ft_read uc img fuel s t)) idx = Err E_OOB /\ ft_get_size (fst (ft_read uc img fuel s t)) = 0.
Proof.
  intros [E|E].
  - rewrite (ft_read_early uc img fuel s t E). split; [apply ft_empty_lookup|reflexivity].
  - rewrite (ft_read_failed uc img fuel s t E). split; [apply ft_empty_lookup|reflexivity].
Qed.

(* ---- the code as seed C10-9 left it: the old table is dropped only once the new one is in memory ---- *)
Section Late.
Variable uc : list N -> N -> res (list N).
Variable img : list N.
Definition ft_read_late (fuel : nat) (s : sup) (t : ftobj) : ftobj * res unit :=
  match ft_read uc img fuel s t with
  | (t', Ok u) => if ft_early s then (t, Ok u) else (t', Ok u)
  | (_, r) => (t, r)
  end.
End Late.

(* lookups in a loaded table: element idx of the raw table, fields converted *)
Lemma chunks_length k : forall n l, length (chunks k n l) = n.
Proof. induction n; intro l; [reflexivity|]. cbn [chunks length]. rewrite IHn. reflexivity. Qed.

Lemma nthN_nth_error {A} : forall (l : list A) i, HashModel.nthN l i = nth_error l (N.to_nat i).
Proof.
  induction l as [|x l IH]; intro i.
  - destruct (N.to_nat i); reflexivity.
  - cbn [HashModel.nthN]. destruct (N.eqb_spec i 0) as [->|Hne]; [reflexivity|].
    rewrite IH. replace (N.to_nat i) with (S (N.to_nat (N.pred i))) by lia. reflexivity.
Qed.

Lemma skipn_add {A} : forall a b (l : list A), skipn (a + b) l = skipn b (skipn a l).
Proof.
  induction a; intros b l; [reflexivity|]. destruct l; [rewrite !skipn_nil; reflexivity|]. apply IHa.
Qed.

Lemma chunks_nth k : forall n l i, (i < n)%nat ->
  nth_error (chunks k n l) i = Some (firstn k (skipn (i * k) l)).
Proof.
  induction n; intros l i Hi; [lia|]. destruct i as [|i].
  - reflexivity.
  - cbn [chunks nth_error]. rewrite IHn by lia. f_equal. f_equal.
    rewrite <- skipn_add. reflexivity.
Qed.

Theorem ft_loaded_lookup s raw idx :
  ft_lookup (ft_loaded s raw) idx =
  if s_frag_count s <=? idx then Err E_OOB
  else let e := firstn 16 (skipn (N.to_nat idx * 16) raw) in
       Ok (fld 8 0 e, fld 4 8 e, fld 4 12 e).
Proof.
  unfold ft_lookup, ArrayModel.array_get, ft_loaded, mk_ft. cbn [ArrayModel.a_used ArrayModel.a_data].
  destruct (N.leb_spec (s_frag_count s) idx) as [|Hlt]; [reflexivity|].
  rewrite nthN_nth_error, chunks_nth by (unfold nN; lia). reflexivity.
Qed.
