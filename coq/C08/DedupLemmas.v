(* C08 — list / arithmetic lemmas shared by the proof files. *)
From Coq Require Import List NArith Arith Bool Lia.
From SqfsV Require Import C08.DedupModel.
Import ListNotations.

Lemma list_eqb_eq a b : list_eqb a b = true <-> a = b.
Proof.
  revert b; induction a as [|x a IH]; destruct b as [|y b]; simpl; split; intro H;
    try reflexivity; try discriminate.
  - apply andb_true_iff in H. destruct H as [H1 H2]. apply N.eqb_eq in H1. apply IH in H2.
    subst; reflexivity.
  - inversion H; subst. rewrite N.eqb_refl. simpl. apply IH. reflexivity.
Qed.

Lemma list_eqb_refl a : list_eqb a a = true.
Proof. apply list_eqb_eq. reflexivity. Qed.

Lemma list_eqb_neq a b : list_eqb a b = false <-> a <> b.
Proof.
  split; intro H.
  - intro E. apply list_eqb_eq in E. congruence.
  - destruct (list_eqb a b) eqn:E; [|reflexivity]. apply list_eqb_eq in E. contradiction.
Qed.

Lemma app_inj_len {A} (a1 a2 b1 b2 : list A) :
  length a1 = length b1 -> a1 ++ a2 = b1 ++ b2 -> a1 = b1 /\ a2 = b2.
Proof.
  revert b1; induction a1 as [|x a1 IH]; destruct b1 as [|y b1]; simpl; intros L E;
    try discriminate.
  - split; [reflexivity|assumption].
  - inversion E; subst. destruct (IH b1) as [E1 E2]; [lia|assumption|]. subst. split; reflexivity.
Qed.

Lemma skipn_skipn' {A} (n m : nat) (l : list A) : skipn n (skipn m l) = skipn (m + n) l.
Proof.
  revert l; induction m as [|m IH]; intro l; simpl; [reflexivity|].
  destruct l as [|x l]; [destruct n; reflexivity|]. apply IH.
Qed.

Lemma firstn_add {A} (n m : nat) (l : list A) :
  firstn (n + m) l = firstn n l ++ firstn m (skipn n l).
Proof.
  revert l; induction n as [|n IH]; intro l; simpl; [reflexivity|].
  destruct l as [|x l]; simpl; [destruct m; reflexivity|]. rewrite IH. reflexivity.
Qed.

(* ---------------------------------------------------------------------- *)
(* slices *)

Lemma slice_length f off n : off + n <= length f -> length (slice f off n) = n.
Proof. intro H. unfold slice. rewrite firstn_length, skipn_length. lia. Qed.

Lemma slice_zero f off : slice f off 0 = [].
Proof. reflexivity. Qed.

Lemma slice_app_l a b off n : off + n <= length a -> slice (a ++ b) off n = slice a off n.
Proof.
  intro H. unfold slice. rewrite skipn_app, firstn_app, skipn_length.
  replace (n - (length a - off)) with 0 by lia. simpl. apply app_nil_r.
Qed.

Lemma slice_firstn f t off n : off + n <= t -> slice (firstn t f) off n = slice f off n.
Proof.
  intro H. unfold slice. rewrite skipn_firstn_comm, firstn_firstn.
  replace (Nat.min n (t - off)) with n by lia. reflexivity.
Qed.

Lemma slice_app_r a b o n : slice (a ++ b) (length a + o) n = slice b o n.
Proof.
  unfold slice. rewrite skipn_app.
  rewrite (skipn_all2 a) by lia. simpl.
  replace (length a + o - length a) with o by lia. reflexivity.
Qed.

Lemma slice_app_mid a b c : slice (a ++ b ++ c) (length a) (length b) = b.
Proof.
  replace (length a) with (length a + 0) at 1 by lia. rewrite slice_app_r.
  unfold slice. simpl. rewrite firstn_app, Nat.sub_diag, firstn_all. simpl. apply app_nil_r.
Qed.

Lemma slice_app_mid' a b : slice (a ++ b) (length a) (length b) = b.
Proof. rewrite <- (app_nil_r b) at 1. apply slice_app_mid. Qed.

Lemma slice_split f off n m : slice f off (n + m) = slice f off n ++ slice f (off + n) m.
Proof. unfold slice. rewrite firstn_add, skipn_skipn'. reflexivity. Qed.

Lemma slice_all f : slice f 0 (length f) = f.
Proof. unfold slice. simpl. apply firstn_all. Qed.

Lemma slice_slice f a n b m : b + m <= n -> slice (slice f a n) b m = slice f (a + b) m.
Proof.
  intro H. unfold slice. rewrite skipn_firstn_comm, firstn_firstn, skipn_skipn'.
  replace (Nat.min m (n - b)) with m by lia. reflexivity.
Qed.

Lemma read_at_some f off n x :
  read_at f off n = Some x <-> off + n <= length f /\ x = slice f off n.
Proof.
  unfold read_at. destruct (off + n <=? length f) eqn:E.
  - apply Nat.leb_le in E. split.
    + intro H. inversion H. split; [assumption|reflexivity].
    + intros [_ ->]. reflexivity.
  - apply Nat.leb_gt in E. split; [discriminate|]. intros [H _]. lia.
Qed.

Lemma read_at_ok f off n : off + n <= length f -> read_at f off n = Some (slice f off n).
Proof. intro H. apply read_at_some. split; [assumption|reflexivity]. Qed.

Lemma truncate_le f n : n <= length f -> truncate f n = firstn n f.
Proof.
  intro H. unfold truncate. replace (n - length f) with 0 by lia. simpl. apply app_nil_r.
Qed.

(* ---------------------------------------------------------------------- *)
(* size words *)

Definition small (n : nat) : Prop := (N.of_nat n < two24)%N.

Lemma two24_nz : two24 <> 0%N.
Proof. discriminate. Qed.

Lemma sw_size_of n c : small n -> sw_size (sw_of n c) = n.
Proof.
  unfold small, sw_size, sw_of. intro H. destruct c.
  - rewrite N.mod_small by assumption. apply Nat2N.id.
  - replace (N.of_nat n + two24)%N with (N.of_nat n + 1 * two24)%N by lia.
    rewrite N.mod_add by apply two24_nz. rewrite N.mod_small by assumption. apply Nat2N.id.
Qed.

Lemma sw_compressed_of n c : small n -> sw_compressed (sw_of n c) = c.
Proof.
  unfold small, sw_compressed, sw_of. intro H. destruct c.
  - rewrite N.div_small by assumption. reflexivity.
  - replace (N.of_nat n + two24)%N with (N.of_nat n + 1 * two24)%N by lia.
    rewrite N.div_add by apply two24_nz. rewrite N.div_small by assumption. reflexivity.
Qed.

Lemma sw_sparse_of n c : small n -> sw_sparse (sw_of n c) = (n =? 0).
Proof.
  unfold small, sw_sparse, sw_of. intro H.
  assert (E : ((if c then N.of_nat n else (N.of_nat n + two24)%N) mod two24 = N.of_nat n)%N).
  { destruct c.
    - apply N.mod_small; assumption.
    - replace (N.of_nat n + two24)%N with (N.of_nat n + 1 * two24)%N by lia.
      rewrite N.mod_add by apply two24_nz. apply N.mod_small; assumption. }
  rewrite E. destruct n; [reflexivity|].
  rewrite Nat2N.inj_succ. destruct (N.of_nat n); reflexivity.
Qed.

Lemma sw_sparse_zero : sw_sparse 0%N = true.
Proof. reflexivity. Qed.

Lemma small_le a b : a <= b -> small b -> small a.
Proof. unfold small. intros. lia. Qed.

(* ---------------------------------------------------------------------- *)
(* all_zero *)

Lemma all_zero_app a b : all_zero (a ++ b) = all_zero a && all_zero b.
Proof. induction a as [|x a IH]; simpl; [reflexivity|]. rewrite IH. apply andb_assoc. Qed.

Lemma all_zero_repeat l : all_zero l = true -> l = repeat 0%N (length l).
Proof.
  induction l as [|x l IH]; simpl; intro H; [reflexivity|].
  apply andb_true_iff in H. destruct H as [H1 H2]. apply N.eqb_eq in H1. subst.
  rewrite <- IH by assumption. reflexivity.
Qed.
