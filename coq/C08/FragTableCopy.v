(* C08 — frag_table_copy (lib/sqfs/src/frag_table.c) = calloc + sqfs_object_init + array_init_copy (lib/util/src/array.c).

   C                                                         model
   calloc fails / array_init_copy != 0 -> NULL               [ft_copy ok t = None]  ([ok] = "every allocation succeeded":
                                                               the calloc of the object and, if used > 0, the malloc of
                                                               used * size bytes; either failure gives NULL)
   array_init(copy, src->size, src->used)                    Util.ArrayModel.array_init_copy (NOT copied): capacity of the
   memcpy(copy->data, src->data, src->used * src->size)        copy = USED of the source (not its capacity), used = used,
   copy->used = src->used                                      the first [used] elements; SZ_MUL_OV(size, used) -> error

   The model's objects are values, so "the copy shares no storage with the original" is true by construction of the
   model ([fam_runs_frame] states it as a frame property over a two-object state all the same, so that the statement is
   there for the tie to be compared against); that the C copy really owns its block (memcpy into a fresh malloc, no
   aliasing of src->data) is what the tie's copy op checks. *)
From Coq Require Import List NArith ZArith Bool Lia.
From SqfsV Require Import Gen.Constants Base.Bytes.
From SqfsV Require Import Util.GenUtil Util.HashModel Util.HashBase Util.ArrayModel.
From SqfsV Require Import Image.FinishModel Image.ImageProofs.
From SqfsV Require C05.RBase C05.Super C01.Res.
From SqfsV Require Import C08.FragTableModel C08.FragTableProofs.
From SqfsV Require Import ImgData.FragLoader.
From SqfsV Require Import C08.FragTableGrow.
Import ListNotations.
Local Open Scope N_scope.

Definition ft_copy (ok : bool) (t : ftobj) : option ftobj :=
  if ok then match array_init_copy fent t with
             | (0%Z, a) => Some a
             | _ => None
             end
  else None.

(* the seeded bug: the copy takes the source's CAPACITY as its used count; the storage between used and capacity is
   whatever the block holds ([junk] per element) *)
Definition ft_copy_phantom (junk : fent) (t : ftobj) : ftobj :=
  mk_ft (a_size t) (a_count t) (a_count t) (a_data t ++ repeat junk (N.to_nat (a_count t - a_used t))).

Lemma ft_copy_false t : ft_copy false t = None.
Proof. reflexivity. Qed.

Lemma ft_copy_some ok t c :
  ft_inv t -> ft_copy ok t = Some c -> c = mk_ft FSZ (a_used t) (a_used t) (a_data t).
Proof.
  intros (Hs & Hl & Hu). unfold ft_copy, array_init_copy, array_init. destruct ok; [|discriminate].
  destruct ((0 <? a_used t) && sz_ov (a_size t * a_used t)); [cbn; discriminate|].
  cbn [a_size a_count]. intro H. inversion H. rewrite Hs. unfold mk_ft. f_equal.
  replace (N.to_nat (a_used t)) with (length (a_data t)) by (unfold lenN in Hl; lia). apply firstn_all.
Qed.

Lemma ft_copy_succeeds t :
  ft_inv t -> 16 * a_used t <= util_size_max ->
  ft_copy true t = Some (mk_ft FSZ (a_used t) (a_used t) (a_data t)).
Proof.
  intros I B. destruct (ft_copy true t) as [c|] eqn:E.
  - rewrite (ft_copy_some true t c I E). reflexivity.
  - exfalso. destruct I as (Hs & Hl & Hu). unfold ft_copy, array_init_copy, array_init in E. rewrite Hs in E.
    change FSZ with 16 in E. unfold sz_ov in E.
    destruct (N.ltb_spec util_size_max (16 * a_used t)) as [H|_]; [lia|].
    rewrite andb_false_r in E. cbn in E. discriminate.
Qed.

Lemma ft_lookup_ext t1 t2 i : a_used t1 = a_used t2 -> a_data t1 = a_data t2 -> ft_lookup t1 i = ft_lookup t2 i.
Proof. intros U D. unfold ft_lookup, array_get. rewrite U, D. reflexivity. Qed.

(* ---- the copy holds the same entries ---- *)
Theorem ft_copy_holds_same_entries ok t c :
  ft_inv t -> ft_copy ok t = Some c ->
  ft_inv c /\ c = mk_ft FSZ (a_used t) (a_used t) (a_data t) /\
  ft_pairs c = ft_pairs t /\ ft_get_size c = ft_get_size t /\
  (forall i, ft_lookup c i = ft_lookup t i) /\
  (forall i, ft_get_size t <= i -> ft_lookup c i = RBase.Err RBase.E_OOB).
Proof.
  intros I E. pose proof (ft_copy_some ok t c I E) as C. destruct I as (Hs & Hl & Hu). subst c.
  split; [|split; [reflexivity|split; [reflexivity|split; [reflexivity|split]]]].
  - unfold ft_inv, mk_ft. cbn [a_size a_count a_used a_data]. repeat split; try assumption. lia.
  - intro i. apply ft_lookup_ext; reflexivity.
  - intros i Hi. unfold ft_lookup, array_get, mk_ft, ft_get_size in *. cbn [a_used].
    destruct (N.leb_spec (a_used t) i) as [_|H]; [reflexivity|lia].
Qed.

(* ---- copy, then appends: growth from the copy's capacity (= used of the source, in general not the source's) ---- *)
Theorem ft_copy_then_appends ok t c l :
  ft_inv t -> ft_copy ok t = Some c -> a_used t + lenN l <= RBase.two32 ->
  let c' := ft_appends c l in
  let t' := ft_appends t l in
  ft_inv c' /\ a_data c' = a_data t ++ map frag_entry l /\
  ft_appends_res c l = ft_appends_res t l /\
  ft_pairs c' = ft_pairs t' /\ ft_get_size c' = ft_get_size t' /\
  (forall i, ft_lookup c' i = ft_lookup t' i) /\
  a_used t <= a_count c'.
Proof.
  intros I E B. cbv zeta. destruct (ft_copy_holds_same_entries ok t c I E) as (Ic & C & _).
  assert (Uc : a_used c = a_used t) by (rewrite C; reflexivity).
  assert (Dc : a_data c = a_data t) by (rewrite C; reflexivity).
  assert (Bc : a_used c + lenN l <= RBase.two32) by (rewrite Uc; exact B).
  destruct (ft_appends_state l c Ic Bc) as (J & D & U & Cc).
  destruct (ft_appends_state l t I B) as (J' & D' & U' & _).
  split; [exact J|]. split; [rewrite D, Dc; reflexivity|]. split.
  { rewrite (ft_appends_indices l c Ic Bc), (ft_appends_indices l t I B), Uc. reflexivity. }
  split; [unfold ft_pairs; rewrite D, D', Dc; reflexivity|].
  split; [unfold ft_get_size; rewrite U, U', Uc; reflexivity|].
  split; [intro i; apply ft_lookup_ext; [rewrite U, U', Uc|rewrite D, D', Dc]; reflexivity|].
  assert (Kc : a_count c = a_used t) by (rewrite C; reflexivity). rewrite <- Kc. exact Cc.
Qed.

(* ---- two objects side by side: operations on one leave the other alone ---- *)
Section Ops.
Variable uc : list N -> N -> RBase.res (list N).
Variable img : list N.

Inductive fop :=
| FAppend (a b : N) | FSet (i a b : N) | FLookup (i : N) | FSize | FRead (fuel : nat) (s : Super.sup).
Inductive fans :=
| AApp (r : Z) (i : N) | ASet (r : Z) | ALook (r : RBase.res (N * N * N)) | ASz (n : N) | ARd (r : RBase.res unit).

Definition fstep (t : ftobj) (op : fop) : ftobj * fans :=
  match op with
  | FAppend a b => (snd (fst (ft_append t a b)), AApp (fst (fst (ft_append t a b))) (snd (ft_append t a b)))
  | FSet i a b => (snd (ft_set t i a b), ASet (fst (ft_set t i a b)))
  | FLookup i => (t, ALook (ft_lookup t i))
  | FSize => (t, ASz (ft_get_size t))
  | FRead fuel s => (fst (ft_read uc img fuel s t), ARd (snd (ft_read uc img fuel s t)))
  end.

Fixpoint fruns (t : ftobj) (ops : list fop) : ftobj * list fans :=
  match ops with
  | [] => (t, [])
  | op :: r => (fst (fruns (fst (fstep t op)) r), snd (fstep t op) :: snd (fruns (fst (fstep t op)) r))
  end.

Inductive who := Orig | Copy.
Definition who_eqb (a b : who) : bool :=
  match a, b with Orig, Orig => true | Copy, Copy => true | _, _ => false end.

Definition fam_step (st : ftobj * ftobj) (x : who * fop) : (ftobj * ftobj) * (who * fans) :=
  match fst x with
  | Orig => ((fst (fstep (fst st) (snd x)), snd st), (Orig, snd (fstep (fst st) (snd x))))
  | Copy => ((fst st, fst (fstep (snd st) (snd x))), (Copy, snd (fstep (snd st) (snd x))))
  end.

Fixpoint fam_runs (st : ftobj * ftobj) (l : list (who * fop)) : (ftobj * ftobj) * list (who * fans) :=
  match l with
  | [] => (st, [])
  | x :: r => (fst (fam_runs (fst (fam_step st x)) r), snd (fam_step st x) :: snd (fam_runs (fst (fam_step st x)) r))
  end.

Definition sel {A} (w : who) (l : list (who * A)) : list A :=
  map snd (filter (fun x => who_eqb (fst x) w) l).

(* any interleaving = the two single-object runs, states and answers *)
Theorem fam_runs_frame : forall l o c,
  fst (fam_runs (o, c) l) = (fst (fruns o (sel Orig l)), fst (fruns c (sel Copy l))) /\
  sel Orig (snd (fam_runs (o, c) l)) = snd (fruns o (sel Orig l)) /\
  sel Copy (snd (fam_runs (o, c) l)) = snd (fruns c (sel Copy l)).
Proof.
  induction l as [|[w op] l IH]; intros o c; [repeat split; reflexivity|].
  destruct w; cbn [fam_runs fam_step fst snd].
  - destruct (IH (fst (fstep o op)) c) as (A & B & C).
    unfold sel in *. cbn [filter fst who_eqb map snd fruns]. rewrite A, B, C. repeat split; reflexivity.
  - destruct (IH o (fst (fstep c op))) as (A & B & C).
    unfold sel in *. cbn [filter fst who_eqb map snd fruns]. rewrite A, B, C. repeat split; reflexivity.
Qed.

Lemma sel_other {A} w w' (ops : list A) : who_eqb w' w = false -> sel w (map (pair w') ops) = [].
Proof. intro H. unfold sel. induction ops as [|x r IH]; [reflexivity|]. cbn [map filter fst]. rewrite H. exact IH. Qed.

Lemma sel_same {A} w (ops : list A) : sel w (map (pair w) ops) = ops.
Proof.
  unfold sel. induction ops as [|x r IH]; [reflexivity|]. cbn [map filter fst].
  replace (who_eqb w w) with true by (destruct w; reflexivity). cbn [map snd]. rewrite IH. reflexivity.
Qed.

Theorem ft_copy_independent ok t c :
  ft_copy ok t = Some c ->
  (* any interleaving of operations on the original and on the copy *)
  (forall l,
     fst (fam_runs (t, c) l) = (fst (fruns t (sel Orig l)), fst (fruns c (sel Copy l))) /\
     sel Orig (snd (fam_runs (t, c) l)) = snd (fruns t (sel Orig l)) /\
     sel Copy (snd (fam_runs (t, c) l)) = snd (fruns c (sel Copy l))) /\
  (* in particular: whatever is done to the copy, the original is the same record, and vice versa *)
  (forall ops, fst (fst (fam_runs (t, c) (map (pair Copy) ops))) = t) /\
  (forall ops, snd (fst (fam_runs (t, c) (map (pair Orig) ops))) = c).
Proof.
  intros _. split; [intro l; apply fam_runs_frame|]. split; intro ops.
  - destruct (fam_runs_frame (map (pair Copy) ops) t c) as (A & _). rewrite A. cbn [fst].
    rewrite sel_other by reflexivity. reflexivity.
  - destruct (fam_runs_frame (map (pair Orig) ops) t c) as (A & _). rewrite A. cbn [snd].
    rewrite sel_other by reflexivity. reflexivity.
Qed.
End Ops.

(* ---- examples ---- *)
Definition ex_t5 : ftobj := ft_appends ft_create (ex_entries 5).

Example ex_copy :
  ft_inv ex_t5 /\ a_count ex_t5 = 128 /\
  match ft_copy true ex_t5 with
  | Some c =>
    a_count c = 5 /\ a_used c = 5 /\ ft_pairs c = ex_entries 5 /\
    ft_lookup c 4 = ft_lookup ex_t5 4 /\ ft_lookup c 5 = RBase.Err RBase.E_OOB /\
    (* appends to the copy grow it 5 -> 10 -> 20 while the original stays at 128; same entries, same indices *)
    counts_along c (skipn 5 (ex_entries 16)) = [10; 20] /\
    counts_along ex_t5 (skipn 5 (ex_entries 16)) = [] /\
    ft_pairs (ft_appends c (skipn 5 (ex_entries 16))) = ex_entries 16 /\
    ft_appends_res c (skipn 5 (ex_entries 16)) = idx_from 5 11
  | None => False
  end /\
  ft_copy false ex_t5 = None /\
  ft_copy true (mk_ft FSZ 1152921504606846976 1152921504606846976 []) = None.
Proof. vm_compute. repeat split; try reflexivity; try discriminate. Qed.

(* a two-object run: append to the copy, set in the original, look up on both *)
Example ex_copy_family :
  match ft_copy true ex_t5 with
  | Some c =>
    let l := [(Copy, FAppend 777 42); (Orig, FSet 0 1 2); (Copy, FLookup 0); (Orig, FLookup 0); (Copy, FLookup 5);
              (Orig, FLookup 5); (Copy, FSize); (Orig, FSize)] in
    map snd (snd (fam_runs (fun _ _ => RBase.Crash) [] (ex_t5, c) l)) =
    [AApp 0 5; ASet 0; ALook (RBase.Ok (96, 300, 0)); ALook (RBase.Ok (1, 2, 0)); ALook (RBase.Ok (777, 42, 0));
     ALook (RBase.Err RBase.E_OOB); ASz 6; ASz 5]
  | None => False
  end.
Proof. vm_compute. reflexivity. Qed.

(* refuted: the copy that takes the capacity for the used count answers indices >= used with data *)
Definition ex_junk : fent := frag_entry (3735928559, 48879).
Theorem ft_copy_phantom_refuted :
  ft_lookup ex_t5 5 = RBase.Err RBase.E_OOB /\ ft_get_size ex_t5 = 5 /\
  ft_lookup (ft_copy_phantom ex_junk ex_t5) 5 = RBase.Ok (3735928559, 48879, 0) /\
  ft_lookup (ft_copy_phantom ex_junk ex_t5) 127 = RBase.Ok (3735928559, 48879, 0) /\
  ft_get_size (ft_copy_phantom ex_junk ex_t5) = 128 /\
  (* same answers below used - the bug is invisible to a check that only looks at the entries it knows *)
  ft_lookup (ft_copy_phantom ex_junk ex_t5) 4 = ft_lookup ex_t5 4.
Proof. vm_compute. repeat split; reflexivity. Qed.
