(* C08 x Util, part 5 -- the statements Properties_C08.v exports, in closed form, and the
   computed instances. *)
From Coq Require Import List NArith Arith Bool Lia Permutation.
From SqfsV Require Import Gen.Constants.
From SqfsV Require Import C08.DedupModel C08.DedupLemmas C08.DedupWriterProofs
     C08.DedupReaderProofs C08.DedupPipeProofs C08.DedupTheorems.
From SqfsV Require Import Util.FastRem Util.HashRows Util.HashInv Util.HashContracts.
From SqfsV Require Util.HashModel.
From SqfsV Require Import C08.HashBridge C08.HashBridgeModel C08.HashBridgeFrame C08.HashBridgeSim.
Import ListNotations.

Section Top.
Variable hashf : list N -> N.
Variable compress : list N -> option (list N).
Variable uncompress : list N -> nat -> option (list N).
Variable bs half : nat.
Hypothesis Hcomp : forall b c, compress b = Some c ->
  length c < length b /\ forall n, length b <= n -> uncompress c n = Some b.
Hypothesis Hbs : 0 < bs.
Hypothesis Hmax : (N.of_nat bs <= c_SQFS_MAX_BLOCK_SIZE)%N.
Hypothesis Hhalf : 0 < half.
Hypothesis Hh32 : forall d, (hashf d < two32)%N.

Lemma frag_table_real_l file0 files sched :
  (N.of_nat (length files) <= ht_safe_limit)%N ->
  exists st t,
    pack hashf compress uncompress bs false true half file0 files sched = Ok st /\
    r_pack hashf compress uncompress bs false true half file0 files sched = ROk (strip st, t) /\
    wf chunk chunk t /\
    Permutation (HashModel.live chunk chunk t) (map (ent ck_hash) (p_ht st)) /\
    (forall fid fl d, nth_error files fid = Some (fl, d) ->
                      read_back uncompress bs (strip st) fid (length d) = Some d) /\
    firstn (length file0) (w_file (p_wr (strip st))) = file0.
Proof.
  intro Hlim.
  destruct (r_pack_sim hashf compress uncompress bs half (length file0) Hcomp Hbs
              (max_block_size_small bs Hmax) Hhalf Hh32 files Hlim file0 sched eq_refl)
    as (st & t & claims & fbd & E1 & E2 & _ & _ & [W P] & _).
  destruct (dedup_sound_sec hashf compress uncompress bs half (length file0) Hcomp Hbs
              (max_block_size_small bs Hmax) Hhalf files file0 sched eq_refl) as (st' & E' & RB & F0).
  rewrite E1 in E'. inversion E'; subst st'.
  exists st, t. split; [exact E1|]. split; [exact E2|]. split; [exact W|].
  split; [rewrite live_livel; exact P|]. split; [exact RB|exact F0].
Qed.

(* between any two files of a run: the real-table model has got to the same point, its table
   represents the list, the entries are pairwise different for the callback (at most one
   answers any search, none fails), and the table's search answers like the list's *)
Lemma frag_table_steps_l file0 files n sched st t0 :
  (N.of_nat (length files) <= ht_safe_limit)%N ->
  HashModel.ht_create chunk chunk = Some t0 ->
  run_files hashf compress uncompress bs false true half
            (firstn n (map (fun f => file_job bs (fst f) (snd f)) files)) sched 0 (init_proc file0)
  = Ok st ->
  exists t,
    r_run_files hashf compress uncompress bs false true half
            (firstn n (map (fun f => file_job bs (fst f) (snd f)) files)) sched 0
            (strip (init_proc file0)) t0 = ROk (strip st, t) /\
    wf chunk chunk t /\
    Permutation (HashModel.live chunk chunk t) (map (ent ck_hash) (p_ht st)) /\
    forall (cur : list N) (khash : N), (khash < two32)%N ->
      let key := skey (length cur) khash in
      at_most_one ck_hash (keq_of uncompress bs true st cur key) khash (p_ht st) /\
      (forall c, In c (p_ht st) -> cb uncompress bs true st cur key c <> EqErr) /\
      match DedupModel.ht_search uncompress bs true st (p_cached st) (length cur) khash cur (p_ht st) with
      | SFound c _ =>
        exists a, HashModel.ht_search chunk chunk (keq_of uncompress bs true st cur) t khash key
                  = HashModel.Ok (Some a) /\
                  HashModel.ht_entry chunk chunk t a = Some (khash, c, c)
      | SNone _ =>
        HashModel.ht_search chunk chunk (keq_of uncompress bs true st cur) t khash key = HashModel.Ok None
      | SErr => False
      end.
Proof.
  intros Hlim Ec Erun.
  pose proof (max_block_size_small bs Hmax) as Hsmall.
  destruct (r_run_files_sim hashf compress uncompress bs half (length file0) Hcomp Hbs Hsmall Hhalf Hh32
              files Hlim (firstn n (jobs bs files)) sched 0 (init_proc file0) t0 [(0, file0)] (fun _ => []))
    as (st' & claims & fbd & t & E1 & E2 & (HP & ND & R & _)).
  { exists n. reflexivity. }
  { apply (init_BInv hashf compress uncompress bs half (length file0) Hbs Hhalf files Hlim file0 t0 eq_refl Ec). }
  change (map (fun f => file_job bs (fst f) (snd f)) files) with (jobs bs files) in *.
  rewrite Erun in E1. inversion E1; subst st'. clear E1.
  exists t. split; [exact E2|]. destruct R as [W P]. split; [exact W|].
  split; [rewrite live_livel; exact P|].
  intros cur khash Hk key.
  pose proof (uniq_amo hashf compress uncompress bs half (length file0) Hbs Hsmall Hhalf files
                st (p_ioq st) claims fbd _ _ cur key HP eq_refl ND) as U.
  change (ck_hash key) with khash in U.
  split; [exact U|]. split.
  - intros c Hc.
    apply (cb_value hashf compress uncompress bs half (length file0) Hbs Hsmall Hhalf files
             st (p_ioq st) claims fbd _ _ None cur key c HP (cok_none uncompress bs st claims fbd) Hc eq_refl).
  - pose proof HP as [P1 P2 P3 P4 P5 P6 P7 P8 P9 P10 P11 P12 P13].
    destruct (ht_search_pure hashf compress uncompress bs half (length file0) Hbs Hsmall Hhalf files
                st (p_ioq st) claims fbd _ _ khash cur (p_ht st) (p_cached st) HP P9 (incl_refl _))
      as (ca' & _ & Es).
    rewrite Es. fold key.
    destruct (bridge_search chunk ck_hash (keq_of uncompress bs true st cur) (p_ht st) t khash key
                (conj W P) Hk U) as (r & Er & Hr).
    destruct r as [a|].
    + destruct Hr as (c & Ea & El). rewrite El. exists a. split; assumption.
    + rewrite Hr. exact Er.
Qed.

End Top.

(* ---------------------------------------------------------------------- *)
(* computed instances *)

(* (1) the whole pipeline.  Constant checksum (every fragment collides with every other), toy
   compressor, block size 4, eight files whose tail ends are
     [1] [2] [3] | [1] again (found: shares (0,0)) | [2] again but DONT_DEDUPLICATE (stored anew,
     the table entry for [2] is REPLACED by the new chunk) | [4] [5 5] | [3] again (found)
   five live entries; the table is created with 5 slots (max 2 entries), grows to 7 slots at the
   third and to 13 slots at the fifth insert; the first fragment block (4 bytes) is full after
   [1][2][3][2'], is in flight while [4] is inserted and on disk when the last [3] is
   searched, so that the callback reads from all three byte sources *)
Definition fl_dd : uflags :=
  {| uf_dont_compress := false; uf_dont_hash := false; uf_dont_fragment := false;
     uf_dont_dedup := true; uf_ignore_sparse := false |}.

Definition ex_bridge_files : list (uflags * list N) :=
  [(fl0, [1]%N); (fl0, [2]%N); (fl0, [3]%N); (fl0, [1]%N); (fl_dd, [2]%N); (fl0, [4]%N);
   (fl0, [5; 5]%N); (fl0, [3]%N)].

Definition ex_bridge_sched : list nat := [0; 0; 0; 0; 0; 0; 1; 0].

Definition obs (st : proc) : list (option (nat * nat)) * nat * list N * list ev :=
  (map (p_frag st) (seq 0 8), p_nfrag st, w_file (p_wr st), p_evs st).

Fixpoint insert_sorted (c : chunk) (l : list chunk) : list chunk :=
  match l with
  | [] => [c]
  | x :: r => if (ck_index c <? ck_index x) || ((ck_index c =? ck_index x) && (ck_offset c <=? ck_offset x))
              then c :: l else x :: insert_sorted c r
  end.
Definition sort_chunks (l : list chunk) : list chunk := fold_right insert_sorted [] l.

Lemma ex_bridge_run :
  match pack const_hash toy_compress toy_uncompress 4 false true 4096 [7; 7; 7]%N ex_bridge_files ex_bridge_sched,
        r_pack const_hash toy_compress toy_uncompress 4 false true 4096 [7; 7; 7]%N ex_bridge_files ex_bridge_sched with
  | Ok st, ROk (sr, t) =>
    obs sr = obs st /\ p_ht sr = [] /\ p_cached sr = None /\
    (* every file's fragment reference = the answer of its search / insert *)
    map (p_frag st) (seq 0 8) =
      [Some (0, 0); Some (0, 1); Some (0, 2); Some (0, 0); Some (0, 3); Some (1, 0); Some (1, 1);
       Some (0, 2)] /\
    (* the list: the entry for [2] was replaced in place by the chunk at (0,3) *)
    map (fun c => (ck_index c, ck_offset c, ck_size c)) (p_ht st) =
      [(0, 0, 1); (0, 3, 1); (0, 2, 1); (1, 0, 1); (1, 1, 2)] /\
    (* the table holds the same chunks, key = data, and has been resized twice *)
    sort_chunks (map (fun e => snd (fst e)) (HashModel.live chunk chunk t)) = sort_chunks (p_ht st) /\
    forallb (fun e => match e with (h, k, d) =>
                        N.eqb h (ck_hash k) && (ck_index k =? ck_index d) && (ck_offset k =? ck_offset d) end)
            (HashModel.live chunk chunk t) = true /\
    HashModel.ht_size_index chunk chunk t = 2 /\ HashModel.ht_size chunk chunk t = 13%N /\
    HashModel.ht_entries chunk chunk t = 5%N /\
    read_back toy_uncompress 4 sr 4 1 = Some [2]%N /\ read_back toy_uncompress 4 sr 6 2 = Some [5; 5]%N
  | _, _ => False
  end.
Proof. vm_compute. repeat split; reflexivity. Qed.

Lemma ex_bridge_hyps :
  (forall d, (const_hash d < two32)%N) /\
  (N.of_nat (length ex_bridge_files) <= ht_safe_limit)%N /\
  (N.of_nat 4 <= c_SQFS_MAX_BLOCK_SIZE)%N.
Proof.
  split; [intro d; unfold const_hash; rewrite two32_val; lia|].
  split; vm_compute; discriminate.
Qed.

(* (2) the containers alone, step by step.  Entries (hash, id); the callback compares ids; id 0 in
   a search key is a wildcard (answers yes for every entry of that hash) *)
Definition eN : Type := (N * N)%type.
Definition ex_keq (k c : eN) : bool := N.eqb (snd k) 0 || N.eqb (snd k) (snd c).

Inductive bop := BSearch (k : eN) | BInsert (e : eN).

Definition table_search (t : HashModel.htab eN eN) (k : eN) : option eN :=
  match HashModel.ht_search eN eN ex_keq t (fst k) k with
  | HashModel.Ok (Some a) =>
    match HashModel.ht_entry eN eN t a with Some (_, _, d) => Some d | None => None end
  | _ => None
  end.

(* both models side by side; per step: (answer of the list, answer of the table, slots of the table) *)
Fixpoint run_both (ops : list bop) (l : list eN) (t : HashModel.htab eN eN)
  : list (option eN * option eN * N) :=
  match ops with
  | [] => []
  | BSearch k :: r =>
    (l_search fst (ex_keq k) (fst k) l, table_search t k, HashModel.ht_size eN eN t) :: run_both r l t
  | BInsert e :: r =>
    match HashModel.ht_insert eN eN ex_keq t (fst e) e e with
    | HashModel.Ok (t', Some a) =>
      (Some e, match HashModel.ht_entry eN eN t' a with Some (_, _, d) => Some d | None => None end,
       HashModel.ht_size eN eN t') :: run_both r (l_insert fst (ex_keq e) e l) t'
    | _ => []
    end
  end.

Definition ex_ops : list bop :=
  [BInsert (4, 1); BInsert (4, 2); BSearch (4, 2); BSearch (4, 3);     (* colliding hashes, distinct ids *)
   BInsert (9, 3);                                                     (* third entry: 5 -> 7 slots *)
   BSearch (4, 1); BSearch (4, 2); BSearch (9, 3);
   BInsert (4, 2);                                                     (* same id again: replaced *)
   BInsert (11, 4); BInsert (4, 5);                                    (* fifth entry: 7 -> 13 slots *)
   BSearch (4, 5); BSearch (4, 1); BSearch (11, 4); BSearch (11, 5)]%N.

Lemma ex_containers_agree :
  match HashModel.ht_create eN eN with
  | Some t0 =>
    let tr := run_both ex_ops [] t0 in
    length tr = length ex_ops /\
    forallb (fun x => match x with
                      | (Some a, Some b, _) => N.eqb (fst a) (fst b) && N.eqb (snd a) (snd b)
                      | (None, None, _) => true
                      | _ => false
                      end) tr = true /\
    map (fun x => snd x) tr = [5; 5; 5; 5; 7; 7; 7; 7; 7; 7; 13; 13; 13; 13; 13]%N /\
    map (fun x => fst (fst x)) tr =
      [Some (4, 1); Some (4, 2); Some (4, 2); None; Some (9, 3); Some (4, 1); Some (4, 2); Some (9, 3);
       Some (4, 2); Some (11, 4); Some (4, 5); Some (4, 5); Some (4, 1); Some (11, 4); None]%N
  | None => False
  end.
Proof. vm_compute. repeat split; reflexivity. Qed.

(* (3) why [at_most_one] is a hypothesis: with TWO live entries matching a key the list returns
   the first inserted, hash_table.c the first on the probing sequence, and a resize re-inserts in
   slot order: (4,1) sits in slot 4 and (4,2) in slot 1 of the 5-slot table; the 7-slot table gets
   (4,2) first.  The wildcard search then answers (4,1) on the list and (4,2) on the table *)
Lemma ex_probe_order_differs :
  match HashModel.ht_create eN eN with
  | Some t0 =>
    let tr := run_both [BInsert (4, 1); BInsert (4, 2); BInsert (0, 3); BSearch (4, 0)]%N [] t0 in
    nth 3 tr (None, None, 0%N) = (Some (4, 1), Some (4, 2), 7)%N /\
    ~ at_most_one fst (ex_keq (4, 0)%N) 4%N [(4, 1); (4, 2); (0, 3)]%N
  | None => False
  end.
Proof. vm_compute. split; [reflexivity|]. intro H. lia. Qed.

(* (4) between two files (after the first five of ex_bridge_files: the entry for [2] has been replaced): a search for
   the bytes [2] - list: the chunk at (0,3); table: a slot holding exactly that chunk as key and data; a search for
   [9]: none on both sides *)
Lemma ex_bridge_between :
  match HashModel.ht_create chunk chunk with
  | Some t0 =>
    let jobs5 := firstn 5 (map (fun f => file_job 4 (fst f) (snd f)) ex_bridge_files) in
    match run_files const_hash toy_compress toy_uncompress 4 false true 4096 jobs5 ex_bridge_sched 0 (init_proc [7; 7; 7]%N),
          r_run_files const_hash toy_compress toy_uncompress 4 false true 4096 jobs5 ex_bridge_sched 0
                      (strip (init_proc [7; 7; 7]%N)) t0 with
    | Ok st, ROk (sr, t) =>
      let c2 := {| ck_index := 0; ck_offset := 3; ck_size := 1; ck_hash := 0%N |} in
      (exists ca, DedupModel.ht_search toy_uncompress 4 true st (p_cached st) 1 0%N [2]%N (p_ht st) = SFound c2 ca) /\
      (exists a, HashModel.ht_search chunk chunk (keq_of toy_uncompress 4 true st [2]%N) t 0%N (skey 1 0%N)
                 = HashModel.Ok (Some a) /\ HashModel.ht_entry chunk chunk t a = Some (0%N, c2, c2)) /\
      (exists ca, DedupModel.ht_search toy_uncompress 4 true st (p_cached st) 1 0%N [9]%N (p_ht st) = SNone ca) /\
      HashModel.ht_search chunk chunk (keq_of toy_uncompress 4 true st [9]%N) t 0%N (skey 1 0%N) = HashModel.Ok None /\
      HashModel.ht_size chunk chunk t = 7%N
    | _, _ => False
    end
  | None => False
  end.
Proof.
  vm_compute. split; [eexists; reflexivity|]. split; [eexists; split; reflexivity|].
  split; [eexists; reflexivity|]. split; reflexivity.
Qed.
