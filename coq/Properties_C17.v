(* C17 -- packing directives (sort file, -T) are honoured exactly.  Statements only; every
   proof is one [exact] of a lemma from C17/SortProofs.v.  The model (C17/SortModel.v) follows
   bin/gensquashfs/src/sort_by_file.c with the repair of finding F08 applied when its boolean
   argument is [true]; [false] is the code as found.  [fnmatch] is universally quantified:
   no property of the matcher is assumed anywhere. *)
From Coq Require Import List NArith ZArith Bool Permutation Sorting.Sorted.
From SqfsV Require Import C18.CanonModel C17.GenC17 C17.SortModel C17.SortProofs.
Import ListNotations.
Local Open Scope N_scope.

(* ---- sort_file_list: a stable sort by priority, for every list ---- *)
Theorem sort_stable : forall l : list node,
  Permutation (sel_sort l) l /\
  StronglySorted (fun a b => (n_prio a <= n_prio b)%Z) (sel_sort l) /\
  (forall p : Z, filter (fun n => (n_prio n =? p)%Z) (sel_sort l) = filter (fun n => (n_prio n =? p)%Z) l).
Proof. exact sort_stable_l. Qed.
Print Assumptions sort_stable.

(* ... and these three facts determine the output: nothing else is a correct answer *)
Theorem sort_unique : forall l out : list node,
  StronglySorted (fun a b => (n_prio a <= n_prio b)%Z) out ->
  (forall p : Z, filter (fun n => (n_prio n =? p)%Z) out = filter (fun n => (n_prio n =? p)%Z) l) ->
  out = sel_sort l.
Proof. exact sel_sort_unique. Qed.
Print Assumptions sort_unique.

(* ---- the matching loop: every file gets the directive of the FIRST line that matches it,
   for every match oracle, every sort file, every list of files with distinct paths
   (paths of distinct nodes of one tree are distinct; fstree_get_path output always
   canonicalises).  A malformed line makes the whole call fail. ---- *)
Theorem first_match_wins :
  forall (fnmatch : list N -> list N -> bool -> bool) (t : bool) (paths : list (list N)) (text : list N),
  Forall (fun p => canon_result p <> None) paths ->
  NoDup (map cpath_of paths) ->
  match parse_all t (get_lines text) with
  | Some ds =>
    exists ns,
      run_lines fnmatch t (get_lines text) (init_nodes 0 paths) = ROk ns /\
      sort_files fnmatch t paths text = ROk (sel_sort ns) /\
      Forall2 (fun p n => n_path n = p /\ (n_prio n, n_flags n) = assigned fnmatch ds p) paths ns
  | None => sort_files fnmatch t paths text = RErr \/ sort_files fnmatch t paths text = RFuel
  end.
Proof. exact first_match_wins_l. Qed.
Print Assumptions first_match_wins.

(* [assigned] spelled out, so that the statement above can be read without SortProofs.v *)
Theorem assigned_is_first_match : forall fnmatch ds p,
  assigned fnmatch ds p =
  match find (fun d => line_matches fnmatch d (cpath_of p)) ds with
  | Some d => (d_prio d, d_flags d)
  | None => (0%Z, 0)
  end.
Proof. reflexivity. Qed.

(* the fuelled token loop of split_line never runs out of fuel *)
Theorem sort_files_total : forall fnmatch t paths text, sort_files fnmatch t paths text <> RFuel.
Proof. exact SortProofs.sort_files_total. Qed.
Print Assumptions sort_files_total.

(* ---- flag decoding: for every list of keywords (hence every subset of the four flags, in
   every order, with repetitions, mixed with glob keywords) the decoder yields exactly the
   or of their bits; the last glob keyword decides the matching mode ---- *)
Theorem decode_flags_correct : forall (ks : list kw) (sp : N) (rest : list N),
  isspace sp = true ->
  decode_flags (render_flags ks ++ sp :: rest) =
  let '(g, p, fl) := kw_effect ks false false 0 in FOk g p fl (ltrim (sp :: rest)).
Proof. exact decode_flags_rendered. Qed.
Print Assumptions decode_flags_correct.

Theorem flag_set_iff_listed : forall (ks : list kw) (b : kw), is_flag_kw b = true ->
  has_bit (snd (kw_effect ks false false 0)) (kw_bit b) = true <-> In b ks.
Proof. exact kw_effect_flag_iff. Qed.
Print Assumptions flag_set_iff_listed.

Theorem no_other_flag_bits : forall ks,
  N.land (snd (kw_effect ks false false 0)) (N.lnot c_SQFS_BLK_USER_SETTABLE_FLAGS 32) = 0.
Proof. exact no_other_flag_bits_l. Qed.
Print Assumptions no_other_flag_bits.

(* ---- quoted names (F08, repaired code): quoting any name and decoding it gives the
   canonical form of that name, exactly as for an unquoted name ---- *)
Theorem quoted_name_roundtrip : forall s, decode_filename true (quote s) = canon_result s.
Proof. exact quoted_name_l. Qed.
Print Assumptions quoted_name_roundtrip.

Theorem unquoted_name : forall s, (forall r, s <> ch_dquote :: r) -> decode_filename true s = canon_result s.
Proof. exact unquoted_name_l. Qed.

(* the code as found: the quoted name  b c  is decoded as  b cc<quote>  *)
Theorem quoted_name_asfound_refuted : exists s, decode_filename false (quote s) <> canon_result s.
Proof. exact quoted_name_asfound_refuted_l. Qed.
Print Assumptions quoted_name_asfound_refuted.

(* ---- priorities ---- *)
Theorem priority_range : forall s v rest, parse_int s = IOk v rest ->
  (- 9223372036854775807 < v < 9223372036854775807)%Z.
Proof. exact parse_int_range. Qed.
Print Assumptions priority_range.

(* ---- -T / --no-tail-packing touches only files larger than one block, and only one bit ---- *)
Theorem no_tail_packing_only_large : forall nt fsz bs fl,
  (fsz <= bs -> pack_flags nt fsz bs fl = fl) /\
  (nt = false -> pack_flags nt fsz bs fl = fl) /\
  (nt = true -> bs < fsz -> pack_flags nt fsz bs fl = N.lor fl c_SQFS_BLK_DONT_FRAGMENT) /\
  (forall i, N.testbit (pack_flags nt fsz bs fl) i =
             N.testbit fl i || (nt && (bs <? fsz) && N.testbit c_SQFS_BLK_DONT_FRAGMENT i)).
Proof. exact no_tail_packing_l. Qed.
Print Assumptions no_tail_packing_only_large.

(* ---- non-vacuity ---- *)
Definition toy_fnmatch (pat path : list N) (pathname : bool) : bool :=
  (* prefix-star patterns only: enough to exercise glob lines *)
  match rev pat with
  | 42 :: pre_rev => list_N_eqb (firstn (length pre_rev) path) (rev pre_rev)
  | _ => list_N_eqb pat path
  end.

(* files /a/x /a/y /b ; sort file, three lines:  5 [glob] a/<star> | -3 [dont_compress,nosparse] <q>b<q> | 1 a/x
   -> b first (prio -3, flags 0x11), then a/x and a/y with the glob's priority 5 in original
   order; the later exact line for a/x loses against the earlier glob line. *)
Example ex_sort_files :
  sort_files toy_fnmatch true
    [[47;97;47;120]; [47;97;47;121]; [47;98]]
    [53;32;91;103;108;111;98;93;32;97;47;42;10;
     45;51;32;91;100;111;110;116;95;99;111;109;112;114;101;115;115;44;110;111;115;112;97;114;115;101;93;32;34;98;34;10;
     49;32;97;47;120;10]
  = ROk [mknode 2 [47;98] true (-3)%Z 17;
         mknode 0 [47;97;47;120] true 5%Z 0;
         mknode 1 [47;97;47;121] true 5%Z 0].
Proof. vm_compute. reflexivity. Qed.

(* the hypotheses of first_match_wins hold for that file list *)
Example ex_first_match_hyps :
  Forall (fun p => canon_result p <> None) [[47;97;47;120]; [47;97;47;121]; [47;98]] /\
  NoDup (map cpath_of [[47;97;47;120]; [47;97;47;121]; [47;98]]).
Proof.
  split.
  - repeat constructor; vm_compute; discriminate.
  - vm_compute. repeat constructor; cbn; intuition discriminate.
Qed.

(* ties keep their original order, negative priorities come first *)
Example ex_sort_ties :
  map n_id (sel_sort [mknode 0 [] false 7%Z 0; mknode 1 [] false 0%Z 0; mknode 2 [] false 7%Z 0;
                      mknode 3 [] false (-1)%Z 0; mknode 4 [] false 0%Z 0])
  = [3; 1; 4; 0; 2].
Proof. vm_compute. reflexivity. Qed.

(* malformed lines are refused *)
Example ex_malformed :
  map (parse_line true)
    [ [120;32;97]                      (* x a        no number *)
    ; [53;97]                          (* 5a         no space *)
    ; [53;32;91;102;111;111;93;32;97]  (* 5 [foo] a  unknown flag *)
    ; [53;32;91;103;108;111;98;32;97]  (* 5 [glob a  missing bracket *)
    ; [53;32;34;97]                    (* 5 <q>a     unmatched quote *)
    ; [53;32;34;97;92;110;34]          (* 5 <q>a\n<q> unknown escape *)
    ; [53;32;97;47;46;46;47;98]        (* 5 a/../b   not canonicalisable *)
    ] = [LnErr; LnErr; LnErr; LnErr; LnErr; LnErr; LnErr].
Proof. vm_compute. reflexivity. Qed.

(* int64 edges: 2^63-2 is the largest accepted magnitude *)
Example ex_prio_edges :
  (parse_int [57;50;50;51;51;55;50;48;51;54;56;53;52;55;55;53;56;48;54],
   parse_int [57;50;50;51;51;55;50;48;51;54;56;53;52;55;55;53;56;48;55],
   parse_int [45;57;50;50;51;51;55;50;48;51;54;56;53;52;55;55;53;56;48;54;32])
  = (IOk 9223372036854775806%Z [], IOverflow, IOk (-9223372036854775806)%Z [32]).
Proof. vm_compute. reflexivity. Qed.

Example ex_flags_rendered :
  decode_flags (render_flags [KDontCompress; KGlob; KNoSparse; KGlobNoPath; KDontCompress] ++ [32; 32; 120])
  = FOk true false 17 [120].
Proof. vm_compute. reflexivity. Qed.

Example ex_pack_flags :
  (pack_flags true 4096 4096 0, pack_flags true 4097 4096 0, pack_flags false 9999 4096 1, pack_flags true 9999 4096 1)
  = (0, 4, 1, 5).
Proof. vm_compute. reflexivity. Qed.

(* F08 end to end: files /a, /b c, /d and the one-line sort file  -5 <q>b c<q> .  The repaired
   code packs  b c  first; the code as found leaves every file at priority 0, i.e. in default order. *)
Example ex_f08_repaired_vs_asfound :
  (match sort_files toy_fnmatch true [[47;97]; [47;98;32;99]; [47;100]] [45;53;32;34;98;32;99;34;10] with
   | ROk out => map n_id out | _ => [] end,
   match sort_files toy_fnmatch false [[47;97]; [47;98;32;99]; [47;100]] [45;53;32;34;98;32;99;34;10] with
   | ROk out => map n_id out | _ => [] end)
  = ([1; 0; 2], [0; 1; 2]).
Proof. vm_compute. reflexivity. Qed.
