(* C17 -- packing directives (sort file, -T) are honoured exactly.  Statements only; every
   proof is one [exact] of a lemma from C17/SortProofs.v.  The model (C17/SortModel.v) follows
   bin/gensquashfs/src/sort_by_file.c with the repair of finding F08 applied when its boolean
   argument is [true]; [false] is the code as found.  [fnmatch] is universally quantified:
   no property of the matcher is assumed anywhere. *)
From Coq Require Import List NArith ZArith Bool Permutation Sorting.Sorted.
From SqfsV Require Import C18.CanonModel C17.GenC17 C17.SortModel C17.SortProofs.
Import ListNotations.
Local Open Scope N_scope.

(* ---- sort_file_list: a stable sort by priority, for every list ---- *)
Theorem sort_stable : forall l : list node,
  Permutation (sel_sort l) l /\
  StronglySorted (fun a b => (n_prio a <= n_prio b)%Z) (sel_sort l) /\
  (forall p : Z, filter (fun n => (n_prio n =? p)%Z) (sel_sort l) = filter (fun n => (n_prio n =? p)%Z) l).
Proof. exact sort_stable_l. Qed.
Print Assumptions sort_stable.

(* ... and these three facts determine the output: nothing else is a correct answer *)
Theorem sort_unique : forall l out : list node,
  StronglySorted (fun a b => (n_prio a <= n_prio b)%Z) out ->
  (forall p : Z, filter (fun n => (n_prio n =? p)%Z) out = filter (fun n => (n_prio n =? p)%Z) l) ->
  out = sel_sort l.
Proof. exact sel_sort_unique. Qed.
Print Assumptions sort_unique.

(* ---- the matching loop: every file gets the directive of the FIRST line that matches it,
   for every match oracle, every sort file, every list of files with distinct paths
   (paths of distinct nodes of one tree are distinct; fstree_get_path output always
   canonicalises).  A malformed line makes the whole call fail. ---- *)
Theorem first_match_wins :
  forall (fnmatch : list N -> list N -> bool -> bool) (t : bool) (paths : list (list N)) (text : list N),
  Forall (fun p => canon_result p <> None) paths ->
  NoDup (map cpath_of paths) ->
  match parse_all t (get_lines text) with
  | Some ds =>
    exists ns,
      run_lines fnmatch t (get_lines text) (init_nodes 0 paths) = ROk ns /\
      sort_files fnmatch t paths text = ROk (sel_sort ns) /\
      Forall2 (fun p n => n_path n = p /\ (n_prio n, n_flags n) = assigned fnmatch ds p) paths ns
  | None => sort_files fnmatch t paths text = RErr \/ sort_files fnmatch t paths text = RFuel
  end.
Proof. exact first_match_wins_l. Qed.
Print Assumptions first_match_wins.

(* [assigned] spelled out, so that the statement above can be read without SortProofs.v *)
Theorem assigned_is_first_match : forall fnmatch ds p,
  assigned fnmatch ds p =
  match find (fun d => line_matches fnmatch d (cpath_of p)) ds with
  | Some d => (d_prio d, d_flags d)
  | None => (0%Z, 0)
  end.
Proof. reflexivity. Qed.

(* the fuelled token loop of split_line never runs out of fuel *)
Theorem sort_files_total : forall fnmatch t paths text, sort_files fnmatch t paths text <> RFuel.
Proof. exact SortProofs.sort_files_total. Qed.
Print Assumptions sort_files_total.

(* ---- flag decoding: for every list of keywords (hence every subset of the four flags, in
   every order, with repetitions, mixed with glob keywords) the decoder yields exactly the
   or of their bits; the last glob keyword decides the matching mode ---- *)
Theorem decode_flags_correct : forall (ks : list kw) (sp : N) (rest : list N),
  isspace sp = true ->
  decode_flags (render_flags ks ++ sp :: rest) =
  let '(g, p, fl) := kw_effect ks false false 0 in FOk g p fl (ltrim (sp :: rest)).
Proof. exact decode_flags_rendered. Qed.
Print Assumptions decode_flags_correct.

Theorem flag_set_iff_listed : forall (ks : list kw) (b : kw), is_flag_kw b = true ->
  has_bit (snd (kw_effect ks false false 0)) (kw_bit b) = true <-> In b ks.
Proof. exact kw_effect_flag_iff. Qed.
Print Assumptions flag_set_iff_listed.

Theorem no_other_flag_bits : forall ks,
  N.land (snd (kw_effect ks false false 0)) (N.lnot c_SQFS_BLK_USER_SETTABLE_FLAGS 32) = 0.
Proof. exact no_other_flag_bits_l. Qed.
Print Assumptions no_other_flag_bits.

(* ---- quoted names (F08, repaired code): quoting any name and decoding it gives the
   canonical form of that name, exactly as for an unquoted name ---- *)
Theorem quoted_name_roundtrip : forall s, decode_filename true (quote s) = canon_result s.
Proof. exact quoted_name_l. Qed.
Print Assumptions quoted_name_roundtrip.

Theorem unquoted_name : forall s, (forall r, s <> ch_dquote :: r) -> decode_filename true s = canon_result s.
Proof. exact unquoted_name_l. Qed.

(* the code as found: the quoted name  b c  is decoded as  b cc<quote>  *)
Theorem quoted_name_asfound_refuted : exists s, decode_filename false (quote s) <> canon_result s.
Proof. exact quoted_name_asfound_refuted_l. Qed.
Print Assumptions quoted_name_asfound_refuted.

(* ---- priorities ---- *)
Theorem priority_range : forall s v rest, parse_int s = IOk v rest ->
  (- 9223372036854775807 < v < 9223372036854775807)%Z.
Proof. exact parse_int_range. Qed.
Print Assumptions priority_range.

(* ---- -T / --no-tail-packing touches only files larger than one block, and only one bit ---- *)
Theorem no_tail_packing_only_large : forall nt fsz bs fl,
  (fsz <= bs -> pack_flags nt fsz bs fl = fl) /\
  (nt = false -> pack_flags nt fsz bs fl = fl) /\
  (nt = true -> bs < fsz -> pack_flags nt fsz bs fl = N.lor fl c_SQFS_BLK_DONT_FRAGMENT) /\
  (forall i, N.testbit (pack_flags nt fsz bs fl) i =
             N.testbit fl i || (nt && (bs <? fsz) && N.testbit c_SQFS_BLK_DONT_FRAGMENT i)).
Proof. exact no_tail_packing_l. Qed.
Print Assumptions no_tail_packing_only_large.

(* ---- non-vacuity ---- *)
Definition toy_fnmatch (pat path : list N) (pathname : bool) : bool :=
  (* prefix-star patterns only: enough to exercise glob lines *)
  match rev pat with
  | 42 :: pre_rev => list_N_eqb (firstn (length pre_rev) path) (rev pre_rev)
  | _ => list_N_eqb pat path
  end.

(* files /a/x /a/y /b ; sort file, three lines:  5 [glob] a/<star> | -3 [dont_compress,nosparse] <q>b<q> | 1 a/x
   -> b first (prio -3, flags 0x11), then a/x and a/y with the glob's priority 5 in original
   order; the later exact line for a/x loses against the earlier glob line. *)
Example ex_sort_files :
  sort_files toy_fnmatch true
    [[47;97;47;120]; [47;97;47;121]; [47;98]]
    [53;32;91;103;108;111;98;93;32;97;47;42;10;
     45;51;32;91;100;111;110;116;95;99;111;109;112;114;101;115;115;44;110;111;115;112;97;114;115;101;93;32;34;98;34;10;
     49;32;97;47;120;10]
  = ROk [mknode 2 [47;98] true (-3)%Z 17;
         mknode 0 [47;97;47;120] true 5%Z 0;
         mknode 1 [47;97;47;121] true 5%Z 0].
Proof. vm_compute. reflexivity. Qed.

(* the hypotheses of first_match_wins hold for that file list *)
Example ex_first_match_hyps :
  Forall (fun p => canon_result p <> None) [[47;97;47;120]; [47;97;47;121]; [47;98]] /\
  NoDup (map cpath_of [[47;97;47;120]; [47;97;47;121]; [47;98]]).
Proof.
  split.
  - repeat constructor; vm_compute; discriminate.
  - vm_compute. repeat constructor; cbn; intuition discriminate.
Qed.

(* ties keep their original order, negative priorities come first *)
Example ex_sort_ties :
  map n_id (sel_sort [mknode 0 [] false 7%Z 0; mknode 1 [] false 0%Z 0; mknode 2 [] false 7%Z 0;
                      mknode 3 [] false (-1)%Z 0; mknode 4 [] false 0%Z 0])
  = [3; 1; 4; 0; 2].
Proof. vm_compute. reflexivity. Qed.

(* malformed lines are refused *)
Example ex_malformed :
  map (parse_line true)
    [ [120;32;97]                      (* x a        no number *)
    ; [53;97]                          (* 5a         no space *)
    ; [53;32;91;102;111;111;93;32;97]  (* 5 [foo] a  unknown flag *)
    ; [53;32;91;103;108;111;98;32;97]  (* 5 [glob a  missing bracket *)
    ; [53;32;34;97]                    (* 5 <q>a     unmatched quote *)
    ; [53;32;34;97;92;110;34]          (* 5 <q>a\n<q> unknown escape *)
    ; [53;32;97;47;46;46;47;98]        (* 5 a/../b   not canonicalisable *)
    ] = [LnErr; LnErr; LnErr; LnErr; LnErr; LnErr; LnErr].
Proof. vm_compute. reflexivity. Qed.

(* int64 edges: 2^63-2 is the largest accepted magnitude *)
Example ex_prio_edges :
  (parse_int [57;50;50;51;51;55;50;48;51;54;56;53;52;55;55;53;56;48;54],
   parse_int [57;50;50;51;51;55;50;48;51;54;56;53;52;55;55;53;56;48;55],
   parse_int [45;57;50;50;51;51;55;50;48;51;54;56;53;52;55;55;53;56;48;54;32])
  = (IOk 9223372036854775806%Z [], IOverflow, IOk (-9223372036854775806)%Z [32]).
Proof. vm_compute. reflexivity. Qed.

Example ex_flags_rendered :
  decode_flags (render_flags [KDontCompress; KGlob; KNoSparse; KGlobNoPath; KDontCompress] ++ [32; 32; 120])
  = FOk true false 17 [120].
Proof. vm_compute. reflexivity. Qed.

Example ex_pack_flags :
  (pack_flags true 4096 4096 0, pack_flags true 4097 4096 0, pack_flags false 9999 4096 1, pack_flags true 9999 4096 1)
  = (0, 4, 1, 5).
Proof. vm_compute. reflexivity. Qed.

(* F08 end to end: files /a, /b c, /d and the one-line sort file  -5 <q>b c<q> .  The repaired
   code packs  b c  first; the code as found leaves every file at priority 0, i.e. in default order. *)
Example ex_f08_repaired_vs_asfound :
  (match sort_files toy_fnmatch true [[47;97]; [47;98;32;99]; [47;100]] [45;53;32;34;98;32;99;34;10] with
   | ROk out => map n_id out | _ => [] end,
   match sort_files toy_fnmatch false [[47;97]; [47;98;32;99]; [47;100]] [45;53;32;34;98;32;99;34;10] with
   | ROk out => map n_id out | _ => [] end)
  = ([1; 0; 2], [0; 1; 2]).
Proof. vm_compute. reflexivity. Qed.

(* ================================================================================================ *)
(* Directive effects in the on-disk layout                                                           *)
(* ================================================================================================ *)
(* What the flags do once they have reached the block processor.  Model: FlagModel.tool_pack =
   pack_flags (pack_file, above) + uflags_of (the SQFS_BLK_* bits of sqfs/block.h, GenC17.v) + C08's
   executable model [pack] of lib/sqfs/src/block_processor/{frontend,block_processor,backend}.c and
   block_writer.c (begin_file / append / end_file as [file_job], process_block as [work_block] incl. sparse
   detection and compress-or-store, process_completed_block / process_completed_fragment incl. the
   fragment hash table and the DONT_COMPRESS inheritance of a fragment block, the io queue, sync /
   finish, write_data_block / deduplicate_blocks); the data reader [read_back] is the specification of
   the on-disk format.  Observables of the final state [st]: [p_start st fid] / [p_size st fid k] /
   [p_frag st fid] = block start, size word k and fragment reference of inode fid; [p_ftab st idx] =
   fragment table entry; [w_file (p_wr st)] = the output file.  [sw_of n c] = n | (c ? 0 : 1 << 24).
   Quantified: every checksum function (no hypothesis), every compressor pair meeting the contract of
   sqfs/compressor.h, every block size the format allows, every initial content of the output, every
   list of files with arbitrary flags and contents, every schedule of the pool.  Tie: props/C17/flagleg.py
   (extracted tool_pack vs. the real block processor + block writer, exact). *)
From SqfsV Require Import Gen.Constants.
From SqfsV Require Import C08.DedupModel C08.DedupLemmas C08.DedupWriterProofs C08.DedupTheorems.
From SqfsV Require Import C17.FlagModel C17.FlagSpec C17.FlagWriter C17.FlagFinal C17.FlagPipe
     C17.FlagTheorems C17.FlagWitness C17.FlagExport.
Local Close Scope N_scope.

(* ---- flags_do_not_change_content ---------------------------------------------------------------- *)
(* for EVERY node flag word of every file, with and without -T: packing succeeds, every file reads
   back byte-exact through the data reader, the bytes before the data area are untouched (instance of
   C08's dedup_sound through the flag word of the tools) *)
Theorem flags_do_not_change_content :
  forall (hashf : list N -> N) (compress : list N -> option (list N))
         (uncompress : list N -> nat -> option (list N)) (bs half : nat),
  (forall b c, compress b = Some c -> length c < length b /\ forall n, length b <= n -> uncompress c n = Some b) ->
  0 < bs -> (N.of_nat bs <= c_SQFS_MAX_BLOCK_SIZE)%N -> 0 < half ->
  forall (no_tail : bool) (file0 : list N) (l : list (N * list N)) (sched : list nat),
  exists st,
    tool_pack hashf compress uncompress bs half no_tail file0 l sched = DedupModel.Ok st /\
    (forall fid w d, nth_error l fid = Some (w, d) -> read_back uncompress bs st fid (length d) = Some d) /\
    firstn (length file0) (w_file (p_wr st)) = file0.
Proof. exact flags_keep_content_l. Qed.
Print Assumptions flags_do_not_change_content.

(* ---- dont_compress_stored ----------------------------------------------------------------------- *)
(* a DONT_COMPRESS file: (1) every block is recorded with the uncompressed bit and its own length - or
   as a hole if it is all zero and IGNORE_SPARSE is not set; (2) the bytes at its block start are the
   kept blocks themselves, in order; (3) if its tail end got a fragment reference that no earlier file
   has (i.e. it was not deduplicated: finding F23 below), that fragment block is stored with the
   uncompressed bit and the tail end sits in it raw at the recorded offset *)
Theorem dont_compress_stored :
  forall (hashf : list N -> N) (compress : list N -> option (list N))
         (uncompress : list N -> nat -> option (list N)) (bs half : nat),
  (forall b c, compress b = Some c -> length c < length b /\ forall n, length b <= n -> uncompress c n = Some b) ->
  0 < bs -> (N.of_nat bs <= c_SQFS_MAX_BLOCK_SIZE)%N -> 0 < half ->
  forall (file0 : list N) (files : list (uflags * list N)) (sched : list nat) (st : proc),
  pack hashf compress uncompress bs false true half file0 files sched = DedupModel.Ok st ->
  forall fid fl d, nth_error files fid = Some (fl, d) -> uf_dont_compress fl = true ->
  (forall k b, nth_error (j_blocks (file_job bs fl d)) k = Some b -> b <> [] ->
     p_size st fid k = Some (if negb (uf_ignore_sparse fl) && all_zero b then 0%N else sw_of (length b) false)) /\
  (j_blocks (file_job bs fl d) <> [] ->
   let D := concat (filter (kept (uf_ignore_sparse fl)) (j_blocks (file_job bs fl d))) in
   p_start st fid + length D <= length (w_file (p_wr st)) /\
   slice (w_file (p_wr st)) (p_start st fid) (length D) = D) /\
  (forall idx o t, p_frag st fid = Some (idx, o) -> j_tail (file_job bs fl d) = Some t ->
     (forall fid', fid' < fid -> p_frag st fid' <> Some (idx, o)) ->
     exists loc n,
       p_ftab st idx = (loc, sw_of n false) /\ o + length t <= n <= bs /\
       loc + n <= length (w_file (p_wr st)) /\
       slice (w_file (p_wr st)) (loc + o) (length t) = t).
Proof. exact dont_compress_stored_l. Qed.
Print Assumptions dont_compress_stored.

(* the hypothesis of (3) in terms of the input: a tail end that differs from the tail end of every
   earlier file is never deduplicated *)
Theorem distinct_tail_not_shared :
  forall (hashf : list N -> N) (compress : list N -> option (list N))
         (uncompress : list N -> nat -> option (list N)) (bs half : nat),
  (forall b c, compress b = Some c -> length c < length b /\ forall n, length b <= n -> uncompress c n = Some b) ->
  0 < bs -> (N.of_nat bs <= c_SQFS_MAX_BLOCK_SIZE)%N -> 0 < half ->
  forall (file0 : list N) (files : list (uflags * list N)) (sched : list nat) (st : proc),
  pack hashf compress uncompress bs false true half file0 files sched = DedupModel.Ok st ->
  forall fid fl d idx o t,
  nth_error files fid = Some (fl, d) -> p_frag st fid = Some (idx, o) ->
  j_tail (file_job bs fl d) = Some t ->
  (forall fid' fl' d', fid' < fid -> nth_error files fid' = Some (fl', d') ->
                       j_tail (file_job bs fl' d') <> Some t) ->
  forall fid', fid' < fid -> p_frag st fid' <> Some (idx, o).
Proof. exact distinct_tail_unshared_l. Qed.
Print Assumptions distinct_tail_not_shared.

(* finding F23 (recorded, props/C17/findings.json): without that hypothesis (3) is false - the tail end
   of a DONT_COMPRESS file that equals an earlier tail end is deduplicated into that file's fragment
   block, which is stored compressed.  Manual: "the entire fragment block is left uncompressed" *)
Theorem dont_compress_fragment_unconditional_refuted :
  exists hashf compress uncompress bs half file0 files sched st fid fl d idx o,
    (forall b c, compress b = Some c -> length c < length b /\ forall n, length b <= n -> uncompress c n = Some b) /\
    0 < bs /\ (N.of_nat bs <= c_SQFS_MAX_BLOCK_SIZE)%N /\ 0 < half /\
    pack hashf compress uncompress bs false true half file0 files sched = DedupModel.Ok st /\
    nth_error files fid = Some (fl, d) /\ uf_dont_compress fl = true /\
    p_frag st fid = Some (idx, o) /\ sw_compressed (snd (p_ftab st idx)) = true.
Proof.
  destruct f23_exists as (st & E & W1 & W4). destruct bs8_ok as (B1 & B2 & B3).
  exists const_hash, toy_compress, toy_uncompress, 8, 4096, [], f23_files, [], st,
         1, (mkfl true false false false), (sevens 6), 0, 0.
  split; [exact toy_contract|]. split; [exact B1|]. split; [exact B2|]. split; [exact B3|].
  split; [exact E|]. split; [reflexivity|]. split; [reflexivity|]. split; [exact W1|exact W4].
Qed.
Print Assumptions dont_compress_fragment_unconditional_refuted.

(* ---- dont_fragment_no_tail ---------------------------------------------------------------------- *)
(* a DONT_FRAGMENT file has no fragment reference (0xFFFFFFFF in the inode); if its size is not a
   multiple of the block size, the short rest is the last data block: block number size / block_size,
   with its own size word (a hole iff it is all zero and IGNORE_SPARSE is not set) *)
Theorem dont_fragment_no_tail :
  forall (hashf : list N -> N) (compress : list N -> option (list N))
         (uncompress : list N -> nat -> option (list N)) (bs half : nat),
  (forall b c, compress b = Some c -> length c < length b /\ forall n, length b <= n -> uncompress c n = Some b) ->
  0 < bs -> (N.of_nat bs <= c_SQFS_MAX_BLOCK_SIZE)%N -> 0 < half ->
  forall (file0 : list N) (files : list (uflags * list N)) (sched : list nat) (st : proc),
  pack hashf compress uncompress bs false true half file0 files sched = DedupModel.Ok st ->
  forall fid fl d, nth_error files fid = Some (fl, d) -> uf_dont_fragment fl = true ->
  p_frag st fid = None /\
  forall r, r = skipn (length d / bs * bs) d -> r <> [] ->
    nth_error (j_blocks (file_job bs fl d)) (length d / bs) = Some r /\
    length (j_blocks (file_job bs fl d)) = S (length d / bs) /\
    exists w, p_size st fid (length d / bs) = Some w /\
              sw_sparse w = negb (uf_ignore_sparse fl) && all_zero r.
Proof. exact dont_fragment_no_tail_l. Qed.
Print Assumptions dont_fragment_no_tail.

(* ---- nosparse_materialised ---------------------------------------------------------------------- *)
(* (1) blocks: the size word of every non-empty block is a hole marker (size field 0, in fact the word
   0) exactly if the block is all zero and the file does not carry IGNORE_SPARSE - with the flag an
   all-zero block is written out; *)
Theorem nosparse_materialised_blocks :
  forall (hashf : list N -> N) (compress : list N -> option (list N))
         (uncompress : list N -> nat -> option (list N)) (bs half : nat),
  (forall b c, compress b = Some c -> length c < length b /\ forall n, length b <= n -> uncompress c n = Some b) ->
  0 < bs -> (N.of_nat bs <= c_SQFS_MAX_BLOCK_SIZE)%N -> 0 < half ->
  forall (file0 : list N) (files : list (uflags * list N)) (sched : list nat) (st : proc),
  pack hashf compress uncompress bs false true half file0 files sched = DedupModel.Ok st ->
  forall fid fl d k b,
  nth_error files fid = Some (fl, d) -> nth_error (j_blocks (file_job bs fl d)) k = Some b -> b <> [] ->
  exists w, p_size st fid k = Some w /\
            sw_sparse w = negb (uf_ignore_sparse fl) && all_zero b /\
            (negb (uf_ignore_sparse fl) && all_zero b = true -> w = 0%N).
Proof. exact sparse_word_l. Qed.
Print Assumptions nosparse_materialised_blocks.

(* (2) the tail end: all zero without the flag -> no fragment, recorded as a hole in the slot behind
   the full blocks; otherwise (in particular all zero WITH the flag) a fragment reference into a
   fragment block that has a non-zero size word, decodes, and holds the tail end *)
Theorem nosparse_materialised_tail :
  forall (hashf : list N -> N) (compress : list N -> option (list N))
         (uncompress : list N -> nat -> option (list N)) (bs half : nat),
  (forall b c, compress b = Some c -> length c < length b /\ forall n, length b <= n -> uncompress c n = Some b) ->
  0 < bs -> (N.of_nat bs <= c_SQFS_MAX_BLOCK_SIZE)%N -> 0 < half ->
  forall (file0 : list N) (files : list (uflags * list N)) (sched : list nat) (st : proc),
  pack hashf compress uncompress bs false true half file0 files sched = DedupModel.Ok st ->
  forall fid fl d t,
  nth_error files fid = Some (fl, d) -> j_tail (file_job bs fl d) = Some t ->
  if negb (uf_ignore_sparse fl) && all_zero t
  then p_frag st fid = None /\ p_size st fid (length (j_blocks (file_job bs fl d)) - 1) = Some 0%N
  else exists idx o data,
         p_frag st fid = Some (idx, o) /\ idx < p_nfrag st /\
         sw_sparse (snd (p_ftab st idx)) = false /\
         decode_block uncompress (w_file (p_wr st)) (fst (p_ftab st idx)) (snd (p_ftab st idx)) bs = Some data /\
         o + length t <= length data /\ slice data o (length t) = t.
Proof. exact tail_outcome. Qed.
Print Assumptions nosparse_materialised_tail.

(* (3) repaired by fix F22 (block_processor.c: no sparse detection on assembled fragment blocks): EVERY
   entry of the fragment table describes a block that was written - also the all-zero fragment block
   the zero tail ends of nosparse files make up *)
Theorem fragment_blocks_always_written :
  forall (hashf : list N -> N) (compress : list N -> option (list N))
         (uncompress : list N -> nat -> option (list N)) (bs half : nat),
  (forall b c, compress b = Some c -> length c < length b /\ forall n, length b <= n -> uncompress c n = Some b) ->
  0 < bs -> (N.of_nat bs <= c_SQFS_MAX_BLOCK_SIZE)%N -> 0 < half ->
  forall (file0 : list N) (files : list (uflags * list N)) (sched : list nat) (st : proc),
  pack hashf compress uncompress bs false true half file0 files sched = DedupModel.Ok st ->
  forall idx, idx < p_nfrag st ->
  sw_sparse (snd (p_ftab st idx)) = false /\
  exists data, decode_block uncompress (w_file (p_wr st)) (fst (p_ftab st idx)) (snd (p_ftab st idx)) bs = Some data /\
               0 < length data <= bs.
Proof. exact frag_table_written. Qed.
Print Assumptions fragment_blocks_always_written.

(* the worker as found (sparse detection also on fragment blocks: first argument false) marks an all-zero
   fragment block sparse, i.e. it is never written; the repaired call (true) does not *)
Example ex_f22_worker :
  pb_sparse (work_block const_hash toy_compress false false false false (repeat 0%N 5)) = true /\
  pb_sparse (work_block const_hash toy_compress true false false false (repeat 0%N 5)) = false.
Proof. exact f22_worker. Qed.

(* ---- dont_dedup_unshared ------------------------------------------------------------------------ *)
(* [disk_data hashf compress bs fl d]: the bytes the blocks of a file leave in the output (compressed or
   raw, holes nothing).  A DONT_DEDUPLICATE file that writes at least one block starts behind the end of
   every earlier file that writes one, behind the initial content, and inside the output; *)
Theorem dont_dedup_unshared_blocks :
  forall (hashf : list N -> N) (compress : list N -> option (list N))
         (uncompress : list N -> nat -> option (list N)) (bs half : nat),
  (forall b c, compress b = Some c -> length c < length b /\ forall n, length b <= n -> uncompress c n = Some b) ->
  0 < bs -> (N.of_nat bs <= c_SQFS_MAX_BLOCK_SIZE)%N -> 0 < half ->
  forall (file0 : list N) (files : list (uflags * list N)) (sched : list nat) (st : proc),
  pack hashf compress uncompress bs false true half file0 files sched = DedupModel.Ok st ->
  forall fid1 fid2 fl1 d1 fl2 d2,
  fid1 < fid2 -> nth_error files fid1 = Some (fl1, d1) -> nth_error files fid2 = Some (fl2, d2) ->
  uf_dont_dedup fl2 = true ->
  disk_data hashf compress bs fl1 d1 <> [] -> disk_data hashf compress bs fl2 d2 <> [] ->
  p_start st fid1 + length (disk_data hashf compress bs fl1 d1) <= p_start st fid2.
Proof. exact dont_dedup_blocks_l. Qed.
Print Assumptions dont_dedup_unshared_blocks.

Theorem dont_dedup_unshared_start :
  forall (hashf : list N -> N) (compress : list N -> option (list N))
         (uncompress : list N -> nat -> option (list N)) (bs half : nat),
  (forall b c, compress b = Some c -> length c < length b /\ forall n, length b <= n -> uncompress c n = Some b) ->
  0 < bs -> (N.of_nat bs <= c_SQFS_MAX_BLOCK_SIZE)%N -> 0 < half ->
  forall (file0 : list N) (files : list (uflags * list N)) (sched : list nat) (st : proc),
  pack hashf compress uncompress bs false true half file0 files sched = DedupModel.Ok st ->
  forall fid fl d, nth_error files fid = Some (fl, d) -> uf_dont_dedup fl = true ->
  disk_data hashf compress bs fl d <> [] ->
  length file0 <= p_start st fid /\
  p_start st fid + length (disk_data hashf compress bs fl d) <= length (w_file (p_wr st)).
Proof. exact dont_dedup_start_l. Qed.
Print Assumptions dont_dedup_unshared_start.

(* its tail end is appended without lookup: every fragment of an earlier file lies in an earlier
   fragment block or in the same block and ends at or before it (so nothing is shared with a file
   packed before; a LATER file may still be deduplicated against it - example ex_dont_dedup) *)
Theorem dont_dedup_unshared_tail :
  forall (hashf : list N -> N) (compress : list N -> option (list N))
         (uncompress : list N -> nat -> option (list N)) (bs half : nat),
  (forall b c, compress b = Some c -> length c < length b /\ forall n, length b <= n -> uncompress c n = Some b) ->
  0 < bs -> (N.of_nat bs <= c_SQFS_MAX_BLOCK_SIZE)%N -> 0 < half ->
  forall (file0 : list N) (files : list (uflags * list N)) (sched : list nat) (st : proc),
  pack hashf compress uncompress bs false true half file0 files sched = DedupModel.Ok st ->
  forall fid fl d i o,
  nth_error files fid = Some (fl, d) -> uf_dont_dedup fl = true -> p_frag st fid = Some (i, o) ->
  forall fid' fl' d' i' o' t', fid' < fid -> nth_error files fid' = Some (fl', d') ->
    p_frag st fid' = Some (i', o') -> j_tail (file_job bs fl' d') = Some t' ->
    i' < i \/ (i' = i /\ o' + length t' <= o).
Proof. exact dont_dedup_tail_l. Qed.
Print Assumptions dont_dedup_unshared_tail.

(* ---- layout_follows_order ----------------------------------------------------------------------- *)
(* two files that both write blocks, in packing order: the later one lies behind the earlier one, or
   deduplication was allowed for it (and it starts inside the output: it shares earlier storage).
   WEAK (audit 4, finding 1): the second half of the right disjunct holds for EVERY file that stores a byte, so the right
   disjunct is just "file 2 does not carry DONT_DEDUPLICATE" and this theorem says nothing about such files (it is
   dont_dedup_unshared_blocks plus a tautology).  Kept for reference; the statements that constrain the default case are
   layout_follows_order_strong (the sharing escape = what deduplication really guarantees), layout_log_strong and
   distinct_data_laid_out_in_order (no escape, every flag word) in the last section of this file. *)
Theorem layout_follows_order :
  forall (hashf : list N -> N) (compress : list N -> option (list N))
         (uncompress : list N -> nat -> option (list N)) (bs half : nat),
  (forall b c, compress b = Some c -> length c < length b /\ forall n, length b <= n -> uncompress c n = Some b) ->
  0 < bs -> (N.of_nat bs <= c_SQFS_MAX_BLOCK_SIZE)%N -> 0 < half ->
  forall (file0 : list N) (files : list (uflags * list N)) (sched : list nat) (st : proc),
  pack hashf compress uncompress bs false true half file0 files sched = DedupModel.Ok st ->
  forall fid1 fid2 fl1 d1 fl2 d2,
  fid1 < fid2 -> nth_error files fid1 = Some (fl1, d1) -> nth_error files fid2 = Some (fl2, d2) ->
  disk_data hashf compress bs fl1 d1 <> [] -> disk_data hashf compress bs fl2 d2 <> [] ->
  p_start st fid1 + length (disk_data hashf compress bs fl1 d1) <= p_start st fid2 \/
  (uf_dont_dedup fl2 = false /\ p_start st fid2 < length (w_file (p_wr st))).
Proof. exact layout_pair_l. Qed.
Print Assumptions layout_follows_order.

(* the strong form: there is a chronological log (newest first) of everything the block writer stored -
   one entry (LFile fid, block start, bytes on disk) per file that writes blocks, in packing order, one
   (LFrag idx, location, size) per written fragment block - such that every entry starts exactly at the
   end of the output as the older entries left it ([wm]: the maximum of their ends, initially the
   length of the initial content), or is a file without DONT_DEDUPLICATE that starts before that mark;
   and the output ends where the log says: nothing is wasted, nothing is out of order.
   ([fl_of bs files fid]: the flags of file fid.)
   The shared case here is only "starts before that mark"; layout_log_strong (last section) carries the bytes of every
   entry, states the output as the replay of the log and says what stood at the start offset of a shared entry. *)
Theorem layout_log :
  forall (hashf : list N -> N) (compress : list N -> option (list N))
         (uncompress : list N -> nat -> option (list N)) (bs half : nat),
  (forall b c, compress b = Some c -> length c < length b /\ forall n, length b <= n -> uncompress c n = Some b) ->
  0 < bs -> (N.of_nat bs <= c_SQFS_MAX_BLOCK_SIZE)%N -> 0 < half ->
  forall (file0 : list N) (files : list (uflags * list N)) (sched : list nat) (st : proc),
  pack hashf compress uncompress bs false true half file0 files sched = DedupModel.Ok st ->
  exists log : list lent,
    LogOk (length file0) (fun fid => uf_dont_dedup (fl_of bs files fid)) log /\
    length (w_file (p_wr st)) = wm (length file0) log /\
    StronglySorted gt (log_fids log) /\
    (forall fid fl d, nth_error files fid = Some (fl, d) -> disk_data hashf compress bs fl d <> [] ->
       In {| le_kind := LFile fid; le_loc := p_start st fid;
             le_len := length (disk_data hashf compress bs fl d) |} log) /\
    (forall e fid, In e log -> le_kind e = LFile fid ->
       exists fl d, nth_error files fid = Some (fl, d) /\ disk_data hashf compress bs fl d <> [] /\
                    le_loc e = p_start st fid /\ le_len e = length (disk_data hashf compress bs fl d)) /\
    (forall e idx, In e log -> le_kind e = LFrag idx ->
       idx < p_nfrag st /\ 0 < le_len e /\
       exists w, p_ftab st idx = (le_loc e, w) /\ sw_size w = le_len e).
Proof. exact layout_log_l. Qed.
Print Assumptions layout_log.

(* when the block writer shares: at the end of a file ([WOpen]: [pre] / [hist] = output and block
   history when the file's first block arrived, [cur] = the blocks stored since) deduplicate_blocks hands
   out the fresh location, or - only without DONT_DEDUPLICATE - the offset of an earlier block where a run
   with the same size words, checksums AND bytes starts; the output then ends at max (old end, end of
   that run) *)
Theorem share_only_identical_run :
  forall half, 0 < half ->
  forall base w claims pre hist cur dd evs w' loc evs',
  WOpen base w claims pre hist cur -> all_stored cur ->
  deduplicate_blocks false half w dd evs = WOk w' loc evs' ->
  (cur = [] -> w_file w' = pre /\ loc = 0) /\
  (cur <> [] ->
   (loc = length pre /\ w_file w' = pre ++ cat cur) \/
   (dd = false /\ loc < length pre /\
    length (w_file w') = Nat.max (length pre) (loc + length (cat cur)) /\
    exists i, i < length hist /\ loc = bi_off (nth i hist dflt_bi) /\
              hashes_match (firstn (length cur) (skipn i (w_blocks w))) (infos (length pre) cur) = true /\
              slice (w_file w) loc (length (cat cur)) = cat cur)).
Proof. exact dedup_loc. Qed.
Print Assumptions share_only_identical_run.

(* ---- no_tail_packing_only_large, end to end ------------------------------------------------------- *)
(* -T: a file of at most one block is handed to the block processor with exactly the flags it has
   without -T; a larger file gets DONT_FRAGMENT, keeps every other flag, and ends without a fragment *)
Theorem no_tail_packing_effect :
  forall (hashf : list N -> N) (compress : list N -> option (list N))
         (uncompress : list N -> nat -> option (list N)) (bs half : nat),
  (forall b c, compress b = Some c -> length c < length b /\ forall n, length b <= n -> uncompress c n = Some b) ->
  0 < bs -> (N.of_nat bs <= c_SQFS_MAX_BLOCK_SIZE)%N -> 0 < half ->
  forall (file0 : list N) (l : list (N * list N)) (sched : list nat) (st : proc),
  tool_pack hashf compress uncompress bs half true file0 l sched = DedupModel.Ok st ->
  forall fid w d, nth_error l fid = Some (w, d) ->
  (length d <= bs -> tool_flags true bs w d = tool_flags false bs w d) /\
  (bs < length d ->
   p_frag st fid = None /\
   uf_dont_fragment (tool_flags true bs w d) = true /\
   uf_dont_compress (tool_flags true bs w d) = uf_dont_compress (uflags_of w) /\
   uf_dont_dedup (tool_flags true bs w d) = uf_dont_dedup (uflags_of w) /\
   uf_ignore_sparse (tool_flags true bs w d) = uf_ignore_sparse (uflags_of w) /\
   uf_dont_hash (tool_flags true bs w d) = uf_dont_hash (uflags_of w)).
Proof. exact no_tail_effect_l. Qed.
Print Assumptions no_tail_packing_effect.

(* ---- export_table_correct ------------------------------------------------------------------------- *)
(* --exportable (cfg->exportable) on the whole-image model of coq/Image (sqfs_serialize_fstree +
   dir_writer.c export table + sqfs_writer_finish): without it the image has no export table; with it the
   table read through the super block has one slot per inode and slot k-1 holds the inode reference of
   inode k for the root and for every inode that is an entry of a directory (= reachable from the root) *)
Theorem export_table_correct : forall compress uncompress, comp_contract compress uncompress ->
  forall limit, (limit <= 65535)%N ->
  forall cfg inp w,
  FinishModel.write_image compress limit cfg inp = Res.Ok w ->
  ImageProofs.image_domain cfg inp = true -> ImageProofs.image_fits w = true ->
  let b := FinishModel.image_bytes w in
  let t := FinishModel.in_tree inp in
  (FinishModel.c_exportable cfg = false ->
   ReaderModel.read_export uncompress b (FinishModel.w_super w) = Some None) /\
  (FinishModel.c_exportable cfg = true -> exists l,
     ReaderModel.read_export uncompress b (FinishModel.w_super w) = Some (Some l) /\
     Common.lenN l = Res.nlen t /\
     forall c, c = Res.nlen t \/ In c (ExportInv.kids_upto t (length t)) ->
               nth (N.to_nat (c - 1)) l DirModel.U64MAX
               = TreeModel.ref_of (TreeModel.si_refs (FinishModel.w_img w)) c).
Proof. exact export_table_correct_l. Qed.
Print Assumptions export_table_correct.

(* ---- non-vacuity of the directive theorems ------------------------------------------------------ *)
(* block size 8, toy run-length compressor (>= 5 equal bytes shrink to 4 bytes), constant checksum;
   the compressor meets the contract, the block size is allowed *)
Example ex_directive_hyps :
  (forall b c, toy_compress b = Some c ->
     length c < length b /\ forall n, length b <= n -> toy_uncompress c n = Some b) /\
  0 < 8 /\ (N.of_nat 8 <= c_SQFS_MAX_BLOCK_SIZE)%N /\ 0 < 4096.
Proof. exact (conj toy_contract bs8_ok). Qed.

(* dont_compress: 19 sevens with the flag -> two raw blocks (word 8 | 1<<24) although they would shrink
   to 4 bytes; the 3 byte tail end opens fragment block 0 (reference not shared with an earlier file),
   a normal file joins it, the block is stored raw (5 | 1<<24) although 5 sevens would shrink; the same
   19 sevens without the flag are two compressed blocks of 4 bytes *)
Example ex_dont_compress :
  match run ex_dc_files with
  | DedupModel.Ok st =>
      p_size st 0 0 = Some (sw_of 8 false) /\ p_size st 0 1 = Some (sw_of 8 false) /\
      p_start st 0 = 0 /\ slice (w_file (p_wr st)) 0 16 = sevens 16 /\
      p_frag st 0 = Some (0, 0) /\ p_frag st 1 = Some (0, 3) /\ p_frag st 2 = Some (1, 0) /\
      p_ftab st 0 = (24, sw_of 5 false) /\ slice (w_file (p_wr st)) 24 5 = sevens 5 /\
      p_size st 2 0 = Some (sw_of 4 true) /\ p_size st 2 1 = Some (sw_of 4 true)
  | _ => False
  end.
Proof. exact ex_dc. Qed.

(* F23 in numbers, and the same two files when the second one also carries DONT_DEDUPLICATE *)
Example ex_f23 :
  match run f23_files with
  | DedupModel.Ok st => p_frag st 1 = Some (0, 0) /\ p_frag st 0 = Some (0, 0) /\
             p_ftab st 0 = (0, sw_of 4 true) /\ sw_compressed (snd (p_ftab st 0)) = true
  | _ => False
  end.
Proof. exact f23_witness. Qed.

Example ex_f23_avoided :
  match run [(mkfl false false false false, sevens 6); (mkfl true false true false, sevens 6)] with
  | DedupModel.Ok st => p_frag st 0 = Some (0, 0) /\ p_frag st 1 = Some (1, 0) /\
             p_ftab st 0 = (0, sw_of 4 true) /\ p_ftab st 1 = (4, sw_of 6 false)
  | _ => False
  end.
Proof. exact f23_avoided. Qed.

(* dont_fragment: 11 bytes -> block 0 and a 3 byte block 1, no fragment; without the flag one block and
   fragment (0, 0) (and its first block is shared with the first file) *)
Example ex_dont_fragment :
  match run ex_df_files with
  | DedupModel.Ok st =>
      p_frag st 0 = None /\ p_size st 0 1 = Some (sw_of 3 false) /\ p_nwords st 0 = 2 /\
      p_frag st 1 = Some (0, 0) /\ p_nwords st 1 = 1 /\ p_start st 1 = 0
  | _ => False
  end.
Proof. exact ex_df. Qed.

(* nosparse: 8 data bytes, 8 zero bytes, 3 zero bytes.  With the flag the zero block is stored
   (compressed to 4 bytes) and the zero tail end makes up an all-zero fragment block that IS written (F22);
   without it both are holes and there is no fragment.  Both read back *)
Example ex_nosparse :
  match run ex_ns_files with
  | DedupModel.Ok st =>
      p_size st 0 1 = Some (sw_of 4 true) /\ p_frag st 0 = Some (0, 0) /\
      p_nfrag st = 1 /\ sw_sparse (snd (p_ftab st 0)) = false /\
      p_size st 1 1 = Some 0%N /\ p_size st 1 2 = Some 0%N /\ p_frag st 1 = None /\
      read_back toy_uncompress 8 st 0 19 = Some ([1; 2; 3; 4; 5; 6; 7; 8]%N ++ repeat 0%N 11) /\
      read_back toy_uncompress 8 st 1 19 = Some ([1; 2; 3; 4; 5; 6; 7; 9]%N ++ repeat 0%N 11)
  | _ => False
  end.
Proof. exact ex_ns. Qed.

(* dont_deduplicate: three copies of one file; the flagged second copy gets fresh blocks at 8 and a fresh
   fragment (0, 2); the third copy shares its block with the first and its tail end with the second *)
Example ex_dont_dedup :
  match run ex_dd_files with
  | DedupModel.Ok st =>
      p_start st 0 = 0 /\ p_frag st 0 = Some (0, 0) /\
      p_start st 1 = 8 /\ p_frag st 1 = Some (0, 2) /\
      p_start st 2 = 0 /\ p_frag st 2 = Some (0, 2)
  | _ => False
  end.
Proof. exact ex_dd. Qed.

(* the hypotheses of share_only_identical_run in a concrete state: history [X], then the file X *)
Example ex_share_state :
  let X := {| pb_sparse := false; pb_compressed := false; pb_chk := 0%N; pb_data := [1; 2; 3]%N |} in
  let w := {| w_file := [1; 2; 3; 1; 2; 3]%N;
              w_blocks := [info_of 0 X; info_of 3 X]; w_fstart := 1 |} in
  WOpen 0 w [] [1; 2; 3]%N [info_of 0 X] [X] /\ all_stored [X] /\
  deduplicate_blocks false 4096 w false []
  = WOk {| w_file := [1; 2; 3]%N; w_blocks := [info_of 0 X]; w_fstart := 1 |} 0 [EvTrunc 3].
Proof. exact ex_share. Qed.

(* -T through the flag word: 7 bytes keep their fragment, 9 bytes (flag word 1 = dont_compress) lose
   it and get a one byte block instead *)
Example ex_no_tail_packing :
  match tool_pack const_hash toy_compress toy_uncompress 8 4096 true []
                  [(0%N, [1; 2; 3; 4; 5; 6; 7]%N); (1%N, [1; 2; 3; 4; 5; 6; 7; 8; 9]%N)] [] with
  | DedupModel.Ok st => p_frag st 0 = Some (0, 0) /\ p_frag st 1 = None /\
             p_size st 1 1 = Some (sw_of 1 false)
  | _ => False
  end.
Proof. exact ex_no_tail. Qed.

(* export table: the 96 inode image of Image/Example.v (zero-run-length compressor, exportable) is in the domain
   of the theorem; Properties_C03.ex_image_reads_back shows its table read back = all 96 inode references *)
Example ex_export_table :
  comp_contract (TreeModel.img_compress 3) (TreeModel.img_uncompress 3) /\
  FinishModel.c_exportable Image.Example.ex_cfg = true /\
  ImageProofs.image_domain Image.Example.ex_cfg Image.Example.ex_inp = true /\
  exists w, FinishModel.write_image (TreeModel.img_compress 3) GenC01.c_id_table_limit
                                    Image.Example.ex_cfg Image.Example.ex_inp = Res.Ok w /\
            ImageProofs.image_fits w = true.
Proof. exact ex_export_hyps_l. Qed.

(* ================================================================================================ *)
(* From the sort file to the data offsets: one end-to-end layout theorem                            *)
(* ================================================================================================ *)
(* The glue between the two halves above.  Model (C17/OrderModel.v): bin/gensquashfs/src/mkfs.c main() between
   fstree_post_process and sqfs_writer_finish -
     fs->files as fstree_post_process / file_list_dfs built it  = [pp_files pp] of the C11 model (nodes named by their
                                                                  path components; default order),
     fstree_sort_files on THAT list                             = [sort_stage]: SortModel.sort_files on the strings
                                                                  fstree_get_path returns ([get_path]); the re-linked
                                                                  list with priority / flag word per node ([pfile]:
                                                                  path, default position, priority, flags),
     pack_files: one pack_file per node of the sorted list      = [pack_list] + FlagModel.tool_pack: node k of the list is
       in list order, flags from the node (+ -T)                  fid k of C08's block processor model,
   with the tree coming from the add operations of a description file ([pack_ops]: ImgPost.Bridge.run_adds) or from
   scan_directory ([pack_dir]: ImgScan.PackModel.scan_post).  [host name] = the bytes of the file pack_file opens.
   Hypotheses are about the INPUT: the added paths consist of clean components (not empty, no '/', not "." / ".." -
   what fstree_add_generic's callers pass); that fstree_get_path output canonicalises and that distinct nodes have
   distinct canonical paths (the hypotheses of first_match_wins) are proved from that.
   Tie: props/C17/orderleg.py (extracted pack_dir vs. the data offsets of real gensquashfs -S images). *)
From SqfsV Require C11.FstreeModel C11.PostModel C11.ScanModel ImgPost.Bridge ImgScan.ScanLinks ImgScan.PackModel.
From SqfsV Require Import C17.OrderModel C17.OrderPaths C17.OrderTree C17.OrderProofs C17.OrderWitness.

(* ---- the hypotheses of first_match_wins hold for the file list of every tree ---------------------- *)
(* canonicalize_name(fstree_get_path(node)) never fails and yields the '/'-joined components: what pack_files
   prints and opens, and what the lines of the sort file are matched against *)
Theorem node_path_canonicalises : forall p : FstreeModel.path,
  ScanLinks.cleanp p -> C18.CanonModel.canon_result (get_path p) = Some (FstreeModel.join_slash p).
Proof. exact canon_get_path. Qed.
Print Assumptions node_path_canonicalises.

(* fs->files of a tree built from clean paths: pairwise distinct nodes, clean components
   ([files_ok pp] = NoDup (pp_files pp) /\ Forall cleanp (pp_files pp)) *)
Theorem file_list_distinct_clean : forall d ops fs pp,
  ops_clean ops -> Bridge.run_adds d (FstreeModel.fs_init d) ops = Some fs ->
  PostModel.post_process fs = PostModel.POk pp -> files_ok pp.
Proof. exact ops_files_ok. Qed.
Print Assumptions file_list_distinct_clean.

(* the same for a scanned directory whose names are clean and distinct per directory ("." / ".." entries allowed) *)
Theorem file_list_distinct_clean_scanned : forall scan_fnmatch d cfg,
  ScanLinks.cleanp (ScanModel.c_prefix cfg) ->
  forall (sorted : bool) (h : ScanModel.hnode) pp,
  ScanLinks.hok_rootb (if sorted then ScanModel.canon h else h) = true ->
  PackModel.scan_post scan_fnmatch d cfg sorted h (FstreeModel.fs_init d) = Some (PostModel.POk pp) -> files_ok pp.
Proof. exact scan_files_ok. Qed.
Print Assumptions file_list_distinct_clean_scanned.

(* ---- (1) the packing order ------------------------------------------------------------------------ *)
(* [annot_list fnmatch ds files]: the default-order list, node k with its path p, default position k and the
   priority / flag word of the FIRST line of ds that matches the canonical path join_slash p ((0, 0) if none):
   [assigned_to].  [pf_before a b]: priority a < priority b, or equal priorities and a earlier in default order.
   For every match oracle, both values of the F08 switch, every list of distinct clean paths and every sort file:
   if every line parses, the list pack_files iterates is a permutation of the annotated default list that is sorted
   by pf_before - ascending priority, ties in default order; a malformed line makes fstree_sort_files fail *)
Theorem pack_order_is_stable_sort_of_first_match :
  forall (fnmatch : list N -> list N -> bool -> bool) (t : bool) (files : list FstreeModel.path) (text : list N),
  NoDup files -> Forall ScanLinks.cleanp files ->
  match parse_all t (get_lines text) with
  | Some ds =>
      exists order, sort_stage fnmatch t (Some text) files = Some order /\
                    Permutation order (annot_list fnmatch ds files) /\
                    StronglySorted pf_before order
  | None => sort_stage fnmatch t (Some text) files = None
  end.
Proof. exact sort_stage_spec. Qed.
Print Assumptions pack_order_is_stable_sort_of_first_match.

(* [annot_list] / [assigned_to] spelled out *)
Theorem annot_list_is_first_match : forall fnmatch ds files k f,
  nth_error (annot_list fnmatch ds files) k = Some f ->
  exists p, nth_error files k = Some p /\ pf_path f = p /\ pf_idx f = N.of_nat k /\
            (pf_prio f, pf_flags f) =
            match find (fun d => line_matches fnmatch d (FstreeModel.join_slash p)) ds with
            | Some d => (d_prio d, d_flags d)
            | None => (0%Z, 0%N)
            end.
Proof. exact annot_list_first_match. Qed.
Print Assumptions annot_list_is_first_match.

(* ... and nothing else is a correct answer *)
Theorem pack_order_unique :
  forall (fnmatch : list N -> list N -> bool -> bool) (t : bool) (files : list FstreeModel.path) (text : list N)
         (ds : list directive) (order other : list pfile),
  sort_stage fnmatch t (Some text) files = Some order ->
  NoDup files -> Forall ScanLinks.cleanp files -> parse_all t (get_lines text) = Some ds ->
  Permutation other (annot_list fnmatch ds files) -> StronglySorted pf_before other -> other = order.
Proof. exact sort_stage_unique. Qed.
Print Assumptions pack_order_unique.

(* a sort file without a directive (empty, comments only) leaves the list exactly as without -S *)
Theorem sort_file_without_directives_is_default :
  forall (fnmatch : list N -> list N -> bool -> bool) (t : bool) (files : list FstreeModel.path) (text : list N),
  NoDup files -> Forall ScanLinks.cleanp files -> parse_all t (get_lines text) = Some [] ->
  sort_stage fnmatch t (Some text) files = sort_stage fnmatch t None files.
Proof. exact sort_stage_no_directive. Qed.
Print Assumptions sort_file_without_directives_is_default.

(* ---- layout_follows_sort_file ---------------------------------------------------------------------- *)
(* gensquashfs -F description -S sortfile [-T], from the add operations and the TEXT of the sort file to the bytes:
   if every line parses the run succeeds with a packing order [order] and a final block processor state [st] with
   (1) order = the annotated default list sorted by (priority, default position);
   (2) for two files i < j of that order that both leave bytes in the data area ([stored_bytes]: the blocks as stored,
       for the flag word the sort file gave the file, with -T applied): file j starts at or behind the end of file i,
       or the sort file did not give it dont_deduplicate and it starts inside what was already written (the block
       writer found an identical run: share_only_identical_run)
       - WEAK (audit 4, finding 1): as stated, the second alternative holds for every file without dont_deduplicate that
       stores a byte, so clause (2) constrains flagged files only; layout_follows_sort_file_strong (last section) adds
       the clause that constrains all files (share_ok) -;
   (3) every file reads back byte-exact under its fid, the bytes in front of the data area are untouched;
   if some line is malformed gensquashfs fails in fstree_sort_files, before anything is packed. *)
Theorem layout_follows_sort_file :
  forall (hashf : list N -> N) (compress : list N -> option (list N))
         (uncompress : list N -> nat -> option (list N)) (bs half : nat),
  (forall b c, compress b = Some c -> length c < length b /\ forall n, length b <= n -> uncompress c n = Some b) ->
  0 < bs -> (N.of_nat bs <= c_SQFS_MAX_BLOCK_SIZE)%N -> 0 < half ->
  forall (no_tail : bool) (file0 : list N) (sched : list nat) (fnmatch : list N -> list N -> bool -> bool)
         (t : bool) (host : list N -> list N) (d : FstreeModel.fsdefaults) (ops : list Bridge.op)
         (fs : FstreeModel.fstree) (pp : PostModel.ppout) (text : list N),
  ops_clean ops ->
  Bridge.run_adds d (FstreeModel.fs_init d) ops = Some fs ->
  PostModel.post_process fs = PostModel.POk pp ->
  match parse_all t (get_lines text) with
  | Some ds =>
      exists (order : list pfile) (st : proc),
        pack_ops fnmatch t hashf compress uncompress bs half no_tail file0 host sched d ops (Some text) = ODone order st /\
        let contents := node_contents host pp in
        Permutation order (annot_list fnmatch ds (PostModel.pp_files pp)) /\
        StronglySorted pf_before order /\
        (forall i j fi fj, i < j -> nth_error order i = Some fi -> nth_error order j = Some fj ->
           stored_bytes hashf compress bs no_tail contents fi <> [] ->
           stored_bytes hashf compress bs no_tail contents fj <> [] ->
           p_start st i + length (stored_bytes hashf compress bs no_tail contents fi) <= p_start st j \/
           (FlagModel.has_bit (pf_flags fj) c_SQFS_BLK_DONT_DEDUPLICATE = false /\
            p_start st j < length (w_file (p_wr st)))) /\
        (forall fid f, nth_error order fid = Some f ->
           read_back uncompress bs st fid (length (contents (pf_path f))) = Some (contents (pf_path f))) /\
        firstn (length file0) (w_file (p_wr st)) = file0
  | None =>
      pack_ops fnmatch t hashf compress uncompress bs half no_tail file0 host sched d ops (Some text) = OSortErr
  end.
Proof. exact layout_follows_sort_file_ops. Qed.
Print Assumptions layout_follows_sort_file.

(* the same for gensquashfs -D directory -S sortfile ([layout_ok ... pp ds order st] = the five clauses above) *)
Theorem layout_follows_sort_file_scanned :
  forall (hashf : list N -> N) (compress : list N -> option (list N))
         (uncompress : list N -> nat -> option (list N)) (bs half : nat),
  (forall b c, compress b = Some c -> length c < length b /\ forall n, length b <= n -> uncompress c n = Some b) ->
  0 < bs -> (N.of_nat bs <= c_SQFS_MAX_BLOCK_SIZE)%N -> 0 < half ->
  forall (no_tail : bool) (file0 : list N) (sched : list nat) (fnmatch : list N -> list N -> bool -> bool)
         (t : bool) (host : list N -> list N) (scan_fnmatch : list N -> list N -> bool -> bool)
         (d : FstreeModel.fsdefaults) (cfg : ScanModel.scfg) (sorted : bool) (h : ScanModel.hnode)
         (pp : PostModel.ppout) (text : list N),
  ScanLinks.cleanp (ScanModel.c_prefix cfg) ->
  ScanLinks.hok_rootb (if sorted then ScanModel.canon h else h) = true ->
  PackModel.scan_post scan_fnmatch d cfg sorted h (FstreeModel.fs_init d) = Some (PostModel.POk pp) ->
  match parse_all t (get_lines text) with
  | Some ds =>
      exists (order : list pfile) (st : proc),
        pack_dir fnmatch t hashf compress uncompress bs half no_tail file0 host sched scan_fnmatch d cfg sorted h (Some text)
        = ODone order st /\
        layout_ok hashf compress uncompress bs no_tail file0 fnmatch host pp ds order st
  | None =>
      pack_dir fnmatch t hashf compress uncompress bs half no_tail file0 host sched scan_fnmatch d cfg sorted h (Some text)
      = OSortErr
  end.
Proof. exact layout_follows_sort_file_dir. Qed.
Print Assumptions layout_follows_sort_file_scanned.

(* ... and for any post-processed tree whose file list consists of distinct clean paths *)
Theorem layout_follows_sort_file_tree :
  forall (hashf : list N -> N) (compress : list N -> option (list N))
         (uncompress : list N -> nat -> option (list N)) (bs half : nat),
  (forall b c, compress b = Some c -> length c < length b /\ forall n, length b <= n -> uncompress c n = Some b) ->
  0 < bs -> (N.of_nat bs <= c_SQFS_MAX_BLOCK_SIZE)%N -> 0 < half ->
  forall (no_tail : bool) (file0 : list N) (sched : list nat) (fnmatch : list N -> list N -> bool -> bool)
         (t : bool) (host : list N -> list N) (pp : PostModel.ppout) (text : list N),
  files_ok pp ->
  match parse_all t (get_lines text) with
  | Some ds =>
      exists (order : list pfile) (st : proc),
        pack_sorted fnmatch t hashf compress uncompress bs half no_tail file0 host sched pp (Some text) = ODone order st /\
        layout_ok hashf compress uncompress bs no_tail file0 fnmatch host pp ds order st
  | None => pack_sorted fnmatch t hashf compress uncompress bs half no_tail file0 host sched pp (Some text) = OSortErr
  end.
Proof. exact layout_follows_sort_file_pp. Qed.
Print Assumptions layout_follows_sort_file_tree.

(* without -S: the default order itself, every node with priority 0 and no flag *)
Theorem layout_without_sort_file :
  forall (hashf : list N -> N) (compress : list N -> option (list N))
         (uncompress : list N -> nat -> option (list N)) (bs half : nat),
  (forall b c, compress b = Some c -> length c < length b /\ forall n, length b <= n -> uncompress c n = Some b) ->
  0 < bs -> (N.of_nat bs <= c_SQFS_MAX_BLOCK_SIZE)%N -> 0 < half ->
  forall (no_tail : bool) (file0 : list N) (sched : list nat) (fnmatch : list N -> list N -> bool -> bool)
         (t : bool) (host : list N -> list N) (pp : PostModel.ppout),
  files_ok pp ->
  exists (order : list pfile) (st : proc),
    pack_sorted fnmatch t hashf compress uncompress bs half no_tail file0 host sched pp None = ODone order st /\
    layout_ok hashf compress uncompress bs no_tail file0 fnmatch host pp [] order st /\
    order = annot_list fnmatch [] (PostModel.pp_files pp).
Proof. exact layout_default_pp. Qed.
Print Assumptions layout_without_sort_file.

(* the headline in terms of the nodes: of two files of the tree, the one the directives put first (lower priority, or
   the same priority and earlier in default order) has the smaller fid, and - if both store a block - lies first in
   the data area unless the later one was deduplicated (allowed for that file).
   WEAK in its last clause for the same reason as layout_follows_order (audit 4, finding 1): for a file without
   dont_deduplicate the offsets are not constrained here.  data_offsets_follow_priority_strong (last section) is the
   statement without that escape. *)
Theorem data_offsets_follow_priority :
  forall (hashf : list N -> N) (compress : list N -> option (list N))
         (uncompress : list N -> nat -> option (list N)) (bs : nat) (no_tail : bool) (file0 : list N)
         (fnmatch : list N -> list N -> bool -> bool) (host : list N -> list N)
         (pp : PostModel.ppout) (ds : list directive) (order : list pfile) (st : proc) (fa fb : pfile),
  files_ok pp ->
  layout_ok hashf compress uncompress bs no_tail file0 fnmatch host pp ds order st ->
  In fa order -> In fb order -> pf_before fa fb ->
  exists i j : nat,
    fid_of order (pf_path fa) = Some i /\ fid_of order (pf_path fb) = Some j /\ i < j /\
    (stored_bytes hashf compress bs no_tail (node_contents host pp) fa <> [] ->
     stored_bytes hashf compress bs no_tail (node_contents host pp) fb <> [] ->
     p_start st i + length (stored_bytes hashf compress bs no_tail (node_contents host pp) fa) <= p_start st j \/
     (FlagModel.has_bit (pf_flags fb) c_SQFS_BLK_DONT_DEDUPLICATE = false /\
      p_start st j < length (w_file (p_wr st)))).
Proof. exact layout_by_priority. Qed.
Print Assumptions data_offsets_follow_priority.

(* ---- (3) none of this changes the tree or the contents read back ------------------------------------ *)
(* every file of the tree is packed exactly once, under the fid that is its position in the packing order, with the
   priority and flag word of its first matching line, and reads back byte-exact - whatever the sort file says
   (composition with flags_do_not_change_content) *)
Theorem sort_file_keeps_contents :
  forall (hashf : list N -> N) (compress : list N -> option (list N))
         (uncompress : list N -> nat -> option (list N)) (bs : nat) (no_tail : bool) (file0 : list N)
         (fnmatch : list N -> list N -> bool -> bool) (host : list N -> list N)
         (pp : PostModel.ppout) (ds : list directive) (order : list pfile) (st : proc) (p : FstreeModel.path),
  files_ok pp ->
  layout_ok hashf compress uncompress bs no_tail file0 fnmatch host pp ds order st ->
  In p (PostModel.pp_files pp) ->
  exists fid k : nat,
    fid_of order p = Some fid /\ nth_error (PostModel.pp_files pp) k = Some p /\
    nth_error order fid = Some (annot fnmatch ds k p) /\
    read_back uncompress bs st fid (length (node_contents host pp p)) = Some (node_contents host pp p).
Proof. exact layout_covers. Qed.
Print Assumptions sort_file_keeps_contents.

(* REMARK, not a theorem about the sort file (audit 4, finding 2).  The statement below compares [to_img fb xa pp] with
   [to_img fb' xa pp] under a map that erases the only field that depends on [fb]: the sort file is not a parameter of
   either side, and the proof is [map_ext; reflexivity].  What it records is a MODELLING DECISION: the model of the sort
   stage (OrderModel.sort_stage) returns the re-linked file list with priority / flag word per node and nothing else,
   i.e. it is assumed that fstree_sort_files touches only fs->files, next_by_type, data.file.priority / .flags and
   FLAG_FILE_ALREADY_MATCHED, so that [pp_inodes], the tree and every node's attributes are those of the C11 / ImgPost
   post-process model with or without -S.  A heap-level model of sort_file_list (pointer surgery on next_by_type) with a
   frame theorem and a refinement proof to SortModel.sel_sort was judged too costly for this round.  The decision is
   CHECKED, not proved, by two tie legs of props/C17/check.py:
     * component level (h_sort.c [digest_fs], every case of the sort tie): a digest of every byte of the fstree_t, of the
       fs->inodes array and of every tree node (address, struct bytes, name, input file, link target, child order) with
       exactly those four things masked is equal before and after the REAL fstree_sort_files - signature
       sort-property:tree-touched;
     * tool level (tool_case, every image of the tool oracle): every inode of the image packed with -S [-T] (number,
       type, mode, uid / gid index, mtime, link count, xattr index, parent, directory size, file size), the inode
       number behind every path and the directory walk equal those of the image packed without directives (independent
       reader) - signature tree:metadata-differs -, and rdsquashfs -d of both images is identical
       (tree:describe-differs).
   The statement itself: the serializer's input is a function of (fb, xa, pp) in which fb enters only through the file
   inodes the block processor filled in *)
Theorem tree_unchanged_by_sort_file :
  forall (fb fb' : FstreeModel.path -> InodeModel.ibody) (xa : FstreeModel.path -> N) (pp : PostModel.ppout),
  map shape_node (Bridge.to_img fb xa pp) = map shape_node (Bridge.to_img fb' xa pp).
Proof. exact tree_shape_order_free. Qed.
Print Assumptions tree_unchanged_by_sort_file.

(* ---- non-vacuity: five files, a glob line, a negative priority, a tie, an unlisted file ------------ *)
(* add order z, bin/ls, lib/x, a, bin/cp; default order a, bin/cp, bin/ls, lib/x, z; sort file
     5 [glob] bin/<star> | -3 [dont_compress] z | 5 a | 1 bin/ls
   block size 8, toy compressor, constant checksum; contents 8 + |name| distinct bytes, lib/x 3 bytes.
   The hypotheses of layout_follows_sort_file hold ... *)
Example ex_order_hyps :
  ops_clean ex_ops /\
  parse_all true (get_lines ex_sortfile) = Some ex_ds /\
  exists fs pp, Bridge.run_adds ex_d (FstreeModel.fs_init ex_d) ex_ops = Some fs /\
                PostModel.post_process fs = PostModel.POk pp /\
                PostModel.pp_files pp = [[n_a]; [n_bin; n_cp]; [n_bin; n_ls]; [n_lib; n_x]; [n_z]].
Proof. exact ex_hyps. Qed.

(* ... and the run packs z (-3, dont_compress) first, then the unlisted lib/x (0; 3 bytes: a tail end only, it stores no
   block), then a, bin/cp, bin/ls (all 5: the tie keeps the default order; the later exact line for bin/ls lost against
   the glob).  Block starts 0, -, 8, 16, 29: ascending along the order; fragment block 0 was written at 24 *)
Example ex_order_run :
  match ex_run (Some ex_sortfile) with
  | ODone order st =>
      map (fun f => (pf_path f, pf_idx f, pf_prio f, pf_flags f)) order =
        [([n_z], 4, (-3)%Z, 1); ([n_lib; n_x], 3, 0%Z, 0); ([n_a], 0, 5%Z, 0);
         ([n_bin; n_cp], 1, 5%Z, 0); ([n_bin; n_ls], 2, 5%Z, 0)]%N /\
      map (fun k => (p_start st k, p_nwords st k)) (seq 0 5) = [(0, 1); (0, 0); (8, 1); (16, 1); (29, 1)] /\
      p_ftab st 0 = (24, sw_of 5 false) /\
      length (w_file (p_wr st)) = 49 /\
      p_size st 0 0 = Some (sw_of 8 false)
  | _ => False
  end.
Proof. exact ex_sorted_run. Qed.

(* the same tree without -S: default order, other offsets ... *)
Example ex_order_default :
  match ex_run None with
  | ODone order st =>
      map (fun f => (pf_path f, pf_idx f, pf_prio f, pf_flags f)) order =
        [([n_a], 0, 0%Z, 0); ([n_bin; n_cp], 1, 0%Z, 0); ([n_bin; n_ls], 2, 0%Z, 0);
         ([n_lib; n_x], 3, 0%Z, 0); ([n_z], 4, 0%Z, 0)]%N /\
      map (fun k => (p_start st k, p_nwords st k)) (seq 0 5) = [(0, 1); (8, 1); (16, 1); (0, 0); (37, 1)]
  | _ => False
  end.
Proof. exact ex_default_run. Qed.

(* ... and both runs read back the same bytes for every path *)
Example ex_order_contents :
  match ex_run (Some ex_sortfile), ex_run None with
  | ODone o1 s1, ODone o0 s0 =>
      forallb (fun p =>
        match fid_of o1 p, fid_of o0 p with
        | Some i, Some j =>
            match read_back toy_uncompress 8 s1 i (length (ex_host (FstreeModel.join_slash p))),
                  read_back toy_uncompress 8 s0 j (length (ex_host (FstreeModel.join_slash p))) with
            | Some a, Some b => C18.CanonModel.list_N_eqb a (ex_host (FstreeModel.join_slash p)) &&
                                C18.CanonModel.list_N_eqb b (ex_host (FstreeModel.join_slash p))
            | _, _ => false
            end
        | _, _ => false
        end) [[n_a]; [n_bin; n_cp]; [n_bin; n_ls]; [n_lib; n_x]; [n_z]] = true
  | _, _ => False
  end.
Proof. exact ex_contents_unchanged. Qed.

(* a malformed line (unknown flag): the run ends in fstree_sort_files *)
Example ex_order_malformed :
  pack_ops star_fnmatch true const_hash toy_compress toy_uncompress 8 4096 false [] ex_host [] ex_d ex_ops
           (Some [53; 32; 91; 102; 111; 111; 93; 32; 97; 10]%N) = OSortErr.
Proof. exact ex_malformed_run. Qed.

(* fstree_get_path and its canonical form for the node bin/ls *)
Example ex_node_path :
  get_path [n_bin; n_ls] = [47; 98; 105; 110; 47; 108; 115]%N /\
  C18.CanonModel.canon_result (get_path [n_bin; n_ls]) = Some [98; 105; 110; 47; 108; 115]%N.
Proof. exact ex_canon_path. Qed.

(* the extracted functions of the tool-level tie, [order_ops] / [order_dir] (the run up to and including
   fstree_sort_files), ARE the order component of the packing run; in particular the data path never fails *)
Theorem run_order_is_order_ops :
  forall (hashf : list N -> N) (compress : list N -> option (list N))
         (uncompress : list N -> nat -> option (list N)) (bs half : nat),
  (forall b c, compress b = Some c -> length c < length b /\ forall n, length b <= n -> uncompress c n = Some b) ->
  0 < bs -> (N.of_nat bs <= c_SQFS_MAX_BLOCK_SIZE)%N -> 0 < half ->
  forall (no_tail : bool) (file0 : list N) (sched : list nat) (fnmatch : list N -> list N -> bool -> bool)
         (t : bool) (host : list N -> list N) d ops sf,
  order_of_run (pack_ops fnmatch t hashf compress uncompress bs half no_tail file0 host sched d ops sf)
  = Some (order_ops fnmatch t d ops sf).
Proof. exact pack_ops_order. Qed.
Print Assumptions run_order_is_order_ops.

Theorem run_order_is_order_dir :
  forall (hashf : list N -> N) (compress : list N -> option (list N))
         (uncompress : list N -> nat -> option (list N)) (bs half : nat),
  (forall b c, compress b = Some c -> length c < length b /\ forall n, length b <= n -> uncompress c n = Some b) ->
  0 < bs -> (N.of_nat bs <= c_SQFS_MAX_BLOCK_SIZE)%N -> 0 < half ->
  forall (no_tail : bool) (file0 : list N) (sched : list nat) (fnmatch : list N -> list N -> bool -> bool)
         (t : bool) (host : list N -> list N) scan_fnmatch d cfg (sorted : bool) (h : ScanModel.hnode) sf,
  order_of_run (pack_dir fnmatch t hashf compress uncompress bs half no_tail file0 host sched scan_fnmatch d cfg sorted h sf)
  = Some (order_dir fnmatch t scan_fnmatch d cfg sorted h sf).
Proof. exact pack_dir_order. Qed.
Print Assumptions run_order_is_order_dir.

(* ================================================================================================ *)
(* The STRONG layout theorems (audit 4, finding 1): what deduplication really guarantees            *)
(* ================================================================================================ *)
(* layout_follows_order / clause (2) of layout_follows_sort_file / data_offsets_follow_priority above say nothing about a
   file that does not carry dont_deduplicate (their right disjunct holds for every such file).  The statements below close
   that: the sharing escape is the run-level lift of share_only_identical_run, and for files whose first kept block is new
   there is no escape at all - for EVERY flag word.  Model and quantification as for the directive theorems above.
   Vocabulary (C17/ShareSpec.v):
     [dent]               a log entry WITH its bytes: kind (LFile fid / LFrag idx), start offset, data
     [put out e]          the output after the run e arrived on top of out: appended, then cut back to the end of whichever
                          reaches further - the old output or the run at its (possibly earlier) location
     [replay file0 log]   the output after all entries of log (newest first) arrived on top of file0
     [srun .. files fid]  the blocks of file fid that reach the output, as the worker left them (not holes, not the
                          empty sentinel); [disk_data .. fl d] = their bytes
     [same_block a b]     same bytes, same compressed bit, same checksum
     [frag_origin .. pb]  pb is what the worker makes of an assembled fragment block whose data begins with the tail
                          end of some file
     [fresh_first bs files j]  (boolean, on the INPUT) the first kept block of file j is not a block of any earlier
                          file, and no file's tail end is a prefix of it *)
From SqfsV Require Import C17.ShareSpec C17.ShareWriter C17.SharePipe C17.ShareTheorems C17.OrderStrong C17.ShareWitness.

Theorem put_is : forall out e,
  put out e = firstn (Nat.max (length out) (de_loc e + length (de_data e))) (out ++ de_data e).
Proof. reflexivity. Qed.

(* the rule of an entry [e] that arrives on top of the entries [older] *)
Theorem dentry_ok_is : forall hashf compress bs files file0 dd older e,
  dentry_ok hashf compress bs files file0 dd older e =
  (let out := replay file0 older in
   de_loc e = length out \/
   (exists fid, de_kind e = LFile fid /\ dd fid = false /\ de_loc e < length out /\
                slice (out ++ de_data e) (de_loc e) (length (de_data e)) = de_data e /\
                exists c0 rest pb0, srun hashf compress bs files fid = c0 :: rest /\ same_block pb0 c0 /\
                  ((exists f, In f (dfids older) /\ In pb0 (srun hashf compress bs files f)) \/
                   frag_origin hashf compress bs files pb0))).
Proof. reflexivity. Qed.

Theorem fresh_first_is : forall bs files j,
  fresh_first bs files j =
  match nth_error files j with
  | Some (fl, d) =>
    match hd_error (filter (kept (uf_ignore_sparse fl)) (j_blocks (file_job bs fl d))) with
    | Some b0 =>
      forallb (fun f => negb (mem_block b0 (j_blocks (file_job bs (fst f) (snd f))))) (firstn j files) &&
      forallb (fun f => match j_tail (file_job bs (fst f) (snd f)) with
                        | Some t => negb (is_prefix t b0)
                        | None => true
                        end) files
    | None => true
    end
  | None => true
  end.
Proof. reflexivity. Qed.

(* ---- stored_run_at_start ------------------------------------------------------------------------- *)
(* for ALL files, whatever their flags (dont_compress_stored (2) had it for DONT_COMPRESS only): the bytes at the block
   start of the inode are the stored run of the file *)
Theorem stored_run_at_start :
  forall (hashf : list N -> N) (compress : list N -> option (list N))
         (uncompress : list N -> nat -> option (list N)) (bs half : nat),
  (forall b c, compress b = Some c -> length c < length b /\ forall n, length b <= n -> uncompress c n = Some b) ->
  0 < bs -> (N.of_nat bs <= c_SQFS_MAX_BLOCK_SIZE)%N -> 0 < half ->
  forall (file0 : list N) (files : list (uflags * list N)) (sched : list nat) (st : proc),
  pack hashf compress uncompress bs false true half file0 files sched = DedupModel.Ok st ->
  forall fid fl d, nth_error files fid = Some (fl, d) ->
  slice (w_file (p_wr st)) (p_start st fid) (length (disk_data hashf compress bs fl d)) = disk_data hashf compress bs fl d /\
  (disk_data hashf compress bs fl d <> [] ->
   p_start st fid + length (disk_data hashf compress bs fl d) <= length (w_file (p_wr st))).
Proof. exact stored_run_at_start_l. Qed.
Print Assumptions stored_run_at_start.

(* ---- layout_log_strong --------------------------------------------------------------------------- *)
(* [strong_log .. st dlog]: the output IS the replay of dlog; every entry is fresh at the end of the output the older
   entries left or is a file without DONT_DEDUPLICATE whose whole run stood at its start offset in that output
   (continued by the run itself where it reaches beyond its end) and starts at a block of an earlier file / a fragment
   block equal to its first block; the files appear in packing order; there is exactly one entry (LFile fid, block start,
   stored run) per file that stores a block; the other entries are the written fragment blocks *)
Theorem strong_log_is : forall hashf compress bs file0 files st dlog,
  strong_log hashf compress bs file0 files st dlog =
  (w_file (p_wr st) = replay file0 dlog /\
   DLogOk hashf compress bs files file0 (fun fid => uf_dont_dedup (fl_of bs files fid)) dlog /\
   StronglySorted gt (dfids dlog) /\
   (forall fid fl d, nth_error files fid = Some (fl, d) -> disk_data hashf compress bs fl d <> [] ->
      In {| de_kind := LFile fid; de_loc := p_start st fid; de_data := disk_data hashf compress bs fl d |} dlog) /\
   (forall e fid, In e dlog -> de_kind e = LFile fid ->
      exists fl d, nth_error files fid = Some (fl, d) /\ disk_data hashf compress bs fl d <> [] /\
                   de_loc e = p_start st fid /\ de_data e = disk_data hashf compress bs fl d) /\
   (forall e idx, In e dlog -> de_kind e = LFrag idx ->
      idx < p_nfrag st /\ de_data e <> [] /\
      exists w, p_ftab st idx = (de_loc e, w) /\ sw_size w = length (de_data e))).
Proof. reflexivity. Qed.

Theorem layout_log_strong :
  forall (hashf : list N -> N) (compress : list N -> option (list N))
         (uncompress : list N -> nat -> option (list N)) (bs half : nat),
  (forall b c, compress b = Some c -> length c < length b /\ forall n, length b <= n -> uncompress c n = Some b) ->
  0 < bs -> (N.of_nat bs <= c_SQFS_MAX_BLOCK_SIZE)%N -> 0 < half ->
  forall (file0 : list N) (files : list (uflags * list N)) (sched : list nat) (st : proc),
  pack hashf compress uncompress bs false true half file0 files sched = DedupModel.Ok st ->
  exists dlog : list dent, strong_log hashf compress bs file0 files st dlog.
Proof. exact layout_log_strong_l. Qed.
Print Assumptions layout_log_strong.

(* ---- layout_follows_order_strong ------------------------------------------------------------------ *)
(* its reading for two files fid1 < fid2 that both store a block, for EVERY log with those properties: the entry of fid2
   splits the log; [out_before] = the replay of the older part = the output when the first block of fid2 arrived;
   it contains the run of fid1; and fid2 starts exactly at its end - hence behind fid1 - OR fid2 has no DONT_DEDUPLICATE,
   starts inside out_before, its whole stored run stood there (all its bytes), and the block it starts at is a stored
   block of an EARLIER file, or a fragment block, with the bytes, compressed bit and checksum of its first block *)
Theorem layout_follows_order_strong :
  forall (hashf : list N -> N) (compress : list N -> option (list N))
         (uncompress : list N -> nat -> option (list N)) (bs half : nat),
  (forall b c, compress b = Some c -> length c < length b /\ forall n, length b <= n -> uncompress c n = Some b) ->
  0 < bs -> (N.of_nat bs <= c_SQFS_MAX_BLOCK_SIZE)%N -> 0 < half ->
  forall (file0 : list N) (files : list (uflags * list N)) (sched : list nat) (st : proc),
  pack hashf compress uncompress bs false true half file0 files sched = DedupModel.Ok st ->
  forall dlog fid1 fid2 fl1 d1 fl2 d2,
  strong_log hashf compress bs file0 files st dlog ->
  fid1 < fid2 -> nth_error files fid1 = Some (fl1, d1) -> nth_error files fid2 = Some (fl2, d2) ->
  disk_data hashf compress bs fl1 d1 <> [] -> disk_data hashf compress bs fl2 d2 <> [] ->
  exists newer older,
    dlog = newer ++ {| de_kind := LFile fid2; de_loc := p_start st fid2;
                       de_data := disk_data hashf compress bs fl2 d2 |} :: older /\
    let out_before := replay file0 older in
    p_start st fid1 + length (disk_data hashf compress bs fl1 d1) <= length out_before /\
    slice out_before (p_start st fid1) (length (disk_data hashf compress bs fl1 d1)) = disk_data hashf compress bs fl1 d1 /\
    (p_start st fid2 = length out_before \/
     (uf_dont_dedup fl2 = false /\ p_start st fid2 < length out_before /\
      slice (out_before ++ disk_data hashf compress bs fl2 d2) (p_start st fid2)
            (length (disk_data hashf compress bs fl2 d2)) = disk_data hashf compress bs fl2 d2 /\
      exists c0 rest pb0, srun hashf compress bs files fid2 = c0 :: rest /\ same_block pb0 c0 /\
        ((exists f, f < fid2 /\ In pb0 (srun hashf compress bs files f)) \/ frag_origin hashf compress bs files pb0))).
Proof. exact layout_pair_strong_l. Qed.
Print Assumptions layout_follows_order_strong.

(* ---- distinct_data_laid_out_in_order --------------------------------------------------------------- *)
(* no flag needed: a file whose first kept block is new (fresh_first, a decidable condition on the input) lies behind
   every earlier file that stores a block ... *)
Theorem distinct_first_block_behind :
  forall (hashf : list N -> N) (compress : list N -> option (list N))
         (uncompress : list N -> nat -> option (list N)) (bs half : nat),
  (forall b c, compress b = Some c -> length c < length b /\ forall n, length b <= n -> uncompress c n = Some b) ->
  0 < bs -> (N.of_nat bs <= c_SQFS_MAX_BLOCK_SIZE)%N -> 0 < half ->
  forall (file0 : list N) (files : list (uflags * list N)) (sched : list nat) (st : proc),
  pack hashf compress uncompress bs false true half file0 files sched = DedupModel.Ok st ->
  forall fid1 fid2 fl1 d1 fl2 d2,
  fid1 < fid2 -> nth_error files fid1 = Some (fl1, d1) -> nth_error files fid2 = Some (fl2, d2) ->
  disk_data hashf compress bs fl1 d1 <> [] -> disk_data hashf compress bs fl2 d2 <> [] ->
  fresh_first bs files fid2 = true ->
  p_start st fid1 + length (disk_data hashf compress bs fl1 d1) <= p_start st fid2.
Proof. exact fresh_behind_l. Qed.
Print Assumptions distinct_first_block_behind.

(* ... so if that holds for every file, the data start offsets are strictly increasing along the packing order - for
   EVERY flag word of every file *)
Theorem distinct_data_laid_out_in_order :
  forall (hashf : list N -> N) (compress : list N -> option (list N))
         (uncompress : list N -> nat -> option (list N)) (bs half : nat),
  (forall b c, compress b = Some c -> length c < length b /\ forall n, length b <= n -> uncompress c n = Some b) ->
  0 < bs -> (N.of_nat bs <= c_SQFS_MAX_BLOCK_SIZE)%N -> 0 < half ->
  forall (file0 : list N) (files : list (uflags * list N)) (sched : list nat) (st : proc),
  pack hashf compress uncompress bs false true half file0 files sched = DedupModel.Ok st ->
  (forall j, j < length files -> fresh_first bs files j = true) ->
  forall fid1 fid2 fl1 d1 fl2 d2,
  fid1 < fid2 -> nth_error files fid1 = Some (fl1, d1) -> nth_error files fid2 = Some (fl2, d2) ->
  disk_data hashf compress bs fl1 d1 <> [] -> disk_data hashf compress bs fl2 d2 <> [] ->
  p_start st fid1 + length (disk_data hashf compress bs fl1 d1) <= p_start st fid2 /\
  p_start st fid1 < p_start st fid2.
Proof. exact distinct_in_order_l. Qed.
Print Assumptions distinct_data_laid_out_in_order.

(* ---- layout_follows_sort_file_strong --------------------------------------------------------------- *)
(* [layout_ok_strong .. pp ds order st] = layout_ok (the five clauses of layout_follows_sort_file) /\ [share_ok]:
   for the list pack_files hands to the block processor ([packed_files]: flag word of the sort file, -T applied, contents)
   (a) stored_run_at_start for every file of the order, (b) the strong layout log exists, (c) its pairwise reading as in
   layout_follows_order_strong with the flag test on the sort file's flag word, (d) distinct_first_block_behind *)
Theorem share_ok_is : forall hashf compress bs no_tail file0 contents order st,
  share_ok hashf compress bs no_tail file0 contents order st =
  (let files := packed_files no_tail bs contents order in
   let sbytes := stored_bytes hashf compress bs no_tail in
   (forall fid f, nth_error order fid = Some f ->
      slice (w_file (p_wr st)) (p_start st fid) (length (sbytes contents f)) = sbytes contents f /\
      (sbytes contents f <> [] -> p_start st fid + length (sbytes contents f) <= length (w_file (p_wr st)))) /\
   (exists dlog, strong_log hashf compress bs file0 files st dlog) /\
   (forall dlog, strong_log hashf compress bs file0 files st dlog ->
    forall i j fi fj, i < j -> nth_error order i = Some fi -> nth_error order j = Some fj ->
      sbytes contents fi <> [] -> sbytes contents fj <> [] ->
      exists newer older,
        dlog = newer ++ {| de_kind := LFile j; de_loc := p_start st j; de_data := sbytes contents fj |} :: older /\
        let out_before := replay file0 older in
        p_start st i + length (sbytes contents fi) <= length out_before /\
        slice out_before (p_start st i) (length (sbytes contents fi)) = sbytes contents fi /\
        (p_start st j = length out_before \/
         (FlagModel.has_bit (pf_flags fj) c_SQFS_BLK_DONT_DEDUPLICATE = false /\ p_start st j < length out_before /\
          slice (out_before ++ sbytes contents fj) (p_start st j) (length (sbytes contents fj)) = sbytes contents fj /\
          exists c0 rest pb0, srun hashf compress bs files j = c0 :: rest /\ same_block pb0 c0 /\
            ((exists f, f < j /\ In pb0 (srun hashf compress bs files f)) \/ frag_origin hashf compress bs files pb0)))) /\
   (forall i j fi fj, i < j -> nth_error order i = Some fi -> nth_error order j = Some fj ->
      sbytes contents fi <> [] -> sbytes contents fj <> [] ->
      fresh_first bs files j = true ->
      p_start st i + length (sbytes contents fi) <= p_start st j)).
Proof. reflexivity. Qed.

Theorem layout_follows_sort_file_strong :
  forall (hashf : list N -> N) (compress : list N -> option (list N))
         (uncompress : list N -> nat -> option (list N)) (bs half : nat),
  (forall b c, compress b = Some c -> length c < length b /\ forall n, length b <= n -> uncompress c n = Some b) ->
  0 < bs -> (N.of_nat bs <= c_SQFS_MAX_BLOCK_SIZE)%N -> 0 < half ->
  forall (no_tail : bool) (file0 : list N) (sched : list nat) (fnmatch : list N -> list N -> bool -> bool)
         (t : bool) (host : list N -> list N) (d : FstreeModel.fsdefaults) (ops : list Bridge.op)
         (fs : FstreeModel.fstree) (pp : PostModel.ppout) (text : list N),
  ops_clean ops ->
  Bridge.run_adds d (FstreeModel.fs_init d) ops = Some fs ->
  PostModel.post_process fs = PostModel.POk pp ->
  match parse_all t (get_lines text) with
  | Some ds =>
      exists (order : list pfile) (st : proc),
        pack_ops fnmatch t hashf compress uncompress bs half no_tail file0 host sched d ops (Some text) = ODone order st /\
        layout_ok_strong hashf compress uncompress bs no_tail file0 fnmatch host pp ds order st
  | None =>
      pack_ops fnmatch t hashf compress uncompress bs half no_tail file0 host sched d ops (Some text) = OSortErr
  end.
Proof. exact layout_strong_ops. Qed.
Print Assumptions layout_follows_sort_file_strong.

Theorem layout_follows_sort_file_strong_scanned :
  forall (hashf : list N -> N) (compress : list N -> option (list N))
         (uncompress : list N -> nat -> option (list N)) (bs half : nat),
  (forall b c, compress b = Some c -> length c < length b /\ forall n, length b <= n -> uncompress c n = Some b) ->
  0 < bs -> (N.of_nat bs <= c_SQFS_MAX_BLOCK_SIZE)%N -> 0 < half ->
  forall (no_tail : bool) (file0 : list N) (sched : list nat) (fnmatch : list N -> list N -> bool -> bool)
         (t : bool) (host : list N -> list N) (scan_fnmatch : list N -> list N -> bool -> bool)
         (d : FstreeModel.fsdefaults) (cfg : ScanModel.scfg) (sorted : bool) (h : ScanModel.hnode)
         (pp : PostModel.ppout) (text : list N),
  ScanLinks.cleanp (ScanModel.c_prefix cfg) ->
  ScanLinks.hok_rootb (if sorted then ScanModel.canon h else h) = true ->
  PackModel.scan_post scan_fnmatch d cfg sorted h (FstreeModel.fs_init d) = Some (PostModel.POk pp) ->
  match parse_all t (get_lines text) with
  | Some ds =>
      exists (order : list pfile) (st : proc),
        pack_dir fnmatch t hashf compress uncompress bs half no_tail file0 host sched scan_fnmatch d cfg sorted h (Some text)
        = ODone order st /\
        layout_ok_strong hashf compress uncompress bs no_tail file0 fnmatch host pp ds order st
  | None =>
      pack_dir fnmatch t hashf compress uncompress bs half no_tail file0 host sched scan_fnmatch d cfg sorted h (Some text)
      = OSortErr
  end.
Proof. exact layout_strong_dir. Qed.
Print Assumptions layout_follows_sort_file_strong_scanned.

Theorem layout_follows_sort_file_strong_tree :
  forall (hashf : list N -> N) (compress : list N -> option (list N))
         (uncompress : list N -> nat -> option (list N)) (bs half : nat),
  (forall b c, compress b = Some c -> length c < length b /\ forall n, length b <= n -> uncompress c n = Some b) ->
  0 < bs -> (N.of_nat bs <= c_SQFS_MAX_BLOCK_SIZE)%N -> 0 < half ->
  forall (no_tail : bool) (file0 : list N) (sched : list nat) (fnmatch : list N -> list N -> bool -> bool)
         (t : bool) (host : list N -> list N) (pp : PostModel.ppout) (text : list N),
  files_ok pp ->
  match parse_all t (get_lines text) with
  | Some ds =>
      exists (order : list pfile) (st : proc),
        pack_sorted fnmatch t hashf compress uncompress bs half no_tail file0 host sched pp (Some text) = ODone order st /\
        layout_ok_strong hashf compress uncompress bs no_tail file0 fnmatch host pp ds order st
  | None => pack_sorted fnmatch t hashf compress uncompress bs half no_tail file0 host sched pp (Some text) = OSortErr
  end.
Proof. exact layout_strong_pp. Qed.
Print Assumptions layout_follows_sort_file_strong_tree.

Theorem layout_without_sort_file_strong :
  forall (hashf : list N -> N) (compress : list N -> option (list N))
         (uncompress : list N -> nat -> option (list N)) (bs half : nat),
  (forall b c, compress b = Some c -> length c < length b /\ forall n, length b <= n -> uncompress c n = Some b) ->
  0 < bs -> (N.of_nat bs <= c_SQFS_MAX_BLOCK_SIZE)%N -> 0 < half ->
  forall (no_tail : bool) (file0 : list N) (sched : list nat) (fnmatch : list N -> list N -> bool -> bool)
         (t : bool) (host : list N -> list N) (pp : PostModel.ppout),
  files_ok pp ->
  exists (order : list pfile) (st : proc),
    pack_sorted fnmatch t hashf compress uncompress bs half no_tail file0 host sched pp None = ODone order st /\
    layout_ok_strong hashf compress uncompress bs no_tail file0 fnmatch host pp [] order st /\
    order = annot_list fnmatch [] (PostModel.pp_files pp).
Proof. exact layout_strong_default. Qed.
Print Assumptions layout_without_sort_file_strong.

(* the headline in terms of the nodes, with NO escape: if the first kept block of every file of the packing list is new,
   then of two files of the tree the one the directives put first (lower priority, or the same priority and earlier in
   default order) has the smaller fid and - if both store a block - lies strictly first in the data area, whatever the
   sort file says about flags *)
Theorem data_offsets_follow_priority_strong :
  forall (hashf : list N -> N) (compress : list N -> option (list N))
         (uncompress : list N -> nat -> option (list N)) (bs half : nat),
  (forall b c, compress b = Some c -> length c < length b /\ forall n, length b <= n -> uncompress c n = Some b) ->
  0 < bs -> (N.of_nat bs <= c_SQFS_MAX_BLOCK_SIZE)%N -> 0 < half ->
  forall (no_tail : bool) (file0 : list N)
         (fnmatch : list N -> list N -> bool -> bool) (host : list N -> list N)
         (pp : PostModel.ppout) (ds : list directive) (order : list pfile) (st : proc) (fa fb : pfile),
  files_ok pp ->
  layout_ok_strong hashf compress uncompress bs no_tail file0 fnmatch host pp ds order st ->
  (forall j, j < length order ->
             fresh_first bs (packed_files no_tail bs (node_contents host pp) order) j = true) ->
  In fa order -> In fb order -> pf_before fa fb ->
  exists i j : nat,
    fid_of order (pf_path fa) = Some i /\ fid_of order (pf_path fb) = Some j /\ i < j /\
    (stored_bytes hashf compress bs no_tail (node_contents host pp) fa <> [] ->
     stored_bytes hashf compress bs no_tail (node_contents host pp) fb <> [] ->
     p_start st i + length (stored_bytes hashf compress bs no_tail (node_contents host pp) fa) <= p_start st j /\
     p_start st i < p_start st j).
Proof. exact layout_by_priority_strong. Qed.
Print Assumptions data_offsets_follow_priority_strong.

(* ---- non-vacuity ------------------------------------------------------------------------------------ *)
(* block size 8, toy compressor, constant checksum (ex_directive_hyps); fl0 = no flag at all.
   Two identical files at default flags: the second one is SHARED - the right disjunct of layout_follows_order_strong
   fires: start 0 < 8 = |out_before|, the bytes that stood there are its run, the block it starts at is the stored block of
   file 0; fresh_first is false for it (and true for file 0) *)
Example ex_share_identical :
  match run ex_same_files with
  | DedupModel.Ok st =>
      disk_data const_hash toy_compress 8 fl0 blkX = blkX /\
      p_start st 0 = 0 /\ p_start st 1 = 0 /\
      let older := [{| de_kind := LFile 0; de_loc := 0; de_data := blkX |}] in
      w_file (p_wr st) = replay [] ({| de_kind := LFile 1; de_loc := 0; de_data := blkX |} :: older) /\
      p_start st 1 < length (replay [] older) /\
      slice (replay [] older ++ blkX) (p_start st 1) (length blkX) = blkX /\
      srun const_hash toy_compress 8 ex_same_files 1 = srun const_hash toy_compress 8 ex_same_files 0 /\
      fresh_first 8 ex_same_files 1 = false /\ fresh_first 8 ex_same_files 0 = true
  | _ => False
  end.
Proof. exact ex_same. Qed.

(* a run shared into ITSELF: X, then X X - the second file's blocks are appended at 8, found at 0 (the second block of the
   match is its own first block), the output is cut back to 16 bytes: "out_before continued by the run itself" *)
Example ex_share_overlap :
  match run ex_overlap_files with
  | DedupModel.Ok st =>
      p_start st 0 = 0 /\ p_start st 1 = 0 /\ length (w_file (p_wr st)) = 16 /\
      let older := [{| de_kind := LFile 0; de_loc := 0; de_data := blkX |}] in
      w_file (p_wr st) = replay [] ({| de_kind := LFile 1; de_loc := 0; de_data := blkX ++ blkX |} :: older) /\
      length (replay [] older) = 8 /\
      slice (replay [] older ++ blkX ++ blkX) 0 16 = blkX ++ blkX
  | _ => False
  end.
Proof. exact ex_overlap. Qed.

(* four distinct files at DEFAULT flags (a tail-only file among them; later blocks repeat earlier ones): the hypothesis of
   distinct_data_laid_out_in_order holds ... *)
Example ex_distinct_hyps : forall j, j < length ex_distinct_files -> fresh_first 8 ex_distinct_files j = true.
Proof. exact ex_distinct_hyp. Qed.

(* ... and the block starts are strictly increasing along the packing order: 0, -, 8, 24 *)
Example ex_distinct_offsets :
  match run ex_distinct_files with
  | DedupModel.Ok st =>
      map (fun k => (p_start st k, p_nwords st k)) (seq 0 4) = [(0, 1); (0, 0); (8, 2); (24, 2)] /\
      length (w_file (p_wr st)) = 44
  | _ => False
  end.
Proof. exact ex_distinct. Qed.

(* the tool level: the run of ex_order_run (flag word 0 on four of its five files, OUTSIDE what the old clause (2)
   constrained) meets the hypothesis of data_offsets_follow_priority_strong, and its offsets 0, 8, 16, 29 increase *)
Example ex_order_strong :
  match Bridge.run_adds ex_d (FstreeModel.fs_init ex_d) ex_ops with
  | Some fs =>
    match PostModel.post_process fs with
    | PostModel.POk pp =>
      match pack_sorted star_fnmatch true const_hash toy_compress toy_uncompress 8 4096 false [] ex_host [] pp
                        (Some ex_sortfile) with
      | ODone order st =>
          length order = 5 /\
          forallb (fresh_first 8 (packed_files false 8 (node_contents ex_host pp) order)) (seq 0 5) = true /\
          map (fun k => p_start st k) [0; 2; 3; 4] = [0; 8; 16; 29]
      | _ => False
      end
    | _ => False
    end
  | None => False
  end.
Proof. exact ex_order_fresh. Qed.

(* the tool level, sharing: nodes a and z with identical contents, the sort file  -1 z  puts z first; a (no flag) is
   shared with it: same block start, same fragment reference; fresh_first is false for it *)
Example ex_order_share :
  match pack_ops star_fnmatch true const_hash toy_compress toy_uncompress 8 4096 false [] ex_host_same [] ex_d ex_ops_same
                 (Some ex_sortfile_same) with
  | ODone order st =>
      map (fun f => (pf_path f, pf_prio f, pf_flags f)) order = [([n_z], (-1)%Z, 0%N); ([n_a], 0%Z, 0%N)] /\
      p_start st 0 = 0 /\ p_start st 1 = 0 /\ p_frag st 0 = Some (0, 0) /\ p_frag st 1 = Some (0, 0) /\
      map (stored_bytes const_hash toy_compress 8 false (fun _ => blkX ++ [9]%N)) order = [blkX; blkX] /\
      fresh_first 8 (packed_files false 8 (fun _ => blkX ++ [9]%N) order) 1 = false
  | _ => False
  end.
Proof. exact ex_order_shared. Qed.

(* ================================================================================================== *)
(* Extension (session 4): the sort file as TEXT - printer, round trip, rejection classes               *)
(* ================================================================================================== *)
(* C17/SortFileModel.v: [parse_sort_line] = one iteration of the line loop of fstree_sort_files on a raw buffer
   (istream_get_line with LTRIM|RTRIM|SKIP_EMPTY, the '#' test, decode_priority, decode_flags, decode_filename:
   SortModel.parse_line on SortModel.get_lines, repaired code), [print_sort_line] / [print_sort_file] = a printer for
   the syntax of gensquashfs(1) "SORT FILE FORMAT":  <priority> SP [ '[' kw,kw,.. ']' SP ] <quoted name>.
   The decimal printer is C16's print_dec (printf of an unsigned), the sign is written in front.
   Tie: props/C17/lineleg.py (extracted parse_sort_line / print_sort_line vs the decoders of the working tree's
   sort_by_file.c driven by h_line.c). *)
From SqfsV Require C16.DescribeModel C16.NumProofs.
From SqfsV Require Import C17.SortFileModel C17.SortFileProofs.
Local Open Scope N_scope.

(* which entries the syntax can express: priority strictly inside +-(2^63-1) (what parse_int lets through), path_glob
   only together with glob, flag word = or of those of the four keyword bits that are set in it *)
Theorem entry_ok_spelled_out : forall d : directive,
  entry_ok d <->
  (- Z.of_N s64lim < d_prio d < Z.of_N s64lim)%Z /\
  (d_glob d = false -> d_path d = false) /\
  rebuild_flags (d_flags d) = d_flags d.
Proof. intro d. reflexivity. Qed.

(* the third clause spelled out: the expressible flag words are exactly the sixteen subsets of
   {DONT_COMPRESS = 1, DONT_FRAGMENT = 4, DONT_DEDUPLICATE = 8, IGNORE_SPARSE = 16} (values from sqfs/block.h through GenC17.v) *)
Theorem expressible_flag_words : forall fl : N,
  rebuild_flags fl = fl <-> In fl [0; 16; 8; 24; 1; 17; 9; 25; 4; 20; 12; 28; 5; 21; 13; 29].
Proof. exact rebuild_flags_iff. Qed.
Print Assumptions expressible_flag_words.

(* ---- round trip of one line: every expressible entry, every file name (any bytes: blanks, quotes, backslashes,
   brackets, '#', even newlines) - the parser returns the entry with the name canonicalised; a name
   canonicalize_name refuses makes the line malformed ---- *)
Theorem print_parse_line : forall d : directive, entry_ok d ->
  parse_line true (print_sort_line d) =
  match canon_result (d_name d) with
  | Some nm => LnDir (set_name d nm)
  | None => LnErr
  end.
Proof. exact parse_print_line_gen. Qed.
Print Assumptions print_parse_line.

(* ... for a canonical name (no leading / trailing / double slash, no '.' component: what fstree_get_path +
   canonicalize_name produce for a node) the entry itself comes back *)
Theorem print_parse_line_canonical : forall d : directive, entry_ok d ->
  canon_result (d_name d) = Some (d_name d) ->
  parse_line true (print_sort_line d) = LnDir d.
Proof. exact parse_print_line. Qed.
Print Assumptions print_parse_line_canonical.

(* ... through istream_get_line: the raw line with no terminator, LF or CRLF; needs a name without newline *)
Theorem print_parse_raw_line : forall (d : directive) (eol : list N), entry_ok d -> ~ In ch_nl (d_name d) ->
  eol = [] \/ eol = [ch_nl] \/ eol = [ch_cr; ch_nl] ->
  parse_sort_line (print_sort_line d ++ eol) =
  match canon_result (d_name d) with
  | Some nm => LnDir (set_name d nm)
  | None => LnErr
  end.
Proof. exact parse_sort_line_raw. Qed.
Print Assumptions print_parse_raw_line.

(* ---- the printer covers everything the parser accepts: the entry decoded from ANY accepted line is expressible, has
   a canonical name, and its printed form decodes to the same entry (normal form) ---- *)
Theorem accepted_entry_expressible : forall (line : list N) (d : directive),
  parse_line true line = LnDir d -> entry_ok d /\ canon_result (d_name d) = Some (d_name d).
Proof. exact parse_line_entry_ok. Qed.
Print Assumptions accepted_entry_expressible.

Theorem accepted_line_normal_form : forall (line : list N) (d : directive),
  parse_line true line = LnDir d -> parse_line true (print_sort_line d) = LnDir d.
Proof. exact parse_print_normal_form. Qed.
Print Assumptions accepted_line_normal_form.

(* ---- the whole file: the line reader returns exactly the printed lines, and they decode to the entries ---- *)
Theorem print_parse_file : forall ds : list directive,
  Forall entry_ok ds ->
  Forall (fun d => canon_result (d_name d) = Some (d_name d)) ds ->
  Forall (fun d => ~ In ch_nl (d_name d)) ds ->
  get_lines (print_sort_file ds) = map print_sort_line ds /\
  parse_sort_file (print_sort_file ds) = Some ds /\
  parse_all true (get_lines (print_sort_file ds)) = Some ds.
Proof.
  intros ds H1 H2 H3. split; [exact (get_lines_print_file ds H3)|].
  split; [exact (parse_print_file ds H1 H2 H3)|].
  rewrite <- parse_lines_all. exact (parse_print_file ds H1 H2 H3).
Qed.
Print Assumptions print_parse_file.

(* ---- END TO END: from the entries through the BYTES of the sort file to what fstree_sort_files assigns.
   For every match oracle, every file list with the hypotheses of first_match_wins (proved for every tree:
   file_list_distinct_clean) and every list of expressible entries: the model of the sort pass run on the file
   printed from the entries succeeds and gives every file exactly the priority and flag word of the first entry
   that matches it (0 / none if no entry does), in stable priority order ---- *)
Theorem printed_sort_file_assigns_entries :
  forall (fnmatch : list N -> list N -> bool -> bool) (paths : list (list N)) (ds : list directive),
  Forall (fun p => canon_result p <> None) paths ->
  NoDup (map cpath_of paths) ->
  Forall entry_ok ds ->
  Forall (fun d => canon_result (d_name d) = Some (d_name d)) ds ->
  Forall (fun d => ~ In ch_nl (d_name d)) ds ->
  exists ns,
    sort_files fnmatch true paths (print_sort_file ds) = ROk (sel_sort ns) /\
    Forall2 (fun p n => n_path n = p /\
                        (n_prio n, n_flags n) =
                        match find (fun d => line_matches fnmatch d (cpath_of p)) ds with
                        | Some d => (d_prio d, d_flags d)
                        | None => (0%Z, 0)
                        end) paths ns.
Proof. exact printed_sort_file_assigns. Qed.
Print Assumptions printed_sort_file_assigns_entries.

(* ---- rejection classes, for both variants of decode_filename ([t]) -------------------------------------------- *)
(* (1) no number at the start (and not a comment) *)
Theorem reject_no_priority : forall (t : bool) (c : N) (r : list N),
  c <> ch_hash -> isdigit c = false ->
  (c = ch_minus -> match r with d :: _ => isdigit d = false | [] => True end) ->
  parse_line t (c :: r) = LnErr.
Proof. exact reject_no_priority_l. Qed.
Print Assumptions reject_no_priority.

(* (2) priority out of range: the decimal representation of ANY n >= 2^63-1, with or without '-', also when the
   digit loop itself overflows 64 bits.  With priority_range: accepted <-> strictly inside +-(2^63-1) *)
Theorem reject_priority_out_of_range : forall (t : bool) (sign : list N) (n : N) (rest : list N),
  sign = [] \/ sign = [ch_minus] ->
  match rest with [] => True | c :: _ => isdigit c = false end ->
  s64lim <= n ->
  parse_line t (sign ++ C16.DescribeModel.print_dec n ++ rest) = LnErr.
Proof. exact reject_priority_out_of_range_l. Qed.
Print Assumptions reject_priority_out_of_range.

(* ... and for every digit string (leading zeros included) whose value is that big *)
Theorem reject_priority_overflow : forall (t : bool) (sign ds rest : list N),
  sign = [] \/ sign = [ch_minus] -> ds <> [] -> Forall (fun c => 48 <= c /\ c < 48 + 10) ds ->
  match rest with [] => True | c :: _ => isdigit c = false end ->
  s64lim <= fold_left (fun a c => a * 10 + (c - 48)) ds 0 ->
  parse_line t (sign ++ ds ++ rest) = LnErr.
Proof. exact reject_priority_overflow_l. Qed.
Print Assumptions reject_priority_overflow.

(* (3) nothing, or something other than a blank, behind the priority *)
Theorem reject_no_blank_after_priority : forall (t : bool) (p : Z) (rest : list N),
  (- Z.of_N s64lim < p < Z.of_N s64lim)%Z ->
  match rest with [] => True | c :: _ => isspace c = false /\ isdigit c = false end ->
  parse_line t (print_prio p ++ rest) = LnErr.
Proof. exact reject_no_blank_after_priority_l. Qed.
Print Assumptions reject_no_blank_after_priority.

(* (4) '[' without ']' *)
Theorem reject_missing_rbracket : forall (t : bool) (p : Z) (s : list N),
  (- Z.of_N s64lim < p < Z.of_N s64lim)%Z -> ~ In ch_rbracket s ->
  parse_line t (print_prio p ++ ch_space :: ch_lbracket :: s) = LnErr.
Proof. exact reject_missing_rbracket_l. Qed.
Print Assumptions reject_missing_rbracket.

(* (5) nothing, or something other than a blank, behind ']' *)
Theorem reject_no_blank_after_flags : forall (t : bool) (p : Z) (inner after : list N),
  (- Z.of_N s64lim < p < Z.of_N s64lim)%Z ->
  Forall (fun c => (c =? ch_rbracket) = false) inner ->
  match after with [] => True | c :: _ => isspace c = false end ->
  parse_line t (print_prio p ++ ch_space :: ch_lbracket :: inner ++ ch_rbracket :: after) = LnErr.
Proof. exact reject_no_blank_after_flags_l. Qed.
Print Assumptions reject_no_blank_after_flags.

(* (6) unknown flag: some word of the list (unquoted words without ',' and ']'), trimmed, is none of the six keywords -
   a proper prefix of a keyword, a keyword with a suffix, the manual page's `align`, ... - whatever follows *)
Theorem reject_unknown_flag : forall (t : bool) (p : Z) (ws : list (list N)) (after : list N),
  (- Z.of_N s64lim < p < Z.of_N s64lim)%Z ->
  Forall plain_tok ws -> Forall (Forall (fun c => (c =? ch_rbracket) = false)) ws ->
  Exists (fun w => known_kw (trim w) = false) ws ->
  parse_line t (print_prio p ++ ch_space :: ch_lbracket :: join_comma ws ++ ch_rbracket :: after) = LnErr.
Proof. exact reject_unknown_flag_l. Qed.
Print Assumptions reject_unknown_flag.

(* the name part behind the priority and an optional rendered flag list: the line is accepted iff decode_filename
   accepts the name part (the general form the next four classes are instances of) *)
Theorem line_with_name_part : forall (t : bool) (p : Z) (o : option (list kw)) (c : N) (r : list N),
  (- Z.of_N s64lim < p < Z.of_N s64lim)%Z -> isspace c = false -> c <> ch_lbracket ->
  parse_line t (print_prio p ++ ch_space :: flag_prefix o ++ c :: r) =
  match decode_filename t (c :: r) with
  | None => LnErr
  | Some nm => let '(g, pg, fl) := prefix_effect o in LnDir (mkdirective p g pg fl nm)
  end.
Proof. exact parse_line_name_part. Qed.
Print Assumptions line_with_name_part.

(* (7) unterminated quote *)
Theorem reject_unterminated_quote : forall (t : bool) (p : Z) (o : option (list kw)) (s : list N),
  (- Z.of_N s64lim < p < Z.of_N s64lim)%Z -> ~ In ch_dquote s ->
  parse_line t (print_prio p ++ ch_space :: flag_prefix o ++ ch_dquote :: s) = LnErr.
Proof. exact reject_unterminated_quote_l. Qed.
Print Assumptions reject_unterminated_quote.

(* (8) trailing garbage behind the closing quote *)
Theorem reject_trailing_garbage : forall (t : bool) (p : Z) (o : option (list kw)) (s g : list N),
  (- Z.of_N s64lim < p < Z.of_N s64lim)%Z -> g <> [] ->
  parse_line t (print_prio p ++ ch_space :: flag_prefix o ++ quote s ++ g) = LnErr.
Proof. exact reject_trailing_garbage_l. Qed.
Print Assumptions reject_trailing_garbage.

(* (9) unknown escape sequence *)
Theorem reject_unknown_escape : forall (t : bool) (p : Z) (o : option (list kw)) (s : list N) (e : N) (r : list N),
  (- Z.of_N s64lim < p < Z.of_N s64lim)%Z -> e <> ch_dquote -> e <> ch_bslash ->
  parse_line t (print_prio p ++ ch_space :: flag_prefix o ++ ch_dquote :: escape s ++ ch_bslash :: e :: r) = LnErr.
Proof. exact reject_unknown_escape_l. Qed.
Print Assumptions reject_unknown_escape.

(* (10) a name canonicalize_name refuses *)
Theorem reject_uncanonical_name : forall (p : Z) (o : option (list kw)) (s : list N),
  (- Z.of_N s64lim < p < Z.of_N s64lim)%Z -> canon_result s = None ->
  parse_line true (print_prio p ++ ch_space :: flag_prefix o ++ quote s) = LnErr.
Proof. exact reject_uncanonical_name_l. Qed.
Print Assumptions reject_uncanonical_name.

(* ---- non-vacuity ---- *)
(* -12 [glob_no_path,dont_fragment,nosparse] "a b\"c"   (name  a b"c ) *)
Definition ex_entry : directive := mkdirective (-12)%Z true false 20 [97;32;98;34;99].
Example ex_print_line :
  print_sort_line ex_entry =
  [45;49;50;32;91;103;108;111;98;95;110;111;95;112;97;116;104;44;100;111;110;116;95;102;114;97;103;109;101;110;116;44;
   110;111;115;112;97;114;115;101;93;32;34;97;32;98;92;34;99;34] /\
  entry_okb ex_entry = true /\ canon_result (d_name ex_entry) = Some (d_name ex_entry) /\
  parse_sort_line (print_sort_line ex_entry ++ [ch_cr; ch_nl]) = LnDir ex_entry.
Proof. vm_compute. repeat split; reflexivity. Qed.

Example ex_entry_ok : entry_ok ex_entry /\ ~ In ch_nl (d_name ex_entry).
Proof. split; [apply entry_okb_iff; vm_compute; reflexivity | cbn; intuition discriminate]. Qed.

(* int64 edges: the largest and smallest accepted priority print and parse; a non-canonical name comes back canonical *)
Example ex_print_edges :
  parse_line true (print_sort_line (mkdirective 9223372036854775806%Z false false 0 [97])) =
    LnDir (mkdirective 9223372036854775806%Z false false 0 [97]) /\
  parse_line true (print_sort_line (mkdirective (-9223372036854775806)%Z false false 29 [47;97;47;47;98;47])) =
    LnDir (mkdirective (-9223372036854775806)%Z false false 29 [97;47;98]) /\
  entry_okb (mkdirective 9223372036854775807%Z false false 0 [97]) = false /\
  entry_okb (mkdirective 0%Z false true 0 [97]) = false /\
  entry_okb (mkdirective 0%Z false false 2 [97]) = false.
Proof. vm_compute. repeat split; reflexivity. Qed.

(* a two-entry file and the file list of ex_first_match_hyps: the hypotheses of the end-to-end theorem hold, the file
   is what one would write by hand, and it decodes to the entries *)
Definition ex_entries : list directive :=
  [mkdirective 5%Z true true 1 [97;47;42]; mkdirective (-3)%Z false false 16 [98]].
Example ex_printed_file :
  Forall entry_ok ex_entries /\
  Forall (fun d => canon_result (d_name d) = Some (d_name d)) ex_entries /\
  Forall (fun d => ~ In ch_nl (d_name d)) ex_entries /\
  print_sort_file ex_entries =
    [53;32;91;103;108;111;98;44;100;111;110;116;95;99;111;109;112;114;101;115;115;93;32;34;97;47;42;34;10;
     45;51;32;91;110;111;115;112;97;114;115;101;93;32;34;98;34;10] /\
  parse_sort_file (print_sort_file ex_entries) = Some ex_entries.
Proof.
  split; [repeat constructor; apply entry_okb_iff; vm_compute; reflexivity|].
  split; [repeat constructor|].
  split; [repeat constructor; cbn; intuition discriminate|].
  split; vm_compute; reflexivity.
Qed.

(* one concrete line per rejection class, in the form of its theorem (the hypotheses are met) *)
Example ex_reject_classes :
  (* (1)  x a  and  - 5 a *)
  parse_line true [120;32;97] = LnErr /\ parse_line true [45;32;53;32;97] = LnErr /\
  (* (2)  9223372036854775807 a, -9223372036854775807 a, 99999999999999999999 a *)
  C16.DescribeModel.print_dec 9223372036854775807 ++ [32;97] =
    [57;50;50;51;51;55;50;48;51;54;56;53;52;55;55;53;56;48;55;32;97] /\
  parse_line true ([] ++ C16.DescribeModel.print_dec 9223372036854775807 ++ [32;97]) = LnErr /\
  parse_line true ([ch_minus] ++ C16.DescribeModel.print_dec 9223372036854775807 ++ [32;97]) = LnErr /\
  parse_line true ([] ++ C16.DescribeModel.print_dec 99999999999999999999 ++ [32;97]) = LnErr /\
  (* (3)  5a  and  5 *)
  parse_line true (print_prio 5 ++ [97]) = LnErr /\ parse_line true (print_prio 5 ++ []) = LnErr /\
  (* (4)  5 [glob a *)
  parse_line true (print_prio 5 ++ ch_space :: ch_lbracket :: [103;108;111;98;32;97]) = LnErr /\
  (* (5)  5 [glob]a *)
  parse_line true (print_prio 5 ++ ch_space :: ch_lbracket :: kw_glob ++ ch_rbracket :: [97]) = LnErr /\
  (* (6)  5 [glob,glo] a   5 [nosparsex] a   5 [align] a *)
  print_prio 5 ++ ch_space :: ch_lbracket :: join_comma [kw_glob; [103;108;111]] ++ ch_rbracket :: [32;97] =
    [53;32;91;103;108;111;98;44;103;108;111;93;32;97] /\
  parse_line true (print_prio 5 ++ ch_space :: ch_lbracket :: join_comma [kw_glob; [103;108;111]] ++ ch_rbracket :: [32;97]) = LnErr /\
  parse_line true (print_prio 5 ++ ch_space :: ch_lbracket :: join_comma [kw_nosparse ++ [120]] ++ ch_rbracket :: [32;97]) = LnErr /\
  parse_line true (print_prio 5 ++ ch_space :: ch_lbracket :: join_comma [[97;108;105;103;110]] ++ ch_rbracket :: [32;97]) = LnErr /\
  (* (7)  5 [glob] <q>a *)
  parse_line true (print_prio 5 ++ ch_space :: flag_prefix (Some [KGlob]) ++ ch_dquote :: [97]) = LnErr /\
  (* (8)  5 <q>a<q> b *)
  parse_line true (print_prio 5 ++ ch_space :: flag_prefix None ++ quote [97] ++ [32;98]) = LnErr /\
  (* (9)  5 <q>a\n<q> *)
  parse_line true (print_prio 5 ++ ch_space :: flag_prefix None ++ ch_dquote :: escape [97] ++ ch_bslash :: 110 :: [34]) = LnErr /\
  (* (10) 5 <q>a/../b<q> *)
  parse_line true (print_prio 5 ++ ch_space :: flag_prefix None ++ quote [97;47;46;46;47;98]) = LnErr.
Proof. vm_compute. repeat split; reflexivity. Qed.

Example ex_reject_hyps :
  Forall plain_tok [kw_glob; [103;108;111]] /\
  Forall (Forall (fun c => (c =? ch_rbracket) = false)) [kw_glob; [103;108;111]] /\
  Exists (fun w => known_kw (trim w) = false) [kw_glob; [103;108;111]] /\
  canon_result [97;47;46;46;47;98] = None /\
  (s64lim <= 9223372036854775807).
Proof.
  split; [repeat constructor; try (eexists _, _; split; [reflexivity|discriminate])|].
  split; [repeat constructor|].
  split; [apply Exists_cons_tl, Exists_cons_hd; vm_compute; reflexivity|].
  split; [vm_compute; reflexivity | vm_compute; discriminate].
Qed.

(* what the parser ACCEPTS although the manual page does not describe it (observations, props/C17/NOTES.md): an empty
   flag list, both glob keywords (the last one decides), a quoted keyword, blanks around keywords, an unquoted name
   with inner blanks; and what it REFUSES although the manual page lists it: the flag `align` (ex_reject_classes (6)) *)
Example ex_accepted_oddities :
  (* 5 [] a *)
  parse_line true [53;32;91;93;32;97] = LnDir (mkdirective 5 false false 0 [97]) /\
  (* 5 [glob,glob_no_path] a *)
  parse_line true ([53;32;91] ++ kw_glob ++ [44] ++ kw_glob_no_path ++ [93;32;97]) = LnDir (mkdirective 5 true false 0 [97]) /\
  (* 5 [<q>glob<q>, nosparse ] a *)
  parse_line true ([53;32;91;34] ++ kw_glob ++ [34;44;32] ++ kw_nosparse ++ [32;93;32;97]) = LnDir (mkdirective 5 true true 16 [97]) /\
  (* 5 a b  ->  name  a b *)
  parse_line true [53;32;97;32;98] = LnDir (mkdirective 5 false false 0 [97;32;98]) /\
  (* +5 a : no plus sign *)
  parse_line true [43;53;32;97] = LnErr.
Proof. vm_compute. repeat split; reflexivity. Qed.
