(* C08 — deduplication never changes data, even when checksums collide.
   Statements only; every proof is one [exact] of a lemma from C08/Dedup*.v.

   Model: C08/DedupModel.v (block writer: write_data_block / deduplicate_blocks /
   check_file_range_equal; block processor: process_block, process_completed_block,
   process_completed_fragment, chunk_info_equals with its three byte sources, load_frag_block,
   the io queue, sync / finish; data reader).  The checksum [hashf] is quantified without ANY
   hypothesis; the compressor pair carries the contract of include/sqfs/compressor.h; [sched]
   ranges over all moments at which compressed fragment blocks come back from the pool. *)
From Coq Require Import List NArith Arith Bool.
From SqfsV Require Import Gen.Constants C08.GenC08.
From SqfsV Require Import C08.DedupModel C08.DedupLemmas C08.DedupWriterProofs
     C08.DedupReaderProofs C08.DedupPipeProofs C08.DedupTheorems.
Import ListNotations.

(* ---- dedup_sound ---------------------------------------------------------------------- *)
(* for every checksum function, every contract-abiding compressor, every block size the format
   allows, every comparison window > 0, every initial file content (super block), every list of
   files with their flags (DONT_COMPRESS, DONT_HASH, DONT_FRAGMENT, DONT_DEDUPLICATE,
   IGNORE_SPARSE) and every schedule: packing succeeds, every file read through the data reader
   from its recorded block start / size words / fragment reference is byte-exact, and the bytes
   that were in the output file before (the super block) are untouched *)
Theorem dedup_sound :
  forall (hashf : list N -> N)
         (compress : list N -> option (list N)) (uncompress : list N -> nat -> option (list N))
         (bs half : nat),
  (forall b c, compress b = Some c ->
     length c < length b /\ forall n, length b <= n -> uncompress c n = Some b) ->
  0 < bs -> (N.of_nat bs <= c_SQFS_MAX_BLOCK_SIZE)%N -> 0 < half ->
  forall (file0 : list N) (files : list (uflags * list N)) (sched : list nat),
  exists st,
    pack hashf compress uncompress bs false true half file0 files sched = Ok st /\
    (forall fid fl d, nth_error files fid = Some (fl, d) ->
                      read_back uncompress bs st fid (length d) = Some d) /\
    firstn (length file0) (w_file (p_wr st)) = file0.
Proof. exact dedup_sound_l. Qed.
Print Assumptions dedup_sound.

(* the comparison window the working tree really uses (SCRATCH_SIZE / 2) is > 0 *)
Theorem scratch_window_positive : 0 < half_scratch.
Proof. exact half_scratch_pos. Qed.
Print Assumptions scratch_window_positive.

(* the literals of the model (bit 24, 24-bit size field, 64-bit packing of size and checksum)
   are the ones in block_writer.c / block.h of the working tree *)
Theorem model_constants :
  two24 = c08_UNCOMPRESSED_BIT /\ two24 = c08_ON_DISK_SIZE_RANGE /\
  two24 = c08_SIZE_FROM_HASH_RANGE /\
  c08_MK_BLK_HASH_0_1 = (2 ^ 32)%N /\ c08_MK_BLK_HASH_1_0 = 1%N /\
  c08_SIZE_FROM_HASH_OF_UNCOMPRESSED_5 = 5%N.
Proof. exact model_constants_match. Qed.
Print Assumptions model_constants.

(* ---- writer_ranges_stable ---------------------------------------------------------------- *)
(* the block writer alone, driven by any sequence of files (FIRST .. LAST groups, dedup on or
   off) and loose blocks (fragment blocks): it never fails, every location it handed out still
   holds the bytes the caller wrote there after all later truncations, and the initial content
   of the file is untouched *)
Theorem writer_ranges_stable :
  forall (half : nat) (ops : list wop) (file0 : list N),
  0 < half -> Forall op_small ops ->
  exists w' ranges,
    wrun half ops {| w_file := file0; w_blocks := []; w_fstart := 0 |} [] = Some (w', ranges) /\
    Forall (fun r => fst r + length (snd r) <= length (w_file w') /\
                     slice (w_file w') (fst r) (length (snd r)) = snd r) ranges /\
    firstn (length file0) (w_file w') = file0.
Proof. exact writer_ranges_stable_l. Qed.
Print Assumptions writer_ranges_stable.

(* ---- frag_source_agree ------------------------------------------------------------------ *)
(* at every point between two files of a run (any prefix, any schedule): for every file that was
   given a fragment reference (idx, o), the lookup chunk_info_equals performs for block idx -
   whichever of the three sources answers: the in-flight copy, the block being filled, or the
   block re-read from disk and uncompressed - succeeds and holds the file's tail bytes at o *)
Theorem frag_source_agree :
  forall (hashf : list N -> N)
         (compress : list N -> option (list N)) (uncompress : list N -> nat -> option (list N))
         (bs half : nat),
  (forall b c, compress b = Some c ->
     length c < length b /\ forall n, length b <= n -> uncompress c n = Some b) ->
  0 < bs -> (N.of_nat bs <= c_SQFS_MAX_BLOCK_SIZE)%N -> 0 < half ->
  forall (file0 : list N) (files : list (uflags * list N)) (n : nat) (sched : list nat) (st : proc),
  run_files hashf compress uncompress bs false true half
            (firstn n (map (fun f => file_job bs (fst f) (snd f)) files)) sched 0 (init_proc file0)
  = Ok st ->
  forall fid fl data idx o t,
    nth_error files fid = Some (fl, data) -> p_frag st fid = Some (idx, o) ->
    j_tail (file_job bs fl data) = Some t ->
    exists d ca,
      frag_lookup uncompress bs st (p_cached st) idx = Some (d, ca) /\
      o + length t <= length d /\ slice d o (length t) = t.
Proof. exact frag_source_agree_l. Qed.
Print Assumptions frag_source_agree.

(* ---- dedup_complete (block runs) ---------------------------------------------------------- *)
(* in any state the writer is in after the last block of a file (WOpen: [pre]/[hist] = file and
   history when the file's first block arrived, [cur] = the blocks stored since): if the same
   size words, checksums and bytes already sit completely inside the history at position j, the
   file is not stored again - file and history are cut back to exactly [pre] and [hist] - and the
   location handed out is at or before that occurrence and holds the same bytes *)
Theorem dedup_complete_blocks :
  forall half base w claims pre hist cur j evs,
  0 < half ->
  WOpen base w claims pre hist cur -> cur <> [] ->
  j + length cur <= length hist ->
  hashes_match (firstn (length cur) (skipn j hist)) (infos (length pre) cur) = true ->
  slice pre (bi_off (nth j hist dflt_bi)) (length (cat cur)) = cat cur ->
  exists loc evs',
    deduplicate_blocks false half w false evs
    = WOk {| w_file := pre; w_blocks := hist; w_fstart := length hist |} loc evs' /\
    loc <= bi_off (nth j hist dflt_bi) /\
    slice pre loc (length (cat cur)) = cat cur.
Proof. exact dedup_complete_blocks_l. Qed.
Print Assumptions dedup_complete_blocks.

(* ---- dedup_hash_only_unsound_refuted --------------------------------------------------------- *)
(* what soundness rests on: with SQFS_BLOCK_WRITER_HASH_COMPARE_ONLY, or with a block processor
   that was given no file / uncompressor to compare against, a colliding checksum DOES alias data
   (lib/common/src/writer/init.c passes flags 0, the output file and the uncompressor: checked by
   props/C08/check.py on the working tree) *)
Theorem dedup_hash_only_unsound_refuted :
  exists hashf compress uncompress bs half file0 files sched st,
    pack hashf compress uncompress bs true true half file0 files sched = Ok st /\
    exists fid fl d d', nth_error files fid = Some (fl, d) /\
                        read_back uncompress bs st fid (length d) = Some d' /\ d' <> d.
Proof.
  destruct hash_only_aliases_blocks as (st & E & R).
  exists const_hash, no_compress, no_uncompress, 4, 4096, [], witness_files_blocks, [], st.
  split; [exact E|]. exists 1, fl0, [5; 6; 7; 8]%N, [1; 2; 3; 4]%N.
  split; [reflexivity|]. split; [exact R|discriminate].
Qed.
Print Assumptions dedup_hash_only_unsound_refuted.

Theorem dedup_no_bytecmp_unsound_refuted :
  exists hashf compress uncompress bs half file0 files sched st,
    pack hashf compress uncompress bs false false half file0 files sched = Ok st /\
    exists fid fl d d', nth_error files fid = Some (fl, d) /\
                        read_back uncompress bs st fid (length d) = Some d' /\ d' <> d.
Proof.
  destruct no_bytecmp_aliases_fragments as (st & E & R).
  exists const_hash, no_compress, no_uncompress, 4, 4096, [], witness_files_frags, [], st.
  split; [exact E|]. exists 1, fl0, [3; 4]%N, [1; 2]%N.
  split; [reflexivity|]. split; [exact R|discriminate].
Qed.
Print Assumptions dedup_no_bytecmp_unsound_refuted.

(* ---- non-vacuity ------------------------------------------------------------------------- *)
(* the compressor contract is satisfiable by a compressor that really compresses: the toy
   run-length codec of the component harness *)
Theorem toy_compressor_contract : forall b c, toy_compress b = Some c ->
  length c < length b /\ forall n, length b <= n -> toy_uncompress c n = Some b.
Proof. exact toy_contract. Qed.
Print Assumptions toy_compressor_contract.

(* constant checksum (everything collides), toy compressor, block size 4: two different files
   with equal block counts and tail sizes, a true duplicate, a compressible and a sparse block *)
Definition ex_files : list (uflags * list N) :=
  [(fl0, [1; 2; 3; 4; 9; 9]%N); (fl0, [5; 6; 7; 8; 7; 7]%N); (fl0, [1; 2; 3; 4; 9; 9]%N);
   (fl0, [3; 3; 3; 3; 3; 3; 3; 3; 0; 0; 0; 0; 1]%N)].

Example ex_sound_nontrivial :
  match pack const_hash toy_compress toy_uncompress 4 false true 4096 [7; 7; 7]%N ex_files [0; 1] with
  | Ok st =>
    read_back toy_uncompress 4 st 0 6 = Some [1; 2; 3; 4; 9; 9]%N /\
    read_back toy_uncompress 4 st 1 6 = Some [5; 6; 7; 8; 7; 7]%N /\
    read_back toy_uncompress 4 st 3 13 = Some [3; 3; 3; 3; 3; 3; 3; 3; 0; 0; 0; 0; 1]%N /\
    (* the true duplicate shares block start and fragment reference with the original ... *)
    p_start st 2 = p_start st 0 /\ p_frag st 2 = p_frag st 0 /\
    (* ... the colliding different file does not *)
    p_start st 1 <> p_start st 0 /\ p_frag st 1 <> p_frag st 0
  | _ => False
  end.
Proof. vm_compute. repeat split; discriminate. Qed.

(* the hypotheses of dedup_complete_blocks are met in a concrete state: history [X], then the
   one-block file X again *)
Example ex_complete_blocks :
  let X := {| pb_sparse := false; pb_compressed := false; pb_chk := 0%N; pb_data := [1; 2; 3]%N |} in
  let w := {| w_file := [1; 2; 3; 1; 2; 3]%N;
              w_blocks := [info_of 0 X; info_of 3 X]; w_fstart := 1 |} in
  WOpen 0 w [] [1; 2; 3]%N [info_of 0 X] [X] /\
  deduplicate_blocks false 4096 w false []
  = WOk {| w_file := [1; 2; 3]%N; w_blocks := [info_of 0 X]; w_fstart := 1 |} 0 [EvTrunc 3].
Proof.
  split; [|vm_compute; reflexivity].
  constructor; simpl; try reflexivity.
  - split; [reflexivity|exact I].
  - constructor.
  - constructor; [|constructor]. unfold small. simpl. reflexivity.
Qed.

(* ------------------------------------------------------------------------------------------ *)
(* C08 x Image: file contents read back FROM THE IMAGE BYTES                                    *)
(* ------------------------------------------------------------------------------------------ *)
(* dedup_sound reads every file back from the block writer's own output file.  The theorems below compose it with
   the whole-image writer of coq/Image (write_image: sqfs_writer_init + sqfs_writer_finish, Properties_C03.v) and
   state the read-back over the bytes of the finished image: block size from the super block read from the image,
   fragment table read from the image through its location list, inode = the LFile view the tree reader returns,
   block bytes at absolute offsets, uncompressed when bit 24 of the size word is clear.
   Glue (coq/ImgData/GlueModel.v): data_of = what [pack] appended behind the initial file content [file0]
   (provisional super block + compressor options; the block writer appends at the current file size, so every
   location is an absolute offset), frag_table_of = the fragment table it leaves, file_lkind = what a reader sees of the
   file inode (blocks_start, file size, fragment index / offset or 0xFFFFFFFF, the size words). *)
From SqfsV Require C14.SuperModel.
From SqfsV Require Import C03.Common C01.InodeModel Img.TreeModel.
From SqfsV Require Import Image.FinishModel Image.ReaderModel Image.ImageProofs.
From SqfsV Require Import ImgData.GlueModel ImgData.BoundInv ImgData.ShiftProofs ImgData.Compose.
From SqfsV Require ImgData.Example Img.ZrleProofs.

(* ---- pack_refs_in_data_area ------------------------------------------------------------------ *)
(* no location [pack] records points in front of the data area - for EVERY checksum function, compressor (no
   contract needed), flag assignment, schedule, with or without HASH_COMPARE_ONLY / byte comparison: a fragment
   table entry is (0, 0) (never filled; its size word is "sparse", nothing is read) or starts at or behind
   |file0|; a file's block start lies at or behind |file0|, or every size word of the file is sparse (blocks_start
   stays 0 for a file without a stored block).  This is what makes the rewrite of the super block by
   sqfs_writer_finish harmless for the data reader. *)
Theorem pack_refs_in_data_area :
  forall (hashf : list N -> N) (compress : list N -> option (list N))
         (uncompress : list N -> nat -> option (list N)) (bs : nat) (hash_only bytecmp : bool) (half : nat)
         (file0 : list N) (files : list (uflags * list N)) (sched : list nat) (st : proc),
  pack hashf compress uncompress bs hash_only bytecmp half file0 files sched = DedupModel.Ok st ->
  (forall i, p_ftab st i = (0, 0%N) \/ length file0 <= fst (p_ftab st i)) /\
  (forall fid, fid < length files ->
     length file0 <= p_start st fid \/ forall k w, p_size st fid k = Some w -> sw_sparse w = true).
Proof. exact pack_refs_behind. Qed.
Print Assumptions pack_refs_in_data_area.

(* ---- image_data_shift ------------------------------------------------------------------------ *)
(* the shift lemma: write_image places the data area verbatim behind super block + options and never touches it
   again, so every read at or behind |file0| that succeeds on the block writer's file gives the same bytes on the
   image *)
Theorem image_data_shift :
  forall (hashf : list N -> N)
         (dcompress : list N -> option (list N)) (duncompress : list N -> nat -> option (list N))
         (bs half : nat),
  (forall b c, dcompress b = Some c ->
     length c < length b /\ forall n, length b <= n -> duncompress c n = Some b) ->
  0 < bs -> (N.of_nat bs <= c_SQFS_MAX_BLOCK_SIZE)%N -> 0 < half ->
  forall (mcompress : list N -> cres) (muncompress : list N -> option (list N)),
  (forall b c, mcompress b = CData c -> (lenN c <= lenN b)%N /\ muncompress c = Some b) ->
  forall limit, (limit <= 65535)%N ->
  forall cfg inp w file0 files sched st,
  length file0 = 96 + length (in_opts inp) ->
  c_block_size cfg = N.of_nat bs ->
  pack hashf dcompress duncompress bs false true half file0 files sched = DedupModel.Ok st ->
  in_data inp = data_of (length file0) st ->
  write_image mcompress limit cfg inp = Res.Ok w -> image_domain cfg inp = true -> image_fits w = true ->
  forall off n x, length file0 <= off ->
    DedupModel.read_at (w_file (p_wr st)) off n = Some x -> DedupModel.read_at (image_bytes w) off n = Some x.
Proof. exact image_agrees. Qed.
Print Assumptions image_data_shift.

(* ---- image_file_contents_roundtrip ------------------------------------------------------------ *)
(* for every checksum function, every data compressor and metadata compressor meeting their contracts, every
   block size, file list, flag assignment and schedule: if the files are packed behind a provisional header of
   96 + |options| bytes, and write_image is given the data area and the fragment table that run left and ANY tree,
   inside the domain of the Image theorems, then reading the image back yields the tree (image_tree_roundtrip),
   every view in it is the view of a node of the input tree, and for every view that carries what pack recorded for
   file [fid] (block start, size, fragment reference, size words; any sparse byte count) the reader specification
   run on the image bytes alone returns exactly the input bytes of that file.
   Hypotheses that remain: the two compressor contracts; the domain of the Image theorems (image_domain: tree
   representable, compressor id 1..6, fragment entries fit their fields, options = nothing or one metadata block;
   image_fits: 32 / 16 bit location fields of the metadata, bytes_used < 2^64), write_image succeeds; block size of
   the super block = block size of the block processor; the inode view equals file_lkind (shown computable on a
   concrete tree below).  NOT a hypothesis: anything about the checksum, about where blocks lie, about the schedule. *)
Theorem image_file_contents_roundtrip :
  forall (hashf : list N -> N)
         (dcompress : list N -> option (list N)) (duncompress : list N -> nat -> option (list N))
         (bs half : nat),
  (forall b c, dcompress b = Some c ->
     length c < length b /\ forall n, length b <= n -> duncompress c n = Some b) ->
  0 < bs -> (N.of_nat bs <= c_SQFS_MAX_BLOCK_SIZE)%N -> 0 < half ->
  forall (mcompress : list N -> cres) (muncompress : list N -> option (list N)),
  (forall b c, mcompress b = CData c -> (lenN c <= lenN b)%N /\ muncompress c = Some b) ->
  forall limit, (limit <= 65535)%N ->
  forall cfg inp w file0 files sched st,
  length file0 = 96 + length (in_opts inp) ->
  c_block_size cfg = N.of_nat bs ->
  pack hashf dcompress duncompress bs false true half file0 files sched = DedupModel.Ok st ->
  in_data inp = data_of (length file0) st ->
  in_frags inp = frag_table_of st ->
  write_image mcompress limit cfg inp = Res.Ok w -> image_domain cfg inp = true -> image_fits w = true ->
  let t := in_tree inp in
  exists lt,
    spec_tree t (length t) (Res.nlen t) = Some lt /\
    read_image_tree muncompress (image_bytes w) = Some lt /\
    (forall v, In v (views lt) ->
       exists n, get t (lv_ino v) = Some n /\ v = lview_of_fnode (lv_ino v) n) /\
    (forall v fid fl d sp,
       In v (views lt) -> nth_error files fid = Some (fl, d) ->
       lv_kind v = file_lkind bs st fid (length d) sp ->
       image_read_file muncompress duncompress (image_bytes w) (lv_kind v) = Some d).
Proof. exact image_file_contents_l. Qed.
Print Assumptions image_file_contents_roundtrip.

(* the same with the hypothesis on the INPUT tree ("every tree whose file inodes carry what pack recorded"): if the
   node with inode number [ino] is a file whose inode body shows what pack recorded for file [fid], then wherever that
   inode occurs in the tree read from the image (several times for hard links) its contents read back as the input
   bytes of [fid] *)
Theorem image_file_contents_by_inode :
  forall (hashf : list N -> N)
         (dcompress : list N -> option (list N)) (duncompress : list N -> nat -> option (list N))
         (bs half : nat),
  (forall b c, dcompress b = Some c ->
     length c < length b /\ forall n, length b <= n -> duncompress c n = Some b) ->
  0 < bs -> (N.of_nat bs <= c_SQFS_MAX_BLOCK_SIZE)%N -> 0 < half ->
  forall (mcompress : list N -> cres) (muncompress : list N -> option (list N)),
  (forall b c, mcompress b = CData c -> (lenN c <= lenN b)%N /\ muncompress c = Some b) ->
  forall limit, (limit <= 65535)%N ->
  forall cfg inp w file0 files sched st,
  length file0 = 96 + length (in_opts inp) ->
  c_block_size cfg = N.of_nat bs ->
  pack hashf dcompress duncompress bs false true half file0 files sched = DedupModel.Ok st ->
  in_data inp = data_of (length file0) st ->
  in_frags inp = frag_table_of st ->
  write_image mcompress limit cfg inp = Res.Ok w -> image_domain cfg inp = true -> image_fits w = true ->
  let t := in_tree inp in
  exists lt,
    read_image_tree muncompress (image_bytes w) = Some lt /\
    forall ino n b fid fl d sp,
      get t ino = Some n -> fn_payload n = PFile b ->
      lkind_of_body b = file_lkind bs st fid (length d) sp ->
      nth_error files fid = Some (fl, d) ->
      forall v, In v (views lt) -> lv_ino v = ino ->
        image_read_file muncompress duncompress (image_bytes w) (lv_kind v) = Some d.
Proof. exact image_file_contents_by_inode_l. Qed.
Print Assumptions image_file_contents_by_inode.

(* non-vacuity (coq/ImgData/Example.v): four files, block size 4096, constant checksum (everything collides), the
   toy run-length data compressor, the zero-run-length metadata compressor: a = 4096 x 'A' ++ 5 bytes, b = 3 bytes,
   c = a, d = 4096 non-repeating bytes; all hypotheses of the theorem hold ... *)
Example ex_image_contents_hyps :
  (forall b c, DedupModel.toy_compress b = Some c ->
     length c < length b /\ forall n, length b <= n -> DedupModel.toy_uncompress c n = Some b) /\
  (forall b c, img_compress 3 b = CData c -> (lenN c <= lenN b)%N /\ img_uncompress 3 c = Some b) /\
  match Example.ex_image with
  | Some (st, w) =>
    Example.ex_pack = DedupModel.Ok st /\
    write_image (img_compress 3) GenC01.c_id_table_limit Example.ex_cfg (Example.ex_inp st) = Res.Ok w /\
    length Example.ex_file0 = 96 + length (in_opts (Example.ex_inp st)) /\
    c_block_size Example.ex_cfg = N.of_nat 4096 /\
    in_data (Example.ex_inp st) = data_of (length Example.ex_file0) st /\
    in_frags (Example.ex_inp st) = frag_table_of st /\
    image_domain Example.ex_cfg (Example.ex_inp st) = true /\ image_fits w = true /\
    map (fun n => lkind_of_payload (fn_payload n)) (firstn 4 (Example.ex_tree st)) =
      [file_lkind 4096 st 0 (length Example.ex_A) 0; file_lkind 4096 st 1 (length Example.ex_B) 0;
       file_lkind 4096 st 2 (length Example.ex_A) 0; file_lkind 4096 st 3 (length Example.ex_D) 0]
  | None => False
  end.
Proof.
  split; [exact toy_contract|]. split; [exact (ZrleProofs.img_contract 3 (or_intror eq_refl))|].
  exact Example.ex_hyps.
Qed.

(* ... and its conclusion computes: the views of the tree read from the image (root directory, a, b, c, d), what the
   reader specification returns for each of them, where the data lies (a and c share block start 96 and fragment
   reference (0, 0); b's tail end follows at offset 5 of the same fragment block; d's uncompressed block starts at
   100), the fragment table as read from the image (one uncompressed 8 byte block at 4196), the image size *)
Example ex_image_contents_read_back :
  match Example.ex_image with
  | Some (st, w) =>
    let img := image_bytes w in
    match read_image_tree (img_uncompress 3) img with
    | Some lt =>
      Some lt = spec_tree (Example.ex_tree st) 5 5 /\
      map (fun v => image_read_file (img_uncompress 3) DedupModel.toy_uncompress img (lv_kind v)) (views lt)
      = [None; Some Example.ex_A; Some Example.ex_B; Some Example.ex_A; Some Example.ex_D] /\
      map lv_kind (views lt)
      = [LDir 0;
         LFile 96 4101 0 0 0 [4]; LFile 0 3 0 0 5 []; LFile 96 4101 0 0 0 [4]; LFile 100 4096 0 NOX NOX [16781312]]%N /\
      read_frags (img_uncompress 3) img (w_super w) = Some [(4196, 16777224, 0)]%N /\
      lenN img = 8192%N
    | None => False
    end
  | None => False
  end.
Proof. exact Example.ex_reads_back. Qed.

(* ---- dedup_complete_blocks: all hypotheses together ------------------------------------------- *)
(* the state of ex_complete_blocks (history [X], then the one-block file X again, j = 0) meets EVERY hypothesis of
   dedup_complete_blocks at once: the WOpen invariant and the five side conditions *)
Example ex_complete_blocks_rest :
  let X := {| pb_sparse := false; pb_compressed := false; pb_chk := 0%N; pb_data := [1; 2; 3]%N |} in
  let w := {| w_file := [1; 2; 3; 1; 2; 3]%N;
              w_blocks := [info_of 0 X; info_of 3 X]; w_fstart := 1 |} in
  let pre := [1; 2; 3]%N in let hist := [info_of 0 X] in let cur := [X] in
  WOpen 0 w [] pre hist cur /\
  0 < 4096 /\ cur <> [] /\ 0 + length cur <= length hist /\
  hashes_match (firstn (length cur) (skipn 0 hist)) (infos (length pre) cur) = true /\
  DedupModel.slice pre (bi_off (nth 0 hist dflt_bi)) (length (cat cur)) = cat cur.
Proof.
  pose proof ex_complete_blocks as H. cbv zeta in H. destruct H as [HW _].
  cbv zeta. split; [exact HW|]. split; [apply Nat.lt_0_succ|]. split; [discriminate|].
  split; [apply le_n|]. split; vm_compute; reflexivity.
Qed.

(* ---- image_real_reader_agrees ---------------------------------------------------------------- *)
(* the model of the REAL data reader (coq/C10/DataModel.v: lib/sqfs/src/data_reader.c with its two block caches;
   decompressor oracle U_of duncompress = the data decompressor behind C10's do_block interface, file = pread on the
   image) on the image that pack + write_image produce.  C10's agreement theorems (agree_read, agree_get_block,
   agree_get_fragment, agree_stream) ASSUME that the file is "laid out the way the library writes files"
   (AgreeProofs.wf_file); here that is PROVED from C08's block processor invariant and the shift into the image, for
   every file inode view that carries what pack recorded - so sqfs_data_reader_read, the stream reader,
   sqfs_data_reader_get_fragment and sqfs_data_reader_get_block return the file's input bytes / tail end / blocks,
   whatever the caches hold (any coherent reader state with the fragment table of the image).
   Additional hypotheses: file size < 2^31 - 1 (wf_small: the positional read clamps its size argument), image shorter
   than 2^63 bytes (pread).  Still outside: loading the fragment table through the real meta reader
   (frag_table_read); the table object is taken to hold the entries the reader specification read_frags returns
   (image_reader_table_is_packs). *)
From SqfsV Require C10.MetaModel C10.DataModel C10.DataProofs C10.AgreeProofs.
From SqfsV Require Import ImgData.RealBlocks ImgData.RealReader ImgData.RealCompose.
From SqfsV Require ImgData.ExampleReal.

Theorem image_real_reader_agrees :
  forall (hashf : list N -> N)
         (dcompress : list N -> option (list N)) (duncompress : list N -> nat -> option (list N))
         (bs half : nat),
  (forall b c, dcompress b = Some c ->
     length c < length b /\ forall n, length b <= n -> duncompress c n = Some b) ->
  0 < bs -> (N.of_nat bs <= c_SQFS_MAX_BLOCK_SIZE)%N -> 0 < half ->
  forall (mcompress : list N -> cres) (muncompress : list N -> option (list N)),
  (forall b c, mcompress b = CData c -> (lenN c <= lenN b)%N /\ muncompress c = Some b) ->
  forall limit, (limit <= 65535)%N ->
  forall cfg inp w file0 files sched st,
  length file0 = 96 + length (in_opts inp) ->
  c_block_size cfg = N.of_nat bs ->
  pack hashf dcompress duncompress bs false true half file0 files sched = DedupModel.Ok st ->
  in_data inp = data_of (length file0) st ->
  write_image mcompress limit cfg inp = Res.Ok w -> image_domain cfg inp = true -> image_fits w = true ->
  (N.of_nat (length (image_bytes w)) < MetaModel.off_t_limit)%N ->
  let U := U_of duncompress in
  let file := MetaModel.read_at (image_bytes w) in
  forall fid fl d sp f,
  nth_error files fid = Some (fl, d) ->
  (N.of_nat (length d) < 2147483647)%N ->
  finode_of_lkind (file_lkind bs st fid (length d) sp) = Some f ->
  exists cs tail,
    concat cs ++ tail = d /\
    AgreeProofs.wf_file U file (N.of_nat bs) (frag_table_of st) f cs tail /\
    (forall dr, DataProofs.dcoherent U file (N.of_nat bs) dr -> DataModel.d_tbl dr = frag_table_of st ->
       fst (DataModel.api_read U file (N.of_nat bs) true dr f 0 (DataModel.f_size f)) = MetaModel.Ok d /\
       fst (DataModel.api_get_fragment U file (N.of_nat bs) dr f) = MetaModel.Ok tail /\
       forall n, (DataModel.f_size f <= n)%N ->
         fst (fst (DataModel.stream_read U file (N.of_nat bs) dr (DataModel.stream_create f) n)) = MetaModel.Ok d) /\
    (forall i, i < length cs ->
       DataModel.api_get_block U file (N.of_nat bs) f (N.of_nat i) = MetaModel.Ok (nth i cs [])).
Proof. exact image_real_reader_l. Qed.
Print Assumptions image_real_reader_agrees.

(* the fragment table the reader specification reads from the image, stripped of the unused field, is the table
   [pack] left: a reader object that loaded it satisfies d_tbl dr = frag_table_of st *)
Theorem image_reader_table_is_packs :
  forall (mcompress : list N -> cres) (muncompress : list N -> option (list N)),
  (forall b c, mcompress b = CData c -> (lenN c <= lenN b)%N /\ muncompress c = Some b) ->
  forall limit, (limit <= 65535)%N ->
  forall cfg inp w st,
  in_frags inp = frag_table_of st ->
  write_image mcompress limit cfg inp = Res.Ok w -> image_domain cfg inp = true -> image_fits w = true ->
  exists frags, read_frags muncompress (image_bytes w) (w_super w) = Some frags /\
                reader_table frags = frag_table_of st.
Proof. exact image_reader_table. Qed.
Print Assumptions image_reader_table_is_packs.

(* non-vacuity: on the image of ex_image_contents_hyps (its hypotheses are those of this theorem, plus the two size
   bounds, which compute) the real reader model with empty caches and the table read from the image returns, per inode
   view (root, a, b, c, d): the contents through sqfs_data_reader_read and through the stream reader, the tail ends
   through _get_fragment, block 0 through _get_block *)
Example ex_image_real_reader :
  match Example.ex_image with
  | Some (st, w) =>
    let img := image_bytes w in
    let U := U_of DedupModel.toy_uncompress in
    let file := MetaModel.read_at img in
    match read_image_tree (img_uncompress 3) img, read_frags (img_uncompress 3) img (w_super w) with
    | Some lt, Some frags =>
      let dr := DataModel.mkDr (reader_table frags) None None in
      reader_table frags = frag_table_of st /\
      (lenN img <? MetaModel.off_t_limit)%N = true /\
      map (fun v => match finode_of_lkind (lv_kind v) with
                    | Some f => ExampleReal.ex_out (fst (DataModel.api_read U file 4096 true dr f 0 (DataModel.f_size f)))
                    | None => None end) (views lt)
      = [None; Some Example.ex_A; Some Example.ex_B; Some Example.ex_A; Some Example.ex_D] /\
      map (fun v => match finode_of_lkind (lv_kind v) with
                    | Some f => ExampleReal.ex_out (fst (fst (DataModel.stream_read U file 4096 dr (DataModel.stream_create f) 5000)))
                    | None => None end) (views lt)
      = [None; Some Example.ex_A; Some Example.ex_B; Some Example.ex_A; Some Example.ex_D] /\
      map (fun v => match finode_of_lkind (lv_kind v) with
                    | Some f => ExampleReal.ex_out (fst (DataModel.api_get_fragment U file 4096 dr f))
                    | None => None end) (views lt)
      = [None; Some [1; 2; 3; 4; 5]%N; Some Example.ex_B; Some [1; 2; 3; 4; 5]%N; Some []] /\
      map (fun v => match finode_of_lkind (lv_kind v) with
                    | Some f => ExampleReal.ex_out (DataModel.api_get_block U file 4096 f 0)
                    | None => None end) (views lt)
      = [None; Some (repeat 65%N 4096); None; Some (repeat 65%N 4096); Some Example.ex_D]
    | _, _ => False
    end
  | None => False
  end.
Proof. exact ExampleReal.ex_real_reader. Qed.

(* ------------------------------------------------------------------------------------------ *)
(* C08 x Util: the fragment hash table IS lib/util/src/hash_table.c                             *)
(* ------------------------------------------------------------------------------------------ *)
(* Everything above models proc->frag_ht as an association list ([ht_search]: first entry in insertion order with
   equal hash for which chunk_info_equals says yes; [ht_insert]: replace it, else append) and ASSUMED that
   hash_table.c behaves like that.  coq/Util/HashModel.v is a statement-by-statement model of hash_table.c (open
   addressing, double hashing in 32 bit arithmetic, the stashed first available slot, grow / same-size rehash, the
   rows of hash_sizes[] generated from the .c file) with proved contracts (Properties_C19.v) and its own exact tie.
   This section replaces the assumption by theorems (coq/C08/HashBridge*.v):

   (a) container level, any entry type, any PURE boolean callback: if at most one live entry answers the key, the
       table's search returns the slot holding exactly the entry the list's search returns (NULL iff none) and the
       table's insert - whatever rehash it performs - leaves a table that represents the list after [l_insert]
       (replace the matching entry by the new key AND data, else add);
   (b) the hypothesis of (a) holds along every run: the live entries are pairwise different as (checksum, bytes) - a
       NEW invariant (C08's notes claimed it, its PInv does not contain it), proved for every checksum function,
       flag assignment (incl. DONT_DEDUPLICATE, where the insert does replace) and schedule;
   (c) end to end: the block processor model with the REAL table in place of the list ([r_pack],
       coq/C08/HashBridgeModel.v) succeeds whenever [pack] does, ends in the same state (all fields except the
       list and the cache, which it does not have), with a well-formed table whose live entries are exactly the
       list's chunks (key = data), and every file reads back byte-exact from it: dedup_sound for the real table.

   Hypotheses that are new: the checksum is a 32 bit value (sqfs_u32 in the C code; the list model did not care) and
   there are at most 2^30 files (Util's ht_safe_limit: in the last row of hash_sizes[] the 32 bit probing
   arithmetic wraps - Properties_C19.hash_table_last_row_wraps).

   What stays outside (see coq/C08/HashBridgeModel.v): Util's callback is a pure function.  chunk_info_equals (1)
   leaves the last re-read fragment block in cached_frag_blk: the real-table model evaluates it without cache;
   the answer is the same for every coherent cache content ([cb_cache_irrelevant]), which content the real probing
   order leaves behind is not modelled; (2) can fail (fblk_lookup_error): it then answers false until the table
   operation ends (so search returns NULL / insert adds the entry) and process_completed_fragment returns the
   error; the real-table model fails if the callback would fail on ANY live entry of that hash (a superset of the
   entries hash_table.c probes), and (c) proves that it does not fail.  Allocation failure is not modelled. *)
From SqfsV Require Import Util.FastRem Util.HashRows Util.HashInv.
From SqfsV Require Util.HashModel.
From SqfsV Require Import C08.HashBridge C08.HashBridgeModel C08.HashBridgeTheorems.
From Coq Require Import Permutation.

(* ---- (a) the association list against the table ---------------------------------------------- *)
Theorem assoc_list_search_is_table_search :
  forall (E : Type) (hash_of : E -> N) (keq : E -> E -> bool) (l : list E) (t : HashModel.htab E E) (h : N) (key : E),
  Rep hash_of l t -> (h < two32)%N -> at_most_one hash_of (keq key) h l ->
  exists r, HashModel.ht_search E E keq t h key = HashModel.Ok r /\
    match r with
    | Some a => exists c, HashModel.ht_entry E E t a = Some (h, c, c) /\ l_search hash_of (keq key) h l = Some c
    | None => l_search hash_of (keq key) h l = None
    end.
Proof. exact bridge_search. Qed.
Print Assumptions assoc_list_search_is_table_search.

Theorem assoc_list_insert_is_table_insert :
  forall (E : Type) (hash_of : E -> N) (keq : E -> E -> bool) (l : list E) (t : HashModel.htab E E) (nc : E),
  Rep hash_of l t -> (hash_of nc < two32)%N -> (N.of_nat (length l) < ht_safe_limit)%N ->
  at_most_one hash_of (keq nc) (hash_of nc) l ->
  exists t' a,
    HashModel.ht_insert E E keq t (hash_of nc) nc nc = HashModel.Ok (t', Some a) /\
    HashModel.ht_entry E E t' a = Some (hash_of nc, nc, nc) /\
    Rep hash_of (l_insert hash_of (keq nc) nc l) t'.
Proof. exact bridge_insert. Qed.
Print Assumptions assoc_list_insert_is_table_insert.

(* hash_table_create represents the empty list *)
Theorem empty_table_is_empty_list :
  forall (E : Type) (hash_of : E -> N), exists t, HashModel.ht_create E E = Some t /\ Rep hash_of [] t.
Proof. exact Rep_create. Qed.
Print Assumptions empty_table_is_empty_list.

(* ---- (c) frag_table_is_real_hash_table -------------------------------------------------------- *)
Theorem frag_table_is_real_hash_table :
  forall (hashf : list N -> N)
         (compress : list N -> option (list N)) (uncompress : list N -> nat -> option (list N))
         (bs half : nat),
  (forall b c, compress b = Some c ->
     length c < length b /\ forall n, length b <= n -> uncompress c n = Some b) ->
  0 < bs -> (N.of_nat bs <= c_SQFS_MAX_BLOCK_SIZE)%N -> 0 < half ->
  (forall d, (hashf d < two32)%N) ->
  forall (file0 : list N) (files : list (uflags * list N)) (sched : list nat),
  (N.of_nat (length files) <= ht_safe_limit)%N ->
  exists st t,
    pack hashf compress uncompress bs false true half file0 files sched = DedupModel.Ok st /\
    r_pack hashf compress uncompress bs false true half file0 files sched = ROk (strip st, t) /\
    wf chunk chunk t /\
    Permutation (HashModel.live chunk chunk t) (map (ent ck_hash) (p_ht st)) /\
    (forall fid fl d, nth_error files fid = Some (fl, d) ->
                      read_back uncompress bs (strip st) fid (length d) = Some d) /\
    firstn (length file0) (w_file (p_wr (strip st))) = file0.
Proof. exact frag_table_real_l. Qed.
Print Assumptions frag_table_is_real_hash_table.

(* ---- (b) frag_table_agrees_between_files ------------------------------------------------------- *)
(* at every point between two files of a run (any prefix, any schedule): the real-table model has reached the same
   state, its table represents the list, and for EVERY search key (any bytes, any 32 bit checksum): at most one
   live entry answers yes, the callback fails on none, and hash_table_search returns the slot holding (hash, c, c)
   for the very chunk c C08's [ht_search] returns - NULL iff that returns none *)
Theorem frag_table_agrees_between_files :
  forall (hashf : list N -> N)
         (compress : list N -> option (list N)) (uncompress : list N -> nat -> option (list N))
         (bs half : nat),
  (forall b c, compress b = Some c ->
     length c < length b /\ forall n, length b <= n -> uncompress c n = Some b) ->
  0 < bs -> (N.of_nat bs <= c_SQFS_MAX_BLOCK_SIZE)%N -> 0 < half ->
  (forall d, (hashf d < two32)%N) ->
  forall (file0 : list N) (files : list (uflags * list N)) (n : nat) (sched : list nat) (st : proc)
         (t0 : HashModel.htab chunk chunk),
  (N.of_nat (length files) <= ht_safe_limit)%N ->
  HashModel.ht_create chunk chunk = Some t0 ->
  run_files hashf compress uncompress bs false true half
            (firstn n (map (fun f => file_job bs (fst f) (snd f)) files)) sched 0 (init_proc file0)
  = DedupModel.Ok st ->
  exists t,
    r_run_files hashf compress uncompress bs false true half
            (firstn n (map (fun f => file_job bs (fst f) (snd f)) files)) sched 0
            (strip (init_proc file0)) t0 = ROk (strip st, t) /\
    wf chunk chunk t /\
    Permutation (HashModel.live chunk chunk t) (map (ent ck_hash) (p_ht st)) /\
    forall (cur : list N) (khash : N), (khash < two32)%N ->
      let key := skey (length cur) khash in
      at_most_one ck_hash (keq_of uncompress bs true st cur key) khash (p_ht st) /\
      (forall c, In c (p_ht st) -> cb uncompress bs true st cur key c <> EqErr) /\
      match DedupModel.ht_search uncompress bs true st (p_cached st) (length cur) khash cur (p_ht st) with
      | SFound c _ =>
        exists a, HashModel.ht_search chunk chunk (keq_of uncompress bs true st cur) t khash key
                  = HashModel.Ok (Some a) /\
                  HashModel.ht_entry chunk chunk t a = Some (khash, c, c)
      | SNone _ =>
        HashModel.ht_search chunk chunk (keq_of uncompress bs true st cur) t khash key = HashModel.Ok None
      | SErr => False
      end.
Proof. exact frag_table_steps_l. Qed.
Print Assumptions frag_table_agrees_between_files.

(* ---- non-vacuity --------------------------------------------------------------------------------- *)
(* the new hypotheses are met by the instance below (the compressor contract: toy_compressor_contract above) *)
Example ex_real_table_hyps :
  (forall d, (const_hash d < two32)%N) /\
  (N.of_nat (length ex_bridge_files) <= ht_safe_limit)%N /\
  (N.of_nat 4 <= c_SQFS_MAX_BLOCK_SIZE)%N.
Proof. exact ex_bridge_hyps. Qed.

(* constant checksum (every fragment collides with every other), toy compressor, block size 4, eight files with
   the tail ends [1] [2] [3] | [1] again (found) | [2] again with DONT_DEDUPLICATE (stored anew: the entry for
   [2] is REPLACED) | [4] | [5 5] | [3] again (found, fragment block 0 by then on disk): the list model and the
   real-table model end in the same state; five live entries, key = data; the table (created with 5 slots) has
   been resized twice (7, then 13 slots) *)
Example ex_real_table_run :
  match pack const_hash toy_compress toy_uncompress 4 false true 4096 [7; 7; 7]%N ex_bridge_files ex_bridge_sched,
        r_pack const_hash toy_compress toy_uncompress 4 false true 4096 [7; 7; 7]%N ex_bridge_files ex_bridge_sched with
  | DedupModel.Ok st, ROk (sr, t) =>
    obs sr = obs st /\ p_ht sr = [] /\ p_cached sr = None /\
    map (p_frag st) (seq 0 8) =
      [Some (0, 0); Some (0, 1); Some (0, 2); Some (0, 0); Some (0, 3); Some (1, 0); Some (1, 1);
       Some (0, 2)] /\
    map (fun c => (ck_index c, ck_offset c, ck_size c)) (p_ht st) =
      [(0, 0, 1); (0, 3, 1); (0, 2, 1); (1, 0, 1); (1, 1, 2)] /\
    sort_chunks (map (fun e => snd (fst e)) (HashModel.live chunk chunk t)) = sort_chunks (p_ht st) /\
    forallb (fun e => match e with (h, k, d) =>
                        N.eqb h (ck_hash k) && (ck_index k =? ck_index d) && (ck_offset k =? ck_offset d) end)
            (HashModel.live chunk chunk t) = true /\
    HashModel.ht_size_index chunk chunk t = 2 /\ HashModel.ht_size chunk chunk t = 13%N /\
    HashModel.ht_entries chunk chunk t = 5%N /\
    read_back toy_uncompress 4 sr 4 1 = Some [2]%N /\ read_back toy_uncompress 4 sr 6 2 = Some [5; 5]%N
  | _, _ => False
  end.
Proof. exact ex_bridge_run. Qed.

(* the two containers side by side on an operation sequence with colliding hashes (4, 4, 4 and 9 = 4 mod 5),
   a replaced entry and two resizes: per step the list's answer, the table's answer (entry->data of the slot
   returned) and the number of slots - the answers agree at every step *)
Example ex_containers_step_by_step :
  match HashModel.ht_create eN eN with
  | Some t0 =>
    let tr := run_both ex_ops [] t0 in
    length tr = length ex_ops /\
    forallb (fun x => match x with
                      | (Some a, Some b, _) => N.eqb (fst a) (fst b) && N.eqb (snd a) (snd b)
                      | (None, None, _) => true
                      | _ => false
                      end) tr = true /\
    map (fun x => snd x) tr = [5; 5; 5; 5; 7; 7; 7; 7; 7; 7; 13; 13; 13; 13; 13]%N /\
    map (fun x => fst (fst x)) tr =
      [Some (4, 1); Some (4, 2); Some (4, 2); None; Some (9, 3); Some (4, 1); Some (4, 2); Some (9, 3);
       Some (4, 2); Some (11, 4); Some (4, 5); Some (4, 5); Some (4, 1); Some (11, 4); None]%N
  | None => False
  end.
Proof. exact ex_containers_agree. Qed.

(* [at_most_one] is necessary: with two live entries matching the key (wildcard id 0) the list answers the first
   INSERTED, hash_table.c the first PROBED, and the resize 5 -> 7 slots re-inserts in slot order, which swaps them *)
Example ex_probe_order_is_not_insertion_order :
  match HashModel.ht_create eN eN with
  | Some t0 =>
    let tr := run_both [BInsert (4, 1); BInsert (4, 2); BInsert (0, 3); BSearch (4, 0)]%N [] t0 in
    nth 3 tr (None, None, 0%N) = (Some (4, 1), Some (4, 2), 7)%N /\
    ~ at_most_one fst (ex_keq (4, 0)%N) 4%N [(4, 1); (4, 2); (0, 3)]%N
  | None => False
  end.
Proof. exact ex_probe_order_differs. Qed.

(* frag_table_agrees_between_files on a computed instance: after the first five files of ex_bridge_files (the entry for
   [2] has just been replaced by the chunk at (0,3); the table has 7 slots) a search for the bytes [2] finds that chunk
   in the list and a slot holding it as key and data in the table; a search for [9] finds nothing on either side *)
Example ex_between_files :
  match HashModel.ht_create chunk chunk with
  | Some t0 =>
    let jobs5 := firstn 5 (map (fun f => file_job 4 (fst f) (snd f)) ex_bridge_files) in
    match run_files const_hash toy_compress toy_uncompress 4 false true 4096 jobs5 ex_bridge_sched 0 (init_proc [7; 7; 7]%N),
          r_run_files const_hash toy_compress toy_uncompress 4 false true 4096 jobs5 ex_bridge_sched 0
                      (strip (init_proc [7; 7; 7]%N)) t0 with
    | DedupModel.Ok st, ROk (sr, t) =>
      let c2 := {| ck_index := 0; ck_offset := 3; ck_size := 1; ck_hash := 0%N |} in
      (exists ca, DedupModel.ht_search toy_uncompress 4 true st (p_cached st) 1 0%N [2]%N (p_ht st) = SFound c2 ca) /\
      (exists a, HashModel.ht_search chunk chunk (keq_of toy_uncompress 4 true st [2]%N) t 0%N (skey 1 0%N)
                 = HashModel.Ok (Some a) /\ HashModel.ht_entry chunk chunk t a = Some (0%N, c2, c2)) /\
      (exists ca, DedupModel.ht_search toy_uncompress 4 true st (p_cached st) 1 0%N [9]%N (p_ht st) = SNone ca) /\
      HashModel.ht_search chunk chunk (keq_of toy_uncompress 4 true st [9]%N) t 0%N (skey 1 0%N) = HashModel.Ok None /\
      HashModel.ht_size chunk chunk t = 7%N
    | _, _ => False
    end
  | None => False
  end.
Proof. exact ex_bridge_between. Qed.

(* ------------------------------------------------------------------------------------------ *)
(* C08 x ImgReader: the REAL fragment table loader, as an object with state                      *)
(* ------------------------------------------------------------------------------------------ *)
(* image_real_reader_agrees takes the data reader's fragment table as GIVEN (d_tbl dr = frag_table_of st; the reader
   object "is assumed to hold the entries read_frags returns").  coq/C08/FragTableModel.v models lib/sqfs/src/frag_table.c
   as an object: [ftobj] = Util's array_t model over 16-byte elements; [ft_read] = sqfs_frag_table_read statement by
   statement (array_cleanup + size first, the three "return 0" exits, the window tests, SZ_MUL_OV, sqfs_read_table =
   C05.Super.read_table, the model coq/ImgReader proves correct on what sqfs_write_table wrote), [ft_lookup],
   [ft_get_size], [ft_append], [ft_set], [ft_write] (over C03's write_table).

   (2) state hygiene - what seed C10-9 broke: after ANY call, on an object with ANY previous content, the object holds
       exactly what THIS call loaded: nothing after the early exits and after every error exit, the loaded table
       otherwise; the result does not depend on the previous content at all.
   (1) on the image [pack] + [write_image] produce the call succeeds and leaves exactly the table pack built (lookups
       return its entries, pad0 = 0; everything from get_size on is out of bounds), so the read-back theorem holds for
       every reader whose table is WHAT THE LOADER LEFT - no assumption about the object left.
   New hypotheses: the metadata decompressor as the meta reader calls it meets the specification's (uc_meets; any
   option-valued decompressor has one: Closed.uc_of_meets), the table is at most 2 GiB (the allocation model of C05:
   2^27 entries, not the 2^32 of the format), the loop bound covers its metadata blocks. *)
From SqfsV Require C05.RBase C05.Super ImgE2E.Hyps.
From SqfsV Require Import ImgReader.Embed ImgReader.ReadImage.
From SqfsV Require Import C08.FragTableModel C08.FragTableProofs.
From SqfsV Require Import ImgData.FragLoader ImgData.FragReadback.
From SqfsV Require ImgData.ExampleFragLoader.

Theorem frag_table_read_replaces_state :
  forall (uc : list N -> N -> RBase.res (list N)) (img : list N) (fuel : nat) (s : Super.sup) (t : ftobj),
  ft_read uc img fuel s t = ft_read uc img fuel s ft_create /\
  (ft_early s = true -> ft_read uc img fuel s t = (ft_empty, RBase.Ok tt)) /\
  (is_ok (snd (ft_read uc img fuel s t)) = false -> fst (ft_read uc img fuel s t) = ft_empty) /\
  (ft_early s = false -> is_ok (snd (ft_read uc img fuel s t)) = true ->
   exists raw, Super.frag_table_read uc img fuel s = RBase.Ok raw /\ fst (ft_read uc img fuel s t) = ft_loaded s raw).
Proof. exact ft_read_replaces_state_l. Qed.
Print Assumptions frag_table_read_replaces_state.

(* what a client sees: no entry of an earlier table survives an early exit or a failed call *)
Theorem frag_table_no_stale_entries :
  forall uc img fuel s t idx,
  ft_early s = true \/ is_ok (snd (ft_read uc img fuel s t)) = false ->
  ft_lookup (fst (ft_read uc img fuel s t)) idx = RBase.Err RBase.E_OOB /\
  ft_get_size (fst (ft_read uc img fuel s t)) = 0%N.
Proof. exact ft_no_stale_entries. Qed.
Print Assumptions frag_table_no_stale_entries.

(* lookups in a loaded table: bound = fragment_entry_count, element idx of what sqfs_read_table returned *)
Theorem frag_table_lookup_loaded :
  forall s raw idx,
  ft_lookup (ft_loaded s raw) idx =
  if (Super.s_frag_count s <=? idx)%N then RBase.Err RBase.E_OOB
  else let e := firstn 16 (skipn (N.to_nat idx * 16) raw) in
       RBase.Ok (RBase.fld 8 0 e, RBase.fld 4 8 e, RBase.fld 4 12 e).
Proof. exact ft_loaded_lookup. Qed.
Print Assumptions frag_table_lookup_loaded.

(* (1) frag_table_read (image containing what frag_table_write wrote) = the table, for every previous object content *)
Theorem frag_table_read_of_written :
  forall (compress : list N -> cres) (uncompress : list N -> option (list N)),
  (forall b c, compress b = CData c -> (lenN c <= lenN b)%N /\ uncompress c = Some b) ->
  forall limit, (limit <= 65535)%N ->
  forall cfg inp w,
  write_image compress limit cfg inp = Res.Ok w -> image_domain cfg inp = true -> image_fits w = true ->
  (lenN (image_bytes w) < RBase.two63)%N ->
  forall uc, uc_meets uncompress uc ->
  forall fuel t,
  (16 * Res.nlen (in_frags inp) <= RBase.alloc_limit)%N -> Hyps.frag_fuel (Res.nlen (in_frags inp)) <= fuel ->
  let t' := fst (ft_read uc (image_bytes w) fuel (sup_of (w_super w)) t) in
  snd (ft_read uc (image_bytes w) fuel (sup_of (w_super w)) t) = RBase.Ok tt /\
  ft_get_size t' = Res.nlen (in_frags inp) /\
  ft_pairs t' = in_frags inp /\
  (forall i f, nth_error (in_frags inp) i = Some f -> ft_lookup t' (N.of_nat i) = RBase.Ok (fst f, snd f, 0%N)) /\
  (forall idx, (Res.nlen (in_frags inp) <= idx)%N -> ft_lookup t' idx = RBase.Err RBase.E_OOB).
Proof. exact ft_read_written_view. Qed.
Print Assumptions frag_table_read_of_written.

(* image_real_reader_agrees with the loader composed *)
Theorem imgdata_readback_with_real_frag_loader :
  forall (hashf : list N -> N)
         (dcompress : list N -> option (list N)) (duncompress : list N -> nat -> option (list N))
         (bs half : nat),
  (forall b c, dcompress b = Some c ->
     length c < length b /\ forall n, length b <= n -> duncompress c n = Some b) ->
  0 < bs -> (N.of_nat bs <= c_SQFS_MAX_BLOCK_SIZE)%N -> 0 < half ->
  forall (mcompress : list N -> cres) (muncompress : list N -> option (list N)),
  (forall b c, mcompress b = CData c -> (lenN c <= lenN b)%N /\ muncompress c = Some b) ->
  forall limit, (limit <= 65535)%N ->
  forall cfg inp w file0 files sched st,
  length file0 = 96 + length (in_opts inp) ->
  c_block_size cfg = N.of_nat bs ->
  pack hashf dcompress duncompress bs false true half file0 files sched = DedupModel.Ok st ->
  in_data inp = data_of (length file0) st ->
  in_frags inp = frag_table_of st ->
  write_image mcompress limit cfg inp = Res.Ok w -> image_domain cfg inp = true -> image_fits w = true ->
  (N.of_nat (length (image_bytes w)) < MetaModel.off_t_limit)%N ->
  forall uc, uc_meets muncompress uc ->
  forall fuel,
  (16 * Res.nlen (frag_table_of st) <= RBase.alloc_limit)%N -> Hyps.frag_fuel (Res.nlen (frag_table_of st)) <= fuel ->
  forall t0 : ftobj,                       (* whatever the table object held before *)
  let U := U_of duncompress in
  let file := MetaModel.read_at (image_bytes w) in
  let r := ft_read uc (image_bytes w) fuel (sup_of (w_super w)) t0 in
  snd r = RBase.Ok tt /\
  ft_get_size (fst r) = Res.nlen (frag_table_of st) /\
  ft_pairs (fst r) = frag_table_of st /\
  forall fid fl d sp f,
    nth_error files fid = Some (fl, d) ->
    (N.of_nat (length d) < 2147483647)%N ->
    finode_of_lkind (file_lkind bs st fid (length d) sp) = Some f ->
    forall dr, DataProofs.dcoherent U file (N.of_nat bs) dr -> DataModel.d_tbl dr = ft_pairs (fst r) ->
      fst (DataModel.api_read U file (N.of_nat bs) true dr f 0 (DataModel.f_size f)) = MetaModel.Ok d /\
      (forall n, (DataModel.f_size f <= n)%N ->
         fst (fst (DataModel.stream_read U file (N.of_nat bs) dr (DataModel.stream_create f) n)) = MetaModel.Ok d) /\
      exists tail, fst (DataModel.api_get_fragment U file (N.of_nat bs) dr f) = MetaModel.Ok tail.
Proof. exact readback_with_real_frag_loader_l. Qed.
Print Assumptions imgdata_readback_with_real_frag_loader.

(* non-vacuity, on the image of ex_image_contents_hyps (2 fragment blocks... whatever pack left): the remaining
   hypotheses compute; the loader run on an object holding two STALE entries returns pack's table; a second call with
   the NO_FRAGMENTS flag set, and one with bytes_used in front of the table, leave the empty object; a good call
   after the failed one loads the table again *)
Example ex_frag_loader_on_image :
  match Example.ex_image with
  | Some (st, w) =>
    let img := image_bytes w in
    let s := sup_of (w_super w) in
    frag_table_of st <> [] /\
    (16 * Res.nlen (frag_table_of st) <=? RBase.alloc_limit)%N = true /\
    Nat.leb (Hyps.frag_fuel (Res.nlen (frag_table_of st))) 64 = true /\
    (lenN img <? RBase.two63)%N = true /\
    let r1 := ft_read ExampleFragLoader.ex_uc img 64 s ExampleFragLoader.ex_stale in
    r1 = (ft_holding (frag_table_of st), RBase.Ok tt) /\
    ft_lookup (fst r1) 0 = RBase.Ok (fst (nth 0 (frag_table_of st) (0, 0)), snd (nth 0 (frag_table_of st) (0, 0)), 0)%N /\
    let r2 := ft_read ExampleFragLoader.ex_uc img 64
                (ExampleFragLoader.with_flags s (N.lor (Super.s_flags s) c_SQFS_FLAG_NO_FRAGMENTS)) (fst r1) in
    r2 = (ft_empty, RBase.Ok tt) /\ ft_lookup (fst r2) 0 = RBase.Err RBase.E_OOB /\
    let r3 := ft_read ExampleFragLoader.ex_uc img 64 (ExampleFragLoader.with_used s 96) (fst r1) in
    r3 = (ft_empty, RBase.Err RBase.E_OOB) /\ ft_get_size (fst r3) = 0%N /\
    ft_read ExampleFragLoader.ex_uc img 64 s (fst r3) = r1
  | None => False
  end.
Proof. exact ExampleFragLoader.ex_frag_loader. Qed.

(* the statement is not a tautology of the modelling style: the code as seed C10-9 left it (the old table dropped only
   once the new one is in memory; FragTableProofs.ft_read_late) violates it on the same image - after the flagged call
   get_size still reports the previous table, after the failing call lookup(0) still answers from it *)
Example frag_table_read_late_refuted :
  match Example.ex_image with
  | Some (st, w) =>
    let img := image_bytes w in
    let s := sup_of (w_super w) in
    let t1 := fst (ft_read_late ExampleFragLoader.ex_uc img 64 s ExampleFragLoader.ex_stale) in
    let r2 := ft_read_late ExampleFragLoader.ex_uc img 64
                (ExampleFragLoader.with_flags s (N.lor (Super.s_flags s) c_SQFS_FLAG_NO_FRAGMENTS)) t1 in
    let r3 := ft_read_late ExampleFragLoader.ex_uc img 64 (ExampleFragLoader.with_used s 96) t1 in
    snd r2 = RBase.Ok tt /\ ft_get_size (fst r2) = Res.nlen (frag_table_of st) /\ ft_get_size (fst r2) <> 0%N /\
    snd r3 = RBase.Err RBase.E_OOB /\ ft_lookup (fst r3) 0 = ft_lookup t1 0 /\
    ft_lookup (fst r3) 0 <> RBase.Err RBase.E_OOB
  | None => False
  end.
Proof. exact ExampleFragLoader.ex_frag_loader_late_refuted. Qed.

(* the writer side of the object: sqfs_frag_table_write on an object holding the entries appended for [l] is the
   frag_write step of write_image (the bytes, table start, entry count and flag word the theorems above are about) *)
From SqfsV Require ImgData.FragWrite.
Theorem frag_table_write_is_image_step :
  forall (compress : list N -> cres) (size0 : N) (l : list (N * N)) (count0 flags cap : N),
  forallb frag_okb l = true ->
  TreeModel.lift (ft_write compress size0 (mk_ft FSZ cap (Res.nlen l) (map frag_entry l)) count0 flags)
  = frag_write compress size0 l count0 flags.
Proof. exact FragWrite.ft_write_is_frag_write. Qed.
Print Assumptions frag_table_write_is_image_step.

(* non-vacuity: two entries, the second one an uncompressed block (bit 24) *)
Example ex_frag_table_write :
  forallb frag_okb [(96, 300); (4096, 16777516)]%N = true /\
  exists b s, ft_write (fun _ => CStore) 500 (mk_ft FSZ 128 2 (map frag_entry [(96, 300); (4096, 16777516)]%N)) 0 0
              = Common.Ok (b, s, 2, c_SQFS_FLAG_ALWAYS_FRAGMENTS)%N /\ length b = 42.
Proof. exact FragWrite.ex_ft_write. Qed.

(* ------------------------------------------------------------------------------------------------------------------
   Extension (session 3, array growth): sqfs_frag_table_append over a whole list, the growth steps of array_append
   (first capacity 128, then doubling, both SZ_MUL_OV tests) included.  coq/C08/FragTableGrow.v.
   Closes the open item "ft_appends = ft_holding not proved (array growth)": for every object state meeting the
   invariant [ft_inv] (16-byte elements, [used] elements stored, used <= capacity) and every list l with
   used + |l| <= 2^32 (the bound that makes "*index = (sqfs_u32)used" the position; it also keeps the overflow tests
   quiet), the object afterwards holds the old entries followed by l, every call returned 0 and the position,
   lookups return the entries, get_size = the count.  malloc/realloc failure: Util.ArrayModel has none; [ft_append_o]
   adds the oracle (= ft_append when realloc succeeds) and a failed call leaves the object untouched.
   ------------------------------------------------------------------------------------------------------------------ *)
From SqfsV Require Import C08.FragTableGrow.

Theorem frag_table_appends_hold :
  forall (t : ftobj) (l : list (N * N)),
  ft_inv t -> (ArrayModel.a_used t + lenN l <= RBase.two32)%N ->
  let t' := ft_appends t l in
  ft_inv t' /\ ArrayModel.a_data t' = ArrayModel.a_data t ++ map frag_entry l /\
  (ArrayModel.a_count t <= ArrayModel.a_count t')%N /\
  ft_get_size t' = (ft_get_size t + lenN l)%N /\
  (forall k, k < length l -> nth_error (ft_appends_res t l) k = Some (Z0, (ft_get_size t + N.of_nat k)%N)) /\
  (forall i, (i < ft_get_size t)%N -> ft_lookup t' i = ft_lookup t i) /\
  (forall k f, nth_error l k = Some f -> frag_okb f = true ->
     ft_lookup t' (ft_get_size t + N.of_nat k)%N = RBase.Ok (fst f, snd f, 0%N)) /\
  (forall i, (ft_get_size t + lenN l <= i)%N -> ft_lookup t' i = RBase.Err RBase.E_OOB).
Proof. exact ft_appends_holds. Qed.
Print Assumptions frag_table_appends_hold.

(* the hypotheses are met by what create and read leave *)
Theorem frag_table_created_and_loaded_meet_invariant :
  ft_inv ft_create /\ forall l, ft_inv (ft_holding l).
Proof. exact (conj ft_create_inv ft_holding_inv). Qed.
Print Assumptions frag_table_created_and_loaded_meet_invariant.

(* create + appends: the object of frag_table_write_is_image_step (cap = whatever the growth left), and - capacity
   apart - the object sqfs_frag_table_read leaves on the image written from it *)
Theorem frag_table_appends_from_create :
  forall l : list (N * N),
  (lenN l <= RBase.two32)%N ->
  ft_appends ft_create l
  = mk_ft FSZ (ArrayModel.a_count (ft_appends ft_create l)) (Res.nlen l) (map frag_entry l) /\
  ft_pairs (ft_appends ft_create l) = ft_pairs (ft_holding l) /\
  ft_get_size (ft_appends ft_create l) = ft_get_size (ft_holding l) /\
  (forall i, ft_lookup (ft_appends ft_create l) i = ft_lookup (ft_holding l) i).
Proof. exact ft_appends_create. Qed.
Print Assumptions frag_table_appends_from_create.

(* realloc as an oracle *)
Theorem frag_table_append_oracle_true_is_append :
  forall t a b, ft_append_o true t a b = ft_append t a b.
Proof. exact ft_append_o_no_failure. Qed.
Print Assumptions frag_table_append_oracle_true_is_append.

Theorem frag_table_append_failure_keeps_entries :
  forall ok t a b,
  fst (fst (ft_append_o ok t a b)) <> Z0 ->
  fst (fst (ft_append_o ok t a b)) = c_SQFS_ERROR_ALLOC /\
  snd (fst (ft_append_o ok t a b)) = t /\
  (forall i, ft_lookup (snd (fst (ft_append_o ok t a b))) i = ft_lookup t i) /\
  ft_get_size (snd (fst (ft_append_o ok t a b))) = ft_get_size t.
Proof. exact ft_append_failure_keeps_entries. Qed.
Print Assumptions frag_table_append_failure_keeps_entries.

Theorem frag_table_append_refused_when_full :
  forall t a b, ArrayModel.a_used t = ArrayModel.a_count t ->
  ft_append_o false t a b = (c_SQFS_ERROR_ALLOC, t, (ArrayModel.a_used t mod RBase.two32)%N).
Proof. exact ft_append_refused_when_full. Qed.
Print Assumptions frag_table_append_refused_when_full.

(* non-vacuity: 300 appends from create (capacity 128 -> 256 -> 512), 7 appends to a loaded table (3 -> 6 -> 12),
   a refused append on a full table, and the index wrapping at used = 2^32 (why the bound is there) *)
Example ex_frag_table_grow_from_create :
  let l := ex_entries 300 in
  let t := ft_appends ft_create l in
  forallb frag_okb l = true /\
  counts_along ft_create l = [128; 256; 512]%N /\
  ArrayModel.a_count t = 512%N /\ ft_get_size t = 300%N /\ ft_pairs t = l /\
  ft_appends_res ft_create l = idx_from 0 300 /\
  ft_lookup t 0 = RBase.Ok (96, 300, 0)%N /\
  ft_lookup t 128 = RBase.Ok (128096, 428, 0)%N /\
  ft_lookup t 257 = RBase.Ok (257096, 16777473, 0)%N /\
  ft_lookup t 299 = RBase.Ok (299096, 16777515, 0)%N /\
  ft_lookup t 300 = RBase.Err RBase.E_OOB.
Proof. exact ex_grow_from_create. Qed.

Example ex_frag_table_grow_from_loaded :
  let t0 := ft_holding (ex_entries 3) in
  let l := skipn 3 (ex_entries 10) in
  let t := ft_appends t0 l in
  counts_along t0 l = [6; 12]%N /\
  ft_pairs t = ex_entries 10 /\ ft_get_size t = 10%N /\
  ft_appends_res t0 l = idx_from 3 7 /\
  ft_lookup t 2 = ft_lookup t0 2 /\ ft_lookup t 9 = RBase.Ok (9096, 16777225, 0)%N.
Proof. exact ex_grow_from_loaded. Qed.

Example ex_frag_table_append_refused :
  let t := ft_appends ft_create (ex_entries 128) in
  ArrayModel.a_used t = ArrayModel.a_count t /\
  ft_append_o false t 5 6 = (c_SQFS_ERROR_ALLOC, t, 128%N) /\
  fst (fst (ft_append_o true t 5 6)) = Z0 /\ ArrayModel.a_count (snd (fst (ft_append_o true t 5 6))) = 256%N /\
  let t2 := ft_appends ft_create (ex_entries 5) in ft_append_o false t2 5 6 = ft_append t2 5 6.
Proof. exact ex_append_refused. Qed.

Example ex_frag_table_index_wraps :
  snd (ft_append (mk_ft FSZ 8589934592 4294967296 []) 1 2) = 0%N /\
  ArrayModel.a_used (snd (fst (ft_append (mk_ft FSZ 8589934592 4294967296 []) 1 2))) = 4294967297%N.
Proof. exact ex_index_wraps. Qed.

(* ------------------------------------------------------------------------------------------------------------------
   Extension (session 3, frag_table_copy): the copy callback of the fragment table object = calloc + array_init_copy
   (Util.ArrayModel.array_init_copy: capacity of the copy = USED of the source, the first [used] elements).
   coq/C08/FragTableCopy.v.  [ft_copy ok t]: None = NULL ([ok] = every allocation succeeded; SZ_MUL_OV(size, used) ->
   NULL as well).  The model's objects are values, so independence is true by construction of the MODEL; it is stated
   (frame property over a two-object state) as what the tie's copy op is compared against.
   ------------------------------------------------------------------------------------------------------------------ *)
From SqfsV Require Import C08.FragTableCopy.

Theorem frag_table_copy_holds_same_entries :
  forall ok t c,
  ft_inv t -> ft_copy ok t = Some c ->
  ft_inv c /\ c = mk_ft FSZ (ArrayModel.a_used t) (ArrayModel.a_used t) (ArrayModel.a_data t) /\
  ft_pairs c = ft_pairs t /\ ft_get_size c = ft_get_size t /\
  (forall i, ft_lookup c i = ft_lookup t i) /\
  (forall i, (ft_get_size t <= i)%N -> ft_lookup c i = RBase.Err RBase.E_OOB).
Proof. exact ft_copy_holds_same_entries. Qed.
Print Assumptions frag_table_copy_holds_same_entries.

(* the hypothesis "ft_copy = Some" is met: all allocations succeed and used * 16 fits size_t; NULL otherwise *)
Theorem frag_table_copy_succeeds :
  forall t, ft_inv t -> (16 * ArrayModel.a_used t <= GenUtil.util_size_max)%N ->
  ft_copy true t = Some (mk_ft FSZ (ArrayModel.a_used t) (ArrayModel.a_used t) (ArrayModel.a_data t)).
Proof. exact ft_copy_succeeds. Qed.
Print Assumptions frag_table_copy_succeeds.

Theorem frag_table_copy_alloc_failure_is_null : forall t, ft_copy false t = None.
Proof. exact ft_copy_false. Qed.
Print Assumptions frag_table_copy_alloc_failure_is_null.

Theorem frag_table_copy_independent :
  forall (uc : list N -> N -> RBase.res (list N)) (img : list N) ok t c,
  ft_copy ok t = Some c ->
  (forall l,
     fst (fam_runs uc img (t, c) l) = (fst (fruns uc img t (sel Orig l)), fst (fruns uc img c (sel Copy l))) /\
     sel Orig (snd (fam_runs uc img (t, c) l)) = snd (fruns uc img t (sel Orig l)) /\
     sel Copy (snd (fam_runs uc img (t, c) l)) = snd (fruns uc img c (sel Copy l))) /\
  (forall ops, fst (fst (fam_runs uc img (t, c) (map (pair Copy) ops))) = t) /\
  (forall ops, snd (fst (fam_runs uc img (t, c) (map (pair Orig) ops))) = c).
Proof. exact ft_copy_independent. Qed.
Print Assumptions frag_table_copy_independent.

Theorem frag_table_copy_then_appends :
  forall ok t c l,
  ft_inv t -> ft_copy ok t = Some c -> (ArrayModel.a_used t + lenN l <= RBase.two32)%N ->
  let c' := ft_appends c l in
  let t' := ft_appends t l in
  ft_inv c' /\ ArrayModel.a_data c' = ArrayModel.a_data t ++ map frag_entry l /\
  ft_appends_res c l = ft_appends_res t l /\
  ft_pairs c' = ft_pairs t' /\ ft_get_size c' = ft_get_size t' /\
  (forall i, ft_lookup c' i = ft_lookup t' i) /\
  (ArrayModel.a_used t <= ArrayModel.a_count c')%N.
Proof. exact ft_copy_then_appends. Qed.
Print Assumptions frag_table_copy_then_appends.

(* refuted: a copy that takes the source's capacity for its used count (seeded bug) has phantom entries *)
Theorem frag_table_copy_phantom_refuted :
  ft_lookup ex_t5 5 = RBase.Err RBase.E_OOB /\ ft_get_size ex_t5 = 5%N /\
  ft_lookup (ft_copy_phantom ex_junk ex_t5) 5 = RBase.Ok (3735928559, 48879, 0)%N /\
  ft_lookup (ft_copy_phantom ex_junk ex_t5) 127 = RBase.Ok (3735928559, 48879, 0)%N /\
  ft_get_size (ft_copy_phantom ex_junk ex_t5) = 128%N /\
  ft_lookup (ft_copy_phantom ex_junk ex_t5) 4 = ft_lookup ex_t5 4.
Proof. exact ft_copy_phantom_refuted. Qed.
Print Assumptions frag_table_copy_phantom_refuted.

Example ex_frag_table_copy :
  ft_inv ex_t5 /\ ArrayModel.a_count ex_t5 = 128%N /\
  match ft_copy true ex_t5 with
  | Some c =>
    ArrayModel.a_count c = 5%N /\ ArrayModel.a_used c = 5%N /\ ft_pairs c = ex_entries 5 /\
    ft_lookup c 4 = ft_lookup ex_t5 4 /\ ft_lookup c 5 = RBase.Err RBase.E_OOB /\
    counts_along c (skipn 5 (ex_entries 16)) = [10; 20]%N /\
    counts_along ex_t5 (skipn 5 (ex_entries 16)) = [] /\
    ft_pairs (ft_appends c (skipn 5 (ex_entries 16))) = ex_entries 16 /\
    ft_appends_res c (skipn 5 (ex_entries 16)) = idx_from 5 11
  | None => False
  end /\
  ft_copy false ex_t5 = None /\
  ft_copy true (mk_ft FSZ 1152921504606846976 1152921504606846976 []) = None.
Proof. exact ex_copy. Qed.

Example ex_frag_table_copy_family :
  match ft_copy true ex_t5 with
  | Some c =>
    let l := [(Copy, FAppend 777 42); (Orig, FSet 0 1 2); (Copy, FLookup 0); (Orig, FLookup 0); (Copy, FLookup 5);
              (Orig, FLookup 5); (Copy, FSize); (Orig, FSize)]%N in
    map snd (snd (fam_runs (fun _ _ => RBase.Crash) [] (ex_t5, c) l)) =
    [AApp Z0 5; ASet Z0; ALook (RBase.Ok (96, 300, 0)); ALook (RBase.Ok (1, 2, 0)); ALook (RBase.Ok (777, 42, 0));
     ALook (RBase.Err RBase.E_OOB); ASz 6; ASz 5]%N
  | None => False
  end.
Proof. exact ex_copy_family. Qed.
