(* C08 — deduplication never changes data, even when checksums collide.
   Statements only; every proof is one [exact] of a lemma from C08/Dedup*.v.

   Model: C08/DedupModel.v (block writer: write_data_block / deduplicate_blocks /
   check_file_range_equal; block processor: process_block, process_completed_block,
   process_completed_fragment, chunk_info_equals with its three byte sources, load_frag_block,
   the io queue, sync / finish; data reader).  The checksum [hashf] is quantified without ANY
   hypothesis; the compressor pair carries the contract of include/sqfs/compressor.h; [sched]
   ranges over all moments at which compressed fragment blocks come back from the pool. *)
From Coq Require Import List NArith Arith Bool.
From SqfsV Require Import Gen.Constants C08.GenC08.
From SqfsV Require Import C08.DedupModel C08.DedupLemmas C08.DedupWriterProofs
     C08.DedupReaderProofs C08.DedupPipeProofs C08.DedupTheorems.
Import ListNotations.

(* ---- dedup_sound ---------------------------------------------------------------------- *)
(* for every checksum function, every contract-abiding compressor, every block size the format
   allows, every comparison window > 0, every initial file content (super block), every list of
   files with their flags (DONT_COMPRESS, DONT_HASH, DONT_FRAGMENT, DONT_DEDUPLICATE,
   IGNORE_SPARSE) and every schedule: packing succeeds, every file read through the data reader
   from its recorded block start / size words / fragment reference is byte-exact, and the bytes
   that were in the output file before (the super block) are untouched *)
Theorem dedup_sound :
  forall (hashf : list N -> N)
         (compress : list N -> option (list N)) (uncompress : list N -> nat -> option (list N))
         (bs half : nat),
  (forall b c, compress b = Some c ->
     length c < length b /\ forall n, length b <= n -> uncompress c n = Some b) ->
  0 < bs -> (N.of_nat bs <= c_SQFS_MAX_BLOCK_SIZE)%N -> 0 < half ->
  forall (file0 : list N) (files : list (uflags * list N)) (sched : list nat),
  exists st,
    pack hashf compress uncompress bs false true half file0 files sched = Ok st /\
    (forall fid fl d, nth_error files fid = Some (fl, d) ->
                      read_back uncompress bs st fid (length d) = Some d) /\
    firstn (length file0) (w_file (p_wr st)) = file0.
Proof. exact dedup_sound_l. Qed.
Print Assumptions dedup_sound.

(* the comparison window the working tree really uses (SCRATCH_SIZE / 2) is > 0 *)
Theorem scratch_window_positive : 0 < half_scratch.
Proof. exact half_scratch_pos. Qed.
Print Assumptions scratch_window_positive.

(* the literals of the model (bit 24, 24-bit size field, 64-bit packing of size and checksum)
   are the ones in block_writer.c / block.h of the working tree *)
Theorem model_constants :
  two24 = c08_UNCOMPRESSED_BIT /\ two24 = c08_ON_DISK_SIZE_RANGE /\
  two24 = c08_SIZE_FROM_HASH_RANGE /\
  c08_MK_BLK_HASH_0_1 = (2 ^ 32)%N /\ c08_MK_BLK_HASH_1_0 = 1%N /\
  c08_SIZE_FROM_HASH_OF_UNCOMPRESSED_5 = 5%N.
Proof. exact model_constants_match. Qed.
Print Assumptions model_constants.

(* ---- writer_ranges_stable ---------------------------------------------------------------- *)
(* the block writer alone, driven by any sequence of files (FIRST .. LAST groups, dedup on or
   off) and loose blocks (fragment blocks): it never fails, every location it handed out still
   holds the bytes the caller wrote there after all later truncations, and the initial content
   of the file is untouched *)
Theorem writer_ranges_stable :
  forall (half : nat) (ops : list wop) (file0 : list N),
  0 < half -> Forall op_small ops ->
  exists w' ranges,
    wrun half ops {| w_file := file0; w_blocks := []; w_fstart := 0 |} [] = Some (w', ranges) /\
    Forall (fun r => fst r + length (snd r) <= length (w_file w') /\
                     slice (w_file w') (fst r) (length (snd r)) = snd r) ranges /\
    firstn (length file0) (w_file w') = file0.
Proof. exact writer_ranges_stable_l. Qed.
Print Assumptions writer_ranges_stable.

(* ---- frag_source_agree ------------------------------------------------------------------ *)
(* at every point between two files of a run (any prefix, any schedule): for every file that was
   given a fragment reference (idx, o), the lookup chunk_info_equals performs for block idx -
   whichever of the three sources answers: the in-flight copy, the block being filled, or the
   block re-read from disk and uncompressed - succeeds and holds the file's tail bytes at o *)
Theorem frag_source_agree :
  forall (hashf : list N -> N)
         (compress : list N -> option (list N)) (uncompress : list N -> nat -> option (list N))
         (bs half : nat),
  (forall b c, compress b = Some c ->
     length c < length b /\ forall n, length b <= n -> uncompress c n = Some b) ->
  0 < bs -> (N.of_nat bs <= c_SQFS_MAX_BLOCK_SIZE)%N -> 0 < half ->
  forall (file0 : list N) (files : list (uflags * list N)) (n : nat) (sched : list nat) (st : proc),
  run_files hashf compress uncompress bs false true half
            (firstn n (map (fun f => file_job bs (fst f) (snd f)) files)) sched 0 (init_proc file0)
  = Ok st ->
  forall fid fl data idx o t,
    nth_error files fid = Some (fl, data) -> p_frag st fid = Some (idx, o) ->
    j_tail (file_job bs fl data) = Some t ->
    exists d ca,
      frag_lookup uncompress bs st (p_cached st) idx = Some (d, ca) /\
      o + length t <= length d /\ slice d o (length t) = t.
Proof. exact frag_source_agree_l. Qed.
Print Assumptions frag_source_agree.

(* ---- dedup_complete (block runs) ---------------------------------------------------------- *)
(* in any state the writer is in after the last block of a file (WOpen: [pre]/[hist] = file and
   history when the file's first block arrived, [cur] = the blocks stored since): if the same
   size words, checksums and bytes already sit completely inside the history at position j, the
   file is not stored again - file and history are cut back to exactly [pre] and [hist] - and the
   location handed out is at or before that occurrence and holds the same bytes *)
Theorem dedup_complete_blocks :
  forall half base w claims pre hist cur j evs,
  0 < half ->
  WOpen base w claims pre hist cur -> cur <> [] ->
  j + length cur <= length hist ->
  hashes_match (firstn (length cur) (skipn j hist)) (infos (length pre) cur) = true ->
  slice pre (bi_off (nth j hist dflt_bi)) (length (cat cur)) = cat cur ->
  exists loc evs',
    deduplicate_blocks false half w false evs
    = WOk {| w_file := pre; w_blocks := hist; w_fstart := length hist |} loc evs' /\
    loc <= bi_off (nth j hist dflt_bi) /\
    slice pre loc (length (cat cur)) = cat cur.
Proof. exact dedup_complete_blocks_l. Qed.
Print Assumptions dedup_complete_blocks.

(* ---- dedup_hash_only_unsound_refuted --------------------------------------------------------- *)
(* what soundness rests on: with SQFS_BLOCK_WRITER_HASH_COMPARE_ONLY, or with a block processor
   that was given no file / uncompressor to compare against, a colliding checksum DOES alias data
   (lib/common/src/writer/init.c passes flags 0, the output file and the uncompressor: checked by
   props/C08/check.py on the working tree) *)
Theorem dedup_hash_only_unsound_refuted :
  exists hashf compress uncompress bs half file0 files sched st,
    pack hashf compress uncompress bs true true half file0 files sched = Ok st /\
    exists fid fl d d', nth_error files fid = Some (fl, d) /\
                        read_back uncompress bs st fid (length d) = Some d' /\ d' <> d.
Proof.
  destruct hash_only_aliases_blocks as (st & E & R).
  exists const_hash, no_compress, no_uncompress, 4, 4096, [], witness_files_blocks, [], st.
  split; [exact E|]. exists 1, fl0, [5; 6; 7; 8]%N, [1; 2; 3; 4]%N.
  split; [reflexivity|]. split; [exact R|discriminate].
Qed.
Print Assumptions dedup_hash_only_unsound_refuted.

Theorem dedup_no_bytecmp_unsound_refuted :
  exists hashf compress uncompress bs half file0 files sched st,
    pack hashf compress uncompress bs false false half file0 files sched = Ok st /\
    exists fid fl d d', nth_error files fid = Some (fl, d) /\
                        read_back uncompress bs st fid (length d) = Some d' /\ d' <> d.
Proof.
  destruct no_bytecmp_aliases_fragments as (st & E & R).
  exists const_hash, no_compress, no_uncompress, 4, 4096, [], witness_files_frags, [], st.
  split; [exact E|]. exists 1, fl0, [3; 4]%N, [1; 2]%N.
  split; [reflexivity|]. split; [exact R|discriminate].
Qed.
Print Assumptions dedup_no_bytecmp_unsound_refuted.

(* ---- non-vacuity ------------------------------------------------------------------------- *)
(* the compressor contract is satisfiable by a compressor that really compresses: the toy
   run-length codec of the component harness *)
Theorem toy_compressor_contract : forall b c, toy_compress b = Some c ->
  length c < length b /\ forall n, length b <= n -> toy_uncompress c n = Some b.
Proof. exact toy_contract. Qed.
Print Assumptions toy_compressor_contract.

(* constant checksum (everything collides), toy compressor, block size 4: two different files
   with equal block counts and tail sizes, a true duplicate, a compressible and a sparse block *)
Definition ex_files : list (uflags * list N) :=
  [(fl0, [1; 2; 3; 4; 9; 9]%N); (fl0, [5; 6; 7; 8; 7; 7]%N); (fl0, [1; 2; 3; 4; 9; 9]%N);
   (fl0, [3; 3; 3; 3; 3; 3; 3; 3; 0; 0; 0; 0; 1]%N)].

Example ex_sound_nontrivial :
  match pack const_hash toy_compress toy_uncompress 4 false true 4096 [7; 7; 7]%N ex_files [0; 1] with
  | Ok st =>
    read_back toy_uncompress 4 st 0 6 = Some [1; 2; 3; 4; 9; 9]%N /\
    read_back toy_uncompress 4 st 1 6 = Some [5; 6; 7; 8; 7; 7]%N /\
    read_back toy_uncompress 4 st 3 13 = Some [3; 3; 3; 3; 3; 3; 3; 3; 0; 0; 0; 0; 1]%N /\
    (* the true duplicate shares block start and fragment reference with the original ... *)
    p_start st 2 = p_start st 0 /\ p_frag st 2 = p_frag st 0 /\
    (* ... the colliding different file does not *)
    p_start st 1 <> p_start st 0 /\ p_frag st 1 <> p_frag st 0
  | _ => False
  end.
Proof. vm_compute. repeat split; discriminate. Qed.

(* the hypotheses of dedup_complete_blocks are met in a concrete state: history [X], then the
   one-block file X again *)
Example ex_complete_blocks :
  let X := {| pb_sparse := false; pb_compressed := false; pb_chk := 0%N; pb_data := [1; 2; 3]%N |} in
  let w := {| w_file := [1; 2; 3; 1; 2; 3]%N;
              w_blocks := [info_of 0 X; info_of 3 X]; w_fstart := 1 |} in
  WOpen 0 w [] [1; 2; 3]%N [info_of 0 X] [X] /\
  deduplicate_blocks false 4096 w false []
  = WOk {| w_file := [1; 2; 3]%N; w_blocks := [info_of 0 X]; w_fstart := 1 |} 0 [EvTrunc 3].
Proof.
  split; [|vm_compute; reflexivity].
  constructor; simpl; try reflexivity.
  - split; [reflexivity|exact I].
  - constructor.
  - constructor; [|constructor]. unfold small. simpl. reflexivity.
Qed.
