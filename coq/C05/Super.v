(* C05 — model of lib/sqfs/src/read_super.c, read_table.c, id_table.c (read /
   index_to_id), frag_table.c (read / lookup). *)
From Coq Require Import List NArith ZArith Bool.
From SqfsV Require Import Gen.Constants Base.Bytes C05.RBase C05.GenC05 C05.Meta.
Import ListNotations.
Local Open Scope N_scope.

Record sup := MkSup {
  s_inode_count : N; s_mtime : N; s_block_size : N; s_frag_count : N; s_comp : N;
  s_block_log : N; s_flags : N; s_id_count : N; s_root : N; s_bytes_used : N;
  s_id_start : N; s_xattr_start : N; s_inode_start : N; s_dir_start : N;
  s_frag_start : N; s_export_start : N
}.

Definition super_read (img : list N) : res sup :=
  do raw <- read_at img 0 sizeof_sqfs_super_t;
  let f4 o := fld 4 o raw in
  let f2 o := fld 2 o raw in
  let f8 o := fld 8 o raw in
  let magic := f4 off_sqfs_super_t_magic in
  let bs := f4 off_sqfs_super_t_block_size in
  let blog := f2 off_sqfs_super_t_block_log in
  let comp := f2 off_sqfs_super_t_compression_id in
  let idc := f2 off_sqfs_super_t_id_count in
  if negb (magic =? c_SQFS_MAGIC) then Err E_MAGIC
  else if negb (f2 off_sqfs_super_t_version_major =? c_SQFS_VERSION_MAJOR)
          || negb (f2 off_sqfs_super_t_version_minor =? c_SQFS_VERSION_MINOR) then Err E_VERSION
  else if negb (N.land (u32 (bs + two32 - 1)) bs =? 0) then Err E_BLOCK_SIZE
  else if bs <? c_SQFS_MIN_BLOCK_SIZE then Err E_BLOCK_SIZE
  else if c_SQFS_MAX_BLOCK_SIZE <? bs then Err E_BLOCK_SIZE
  else if (blog <? 12) || (20 <? blog) then Err E_CORRUPTED
  else if negb (bs =? 2 ^ blog) then Err E_CORRUPTED
  else if (comp <? c_SQFS_COMP_MIN) || (c_SQFS_COMP_MAX <? comp) then Err E_UNSUPPORTED
  else if idc =? 0 then Err E_CORRUPTED
  else Ok (MkSup (f4 off_sqfs_super_t_inode_count) (f4 off_sqfs_super_t_modification_time) bs
                 (f4 off_sqfs_super_t_fragment_entry_count) comp blog (f2 off_sqfs_super_t_flags) idc
                 (f8 off_sqfs_super_t_root_inode_ref) (f8 off_sqfs_super_t_bytes_used)
                 (f8 off_sqfs_super_t_id_table_start) (f8 off_sqfs_super_t_xattr_id_table_start)
                 (f8 off_sqfs_super_t_inode_table_start) (f8 off_sqfs_super_t_directory_table_start)
                 (f8 off_sqfs_super_t_fragment_table_start) (f8 off_sqfs_super_t_export_table_start)).

(* split a byte list into k-byte little endian numbers (whole items only) *)
Fixpoint items (k : nat) (n : nat) (l : list N) : list N :=
  match n with
  | O => []
  | S n' => rdk k l :: items k n' (skipn k l)
  end.

Section WithCodec.
Variable uncompress : list N -> N -> res (list N).
Variable img : list N.
Let seek := mr_seek uncompress true img.
Let read := mr_read uncompress true img.

(* the while loop of sqfs_read_table: [locs] = locations[blk_idx..], [remaining] =
   table_size, which is also the room left behind ptr *)
Fixpoint rt_loop (fuel : nat) (m : mr) (locs : list N) (remaining : N) : res (list N) :=
  if remaining =? 0 then Ok []
  else
    match locs with
    | [] => Crash                       (* locations[blk_idx] past the array *)
    | start :: rest =>
      do m1 <- seek m start 0;
      let diff := if remaining <? meta_sz then remaining else meta_sz in
      do (m2, chunk) <- read fuel m1 remaining diff;
      do tl <- rt_loop fuel m2 rest (remaining - diff);
      Ok (chunk ++ tl)
    end.

Definition read_table (fuel : nat) (table_size location lower upper : N) : res (list N) :=
  do _ <- malloc_chk table_size;
  let block_count := table_size / meta_sz + (if table_size mod meta_sz =? 0 then 0 else 1) in
  do cap <- alloc_array E_ALLOC 8 block_count;
  do _ <- put_check cap 0 (8 * block_count);
  do raw <- read_at img location (8 * block_count);
  rt_loop fuel (mr_create lower upper) (items 8 (nN block_count) raw) table_size.

(* sqfs_id_table_read: the list of ids *)
Definition id_table_read (fuel : nat) (s : sup) : res (list N) :=
  if (s_id_count s =? 0) || (s_bytes_used s <=? s_id_start s) then Err E_CORRUPTED
  else
    let upper := s_id_start s in
    let lower0 := s_dir_start s in
    let lower1 := if (lower0 <? s_frag_start s) && (s_frag_start s <? upper) then s_frag_start s else lower0 in
    let lower2 := if (lower1 <? s_export_start s) && (s_export_start s <? upper) then s_export_start s else lower1 in
    do raw <- read_table fuel (s_id_count s * 4) (s_id_start s) lower2 upper;
    (* for (i = 0; i < id_count; ++i) raw_ids[i] = le32toh(raw_ids[i]) *)
    do _ <- put_check (lenN raw) 0 (s_id_count s * 4);
    Ok (items 4 (nN (s_id_count s)) raw).

Definition id_lookup (ids : list N) (idx : N) : res N :=
  if lenN ids <=? idx then Err E_OOB else nth_chk ids idx.

(* sqfs_frag_table_read: the raw table (fragment_entry_count entries) *)
Definition frag_table_read (fuel : nat) (s : sup) : res (list N) :=
  if negb (N.land (s_flags s) c_SQFS_FLAG_NO_FRAGMENTS =? 0) then Ok []
  else if s_frag_start s =? max64 then Ok []
  else if s_frag_count s =? 0 then Ok []
  else if s_bytes_used s <=? s_frag_start s then Err E_OOB
  else if s_frag_start s <? s_dir_start s then Err E_CORRUPTED
  else if s_id_start s <=? s_frag_start s then Err E_CORRUPTED
  else
    let upper := if s_export_start s <? s_id_start s then s_export_start s else s_id_start s in
    match sz_mul_ov (s_frag_count s) sizeof_sqfs_fragment_t with
    | None => Err E_OVERFLOW
    | Some size => read_table fuel size (s_frag_start s) (s_dir_start s) upper
    end.

(* sqfs_frag_table_lookup -> (start_offset, size word) *)
Definition frag_lookup (tbl : list N) (idx : N) : res (N * N) :=
  if lenN tbl / sizeof_sqfs_fragment_t <=? idx then Err E_OOB
  else
    do e <- slice tbl (idx * sizeof_sqfs_fragment_t) sizeof_sqfs_fragment_t;
    Ok (fld 8 o_sqfs_fragment_t_start_offset e, fld 4 o_sqfs_fragment_t_size e).

End WithCodec.
