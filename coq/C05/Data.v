(* C05 — model of lib/sqfs/src/data_reader.c: get_block, the two caches,
   sqfs_data_reader_get_block / _get_fragment / _read and the stream reader,
   with every buffer given its allocated size.

   [fixed = true] follows the repaired code (fixes/F12: the stream reader checks
   the on-disk size against block_size; fixes/F13: get_fragment adds in 64 bits
   and tests against the fragment block's size); [fixed = false] is the code as
   found, kept for the [_refuted] witnesses. *)
From Coq Require Import List NArith ZArith Bool.
From SqfsV Require Import Gen.Constants Base.Bytes C05.RBase C05.GenC05 C05.Meta C05.Super C05.Inode.
Import ListNotations.
Local Open Scope N_scope.

Definition on_disk (w : N) : N := w mod two24.
Definition is_compressed (w : N) : bool := (w / two24) mod 2 =? 0.
Definition is_sparse (w : N) : bool := on_disk w =? 0.

Record dreader_data := MkDd {
  dd_bs : N;                         (* block_size = size of scratch[] *)
  dd_frags : list N;                 (* raw fragment table *)
  dd_data : option (list N);         (* data_block buffer (block_size bytes) *)
  dd_data_sz : N;
  dd_cur_block : N;
  dd_cur_word : N;
  dd_frag : option (list N);         (* frag_block buffer (block_size bytes) *)
  dd_frag_sz : N;
  dd_cur_frag : N
}.

Definition dd_create (bs : N) (frags : list N) : dreader_data :=
  MkDd bs frags None 0 0 0 None 0 (lenN frags / sizeof_sqfs_fragment_t).

Section WithCodec.
Variable uncompress : list N -> N -> res (list N).
Variable fixed : bool.
Variable img : list N.

(* static get_block: returns the zero-initialised buffer of [max_size] bytes with
   the block unpacked / read into its front, and out_sz *)
Definition get_block (bs off word max_size : N) : res (list N * N) :=
  do _ <- malloc_chk max_size;
  let buf0 := zeros (nN max_size) in
  if is_sparse word then Ok (buf0, max_size)
  else
    let ods := on_disk word in
    if max_size <? ods then Err E_OVERFLOW
    else if is_compressed word then
      do _ <- put_check bs 0 ods;                      (* read into data->scratch *)
      do raw <- read_at img off ods;
      do out <- uncompress raw max_size;
      if lenN out =? 0 then Err E_OVERFLOW
      else
        do _ <- put_check max_size 0 (lenN out);
        Ok (overlay out buf0, lenN out)
    else
      do _ <- put_check max_size 0 ods;                (* read into *out *)
      do raw <- read_at img off ods;
      Ok (overlay raw buf0, ods).

Definition precache_data (d : dreader_data) (loc word : N) : res dreader_data :=
  match dd_data d with
  | Some _ =>
    if (dd_cur_block d =? loc) && (dd_cur_word d =? word) then Ok d
    else
      do (b, sz) <- get_block (dd_bs d) loc word (dd_bs d);
      Ok (MkDd (dd_bs d) (dd_frags d) (Some b) sz loc word (dd_frag d) (dd_frag_sz d) (dd_cur_frag d))
  | None =>
    do (b, sz) <- get_block (dd_bs d) loc word (dd_bs d);
    Ok (MkDd (dd_bs d) (dd_frags d) (Some b) sz loc word (dd_frag d) (dd_frag_sz d) (dd_cur_frag d))
  end.

Definition precache_frag (d : dreader_data) (idx : N) : res dreader_data :=
  let load :=
    do (start, word) <- frag_lookup (dd_frags d) idx;
    do (b, sz) <- get_block (dd_bs d) start word (dd_bs d);
    Ok (MkDd (dd_bs d) (dd_frags d) (dd_data d) (dd_data_sz d) (dd_cur_block d) (dd_cur_word d) (Some b) sz idx) in
  match dd_frag d with
  | Some _ => if idx =? dd_cur_frag d then Ok d else load
  | None => load
  end.

(* offset of block [index] and the file size left at its start:
   for (i = 0; i < index; ++i) { off += ON_DISK(extra[i]); filesz -= block_size; } *)
Fixpoint skip_blocks (n : nat) (ws : list N) (bs off filesz : N) : res (N * N * list N) :=
  match n with
  | O => Ok (off, filesz, ws)
  | S n' =>
    match ws with
    | [] => Crash
    | w :: r => skip_blocks n' r bs (u64 (off + on_disk w)) (sub64 filesz bs)
    end
  end.

(* sqfs_data_reader_get_block *)
Definition dr_get_block (d : dreader_data) (i : inode) (index : N) : res (list N) :=
  if inode_block_count i <=? index then Err E_OOB
  else
    do (off, filesz, ws) <- skip_blocks (nN index) (i_words i) (dd_bs d) (inode_block_start i)
                                        (match inode_file_size i with Ok s => s | _ => 0 end);
    match ws with
    | [] => Crash
    | w :: _ =>
      let unpacked := if filesz <? dd_bs d then filesz else dd_bs d in
      do (b, sz) <- get_block (dd_bs d) off w unpacked;
      slice b 0 sz
    end.

(* sqfs_data_reader_get_fragment *)
Definition dr_get_fragment (d : dreader_data) (i : inode) : res (dreader_data * list N) :=
  let filesz := match inode_file_size i with Ok s => s | _ => 0 end in
  let '(fi, fo) := inode_frag_location i in
  let bc := inode_block_count i in
  if dd_bs d =? 0 then Crash
  else if max64 / dd_bs d <? bc then Err E_OVERFLOW
  else if filesz <=? bc * dd_bs d then Ok (d, [])
  else
    let frag_sz := filesz mod dd_bs d in
    do d1 <- precache_frag d fi;
    let too_big := if fixed then dd_frag_sz d1 <? fo + frag_sz
                   else dd_bs d1 <? u32 (fo + frag_sz) in
    if too_big then Err E_OOB
    else
      do _ <- malloc_chk frag_sz;
      match dd_frag d1 with
      | None => Crash
      | Some fb => do x <- slice fb fo frag_sz; Ok (d1, x)
      end.

(* first loop of sqfs_data_reader_read: skip whole blocks before [offset] *)
Fixpoint rd_skip (ws : list N) (bs off offset : N) : N * N * list N :=
  match ws with
  | [] => (off, offset, [])
  | w :: r => if bs <? offset then rd_skip r bs (u64 (off + on_disk w)) (offset - bs) else (off, offset, ws)
  end.

(* second loop: copy from blocks; returns the bytes stored through [buffer] *)
Fixpoint rd_copy (ws : list N) (d : dreader_data) (off offset size : N)
  : res (dreader_data * N * N * list N) :=
  match ws with
  | [] => Ok (d, offset, size, [])
  | w :: r =>
    if size =? 0 then Ok (d, offset, size, [])
    else
      let diff0 := u32 (sub64 (dd_bs d) offset) in
      let diff := if size <? diff0 then size else diff0 in
      if is_sparse w then
        do (d', o', s', tl) <- rd_copy r d off 0 (size - diff);
        Ok (d', o', s', zeros (nN diff) ++ tl)
      else
        do d1 <- precache_data d off w;
        match dd_data d1 with
        | None => Crash
        | Some b =>
          do chunk <- slice b offset diff;
          do (d', o', s', tl) <- rd_copy r d1 (u64 (off + on_disk w)) 0 (size - diff);
          Ok (d', o', s', chunk ++ tl)
        end
  end.

(* sqfs_data_reader_read(data, inode, offset, buffer, size); [size] is also the room in buffer *)
Definition dr_read (d : dreader_data) (i : inode) (offset size : N) : res (dreader_data * list N) :=
  let size := if 2147483647 <=? size then 2147483646 else size in
  let filesz := match inode_file_size i with Ok s => s | _ => 0 end in
  let '(fi, fo) := inode_frag_location i in
  let ws := firstn (nN (inode_block_count i)) (i_words i) in
  if filesz <=? offset then Ok (d, [])
  else
    let size := if filesz - offset <? size then filesz - offset else size in
    if size =? 0 then Ok (d, [])
    else
      (* inode->extra[i] for i < block_count *)
      do _ <- put_check (lenN (i_words i)) 0 (inode_block_count i);
      let '(off, offset1, ws1) := rd_skip ws (dd_bs d) (inode_block_start i) offset in
      do (d1, offset2, size2, bytes) <- rd_copy ws1 d off offset1 size;
      do _ <- put_check size 0 (lenN bytes);
      if size2 =? 0 then Ok (d1, bytes)
      else
        do d2 <- precache_frag d1 fi;
        if dd_frag_sz d2 <=? fo + offset2 then Err E_OOB
        else if dd_frag_sz d2 - (fo + offset2) <? size2 then Err E_OOB
        else
          match dd_frag d2 with
          | None => Crash
          | Some fb =>
            do x <- slice fb (fo + offset2) size2;
            do _ <- put_check size (lenN bytes) size2;
            Ok (d2, bytes ++ x)
          end.

(* ---- stream reader ---- *)
Record stream := MkStream {
  st_blocks : list N; st_filesz : N; st_disk_off : N; st_fi : N; st_fo : N
}.

Definition stream_create (i : inode) : res stream :=
  do fsz <- inode_file_size i;
  let '(fi, fo) := inode_frag_location i in
  (* memcpy(stream->inodata, inode->extra, payload_bytes_used) *)
  do _ <- put_check (4 * lenN (i_words i)) 0 (i_used i);
  Ok (MkStream (firstn (nN (i_used i / 4)) (i_words i)) fsz (inode_block_start i) fi fo).

(* one refill of dr_stream_get_buffered_data (the harness consumes the whole
   buffer each time); None = end of file *)
Definition stream_next (d : dreader_data) (st : stream) : res (dreader_data * stream * option (list N)) :=
  if st_filesz st =? 0 then Ok (d, st, None)
  else
    let bs := dd_bs d in
    let buf_used := if st_filesz st <? bs then st_filesz st else bs in
    match st_blocks st with
    | w :: rest =>
      let disksz := on_disk w in
      if fixed && (bs <? disksz) then Err E_OVERFLOW
      else
        do data <-
          (if disksz =? 0 then Ok (zeros (nN buf_used))
           else if is_compressed w then
             do _ <- put_check bs 0 disksz;                (* rd->scratch *)
             do raw <- read_at img (st_disk_off st) disksz;
             do out <- uncompress raw buf_used;
             if lenN out =? 0 then Err E_OVERFLOW
             else
               do _ <- put_check bs 0 (lenN out);          (* stream->buffer *)
               Ok (firstn (nN buf_used) (overlay out (zeros (nN buf_used))))
           else
             do _ <- put_check bs 0 disksz;                (* stream->buffer *)
             do raw <- read_at img (st_disk_off st) disksz;
             Ok (firstn (nN buf_used) (overlay raw (zeros (nN buf_used)))));
        Ok (d, MkStream rest (st_filesz st - buf_used) (u64 (st_disk_off st + disksz)) (st_fi st) (st_fo st),
            Some data)
    | [] =>
      do d1 <- precache_frag d (st_fi st);
      if (dd_frag_sz d1 <? st_fo st) || (dd_frag_sz d1 - st_fo st <? buf_used) then Err E_CORRUPTED
      else
        match dd_frag d1 with
        | None => Crash
        | Some fb =>
          do _ <- put_check bs 0 buf_used;
          do x <- slice fb (st_fo st) buf_used;
          Ok (d1, MkStream [] (st_filesz st - buf_used) (st_disk_off st) (st_fi st) (st_fo st), Some x)
        end
    end.

(* read a whole file through the stream; stops after [cap] bytes (harness limit) *)
Fixpoint stream_all (k : nat) (d : dreader_data) (st : stream) (total cap : N) (acc : list (list N))
  : dreader_data * res (option (list (list N))) * N :=
  match k with
  | O => (d, OutOfFuel, total)
  | S k' =>
    match stream_next d st with
    | Ok (d1, st1, Some x) =>
      let total1 := total + lenN x in
      if cap <? total1 then (d1, Ok None, total1)
      else stream_all k' d1 st1 total1 cap (x :: acc)
    | Ok (d1, _, None) => (d1, Ok (Some (rev acc)), total)
    | Err e => (d, Err e, total)
    | Crash => (d, Crash, total)
    | OutOfFuel => (d, OutOfFuel, total)
    end
  end.

End WithCodec.
