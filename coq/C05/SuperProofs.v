(* C05 — super block facts; sqfs_read_table writes exactly table_size bytes and never
   indexes past the location list; id / fragment table accessors stay in range. *)
From Coq Require Import List NArith ZArith Bool Lia.
From SqfsV Require Import Gen.Constants Base.Bytes C05.RBase C05.GenC05 C05.Meta C05.Super C05.BaseProofs C05.MetaProofs.
Import ListNotations.
Local Open Scope N_scope.

(* enough fuel for every single read the stack issues: all destinations are fixed
   structs, name buffers of at most 65537 bytes or allocations the allocator granted *)
Definition fuel_bound : N := alloc_limit + 65538.
Definition fuel_ok (o : Prop) (fuel : nat) : Prop := o \/ (N.to_nat fuel_bound <= fuel)%nat.

Lemma fuel_ok_cap o fuel cap : fuel_ok o fuel -> cap <= fuel_bound -> o \/ (N.to_nat cap <= fuel)%nat.
Proof. intros [H|H] Hc; [left; exact H|right; lia]. Qed.

Lemma super_read_facts o img :
  post o (super_read img) (fun s => c_SQFS_MIN_BLOCK_SIZE <= s_block_size s <= c_SQFS_MAX_BLOCK_SIZE
                                    /\ s_frag_count s < two32 /\ s_id_count s < 65536).
Proof.
  unfold super_read. eapply post_bind; [apply read_at_post|]. intros raw _. cbv beta.
  repeat match goal with |- context [if ?c then _ else _] => destruct c eqn:? end; try exact I.
  simpl. repeat match goal with H : (_ <? _) = false |- _ => apply N.ltb_ge in H end.
  split; [split; assumption|]. split; [apply fld4_lt|apply fld2_lt].
Qed.

Lemma items_length k n l : length (items k n l) = n.
Proof. revert l; induction n; intros; simpl; [reflexivity|]. rewrite IHn. reflexivity. Qed.
Lemma lenN_items k n l : lenN (items k (nN n) l) = n.
Proof. unfold lenN, nN. rewrite items_length. lia. Qed.

Section P.
Variable uncompress : list N -> N -> res (list N).
Hypothesis uc_ok : codec_ok uncompress.
Variable img : list N.

Lemma rt_loop_spec o fuel : forall locs m remaining,
  fuel_ok o fuel -> mr_inv m -> remaining <= alloc_limit ->
  remaining <= meta_sz * lenN locs ->
  post o (rt_loop uncompress img fuel m locs remaining) (fun d => lenN d = remaining).
Proof.
  induction locs as [|start rest IH]; intros m remaining Hf Hinv Hlim Hrem; cbn [rt_loop].
  - rewrite (@lenN_nil N) in Hrem. assert (remaining = 0) by lia. subst. simpl. reflexivity.
  - destruct (remaining =? 0) eqn:E; [apply N.eqb_eq in E; subst; reflexivity|]. apply N.eqb_neq in E.
    eapply post_bind; [apply (mr_seek_post uncompress uc_ok img o); exact Hinv|].
    intros m1 (Hi1 & _ & _). cbv beta.
    set (diff := if remaining <? meta_sz then remaining else meta_sz).
    assert (Hd : diff <= remaining /\ (remaining - diff <= meta_sz * lenN rest)).
    { rewrite lenN_cons in Hrem. unfold diff.
      destruct (remaining <? meta_sz) eqn:E1; [apply N.ltb_lt in E1|apply N.ltb_ge in E1]; lia. }
    eapply post_bind.
    { apply (mr_read_post uncompress uc_ok img o); [exact Hi1| |lia].
      apply fuel_ok_cap; [exact Hf|unfold fuel_bound; lia]. }
    intros [m2 chunk] (Hi2 & _ & _ & Hlen). simpl in Hi2, Hlen. cbv beta iota.
    eapply post_bind; [apply IH; [exact Hf|exact Hi2|lia|lia]|].
    intros tl Htl. cbv beta in Htl. simpl. rewrite lenN_app. lia.
Qed.

Lemma read_table_spec o fuel size loc lo up :
  fuel_ok o fuel ->
  post o (read_table uncompress img fuel size loc lo up) (fun d => lenN d = size).
Proof.
  intros Hf. unfold read_table.
  eapply post_bind; [apply malloc_chk_post|]. intros u Hlim. cbv beta.
  set (bc := size / meta_sz + (if size mod meta_sz =? 0 then 0 else 1)).
  assert (Hbc : size <= meta_sz * bc).
  { unfold bc. pose proof (N.div_mod size meta_sz). assert (meta_sz <> 0) by (unfold meta_sz; discriminate).
    pose proof (N.mod_lt size meta_sz H0).
    destruct (size mod meta_sz =? 0) eqn:E; [apply N.eqb_eq in E|apply N.eqb_neq in E]; specialize (H H0); lia. }
  eapply post_bind; [apply alloc_array_post|]. intros cap [Hcap _]. cbv beta.
  eapply post_bind; [apply put_check_post; lia|]. intros u2 _.
  eapply post_bind; [apply read_at_post|]. intros raw _. cbv beta.
  apply rt_loop_spec; auto.
  - apply mr_create_inv.
  - rewrite lenN_items. exact Hbc.
Qed.

Lemma id_table_read_spec o fuel s :
  fuel_ok o fuel -> post o (id_table_read uncompress img fuel s) (fun _ => True).
Proof.
  intros Hf. unfold id_table_read.
  destruct ((s_id_count s =? 0) || (s_bytes_used s <=? s_id_start s)); [exact I|].
  eapply post_bind; [apply read_table_spec; exact Hf|]. intros raw Hlen. cbv beta in *.
  eapply post_bind; [apply put_check_post; lia|]. intros u _. exact I.
Qed.

Lemma frag_table_read_spec o fuel s :
  fuel_ok o fuel -> post o (frag_table_read uncompress img fuel s) (fun _ => True).
Proof.
  intros Hf. unfold frag_table_read.
  repeat match goal with |- context [if ?c then _ else _] => destruct c end; try exact I;
    (unfold sz_mul_ov; destruct (s_frag_count s * sizeof_sqfs_fragment_t <? two64); [|exact I];
     eapply post_weaken; [apply read_table_spec; exact Hf|auto]).
Qed.

End P.

Lemma id_lookup_post o ids idx : post o (id_lookup ids idx) (fun _ => True).
Proof.
  unfold id_lookup. destruct (lenN ids <=? idx) eqn:E; [exact I|]. apply N.leb_gt in E.
  apply nth_chk_post. exact E.
Qed.

Lemma frag_lookup_post o tbl idx : post o (frag_lookup tbl idx) (fun _ => True).
Proof.
  unfold frag_lookup. destruct (lenN tbl / sizeof_sqfs_fragment_t <=? idx) eqn:E; [exact I|].
  apply N.leb_gt in E.
  eapply post_bind; [apply slice_post|intros; exact I].
  apply div_idx_bound; [unfold sizeof_sqfs_fragment_t; discriminate|exact E].
Qed.
