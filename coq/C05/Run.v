(* C05 — the queries the check runs against both the model and the library
   (props/C05/h_reader.c): each function returns the transcript the harness
   prints, one item per call. *)
From Coq Require Import List NArith ZArith Bool.
From SqfsV Require Import Gen.Constants Base.Bytes C05.RBase C05.GenC05 C05.Meta C05.Super C05.Inode C05.Dir
  C05.Data C05.Xattr.
Import ListNotations.
Local Open Scope N_scope.

Inductive item :=
| ISuper (r : res sup)
| IIdt (r : res (list N))
| IFrt (r : res unit)
| ITree (r : res tree)
| IStream (idx : N) (r : res (option (list (list N)))) (total : N)
| IBlock (idx blk : N) (r : res (list N))
| IFrag (idx : N) (r : res (list N))
| IRead (idx off size : N) (r : res (list N))
| IXal (r : res bool)                        (* xattr reader load; false = NO_XATTRS, no reader *)
| IXattr (idx : N) (r : option (res (list (list N * list N))))
| IMeta (r : res (list N))
| IComp (r : res unit).                      (* sqfs_compressor_create for the super block's compressor id *)

Definition res_crash {A} (r : res A) : bool := match r with Crash => true | _ => false end.
Definition res_oof {A} (r : res A) : bool := match r with OutOfFuel => true | _ => false end.

Definition item_crash (i : item) : bool :=
  match i with
  | ISuper r => res_crash r | IIdt r => res_crash r | IFrt r => res_crash r | ITree r => res_crash r
  | IStream _ r _ => res_crash r | IBlock _ _ r => res_crash r | IFrag _ r => res_crash r
  | IRead _ _ _ r => res_crash r | IXal r => res_crash r
  | IXattr _ (Some r) => res_crash r | IXattr _ None => false | IMeta r => res_crash r
  | IComp r => res_crash r
  end.
Definition item_oof (i : item) : bool :=
  match i with
  | ISuper r => res_oof r | IIdt r => res_oof r | IFrt r => res_oof r | ITree r => res_oof r
  | IStream _ r _ => res_oof r | IBlock _ _ r => res_oof r | IFrag _ r => res_oof r
  | IRead _ _ _ r => res_oof r | IXal r => res_oof r
  | IXattr _ (Some r) => res_oof r | IXattr _ None => false | IMeta r => res_oof r
  | IComp r => res_oof r
  end.

Definition max_stream : N := 8388608.
Definition max_gb : nat := 40.

Section WithCodec.
(* compressor id -> do_block in uncompress mode *)
Variable codec : N -> list N -> N -> res (list N).
Variable img : list N.
(* depth: C recursion bound; efuel: iterations of per-entry loops; fuel: meta block loop *)
Variables (depth efuel fuel : nat).

Definition gb_items (uc : list N -> N -> res (list N)) (d : dreader_data) (idx : N) (ino : inode) : list item :=
  map (fun k => let b := N.of_nat k in IBlock idx b (dr_get_block uc img d ino b))
      (seq 0 (Nat.min (S (nN (inode_block_count ino))) max_gb)).

(* the read queries of the harness, in its order *)
Definition read_queries (bs fsz : N) : list (N * N) :=
  [(0, 16); (0, bs + 7); (bs - 1, 2); (bs, bs); (bs + 1, 3 * bs)]
  ++ (if fsz =? 0 then [] else [(fsz - 1, 5)])
  ++ [(fsz / 2, bs / 2); (fsz, 1)].

Fixpoint rd_items (uc : list N -> N -> res (list N)) (d : dreader_data) (idx : N) (ino : inode)
                  (qs : list (N * N)) : list item :=
  match qs with
  | [] => []
  | (off, size) :: r =>
    match dr_read uc img d ino off size with
    | Ok (d', x) => IRead idx off size (Ok x) :: rd_items uc d' idx ino r
    | Err e => IRead idx off size (Err e) :: rd_items uc d idx ino r
    | Crash => IRead idx off size Crash :: rd_items uc d idx ino r
    | OutOfFuel => IRead idx off size OutOfFuel :: rd_items uc d idx ino r
    end
  end.

(* all data queries for one file, on a fresh data reader *)
Definition file_items (uc : list N -> N -> res (list N)) (s : sup) (frags : list N) (idx : N) (ino : inode)
  : list item :=
  let d0 := dd_create (s_block_size s) frags in
  let '(d1, st_item) :=
    match stream_create ino with
    | Ok st =>
      let '(d1, r, total) := stream_all uc true img efuel d0 st 0 max_stream [] in
      (d1, IStream idx r total)
    | Err e => (d0, IStream idx (Err e) 0)
    | Crash => (d0, IStream idx Crash 0)
    | OutOfFuel => (d0, IStream idx OutOfFuel 0)
    end in
  let '(d2, fr_item) :=
    match dr_get_fragment uc true img d1 ino with
    | Ok (d2, x) => (d2, IFrag idx (Ok x))
    | Err e => (d1, IFrag idx (Err e))
    | Crash => (d1, IFrag idx Crash)
    | OutOfFuel => (d1, IFrag idx OutOfFuel)
    end in
  let fsz := match inode_file_size ino with Ok z => z | _ => 0 end in
  st_item :: gb_items uc d1 idx ino ++ fr_item :: rd_items uc d2 idx ino (read_queries (s_block_size s) fsz).

Fixpoint files_items (uc : list N -> N -> res (list N)) (s : sup) (frags : list N) (idx : N)
                     (l : list (list N * inode)) : list item :=
  match l with
  | [] => []
  | (_, ino) :: r =>
    if is_file_type (b_type (i_base ino)) then
      file_items uc s frags idx ino ++ files_items uc s frags (idx + 1) r
    else files_items uc s frags idx r
  end.

(* h_reader <image> all *)
Definition run_all : list item :=
  match super_read img with
  | Ok s =>
    let uc := codec (s_comp s) in
    ISuper (Ok s) ::
    match id_table_read uc img fuel s with
    | Ok ids =>
      IIdt (Ok ids) ::
      match frag_table_read uc img fuel s with
      | Ok frags =>
        IFrt (Ok tt) ::
        match full_hierarchy uc img depth efuel fuel s ids (dreader_create s) with
        | Ok (_, t) => ITree (Ok t) :: files_items uc s frags 0 (flatten t)
        | Err e => [ITree (Err e)]
        | Crash => [ITree Crash]
        | OutOfFuel => [ITree OutOfFuel]
        end
      | Err e => [IFrt (Err e)]
      | Crash => [IFrt Crash]
      | OutOfFuel => [IFrt OutOfFuel]
      end
    | Err e => [IIdt (Err e)]
    | Crash => [IIdt Crash]
    | OutOfFuel => [IIdt OutOfFuel]
    end
  | Err e => [ISuper (Err e)]
  | Crash => [ISuper Crash]
  | OutOfFuel => [ISuper OutOfFuel]
  end.

(* xattrs of every node, one reader threaded through (h_reader <image> xattr) *)
Fixpoint xattr_items (uc : list N -> N -> res (list N)) (x : xreader) (idx : N) (l : list (list N * inode))
  : list item :=
  match l with
  | [] => []
  | (_, ino) :: r =>
    match xattr_read_all uc true img efuel fuel x (inode_xattr_index ino) with
    | Ok (x', kvs) => IXattr idx (Some (Ok kvs)) :: xattr_items uc x' (idx + 1) r
    | Err e => IXattr idx (Some (Err e)) :: xattr_items uc x (idx + 1) r
    | Crash => IXattr idx (Some Crash) :: xattr_items uc x (idx + 1) r
    | OutOfFuel => IXattr idx (Some OutOfFuel) :: xattr_items uc x (idx + 1) r
    end
  end.

Definition run_xattr : list item :=
  match super_read img with
  | Ok s =>
    let uc := codec (s_comp s) in
    let have := N.land (s_flags s) c_SQFS_FLAG_NO_XATTRS =? 0 in
    ISuper (Ok s) ::
    match (if have then xattr_load img s else Ok xr_empty) with
    | Ok x =>
      IXal (Ok have) ::
      match id_table_read uc img fuel s with
      | Ok ids =>
        IIdt (Ok ids) ::
        match full_hierarchy uc img depth efuel fuel s ids (dreader_create s) with
        | Ok (_, t) =>
          ITree (Ok t) ::
          (if have then xattr_items uc x 0 (flatten t)
           else map (fun k => IXattr (N.of_nat k) None) (seq 0 (length (flatten t))))
        | Err e => [ITree (Err e)]
        | Crash => [ITree Crash]
        | OutOfFuel => [ITree OutOfFuel]
        end
      | Err e => [IIdt (Err e)]
      | Crash => [IIdt Crash]
      | OutOfFuel => [IIdt OutOfFuel]
      end
    | Err e => [IXal (Err e)]
    | Crash => [IXal Crash]
    | OutOfFuel => [IXal OutOfFuel]
    end
  | Err e => [ISuper (Err e)]
  | Crash => [ISuper Crash]
  | OutOfFuel => [ISuper OutOfFuel]
  end.

(* raw meta reader over the whole file (h_reader <image> meta ops...) *)
Definition run_meta (ops : list mop) : list item :=
  match super_read img with
  | Ok s =>
    ISuper (Ok s) ::
    map IMeta (mr_ops (codec (s_comp s)) true img fuel (mr_create 0 (lenN img)) ops)
  | Err e => [ISuper (Err e)]
  | Crash => [ISuper Crash]
  | OutOfFuel => [ISuper OutOfFuel]
  end.

End WithCodec.

(* the queries of the property *)
Inductive query := QAll | QXattr | QMeta (ops : list mop).
Definition run_reader (codec : N -> list N -> N -> res (list N)) (depth efuel fuel : nat)
                      (img : list N) (q : query) : list item :=
  match q with
  | QAll => run_all codec img depth efuel fuel
  | QXattr => run_xattr codec img depth efuel fuel
  | QMeta ops => run_meta codec img fuel ops
  end.

(* Every tool and the harness create the compressor named by the super block right after reading it
   (sqfs_compressor_create); a back end that is not compiled into the library (config.h WITH_*, e.g. LZO)
   answers SQFS_ERROR_UNSUPPORTED and nothing else is read.  [avail] = the back ends of the build. *)
Definition gate_comp (avail : N -> bool) (items : list item) : list item :=
  match items with
  | ISuper (Ok s) :: _ => if avail (s_comp s) then items else [ISuper (Ok s); IComp (Err E_UNSUPPORTED)]
  | _ => items
  end.

Definition run_reader_build (avail : N -> bool) (codec : N -> list N -> N -> res (list N)) (depth efuel fuel : nat)
                            (img : list N) (q : query) : list item :=
  gate_comp avail (run_reader codec depth efuel fuel img q).
