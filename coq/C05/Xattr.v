(* C05 — model of lib/sqfs/src/xattr/xattr_reader.c: load, get_desc, seek_kv,
   read (key + value, out-of-line values) and read_all.
   [fixed = true] follows fixes/F22 (seek_kv on a reader without a loaded table);
   [fixed = false] is the code as found (NULL dereference), kept for [_refuted]. *)
From Coq Require Import List NArith ZArith Bool.
From SqfsV Require Import Gen.Constants Base.Bytes C05.RBase C05.GenC05 C05.Meta C05.Super.
Import ListNotations.
Local Open Scope N_scope.

Record xreader := MkXr {
  x_start : N; x_end : N; x_num_ids : N;
  x_blocks : list N;              (* id_block_starts[] *)
  x_idrd : option mr; x_kvrd : option mr
}.

Definition xr_empty : xreader := MkXr 0 0 0 [] None None.

Definition xattr_prefix (t : N) : option (list N) :=
  if t =? c5_SQFS_XATTR_USER then Some [117;115;101;114;46]
  else if t =? c5_SQFS_XATTR_TRUSTED then Some [116;114;117;115;116;101;100;46]
  else if t =? c5_SQFS_XATTR_SECURITY then Some [115;101;99;117;114;105;116;121;46]
  else None.

Fixpoint all_le (l : list N) (b : N) : bool :=
  match l with [] => true | x :: r => (x <=? b) && all_le r b end.

Section WithCodec.
Variable uncompress : list N -> N -> res (list N).
Variable fixed : bool.
Variable img : list N.
Let seek := mr_seek uncompress true img.
Let read := mr_read uncompress true img.

Definition idsz := sizeof_sqfs_xattr_id_t.

(* sqfs_xattr_reader_load on a fresh reader *)
Definition xattr_load (s : sup) : res xreader :=
  if negb (N.land (s_flags s) c_SQFS_FLAG_NO_XATTRS =? 0) then Ok xr_empty
  else if s_xattr_start s =? max64 then Ok xr_empty
  else if s_bytes_used s <=? s_xattr_start s then Err E_OOB
  else
    do raw <- read_at img (s_xattr_start s) sizeof_sqfs_xattr_id_table_t;
    let start := fld 8 o_sqfs_xattr_id_table_t_xattr_table_start raw in
    let num := fld 4 o_sqfs_xattr_id_table_t_xattr_ids raw in
    let nblk := (num * idsz) / meta_sz + (if (num * idsz) mod meta_sz =? 0 then 0 else 1) in
    do cap <- alloc_array E_OVERFLOW 8 nblk;
    do _ <- put_check cap 0 (8 * nblk);
    do locs <- read_at img (u64 (s_xattr_start s + sizeof_sqfs_xattr_id_table_t)) (8 * nblk);
    let starts := items 8 (nN nblk) locs in
    if negb (all_le starts (s_bytes_used s)) then Err E_OOB
    else
      let m := mr_create (s_id_start s) (s_bytes_used s) in
      Ok (MkXr start (s_bytes_used s) num starts (Some m) (Some m)).

(* sqfs_xattr_reader_get_desc -> (xattr ref, count, size) *)
Definition xattr_get_desc (fuel : nat) (x : xreader) (idx : N) : res (xreader * (N * N * N)) :=
  if idx =? max32 then Ok (x, (0, 0, 0))
  else
    match x_kvrd x, x_idrd x with
    | Some _, Some idrd =>
      if x_num_ids x <=? idx then Err E_OOB
      else
        let offset := (idx * idsz) mod meta_sz in
        let block := (idx * idsz) / meta_sz in
        do b <- nth_chk (x_blocks x) block;
        do m1 <- seek idrd b offset;
        do (m2, d) <- read fuel m1 idsz idsz;
        Ok (MkXr (x_start x) (x_end x) (x_num_ids x) (x_blocks x) (Some m2) (x_kvrd x),
            (fld 8 o_sqfs_xattr_id_t_xattr d, fld 4 o_sqfs_xattr_id_t_count d, fld 4 o_sqfs_xattr_id_t_size d))
    | _, _ => if idx =? 0 then Ok (x, (0, 0, 0)) else Err E_OOB
    end.

Definition with_kv (x : xreader) (m : mr) : xreader :=
  MkXr (x_start x) (x_end x) (x_num_ids x) (x_blocks x) (x_idrd x) (Some m).

(* sqfs_xattr_reader_seek_kv *)
Definition xattr_seek_kv (x : xreader) (ref count : N) : res xreader :=
  match x_kvrd x with
  | None =>
    if fixed then (if count =? 0 then Ok x else Err E_OOB)
    else Crash                                   (* sqfs_meta_reader_seek(NULL, ...) *)
  | Some kv =>
    do m <- seek kv (u64 (x_start x + ref / 65536)) (ref mod 65536);
    Ok (with_kv x m)
  end.

(* sqfs_xattr_reader_read: one key/value pair *)
Definition xattr_read (fuel : nat) (x : xreader) : res (xreader * (list N * list N)) :=
  match x_kvrd x with
  | None => Crash
  | Some kv =>
    do (m1, kh) <- read fuel kv sizeof_sqfs_xattr_entry_t sizeof_sqfs_xattr_entry_t;
    let ktype := fld 2 o_sqfs_xattr_entry_t_type kh in
    let ksize := fld 2 o_sqfs_xattr_entry_t_size kh in
    match xattr_prefix (N.land ktype c5_SQFS_XATTR_PREFIX_MASK) with
    | None => Err E_UNSUPPORTED
    | Some pfx =>
      let plen := lenN pfx in
      (* total = sizeof( *kv) + plen + 1 + key.size; room behind data[] *)
      let room1 := plen + 1 + ksize in
      do _ <- put_check room1 0 plen;
      do (m2, key) <- read fuel m1 (room1 - plen) ksize;
      (* read_value_hdr *)
      do (m3, vh) <- read fuel m2 sizeof_sqfs_xattr_value_t sizeof_sqfs_xattr_value_t;
      let ool := negb (N.land ktype c5_SQFS_XATTR_FLAG_OOL =? 0) in
      do (m4, vh', back) <-
        (if ool then
           do (m', r) <- read fuel m3 8 8;
           let ref := rdk 8 r in
           let new_start := u64 (x_start x + ref / 65536) in
           let new_off := ref mod 65536 in
           if (x_end x <=? new_start) || (meta_sz <=? new_off) then Err E_OOB
           else
             let pos := mr_position m' in
             do m'' <- seek m' new_start new_off;
             do (m''', v) <- read fuel m'' sizeof_sqfs_xattr_value_t sizeof_sqfs_xattr_value_t;
             Ok (m''', v, Some pos)
         else Ok (m3, vh, None));
      let vsize := rdk 4 vh' in
      match sz_add_ov (c5_sizeof_sqfs_xattr_t + room1) vsize with
      | None => Err E_OVERFLOW
      | Some t1 =>
        match sz_add_ov t1 1 with
        | None => Err E_OVERFLOW
        | Some total =>
          do _ <- malloc_chk total;
          let room2 := total - c5_sizeof_sqfs_xattr_t in
          do _ <- put_check room2 (plen + ksize + 1) vsize;
          do (m5, value) <- read fuel m4 (room2 - (plen + ksize + 1)) vsize;
          do m6 <- (match back with
                    | Some (b, o) => seek m5 b o
                    | None => Ok m5
                    end);
          (* kv->data[plen + key.size + 1 + value.size] = 0 *)
          do _ <- put_check room2 (plen + ksize + 1 + vsize) 1;
          Ok (with_kv x m6, (pfx ++ key, value))
        end
      end
    end
  end.

(* for (i = 0; i < desc.count; ++i): [k] bounds the iterations (count is a 32 bit field) *)
Fixpoint xattr_read_n (k : nat) (count : N) (fuel : nat) (x : xreader)
  : res (xreader * list (list N * list N)) :=
  if count =? 0 then Ok (x, [])
  else
    match k with
    | O => OutOfFuel
    | S k' =>
      do (x1, kv) <- xattr_read fuel x;
      do (x2, rest) <- xattr_read_n k' (count - 1) fuel x1;
      Ok (x2, kv :: rest)
    end.

(* sqfs_xattr_reader_read_all *)
Definition xattr_read_all (efuel fuel : nat) (x : xreader) (idx : N) : res (xreader * list (list N * list N)) :=
  if idx =? max32 then Ok (x, [])
  else
    do (x1, (ref, count, _)) <- xattr_get_desc fuel x idx;
    do x2 <- xattr_seek_kv x1 ref count;
    xattr_read_n efuel count fuel x2.

End WithCodec.
