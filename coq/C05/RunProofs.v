(* C05 — every query of the check's protocol, on every image: no item of the transcript
   is a crash, and with the stated fuel none runs out of fuel. *)
From Coq Require Import List NArith ZArith Bool Lia.
From SqfsV Require Import Gen.Constants Base.Bytes C05.RBase C05.GenC05 C05.Meta C05.Super C05.Inode C05.Dir
  C05.Data C05.Xattr C05.Run C05.BaseProofs C05.MetaProofs C05.SuperProofs C05.InodeProofs C05.DirProofs
  C05.DataProofs C05.XattrProofs.
Import ListNotations.
Local Open Scope N_scope.

Definition res_ok {A} (o : Prop) (r : res A) : Prop := post o r (fun _ => True).

Definition item_ok (o : Prop) (i : item) : Prop :=
  match i with
  | ISuper r => res_ok o r | IIdt r => res_ok o r | IFrt r => res_ok o r | ITree r => res_ok o r
  | IStream _ r _ => res_ok o r | IBlock _ _ r => res_ok o r | IFrag _ r => res_ok o r
  | IRead _ _ _ r => res_ok o r | IXal r => res_ok o r
  | IXattr _ (Some r) => res_ok o r | IXattr _ None => True | IMeta r => res_ok o r
  | IComp r => res_ok o r
  end.

Lemma res_ok_weaken {A} o (r : res A) Q : post o r Q -> res_ok o r.
Proof. intros H. eapply post_weaken; [exact H|auto]. Qed.

Lemma item_ok_crash o i : item_ok o i -> item_crash i = false.
Proof.
  destruct i as [r|r|r|r|? r ?|? ? r|? r|? ? ? r|r|? [r|]|r|r]; simpl; try reflexivity;
    destruct r; simpl; try reflexivity; contradiction.
Qed.
Lemma item_ok_oof i : item_ok False i -> item_oof i = false.
Proof.
  destruct i as [r|r|r|r|? r ?|? ? r|? r|? ? ? r|r|? [r|]|r|r]; simpl; try reflexivity;
    destruct r; simpl; try reflexivity; contradiction.
Qed.

Definition codecs_ok (codec : N -> list N -> N -> res (list N)) : Prop := forall id, codec_ok (codec id).

(* fuel the theorems ask for: [fuel_bound] for the block loop of one read;
   2^32 + 1 rounds for loops counted by a 32 bit field (directory size, xattr count) and
   for the 8 MiB the stream query reads; 2^32 + 3 levels of recursion *)
Definition efuel_bound : N := two32 + 1.
Definition depth_bound : N := two32 + 3.
Definition fuels_ok (o : Prop) (depth efuel fuel : nat) : Prop :=
  o \/ ((N.to_nat depth_bound <= depth)%nat /\ (N.to_nat efuel_bound <= efuel)%nat
        /\ (N.to_nat fuel_bound <= fuel)%nat).

Lemma fuels_fuel o d e f : fuels_ok o d e f -> fuel_ok o f.
Proof. intros [H|(A & B & C)]; [left; exact H|right; exact C]. Qed.
Lemma fuels_efuel o d e f : fuels_ok o d e f -> efuel_ok o e.
Proof. intros [H|(A & B & C)]; [left; exact H|right; exact B]. Qed.
Lemma fuels_depth o d e f : fuels_ok o d e f -> o \/ two32 + 3 <= N.of_nat d.
Proof. intros [H|(A & B & C)]; [left; exact H|right]. unfold depth_bound in A. lia. Qed.

Section P.
Variable codec : N -> list N -> N -> res (list N).
Hypothesis codec_good : codecs_ok codec.
Variable img : list N.
Variables (depth efuel fuel : nat).
Variable o : Prop.
Hypothesis Hfuels : fuels_ok o depth efuel fuel.

Let Hf := fuels_fuel _ _ _ _ Hfuels.
Let He := fuels_efuel _ _ _ _ Hfuels.

Lemma gb_items_ok uc d idx ino :
  codec_ok uc -> dd_inv d -> i_used ino <= 4 * lenN (i_words ino) ->
  Forall (item_ok o) (gb_items img uc d idx ino).
Proof.
  intros Hc Hd Hw. unfold gb_items. apply Forall_forall. intros x Hx.
  apply in_map_iff in Hx. destruct Hx as (k & <- & _). simpl.
  apply (dr_get_block_spec uc Hc img o); assumption.
Qed.

Lemma rd_items_ok uc idx ino : forall qs d,
  codec_ok uc -> dd_inv d -> i_used ino <= 4 * lenN (i_words ino) ->
  Forall (item_ok o) (rd_items img uc d idx ino qs).
Proof.
  induction qs as [|[off size] r IH]; intros d Hc Hd Hw; cbn [rd_items]; [constructor|].
  pose proof (dr_read_spec uc Hc img o d ino off size Hd Hw) as H.
  destruct (dr_read uc img d ino off size) as [[d' x]|e| |]; simpl in H.
  - constructor; [exact I|apply IH; assumption].
  - constructor; [exact I|apply IH; assumption].
  - contradiction.
  - constructor; [exact H|apply IH; assumption].
Qed.

Lemma file_items_ok uc s frags idx ino :
  codec_ok uc -> 1 <= s_block_size s -> s_block_size s < two32 ->
  i_used ino <= 4 * lenN (i_words ino) ->
  Forall (item_ok o) (file_items img efuel uc s frags idx ino).
Proof.
  intros Hc Hb1 Hb2 Hw. unfold file_items.
  pose proof (dd_create_inv (s_block_size s) frags Hb1 Hb2) as Hd0.
  set (d0 := dd_create (s_block_size s) frags) in *.
  (* stream *)
  assert (Hst : exists d1 it, (match stream_create ino with
      | Ok st => let '(d1, r, total) := stream_all uc true img efuel d0 st 0 max_stream [] in (d1, IStream idx r total)
      | Err e => (d0, IStream idx (Err e) 0)
      | Crash => (d0, IStream idx Crash 0)
      | OutOfFuel => (d0, IStream idx OutOfFuel 0) end) = (d1, it) /\ dd_inv d1 /\ item_ok o it).
  { pose proof (stream_create_post o ino Hw) as Hsc.
    destruct (stream_create ino) as [st|e| |]; simpl in Hsc.
    - pose proof (stream_all_spec uc Hc img o max_stream efuel d0 st 0 [] Hd0) as Hsa.
      destruct Hsa as [A B]; [unfold max_stream; lia| |].
      { destruct He as [X|X]; [left; exact X|right]. unfold max_stream, two32 in *. lia. }
      destruct (stream_all uc true img efuel d0 st 0 max_stream []) as [[d1 r] total].
      simpl in A, B. exists d1, (IStream idx r total). auto.
    - exists d0, (IStream idx (Err e) 0). simpl. auto.
    - contradiction.
    - exists d0, (IStream idx OutOfFuel 0). simpl. auto. }
  destruct Hst as (d1 & it1 & -> & Hd1 & Hit1).
  pose proof (dr_get_fragment_spec uc Hc img o d1 ino Hd1) as Hgf.
  assert (Hfr : exists d2 it, (match dr_get_fragment uc true img d1 ino with
      | Ok (d2, x) => (d2, IFrag idx (Ok x))
      | Err e => (d1, IFrag idx (Err e))
      | Crash => (d1, IFrag idx Crash)
      | OutOfFuel => (d1, IFrag idx OutOfFuel) end) = (d2, it) /\ dd_inv d2 /\ item_ok o it).
  { destruct (dr_get_fragment uc true img d1 ino) as [[d2 x]|e| |]; simpl in Hgf.
    - exists d2, (IFrag idx (Ok x)). simpl. auto.
    - exists d1, (IFrag idx (Err e)). simpl. auto.
    - contradiction.
    - exists d1, (IFrag idx OutOfFuel). simpl. auto. }
  destruct Hfr as (d2 & it2 & -> & Hd2 & Hit2).
  constructor; [exact Hit1|]. apply Forall_app. split; [apply gb_items_ok; assumption|].
  constructor; [exact Hit2|]. apply rd_items_ok; assumption.
Qed.

Lemma files_items_ok uc s frags : forall l idx,
  codec_ok uc -> 1 <= s_block_size s -> s_block_size s < two32 -> nodes_wf l ->
  Forall (item_ok o) (files_items img efuel uc s frags idx l).
Proof.
  induction l as [|[nm ino] r IH]; intros idx Hc Hb1 Hb2 Hwf; cbn [files_items]; [constructor|].
  inversion Hwf as [|x l' Hw Hr]; subst. simpl in Hw.
  destruct (is_file_type (b_type (i_base ino))) eqn:E.
  - apply Forall_app. split; [apply file_items_ok; auto; apply Hw; exact E|apply IH; assumption].
  - apply IH; assumption.
Qed.

Lemma dreader_create_inv s : dr_inv (dreader_create s).
Proof. unfold dr_inv, dreader_create; simpl. split; apply mr_create_inv. Qed.

Theorem run_all_ok : Forall (item_ok o) (run_all codec img depth efuel fuel).
Proof.
  unfold run_all.
  pose proof (super_read_facts o img) as Hs.
  destruct (super_read img) as [s|e| |]; simpl in Hs; try contradiction;
    try (constructor; [exact I || exact Hs|constructor]; fail).
  destruct Hs as ([Hb1 Hb2] & _ & _).
  assert (Hbs1 : 1 <= s_block_size s) by (unfold c_SQFS_MIN_BLOCK_SIZE in Hb1; lia).
  assert (Hbs2 : s_block_size s < two32) by (unfold c_SQFS_MAX_BLOCK_SIZE, two32 in *; lia).
  assert (Hbs0 : s_block_size s <> 0) by lia.
  set (uc := codec (s_comp s)). assert (Hc : codec_ok uc) by apply codec_good.
  constructor; [exact I|].
  pose proof (id_table_read_spec uc Hc img o fuel s Hf) as Hi.
  destruct (id_table_read uc img fuel s) as [ids|e| |]; simpl in Hi; try contradiction;
    try (constructor; [exact I || exact Hi|constructor]; fail).
  constructor; [exact I|].
  pose proof (frag_table_read_spec uc Hc img o fuel s Hf) as Hfr.
  destruct (frag_table_read uc img fuel s) as [frags|e| |]; simpl in Hfr; try contradiction;
    try (constructor; [exact I || exact Hfr|constructor]; fail).
  constructor; [exact I|].
  pose proof (full_hierarchy_spec uc Hc img o depth efuel fuel s ids (dreader_create s) Hf He
                (dreader_create_inv s) Hbs0 (fuels_depth _ _ _ _ Hfuels)) as Ht.
  destruct (full_hierarchy uc img depth efuel fuel s ids (dreader_create s)) as [[dr t]|e| |]; simpl in Ht; try contradiction;
    try (constructor; [exact I || exact Ht|constructor]; fail).
  constructor; [exact I|]. apply files_items_ok; auto. apply Ht.
Qed.

Lemma xattr_items_ok uc : forall l x idx,
  codec_ok uc -> xr_inv x -> Forall (item_ok o) (xattr_items img efuel fuel uc x idx l).
Proof.
  induction l as [|[nm ino] r IH]; intros x idx Hc Hx; cbn [xattr_items]; [constructor|].
  assert (Hex : o \/ two32 <= N.of_nat efuel).
  { destruct He as [X|X]; [left; exact X|right]. unfold two32 in *. lia. }
  pose proof (xattr_read_all_spec uc Hc img o efuel fuel x (inode_xattr_index ino) Hf Hex Hx) as H.
  destruct (xattr_read_all uc true img efuel fuel x (inode_xattr_index ino)) as [[x' kvs]|e| |]; simpl in H.
  - constructor; [exact I|apply IH; assumption].
  - constructor; [exact I|apply IH; assumption].
  - contradiction.
  - constructor; [exact H|apply IH; assumption].
Qed.

Theorem run_xattr_ok : Forall (item_ok o) (run_xattr codec img depth efuel fuel).
Proof.
  unfold run_xattr.
  pose proof (super_read_facts o img) as Hs.
  destruct (super_read img) as [s|e| |]; simpl in Hs; try contradiction;
    try (constructor; [exact I || exact Hs|constructor]; fail).
  destruct Hs as ([Hb1 Hb2] & _ & _).
  assert (Hbs0 : s_block_size s <> 0) by (unfold c_SQFS_MIN_BLOCK_SIZE in Hb1; lia).
  set (uc := codec (s_comp s)). assert (Hc : codec_ok uc) by apply codec_good.
  constructor; [exact I|].
  set (have := N.land (s_flags s) c_SQFS_FLAG_NO_XATTRS =? 0).
  assert (Hx : post o (if have then xattr_load img s else Ok xr_empty) xr_inv).
  { destruct have; [apply xattr_load_spec|apply xr_empty_inv]. }
  destruct (if have then xattr_load img s else Ok xr_empty) as [x|e| |]; simpl in Hx; try contradiction;
    try (constructor; [exact I || exact Hx|constructor]; fail).
  constructor; [exact I|].
  pose proof (id_table_read_spec uc Hc img o fuel s Hf) as Hi.
  destruct (id_table_read uc img fuel s) as [ids|e| |]; simpl in Hi; try contradiction;
    try (constructor; [exact I || exact Hi|constructor]; fail).
  constructor; [exact I|].
  pose proof (full_hierarchy_spec uc Hc img o depth efuel fuel s ids (dreader_create s) Hf He
                (dreader_create_inv s) Hbs0 (fuels_depth _ _ _ _ Hfuels)) as Ht.
  destruct (full_hierarchy uc img depth efuel fuel s ids (dreader_create s)) as [[dr t]|e| |]; simpl in Ht; try contradiction;
    try (constructor; [exact I || exact Ht|constructor]; fail).
  constructor; [exact I|].
  destruct have.
  - apply xattr_items_ok; assumption.
  - apply Forall_forall. intros i Hi2. apply in_map_iff in Hi2. destruct Hi2 as (k & <- & _). exact I.
Qed.

End P.

(* the raw meta reader sequences only need the block-loop fuel of their largest read *)
Theorem run_meta_ok codec img fuel o ops :
  codecs_ok codec ->
  (o \/ forall n, In (MRead n) ops -> (N.to_nat n <= fuel)%nat) ->
  Forall (item_ok o) (run_meta codec img fuel ops).
Proof.
  intros Hc Hf. unfold run_meta.
  destruct (super_read img) as [s|e| |] eqn:Es.
  - constructor; [exact I|]. apply Forall_forall. intros i Hi. apply in_map_iff in Hi.
    destruct Hi as (r & <- & Hr). simpl.
    pose proof (mr_ops_safe (codec (s_comp s)) (Hc _) img o fuel ops (mr_create 0 (lenN img))
                  (mr_create_inv _ _) Hf) as H.
    rewrite Forall_forall in H. apply H. exact Hr.
  - constructor; [exact I|constructor].
  - pose proof (super_read_facts o img) as H. rewrite Es in H. contradiction.
  - pose proof (super_read_facts False img) as H. rewrite Es in H. contradiction.
Qed.
