(* C05 — xattr reader: the id block index stays inside id_block_starts[], every key /
   value store is inside its allocation, and (repaired seek_kv) a reader without a
   loaded table is never dereferenced. *)
From Coq Require Import List NArith ZArith Bool Lia.
From SqfsV Require Import Gen.Constants Base.Bytes C05.RBase C05.GenC05 C05.Meta C05.Super C05.Xattr
  C05.BaseProofs C05.MetaProofs C05.SuperProofs.
Import ListNotations.
Local Open Scope N_scope.

Definition opt_inv (m : option mr) : Prop := forall x, m = Some x -> mr_inv x.

Definition xr_inv (x : xreader) : Prop :=
  opt_inv (x_idrd x) /\ opt_inv (x_kvrd x) /\ x_num_ids x * idsz <= meta_sz * lenN (x_blocks x).

Lemma xr_empty_inv : xr_inv xr_empty.
Proof. unfold xr_inv, xr_empty, opt_inv; simpl. repeat split; try (intros; discriminate). Qed.

Section P.
Variable uncompress : list N -> N -> res (list N).
Hypothesis uc_ok : codec_ok uncompress.
Variable img : list N.

Ltac usz := unfold idsz, fuel_bound, alloc_limit, c5_sizeof_sqfs_xattr_t, sizeof_sqfs_xattr_entry_t,
  sizeof_sqfs_xattr_value_t, sizeof_sqfs_xattr_id_t, sizeof_sqfs_xattr_id_table_t, two64, two32 in *.
Ltac const_le := first [lia | (usz; lia)].
Ltac rd_step Hf :=
  eapply post_bind;
  [ apply (mr_read_post uncompress uc_ok img);
    [ assumption
    | apply fuel_ok_cap; [exact Hf | try const_le]
    | try const_le ]
  | ].

Lemma xattr_load_spec o s : post o (xattr_load img s) xr_inv.
Proof.
  unfold xattr_load.
  destruct (negb _); [apply xr_empty_inv|].
  destruct (s_xattr_start s =? max64); [apply xr_empty_inv|].
  destruct (s_bytes_used s <=? s_xattr_start s); [exact I|].
  eapply post_bind; [apply read_at_post|]. intros raw _. cbv beta zeta.
  set (num := fld 4 o_sqfs_xattr_id_table_t_xattr_ids raw).
  set (nblk := num * idsz / meta_sz + _).
  assert (Hn : num * idsz <= meta_sz * nblk).
  { unfold nblk. assert (Hm : meta_sz <> 0) by (unfold meta_sz; discriminate).
    pose proof (N.div_mod (num * idsz) meta_sz Hm). pose proof (N.mod_lt (num * idsz) meta_sz Hm).
    destruct (num * idsz mod meta_sz =? 0) eqn:E; [apply N.eqb_eq in E|]; lia. }
  eapply post_bind; [apply alloc_array_post|]. intros cap [Hcap _].
  eapply post_bind; [apply put_check_post; lia|]. intros u _.
  eapply post_bind; [apply read_at_post|]. intros locs _. cbv beta zeta.
  destruct (negb _); [exact I|]. apply post_ok.
  unfold xr_inv, opt_inv. cbn [x_idrd x_kvrd x_num_ids x_blocks]. rewrite lenN_items.
  split; [|split]; [intros y E; inversion E; subst; apply mr_create_inv
                   |intros y E; inversion E; subst; apply mr_create_inv|exact Hn].
Qed.

Lemma xattr_get_desc_spec o fuel x idx :
  fuel_ok o fuel -> xr_inv x ->
  post o (xattr_get_desc uncompress img fuel x idx)
       (fun p => xr_inv (fst p) /\ snd (fst (snd p)) < two32).
Proof.
  intros Hf Hinv. pose proof Hinv as (Hi & Hk & Hn). unfold xattr_get_desc.
  destruct (idx =? max32); [simpl; split; [exact Hinv|reflexivity]|].
  destruct (x_kvrd x) as [kv|] eqn:Ek.
  2:{ destruct (idx =? 0); [simpl; split; [exact Hinv|reflexivity]|exact I]. }
  destruct (x_idrd x) as [idrd|] eqn:Ei.
  2:{ destruct (idx =? 0); [simpl; split; [exact Hinv|reflexivity]|exact I]. }
  destruct (x_num_ids x <=? idx) eqn:E; [exact I|]. apply N.leb_gt in E. cbv zeta.
  eapply post_bind.
  { apply nth_chk_post. apply N.div_lt_upper_bound; [unfold meta_sz; discriminate|].
    assert (idx * idsz < x_num_ids x * idsz) by (apply N.mul_lt_mono_pos_r; [unfold idsz, sizeof_sqfs_xattr_id_t; lia|exact E]).
    lia. }
  intros b _.
  eapply post_bind; [apply (mr_seek_post uncompress uc_ok img o); apply Hi; reflexivity|].
  intros m1 (Hm1 & _ & _). cbv beta.
  rd_step Hf. intros [m2 d] (Hm2 & _ & _ & _). simpl in Hm2. simpl.
  split; [|apply fld4_lt].
  unfold xr_inv. cbn [x_idrd x_kvrd x_num_ids x_blocks]. split; [|split; [exact Hk|exact Hn]].
  intros y E2. inversion E2; subst. exact Hm2.
Qed.

Lemma with_kv_inv x m : xr_inv x -> mr_inv m -> xr_inv (with_kv x m).
Proof.
  intros (A & B & C) Hm. unfold xr_inv, with_kv. cbn [x_idrd x_kvrd x_num_ids x_blocks].
  split; [exact A|]. split; [|exact C]. intros y E. inversion E; subst. exact Hm.
Qed.

(* repaired seek_kv: no NULL dereference *)
Lemma xattr_seek_kv_spec o x ref count :
  xr_inv x ->
  post o (xattr_seek_kv uncompress true img x ref count)
       (fun x' => xr_inv x' /\ (count <> 0 -> x_kvrd x' <> None)).
Proof.
  intros Hinv. pose proof Hinv as (Hi & Hk & Hn). unfold xattr_seek_kv.
  destruct (x_kvrd x) as [kv|] eqn:Ek.
  - eapply post_bind; [apply (mr_seek_post uncompress uc_ok img o); apply Hk; reflexivity|].
    intros m (Hm & _ & _). simpl. split; [apply with_kv_inv; assumption|]. intros _. discriminate.
  - destruct (count =? 0) eqn:E; [|exact I]. apply N.eqb_eq in E. simpl. split; [exact Hinv|]. intros; contradiction.
Qed.

Lemma xattr_read_spec o fuel x :
  fuel_ok o fuel -> xr_inv x -> x_kvrd x <> None ->
  post o (xattr_read uncompress img fuel x) (fun p => xr_inv (fst p) /\ x_kvrd (fst p) <> None).
Proof.
  intros Hf Hinv Hkv. pose proof Hinv as (Hi & Hk & Hn). unfold xattr_read.
  destruct (x_kvrd x) as [kv|] eqn:Ek; [|congruence]. cbv zeta.
  assert (Hkvi : mr_inv kv) by (apply Hk; reflexivity).
  rd_step Hf. intros [m1 kh] (Hm1 & _ & _ & _). simpl in Hm1. cbv beta iota.
  set (ktype := fld 2 o_sqfs_xattr_entry_t_type kh).
  set (ksize := fld 2 o_sqfs_xattr_entry_t_size kh).
  assert (Hks : ksize < 65536) by apply fld2_lt.
  destruct (xattr_prefix _) as [pfx|]; [|exact I].
  set (plen := lenN pfx).
  eapply post_bind; [apply put_check_post; lia|]. intros u _.
  rd_step Hf. intros [m2 key] (Hm2 & _ & _ & _). simpl in Hm2. cbv beta iota.
  rd_step Hf. intros [m3 vh] (Hm3 & _ & _ & _). simpl in Hm3. cbv beta iota.
  eapply post_bind.
  { instantiate (1 := fun p => mr_inv (fst (fst p)) /\
                               (forall b o', snd p = Some (b, o') -> True)).
    destruct (negb _).
    - rd_step Hf. intros [m' r] (Hm' & _ & _ & _). simpl in Hm'. cbv beta iota zeta.
      destruct (_ || _); [exact I|].
      eapply post_bind; [apply (mr_seek_post uncompress uc_ok img o); exact Hm'|].
      intros m'' (Hm'' & _ & _). cbv beta.
      rd_step Hf. intros [m''' v] (Hm''' & _ & _ & _). simpl in Hm'''. simpl. split; auto.
    - simpl. split; auto. }
  intros [[m4 vh'] back] [Hm4 _]. simpl in Hm4. cbv beta iota zeta.
  set (vsize := rdk 4 vh').
  unfold sz_add_ov.
  destruct (c5_sizeof_sqfs_xattr_t + (plen + 1 + ksize) + vsize <? two64); [|exact I].
  destruct (c5_sizeof_sqfs_xattr_t + (plen + 1 + ksize) + vsize + 1 <? two64); [|exact I].
  eapply post_bind; [apply malloc_chk_post|]. intros u2 Hlim. cbv beta in Hlim.
  eapply post_bind; [apply put_check_post; lia|]. intros u3 _.
  rd_step Hf. intros [m5 value] (Hm5 & _ & _ & _). simpl in Hm5. cbv beta iota.
  eapply post_bind.
  { instantiate (1 := mr_inv).
    destruct back as [[b o']|]; [|simpl; exact Hm5].
    eapply post_weaken; [apply (mr_seek_post uncompress uc_ok img o); exact Hm5|]. intros m6 (A & _). exact A. }
  intros m6 Hm6.
  eapply post_bind; [apply put_check_post; lia|]. intros u4 _. simpl.
  split; [apply with_kv_inv; assumption|discriminate].
Qed.

Lemma xattr_read_n_spec o fuel : forall k count x,
  fuel_ok o fuel -> xr_inv x -> (count <> 0 -> x_kvrd x <> None) -> (o \/ count <= N.of_nat k) ->
  post o (xattr_read_n uncompress img k count fuel x) (fun p => xr_inv (fst p)).
Proof.
  induction k as [|k IH]; intros count x Hf Hinv Hkv Hk; cbn [xattr_read_n].
  - destruct (count =? 0) eqn:E; [simpl; exact Hinv|]. apply N.eqb_neq in E.
    destruct Hk as [Hk|Hk]; [exact Hk|lia].
  - destruct (count =? 0) eqn:E; [simpl; exact Hinv|]. apply N.eqb_neq in E.
    eapply post_bind; [apply xattr_read_spec; auto|].
    intros [x1 kv] [Hx1 Hk1]. simpl in Hx1, Hk1. cbv beta iota.
    eapply post_bind; [apply IH; auto|].
    { destruct Hk as [Hk|Hk]; [left; exact Hk|right; lia]. }
    intros [x2 rest] Hx2. simpl in Hx2. simpl. exact Hx2.
Qed.

Lemma xattr_read_all_spec o efuel fuel x idx :
  fuel_ok o fuel -> (o \/ two32 <= N.of_nat efuel) -> xr_inv x ->
  post o (xattr_read_all uncompress true img efuel fuel x idx) (fun p => xr_inv (fst p)).
Proof.
  intros Hf He Hinv. unfold xattr_read_all.
  destruct (idx =? max32); [simpl; exact Hinv|].
  eapply post_bind; [apply xattr_get_desc_spec; assumption|].
  intros [x1 [[ref count] sz]] (Hx1 & Hc). simpl in Hx1, Hc. cbv beta iota.
  eapply post_bind; [apply xattr_seek_kv_spec; exact Hx1|].
  intros x2 [Hx2 Hk2]. cbv beta.
  apply xattr_read_n_spec; auto.
  destruct He as [He|He]; [left; exact He|right; lia].
Qed.

End P.
