(* C05, strengthening after seed C05-10: the component loop of sqfs_dir_reader_resolve_path
   (lib/sqfs/src/dir_reader.c) with the caller's path as a buffer of exactly strlen+1 bytes.

   A C string buffer is the list of its bytes followed by one terminator; any index beyond the
   terminator is outside the buffer ([rdc] = None, the loop answers [LCrash]).  ent->name is the
   size+1 stored bytes (arbitrary, NUL included) followed by one 0 (calloc in
   sqfs_meta_reader_read_dir_ent).  [lenrule] selects where the compare length comes from:
   [LenStrlen] = strlen(ent->name) (the code as repaired, F25), [LenSize] = ent->size + 1
   (the code as found / the mirror-image mistake). *)
From Coq Require Import List NArith Arith Bool Lia.
Import ListNotations.

Inductive lerr := ENoEntry | ENotDir.
Inductive lres := LOk (ref : N) | LErr (e : lerr) | LCrash | LFuel.
Inductive lenrule := LenStrlen | LenSize.

Definition rdc (s : list N) (i : nat) : option N := nth_error (s ++ [0%N]) i.

Fixpoint c_strlen (s : list N) : nat :=
  match s with
  | [] => 0
  | x :: t => if N.eqb x 0 then 0 else S (c_strlen t)
  end.

(* strncmp(name, path + off, n) from index i on: Some true = 0, Some false = different, None = outside a buffer *)
Fixpoint c_strncmp (name path : list N) (off i n : nat) : option bool :=
  match n with
  | O => Some true
  | S n' =>
    match rdc name i, rdc path (off + i) with
    | Some x, Some y =>
      if N.eqb x y then (if N.eqb x 0 then Some true else c_strncmp name path off (S i) n') else Some false
    | _, _ => None
    end
  end.

Definition ent_len (r : lenrule) (name : list N) : nat :=
  match r with LenStrlen => c_strlen name | LenSize => length name end.

(* one entry against the component at path + off: Some (Some off') = match, continue at off' *)
Definition match_ent (r : lenrule) (name path : list N) (off : nat) : option (option nat) :=
  let len := ent_len r name in
  match c_strncmp name path off 0 len with
  | None => None
  | Some false => Some None
  | Some true =>
    match rdc path (off + len) with
    | None => None
    | Some c => if (N.eqb c 47 || N.eqb c 0)%bool then Some (Some (off + len)) else Some None
    end
  end.

Fixpoint scan (r : lenrule) (ents : list (list N * N)) (path : list N) (off : nat) : option (option (N * nat)) :=
  match ents with
  | [] => Some None
  | (nm, ref) :: t =>
    match match_ent r nm path off with
    | None => None
    | Some (Some off') => Some (Some (ref, off'))
    | Some None => scan r t path off
    end
  end.

(* inode reference -> None (not a directory) | entries in on-disk order *)
Definition dirs := N -> option (list (list N * N)).

Fixpoint resolve (r : lenrule) (d : dirs) (path : list N) (fuel : nat) (cur : N) (off : nat) : lres :=
  match fuel with
  | O => LFuel
  | S f =>
    match rdc path off with
    | None => LCrash
    | Some c =>
      if N.eqb c 0 then LOk cur
      else if N.eqb c 47 then resolve r d path f cur (S off)
      else match d cur with
           | None => LErr ENotDir
           | Some ents =>
             match scan r ents path off with
             | None => LCrash
             | Some None => LErr ENoEntry
             | Some (Some (ref, off')) => resolve r d path f ref off'
             end
           end
    end
  end.

Definition nonul (p : list N) := Forall (fun b => b <> 0%N) p.

(* ---- proofs ---- *)

Lemma rdc_lt s i : i < length s -> rdc s i = nth_error s i.
Proof. intros. unfold rdc. apply nth_error_app1; auto. Qed.

Lemma rdc_end s : rdc s (length s) = Some 0%N.
Proof. unfold rdc. rewrite nth_error_app2 by lia. rewrite Nat.sub_diag. reflexivity. Qed.

Lemma rdc_some s i : i <= length s -> exists x, rdc s i = Some x.
Proof.
  intros. unfold rdc. destruct (nth_error (s ++ [0%N]) i) eqn:E; eauto.
  apply nth_error_None in E. rewrite app_length in E. simpl in E. lia.
Qed.

Lemma c_strlen_le s : c_strlen s <= length s.
Proof. induction s; simpl; [lia|]. destruct (N.eqb a 0); lia. Qed.

Lemma c_strlen_nth s : forall i, i < c_strlen s -> exists x, nth_error s i = Some x /\ x <> 0%N.
Proof.
  induction s; simpl; intros i H. lia.
  destruct (N.eqb a 0) eqn:E. lia.
  destruct i; simpl.
  - exists a. split; auto. apply N.eqb_neq; auto.
  - apply IHs. lia.
Qed.

Lemma strncmp_ok name path off : nonul path ->
  forall n i, i + n <= c_strlen name -> off + i <= length path ->
  c_strncmp name path off i n = Some false \/
  (c_strncmp name path off i n = Some true /\ off + i + n <= length path /\
   forall j, i <= j < i + n -> nth_error name j = nth_error path (off + j)).
Proof.
  intros NN. induction n; intros i Hn Ho; simpl.
  - right. split; auto. split. lia. intros; lia.
  - destruct (c_strlen_nth name i) as [x [Ex Nx]]; [lia|].
    assert (Li : i < length name) by (pose proof (c_strlen_le name); lia).
    rewrite (rdc_lt name i Li), Ex.
    destruct (rdc_some path (off + i) Ho) as [y Ey]. rewrite Ey.
    destruct (N.eqb x y) eqn:Exy; [|left; reflexivity].
    apply N.eqb_eq in Exy. subst y.
    destruct (N.eqb x 0) eqn:E0. { apply N.eqb_eq in E0. contradiction. }
    assert (Lp : off + i < length path).
    { destruct (Nat.eq_dec (off + i) (length path)) as [Q|Q]; [|lia].
      rewrite Q, rdc_end in Ey. inversion Ey. congruence. }
    rewrite (rdc_lt _ _ Lp) in Ey.
    destruct (IHn (S i)) as [F|[T [L E]]]; try lia.
    + left. exact F.
    + right. split; [exact T|]. split; [lia|]. intros j Hj.
      destruct (Nat.eq_dec j i) as [Q|Q].
      * subst j. rewrite Ex, Ey. reflexivity.
      * apply E. lia.
Qed.

Lemma match_ent_ok name path off : nonul path -> off <= length path ->
  match_ent LenStrlen name path off = Some None \/
  exists off', match_ent LenStrlen name path off = Some (Some off') /\
    off' = off + c_strlen name /\ off' <= length path /\
    (forall j, j < c_strlen name -> nth_error name j = nth_error path (off + j)) /\
    (exists c, rdc path off' = Some c /\ (c = 47 \/ c = 0)%N).
Proof.
  intros NN Ho. unfold match_ent. simpl ent_len.
  destruct (strncmp_ok name path off NN (c_strlen name) 0) as [F|[T [L E]]]; try lia.
  - rewrite F. left; reflexivity.
  - rewrite T. destruct (rdc_some path (off + c_strlen name)) as [c Ec]; [lia|]. rewrite Ec.
    destruct (N.eqb c 47 || N.eqb c 0)%bool eqn:D; [|left; reflexivity].
    right. exists (off + c_strlen name). split; [reflexivity|]. split; [reflexivity|]. split; [lia|].
    split. { intros; apply E; lia. }
    exists c; split; auto. apply orb_true_iff in D. destruct D as [D|D]; apply N.eqb_eq in D; auto.
Qed.

Lemma scan_ok ents path off : nonul path -> off <= length path ->
  scan LenStrlen ents path off = Some None \/
  exists ref off' name, scan LenStrlen ents path off = Some (Some (ref, off')) /\ In (name, ref) ents /\
    off' = off + c_strlen name /\ off' <= length path /\
    (forall j, j < c_strlen name -> nth_error name j = nth_error path (off + j)) /\
    (exists c, rdc path off' = Some c /\ (c = 47 \/ c = 0)%N).
Proof.
  intros NN Ho. induction ents as [|[nm ref] t IH]; simpl. { left; auto. }
  destruct (match_ent_ok nm path off NN Ho) as [M|[o [M R]]]; rewrite M.
  - destruct IH as [A|[r [o [n [A [I R]]]]]]; [left; auto|].
    right. exists r, o, n. split; [exact A|]. split; [right; exact I|exact R].
  - right. exists ref, o, nm. split; [reflexivity|]. split; [left; reflexivity|]. exact R.
Qed.

(* no access outside the path buffer, and the loop ends: every round consumes a byte of the path *)
Lemma resolve_ok d path : nonul path ->
  forall fuel cur off, off <= length path -> length path - off < fuel ->
  resolve LenStrlen d path fuel cur off <> LCrash /\ resolve LenStrlen d path fuel cur off <> LFuel.
Proof.
  intros NN. induction fuel; intros cur off Ho Hf. lia. simpl.
  destruct (rdc_some path off Ho) as [c Ec]. rewrite Ec.
  destruct (N.eqb c 0) eqn:E0. { split; discriminate. }
  assert (Lp : off < length path).
  { destruct (Nat.eq_dec off (length path)) as [Q|Q]; [|lia]. subst off. rewrite rdc_end in Ec.
    inversion Ec. subst c. discriminate. }
  destruct (N.eqb c 47) eqn:E47. { apply IHfuel; lia. }
  destruct (d cur) as [ents|]. 2: split; discriminate.
  destruct (scan_ok ents path off NN Ho) as [A|[r [o [n [A [I [Eo [Lo [Eq [c' [Ec' D]]]]]]]]]]]; rewrite A.
  { split; discriminate. }
  assert (c_strlen n <> 0).
  { intro Z. rewrite Z, Nat.add_0_r in Eo. subst o. rewrite Ec in Ec'. inversion Ec'. subst c'.
    apply N.eqb_neq in E0. apply N.eqb_neq in E47. destruct D; congruence. }
  apply IHfuel; lia.
Qed.

Lemma resolve_safe_any d path : nonul path ->
  forall fuel cur off, off <= length path -> resolve LenStrlen d path fuel cur off <> LCrash.
Proof.
  intros NN. induction fuel; intros cur off Ho; simpl. discriminate.
  destruct (rdc_some path off Ho) as [c Ec]. rewrite Ec.
  destruct (N.eqb c 0) eqn:E0. discriminate.
  assert (Lp : off < length path).
  { destruct (Nat.eq_dec off (length path)) as [Q|Q]; [|lia]. subst off. rewrite rdc_end in Ec.
    inversion Ec. subst c. discriminate. }
  destruct (N.eqb c 47) eqn:E47. { apply IHfuel; lia. }
  destruct (d cur) as [ents|]. 2: discriminate.
  destruct (scan_ok ents path off NN Ho) as [A|[r [o [n [A [I [Eo [Lo _]]]]]]]]; rewrite A.
  discriminate. apply IHfuel; lia.
Qed.

Lemma resolve_path_safe_l : forall d path fuel cur, nonul path ->
  resolve LenStrlen d path fuel cur 0 <> LCrash.
Proof. intros. apply resolve_safe_any; auto; lia. Qed.

Lemma resolve_path_total_l : forall d path cur, nonul path ->
  resolve LenStrlen d path (S (length path)) cur 0 <> LFuel.
Proof. intros. apply resolve_ok; auto; lia. Qed.

(* a match is an exact match of the component with the C string of the stored name, followed by '/' or the end *)
Lemma scan_match_exact_l : forall ents path off ref off', nonul path -> off <= length path ->
  scan LenStrlen ents path off = Some (Some (ref, off')) ->
  exists name, In (name, ref) ents /\ off' = off + c_strlen name /\ off' <= length path /\
    (forall j, j < c_strlen name -> nth_error name j = nth_error path (off + j)) /\
    (exists c, rdc path off' = Some c /\ (c = 47 \/ c = 0)%N).
Proof.
  intros ents path off ref off' NN Ho S.
  destruct (scan_ok ents path off NN Ho) as [A|[r [o [n [A R]]]]]; rewrite A in S; inversion S.
  subst. exists n. exact R.
Qed.

(* the compare length taken from the on-disk size field: a name with an embedded NUL makes the loop index the
   path past its terminator *)
Definition wit_dirs : dirs :=
  fun r => if N.eqb r 0 then Some [([97; 0; 88; 88; 88; 88]%N, 1%N); ([97; 98]%N, 2%N)]
           else if N.eqb r 1 then Some [([120]%N, 3%N)] else None.

Lemma resolve_size_len_refuted_l :
  nonul [97%N] /\ resolve LenSize wit_dirs [97%N] 2 0 0 = LCrash /\ resolve LenStrlen wit_dirs [97%N] 2 0 0 = LOk 1.
Proof. split. { repeat constructor; discriminate. } split; vm_compute; reflexivity. Qed.

Example resolve_ex_nested : resolve LenStrlen wit_dirs [47; 97; 47; 47; 120; 47]%N 7 0 0 = LOk 3.
Proof. vm_compute. reflexivity. Qed.
Example resolve_ex_prefix : resolve LenStrlen wit_dirs [97; 98; 99]%N 4 0 0 = LErr ENoEntry.
Proof. vm_compute. reflexivity. Qed.
Example resolve_ex_notdir : resolve LenStrlen wit_dirs [97; 98; 47; 120]%N 5 0 0 = LErr ENotDir.
Proof. vm_compute. reflexivity. Qed.
