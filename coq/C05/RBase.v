(* C05 — bounds-accounted model of the libsquashfs reader stack: common definitions.

   Results: [Ok v | Err e | Crash | OutOfFuel].  [Crash] means "the C code would
   read or write outside the valid part of a buffer, index outside an array or
   dereference NULL here".  Every buffer access of the model goes through one of
   the checked primitives below ([slice], [put_check], [nth_chk]).

   Machine integers are unbounded [N]; where the C code computes in a fixed width
   and the property depends on it, the wrap is written explicitly ([u16] [u32] [u64],
   [sub64]).  [size_t] is 64 bit (the only configuration the check builds). *)
From Coq Require Import List NArith ZArith Bool.
From SqfsV Require Import Gen.Constants Base.Bytes.
Import ListNotations.
Local Open Scope N_scope.

Inductive res (A : Type) : Type :=
| Ok (a : A)
| Err (e : Z)
| Crash
| OutOfFuel.
Arguments Ok {A} a.
Arguments Err {A} e.
Arguments Crash {A}.
Arguments OutOfFuel {A}.

Definition bind {A B} (r : res A) (f : A -> res B) : res B :=
  match r with
  | Ok a => f a
  | Err e => Err e
  | Crash => Crash
  | OutOfFuel => OutOfFuel
  end.

Notation "'do' x <- r ; k" := (bind r (fun x => k))
  (at level 200, x pattern, r at level 100, k at level 200, right associativity).

(* ---- error codes (generated from sqfs/error.h) ---- *)
Definition E_ALLOC := c_SQFS_ERROR_ALLOC.
Definition E_IO := c_SQFS_ERROR_IO.
Definition E_COMPRESSOR := c_SQFS_ERROR_COMPRESSOR.
Definition E_CORRUPTED := c_SQFS_ERROR_CORRUPTED.
Definition E_UNSUPPORTED := c_SQFS_ERROR_UNSUPPORTED.
Definition E_OVERFLOW := c_SQFS_ERROR_OVERFLOW.
Definition E_OOB := c_SQFS_ERROR_OUT_OF_BOUNDS.
Definition E_MAGIC := c_SFQS_ERROR_SUPER_MAGIC.
Definition E_VERSION := c_SFQS_ERROR_SUPER_VERSION.
Definition E_BLOCK_SIZE := c_SQFS_ERROR_SUPER_BLOCK_SIZE.
Definition E_NOT_DIR := c_SQFS_ERROR_NOT_DIR.
Definition E_NO_ENTRY := c_SQFS_ERROR_NO_ENTRY.
Definition E_LINK_LOOP := c_SQFS_ERROR_LINK_LOOP.
Definition E_NOT_FILE := c_SQFS_ERROR_NOT_FILE.
Definition E_ARG_INVALID := c_SQFS_ERROR_ARG_INVALID.
Definition E_SEQUENCE := c_SQFS_ERROR_SEQUENCE.

(* ---- machine arithmetic ---- *)
Definition two16 : N := 65536.
Definition two24 : N := 16777216.
Definition two32 : N := 4294967296.
Definition two63 : N := 9223372036854775808.
Definition two64 : N := 18446744073709551616.
Definition u16 (n : N) := n mod two16.
Definition u32 (n : N) := n mod two32.
Definition u64 (n : N) := n mod two64.
(* a - b in an unsigned 64 bit register (a, b < 2^64) *)
Definition sub64 (a b : N) : N := if b <=? a then a - b else a + two64 - b.
Definition max64 : N := two64 - 1.
Definition max32 : N := two32 - 1.

(* ---- little endian field access on byte lists ---- *)
Definition nN (n : N) := N.to_nat n.
Definition lenN {A} (l : list A) : N := N.of_nat (length l).
(* field of k bytes at byte offset off of a struct image *)
(* (truncated to k bytes: the identity on byte lists, and it keeps every field in
   its C type's range without a side condition on the list) *)
Definition rdk (k : nat) (l : list N) : N := rd k l mod 256 ^ N.of_nat k.
Definition fld (k : nat) (off : N) (l : list N) : N := rdk k (skipn (nN off) l).

(* ---- checked buffer primitives ---- *)
(* read [n] bytes at [off] of a buffer whose valid contents are [buf] *)
Definition slice (buf : list N) (off n : N) : res (list N) :=
  if off + n <=? lenN buf then Ok (firstn (nN n) (skipn (nN off) buf)) else Crash.
(* write [n] bytes at offset [off] into a buffer of capacity [cap] *)
Definition put_check (cap off n : N) : res unit :=
  if off + n <=? cap then Ok tt else Crash.
Definition nth_chk {A} (l : list A) (i : N) : res A :=
  match nth_error l (nN i) with Some a => Ok a | None => Crash end.

Fixpoint zeros (n : nat) : list N :=
  match n with O => [] | S k => 0 :: zeros k end.
(* overwrite the front of [old] with [new] (a memcpy / read into a zeroed buffer) *)
Definition overlay (new old : list N) : list N := new ++ skipn (length new) old.

(* ---- allocation arithmetic (lib/util/src/alloc.c, include/compat.h) ----
   [alloc_limit]: largest request the allocator grants (the check runs the
   implementation with the same limit, ASAN_OPTIONS=max_allocation_size_mb). *)
Definition alloc_limit : N := 2147483648.
Definition sz_mul_ov (a b : N) : option N := if a * b <? two64 then Some (a * b) else None.
Definition sz_add_ov (a b : N) : option N := if a + b <? two64 then Some (a + b) else None.
Definition malloc_chk (n : N) : res unit := if alloc_limit <? n then Err E_ALLOC else Ok tt.
(* alloc_flex(base, item, nmemb): returns the capacity of the flexible part *)
Definition alloc_flex (ov_err : Z) (base item nmemb : N) : res N :=
  match sz_mul_ov nmemb item with
  | None => Err ov_err
  | Some s =>
    match sz_add_ov base s with
    | None => Err ov_err
    | Some t => do _ <- malloc_chk t; Ok s
    end
  end.
Definition alloc_array (ov_err : Z) (item nmemb : N) : res N :=
  match sz_mul_ov nmemb item with
  | None => Err ov_err
  | Some s => do _ <- malloc_chk s; Ok s
  end.

(* ---- the image file: lib/sqfs/src/io/file.c stdio_read_at (unix) ----
   size 0 succeeds at any offset; a range that does not fit a (signed) off_t makes
   pread fail with EINVAL (SQFS_ERROR_IO; Linux rw_verify_area); running off the end is
   SQFS_ERROR_OUT_OF_BOUNDS. *)
Definition read_at (img : list N) (off n : N) : res (list N) :=
  if n =? 0 then Ok []
  else if two63 <=? off + n then Err E_IO
  else if off + n <=? lenN img then Ok (firstn (nN n) (skipn (nN off) img))
  else Err E_OOB.
