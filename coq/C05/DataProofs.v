(* C05 — data reader: blocks fit the buffers they are read / unpacked into, fragment
   slices lie inside the fragment block, sqfs_data_reader_read never leaves the cached
   block, the stream reader (repaired) never overruns its block_size buffers. *)
From Coq Require Import List NArith ZArith Bool Lia.
From SqfsV Require Import Gen.Constants Base.Bytes C05.RBase C05.GenC05 C05.Meta C05.Super C05.Inode C05.Data
  C05.BaseProofs C05.MetaProofs C05.SuperProofs C05.InodeProofs.
Import ListNotations.
Local Open Scope N_scope.

Definition dd_inv (d : dreader_data) : Prop :=
  1 <= dd_bs d /\ dd_bs d < two32 /\
  (forall b, dd_data d = Some b -> lenN b = dd_bs d) /\
  (forall b, dd_frag d = Some b -> lenN b = dd_bs d /\ dd_frag_sz d <= dd_bs d).

Lemma dd_create_inv bs frags : 1 <= bs -> bs < two32 -> dd_inv (dd_create bs frags).
Proof. intros. unfold dd_inv, dd_create; simpl. repeat split; auto; intros; discriminate. Qed.

Section P.
Variable uncompress : list N -> N -> res (list N).
Hypothesis uc_ok : codec_ok uncompress.
Variable img : list N.

Lemma uc_post o inp cap : post o (uncompress inp cap) (fun out => lenN out <= cap).
Proof. eapply post_mono; [|apply uc_ok]. tauto. Qed.

(* block_fits_buffer *)
Lemma get_block_spec o bs off word max_size :
  max_size <= bs ->
  post o (get_block uncompress img bs off word max_size)
       (fun p => lenN (fst p) = max_size /\ snd p <= max_size).
Proof.
  intros Hm. unfold get_block.
  eapply post_bind; [apply malloc_chk_post|]. intros u _.
  destruct (is_sparse word); [simpl; rewrite lenN_zeros; split; lia|].
  destruct (max_size <? on_disk word) eqn:E; [exact I|]. apply N.ltb_ge in E.
  destruct (is_compressed word).
  - eapply post_bind; [apply put_check_post; lia|]. intros u2 _.
    eapply post_bind; [apply read_at_post|]. intros raw _.
    eapply post_bind; [apply uc_post|]. intros out Hout. cbv beta in Hout.
    destruct (lenN out =? 0); [exact I|].
    eapply post_bind; [apply put_check_post; lia|]. intros u3 _.
    simpl. rewrite lenN_overlay, lenN_zeros. split; lia.
  - eapply post_bind; [apply put_check_post; lia|]. intros u2 _.
    eapply post_bind; [apply read_at_post|]. intros raw [Hlen _].
    simpl. rewrite lenN_overlay, lenN_zeros. split; lia.
Qed.

Lemma precache_data_spec o d loc word :
  dd_inv d ->
  post o (precache_data uncompress img d loc word)
       (fun d' => dd_inv d' /\ dd_bs d' = dd_bs d /\ dd_data d' <> None).
Proof.
  intros Hinv. pose proof Hinv as (H1 & H2 & H3 & H4). unfold precache_data.
  assert (Hload : post o (do (b, sz) <- get_block uncompress img (dd_bs d) loc word (dd_bs d);
                          Ok (MkDd (dd_bs d) (dd_frags d) (Some b) sz loc word (dd_frag d) (dd_frag_sz d) (dd_cur_frag d)))
                       (fun d' => dd_inv d' /\ dd_bs d' = dd_bs d /\ dd_data d' <> None)).
  { eapply post_bind; [apply get_block_spec; lia|]. intros [b sz] [Hl Hs]. simpl in Hl, Hs. simpl.
    split; [|split; [reflexivity|discriminate]].
    unfold dd_inv; simpl. split; [exact H1|]. split; [exact H2|]. split; [|exact H4].
    intros b0 E. inversion E; subst. exact Hl. }
  destruct (dd_data d) as [b|] eqn:Ed; [|exact Hload].
  destruct ((dd_cur_block d =? loc) && (dd_cur_word d =? word)); [|exact Hload].
  simpl. split; [exact Hinv|]. split; [reflexivity|]. rewrite Ed. discriminate.
Qed.

Lemma precache_frag_spec o d idx :
  dd_inv d ->
  post o (precache_frag uncompress img d idx)
       (fun d' => dd_inv d' /\ dd_bs d' = dd_bs d /\ dd_frag d' <> None).
Proof.
  intros Hinv. pose proof Hinv as (H1 & H2 & H3 & H4). unfold precache_frag.
  match goal with |- context [match dd_frag d with Some _ => if _ then _ else ?l | None => _ end] =>
    assert (Hload : post o l (fun d' => dd_inv d' /\ dd_bs d' = dd_bs d /\ dd_frag d' <> None)) end.
  { eapply post_bind; [apply frag_lookup_post|]. intros [start word] _.
    eapply post_bind; [apply get_block_spec; lia|]. intros [b sz] [Hl Hs]. simpl in Hl, Hs. simpl.
    split; [|split; [reflexivity|discriminate]].
    unfold dd_inv; simpl. split; [exact H1|]. split; [exact H2|]. split; [exact H3|].
    intros b0 E. inversion E; subst. split; assumption. }
  destruct (dd_frag d) as [b|] eqn:Ed; [|exact Hload].
  destruct (idx =? dd_cur_frag d); [|exact Hload].
  simpl. split; [exact Hinv|]. split; [reflexivity|]. rewrite Ed. discriminate.
Qed.

Lemma skip_blocks_spec o bs : forall n ws off fsz,
  (n <= length ws)%nat ->
  post o (skip_blocks n ws bs off fsz) (fun p => length (snd p) = (length ws - n)%nat).
Proof.
  induction n as [|n IH]; intros ws off fsz H; cbn [skip_blocks].
  - simpl. lia.
  - destruct ws as [|w r]; [simpl in H; lia|]. simpl in H.
    eapply post_weaken; [apply IH; lia|]. intros p Hp. simpl. exact Hp.
Qed.

Lemma dr_get_block_spec o d i index :
  dd_inv d -> i_used i <= 4 * lenN (i_words i) ->
  post o (dr_get_block uncompress img d i index) (fun _ => True).
Proof.
  intros (H1 & H2 & H3 & H4) Hw. unfold dr_get_block.
  destruct (inode_block_count i <=? index) eqn:E; [exact I|]. apply N.leb_gt in E.
  assert (Hidx : (nN index < length (i_words i))%nat).
  { unfold inode_block_count in E. unfold lenN, nN in *.
    pose proof (N.div_le_mono (i_used i) (4 * N.of_nat (length (i_words i))) 4 ltac:(discriminate) Hw).
    rewrite N.mul_comm, N.div_mul in H by discriminate. lia. }
  eapply post_bind; [apply skip_blocks_spec; lia|]. intros [[off fsz] ws] Hlen. simpl in Hlen. cbv beta iota.
  destruct ws as [|w r]; [simpl in Hlen; lia|].
  set (unpacked := if fsz <? dd_bs d then fsz else dd_bs d).
  assert (unpacked <= dd_bs d).
  { unfold unpacked. destruct (fsz <? dd_bs d) eqn:E2; [apply N.ltb_lt in E2|]; lia. }
  eapply post_bind; [apply get_block_spec; assumption|]. intros [b sz] [Hl Hs]. simpl in Hl, Hs.
  eapply post_weaken; [apply slice_post; lia|]. auto.
Qed.

(* frag_slice_in_block *)
Lemma dr_get_fragment_spec o d i :
  dd_inv d ->
  post o (dr_get_fragment uncompress true img d i) (fun p => dd_inv (fst p)).
Proof.
  intros Hinv. pose proof Hinv as (H1 & H2 & H3 & H4). unfold dr_get_fragment.
  destruct (inode_frag_location i) as [fi fo].
  destruct (dd_bs d =? 0) eqn:E0; [apply N.eqb_eq in E0; lia|].
  destruct (max64 / dd_bs d <? inode_block_count i); [exact I|].
  destruct (_ <=? inode_block_count i * dd_bs d); [simpl; exact Hinv|].
  eapply post_bind; [apply precache_frag_spec; exact Hinv|].
  intros d1 (Hi1 & Hb1 & Hf1). cbv beta.
  match goal with |- context [if ?c then Err E_OOB else _] => destruct c eqn:E end; [exact I|].
  apply N.ltb_ge in E.
  eapply post_bind; [apply malloc_chk_post|]. intros u _.
  destruct (dd_frag d1) as [fb|] eqn:Ef; [|congruence].
  pose proof Hi1 as (_ & _ & _ & Hfr). specialize (Hfr fb Ef). destruct Hfr as [Hl Hs].
  eapply post_bind; [apply slice_post; lia|]. intros x _. simpl. exact Hi1.
Qed.

Lemma rd_skip_spec bs : forall ws off offset,
  let p := rd_skip ws bs off offset in
  snd (fst p) <= bs \/ snd p = [].
Proof.
  induction ws as [|w r IH]; intros off offset; cbn [rd_skip].
  - right. reflexivity.
  - destruct (bs <? offset) eqn:E; [apply IH|]. apply N.ltb_ge in E. left. simpl. exact E.
Qed.

Lemma rd_copy_spec o : forall ws d off offset size,
  dd_inv d -> (offset <= dd_bs d \/ ws = []) ->
  post o (rd_copy uncompress img ws d off offset size)
       (fun p => dd_inv (fst (fst (fst p))) /\ dd_bs (fst (fst (fst p))) = dd_bs d /\
                 lenN (snd p) + snd (fst p) = size).
Proof.
  induction ws as [|w r IH]; intros d off offset size Hinv Hoff; cbn [rd_copy].
  - simpl. spl; auto; unfold lenN; simpl; lia.
  - destruct (size =? 0) eqn:E0; [simpl; spl; auto; unfold lenN; simpl; lia|].
    destruct Hoff as [Hoff|Hoff]; [|discriminate].
    pose proof Hinv as (H1 & H2 & H3 & H4).
    rewrite (sub64_ge _ _ Hoff).
    rewrite (u32_small (dd_bs d - offset)) by lia.
    set (diff := if size <? dd_bs d - offset then size else dd_bs d - offset).
    assert (Hd : diff <= size /\ offset + diff <= dd_bs d).
    { unfold diff. destruct (size <? dd_bs d - offset) eqn:E; [apply N.ltb_lt in E|apply N.ltb_ge in E]; lia. }
    destruct (is_sparse w).
    + eapply post_bind; [apply IH; [exact Hinv|left; lia]|].
      intros [[[d' o'] s'] tl] (A & B & C). simpl in A, B, C. simpl.
      spl; auto. rewrite lenN_app, lenN_zeros. lia.
    + eapply post_bind; [apply precache_data_spec; exact Hinv|].
      intros d1 (Hi1 & Hb1 & Hn1). cbv beta.
      destruct (dd_data d1) as [b|] eqn:Eb; [|congruence].
      pose proof Hi1 as (_ & _ & Hdb & _). specialize (Hdb b Eb).
      eapply post_bind; [apply slice_post; lia|]. intros chunk Hc. cbv beta in Hc.
      eapply post_bind; [apply IH; [exact Hi1|left; lia]|].
      intros [[[d' o'] s'] tl] (A & B & C). simpl in A, B, C. simpl.
      spl; auto; try congruence. rewrite lenN_app. lia.
Qed.

Lemma dr_read_spec o d i offset size :
  dd_inv d -> i_used i <= 4 * lenN (i_words i) ->
  post o (dr_read uncompress img d i offset size) (fun p => dd_inv (fst p)).
Proof.
  intros Hinv Hw. unfold dr_read.
  destruct (inode_frag_location i) as [fi fo].
  match goal with |- context [if ?c then Ok (d, []) else _] => destruct c end; [simpl; exact Hinv|].
  match goal with |- context [if ?c then Ok (d, []) else _] => destruct c end; [simpl; exact Hinv|].
  set (size1 := if _ <? _ then _ else _).
  eapply post_bind.
  { apply put_check_post. unfold inode_block_count.
    pose proof (N.div_le_mono (i_used i) (4 * lenN (i_words i)) 4 ltac:(discriminate) Hw) as X.
    rewrite N.mul_comm, N.div_mul in X by discriminate. lia. }
  intros u _.
  pose proof (rd_skip_spec (dd_bs d) (firstn (nN (inode_block_count i)) (i_words i)) (inode_block_start i) offset) as Hsk.
  destruct (rd_skip _ _ _ _) as [[off offset1] ws1]. simpl in Hsk.
  eapply post_bind; [apply rd_copy_spec; [exact Hinv|exact Hsk]|].
  intros [[[d1 offset2] size2] bytes] (Hi1 & Hb1 & Hlen). simpl in Hi1, Hb1, Hlen. cbv beta iota.
  eapply post_bind; [apply put_check_post; lia|]. intros u2 _.
  destruct (size2 =? 0); [simpl; exact Hi1|].
  eapply post_bind; [apply precache_frag_spec; exact Hi1|].
  intros d2 (Hi2 & Hb2 & Hf2). cbv beta.
  destruct (dd_frag_sz d2 <=? fo + offset2) eqn:E1; [exact I|]. apply N.leb_gt in E1.
  destruct (dd_frag_sz d2 - (fo + offset2) <? size2) eqn:E2; [exact I|]. apply N.ltb_ge in E2.
  destruct (dd_frag d2) as [fb|] eqn:Ef; [|congruence].
  pose proof Hi2 as (_ & _ & _ & Hfr). specialize (Hfr fb Ef). destruct Hfr as [Hl Hs].
  eapply post_bind; [apply slice_post; lia|]. intros x _.
  eapply post_bind; [apply put_check_post; lia|]. intros u3 _. simpl. exact Hi2.
Qed.

Lemma stream_create_post o i :
  i_used i <= 4 * lenN (i_words i) -> post o (stream_create i) (fun _ => True).
Proof.
  intros Hw. unfold stream_create.
  eapply post_bind; [unfold inode_file_size; destruct (i_data i); exact I|]. intros fsz _.
  destruct (inode_frag_location i) as [fi fo].
  eapply post_bind; [apply put_check_post; lia|]. intros u _. exact I.
Qed.

(* the repaired stream reader: every block goes through a block_size buffer it fits *)
Lemma stream_next_spec o d st :
  dd_inv d ->
  post o (stream_next uncompress true img d st)
       (fun p => dd_inv (fst (fst p)) /\ dd_bs (fst (fst p)) = dd_bs d /\
                 forall x, snd p = Some x -> 1 <= lenN x).
Proof.
  intros Hinv. pose proof Hinv as (H1 & H2 & H3 & H4). unfold stream_next.
  destruct (st_filesz st =? 0) eqn:E0; [simpl; spl; auto; intros; discriminate|].
  apply N.eqb_neq in E0.
  set (bs := dd_bs d) in *.
  set (bu := if st_filesz st <? bs then st_filesz st else bs).
  assert (Hbu : 1 <= bu /\ bu <= bs).
  { unfold bu. destruct (st_filesz st <? bs) eqn:E; [apply N.ltb_lt in E|]; lia. }
  destruct (st_blocks st) as [|w rest].
  - eapply post_bind; [apply precache_frag_spec; exact Hinv|].
    intros d1 (Hi1 & Hb1 & Hf1). cbv beta.
    destruct ((dd_frag_sz d1 <? st_fo st) || (dd_frag_sz d1 - st_fo st <? bu)) eqn:E; [exact I|].
    apply orb_false_iff in E. destruct E as [E1 E2]. apply N.ltb_ge in E1. apply N.ltb_ge in E2.
    destruct (dd_frag d1) as [fb|] eqn:Ef; [|congruence].
    pose proof Hi1 as (_ & _ & _ & Hfr). specialize (Hfr fb Ef). destruct Hfr as [Hl Hs].
    eapply post_bind; [apply put_check_post; lia|]. intros u _.
    eapply post_bind; [apply slice_post; fold bs in Hb1; lia|]. intros x Hx. cbv beta in Hx. simpl.
    spl; auto. intros y Hy. inversion Hy; subst. lia.
  - destruct (true && (bs <? on_disk w)) eqn:E; [exact I|]. simpl in E. apply N.ltb_ge in E.
    eapply post_bind.
    { instantiate (1 := fun data => lenN data = bu).
      destruct (on_disk w =? 0); [simpl; apply lenN_zeros|].
      destruct (is_compressed w).
      - eapply post_bind; [apply put_check_post; lia|]. intros u _.
        eapply post_bind; [apply read_at_post|]. intros raw _.
        eapply post_bind; [apply uc_post|]. intros out Hout. cbv beta in Hout.
        destruct (lenN out =? 0); [exact I|].
        eapply post_bind; [apply put_check_post; lia|]. intros u2 _. simpl.
        apply lenN_firstn_exact. rewrite lenN_overlay, lenN_zeros. lia.
      - eapply post_bind; [apply put_check_post; lia|]. intros u _.
        eapply post_bind; [apply read_at_post|]. intros raw _. simpl.
        apply lenN_firstn_exact. rewrite lenN_overlay, lenN_zeros. lia. }
    intros data Hdata. cbv beta in Hdata. simpl.
    spl; auto. intros y Hy. inversion Hy; subst. lia.
Qed.

(* reading a whole file stops at the harness limit at the latest *)
Lemma stream_all_spec o cap : forall k d st total acc,
  dd_inv d -> total <= cap -> (o \/ cap + 2 <= total + N.of_nat k) ->
  dd_inv (fst (fst (stream_all uncompress true img k d st total cap acc))) /\
  post o (snd (fst (stream_all uncompress true img k d st total cap acc))) (fun _ => True).
Proof.
  induction k as [|k IH]; intros d st total acc Hinv Ht Hk; cbn [stream_all].
  - simpl. split; [exact Hinv|]. destruct Hk as [Hk|Hk]; [exact Hk|lia].
  - pose proof (stream_next_spec o d st Hinv) as Hn.
    destruct (stream_next uncompress true img d st) as [[[d1 st1] [x|]]|e| |]; simpl in Hn.
    + destruct Hn as (Hi1 & Hb1 & Hx). specialize (Hx x eq_refl).
      destruct (cap <? total + lenN x) eqn:E; [simpl; split; [exact Hi1|exact I]|].
      apply N.ltb_ge in E. apply IH; [exact Hi1|exact E|].
      destruct Hk as [Hk|Hk]; [left; exact Hk|right; lia].
    + destruct Hn as (Hi1 & _). simpl. split; [exact Hi1|exact I].
    + simpl. split; [exact Hinv|exact I].
    + contradiction.
    + simpl. split; [exact Hinv|exact Hn].
Qed.

End P.
