(* C05 — proof infrastructure: a weakest-precondition style predicate over [res],
   length facts of the buffer primitives, range facts of field reads. *)
From Coq Require Import List NArith ZArith Bool Lia.
From SqfsV Require Import Gen.Constants Base.Bytes C05.RBase.
Import ListNotations.
Local Open Scope N_scope.

(* [post o r Q]: r does not crash; it runs out of fuel only if [o]; a value satisfies Q *)
Definition post {A} (o : Prop) (r : res A) (Q : A -> Prop) : Prop :=
  match r with Ok a => Q a | Err _ => True | Crash => False | OutOfFuel => o end.

Lemma post_bind {A B} o (r : res A) (f : A -> res B) Q R :
  post o r Q -> (forall a, Q a -> post o (f a) R) -> post o (bind r f) R.
Proof. destruct r; simpl; auto. Qed.

Lemma post_weaken {A} o (r : res A) (Q Q' : A -> Prop) :
  post o r Q -> (forall a, Q a -> Q' a) -> post o r Q'.
Proof. destruct r; simpl; auto. Qed.

Lemma post_mono {A} (o o' : Prop) (r : res A) Q : (o -> o') -> post o r Q -> post o' r Q.
Proof. destruct r; simpl; auto. Qed.

Lemma post_ok {A} o (a : A) (Q : A -> Prop) : Q a -> post o (Ok a) Q.
Proof. auto. Qed.
Lemma post_err {A} o e (Q : A -> Prop) : post o (Err e) Q.
Proof. exact I. Qed.

Lemma post_not_crash {A} o (r : res A) Q : post o r Q -> r <> Crash.
Proof. destruct r; simpl; congruence. Qed.
Lemma post_not_oof {A} (r : res A) Q : post False r Q -> r <> OutOfFuel.
Proof. destruct r; simpl; try congruence; try tauto. Qed.

Lemma post_inv_ok {A} o (r : res A) Q a : post o r Q -> r = Ok a -> Q a.
Proof. intros H E; subst; exact H. Qed.

(* ---- lengths ---- *)
Lemma lenN_app {A} (a b : list A) : lenN (a ++ b) = lenN a + lenN b.
Proof. unfold lenN. rewrite app_length. lia. Qed.
Lemma lenN_nil {A} : lenN (@nil A) = 0.
Proof. reflexivity. Qed.
Lemma lenN_cons {A} (x : A) l : lenN (x :: l) = 1 + lenN l.
Proof. unfold lenN. simpl length. lia. Qed.

Lemma zeros_length n : length (zeros n) = n.
Proof. induction n; simpl; congruence. Qed.
Lemma lenN_zeros n : lenN (zeros (nN n)) = n.
Proof. unfold lenN, nN. rewrite zeros_length. lia. Qed.

Lemma lenN_firstn_skipn {A} (l : list A) off n :
  off + n <= lenN l -> lenN (firstn (nN n) (skipn (nN off) l)) = n.
Proof.
  unfold lenN, nN. intros H. rewrite firstn_length, skipn_length. lia.
Qed.

Lemma lenN_firstn_le {A} (l : list A) n : lenN (firstn (nN n) l) <= n.
Proof. unfold lenN, nN. rewrite firstn_length. lia. Qed.
Lemma lenN_firstn_le2 {A} (l : list A) n : lenN (firstn n l) <= lenN l.
Proof. unfold lenN. rewrite firstn_length. lia. Qed.
Lemma lenN_firstn_exact {A} (l : list A) n : n <= lenN l -> lenN (firstn (nN n) l) = n.
Proof. unfold lenN, nN. rewrite firstn_length. lia. Qed.

Lemma lenN_overlay (new old : list N) :
  lenN (overlay new old) = N.max (lenN new) (lenN old).
Proof. unfold overlay, lenN. rewrite app_length, skipn_length. lia. Qed.

(* ---- primitives ---- *)
Lemma slice_post o buf off n : off + n <= lenN buf -> post o (slice buf off n) (fun x => lenN x = n).
Proof.
  intros H. unfold slice. destruct (off + n <=? lenN buf) eqn:E; [|apply N.leb_gt in E; lia].
  simpl. apply lenN_firstn_skipn. exact H.
Qed.

Lemma put_check_post o cap off n : off + n <= cap -> post o (put_check cap off n) (fun _ => True).
Proof.
  intros H. unfold put_check. destruct (off + n <=? cap) eqn:E; [exact I|apply N.leb_gt in E; lia].
Qed.

Lemma read_at_post o img off n :
  post o (read_at img off n) (fun x => lenN x = n /\ (n <> 0 -> off < two63 /\ off + n <= lenN img)).
Proof.
  unfold read_at. destruct (n =? 0) eqn:E0.
  - apply N.eqb_eq in E0. subst. simpl. split; [reflexivity|congruence].
  - destruct (two63 <=? off + n) eqn:E1; [exact I|].
    destruct (off + n <=? lenN img) eqn:E2; [|exact I].
    apply N.leb_le in E2. apply N.leb_gt in E1. simpl. split; [apply lenN_firstn_skipn; exact E2|].
    intros _. split; [lia|assumption].
Qed.

Lemma malloc_chk_post o n : post o (malloc_chk n) (fun _ => n <= alloc_limit).
Proof.
  unfold malloc_chk. destruct (alloc_limit <? n) eqn:E; [exact I|]. apply N.ltb_ge in E. exact E.
Qed.

Lemma nth_chk_post {A} o (l : list A) i : i < lenN l -> post o (nth_chk l i) (fun _ => True).
Proof.
  intros H. unfold nth_chk. destruct (nth_error l (nN i)) eqn:E; [exact I|].
  apply nth_error_None in E. unfold lenN, nN in *. lia.
Qed.

Lemma alloc_flex_post o e base item n :
  post o (alloc_flex e base item n) (fun s => s = n * item /\ base + s <= alloc_limit).
Proof.
  unfold alloc_flex, sz_mul_ov, sz_add_ov.
  destruct (n * item <? two64); [|exact I].
  destruct (base + n * item <? two64); [|exact I].
  eapply post_bind; [apply malloc_chk_post|]. intros u H. simpl. auto.
Qed.

Lemma alloc_array_post o e item n :
  post o (alloc_array e item n) (fun s => s = n * item /\ s <= alloc_limit).
Proof.
  unfold alloc_array, sz_mul_ov.
  destruct (n * item <? two64); [|exact I].
  eapply post_bind; [apply malloc_chk_post|]. intros u H. simpl. auto.
Qed.

(* ---- ranges of field reads ---- *)
Lemma rdk_lt k l : rdk k l < 256 ^ N.of_nat k.
Proof. unfold rdk. apply N.mod_lt. apply N.pow_nonzero. discriminate. Qed.
Lemma fld_lt k off l : fld k off l < 256 ^ N.of_nat k.
Proof. apply rdk_lt. Qed.
Lemma fld2_lt off l : fld 2 off l < 65536.
Proof. apply (fld_lt 2). Qed.
Lemma fld4_lt off l : fld 4 off l < two32.
Proof. apply (fld_lt 4). Qed.
Lemma fld8_lt off l : fld 8 off l < two64.
Proof. apply (fld_lt 8). Qed.

Lemma u32_le n : u32 n <= n.
Proof. unfold u32. apply N.mod_le. discriminate. Qed.
Lemma u64_le n : u64 n <= n.
Proof. unfold u64. apply N.mod_le. discriminate. Qed.
Lemma u32_lt n : u32 n < two32.
Proof. unfold u32. apply N.mod_lt. discriminate. Qed.
Lemma u64_small n : n < two64 -> u64 n = n.
Proof. unfold u64. apply N.mod_small. Qed.
Lemma u32_small n : n < two32 -> u32 n = n.
Proof. unfold u32. apply N.mod_small. Qed.
Lemma sub64_ge a b : b <= a -> sub64 a b = a - b.
Proof. unfold sub64. intros H. destruct (b <=? a) eqn:E; [reflexivity|apply N.leb_gt in E; lia]. Qed.

Lemma div_idx_bound len k idx : k <> 0 -> idx < len / k -> idx * k + k <= len.
Proof.
  intros Hk H.
  assert (H1 : k * (idx + 1) <= k * (len / k)) by (apply N.mul_le_mono_l; lia).
  replace (idx * k + k) with (k * (idx + 1)) by ring.
  eapply N.le_trans; [exact H1|]. apply N.mul_div_le. exact Hk.
Qed.
