(* C05 — the meta reader keeps [offset <= data_used <= sizeof(data)] across every
   operation, failing ones included (repaired seek), never touches data[] outside
   its valid part, and a read of n bytes takes at most n rounds. *)
From Coq Require Import List NArith ZArith Bool Lia.
From SqfsV Require Import Gen.Constants Base.Bytes C05.RBase C05.Meta C05.BaseProofs.
Import ListNotations.
Local Open Scope N_scope.

(* split syntactic conjunctions only (keeps [mr_inv] folded) *)
Ltac spl := repeat match goal with |- _ /\ _ => split end.

Definition mr_inv (m : mr) : Prop :=
  lenN (m_data m) <= meta_sz /\ m_off m <= lenN (m_data m).

Lemma mr_create_inv s l : mr_inv (mr_create s l).
Proof. unfold mr_inv, mr_create; simpl. unfold meta_sz, lenN; simpl. lia. Qed.

(* contract of the decompressor oracle: total, and the output fits the buffer it was given *)
Definition codec_ok (uc : list N -> N -> res (list N)) : Prop :=
  forall inp cap, post False (uc inp cap) (fun out => lenN out <= cap).

Section P.
Variable uncompress : list N -> N -> res (list N).
Hypothesis uc_ok : codec_ok uncompress.
Variable img : list N.

Lemma mr_seek'_spec m blk off :
  mr_inv m ->
  mr_inv (fst (mr_seek' uncompress true img m blk off)) /\
  m_start (fst (mr_seek' uncompress true img m blk off)) = m_start m /\
  m_limit (fst (mr_seek' uncompress true img m blk off)) = m_limit m /\
  post False (snd (mr_seek' uncompress true img m blk off))
       (fun _ => m_off (fst (mr_seek' uncompress true img m blk off)) = off /\
                 off < lenN (m_data (fst (mr_seek' uncompress true img m blk off)))).
Proof.
  intros Hinv. pose proof Hinv as [Hd Ho]. unfold mr_seek'.
  destruct ((blk <? m_start m) || (m_limit m <=? blk)); [simpl; spl; auto|].
  destruct (blk =? m_block m).
  { destruct (lenN (m_data m) <=? off) eqn:E; simpl; [spl; auto|].
    apply N.leb_gt in E. unfold mr_inv; simpl. spl; auto; lia. }
  pose proof (read_at_post False img blk 2) as Hh.
  destruct (read_at img blk 2) as [h| | |]; simpl in Hh; try contradiction; try (simpl; spl; auto; fail).
  set (size := rdk 2 h mod 32768).
  assert (Hsz : size < 32768) by (apply N.mod_lt; discriminate).
  destruct (meta_sz <? size) eqn:E1; [simpl; spl; auto|]. apply N.ltb_ge in E1.
  destruct (m_limit m <? u64 (blk + 2 + size)); [simpl; spl; auto|].
  pose proof (mr_create_inv (m_start m) (m_limit m)) as Hc.
  assert (Hp : put_check meta_sz 0 size = Ok tt).
  { unfold put_check. destruct (0 + size <=? meta_sz) eqn:E; [reflexivity|apply N.leb_gt in E; lia]. }
  rewrite Hp.
  pose proof (read_at_post False img (u64 (blk + 2)) size) as Hr.
  destruct (read_at img (u64 (blk + 2)) size) as [raw| | |]; simpl in Hr; try contradiction;
    try (simpl; spl; auto; fail).
  destruct Hr as [Hlen _].
  (* the decoded block *)
  match goal with |- context [match ?d with Ok _ => _ | Err _ => _ | Crash => _ | OutOfFuel => _ end] =>
    assert (Hdec : post False d (fun x => lenN x <= meta_sz)) end.
  { destruct ((rdk 2 h / 32768) mod 2 =? 0).
    - eapply post_bind; [apply uc_ok|]. intros out Hout. cbv beta in Hout.
      eapply post_bind; [apply put_check_post; lia|]. intros _ _. simpl. exact Hout.
    - simpl. lia. }
  match goal with |- context [match ?d with Ok _ => _ | Err _ => _ | Crash => _ | OutOfFuel => _ end] =>
    destruct d as [dd| | |] end; simpl in Hdec; try contradiction; try (simpl; spl; auto; fail).
  destruct (lenN dd <=? off) eqn:E2; [simpl; spl; auto|].
  apply N.leb_gt in E2. unfold mr_inv; simpl. spl; auto; lia.
Qed.

Lemma mr_set_off_inv m o : lenN (m_data m) <= meta_sz -> o <= lenN (m_data m) -> mr_inv (mr_set_off m o).
Proof. unfold mr_inv; simpl; auto. Qed.

(* every round copies at least one byte, so [size] rounds are enough *)
Lemma mr_read_loop_spec (o : Prop) fuel :
  forall m size, mr_inv m -> (o \/ (N.to_nat size <= fuel)%nat) ->
  mr_inv (fst (mr_read_loop uncompress true img fuel m size)) /\
  m_start (fst (mr_read_loop uncompress true img fuel m size)) = m_start m /\
  m_limit (fst (mr_read_loop uncompress true img fuel m size)) = m_limit m /\
  post o (snd (mr_read_loop uncompress true img fuel m size)) (fun d => lenN d = size).
Proof.
  induction fuel as [|f IH]; intros m size Hinv Hf.
  - simpl. destruct (size =? 0) eqn:E; simpl.
    + apply N.eqb_eq in E. subst. spl; auto.
    + apply N.eqb_neq in E. spl; auto. destruct Hf as [Hf|Hf]; [exact Hf|lia].
  - cbn [mr_read_loop]. destruct (size =? 0) eqn:E; simpl.
    { apply N.eqb_eq in E. subst. spl; auto. }
    apply N.eqb_neq in E.
    pose proof Hinv as [Hd Ho].
    rewrite (sub64_ge _ _ Ho).
    destruct (lenN (m_data m) - m_off m =? 0) eqn:E0.
    + (* load the next block *)
      pose proof (mr_seek'_spec m (m_next m) 0 (conj Hd Ho)) as (Hi1 & Hs1 & Hl1 & Hp1).
      destruct (mr_seek' uncompress true img m (m_next m) 0) as [m1 r1]. simpl in *.
      destruct r1 as [u|e| |]; simpl in Hp1; try (simpl; spl; auto; fail); try tauto.
      destruct Hi1 as [Hd1 Ho1]. destruct Hp1 as [Hz Hp1].
      set (diff := if size <? lenN (m_data m1) then size else lenN (m_data m1)).
      assert (Hdiff : 1 <= diff /\ diff <= size /\ m_off m1 + diff <= lenN (m_data m1)).
      { unfold diff. destruct (size <? lenN (m_data m1)) eqn:E3;
          [apply N.ltb_lt in E3|apply N.ltb_ge in E3]; lia. }
      pose proof (slice_post o (m_data m1) (m_off m1) diff) as Hsl.
      unfold slice in *.
      destruct (m_off m1 + diff <=? lenN (m_data m1)) eqn:E4; [|apply N.leb_gt in E4; lia].
      simpl in Hsl.
      specialize (IH (mr_set_off m1 (m_off m1 + diff)) (size - diff)).
      destruct IH as (Hi2 & Hs2 & Hl2 & Hp2).
      { apply mr_set_off_inv; lia. }
      { destruct Hf as [Hf|Hf]; [left; exact Hf|right; lia]. }
      destruct (mr_read_loop uncompress true img f (mr_set_off m1 (m_off m1 + diff)) (size - diff)) as [m2 r2].
      simpl in *. destruct r2 as [rest|e| |]; simpl in *; spl; auto; try congruence.
      rewrite lenN_app. rewrite Hsl by lia. lia.
    + (* copy from the current block *)
      apply N.eqb_neq in E0.
      set (d0 := lenN (m_data m) - m_off m) in *.
      set (diff := if size <? d0 then size else d0).
      assert (Hdiff : 1 <= diff /\ diff <= size /\ m_off m + diff <= lenN (m_data m)).
      { unfold diff, d0. destruct (size <? lenN (m_data m) - m_off m) eqn:E3;
          [apply N.ltb_lt in E3|apply N.ltb_ge in E3]; lia. }
      pose proof (slice_post o (m_data m) (m_off m) diff) as Hsl.
      unfold slice in *.
      destruct (m_off m + diff <=? lenN (m_data m)) eqn:E4; [|apply N.leb_gt in E4; lia].
      simpl in Hsl.
      specialize (IH (mr_set_off m (m_off m + diff)) (size - diff)).
      destruct IH as (Hi2 & Hs2 & Hl2 & Hp2).
      { apply mr_set_off_inv; lia. }
      { destruct Hf as [Hf|Hf]; [left; exact Hf|right; lia]. }
      destruct (mr_read_loop uncompress true img f (mr_set_off m (m_off m + diff)) (size - diff)) as [m2 r2].
      simpl in *. destruct r2 as [rest|e| |]; simpl in *; spl; auto.
      rewrite lenN_app. rewrite Hsl by lia. lia.
Qed.

Lemma mr_read'_spec (o : Prop) fuel m cap size :
  mr_inv m -> (o \/ (N.to_nat cap <= fuel)%nat) ->
  mr_inv (fst (mr_read' uncompress true img fuel m cap size)) /\
  m_start (fst (mr_read' uncompress true img fuel m cap size)) = m_start m /\
  m_limit (fst (mr_read' uncompress true img fuel m cap size)) = m_limit m /\
  (size <= cap -> post o (snd (mr_read' uncompress true img fuel m cap size)) (fun d => lenN d = size)).
Proof.
  intros Hinv Hf. unfold mr_read', put_check.
  destruct (0 + size <=? cap) eqn:E.
  - apply N.leb_le in E.
    pose proof (mr_read_loop_spec o fuel m size Hinv) as H.
    destruct H as (A & B & C & D); [destruct Hf as [Hf|Hf]; [left; exact Hf|right; lia]|].
    spl; auto.
  - apply N.leb_gt in E. simpl. spl; auto. intros. lia.
Qed.

(* the error-propagating versions used by the rest of the stack *)
Lemma mr_seek_post o m blk off :
  mr_inv m ->
  post o (mr_seek uncompress true img m blk off)
       (fun m' => mr_inv m' /\ m_start m' = m_start m /\ m_limit m' = m_limit m).
Proof.
  intros Hinv. unfold mr_seek.
  pose proof (mr_seek'_spec m blk off Hinv) as (A & B & C & D).
  destruct (mr_seek' uncompress true img m blk off) as [m' r]. simpl in *.
  destruct r; simpl in *; auto. tauto.
Qed.

Lemma mr_read_post o fuel m cap size :
  mr_inv m -> (o \/ (N.to_nat cap <= fuel)%nat) -> size <= cap ->
  post o (mr_read uncompress true img fuel m cap size)
       (fun p => mr_inv (fst p) /\ m_start (fst p) = m_start m /\ m_limit (fst p) = m_limit m
                 /\ lenN (snd p) = size).
Proof.
  intros Hinv Hf Hsz. unfold mr_read.
  pose proof (mr_read'_spec o fuel m cap size Hinv Hf) as (A & B & C & D).
  specialize (D Hsz).
  destruct (mr_read' uncompress true img fuel m cap size) as [m' r]. simpl in *.
  destruct r; simpl in *; auto.
Qed.

(* raw operation sequences never crash and never run out of fuel (fuel >= largest read) *)
Lemma mr_ops_safe o fuel : forall ops m,
  mr_inv m ->
  (o \/ forall n, In (MRead n) ops -> (N.to_nat n <= fuel)%nat) ->
  Forall (fun r => post o r (fun _ => True)) (mr_ops uncompress true img fuel m ops).
Proof.
  induction ops as [|op ops IH]; intros m Hinv Hf; simpl; [constructor|].
  destruct op as [b off|n].
  - pose proof (mr_seek'_spec m b off Hinv) as (A & B & C & D).
    destruct (mr_seek' uncompress true img m b off) as [m' r]. simpl in *.
    constructor.
    + destruct r; simpl in *; auto. tauto.
    + apply IH; [exact A|]. destruct Hf as [Hf|Hf]; [left; exact Hf|right; intros; apply Hf; right; assumption].
  - pose proof (mr_read'_spec o fuel m n n Hinv) as (A & B & C & D).
    { destruct Hf as [Hf|Hf]; [left; exact Hf|right; apply Hf; left; reflexivity]. }
    destruct (mr_read' uncompress true img fuel m n n) as [m' r]. simpl in *.
    constructor.
    + eapply post_weaken; [apply D; lia|]. auto.
    + apply IH; [exact A|]. destruct Hf as [Hf|Hf]; [left; exact Hf|right; intros; apply Hf; right; assumption].
Qed.

End P.
