(* C05 — model of lib/sqfs/src/read_inode.c (sqfs_meta_reader_read_inode and its
   helpers) with the allocation-size arithmetic, plus the accessors of
   include/sqfs/inode.h / lib/sqfs/src/inode.c the readers use. *)
From Coq Require Import List NArith ZArith Bool.
From SqfsV Require Import Gen.Constants Base.Bytes C05.RBase C05.GenC05 C05.Meta C05.Super.
Import ListNotations.
Local Open Scope N_scope.

Record ibase := MkBase { b_type : N; b_mode : N; b_uid : N; b_gid : N; b_mtime : N; b_inum : N }.

Inductive idata :=
| IDir (start nlink size off parent : N)
| IDirExt (nlink size start parent icount off xattr : N)
| IFile (blocks_start frag_idx frag_off size : N)
| IFileExt (blocks_start size sparse nlink frag_idx frag_off xattr : N)
| ISlink (nlink tsize : N)
| ISlinkExt (nlink tsize xattr : N)
| IDev (nlink devno : N)
| IDevExt (nlink devno xattr : N)
| IIpc (nlink : N)
| IIpcExt (nlink xattr : N).

Record inode := MkInode {
  i_base : ibase;
  i_data : idata;
  i_used : N;             (* payload_bytes_used (a 32 bit field) *)
  i_words : list N;       (* extra[] of a file inode: block size words *)
  i_bytes : list N        (* extra[] of a symlink (target) / ext. directory (index) *)
}.

Definition is_dir_type (t : N) : bool := (t =? c_SQFS_INODE_DIR) || (t =? c_SQFS_INODE_EXT_DIR).
Definition is_file_type (t : N) : bool := (t =? c_SQFS_INODE_FILE) || (t =? c_SQFS_INODE_EXT_FILE).

(* set_mode: Some (S_IF* bits) for the 14 known types *)
Definition type_ifmt (t : N) : option N :=
  if (t =? c_SQFS_INODE_SOCKET) || (t =? c_SQFS_INODE_EXT_SOCKET) then Some c5_SQFS_INODE_MODE_SOCK
  else if (t =? c_SQFS_INODE_SLINK) || (t =? c_SQFS_INODE_EXT_SLINK) then Some c5_SQFS_INODE_MODE_LNK
  else if (t =? c_SQFS_INODE_FILE) || (t =? c_SQFS_INODE_EXT_FILE) then Some c5_SQFS_INODE_MODE_REG
  else if (t =? c_SQFS_INODE_BDEV) || (t =? c_SQFS_INODE_EXT_BDEV) then Some c5_SQFS_INODE_MODE_BLK
  else if (t =? c_SQFS_INODE_DIR) || (t =? c_SQFS_INODE_EXT_DIR) then Some c5_SQFS_INODE_MODE_DIR
  else if (t =? c_SQFS_INODE_CDEV) || (t =? c_SQFS_INODE_EXT_CDEV) then Some c5_SQFS_INODE_MODE_CHR
  else if (t =? c_SQFS_INODE_FIFO) || (t =? c_SQFS_INODE_EXT_FIFO) then Some c5_SQFS_INODE_MODE_FIFO
  else None.

(* get_block_count; block_size = 0 would divide by zero *)
Definition get_block_count (size bs fi fo : N) : res N :=
  if bs =? 0 then Crash
  else
    let count := size / bs in
    if negb (size mod bs =? 0) && ((fi =? max32) || (fo =? max32)) then Ok (count + 1) else Ok count.

(* the doubling loop of read_inode_dir_ext: smallest new_sz >= ... with room for [need] *)
Fixpoint grow (k : nat) (new_sz need used : N) : res N :=
  if need <=? sub64 new_sz used then Ok new_sz
  else
    match k with
    | O => OutOfFuel
    | S k' =>
      match sz_mul_ov new_sz 2 with
      | None => Err E_OVERFLOW
      | Some s => grow k' s need used
      end
    end.

Section WithCodec.
Variable uncompress : list N -> N -> res (list N).
Variable img : list N.
Let seek := mr_seek uncompress true img.
Let read := mr_read uncompress true img.

Definition gsz := c5_sizeof_sqfs_inode_generic_t.

Definition read_inode_file (fuel : nat) (m : mr) (b : ibase) (bs : N) : res (mr * inode) :=
  do (m1, raw) <- read fuel m sizeof_sqfs_inode_file_t sizeof_sqfs_inode_file_t;
  let start := fld 4 o_sqfs_inode_file_t_blocks_start raw in
  let fi := fld 4 o_sqfs_inode_file_t_fragment_index raw in
  let fo := fld 4 o_sqfs_inode_file_t_fragment_offset raw in
  let size := fld 4 o_sqfs_inode_file_t_file_size raw in
  do count <- get_block_count size bs fi fo;
  do cap <- alloc_flex E_ALLOC gsz 4 count;
  do (m2, ws) <- read fuel m1 cap (u64 (count * 4));
  (* for (i = 0; i < count; ++i) SWAB32(out->extra[i]) *)
  do _ <- put_check cap 0 (count * 4);
  Ok (m2, MkInode b (IFile start fi fo size) (u32 (count * 4)) (items 4 (nN count) ws) []).

Definition read_inode_file_ext (fuel : nat) (m : mr) (b : ibase) (bs : N) : res (mr * inode) :=
  do (m1, raw) <- read fuel m sizeof_sqfs_inode_file_ext_t sizeof_sqfs_inode_file_ext_t;
  let start := fld 8 o_sqfs_inode_file_ext_t_blocks_start raw in
  let size := fld 8 o_sqfs_inode_file_ext_t_file_size raw in
  let sparse := fld 8 o_sqfs_inode_file_ext_t_sparse raw in
  let nlink := fld 4 o_sqfs_inode_file_ext_t_nlink raw in
  let fi := fld 4 o_sqfs_inode_file_ext_t_fragment_idx raw in
  let fo := fld 4 o_sqfs_inode_file_ext_t_fragment_offset raw in
  let xattr := fld 4 o_sqfs_inode_file_ext_t_xattr_idx raw in
  do count <- get_block_count size bs fi fo;
  do cap <- match sz_mul_ov count 4 with
            | None => Err E_OVERFLOW
            | Some s => match sz_add_ov gsz s with
                        | None => Err E_OVERFLOW
                        | Some t => do _ <- malloc_chk t; Ok s
                        end
            end;
  do (m2, ws) <- read fuel m1 cap (u64 (count * 4));
  do _ <- put_check cap 0 (count * 4);
  Ok (m2, MkInode b (IFileExt start size sparse nlink fi fo xattr) (u32 (count * 4))
                  (items 4 (nN count) ws) []).

Definition read_inode_slink (fuel : nat) (m : mr) (b : ibase) : res (mr * (N * N * list N)) :=
  do (m1, raw) <- read fuel m sizeof_sqfs_inode_slink_t sizeof_sqfs_inode_slink_t;
  let nlink := fld 4 o_sqfs_inode_slink_t_nlink raw in
  let tsize := fld 4 o_sqfs_inode_slink_t_target_size raw in
  match sz_add_ov tsize 1 with
  | None => Err E_OVERFLOW
  | Some s1 =>
    match sz_add_ov gsz s1 with
    | None => Err E_OVERFLOW
    | Some total =>
      do _ <- malloc_chk total;
      (* payload room = size - sizeof( *out) *)
      do (m2, tgt) <- read fuel m1 (total - gsz) tsize;
      Ok (m2, (nlink, tsize, tgt))
    end
  end.

(* one iteration of the index loop of read_inode_dir_ext *)
Fixpoint dx_loop (fuel : nat) (n : nat) (m : mr) (index_max index_used : N) (acc : list N)
  : res (mr * N * list N) :=
  match n with
  | O => Ok (m, index_used, acc)
  | S n' =>
    do (m1, ent) <- read fuel m sizeof_sqfs_dir_index_t sizeof_sqfs_dir_index_t;
    let esz := fld 4 o_sqfs_dir_index_t_size ent in
    do new_sz <- grow 64 index_max (sizeof_sqfs_dir_index_t + esz + 1) index_used;
    do imax <- (if index_max <? new_sz then do _ <- malloc_chk (u64 (gsz + new_sz)); Ok new_sz
                else Ok index_max);
    (* memcpy((char * )out->extra + index_used, &ent, sizeof(ent)) *)
    do _ <- put_check imax index_used sizeof_sqfs_dir_index_t;
    let used1 := index_used + sizeof_sqfs_dir_index_t in
    (* ent.size + 1 is computed in 32 bits *)
    do (m2, nm) <- read fuel m1 (imax - used1) (u32 (esz + 1));
    dx_loop fuel n' m2 imax (used1 + u32 (esz + 1)) (acc ++ ent ++ nm)
  end.

Definition read_inode_dir_ext (fuel : nat) (m : mr) (b : ibase) : res (mr * inode) :=
  do (m1, raw) <- read fuel m sizeof_sqfs_inode_dir_ext_t sizeof_sqfs_inode_dir_ext_t;
  let nlink := fld 4 o_sqfs_inode_dir_ext_t_nlink raw in
  let size := fld 4 o_sqfs_inode_dir_ext_t_size raw in
  let start := fld 4 o_sqfs_inode_dir_ext_t_start_block raw in
  let parent := fld 4 o_sqfs_inode_dir_ext_t_parent_inode raw in
  let icount := fld 2 o_sqfs_inode_dir_ext_t_inodex_count raw in
  let off := fld 2 o_sqfs_inode_dir_ext_t_offset raw in
  let xattr := fld 4 o_sqfs_inode_dir_ext_t_xattr_idx raw in
  let d := IDirExt nlink size start parent icount off xattr in
  if size =? 0 then Ok (m1, MkInode b d 0 [] [])
  else
    do (m2, used, idx) <- dx_loop fuel (nN icount) m1 128 0 [];
    Ok (m2, MkInode b d (u32 used) [] idx).

(* sqfs_meta_reader_read_inode(ir, super, block_start, offset) *)
Definition read_inode (fuel : nat) (m : mr) (s : sup) (block_start offset : N) : res (mr * inode) :=
  do m0 <- seek m (u64 (block_start + s_inode_start s)) offset;
  do (m1, raw) <- read fuel m0 sizeof_sqfs_inode_t sizeof_sqfs_inode_t;
  let t := fld 2 o_sqfs_inode_t_type raw in
  let mode := fld 2 o_sqfs_inode_t_mode raw in
  match type_ifmt t with
  | None => Err E_UNSUPPORTED
  | Some ifmt =>
    (* mode & ~S_IFMT | S_IF<type>; S_IFMT covers the top four bits of the 16 bit field *)
    let b := MkBase t (mode mod 4096 + ifmt) (fld 2 o_sqfs_inode_t_uid_idx raw) (fld 2 o_sqfs_inode_t_gid_idx raw)
                    (fld 4 o_sqfs_inode_t_mod_time raw) (fld 4 o_sqfs_inode_t_inode_number raw) in
    if t =? c_SQFS_INODE_FILE then read_inode_file fuel m1 b (s_block_size s)
    else if t =? c_SQFS_INODE_SLINK then
      do (m2, (nlink, tsize, tgt)) <- read_inode_slink fuel m1 b;
      Ok (m2, MkInode b (ISlink nlink tsize) (u32 tsize) [] tgt)
    else if t =? c_SQFS_INODE_EXT_FILE then read_inode_file_ext fuel m1 b (s_block_size s)
    else if t =? c_SQFS_INODE_EXT_SLINK then
      do (m2, (nlink, tsize, tgt)) <- read_inode_slink fuel m1 b;
      do (m3, x) <- read fuel m2 4 4;
      Ok (m3, MkInode b (ISlinkExt nlink tsize (rdk 4 x)) (u32 tsize) [] tgt)
    else if t =? c_SQFS_INODE_EXT_DIR then read_inode_dir_ext fuel m1 b
    else if t =? c_SQFS_INODE_DIR then
      do (m2, r) <- read fuel m1 sizeof_sqfs_inode_dir_t sizeof_sqfs_inode_dir_t;
      Ok (m2, MkInode b (IDir (fld 4 o_sqfs_inode_dir_t_start_block r) (fld 4 o_sqfs_inode_dir_t_nlink r)
                              (fld 2 o_sqfs_inode_dir_t_size r) (fld 2 o_sqfs_inode_dir_t_offset r)
                              (fld 4 o_sqfs_inode_dir_t_parent_inode r)) 0 [] [])
    else if (t =? c_SQFS_INODE_BDEV) || (t =? c_SQFS_INODE_CDEV) then
      do (m2, r) <- read fuel m1 sizeof_sqfs_inode_dev_t sizeof_sqfs_inode_dev_t;
      Ok (m2, MkInode b (IDev (fld 4 o_sqfs_inode_dev_t_nlink r) (fld 4 o_sqfs_inode_dev_t_devno r)) 0 [] [])
    else if (t =? c_SQFS_INODE_FIFO) || (t =? c_SQFS_INODE_SOCKET) then
      do (m2, r) <- read fuel m1 sizeof_sqfs_inode_ipc_t sizeof_sqfs_inode_ipc_t;
      Ok (m2, MkInode b (IIpc (fld 4 o_sqfs_inode_ipc_t_nlink r)) 0 [] [])
    else if (t =? c_SQFS_INODE_EXT_BDEV) || (t =? c_SQFS_INODE_EXT_CDEV) then
      do (m2, r) <- read fuel m1 sizeof_sqfs_inode_dev_ext_t sizeof_sqfs_inode_dev_ext_t;
      Ok (m2, MkInode b (IDevExt (fld 4 o_sqfs_inode_dev_ext_t_nlink r) (fld 4 o_sqfs_inode_dev_ext_t_devno r)
                                 (fld 4 o_sqfs_inode_dev_ext_t_xattr_idx r)) 0 [] [])
    else
      do (m2, r) <- read fuel m1 sizeof_sqfs_inode_ipc_ext_t sizeof_sqfs_inode_ipc_ext_t;
      Ok (m2, MkInode b (IIpcExt (fld 4 o_sqfs_inode_ipc_ext_t_nlink r) (fld 4 o_sqfs_inode_ipc_ext_t_xattr_idx r)) 0 [] [])
  end.

End WithCodec.

(* ---- accessors ---- *)
Definition inode_file_size (i : inode) : res N :=
  match i_data i with IFile _ _ _ sz => Ok sz | IFileExt _ sz _ _ _ _ _ => Ok sz | _ => Err E_NOT_FILE end.
Definition inode_frag_location (i : inode) : N * N :=
  match i_data i with IFile _ fi fo _ => (fi, fo) | IFileExt _ _ _ _ fi fo _ => (fi, fo) | _ => (0, 0) end.
Definition inode_block_start (i : inode) : N :=
  match i_data i with IFile st _ _ _ => st | IFileExt st _ _ _ _ _ _ => st | _ => 0 end.
(* sqfs_inode_get_file_block_count *)
Definition inode_block_count (i : inode) : N := i_used i / 4.
Definition inode_xattr_index (i : inode) : N :=
  match i_data i with
  | IDirExt _ _ _ _ _ _ x => x | IFileExt _ _ _ _ _ _ x => x | ISlinkExt _ _ x => x
  | IDevExt _ _ x => x | IIpcExt _ x => x | _ => max32
  end.
