(* C05 — model of lib/sqfs/src/readdir.c, dir_reader.c (flags = 0, as all tools
   create it), lib/common/src/read_tree.c (fill_dir / would_be_own_parent /
   resolve_ids, flags = 0, path = NULL) and dir_tree.c (path assembly). *)
From Coq Require Import List NArith ZArith Bool.
From SqfsV Require Import Gen.Constants Base.Bytes C05.RBase C05.GenC05 C05.Meta C05.Super C05.Inode.
Import ListNotations.
Local Open Scope N_scope.

Record rdstate := MkRd {
  r_iblock : N; r_block : N; r_off : N; r_size : N; r_entries : N; r_ibase : N
}.

Record dent := MkDent { d_off : N; d_diff : N (* raw 16 bit *); d_type : N; d_size : N; d_name : list N }.

(* sqfs_readdir_state_init *)
Definition readdir_init (s : sup) (i : inode) : res rdstate :=
  match i_data i with
  (* (the size members are 16 / 32 bit fields) *)
  | IDir start _ size off _ => Ok (MkRd 0 (u64 (start + s_dir_start s)) off (u32 size) 0 0)
  | IDirExt _ size start _ _ off _ => Ok (MkRd 0 (u64 (start + s_dir_start s)) off (u32 size) 0 0)
  | _ => Err E_NOT_DIR
  end.

(* C string view of a byte buffer: up to the first NUL *)
Fixpoint cstr (l : list N) : list N :=
  match l with
  | [] => []
  | c :: r => if c =? 0 then [] else c :: cstr r
  end.

Definition hdr_sz := sizeof_sqfs_dir_header_t.
Definition ent_sz := sizeof_sqfs_dir_node_t.

Section WithCodec.
Variable uncompress : list N -> N -> res (list N).
Variable img : list N.
Let seek := mr_seek uncompress true img.
Let read := mr_read uncompress true img.

(* sqfs_meta_reader_readdir: None = end of listing; Some (entry, inode number, inode ref) *)
Definition mr_readdir (fuel : nat) (m : mr) (it : rdstate) : res (mr * rdstate * option (dent * N * N)) :=
  let eof := MkRd (r_iblock it) (r_block it) (r_off it) 0 0 (r_ibase it) in
  do (m1, it1, go) <-
    (if r_entries it =? 0 then
       if r_size it <=? hdr_sz then Ok (m, it, false)
       else
         do m0 <- seek m (r_block it) (r_off it);
         do (m1, h) <- read fuel m0 hdr_sz hdr_sz;
         let count := fld 4 o_sqfs_dir_header_t_count h in
         if c_SQFS_MAX_DIR_ENT - 1 <? count then Err E_CORRUPTED
         else
           let '(blk, off) := mr_position m1 in
           Ok (m1, MkRd (fld 4 o_sqfs_dir_header_t_start_block h) blk off (r_size it - hdr_sz) (count + 1)
                        (fld 4 o_sqfs_dir_header_t_inode_number h), true)
     else Ok (m, it, true));
  if negb go then Ok (m1, eof, None)
  else if r_size it1 <=? ent_sz then
    Ok (m1, MkRd (r_iblock it1) (r_block it1) (r_off it1) 0 0 (r_ibase it1), None)
  else
    do m2 <- seek m1 (r_block it1) (r_off it1);
    do (m3, e) <- read fuel m2 ent_sz ent_sz;
    let esize := fld 2 o_sqfs_dir_node_t_size e in
    (* out = calloc(1, sizeof( *out) + ent.size + 2); read ent.size + 1 name bytes *)
    do (m4, nm) <- read fuel m3 (esize + 2) (esize + 1);
    let '(blk, off) := mr_position m4 in
    let sz1 := r_size it1 - ent_sz in
    let count := esize + 1 in
    let sz2 := if sz1 <=? count then 0 else sz1 - count in
    let d := MkDent (fld 2 o_sqfs_dir_node_t_offset e) (fld 2 o_sqfs_dir_node_t_inode_diff e)
                    (fld 2 o_sqfs_dir_node_t_type e) esize nm in
    (* inum_base + (s16)inode_diff in 32 bits *)
    let sdiff := if d_diff d <? 32768 then d_diff d else d_diff d + two32 - 65536 in
    let inum := u32 (r_ibase it1 + sdiff) in
    let iref := r_iblock it1 * 65536 + d_off d in
    Ok (m4, MkRd (r_iblock it1) blk off sz2 (r_entries it1 - 1) (r_ibase it1), Some (d, inum, iref)).

(* ---- dir reader (two meta readers and the super block) ---- *)
Record dreader := MkDr { dr_dir : mr; dr_ino : mr }.

Definition dreader_create (s : sup) : dreader :=
  let limit0 := s_id_start s in
  let limit1 := if s_frag_start s <? limit0 then s_frag_start s else limit0 in
  let limit2 := if s_export_start s <? limit1 then s_export_start s else limit1 in
  MkDr (mr_create (s_dir_start s) limit2) (mr_create (s_inode_start s) (s_dir_start s)).

(* sqfs_dir_reader_get_inode *)
Definition dr_get_inode (fuel : nat) (s : sup) (dr : dreader) (ref : N) : res (dreader * inode) :=
  do (m, i) <- read_inode uncompress img fuel (dr_ino dr) s (ref / 65536) (ref mod 65536);
  Ok (MkDr (dr_dir dr) m, i).

(* ---- the tree of lib/common/src/read_tree.c ---- *)
Inductive tree := Node (name : list N) (ino : inode) (uid gid : N) (children : list tree).

(* pre-order list of the nodes of a tree / of a list of trees *)
Fixpoint flatten (t : tree) : list (list N * inode) :=
  match t with
  | Node nm ino _ _ ch =>
    (nm, ino) :: (fix go (l : list tree) : list (list N * inode) :=
                    match l with [] => [] | c :: r => flatten c ++ go r end) ch
  end.
Definition flat_all (l : list tree) : list (list N * inode) :=
  (fix go (l : list tree) : list (list N * inode) :=
     match l with [] => [] | c :: r => flatten c ++ go r end) l.

Fixpoint mem_N (x : N) (l : list N) : bool :=
  match l with [] => false | y :: r => (x =? y) || mem_N x r end.

(* first loop of fill_dir: read every entry, fetch its inode, refuse an inode number
   that already occurs among the ancestors.  [anc] = inode numbers of the directory
   being filled and of all its parents. *)
Fixpoint fill_entries (k : nat) (fuel : nat) (s : sup) (dr : dreader) (anc : list N) (it : rdstate)
  : res (dreader * list (list N * inode)) :=
  match k with
  | O => OutOfFuel
  | S f =>
    do (md, it', r) <- mr_readdir fuel (dr_dir dr) it;
    let dr1 := MkDr md (dr_ino dr) in
    match r with
    | None => Ok (dr1, [])
    | Some (d, _, iref) =>
      do (dr2, ino) <- dr_get_inode fuel s dr1 iref;
      if mem_N (b_inum (i_base ino)) anc then Err E_LINK_LOOP
      else
        do (dr3, rest) <- fill_entries f fuel s dr2 anc it';
        Ok (dr3, (cstr (d_name d), ino) :: rest)
    end
  end.

(* resolve_ids for one node: a failed uid lookup skips the gid lookup; the values
   stay 0 (calloc) *)
Definition node_ids (ids : list N) (i : inode) : N * N * bool :=
  match id_lookup ids (b_uid (i_base i)) with
  | Ok u => match id_lookup ids (b_gid (i_base i)) with
            | Ok g => (u, g, true)
            | _ => (u, 0, false)
            end
  | _ => (0, 0, false)
  end.

(* fill_dir: [depth] bounds the C recursion (one stack frame per directory level),
   [efuel] the entries of one listing, [fuel] the meta reader's block loop *)
Fixpoint fill_dir (depth : nat) (efuel fuel : nat) (s : sup) (ids : list N) (dr : dreader) (anc : list N)
                  (it : rdstate) : res (dreader * list tree) :=
  match depth with
  | O => OutOfFuel
  | S depth' =>
    do (dr1, ents) <- fill_entries efuel fuel s dr anc it;
    (fix children (l : list (list N * inode)) (dr : dreader) : res (dreader * list tree) :=
       match l with
       | [] => Ok (dr, [])
       | (nm, ino) :: rest =>
         let '(u, g, _) := node_ids ids ino in
         if is_dir_type (b_type (i_base ino)) then
           do it' <- readdir_init s ino;
           do (dr2, sub) <- fill_dir depth' efuel fuel s ids dr (b_inum (i_base ino) :: anc) it';
           do (dr3, sibs) <- children rest dr2;
           Ok (dr3, Node nm ino u g sub :: sibs)
         else
           do (dr3, sibs) <- children rest dr;
           Ok (dr3, Node nm ino u g [] :: sibs)
       end) ents dr1
  end.

(* sqfs_dir_reader_get_full_hierarchy(rd, idtbl, NULL, 0, &out) *)
Definition full_hierarchy (depth efuel fuel : nat) (s : sup) (ids : list N) (dr : dreader) : res (dreader * tree) :=
  do (dr1, root) <- dr_get_inode fuel s dr (s_root s);
  do (dr2, ch) <-
    (if is_dir_type (b_type (i_base root)) then
       do it <- readdir_init s root;
       fill_dir depth efuel fuel s ids dr1 [b_inum (i_base root)] it
     else Ok (dr1, []));
  let '(u, g, ok) := node_ids ids root in
  if ok then Ok (dr2, Node [] root u g ch)
  else Err E_OOB.

End WithCodec.

(* ---- sqfs_tree_node_get_path: the two passes over the parent chain ----
   [names] = names from the node up to (excluding) the root. *)
Definition name_ok (n : list N) : bool :=
  negb (lenN n =? 0) && negb (mem_N 47 n)
  && negb (match n with [46] => true | [46; 46] => true | _ => false end).

Fixpoint path_len (names : list (list N)) : N :=
  match names with [] => 0 | n :: r => lenN n + 1 + path_len r end.

(* second pass: ptr walks down from str + len - 1; Crash if it would leave the buffer *)
Fixpoint path_fill (names : list (list N)) (ptr : N) (acc : list N) : res (N * list N) :=
  match names with
  | [] => Ok (ptr, acc)
  | n :: r =>
    if ptr <? lenN n + 1 then Crash
    else path_fill r (ptr - lenN n - 1) (47 :: n ++ acc)
  end.

Definition get_path (names : list (list N)) : res (list N) :=
  if negb (forallb name_ok names) then Err E_CORRUPTED
  else
    match names with
    | [] => Ok [47]
    | _ =>
      let len := path_len names + 1 in
      do _ <- malloc_chk len;
      do (p, s) <- path_fill names (len - 1) [];
      Ok s
    end.
