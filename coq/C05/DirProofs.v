(* C05 — readdir size accounting, the tree walk of read_tree.c (ancestor check bounds
   the recursion depth, every node's inode is well formed) and the path assembly of
   dir_tree.c. *)
From Coq Require Import List NArith ZArith Bool Lia.
From SqfsV Require Import Gen.Constants Base.Bytes C05.RBase C05.GenC05 C05.Meta C05.Super C05.Inode C05.Dir
  C05.BaseProofs C05.MetaProofs C05.SuperProofs C05.InodeProofs.
Import ListNotations.
Local Open Scope N_scope.

(* pigeonhole: a duplicate-free list of numbers below n has at most n elements *)
Lemma nodup_bounded : forall (n : nat) (l : list N),
  NoDup l -> (forall x, In x l -> x < N.of_nat n) -> (length l <= n)%nat.
Proof.
  induction n as [|n IH]; intros l Hnd Hb.
  - destruct l as [|x r]; [simpl; lia|]. specialize (Hb x (or_introl eq_refl)). lia.
  - destruct (in_dec N.eq_dec (N.of_nat n) l) as [Hin|Hnin].
    + apply in_split in Hin. destruct Hin as (l1 & l2 & ->).
      apply NoDup_remove in Hnd. destruct Hnd as [Hnd Hni].
      assert (length (l1 ++ l2) <= n)%nat.
      { apply IH; [exact Hnd|]. intros x Hx.
        assert (x <> N.of_nat n) by (intro; subst; contradiction).
        assert (x < N.of_nat (S n)).
        { apply Hb. apply in_app_or in Hx. apply in_or_app. destruct Hx; [left|right; right]; assumption. }
        lia. }
      rewrite app_length in *. simpl. lia.
    + assert (length l <= n)%nat; [|lia].
      apply IH; [exact Hnd|]. intros x Hx.
      assert (x <> N.of_nat n) by (intro; subst; contradiction).
      specialize (Hb x Hx). lia.
Qed.

Lemma mem_N_false x l : mem_N x l = false -> ~ In x l.
Proof.
  induction l as [|y r IH]; simpl; [tauto|]. intros H. apply orb_false_iff in H. destruct H as [H1 H2].
  apply N.eqb_neq in H1. intros [E|E]; [congruence|]. apply IH; assumption.
Qed.

Definition efuel_ok (o : Prop) (efuel : nat) : Prop := o \/ (N.to_nat (two32 + 1) <= efuel)%nat.
Definition depth_ok (o : Prop) (depth : nat) (anc : list N) : Prop :=
  o \/ two32 + 2 <= N.of_nat depth + lenN anc.

Definition dr_inv (dr : dreader) : Prop := mr_inv (dr_dir dr) /\ mr_inv (dr_ino dr).

Definition nodes_wf (l : list (list N * inode)) : Prop := Forall (fun e => inode_wf (snd e)) l.

Lemma flat_all_cons c r : flat_all (c :: r) = flatten c ++ flat_all r.
Proof. reflexivity. Qed.
Lemma flatten_node nm ino u g ch : flatten (Node nm ino u g ch) = (nm, ino) :: flat_all ch.
Proof. reflexivity. Qed.

Lemma readdir_init_post o s i : post o (readdir_init s i) (fun it => r_size it < two32).
Proof.
  unfold readdir_init. destruct (i_data i); try exact I; simpl; apply u32_lt.
Qed.

Section P.
Variable uncompress : list N -> N -> res (list N).
Hypothesis uc_ok : codec_ok uncompress.
Variable img : list N.

Ltac usz := unfold hdr_sz, ent_sz, fuel_bound, alloc_limit, gsz, c5_sizeof_sqfs_inode_generic_t, sizeof_sqfs_inode_t,
  sizeof_sqfs_dir_header_t, sizeof_sqfs_dir_node_t, two64, two32 in *.
Ltac const_le := first [lia | (usz; lia)].
Ltac rd_step Hf :=
  eapply post_bind;
  [ apply (mr_read_post uncompress uc_ok img);
    [ assumption
    | apply fuel_ok_cap; [exact Hf | try const_le]
    | try const_le ]
  | ].

(* each entry returned shrinks the size still to be read *)
Lemma mr_readdir_spec o fuel m it :
  fuel_ok o fuel -> mr_inv m ->
  post o (mr_readdir uncompress img fuel m it)
       (fun p => mr_inv (fst (fst p)) /\
                 (forall x, snd p = Some x -> r_size (snd (fst p)) < r_size it)).
Proof.
  intros Hf Hinv. unfold mr_readdir. cbv zeta.
  eapply post_bind.
  { instantiate (1 := fun p => mr_inv (fst (fst p)) /\ r_size (snd (fst p)) <= r_size it).
    destruct (r_entries it =? 0).
    - destruct (r_size it <=? hdr_sz) eqn:E; [simpl; split; [exact Hinv|lia]|]. apply N.leb_gt in E.
      eapply post_bind; [apply (mr_seek_post uncompress uc_ok img o); exact Hinv|].
      intros m0 (Hi0 & _ & _). cbv beta.
      rd_step Hf. intros [m1 h] (Hi1 & _ & _ & _). simpl in Hi1. cbv beta iota.
      destruct (c_SQFS_MAX_DIR_ENT - 1 <? fld 4 o_sqfs_dir_header_t_count h); [exact I|].
      destruct (mr_position m1) as [blk off]. simpl. split; [exact Hi1|lia].
    - simpl. split; [exact Hinv|lia]. }
  intros [[m1 it1] go] [Hi1 Hsz]. simpl in Hi1, Hsz. cbv beta iota.
  destruct (negb go); [simpl; split; [exact Hi1|intros x Hx; discriminate]|].
  destruct (r_size it1 <=? ent_sz) eqn:E; [simpl; split; [exact Hi1|intros x Hx; discriminate]|].
  apply N.leb_gt in E.
  eapply post_bind; [apply (mr_seek_post uncompress uc_ok img o); exact Hi1|].
  intros m2 (Hi2 & _ & _). cbv beta.
  rd_step Hf. intros [m3 e] (Hi3 & _ & _ & _). simpl in Hi3. cbv beta iota.
  pose proof (fld2_lt o_sqfs_dir_node_t_size e) as Hes.
  rd_step Hf. intros [m4 nm] (Hi4 & _ & _ & _). simpl in Hi4. cbv beta iota.
  destruct (mr_position m4) as [blk off]. simpl. split; [exact Hi4|]. intros x _.
  set (esize := fld 2 o_sqfs_dir_node_t_size e) in *.
  destruct (r_size it1 - ent_sz <=? esize + 1) eqn:E2; [|apply N.leb_gt in E2]; usz; lia.
Qed.

Lemma dr_get_inode_spec o fuel s dr ref :
  fuel_ok o fuel -> dr_inv dr -> s_block_size s <> 0 ->
  post o (dr_get_inode uncompress img fuel s dr ref) (fun p => dr_inv (fst p) /\ inode_wf (snd p)).
Proof.
  intros Hf [Hd Hi] Hbs. unfold dr_get_inode.
  eapply post_bind; [apply (read_inode_spec uncompress uc_ok img); assumption|].
  intros [m i] [Hm Hw]. simpl in *. split; [split; assumption|exact Hw].
Qed.

Lemma fill_entries_spec o fuel s anc : forall k dr it,
  fuel_ok o fuel -> dr_inv dr -> s_block_size s <> 0 ->
  (o \/ r_size it < N.of_nat k) ->
  post o (fill_entries uncompress img k fuel s dr anc it)
       (fun p => dr_inv (fst p) /\
                 Forall (fun e => inode_wf (snd e) /\ mem_N (b_inum (i_base (snd e))) anc = false) (snd p)).
Proof.
  induction k as [|k IH]; intros dr it Hf Hdr Hbs Hk; cbn [fill_entries].
  - destruct Hk as [Hk|Hk]; [exact Hk|lia].
  - destruct Hdr as [Hd Hi].
    eapply post_bind; [apply mr_readdir_spec; [exact Hf|exact Hd]|].
    intros [[md it'] r] [Hmd Hdec]. simpl in Hmd, Hdec. cbv beta iota.
    destruct r as [[[d inum] iref]|]; [|simpl; split; [split; assumption|constructor]].
    eapply post_bind; [apply dr_get_inode_spec; [exact Hf|split; assumption|exact Hbs]|].
    intros [dr2 ino] [Hdr2 Hw]. simpl in Hdr2, Hw. cbv beta iota.
    destruct (mem_N (b_inum (i_base ino)) anc) eqn:Em; [exact I|].
    eapply post_bind.
    { apply IH; [exact Hf|exact Hdr2|exact Hbs|].
      destruct Hk as [Hk|Hk]; [left; exact Hk|right].
      specialize (Hdec _ eq_refl). lia. }
    intros [dr3 rest] [Hdr3 Hall]. simpl in Hdr3, Hall. simpl.
    split; [exact Hdr3|]. constructor; [simpl; split; assumption|exact Hall].
Qed.

Lemma node_ids_any ids ino : exists u g ok, node_ids ids ino = (u, g, ok).
Proof. destruct (node_ids ids ino) as [[u g] ok]. eauto. Qed.

(* the recursion: depth + number of ancestors is constant, the ancestors are pairwise
   different 32 bit numbers, so 2^32 + 2 levels can never be used up *)
Lemma fill_dir_spec o efuel fuel s ids : forall depth dr anc it,
  fuel_ok o fuel -> efuel_ok o efuel -> dr_inv dr -> s_block_size s <> 0 ->
  NoDup anc -> (forall x, In x anc -> x < two32) -> depth_ok o depth anc ->
  r_size it < two32 ->
  post o (fill_dir uncompress img depth efuel fuel s ids dr anc it)
       (fun p => dr_inv (fst p) /\ nodes_wf (flat_all (snd p))).
Proof.
  induction depth as [|depth IH]; intros dr anc it Hf He Hdr Hbs Hnd Hb Hdep Hsz; cbn [fill_dir].
  - destruct Hdep as [Hd|Hd]; [exact Hd|]. exfalso.
    assert (length anc <= N.to_nat two32)%nat.
    { apply nodup_bounded; [exact Hnd|]. intros x Hx. rewrite N2Nat.id. apply Hb. exact Hx. }
    unfold lenN in Hd. lia.
  - eapply post_bind.
    { apply fill_entries_spec; [exact Hf|exact Hdr|exact Hbs|].
      destruct He as [He|He]; [left; exact He|right]. lia. }
    intros [dr1 ents] [Hdr1 Hents]. simpl in Hdr1, Hents. cbv beta iota.
    clear Hdr dr. revert dr1 Hdr1.
    induction ents as [|[nm ino] rest IHe]; intros dr1 Hdr1.
    + simpl. split; [exact Hdr1|constructor].
    + inversion Hents as [|x l [Hw Hm] Hrest]; subst. simpl in Hw, Hm.
      destruct (node_ids ids ino) as [[u g] okk].
      destruct (is_dir_type (b_type (i_base ino))).
      * eapply post_bind; [apply readdir_init_post|]. intros it' Hit'. cbv beta in Hit'.
        eapply post_bind.
        { apply IH; auto.
          - constructor; [apply mem_N_false; exact Hm|exact Hnd].
          - intros x [Hx|Hx]; [subst; apply Hw|apply Hb; exact Hx].
          - destruct Hdep as [Hd|Hd]; [left; exact Hd|right]. rewrite lenN_cons. lia. }
        intros [dr2 sub] [Hdr2 Hsub]. simpl in Hdr2, Hsub. cbv beta iota.
        eapply post_bind; [apply IHe; [exact Hrest|exact Hdr2]|].
        intros [dr3 sibs] [Hdr3 Hsibs]. cbn [fst snd] in Hdr3, Hsibs. apply post_ok. cbn [fst snd].
        split; [exact Hdr3|]. unfold nodes_wf. rewrite flat_all_cons, flatten_node.
        apply Forall_app. split; [constructor; [exact Hw|exact Hsub]|exact Hsibs].
      * eapply post_bind; [apply IHe; [exact Hrest|exact Hdr1]|].
        intros [dr3 sibs] [Hdr3 Hsibs]. cbn [fst snd] in Hdr3, Hsibs. apply post_ok. cbn [fst snd].
        split; [exact Hdr3|]. unfold nodes_wf. rewrite flat_all_cons, flatten_node.
        apply Forall_app. split; [constructor; [exact Hw|constructor]|exact Hsibs].
Qed.

Lemma full_hierarchy_spec o depth efuel fuel s ids dr :
  fuel_ok o fuel -> efuel_ok o efuel -> dr_inv dr -> s_block_size s <> 0 ->
  (o \/ two32 + 3 <= N.of_nat depth) ->
  post o (full_hierarchy uncompress img depth efuel fuel s ids dr)
       (fun p => dr_inv (fst p) /\ nodes_wf (flatten (snd p))).
Proof.
  intros Hf He Hdr Hbs Hd. unfold full_hierarchy.
  eapply post_bind; [apply dr_get_inode_spec; assumption|].
  intros [dr1 root] [Hdr1 Hw]. simpl in Hdr1, Hw. cbv beta iota.
  eapply post_bind.
  { instantiate (1 := fun p => dr_inv (fst p) /\ nodes_wf (flat_all (snd p))).
    destruct (is_dir_type (b_type (i_base root))).
    - eapply post_bind; [apply readdir_init_post|]. intros it Hit. cbv beta in Hit.
      apply fill_dir_spec; auto.
      + constructor; [simpl; tauto|constructor].
      + intros x [Hx|[]]. subst. apply Hw.
      + destruct Hd as [Hd|Hd]; [left; exact Hd|right]. rewrite lenN_cons, (@lenN_nil N). lia.
    - simpl. split; [exact Hdr1|constructor]. }
  intros [dr2 ch] [Hdr2 Hch]. simpl in Hdr2, Hch. cbv beta iota.
  destruct (node_ids ids root) as [[u g] okk]. destruct okk; [|exact I].
  apply post_ok. cbn [fst snd]. split; [exact Hdr2|]. unfold nodes_wf. rewrite flatten_node. constructor; [exact Hw|exact Hch].
Qed.

End P.

(* ---- path assembly: the second pass ends exactly at the start of the buffer ---- *)
Lemma path_fill_spec o : forall names ptr acc,
  path_len names <= ptr ->
  post o (path_fill names ptr acc)
       (fun p => fst p = ptr - path_len names /\ lenN (snd p) = path_len names + lenN acc).
Proof.
  induction names as [|n r IH]; intros ptr acc H; cbn [path_fill path_len] in *.
  - simpl. split; [lia|lia].
  - destruct (ptr <? lenN n + 1) eqn:E; [apply N.ltb_lt in E; lia|]. apply N.ltb_ge in E.
    eapply post_weaken; [apply IH; lia|]. intros [p s] [H1 H2]. simpl in *.
    split; [lia|]. rewrite H2. rewrite lenN_cons, lenN_app. lia.
Qed.

Lemma get_path_safe o names : post o (get_path names) (fun p => lenN p = N.max 1 (path_len names)).
Proof.
  unfold get_path. destruct (negb (forallb name_ok names)); [exact I|].
  destruct names as [|n r]; [simpl; reflexivity|].
  set (l := n :: r).
  eapply post_bind; [apply malloc_chk_post|]. intros u _.
  eapply post_bind; [apply path_fill_spec; lia|]. intros [p s] [H1 H2]. simpl in *.
  rewrite H2. rewrite (@lenN_nil N). unfold l. cbn [path_len]. lia.
Qed.
