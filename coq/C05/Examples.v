(* C05 — concrete objects for the non-vacuity examples and the [_refuted] witnesses. *)
From Coq Require Import List NArith ZArith Bool.
From SqfsV Require Import Gen.Constants Base.Bytes C05.RBase C05.GenC05 C05.Meta C05.Super C05.Inode C05.Dir
  C05.Data C05.Xattr C05.Run.
Import ListNotations.
Local Open Scope N_scope.

(* a codec that refuses everything (the example images store everything uncompressed) *)
Definition nocodec : N -> list N -> N -> res (list N) := fun _ _ _ => Err E_COMPRESSOR.

(* written by vlib/sqfsimg.py Builder (pad=0): / (dir) with f = "hello" and l -> f *)
Definition tiny_img : list N := [104;115;113;115;3;0;0;0;0;0;0;0;0;16;0;0;0;0;0;0;1;0;12;0;27;10;1;0;4;0;0;0;61;0;0;0;0;0;0;0;242;0;0;0;0;0;0;0;234;0;0;0;0;0;0;0;255;255;255;255;255;255;255;255;101;0;0;0;0;0;0;0;196;0;0;0;0;0;0;0;255;255;255;255;255;255;255;255;255;255;255;255;255;255;255;255;104;101;108;108;111;93;128;2;0;164;1;0;0;0;0;0;0;0;0;1;0;0;0;96;0;0;0;255;255;255;255;0;0;0;0;5;0;0;0;5;0;0;1;3;0;255;1;0;0;0;0;0;0;0;0;2;0;0;0;1;0;0;0;1;0;0;0;102;1;0;237;1;0;0;0;0;0;0;0;0;3;0;0;0;0;0;0;0;2;0;0;0;33;0;0;0;4;0;0;0;30;128;1;0;0;0;0;0;0;0;1;0;0;0;0;0;0;0;2;0;0;0;102;36;0;1;0;3;0;0;0;108;4;128;0;0;0;0;228;0;0;0;0;0;0;0].
Definition loop_img : list N := [104;115;113;115;3;0;0;0;0;0;0;0;0;16;0;0;0;0;0;0;1;0;12;0;27;10;1;0;4;0;0;0;64;0;0;0;0;0;0;0;252;0;0;0;0;0;0;0;244;0;0;0;0;0;0;0;255;255;255;255;255;255;255;255;96;0;0;0;0;0;0;0;194;0;0;0;0;0;0;0;255;255;255;255;255;255;255;255;255;255;255;255;255;255;255;255;96;128;1;0;237;1;0;0;0;0;0;0;0;0;1;0;0;0;0;0;0;0;2;0;0;0;3;0;0;0;2;0;0;0;1;0;237;1;0;0;0;0;0;0;0;0;2;0;0;0;0;0;0;0;3;0;0;0;24;0;0;0;3;0;0;0;1;0;237;1;0;0;0;0;0;0;0;0;3;0;0;0;0;0;0;0;3;0;0;0;24;0;21;0;4;0;0;0;42;128;0;0;0;0;0;0;0;0;1;0;0;0;32;0;1;0;1;0;0;0;98;0;0;0;0;0;0;0;0;2;0;0;0;32;0;0;0;1;0;0;0;97;4;128;0;0;0;0;238;0;0;0;0;0;0;0].

Definition all_fine (l : list item) : bool := forallb (fun i => negb (item_crash i) && negb (item_oof i)) l.
Definition tree_of (l : list item) : option (res tree) :=
  (fix go l := match l with [] => None | ITree r :: _ => Some r | _ :: r => go r end) l.
Definition tree_names (t : tree) : list (list N) := map fst (flatten t).
Definition stream_of (l : list item) : option (list N) :=
  (fix go l := match l with
               | [] => None
               | IStream _ (Ok (Some chunks)) _ :: _ => Some (concat chunks)
               | _ :: r => go r end) l.

(* ---- witnesses against the code as found ---- *)
(* F12: uncompressed block of 5 bytes read into a 4 byte stream buffer *)
Definition w12_d : dreader_data := dd_create 4 [].
Definition w12_st : stream := MkStream [two24 + 5] 4 0 max32 0.
Definition w12_img : list N := [1;2;3;4;5;6].
(* F13: fragment offset 2^32-2, 3 byte tail, block size 4 *)
Definition w13_frags : list N := [0;0;0;0;0;0;0;0; 4;0;0;1; 0;0;0;0].
Definition w13_ino : inode :=
  MkInode (MkBase c_SQFS_INODE_FILE 33188 0 0 0 1) (IFile 0 0 (two32 - 2) 3) 0 [] [].
(* F23: empty uncompressed metadata block after a two byte one *)
Definition w23_img : list N := [2;128;7;7;0;128;0;0].
Definition w23_ops : list mop := [MSeek 0 0; MRead 2; MRead 1; MRead 4].
