(* C05 - proofs of the statements of Properties_C05.v (that file only restates them). *)
From Coq Require Import List NArith ZArith Bool.
From SqfsV Require Import Gen.Constants Base.Bytes C05.RBase C05.GenC05 C05.Meta C05.Super C05.Inode C05.Dir
  C05.Data C05.Xattr C05.Run C05.BaseProofs C05.MetaProofs C05.SuperProofs C05.InodeProofs C05.DirProofs
  C05.DataProofs C05.XattrProofs C05.RunProofs C05.Examples.
Import ListNotations.
Local Open Scope N_scope.

Lemma reader_safe_l :
  forall codec depth efuel fuel img q, codecs_ok codec ->
  Forall (fun i => item_crash i = false) (run_reader codec depth efuel fuel img q).
Proof.
  intros codec depth efuel fuel img q Hc.
  assert (H : Forall (item_ok True) (run_reader codec depth efuel fuel img q)).
  { destruct q as [| |ops]; simpl.
    - apply run_all_ok; [exact Hc|left; exact I].
    - apply run_xattr_ok; [exact Hc|left; exact I].
    - apply run_meta_ok; [exact Hc|left; exact I]. }
  eapply Forall_impl; [|exact H]. intros i. apply item_ok_crash.
Qed.

Lemma reader_total_l :
  forall codec depth efuel fuel img, codecs_ok codec ->
  (N.to_nat depth_bound <= depth)%nat -> (N.to_nat efuel_bound <= efuel)%nat ->
  (N.to_nat fuel_bound <= fuel)%nat ->
  Forall (fun i => item_oof i = false) (run_reader codec depth efuel fuel img QAll) /\
  Forall (fun i => item_oof i = false) (run_reader codec depth efuel fuel img QXattr).
Proof.
  intros codec depth efuel fuel img Hc Hd He Hf.
  assert (Hfu : fuels_ok False depth efuel fuel) by (right; auto).
  split; (eapply Forall_impl; [intros i; apply item_ok_oof|]); simpl.
  - apply run_all_ok; assumption.
  - apply run_xattr_ok; assumption.
Qed.

Lemma meta_ops_total_l :
  forall codec depth efuel fuel img ops, codecs_ok codec ->
  (forall n, In (MRead n) ops -> (N.to_nat n <= fuel)%nat) ->
  Forall (fun i => item_oof i = false) (run_reader codec depth efuel fuel img (QMeta ops)).
Proof.
  intros codec depth efuel fuel img ops Hc Hf. simpl.
  eapply Forall_impl; [intros i; apply item_ok_oof|]. apply run_meta_ok; [exact Hc|right; exact Hf].
Qed.

(* the build's set of compressor back ends gates everything behind the super block *)
Lemma gate_comp_forall (P : item -> Prop) avail l :
  (forall e, P (IComp (Err e))) -> Forall P l -> Forall P (gate_comp avail l).
Proof.
  intros HP H. unfold gate_comp. destruct l as [|[[s|e| |]| | | | | | | | | | |] r]; try exact H.
  destruct (avail (s_comp s)); [exact H|].
  inversion H as [|? ? H1 _]; subst. constructor; [exact H1|]. constructor; [apply HP|constructor].
Qed.

Lemma reader_build_safe_l :
  forall avail codec depth efuel fuel img q, codecs_ok codec ->
  Forall (fun i => item_crash i = false) (run_reader_build avail codec depth efuel fuel img q).
Proof.
  intros. apply gate_comp_forall; [reflexivity|]. apply reader_safe_l; assumption.
Qed.

Lemma reader_build_total_l :
  forall avail codec depth efuel fuel img, codecs_ok codec ->
  (N.to_nat depth_bound <= depth)%nat -> (N.to_nat efuel_bound <= efuel)%nat ->
  (N.to_nat fuel_bound <= fuel)%nat ->
  Forall (fun i => item_oof i = false) (run_reader_build avail codec depth efuel fuel img QAll) /\
  Forall (fun i => item_oof i = false) (run_reader_build avail codec depth efuel fuel img QXattr).
Proof.
  intros avail codec depth efuel fuel img Hc Hd He Hf.
  destruct (reader_total_l codec depth efuel fuel img Hc Hd He Hf) as [A B].
  split; (apply gate_comp_forall; [reflexivity|assumption]).
Qed.

(* an unavailable back end stops the run right after the super block *)
Lemma reader_build_unavailable_l :
  forall avail codec depth efuel fuel img q s r,
  run_reader codec depth efuel fuel img q = ISuper (Ok s) :: r -> avail (s_comp s) = false ->
  run_reader_build avail codec depth efuel fuel img q = [ISuper (Ok s); IComp (Err E_UNSUPPORTED)].
Proof.
  intros avail codec depth efuel fuel img q s r E A. unfold run_reader_build. rewrite E. cbn [gate_comp].
  rewrite A. reflexivity.
Qed.

Lemma meta_window_l :
  forall uc img m blk off, codec_ok uc -> mr_inv m ->
  mr_inv (fst (mr_seek' uc true img m blk off)) /\
  post False (snd (mr_seek' uc true img m blk off))
       (fun _ => m_off (fst (mr_seek' uc true img m blk off)) = off /\
                 off < lenN (m_data (fst (mr_seek' uc true img m blk off)))).
Proof.
  intros uc img m blk off Hc Hi. destruct (mr_seek'_spec uc Hc img m blk off Hi) as (A & _ & _ & D).
  split; [exact A|exact D].
Qed.

Lemma meta_read_exact_l :
  forall uc img fuel m cap size, codec_ok uc -> mr_inv m -> (N.to_nat cap <= fuel)%nat -> size <= cap ->
  post False (mr_read uc true img fuel m cap size) (fun p => mr_inv (fst p) /\ lenN (snd p) = size).
Proof.
  intros uc img fuel m cap size Hc Hi Hf Hs.
  eapply post_weaken; [apply (mr_read_post uc Hc img False fuel m cap size Hi); [right; exact Hf|exact Hs]|].
  intros p H. cbv beta in H. destruct H as (A & _ & _ & B). split; assumption.
Qed.

Lemma table_read_fits_l :
  forall uc img fuel size loc lo up, codec_ok uc -> (N.to_nat fuel_bound <= fuel)%nat ->
  post False (read_table uc img fuel size loc lo up) (fun d => lenN d = size).
Proof.
  intros uc img fuel size loc lo up Hc Hf. apply read_table_spec; [exact Hc|right; exact Hf].
Qed.

Lemma inode_alloc_no_wrap_l :
  forall uc img fuel m s blk off, codec_ok uc -> (N.to_nat fuel_bound <= fuel)%nat -> mr_inv m ->
  s_block_size s <> 0 ->
  post False (read_inode uc img fuel m s blk off) (fun p => mr_inv (fst p) /\ inode_wf (snd p)).
Proof.
  intros uc img fuel m s blk off Hc Hf Hi Hb. apply read_inode_spec; auto. right; exact Hf.
Qed.

Lemma readdir_accounting_l :
  forall uc img fuel m it, codec_ok uc -> (N.to_nat fuel_bound <= fuel)%nat -> mr_inv m ->
  post False (mr_readdir uc img fuel m it)
       (fun p => mr_inv (fst (fst p)) /\ (forall x, snd p = Some x -> r_size (snd (fst p)) < r_size it)).
Proof.
  intros uc img fuel m it Hc Hf Hi. apply mr_readdir_spec; auto. right; exact Hf.
Qed.

Lemma tree_walk_bounded_l :
  forall uc img efuel fuel s ids depth dr anc it, codec_ok uc ->
  (N.to_nat fuel_bound <= fuel)%nat -> (N.to_nat (two32 + 1) <= efuel)%nat ->
  dr_inv dr -> s_block_size s <> 0 -> NoDup anc -> (forall x, In x anc -> x < two32) ->
  two32 + 2 <= N.of_nat depth + lenN anc -> r_size it < two32 ->
  post False (fill_dir uc img depth efuel fuel s ids dr anc it)
       (fun p => dr_inv (fst p) /\ nodes_wf (flat_all (snd p))).
Proof.
  intros uc img efuel fuel s ids depth dr anc it Hc Hf He Hdr Hb Hn Ha Hd Hs.
  apply fill_dir_spec; auto; right; assumption.
Qed.

Lemma block_fits_buffer_l :
  forall uc img bs off word max_size, codec_ok uc -> max_size <= bs ->
  post False (get_block uc img bs off word max_size) (fun p => lenN (fst p) = max_size /\ snd p <= max_size).
Proof.
  intros uc img bs off word max_size Hc H. apply get_block_spec; assumption.
Qed.

Lemma frag_slice_in_block_l :
  forall uc img d i, codec_ok uc -> dd_inv d ->
  post False (dr_get_fragment uc true img d i) (fun p => dd_inv (fst p)).
Proof.
  intros uc img d i Hc Hd. apply dr_get_fragment_spec; assumption.
Qed.

Lemma data_read_in_block_l :
  forall uc img d i off size, codec_ok uc -> dd_inv d -> i_used i <= 4 * lenN (i_words i) ->
  post False (dr_read uc img d i off size) (fun p => dd_inv (fst p)).
Proof.
  intros uc img d i off size Hc Hd Hw. apply dr_read_spec; assumption.
Qed.

Lemma stream_block_fits_l :
  forall uc img d st, codec_ok uc -> dd_inv d ->
  post False (stream_next uc true img d st)
       (fun p => dd_inv (fst (fst p)) /\ dd_bs (fst (fst p)) = dd_bs d /\
                 forall x, snd p = Some x -> 1 <= lenN x).
Proof.
  intros uc img d st Hc Hd. apply stream_next_spec; assumption.
Qed.

Lemma xattr_no_null_l :
  forall uc img x ref count, codec_ok uc -> xr_inv x ->
  post False (xattr_seek_kv uc true img x ref count) (fun x' => xr_inv x' /\ (count <> 0 -> x_kvrd x' <> None)).
Proof.
  intros uc img x ref count Hc Hx. apply xattr_seek_kv_spec; assumption.
Qed.

Lemma stream_block_overflow_refuted_l :
  exists uc img d st, codec_ok uc /\ dd_inv d /\ stream_next uc false img d st = Crash.
Proof.
  exists (nocodec 1), w12_img, w12_d, w12_st. split; [intros inp cap; exact I|].
  split; [apply dd_create_inv; [discriminate|reflexivity]|]. vm_compute. reflexivity.
Qed.

Lemma get_fragment_wrap_refuted_l :
  exists uc img d i, codec_ok uc /\ dd_inv d /\ dr_get_fragment uc false img d i = Crash.
Proof.
  exists (nocodec 1), w12_img, (dd_create 4 w13_frags), w13_ino. split; [intros inp cap; exact I|].
  split; [apply dd_create_inv; [discriminate|reflexivity]|]. vm_compute. reflexivity.
Qed.

Lemma xattr_null_refuted_l :
  exists uc img, codec_ok uc /\ xr_inv xr_empty /\ xattr_seek_kv uc false img xr_empty 0 0 = Crash.
Proof.
  exists (nocodec 1), w12_img. split; [intros inp cap; exact I|]. split; [apply xr_empty_inv|reflexivity].
Qed.

Lemma meta_stale_state_refuted_l :
  exists uc img ops, codec_ok uc /\ In Crash (mr_ops uc false img 10 (mr_create 0 (lenN img)) ops).
Proof.
  exists (nocodec 1), w23_img, w23_ops. split; [intros inp cap; exact I|]. vm_compute. tauto.
Qed.
