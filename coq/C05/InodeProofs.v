(* C05 — sqfs_meta_reader_read_inode: every store into the inode being built stays
   inside its allocation (file block list, symlink target, directory index with its
   doubling loop), the recorded payload size never exceeds what was stored. *)
From Coq Require Import List NArith ZArith Bool Lia.
From SqfsV Require Import Gen.Constants Base.Bytes C05.RBase C05.GenC05 C05.Meta C05.Super C05.Inode
  C05.BaseProofs C05.MetaProofs C05.SuperProofs.
Import ListNotations.
Local Open Scope N_scope.

Definition inode_wf (i : inode) : Prop :=
  b_inum (i_base i) < two32 /\
  (is_file_type (b_type (i_base i)) = true -> i_used i <= 4 * lenN (i_words i)).

Lemma wf_nonfile b d u w y :
  b_inum b < two32 -> is_file_type (b_type b) = false -> inode_wf (MkInode b d u w y).
Proof. intros H1 H2. split; simpl; [exact H1|]. intro H3. congruence. Qed.

(* the doubling loop finds room or reports overflow within 64 rounds; sizes stay multiples
   of the initial 128, so adding the header size cannot wrap *)
Lemma grow_spec o : forall k new_sz need used,
  1 <= new_sz < two64 -> two64 <= new_sz * 2 ^ N.of_nat k -> used <= new_sz ->
  (exists q, new_sz = 128 * q) ->
  post o (grow k new_sz need used)
       (fun s => new_sz <= s /\ need <= s - used /\ s < two64 /\ exists q, s = 128 * q).
Proof.
  induction k as [|k IH]; intros new_sz need used Hn Hk Hu Hq; cbn [grow]; rewrite (sub64_ge _ _ Hu).
  - destruct (need <=? new_sz - used) eqn:E; [apply N.leb_le in E; simpl; repeat split; auto; lia|].
    simpl in Hk. lia.
  - destruct (need <=? new_sz - used) eqn:E; [apply N.leb_le in E; simpl; repeat split; auto; lia|].
    unfold sz_mul_ov. destruct (new_sz * 2 <? two64) eqn:E2; [|exact I]. apply N.ltb_lt in E2.
    eapply post_weaken; [apply IH|].
    + lia.
    + rewrite Nat2N.inj_succ, N.pow_succ_r' in Hk. lia.
    + lia.
    + destruct Hq as [q Hq]. exists (q * 2). lia.
    + intros s Hs. cbv beta in Hs. destruct Hs as (A & B & C & D). repeat split; auto; lia.
Qed.

Section P.
Variable uncompress : list N -> N -> res (list N).
Hypothesis uc_ok : codec_ok uncompress.
Variable img : list N.

(* make the generated layout constants visible to lia *)
Ltac usz := unfold fuel_bound, alloc_limit, gsz, c5_sizeof_sqfs_inode_generic_t, sizeof_sqfs_inode_t,
  sizeof_sqfs_inode_file_t, sizeof_sqfs_inode_file_ext_t, sizeof_sqfs_inode_slink_t, sizeof_sqfs_inode_dir_t,
  sizeof_sqfs_inode_dir_ext_t, sizeof_sqfs_inode_dev_t, sizeof_sqfs_inode_dev_ext_t, sizeof_sqfs_inode_ipc_t,
  sizeof_sqfs_inode_ipc_ext_t, sizeof_sqfs_dir_index_t, sizeof_sqfs_dir_header_t, sizeof_sqfs_dir_node_t,
  two64, two32 in *.
Ltac const_le := first [lia | (usz; lia)].

(* one read into a destination of [cap] bytes *)
Ltac rd_step Hf :=
  eapply post_bind;
  [ apply (mr_read_post uncompress uc_ok img);
    [ assumption
    | apply fuel_ok_cap; [exact Hf | try const_le]
    | try const_le ]
  | ].

Lemma get_block_count_post o size bs fi fo :
  bs <> 0 -> post o (get_block_count size bs fi fo) (fun c => True).
Proof.
  intros H. unfold get_block_count. destruct (bs =? 0) eqn:E; [apply N.eqb_eq in E; contradiction|].
  destruct (negb (size mod bs =? 0) && ((fi =? max32) || (fo =? max32))); exact I.
Qed.

Lemma words_ok count ws : u32 (count * 4) <= 4 * lenN (items 4 (nN count) ws).
Proof. rewrite lenN_items. pose proof (u32_le (count * 4)). lia. Qed.

Lemma read_inode_file_spec o fuel m b bs :
  fuel_ok o fuel -> mr_inv m -> bs <> 0 -> b_inum b < two32 ->
  post o (read_inode_file uncompress img fuel m b bs) (fun p => mr_inv (fst p) /\ inode_wf (snd p)).
Proof.
  intros Hf Hinv Hbs Hb. unfold read_inode_file. cbv zeta.
  rd_step Hf. intros [m1 raw] (Hi1 & _ & _ & _). simpl in Hi1. cbv beta iota.
  eapply post_bind; [apply get_block_count_post; exact Hbs|]. intros count _.
  eapply post_bind; [apply alloc_flex_post|]. intros cap [Hcap Hlim]. cbv beta.
  assert (Hsm : count * 4 < two64) by (unfold alloc_limit, two64 in *; lia).
  rewrite (u64_small _ Hsm).
  rd_step Hf. intros [m2 ws] (Hi2 & _ & _ & _). simpl in Hi2. cbv beta iota.
  eapply post_bind; [apply put_check_post; lia|]. intros u _.
  simpl. split; [exact Hi2|]. split; [exact Hb|]. intros _. simpl. apply words_ok.
Qed.

Lemma read_inode_file_ext_spec o fuel m b bs :
  fuel_ok o fuel -> mr_inv m -> bs <> 0 -> b_inum b < two32 ->
  post o (read_inode_file_ext uncompress img fuel m b bs) (fun p => mr_inv (fst p) /\ inode_wf (snd p)).
Proof.
  intros Hf Hinv Hbs Hb. unfold read_inode_file_ext. cbv zeta.
  rd_step Hf. intros [m1 raw] (Hi1 & _ & _ & _). simpl in Hi1. cbv beta iota.
  eapply post_bind; [apply get_block_count_post; exact Hbs|]. intros count _.
  eapply post_bind.
  { instantiate (1 := fun s => s = count * 4 /\ gsz + s <= alloc_limit).
    unfold sz_mul_ov, sz_add_ov.
    destruct (count * 4 <? two64); [|exact I].
    destruct (gsz + count * 4 <? two64); [|exact I].
    eapply post_bind; [apply malloc_chk_post|]. intros u H. simpl. auto. }
  intros cap [Hcap Hlim]. cbv beta.
  assert (Hsm : count * 4 < two64) by (unfold alloc_limit, two64 in *; lia).
  rewrite (u64_small _ Hsm).
  rd_step Hf. intros [m2 ws] (Hi2 & _ & _ & _). simpl in Hi2. cbv beta iota.
  eapply post_bind; [apply put_check_post; lia|]. intros u _.
  simpl. split; [exact Hi2|]. split; [exact Hb|]. intros _. simpl. apply words_ok.
Qed.

Lemma read_inode_slink_spec o fuel m b :
  fuel_ok o fuel -> mr_inv m ->
  post o (read_inode_slink uncompress img fuel m b) (fun p => mr_inv (fst p)).
Proof.
  intros Hf Hinv. unfold read_inode_slink. cbv zeta.
  rd_step Hf. intros [m1 raw] (Hi1 & _ & _ & _). simpl in Hi1. cbv beta iota.
  set (tsize := fld 4 o_sqfs_inode_slink_t_target_size raw).
  unfold sz_add_ov.
  destruct (tsize + 1 <? two64); [|exact I].
  destruct (gsz + (tsize + 1) <? two64); [|exact I].
  eapply post_bind; [apply malloc_chk_post|]. intros u Hlim. cbv beta.
  rd_step Hf.
  intros [m2 tgt] (Hi2 & _). simpl in Hi2. simpl. exact Hi2.
Qed.

(* index loop: index_used <= index_max is kept, every store is inside the block *)
Lemma dx_loop_spec o fuel : forall n m index_max index_used acc,
  fuel_ok o fuel -> mr_inv m -> 128 <= index_max < two64 -> (exists q, index_max = 128 * q) ->
  index_max <= alloc_limit + 128 ->
  index_used <= index_max ->
  post o (dx_loop uncompress img fuel n m index_max index_used acc) (fun p => mr_inv (fst (fst p))).
Proof.
  induction n as [|n IH]; intros m index_max index_used acc Hf Hinv Hmax Hq Hlim Hused; cbn [dx_loop]; cbv zeta.
  - simpl. exact Hinv.
  - rd_step Hf. intros [m1 ent] (Hi1 & _ & _ & _). simpl in Hi1. cbv beta iota.
    set (esz := fld 4 o_sqfs_dir_index_t_size ent).
    eapply post_bind.
    { apply grow_spec; [lia| |exact Hused|exact Hq].
      assert (X : 2 ^ N.of_nat 64 = two64) by reflexivity. rewrite X. unfold two64 in *. lia. }
    intros new_sz (Hge & Hroom & Hlt & Hq2). cbv beta.
    eapply post_bind.
    { instantiate (1 := fun imax => imax = new_sz /\ imax <= alloc_limit + 128).
      destruct (index_max <? new_sz) eqn:E.
      - eapply post_bind; [apply malloc_chk_post|]. intros u Hm. cbv beta in Hm. simpl.
        destruct Hq2 as [q Hq2].
        assert (Hs : gsz + new_sz < two64) by (usz; lia).
        rewrite (u64_small _ Hs) in Hm. split; [reflexivity|usz; lia].
      - apply N.ltb_ge in E. simpl. split; usz; lia. }
    intros imax [Himax Hlim2]. cbv beta. subst imax.
    pose proof (u32_le (esz + 1)) as Hu32.
    eapply post_bind; [apply put_check_post; usz; lia|]. intros u _.
    rd_step Hf. intros [m2 nm] (Hi2 & _ & _ & _). simpl in Hi2. cbv beta iota.
    apply IH; auto; usz; lia.
Qed.

Lemma read_inode_dir_ext_spec o fuel m b :
  fuel_ok o fuel -> mr_inv m -> b_inum b < two32 -> is_file_type (b_type b) = false ->
  post o (read_inode_dir_ext uncompress img fuel m b) (fun p => mr_inv (fst p) /\ inode_wf (snd p)).
Proof.
  intros Hf Hinv Hb Ht. unfold read_inode_dir_ext. cbv zeta.
  rd_step Hf. intros [m1 raw] (Hi1 & _ & _ & _). simpl in Hi1. cbv beta iota.
  destruct (fld 4 o_sqfs_inode_dir_ext_t_size raw =? 0).
  - simpl. split; [exact Hi1|]. apply wf_nonfile; assumption.
  - eapply post_bind.
    { apply dx_loop_spec; auto; try (usz; lia). exists 1. reflexivity. }
    intros [[m2 used] idx] Hi2. simpl in Hi2. simpl.
    split; [exact Hi2|]. apply wf_nonfile; assumption.
Qed.

(* sqfs_meta_reader_read_inode *)
Lemma read_inode_spec o fuel m s blk off :
  fuel_ok o fuel -> mr_inv m -> s_block_size s <> 0 ->
  post o (read_inode uncompress img fuel m s blk off) (fun p => mr_inv (fst p) /\ inode_wf (snd p)).
Proof.
  intros Hf Hinv Hbs. unfold read_inode. cbv zeta.
  eapply post_bind; [apply (mr_seek_post uncompress uc_ok img o); exact Hinv|].
  intros m0 (Hi0 & _ & _). cbv beta.
  rd_step Hf. intros [m1 raw] (Hi1 & _ & _ & _). simpl in Hi1. cbv beta iota.
  remember (fld 2 o_sqfs_inode_t_type raw) as t eqn:Ht.
  destruct (type_ifmt t) as [ifmt|]; [|exact I].
  set (b := MkBase t _ _ _ _ _).
  assert (Hb : b_inum b < two32) by (apply fld4_lt).
  assert (Hty : b_type b = t) by reflexivity.
  destruct (t =? c_SQFS_INODE_FILE) eqn:E1.
  { apply read_inode_file_spec; auto. }
  destruct (t =? c_SQFS_INODE_SLINK) eqn:E2.
  { apply N.eqb_eq in E2.
    eapply post_bind; [apply read_inode_slink_spec; auto|].
    intros [m2 [[nlink tsize] tgt]] Hi2. simpl in Hi2. simpl.
    split; [exact Hi2|]. apply wf_nonfile; [exact Hb|]. rewrite Hty, E2. reflexivity. }
  destruct (t =? c_SQFS_INODE_EXT_FILE) eqn:E3.
  { apply read_inode_file_ext_spec; auto. }
  assert (Hnf : is_file_type (b_type b) = false).
  { rewrite Hty. unfold is_file_type. rewrite E1, E3. reflexivity. }
  destruct (t =? c_SQFS_INODE_EXT_SLINK) eqn:E4.
  { eapply post_bind; [apply read_inode_slink_spec; auto|].
    intros [m2 [[nlink tsize] tgt]] Hi2. simpl in Hi2. cbv beta iota.
    rd_step Hf. intros [m3 x] (Hi3 & _). simpl in Hi3. simpl.
    split; [exact Hi3|]. apply wf_nonfile; assumption. }
  destruct (t =? c_SQFS_INODE_EXT_DIR) eqn:E5.
  { apply read_inode_dir_ext_spec; auto. }
  repeat match goal with |- context [if ?c then _ else _] => destruct c end;
    (rd_step Hf; intros [m2 r] (Hi2 & _); simpl in Hi2; simpl;
     split; [exact Hi2|]; apply wf_nonfile; assumption).
Qed.

End P.
