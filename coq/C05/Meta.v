(* C05 — model of lib/sqfs/src/meta_reader.c (sqfs_meta_reader_seek / _read /
   _get_position) with explicit buffer accounting.

   [m_data] is the *valid* part of m->data (its length is m->data_used); the
   array itself holds SQFS_META_BLOCK_SIZE bytes, every store into it is
   checked against that capacity and every load against the valid length.

   [patched = true] follows the repaired seek (fixes/F02 of C10 = F23 here: the
   reader falls back to its creation state before m->data is overwritten and
   data_used is committed only on success); [patched = false] is the code as
   found, kept for the [_refuted] witness. *)
From Coq Require Import List NArith ZArith Bool.
From SqfsV Require Import Gen.Constants Base.Bytes C05.RBase.
Import ListNotations.
Local Open Scope N_scope.

Definition meta_sz : N := c_SQFS_META_BLOCK_SIZE.

Record mr := MkMr {
  m_start : N; m_limit : N;
  m_data : list N;        (* valid bytes of data[] *)
  m_block : N;            (* block_offset *)
  m_next : N;             (* next_block *)
  m_off : N               (* offset *)
}.

Definition mr_create (start limit : N) : mr := MkMr start limit [] max64 0 0.
Definition mr_set_off (m : mr) (o : N) : mr :=
  MkMr (m_start m) (m_limit m) (m_data m) (m_block m) (m_next m) o.

Section WithCodec.
(* do_block of the image's compressor in uncompress mode: input, capacity of the
   output buffer -> bytes produced ([Ok []] = "does not fit", i.e. return 0) *)
Variable uncompress : list N -> N -> res (list N).
Variable patched : bool.
Variable img : list N.

Definition mr_seek' (m : mr) (blk off : N) : mr * res unit :=
  if (blk <? m_start m) || (m_limit m <=? blk) then (m, Err E_OOB)
  else if blk =? m_block m then
    if lenN (m_data m) <=? off then (m, Err E_OOB) else (mr_set_off m off, Ok tt)
  else
    match read_at img blk 2 with
    | Ok h =>
      let header := rdk 2 h in
      let compressed := (header / 32768) mod 2 =? 0 in
      let size := header mod 32768 in
      if meta_sz <? size then (m, Err E_CORRUPTED)
      else if m_limit m <? u64 (blk + 2 + size) then (m, Err E_OOB)
      else
        (* state a failure below leaves behind *)
        let mfail := if patched then mr_create (m_start m) (m_limit m) else m in
        match put_check meta_sz 0 size with
        | Ok _ =>
          match read_at img (u64 (blk + 2)) size with
          | Ok raw =>
            let decoded :=
              if compressed then
                do out <- uncompress raw meta_sz;
                do _ <- put_check meta_sz 0 (lenN out);
                Ok out
              else Ok raw in
            match decoded with
            | Ok d =>
              if lenN d <=? off then
                (* the code as found has already stored data_used here *)
                ((if patched then mfail
                  else MkMr (m_start m) (m_limit m) d (m_block m) (m_next m) (m_off m)),
                 Err E_OOB)
              else (MkMr (m_start m) (m_limit m) d blk (u64 (blk + size + 2)) off, Ok tt)
            | Err e => (mfail, Err e)
            | Crash => (mfail, Crash)
            | OutOfFuel => (mfail, OutOfFuel)
            end
          | Err e => (mfail, Err e)
          | Crash => (mfail, Crash)
          | OutOfFuel => (mfail, OutOfFuel)
          end
        | _ => (m, Crash)
        end
    | Err e => (m, Err e)
    | Crash => (m, Crash)
    | OutOfFuel => (m, OutOfFuel)
    end.

(* the while loop of sqfs_meta_reader_read; result = the bytes stored through [data] *)
Fixpoint mr_read_loop (fuel : nat) (m : mr) (size : N) : mr * res (list N) :=
  if size =? 0 then (m, Ok [])
  else
    match fuel with
    | O => (m, OutOfFuel)
    | S f =>
      let diff0 := sub64 (lenN (m_data m)) (m_off m) in
      let '(m1, r1) :=
        if diff0 =? 0 then mr_seek' m (m_next m) 0 else (m, Ok tt) in
      match r1 with
      | Ok _ =>
        let diff1 := if diff0 =? 0 then lenN (m_data m1) else diff0 in
        let diff := if size <? diff1 then size else diff1 in
        match slice (m_data m1) (m_off m1) diff with
        | Ok chunk =>
          let '(m2, r2) := mr_read_loop f (mr_set_off m1 (m_off m1 + diff)) (size - diff) in
          match r2 with
          | Ok rest => (m2, Ok (chunk ++ rest))
          | e => (m2, e)
          end
        | _ => (m1, Crash)
        end
      | Err e => (m1, Err e)
      | Crash => (m1, Crash)
      | OutOfFuel => (m1, OutOfFuel)
      end
    end.

(* read [size] bytes into a destination that has room for [cap] bytes *)
Definition mr_read' (fuel : nat) (m : mr) (cap size : N) : mr * res (list N) :=
  match put_check cap 0 size with
  | Ok _ => mr_read_loop fuel m size
  | _ => (m, Crash)
  end.

(* versions for callers that give up on the first error *)
Definition mr_seek (m : mr) (blk off : N) : res mr :=
  let '(m', r) := mr_seek' m blk off in do _ <- r; Ok m'.
Definition mr_read (fuel : nat) (m : mr) (cap size : N) : res (mr * list N) :=
  let '(m', r) := mr_read' fuel m cap size in do d <- r; Ok (m', d).

Definition mr_position (m : mr) : N * N :=
  if m_off m =? lenN (m_data m) then (m_next m, 0) else (m_block m, m_off m).

(* raw operation sequences (library API level, continuing after errors) *)
Inductive mop := MSeek (blk off : N) | MRead (n : N).
Fixpoint mr_ops (fuel : nat) (m : mr) (ops : list mop) : list (res (list N)) :=
  match ops with
  | [] => []
  | MSeek b o :: r =>
    let '(m', x) := mr_seek' m b o in
    (do _ <- x; Ok []) :: mr_ops fuel m' r
  | MRead n :: r =>
    let '(m', x) := mr_read' fuel m n n in
    x :: mr_ops fuel m' r
  end.

End WithCodec.
