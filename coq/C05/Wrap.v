(* C05 — the register width of the array sizes the reader derives from on-disk counts.

   The model (Super.v, Inode.v, Xattr.v) writes  count * element_size  in unbounded [N].  That is
   faithful to the C code only as long as the code computes these products in [size_t]
   (64 bit): this file states that obligation explicitly.

   1. [size_products_fit_size_t]: for every value the on-disk fields can carry, none of the
      products (and none of the location-array sizes derived from them) reaches 2^64: the
      unbounded arithmetic of the model IS size_t arithmetic, no 64 bit wrap boundary exists.
   2. [*_exceeds_u32]: each of them does exceed 32 bits for values a 32/64 bit field can carry.
   3. Width-parametric copies of the two table loaders, [xattr_load_w w] and
      [frag_table_read_w w] (the byte size truncated to w bits before anything is derived from
      it): they coincide with the model for every w >= 36 ([*_w_faithful]) — 36 bits are what
      a 32 bit count times 16 needs — and for w = 32 an image exists that the truncated loader
      accepts and on which the very next lookup leaves the array ([*_w32_refuted]; Crash).
      The images of props/C05/wrap.py sit on exactly these boundaries. *)
From Coq Require Import List NArith ZArith Bool Lia.
From SqfsV Require Import Gen.Constants Base.Bytes C05.RBase C05.GenC05 C05.Meta C05.Super C05.Inode C05.Xattr
  C05.BaseProofs C05.MetaProofs C05.SuperProofs C05.XattrProofs.
Import ListNotations.
Local Open Scope N_scope.

Definition trunc (w n : N) : N := n mod 2 ^ w.

(* number of metadata blocks (= entries of a location array) for a table of [bytes] bytes *)
Definition blocks_of (bytes : N) : N := bytes / meta_sz + (if bytes mod meta_sz =? 0 then 0 else 1).

Lemma trunc_small w n : n < 2 ^ w -> trunc w n = n.
Proof. intro H. unfold trunc. apply N.mod_small. exact H. Qed.

Lemma pow_mono_36 w : 36 <= w -> 2 ^ 36 <= 2 ^ w.
Proof. intro H. apply N.pow_le_mono_r; [discriminate | exact H]. Qed.

Lemma blocks_of_le bytes : blocks_of bytes <= bytes / meta_sz + 1.
Proof. unfold blocks_of. destruct (_ =? 0); lia. Qed.

(* ---- 1. no product reaches 2^64 ---- *)

Lemma div_meta_le n : n / meta_sz <= n.
Proof. apply N.div_le_upper_bound; [unfold meta_sz; discriminate|]. unfold meta_sz, c_SQFS_META_BLOCK_SIZE. lia. Qed.

Lemma size_products_fit_size_t_l :
  forall num fcnt idc fsize bs fi fo cnt esz,
  num < two32 -> fcnt < two32 -> idc < two16 -> fsize < two64 -> c_SQFS_MIN_BLOCK_SIZE <= bs -> esz < two32 ->
  get_block_count fsize bs fi fo = Ok cnt ->
  num * idsz < 2 ^ 36 /\ 8 * blocks_of (num * idsz) < 2 ^ 27 /\
  fcnt * sizeof_sqfs_fragment_t < 2 ^ 36 /\ 8 * blocks_of (fcnt * sizeof_sqfs_fragment_t) < 2 ^ 27 /\
  idc * 4 < 2 ^ 18 /\ 8 * blocks_of (idc * 4) < 2 ^ 9 /\
  gsz + cnt * 4 < 2 ^ 55 /\
  sizeof_sqfs_dir_index_t + esz + 1 < 2 ^ 33.
Proof.
  intros num fcnt idc fsize bs fi fo cnt esz Hn Hf Hi Hs Hb He Hc.
  assert (B : forall n k, n < k * meta_sz -> 0 < k -> 8 * blocks_of n < 8 * k + 8).
  { intros n k H Hk. pose proof (blocks_of_le n).
    assert (n / meta_sz < k) by (apply N.div_lt_upper_bound; [unfold meta_sz; discriminate | lia]). lia. }
  unfold idsz, sizeof_sqfs_xattr_id_t, sizeof_sqfs_fragment_t, sizeof_sqfs_dir_index_t, gsz,
    c5_sizeof_sqfs_inode_generic_t, two32, two16, two64, c_SQFS_MIN_BLOCK_SIZE in *.
  change (2 ^ 36) with 68719476736. change (2 ^ 27) with 134217728. change (2 ^ 18) with 262144.
  change (2 ^ 9) with 512. change (2 ^ 55) with 36028797018963968. change (2 ^ 33) with 8589934592.
  assert (M : meta_sz = 8192) by reflexivity.
  repeat split; try lia.
  - pose proof (B (num * 16) 8388608). rewrite M in *. lia.
  - pose proof (B (fcnt * 16) 8388608). rewrite M in *. lia.
  - pose proof (B (idc * 4) 32). rewrite M in *. lia.
  - unfold get_block_count in Hc.
    destruct (bs =? 0) eqn:E; [discriminate|].
    assert (fsize / bs <= fsize / 4096).
    { apply N.div_le_compat_l. lia. }
    assert (fsize / 4096 < 4503599627370496) by (apply N.div_lt_upper_bound; lia).
    destruct (negb _ && _); inversion Hc; subst; lia.
Qed.

(* ---- 2. ... but every one of the table sizes needs more than 32 bits ---- *)

Lemma xattr_tbl_exceeds_u32_l : exists num, num < two32 /\ u32 (num * idsz) <> num * idsz /\ u32 (num * idsz) = idsz.
Proof. exists 268435457. repeat split; vm_compute; congruence. Qed.

Lemma frag_tbl_exceeds_u32_l :
  exists fcnt, fcnt < two32 /\ u32 (fcnt * sizeof_sqfs_fragment_t) = 0 /\ fcnt * sizeof_sqfs_fragment_t <> 0.
Proof. exists 268435456. repeat split; vm_compute; congruence. Qed.

Lemma file_blocks_exceed_u32_l :
  exists fsize cnt, fsize < two64 /\ get_block_count fsize c_SQFS_MIN_BLOCK_SIZE max32 0 = Ok cnt /\
                    u32 (cnt * 4) = 8 /\ alloc_limit < gsz + cnt * 4.
Proof. exists 4398046519176, 1073741826. repeat split; vm_compute; congruence. Qed.

(* ---- 3a. xattr id table: sqfs_xattr_reader_load with the table size in a w bit register ---- *)

Definition xattr_load_w (w : N) (img : list N) (s : sup) : res xreader :=
  if negb (N.land (s_flags s) c_SQFS_FLAG_NO_XATTRS =? 0) then Ok xr_empty
  else if s_xattr_start s =? max64 then Ok xr_empty
  else if s_bytes_used s <=? s_xattr_start s then Err E_OOB
  else
    do raw <- read_at img (s_xattr_start s) sizeof_sqfs_xattr_id_table_t;
    let start := fld 8 o_sqfs_xattr_id_table_t_xattr_table_start raw in
    let num := fld 4 o_sqfs_xattr_id_table_t_xattr_ids raw in
    let tbl := trunc w (num * idsz) in                       (* id_tbl_size *)
    let nblk := tbl / meta_sz + (if tbl mod meta_sz =? 0 then 0 else 1) in
    do cap <- alloc_array E_OVERFLOW 8 nblk;
    do _ <- put_check cap 0 (8 * nblk);
    do locs <- read_at img (u64 (s_xattr_start s + sizeof_sqfs_xattr_id_table_t)) (8 * nblk);
    let starts := items 8 (nN nblk) locs in
    if negb (all_le starts (s_bytes_used s)) then Err E_OOB
    else
      let m := mr_create (s_id_start s) (s_bytes_used s) in
      Ok (MkXr start (s_bytes_used s) num starts (Some m) (Some m)).

Lemma xattr_load_w_faithful_l w img s : 36 <= w -> xattr_load_w w img s = xattr_load img s.
Proof.
  intro Hw. unfold xattr_load_w, xattr_load.
  destruct (negb _); [reflexivity|].
  destruct (s_xattr_start s =? max64); [reflexivity|].
  destruct (s_bytes_used s <=? s_xattr_start s); [reflexivity|].
  destruct (read_at img (s_xattr_start s) sizeof_sqfs_xattr_id_table_t) as [raw| | |]; try reflexivity.
  cbn [bind]. cbv zeta.
  rewrite trunc_small; [reflexivity|].
  pose proof (fld4_lt o_sqfs_xattr_id_table_t_xattr_ids raw) as H.
  pose proof (pow_mono_36 w Hw) as P. change (2 ^ 36) with 68719476736 in P.
  unfold idsz, sizeof_sqfs_xattr_id_t, two32 in *. lia.
Qed.

(* every register of at least 36 bits keeps the invariant get_desc relies on
   (num_ids * 16 <= 8192 * #id_block_starts) *)
Lemma xattr_load_w_inv_l o w img s : 36 <= w -> post o (xattr_load_w w img s) xr_inv.
Proof. intro Hw. rewrite xattr_load_w_faithful_l by exact Hw. apply xattr_load_spec. Qed.

(* a 24 byte "image": xattr id table header (kv start 0, 2^28 + 1 ids) + one location *)
Definition w32_ximg : list N :=
  [0;0;0;0;0;0;0;0;  1;0;0;16;  0;0;0;0;   0;0;0;0;0;0;0;0].
Definition w32_xsup : sup := MkSup 1 0 4096 0 1 12 0 1 0 24 0 0 0 0 max64 max64.

Lemma xattr_load_w32_refuted_l :
  exists x,
    xattr_load_w 32 w32_ximg w32_xsup = Ok x /\ x_num_ids x = 268435457 /\ lenN (x_blocks x) = 1 /\
    ~ xr_inv x /\
    xattr_load w32_ximg w32_xsup = Err E_OOB /\
    (forall uc fuel, xattr_get_desc uc w32_ximg fuel x 512 = Crash) /\
    (forall uc fixed efuel fuel, xattr_read_all uc fixed w32_ximg efuel fuel x 512 = Crash).
Proof.
  eexists. split; [vm_compute; reflexivity|].
  split; [reflexivity|]. split; [reflexivity|].
  split. { unfold xr_inv. cbn [x_num_ids x_blocks x_idrd x_kvrd]. intros [_ [_ H]]. vm_compute in H. apply H. reflexivity. }
  split; [vm_compute; reflexivity|].
  split; intros; reflexivity.
Qed.

(* ---- 3b. fragment table: sqfs_frag_table_read with the table size in a w bit register;
   the C object keeps the announced count beside the raw table (array_t.used) ---- *)

Section Frag.
Variable uncompress : list N -> N -> res (list N).
Variable img : list N.

Definition frag_table_read_w (w : N) (fuel : nat) (s : sup) : res (list N * N) :=
  if negb (N.land (s_flags s) c_SQFS_FLAG_NO_FRAGMENTS =? 0) then Ok ([], 0)
  else if s_frag_start s =? max64 then Ok ([], 0)
  else if s_frag_count s =? 0 then Ok ([], 0)
  else if s_bytes_used s <=? s_frag_start s then Err E_OOB
  else if s_frag_start s <? s_dir_start s then Err E_CORRUPTED
  else if s_id_start s <=? s_frag_start s then Err E_CORRUPTED
  else
    let upper := if s_export_start s <? s_id_start s then s_export_start s else s_id_start s in
    do raw <- read_table uncompress img fuel (trunc w (s_frag_count s * sizeof_sqfs_fragment_t))
                         (s_frag_start s) (s_dir_start s) upper;
    Ok (raw, s_frag_count s).

(* sqfs_frag_table_lookup / array_get: the index is tested against table.used *)
Definition frag_lookup_used (t : list N * N) (idx : N) : res (N * N) :=
  if snd t <=? idx then Err E_OOB
  else
    do e <- slice (fst t) (idx * sizeof_sqfs_fragment_t) sizeof_sqfs_fragment_t;
    Ok (fld 8 o_sqfs_fragment_t_start_offset e, fld 4 o_sqfs_fragment_t_size e).

Lemma frag_lookup_used_eq tbl used idx :
  lenN tbl = used * sizeof_sqfs_fragment_t -> frag_lookup_used (tbl, used) idx = frag_lookup tbl idx.
Proof.
  intro H. unfold frag_lookup_used, frag_lookup. cbn [fst snd].
  rewrite H, N.div_mul by (unfold sizeof_sqfs_fragment_t; discriminate). reflexivity.
Qed.

Lemma frag_table_read_w_faithful_l w fuel s :
  36 <= w -> s_frag_count s < two32 ->
  match frag_table_read_w w fuel s, frag_table_read uncompress img fuel s with
  | Ok t, Ok tbl => fst t = tbl
  | Err a, Err b => a = b
  | Crash, Crash => True
  | OutOfFuel, OutOfFuel => True
  | _, _ => False
  end.
Proof.
  intros Hw Hc. unfold frag_table_read_w, frag_table_read.
  destruct (negb _); [reflexivity|].
  destruct (s_frag_start s =? max64); [reflexivity|].
  destruct (s_frag_count s =? 0); [reflexivity|].
  destruct (s_bytes_used s <=? s_frag_start s); [reflexivity|].
  destruct (s_frag_start s <? s_dir_start s); [reflexivity|].
  destruct (s_id_start s <=? s_frag_start s); [reflexivity|].
  cbv zeta.
  pose proof (pow_mono_36 w Hw) as P. change (2 ^ 36) with 68719476736 in P.
  assert (L : s_frag_count s * sizeof_sqfs_fragment_t < 68719476736)
    by (unfold sizeof_sqfs_fragment_t, two32 in *; lia).
  rewrite trunc_small by lia.
  unfold sz_mul_ov.
  replace (s_frag_count s * sizeof_sqfs_fragment_t <? two64) with true
    by (symmetry; apply N.ltb_lt; unfold two64; lia).
  destruct (read_table _ _ _ _ _ _ _); cbn [bind fst]; auto.
Qed.

End Frag.

(* fragment_entry_count = 2^28: a 32 bit size is 0, the table read "succeeds" with nothing, the
   object announces 2^28 entries and the first lookup reads past a zero byte allocation *)
Definition w32_fsup : sup := MkSup 1 0 4096 268435456 1 12 0 1 0 200 150 max64 96 100 120 max64.

Lemma frag_table_read_w32_refuted_l :
  forall uc img fuel,
    frag_table_read_w uc img 32 fuel w32_fsup = Ok ([], 268435456) /\
    frag_lookup_used ([], 268435456) 0 = Crash /\
    frag_table_read uc img fuel w32_fsup = Err E_ALLOC.
Proof. intros. repeat split. Qed.
