(* C13 -- concrete scripts: non-vacuity instances for the theorems about the
   repaired code and refutation witnesses for the code as it is today. *)
From Coq Require Import List ZArith Bool Arith.
From SqfsV Require Import Gen.Constants C13.FaultMonad C13.FaultModel.
Import ListNotations.
Local Open Scope Z_scope.

(* index (among the fallible calls) of the first call satisfying p in a trace *)
Fixpoint call_index (p : call -> bool) (t : list ev) (n : nat) : nat :=
  match t with
  | [] => n
  | EvCall c _ :: r => if p c then n else call_index p r (S n)
  | _ :: r => call_index p r n
  end.

Definition is_stage (k : nat) (c : call) : bool :=
  match c with KStage n => Nat.eqb n k | _ => false end.
Definition is_write_out (c : call) : bool := match c with KWrite FOut => true | _ => false end.
Definition is_read_of (f : fileid) (c : call) : bool :=
  match c, f with KRead FIn, FIn => true | KRead FStdin, FStdin => true | _, _ => false end.

(* fail the first call satisfying p / the (k+1)-th *)
Definition first_fault (prog_ : prog Z) (p : call -> bool) : nat -> bool :=
  single (call_index p (snd (run_tool prog_ nofault)) 0).

Fixpoint nth_index (p : call -> bool) (t : list ev) (k n : nat) : nat :=
  match t with
  | [] => n
  | EvCall c _ :: r =>
      if p c then (match k with O => n | S k' => nth_index p r k' (S n) end)
      else nth_index p r k (S n)
  | _ :: r => nth_index p r k n
  end.
Definition nth_fault (prog_ : prog Z) (p : call -> bool) (k : nat) : nat -> bool :=
  single (nth_index p (snd (run_tool prog_ nofault)) k 0).

Definition enq0 := mkenq false true.
Definition pcb0 := mkpcb true None PostSetSize.
Definition ser0 := mkser [mknode 0 0] true true 1.
Definition finish0 (bp : fin_script) (exp : option nat) : finish_script :=
  mkfinish bp ser0 None exp 1 (Some None) true.
Definition cfg0 := mkcfg false false false.

(* one small all-zero file (a sparse fragment) *)
Definition file_sparse : file_script :=
  mkfile [mkiter 1 (Some [ANew (mkgnb [] true)]); mkiter 1 None] (EfFrag None enq0) EfEmpty.
Definition gen_sparse : gen_script :=
  mkgen cfg0 [PreStage] [file_sparse] (finish0 (mkfin [[DqFrag (PcfSparse true)]] None) None).

(* one file of exactly one block, exportable image, --pack-dir, relative output path *)
Definition file_blk : file_script :=
  mkfile [mkiter 1 (Some [ANew (mkgnb [] true); AEnq enq0]); mkiter 1 None]
         (EfSentinel (mkgnb [] true) enq0) EfEmpty.
Definition bp_blk : fin_script :=
  mkfin [[DqBlock; DqBlock; DqIo pcb0; DqIo (mkpcb false (Some (mkdedup 0 false)) PostNone)]] None.
Definition gen_blk : gen_script :=
  mkgen (mkcfg false true true) [PreOpen; PreLines 1; PreStage] [file_blk] (finish0 bp_blk (Some 1%nat)).

Definition tar_blk : tar_script :=
  mktar cfg0 1 [mktent 0 1 TbNode; mktent 1 1 (TbFile file_blk)] 0 1
        (finish0 (mkfin [[DqBlock; DqBlock; DqIo pcb0]] None) None).

Definition s2t_small : list rd_step :=
  [RdOpen FImg; RdSetup 3; RdWrite FStdout; RdCopy 1 FStdout; RdWrite FStdout; RdTerminate; RdFsync].

Definition code_of (r : Z * list ev) : Z := fst r.
Definition trace_of (r : Z * list ev) : list ev := snd r.
Definition last_ev (r : Z * list ev) : option ev := hd_error (rev (snd r)).
