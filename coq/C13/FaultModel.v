(* C13 -- model of the status plumbing of the packers (gensquashfs, tar2sqfs),
   of sqfs2tar and of rdsquashfs -c / -u, layer by layer.

   What is transcribed: every call site on the way from an I/O primitive (or an
   abstract fallible stage: allocation, compressor call, parser) up to [main],
   with the status handling the C code has at that site (`if (ret) return ret`,
   `goto fail`, a diagnostic, a dropped status, cleanup that runs further calls
   whose status is ignored).  What is *not* computed by the model: the
   data-dependent control flow (how many blocks, which block is a duplicate,
   when the backlog is full ...).  That comes from a *script* -- a tree of
   loop counts and branch choices with the shape of the C call tree.  All
   theorems quantify over every script and every fault oracle; the tie derives
   scripts from logged runs of the real tools.

   The record [variant] switches each repaired call site between the code as
   it is in the repository today ([unpatched]) and the code after the patches
   in props/C13/fixes ([repaired]).  The unrestricted theorems are about
   [repaired]; each flag has a [_refuted] witness for [unpatched]. *)
From Coq Require Import List ZArith Bool Arith.
From SqfsV Require Import Gen.Constants C13.FaultMonad.
Import ListNotations.
Open Scope prog_scope.
Local Open Scope Z_scope.

Record variant := mkvariant {
  fix_init_unlink : bool;     (* F15  init.c fail_file: unlink the created output *)
  fix_export_ret : bool;      (* F16  dir_writer.c write_export_table: `if (ret) return 0;` *)
  fix_export_diag : bool;     (* N1   finish.c: export table failure has no diagnostic *)
  fix_sparse_frag : bool;     (* N2   backend.c process_completed_fragment: set_block_size status dropped *)
  fix_worker_status : bool;   (* N3   block_processor.c finish: pool status never looked at after the last dequeue *)
  fix_tar_probe : bool;       (* N4   lib/tar iterator.c tar_open_stream: read error of the probe ignored *)
  fix_cwd : bool;             (* N5   mkfs.c pack_files: chdir(packdir) never undone, cleanup unlinks a relative name *)
  fix_getline_diag : bool;    (* N6   fstree_from_file.c / sort_by_file.c: istream_get_line error has no diagnostic *)
  fix_tar_next_diag : bool;   (* N7   process_tarball.c: it->next() error has no diagnostic *)
  fix_s2t_term_diag : bool    (* N8   sqfs2tar.c: terminate_archive failure has no diagnostic *)
}.
Definition repaired := mkvariant true true true true true true true true true true.
Definition unpatched := mkvariant false false false false false false false false false false.

Definition E_IO := c_SQFS_ERROR_IO.
Definition E_ALLOC := c_SQFS_ERROR_ALLOC.
Definition E_COMP := c_SQFS_ERROR_COMPRESSOR.
Definition E_INTERNAL := c_SQFS_ERROR_INTERNAL.
Definition EXIT_SUCCESS := 0.
Definition EXIT_FAILURE := 1.

(* stage sites (only names; the number is what the trace shows) *)
Definition S_META_ALLOC := 1%nat.   Definition S_META_COMP := 2%nat.
Definition S_TBL_LOC := 3%nat.      Definition S_TBL_MW := 4%nat.
Definition S_BLK_LOC := 5%nat.      Definition S_SET_SIZE := 6%nat.
Definition S_FRAG_SET := 7%nat.     Definition S_SUBMIT := 8%nat.
Definition S_COPY := 9%nat.         Definition S_LOAD_FRAG := 10%nat.
Definition S_FRAG_APPEND := 11%nat. Definition S_CHUNK := 12%nat.
Definition S_HT_INSERT := 13%nat.   Definition S_WORKER := 14%nat.
Definition S_NEW_BLK := 15%nat.     Definition S_PACK_SETUP := 16%nat.
Definition S_NODE := 17%nat.        Definition S_EXPORT_ENT := 18%nat.
Definition S_XATTR := 19%nat.       Definition S_PAD := 20%nat.
Definition S_INIT := 21%nat.        Definition S_PRE := 22%nat.
Definition S_PATH := 23%nat.        Definition S_STDIN := 24%nat.
Definition S_TAR_ALLOC := 25%nat.   Definition S_TAR_NODE := 26%nat.
Definition S_TAR_FILE := 27%nat.    Definition S_POST := 28%nat.
Definition S_RD := 29%nat.          Definition S_CHDIR := 30%nat.

(* ---------------------------------------------------------------- io/*.c *)
(* file.c stdio_write_at / stdio_read_at / stdio_truncate, ostream.c write_all,
   istream.c precache: the retry loops are C12's; here one call = one outcome *)
Definition file_write_at (f : fileid) : prog Z := sys_st (KWrite f) E_IO.
Definition file_read_at (f : fileid) : prog Z := sys_st (KRead f) E_IO.
Definition file_truncate (f : fileid) : prog Z := sys_st (KTrunc f) E_IO.
Definition file_open (f : fileid) : prog Z := sys_st (KOpen f) E_IO.
Definition file_fsync (f : fileid) : prog Z := sys_st (KFsync f) E_IO.

Fixpoint reads (f : fileid) (n : nat) : prog Z :=
  match n with
  | O => Ret 0
  | S n' => r <- file_read_at f ;; on_ok r (reads f n')
  end.

Fixpoint writes (f : fileid) (n : nat) : prog Z :=
  match n with
  | O => Ret 0
  | S n' => r <- file_write_at f ;; on_ok r (writes f n')
  end.

(* ------------------------------------------------------------ meta_writer.c *)
(* sqfs_meta_writer_flush with offset != 0 *)
Definition meta_flush (in_memory : bool) : prog Z :=
  r <- stage S_META_ALLOC E_ALLOC ;;
  on_ok r (
  r <- stage S_META_COMP E_COMP ;;
  on_ok r (
  if in_memory then Ret 0 else file_write_at FOut)).

(* sqfs_meta_writer_append over a span that triggers n flushes *)
Fixpoint meta_flushes (in_memory : bool) (n : nat) : prog Z :=
  match n with
  | O => Ret 0
  | S n' => r <- meta_flush in_memory ;; on_ok r (meta_flushes in_memory n')
  end.

(* ------------------------------------------------------------ write_table.c *)
Definition write_table (nblk : nat) : prog Z :=
  r <- stage S_TBL_LOC E_ALLOC ;;
  on_ok r (
  r <- stage S_TBL_MW E_ALLOC ;;
  on_ok r (
  r <- meta_flushes false nblk ;;
  on_ok r (
  file_write_at FOut))).

(* ----------------------------------------------------- block_writer.c *)
Record dedup_script := mkdedup { dd_reads : nat; dd_trunc : bool }.
Inductive pcb_post_kind := PostNone | PostSetSize | PostFragSet.
Record pcb_script := mkpcb {
  pcb_store : bool;                  (* size != 0 && !sparse: store_block_location, write_at *)
  pcb_dedup : option dedup_script;   (* SQFS_BLK_LAST_BLOCK: deduplicate_blocks *)
  pcb_post : pcb_post_kind           (* set_block_size / sqfs_frag_table_set *)
}.

Definition deduplicate_blocks (d : dedup_script) : prog Z :=
  r <- reads FOut (dd_reads d) ;;         (* check_file_range_equal *)
  on_ok r (if dd_trunc d then file_truncate FOut else Ret 0).

Definition write_data_block (p : pcb_script) : prog Z :=
  r <- (if pcb_store p
        then (r <- stage S_BLK_LOC E_ALLOC ;; on_ok r (file_write_at FOut))
        else Ret 0) ;;
  on_ok r (match pcb_dedup p with Some d => deduplicate_blocks d | None => Ret 0 end).

(* ------------------------------------------------ block_processor/backend.c *)
Definition process_completed_block (p : pcb_script) : prog Z :=
  r <- write_data_block p ;;
  on_ok r (match pcb_post p with
           | PostNone => Ret 0
           | PostSetSize => stage S_SET_SIZE E_ALLOC
           | PostFragSet => stage S_FRAG_SET E_ALLOC
           end).

(* threadpool.c submit as seen by enqueue_block; frontend.c enqueue_block *)
Record enq_script := mkenq { enq_copy : bool; enq_item : bool }.

Definition pool_submit (item_alloc : bool) : prog Z :=
  r <- (if item_alloc then stage S_SUBMIT (-1) else Ret 0) ;;
  on_ok r (pool_status E_COMP).

Definition enqueue_block (e : enq_script) : prog Z :=
  r <- (if enq_copy e then stage S_COPY E_ALLOC else Ret 0) ;;
  on_ok r (
  r <- pool_submit (enq_item e) ;;
  if Z.eqb r 0 then Ret 0 else
    (s <- pool_status E_COMP ;; Ret (if Z.eqb s 0 then E_ALLOC else s))).

(* chunk_info_equals -> load_frag_block, n candidates that need the block from disk *)
Fixpoint lookups (n : nat) : prog Z :=
  match n with
  | O => Ret 0
  | S n' => r <- stage S_LOAD_FRAG E_ALLOC ;;
            on_ok r (r <- file_read_at FOut ;; on_ok r (lookups n'))
  end.

Inductive pcf_script :=
| PcfSparse (inode : bool)
| PcfHit (lk : nat)
| PcfStore (lk : nat) (flush : option enq_script) (newblk : bool) (lk2 : nat).

Definition process_completed_fragment (v : variant) (s : pcf_script) : prog Z :=
  match s with
  | PcfSparse inode =>
      if inode then (r <- stage S_SET_SIZE E_ALLOC ;;
                     Ret (if fix_sparse_frag v then r else 0))
      else Ret 0
  | PcfHit lk => lookups lk
  | PcfStore lk fl nb lk2 =>
      r <- lookups lk ;;
      on_ok r (
      r <- (match fl with Some e => enqueue_block e | None => Ret 0 end) ;;
      on_ok r (
      r <- (if nb then stage S_FRAG_APPEND E_ALLOC else Ret 0) ;;
      on_ok r (
      r <- stage S_CHUNK E_ALLOC ;;
      on_ok r (
      r <- lookups lk2 ;;
      on_ok r (
      stage S_HT_INSERT E_ALLOC)))))
  end.

(* the compressor call of a worker; a failure is only recorded in pool->status *)
Definition worker : prog unit :=
  Sys (KStage S_WORKER) (fun ok => if ok then Ret tt else PoolSet (Ret tt)).

Inductive dq_item :=
| DqIo (p : pcb_script)      (* head of io_queue has the next sequence number *)
| DqBlock                    (* pool->dequeue returned a data block: store_io_block *)
| DqFrag (f : pcf_script)    (* pool->dequeue returned a fragment *)
| DqNull.                    (* pool->dequeue returned NULL *)

Fixpoint dequeue_block (v : variant) (l : list dq_item) : prog Z :=
  match l with
  | [] => Ret 0
  | DqIo p :: t => r <- process_completed_block p ;; on_ok r (dequeue_block v t)
  | DqBlock :: t => worker ;;; dequeue_block v t
  | DqFrag f :: t => worker ;;; (r <- process_completed_fragment v f ;; on_ok r (dequeue_block v t))
  | DqNull :: _ => s <- pool_status E_COMP ;; Ret (if Z.eqb s 0 then E_INTERNAL else s)
  end.

Fixpoint dq_many (v : variant) (l : list (list dq_item)) : prog Z :=
  match l with
  | [] => Ret 0
  | d :: t => r <- dequeue_block v d ;; on_ok r (dq_many v t)
  end.

(* ----------------------------------------------- block_processor/frontend.c *)
Record gnb_script := mkgnb { gnb_dq : list (list dq_item); gnb_malloc : bool }.

Definition get_new_block (v : variant) (g : gnb_script) : prog Z :=
  r <- dq_many v (gnb_dq g) ;;
  on_ok r (if gnb_malloc g then stage S_NEW_BLK E_ALLOC else Ret 0).

Inductive app_step := ANew (g : gnb_script) | AEnq (e : enq_script).

Fixpoint bp_append (v : variant) (l : list app_step) : prog Z :=
  match l with
  | [] => Ret 0
  | ANew g :: t => r <- get_new_block v g ;; on_ok r (bp_append v t)
  | AEnq e :: t => r <- enqueue_block e ;; on_ok r (bp_append v t)
  end.

Definition add_sentinel_block (v : variant) (g : gnb_script) (e : enq_script) : prog Z :=
  r <- get_new_block v g ;; on_ok r (enqueue_block e).

Inductive ef_script :=
| EfEmpty
| EfSentinel (g : gnb_script) (e : enq_script)
| EfLast (e : enq_script)
| EfFrag (sent : option (gnb_script * enq_script)) (e : enq_script).

Definition bp_end_file (v : variant) (s : ef_script) : prog Z :=
  match s with
  | EfEmpty => Ret 0
  | EfSentinel g e => add_sentinel_block v g e
  | EfLast e => enqueue_block e
  | EfFrag None e => enqueue_block e
  | EfFrag (Some (g, e0)) e => r <- add_sentinel_block v g e0 ;; on_ok r (enqueue_block e)
  end.

(* block_processor.c sqfs_block_processor_finish *)
Record fin_script := mkfin {
  fin_sync1 : list (list dq_item);
  fin_frag : option (enq_script * list (list dq_item))
}.

Definition bp_finish (v : variant) (f : fin_script) : prog Z :=
  r <- dq_many v (fin_sync1 f) ;;
  on_ok r (
  r <- (match fin_frag f with
        | None => Ret 0
        | Some (e, s2) => r <- enqueue_block e ;; on_ok r (dq_many v s2)
        end) ;;
  on_ok r (if fix_worker_status v then pool_status E_COMP else Ret 0)).

(* ------------------------------------- stream_api.c splice + pack_file (mkfs.c) *)
Record iter_script := mkiter {
  it_reads : nat;                        (* read() calls of this get_buffered_data *)
  it_app : option (list app_step)        (* None: end of file *)
}.

Fixpoint splice_all (v : variant) (f : fileid) (l : list iter_script) : prog Z :=
  match l with
  | [] => Ret 0
  | i :: t =>
      r <- reads f (it_reads i) ;;
      on_ok r (match it_app i with
               | None => Ret 0
               | Some a => r <- bp_append v a ;; on_ok r (splice_all v f t)
               end)
  end.

Record file_script := mkfile {
  fs_iters : list iter_script;
  fs_flush : ef_script;       (* out->flush(out) *)
  fs_destroy : ef_script      (* stream_destroy -> end_file when flush was never reached *)
}.

Definition D_PACK_FILE := 1%nat.

(* data part shared by mkfs.c pack_file and process_tarball.c write_file:
   splice loop, flush, then sqfs_drop(out) *)
Definition copy_data (v : variant) (src : fileid) (f : file_script) : prog Z :=
  r <- splice_all v src (fs_iters f) ;;
  if Z.eqb r 0
  then bp_end_file v (fs_flush f)
  else (bp_end_file v (fs_destroy f) ;;; Ret r).

Definition pack_file (v : variant) (f : file_script) : prog Z :=
  r <- file_open FIn ;;
  if negb (Z.eqb r 0) then (diag D_PACK_FILE ;;; Ret r) else
  r <- stage S_PACK_SETUP E_ALLOC ;;
  if negb (Z.eqb r 0) then (diag D_PACK_FILE ;;; emit (EvClose FIn) ;;; Ret r) else
  r <- copy_data v FIn f ;;
  diag_if r D_PACK_FILE ;;;
  emit (EvClose FIn) ;;;
  Ret r.

Fixpoint pack_loop (v : variant) (l : list file_script) : prog Z :=
  match l with
  | [] => Ret 0
  | f :: t =>
      r <- stage S_PATH E_ALLOC ;;
      if negb (Z.eqb r 0) then (diag D_PACK_FILE ;;; Ret (-1)) else
      r <- pack_file v f ;;
      if negb (Z.eqb r 0) then Ret (-1) else pack_loop v t
  end.

(* mkfs.c pack_files.  Returns (status, process is still in the pack directory) *)
Definition pack_files (v : variant) (packdir : bool) (l : list file_script) : prog (Z * bool) :=
  if packdir then
    r <- stage S_CHDIR (-1) ;;
    if negb (Z.eqb r 0) then (diag D_PACK_FILE ;;; Ret (-1, false)) else
    emit (EvChdir true) ;;;
    r <- pack_loop v l ;;
    if fix_cwd v then (emit (EvChdir false) ;;; Ret (r, false)) else Ret (r, true)
  else
    r <- pack_loop v l ;; Ret (r, false).

(* ------------------------------------------------ writer/serialize_fstree.c *)
Record node_script := mknode { nd_dm : nat; nd_im : nat }.

Definition serialize_tree_node (n : node_script) : prog Z :=
  r <- stage S_NODE E_ALLOC ;;
  on_ok r (
  r <- meta_flushes true (nd_dm n) ;;
  on_ok r (meta_flushes false (nd_im n))).

Fixpoint serialize_nodes (l : list node_script) : prog Z :=
  match l with
  | [] => Ret 0
  | n :: t => r <- serialize_tree_node n ;; on_ok r (serialize_nodes t)
  end.

Record ser_script := mkser {
  ser_nodes : list node_script;
  ser_im_flush : bool; ser_dm_flush : bool;
  ser_dm_blocks : nat
}.

Definition D_SERIALIZE := 2%nat.

Definition serialize_fstree (s : ser_script) : prog Z :=
  r <- (r <- serialize_nodes (ser_nodes s) ;;
        on_ok r (
        r <- (if ser_im_flush s then meta_flush false else Ret 0) ;;
        on_ok r (
        r <- (if ser_dm_flush s then meta_flush true else Ret 0) ;;
        on_ok r (writes FOut (ser_dm_blocks s))))) ;;
  diag_if r D_SERIALIZE ;;;
  Ret r.

(* ---------------------------------------------------------- writer/finish.c *)
Record xattr_script := mkxattr { xa_kv : nat; xa_id : nat }.

Definition xattr_writer_flush (x : option xattr_script) : prog Z :=
  match x with
  | None => Ret 0          (* no key/value pairs recorded: returns before any call *)
  | Some x =>
      r <- stage S_XATTR E_ALLOC ;;
      on_ok r (
      r <- meta_flushes false (xa_kv x) ;;
      on_ok r (
      r <- stage S_XATTR E_ALLOC ;;
      on_ok r (
      r <- meta_flushes false (xa_id x) ;;
      on_ok r (
      r <- file_write_at FOut ;;
      on_ok r (file_write_at FOut)))))
  end.

Definition write_export_table (v : variant) (nblk : nat) : prog Z :=
  r <- stage S_EXPORT_ENT E_ALLOC ;;
  if negb (Z.eqb r 0) then Ret (if fix_export_ret v then r else 0) else
  write_table nblk.

Definition padd_sqfs (pad : bool) : prog Z :=
  if pad then
    r <- (r <- stage S_PAD (-1) ;; on_ok r (r <- file_write_at FOut ;; Ret (if Z.eqb r 0 then 0 else -1))) ;;
    diag_if r 9 ;;; Ret r
  else Ret 0.

Record finish_script := mkfinish {
  fi_bp : fin_script;
  fi_ser : ser_script;
  fi_frag : option nat;              (* None: empty fragment table, nothing written *)
  fi_export : option nat;            (* None: not exportable *)
  fi_id : nat;
  fi_xattr : option (option xattr_script);   (* None: --no-xattr *)
  fi_pad : bool
}.

(* `ret = f(); if (ret) { sqfs_perror(...); return -1; }` *)
Definition or_fail (d : nat) (m : prog Z) (k : prog Z) : prog Z :=
  r <- m ;;
  if Z.eqb r 0 then k else (diag d ;;; Ret (-1)).

Definition writer_finish (v : variant) (f : finish_script) : prog Z :=
  or_fail 3 (bp_finish v (fi_bp f)) (
  r <- serialize_fstree (fi_ser f) ;;
  if negb (Z.eqb r 0) then Ret (-1) else
  or_fail 4 (match fi_frag f with Some n => write_table n | None => Ret 0 end) (
  r <- (match fi_export f with Some n => write_export_table v n | None => Ret 0 end) ;;
  if negb (Z.eqb r 0) then ((if fix_export_diag v then diag 5 else Ret tt) ;;; Ret (-1)) else
  or_fail 6 (write_table (fi_id f)) (
  or_fail 7 (match fi_xattr f with Some x => xattr_writer_flush x | None => Ret 0 end) (
  or_fail 8 (file_write_at FOut) (
  r <- padd_sqfs (fi_pad f) ;;
  if negb (Z.eqb r 0) then Ret (-1) else Ret 0))))).

(* ------------------------------------------------------------ writer/init.c *)
Record cfg := mkcfg {
  c_compopts : bool;       (* the compressor writes an options block *)
  c_packdir : bool;        (* gensquashfs --pack-dir together with input files *)
  c_out_relative : bool    (* the output path is relative *)
}.

(* everything from fail_dm: down to fail_file: only drops objects *)
Definition init_fail (v : variant) : prog Z :=
  emit (EvClose FOut) ;;;
  (if fix_init_unlink v then emit (EvUnlink FOut) else Ret tt) ;;;
  Ret (-1).

Fixpoint init_stages (v : variant) (n : nat) : prog Z :=
  match n with
  | O => Ret 0
  | S n' => r <- stage S_INIT E_ALLOC ;;
            if Z.eqb r 0 then init_stages v n' else (diag 11 ;;; init_fail v)
  end.

Definition writer_init (v : variant) (c : cfg) : prog Z :=
  (* compressor_cfg_init_options: prints its own message *)
  r <- stage S_INIT (-1) ;;
  if negb (Z.eqb r 0) then (diag 10 ;;; Ret (-1)) else
  r <- file_open FOut ;;
  if negb (Z.eqb r 0) then (diag 10 ;;; Ret (-1)) else
  (* parse_fstree_defaults, fstree_init, compressor x2, super_init *)
  r <- init_stages v 5 ;;
  on_ok r (
  r <- file_write_at FOut ;;                                  (* sqfs_super_write *)
  if negb (Z.eqb r 0) then (diag 12 ;;; init_fail v) else
  r <- (if c_compopts c then file_write_at FOut else Ret 0) ;;  (* cmp->write_options *)
  if negb (Z.eqb r 0) then (diag 13 ;;; init_fail v) else
  (* block writer, fragment table, block processor, id table, xattr writer, im, dm, dir writer *)
  init_stages v 8).

(* --------------------------------------------------------- writer/cleanup.c *)
Definition writer_cleanup (c : cfg) (away : bool) (status : Z) : prog unit :=
  emit (EvClose FOut) ;;;
  if Z.eqb status 0 then Ret tt
  else emit (EvUnlink (if away && c_out_relative c then FWrong else FOut)).

(* ------------------------------------------------------ mkfs.c main *)
Inductive pre_step :=
| PreStage                     (* a step without modelled I/O that prints its own diagnostic *)
| PreOpen                      (* open an auxiliary input (pack file, sort file, xattr map) *)
| PreLines (reads : nat).      (* istream_get_line loop over such a file *)

Fixpoint pre_steps (v : variant) (l : list pre_step) : prog Z :=
  match l with
  | [] => Ret 0
  | PreStage :: t =>
      r <- stage S_PRE (-1) ;;
      if Z.eqb r 0 then pre_steps v t else (diag 20 ;;; Ret (-1))
  | PreOpen :: t =>
      r <- file_open FIn ;;
      if Z.eqb r 0 then pre_steps v t else (diag 21 ;;; Ret (-1))
  | PreLines n :: t =>
      r <- reads FIn n ;;
      if Z.eqb r 0 then pre_steps v t
      else ((if fix_getline_diag v then diag 22 else Ret tt) ;;; Ret (-1))
  end.

Record gen_script := mkgen {
  g_cfg : cfg;
  g_pre : list pre_step;
  g_files : list file_script;
  g_finish : finish_script
}.

Definition gensquashfs (v : variant) (g : gen_script) : prog Z :=
  r <- writer_init v (g_cfg g) ;;
  if negb (Z.eqb r 0) then Ret EXIT_FAILURE else       (* `return EXIT_FAILURE;` -- no cleanup *)
  r <- pre_steps v (g_pre g) ;;
  if negb (Z.eqb r 0) then (writer_cleanup (g_cfg g) false EXIT_FAILURE ;;; Ret EXIT_FAILURE) else
  ra <- pack_files v (c_packdir (g_cfg g)) (g_files g) ;;
  if negb (Z.eqb (fst ra) 0) then (writer_cleanup (g_cfg g) (snd ra) EXIT_FAILURE ;;; Ret EXIT_FAILURE) else
  r <- writer_finish v (g_finish g) ;;
  if negb (Z.eqb r 0) then (writer_cleanup (g_cfg g) (snd ra) EXIT_FAILURE ;;; Ret EXIT_FAILURE) else
  writer_cleanup (g_cfg g) (snd ra) EXIT_SUCCESS ;;; Ret EXIT_SUCCESS.

(* -------------------------------- tar2sqfs.c main + process_tarball.c *)
Inductive tar_body :=
| TbSkip                                (* entry filtered out / root attributes only *)
| TbNode                                (* fstree_add_generic (+ xattrs) *)
| TbFile (f : file_script).             (* regular file: write_file *)

Record tar_entry := mktent {
  te_skip_reads : nat;                  (* sqfs_istream_skip of record remainder and padding *)
  te_hdr_reads : nat;                   (* read_header (prints its own message on failure) *)
  te_body : tar_body
}.

Definition tar_next (v : variant) (e : tar_entry) : prog Z :=
  r <- reads FStdin (te_skip_reads e) ;;
  if negb (Z.eqb r 0) then ((if fix_tar_next_diag v then diag 30 else Ret tt) ;;; Ret (-1)) else
  r <- reads FStdin (te_hdr_reads e) ;;
  if negb (Z.eqb r 0) then (diag 31 ;;; (if fix_tar_next_diag v then diag 30 else Ret tt) ;;; Ret (-1)) else
  r <- stage S_TAR_NODE E_ALLOC ;;                 (* sqfs_dir_entry_create *)
  if negb (Z.eqb r 0) then ((if fix_tar_next_diag v then diag 30 else Ret tt) ;;; Ret (-1)) else
  Ret 0.

Definition tar_write_file (v : variant) (f : file_script) : prog Z :=
  r <- stage S_TAR_FILE E_ALLOC ;;        (* create_ostream, open_file_ro *)
  on_ok r (copy_data v FStdin f).

Fixpoint process_tarball (v : variant) (l : list tar_entry) : prog Z :=
  match l with
  | [] => Ret 0
  | e :: t =>
      r <- tar_next v e ;;
      if negb (Z.eqb r 0) then Ret (-1) else
      match te_body e with
      | TbSkip => process_tarball v t
      | TbNode =>
          r <- stage S_TAR_NODE E_ALLOC ;;
          if negb (Z.eqb r 0) then (diag 32 ;;; Ret (-1)) else process_tarball v t
      | TbFile f =>
          r <- stage S_TAR_NODE E_ALLOC ;;
          if negb (Z.eqb r 0) then (diag 32 ;;; Ret (-1)) else
          r <- tar_write_file v f ;;
          if negb (Z.eqb r 0) then (diag 33 ;;; Ret (-1)) else process_tarball v t
      end
  end.

Record tar_script := mktar {
  t_cfg : cfg;
  t_probe_reads : nat;                   (* tar_open_stream: get_buffered_data *)
  t_entries : list tar_entry;
  t_end_skip : nat; t_end_reads : nat;   (* the it->next() that reports the end of the archive *)
  t_finish : finish_script
}.

Definition tar2sqfs (v : variant) (t : tar_script) : prog Z :=
  r <- stage S_STDIN E_ALLOC ;;                          (* istream_open_stdin *)
  if negb (Z.eqb r 0) then (diag 40 ;;; Ret EXIT_FAILURE) else
  r <- stage S_TAR_ALLOC E_ALLOC ;;                      (* tar_open_stream: calloc *)
  if negb (Z.eqb r 0) then (diag 41 ;;; Ret EXIT_FAILURE) else
  r <- reads FStdin (t_probe_reads t) ;;
  if negb (Z.eqb r 0) && fix_tar_probe v then (diag 41 ;;; Ret EXIT_FAILURE) else
  r <- writer_init v (t_cfg t) ;;
  if negb (Z.eqb r 0) then Ret EXIT_FAILURE else         (* goto out_it *)
  r <- (r <- process_tarball v (t_entries t) ;;
        on_ok r (
        (* last it->next(): end of archive *)
        r <- reads FStdin (t_end_skip t) ;;
        if negb (Z.eqb r 0) then ((if fix_tar_next_diag v then diag 30 else Ret tt) ;;; Ret (-1)) else
        r <- reads FStdin (t_end_reads t) ;;
        if negb (Z.eqb r 0) then (diag 31 ;;; Ret (-1)) else
        r <- stage S_POST (-1) ;;                         (* fstree_post_process *)
        if negb (Z.eqb r 0) then (diag 34 ;;; Ret (-1)) else
        writer_finish v (t_finish t))) ;;
  if negb (Z.eqb r 0) then (writer_cleanup (t_cfg t) false EXIT_FAILURE ;;; Ret EXIT_FAILURE) else
  writer_cleanup (t_cfg t) false EXIT_SUCCESS ;;; Ret EXIT_SUCCESS.

(* ----------------- readers: sqfs2tar.c main, rdsquashfs.c main (-c, -u) ----
   One generic shape: a list of steps, each with the diagnostic discipline of its
   call site; any failure ends the run with EXIT_FAILURE (`goto out`). *)
Inductive rd_step :=
| RdSetup (reads : nat)              (* open image / super / tables / tree: message at the call site *)
| RdStage                            (* allocation etc. with message *)
| RdCopy (reads : nat) (out : fileid)  (* one splice iteration: data reader reads, then one write *)
| RdWrite (out : fileid)             (* tar header / padding write with message *)
| RdOpen (f : fileid)                (* open of the image; rdsquashfs -u: create node / open output file *)
| RdFsync                            (* flush of an output stream *)
| RdTerminate.                       (* sqfs2tar terminate_archive *)

Fixpoint reader_steps (v : variant) (l : list rd_step) : prog Z :=
  match l with
  | [] => Ret 0
  | RdSetup n :: t =>
      r <- (r <- stage S_RD E_ALLOC ;; on_ok r (reads FImg n)) ;;
      if Z.eqb r 0 then reader_steps v t else (diag 50 ;;; Ret r)
  | RdStage :: t =>
      r <- stage S_RD E_ALLOC ;;
      if Z.eqb r 0 then reader_steps v t else (diag 51 ;;; Ret r)
  | RdCopy n out :: t =>
      r <- (r <- reads FImg n ;; on_ok r (file_write_at out)) ;;
      if Z.eqb r 0 then reader_steps v t else (diag 52 ;;; Ret r)
  | RdWrite out :: t =>
      r <- file_write_at out ;;
      if Z.eqb r 0 then reader_steps v t else (diag 53 ;;; Ret r)
  | RdOpen f :: t =>
      r <- file_open f ;;
      if Z.eqb r 0 then reader_steps v t else (diag 54 ;;; Ret r)
  | RdFsync :: t =>
      r <- file_fsync FUnp ;;
      if Z.eqb r 0 then reader_steps v t else (diag 55 ;;; Ret r)
  | RdTerminate :: t =>
      r <- file_write_at FStdout ;;
      if Z.eqb r 0 then reader_steps v t
      else ((if fix_s2t_term_diag v then diag 56 else Ret tt) ;;; Ret r)
  end.

Definition reader_tool (v : variant) (l : list rd_step) : prog Z :=
  r <- reader_steps v l ;;
  Ret (if Z.eqb r 0 then EXIT_SUCCESS else EXIT_FAILURE).

(* ---------------------------------------------------------------- running *)
Definition run_tool (p : prog Z) (o : nat -> bool) : Z * list ev :=
  let (code, s) := run p o st0 in (code, rev_append (tr s) []).

(* the abstract output object after a run: the successful output calls in order *)
Definition is_out_effect (e : ev) : bool :=
  match e with
  | EvCall (KOpen FOut) true | EvCall (KWrite FOut) true | EvCall (KTrunc FOut) true
  | EvCall (KWrite FStdout) true | EvCall (KWrite FUnp) true | EvCall (KOpen FUnp) true
  | EvUnlink _ => true
  | _ => false
  end.
Definition output_of (t : list ev) : list ev := filter is_out_effect t.
