(* C13 -- diagnostics, cleanup and the tool-level statements *)
From Coq Require Import List ZArith Bool Arith Lia.
From SqfsV Require Import Gen.Constants C13.FaultMonad C13.FaultGeneric C13.FaultModel C13.FaultProofs.
Import ListNotations.
Open Scope prog_scope.
Local Open Scope Z_scope.

(* ------------------------------------------------------------ diagnostics *)
Lemma gdiag_always_ok : forall (A : Type) (P : A -> Prop) (p : prog A),
  (forall o s, P (fst (run p o s))) -> gdiag P p.
Proof. intros A P p H o s N. exfalso. exact (N (H o s)). Qed.

(* callee quiet: `r <- m ;; if r = 0 then K else (diag ..)` *)
Ltac pq :=
  apply (gdiag_bind_quiet okz okz);
  [ in_ok
  | (let a := fresh "a" in let H := fresh "H" in let o := fresh "o" in let s := fresh "s" in
     intros a H o s; znz a H; try apply run_diag_has)
  | apply okz_dec ].
(* callee prints *)
Ltac pp :=
  apply (gdiag_bind okz okz); [ | in_ok | in_nz; try nz_tail | apply okz_dec ].

Lemma prints_ret0 : prints (Ret 0).
Proof. apply gdiag_ret_ok. reflexivity. Qed.
#[export] Hint Resolve prints_ret0 : c13.

Lemma prints_or_fail : forall d m k, prints k -> prints (or_fail d m k).
Proof. intros d m k Hk. unfold or_fail. pq. exact Hk. Qed.

Lemma prints_serialize : forall s, prints (serialize_fstree s).
Proof.
  intros s. unfold serialize_fstree. pq.
  apply gdiag_always_ok. intros o s0. reflexivity.
Qed.

Lemma prints_padd : forall b, prints (padd_sqfs b).
Proof.
  intros b. unfold padd_sqfs. destruct b; [|auto with c13]. pq.
  apply gdiag_always_ok. intros o s0. reflexivity.
Qed.

Lemma prints_finish_tail : forall f, prints (finish_tail repaired f).
Proof.
  intros f. unfold finish_tail. cbn [fix_export_diag repaired].
  pp; [ apply prints_serialize | ].
  apply prints_or_fail. pq.
  apply prints_or_fail. apply prints_or_fail. apply prints_or_fail.
  pp; [ apply prints_padd | auto with c13 ].
Qed.

Lemma prints_writer_finish : forall f, prints (writer_finish repaired f).
Proof. intros f. rewrite writer_finish_unfold. apply prints_or_fail. apply prints_finish_tail. Qed.

Lemma prints_pack_file : forall f, prints (pack_file repaired f).
Proof.
  intros f. unfold pack_file. pq. pq.
  apply (gdiag_bind_quiet okz okz); [ in_ok | | apply okz_dec ].
  - apply gdiag_always_ok. intros o s. reflexivity.
  - intros a H o s. unfold okz in H. apply Z.eqb_neq in H. unfold diag_if. rewrite H. apply run_diag_has.
Qed.

Lemma prints_pack_loop : forall l, prints (pack_loop repaired l).
Proof.
  induction l as [|x t IH]; cbn [pack_loop]; [auto with c13|].
  pq. pp; [ apply prints_pack_file | exact IH ].
Qed.

Lemma prints_pack_files : forall pd l, gdiag okp (pack_files repaired pd l).
Proof.
  intros pd l. unfold pack_files. cbn [fix_cwd repaired]. destruct pd.
  - apply (gdiag_bind_quiet okz okp); [ in_ok | | apply okz_dec ].
    2: { intros a H o s. znz a H. apply run_diag_has. }
    apply (gdiag_bind oku okp); [ apply gdiag_always_ok; intros; exact I | in_u | in_nu | apply oku_dec ].
    apply (gdiag_bind okz okp); [ apply prints_pack_loop | in_ok | | apply okz_dec ].
    + apply gdiag_always_ok. intros o s. reflexivity.
    + intros ? ?. nzp_tail.
  - apply (gdiag_bind okz okp); [ apply prints_pack_loop | in_ok | | apply okz_dec ].
    + apply gdiag_always_ok. intros o s. reflexivity.
    + intros ? ?. nzp_tail.
Qed.

Lemma prints_init_stages : forall v n, prints (init_stages v n).
Proof.
  intros v n. induction n; cbn [init_stages]; [auto with c13|]. pq. exact IHn.
Qed.

Lemma prints_writer_init : forall v c, prints (writer_init v c).
Proof.
  intros v c. unfold writer_init. pq. pq.
  pp; [ apply prints_init_stages | ].
  pq. pq. apply prints_init_stages.
Qed.

Lemma prints_pre_steps : forall l, prints (pre_steps repaired l).
Proof.
  induction l as [|x t IH]; cbn [pre_steps fix_getline_diag repaired]; [auto with c13|].
  destruct x; pq; exact IH.
Qed.

(* --------------------------------------------------- init and the output *)
Lemma created_cons_false : forall e l, is_out_created e = false -> created (e :: l) = created l.
Proof. intros e l H. unfold created. cbn [existsb]. rewrite H. reflexivity. Qed.

(* ---- sqfs_writer_init (repaired) and the output file ----
   Once the open succeeded: the output stays "created", and a failure ends with
   the unlink of the output as the very last event. *)
Definition after_open (p : prog Z) : Prop :=
  forall o s, created (tr s) = true ->
    created (tr (snd (run p o s))) = true /\
    (fst (run p o s) <> 0 -> exists rest, tr (snd (run p o s)) = EvUnlink FOut :: rest).

Lemma created_cons_mono : forall e l, created l = true -> created (e :: l) = true.
Proof. intros e l H. unfold created in *. cbn [existsb]. rewrite H. apply orb_true_r. Qed.

Lemma init_fail_run : forall o s,
  run (init_fail repaired) o s = (-1, mkst (nxt s) (EvUnlink FOut :: EvClose FOut :: tr s) (perr s)).
Proof. reflexivity. Qed.

Lemma after_open_ret0 : after_open (Ret 0).
Proof. intros o s H. cbn [run fst snd]. split; [exact H|]. intros N. exfalso. apply N. reflexivity. Qed.

Lemma after_open_seq : forall m k, after_open m -> after_open k -> after_open (r <- m ;; on_ok r k).
Proof.
  intros m k Hm Hk o s Hc. rewrite run_bind. specialize (Hm o s Hc).
  destruct (run m o s) as [a s1]. cbn [fst snd] in Hm. destruct Hm as [Hc1 Hf].
  unfold on_ok. destruct (Z.eqb a 0) eqn:E.
  - apply Hk. exact Hc1.
  - cbn [run fst snd]. split; [exact Hc1|]. intros _. apply Hf. apply Z.eqb_neq. exact E.
Qed.

(* a fallible call whose failure leads to `diagnostic; goto fail_xxx;` *)
Lemma after_open_call : forall c e d k, after_open k ->
  after_open (r <- sys_st c e ;; if negb (Z.eqb r 0) then (diag d ;;; init_fail repaired) else k).
Proof.
  intros c e d k Hk o s Hc. unfold sys_st. cbn [bind run]. destruct (o (nxt s)); cbn [negb].
  - destruct (Z.eqb e 0) eqn:E; cbn [negb].
    + apply Hk. cbn [tr]. apply created_cons_mono. exact Hc.
    + unfold diag. cbn [bind run]. rewrite init_fail_run. cbn [fst snd tr]. split.
      * do 4 apply created_cons_mono. exact Hc.
      * intros _. eexists. reflexivity.
  - cbn [Z.eqb negb]. apply Hk. cbn [tr]. apply created_cons_mono. exact Hc.
Qed.

Lemma after_open_init_stages : forall n, after_open (init_stages repaired n).
Proof.
  induction n; cbn [init_stages]; [apply after_open_ret0|].
  intros o s Hc. unfold stage, sys_st. cbn [bind run]. destruct (o (nxt s)); cbn [negb Z.eqb].
  - change (Z.eqb E_ALLOC 0) with false. cbv iota.
    unfold diag. cbn [bind run]. rewrite init_fail_run. cbn [fst snd tr]. split.
    + do 4 apply created_cons_mono. exact Hc.
    + intros _. eexists. reflexivity.
  - apply IHn. cbn [tr]. apply created_cons_mono. exact Hc.
Qed.

Definition init_after_open (v : variant) (c : cfg) : prog Z :=
  r <- init_stages v 5 ;;
  on_ok r (
  r <- file_write_at FOut ;;
  if negb (Z.eqb r 0) then (diag 12 ;;; init_fail v) else
  r <- (if c_compopts c then file_write_at FOut else Ret 0) ;;
  if negb (Z.eqb r 0) then (diag 13 ;;; init_fail v) else
  init_stages v 8).

Lemma writer_init_unfold : forall v c,
  writer_init v c =
  (r <- stage S_INIT (-1) ;;
   if negb (Z.eqb r 0) then (diag 10 ;;; Ret (-1)) else
   r <- file_open FOut ;;
   if negb (Z.eqb r 0) then (diag 10 ;;; Ret (-1)) else
   init_after_open v c).
Proof. reflexivity. Qed.

Lemma after_open_init : forall c, after_open (init_after_open repaired c).
Proof.
  intros c. unfold init_after_open. apply after_open_seq; [apply after_open_init_stages|].
  unfold file_write_at. apply after_open_call.
  destruct (c_compopts c).
  - apply after_open_call. apply after_open_init_stages.
  - cbn [bind Z.eqb negb]. apply after_open_init_stages.
Qed.

(* what sqfs_writer_init guarantees about the output *)
Lemma writer_init_post : forall c o s,
  let rs := run (writer_init repaired c) o s in
  (fst rs = 0 -> created (tr (snd rs)) = true) /\
  (fst rs <> 0 -> created (tr (snd rs)) = true ->
      created (tr s) = true \/ exists rest, tr (snd rs) = EvUnlink FOut :: rest) /\
  (has_unlink (tr (snd rs)) = true -> has_unlink (tr s) = true \/ created (tr (snd rs)) = true).
Proof.
  intros c o s. rewrite writer_init_unfold. unfold stage, file_open, sys_st, diag.
  cbn [bind run]. destruct (o (nxt s)) eqn:O1; cbn [negb Z.eqb bind run fst snd tr nxt perr].
  { (* compressor_cfg_init_options failed *)
    split; [intros H; discriminate|]. split.
    - intros _ H. left. rewrite !created_cons_false in H by reflexivity. exact H.
    - intros H. left. exact H. }
  destruct (o (S (nxt s))) eqn:O2; cbn [negb bind run fst snd tr nxt perr].
  { (* open failed *)
    change (negb (Z.eqb E_IO 0)) with true. cbn [bind run fst snd tr nxt perr].
    split; [intros H; discriminate|]. split.
    - intros _ H. left. rewrite !created_cons_false in H by reflexivity. exact H.
    - intros H. left. exact H. }
  cbn [Z.eqb negb].
  match goal with |- context [run (init_after_open repaired c) o ?s1] =>
    assert (Hc : created (tr s1) = true) by reflexivity;
    destruct (after_open_init c o s1 Hc) as [H1 H2]; set (rs := run (init_after_open repaired c) o s1) in * end.
  split; [intros _; exact H1|]. split.
  - intros N _. right. apply H2. exact N.
  - intros _. right. exact H1.
Qed.

(* ------------------------------------------------------------- cleanup *)
Lemma cleanup_fail_run : forall c o s (code : Z),
  run (writer_cleanup c false EXIT_FAILURE ;;; Ret code) o s =
  (code, mkst (nxt s) (EvUnlink FOut :: EvClose FOut :: tr s) (perr s)).
Proof. reflexivity. Qed.
Lemma cleanup_ok_run : forall c b o s (code : Z),
  run (writer_cleanup c b EXIT_SUCCESS ;;; Ret code) o s =
  (code, mkst (nxt s) (EvClose FOut :: tr s) (perr s)).
Proof. reflexivity. Qed.

Lemma fst_run_then_ret : forall (A B : Type) (m : prog A) (c : B) o s,
  fst (run (m ;;; Ret c) o s) = c.
Proof. intros. rewrite run_bind. destruct (run m o s). reflexivity. Qed.

Lemma bad_st0 : bad (tr st0) = false. Proof. reflexivity. Qed.
Lemma perr_st0 : perr st0 = false. Proof. reflexivity. Qed.

(* ============================================================ gensquashfs *)
Section Gensquashfs.
Variable g : gen_script.
Variable o : nat -> bool.

(* exit status 0: no call failed anywhere in the run *)
Lemma gen_exit0_clean :
  fst (run (gensquashfs repaired g) o st0) = 0 ->
  bad (tr (snd (run (gensquashfs repaired g) o st0))) = false.
Proof.
  unfold gensquashfs. rewrite run_bind.
  pose proof (strict_writer_init repaired (g_cfg g) o st0) as H1.
  destruct (run (writer_init repaired (g_cfg g)) o st0) as [r1 s1]. cbn [fst snd] in H1.
  destruct (Z.eqb r1 0) eqn:Z1; cbn [negb]; [|cbn [run fst]; intros H; discriminate].
  apply Z.eqb_eq in Z1. destruct (H1 Z1) as [B1 P1]. rewrite bad_st0 in B1. rewrite perr_st0 in P1.
  rewrite run_bind.
  pose proof (strict_pre_steps repaired (g_pre g) o s1) as H2.
  destruct (run (pre_steps repaired (g_pre g)) o s1) as [r2 s2]. cbn [fst snd] in H2.
  destruct (Z.eqb r2 0) eqn:Z2; cbn [negb]; [|rewrite fst_run_then_ret; intros H; discriminate].
  apply Z.eqb_eq in Z2. destruct (H2 Z2) as [B2 P2]. rewrite B1 in B2. rewrite P1 in P2.
  rewrite run_bind.
  pose proof (sound_pack_files (c_packdir (g_cfg g)) (g_files g) o s2) as H3.
  destruct (run (pack_files repaired (c_packdir (g_cfg g)) (g_files g)) o s2) as [[r3 aw] s3].
  cbn [fst snd] in H3 |- *.
  destruct (Z.eqb r3 0) eqn:Z3; cbn [negb]; [|rewrite fst_run_then_ret; intros H; discriminate].
  apply Z.eqb_eq in Z3. specialize (H3 Z3).
  rewrite run_bind.
  pose proof (writer_finish_ok (g_finish g) o s3) as H4.
  destruct (run (writer_finish repaired (g_finish g)) o s3) as [r4 s4]. cbn [fst snd] in H4.
  destruct (Z.eqb r4 0) eqn:Z4; cbn [negb]; [|rewrite fst_run_then_ret; intros H; discriminate].
  apply Z.eqb_eq in Z4. destruct (H4 Z4) as [P3 B4].
  rewrite cleanup_ok_run. cbn [fst snd tr]. intros _.
  unfold bad. cbn [existsb is_failed orb]. fold (bad (tr s4)).
  destruct (bad (tr s4)) eqn:E4; [|reflexivity].
  specialize (B4 eq_refl). destruct (H3 B4) as [X|X]; congruence.
Qed.

(* a non-zero exit status comes with a diagnostic *)
Lemma gen_nonzero_diag :
  fst (run (gensquashfs repaired g) o st0) <> 0 ->
  has_diag (tr (snd (run (gensquashfs repaired g) o st0))) = true.
Proof.
  unfold gensquashfs. rewrite run_bind.
  pose proof (prints_writer_init repaired (g_cfg g) o st0) as H1.
  destruct (run (writer_init repaired (g_cfg g)) o st0) as [r1 s1]. cbn [fst snd] in H1.
  destruct (Z.eqb r1 0) eqn:Z1; cbn [negb].
  2: { cbn [run fst snd]. intros _. apply H1. unfold okz. apply Z.eqb_neq. exact Z1. }
  rewrite run_bind.
  pose proof (prints_pre_steps (g_pre g) o s1) as H2.
  destruct (run (pre_steps repaired (g_pre g)) o s1) as [r2 s2]. cbn [fst snd] in H2.
  destruct (Z.eqb r2 0) eqn:Z2; cbn [negb].
  2: { intros _. apply diag_mono. apply H2. unfold okz. apply Z.eqb_neq. exact Z2. }
  rewrite run_bind.
  pose proof (prints_pack_files (c_packdir (g_cfg g)) (g_files g) o s2) as H3.
  destruct (run (pack_files repaired (c_packdir (g_cfg g)) (g_files g)) o s2) as [[r3 aw] s3].
  cbn [fst snd] in H3 |- *.
  destruct (Z.eqb r3 0) eqn:Z3; cbn [negb].
  2: { intros _. apply diag_mono. apply H3. unfold okp. cbn [fst]. apply Z.eqb_neq. exact Z3. }
  rewrite run_bind.
  pose proof (prints_writer_finish (g_finish g) o s3) as H4.
  destruct (run (writer_finish repaired (g_finish g)) o s3) as [r4 s4]. cbn [fst snd] in H4.
  destruct (Z.eqb r4 0) eqn:Z4; cbn [negb].
  2: { intros _. apply diag_mono. apply H4. unfold okz. apply Z.eqb_neq. exact Z4. }
  rewrite cleanup_ok_run. cbn [fst]. intros H. exfalso. apply H. reflexivity.
Qed.

(* a non-zero exit status after the output was created: the last event of the
   whole run is the unlink of the output (not of some other path) *)
Lemma gen_nonzero_unlink :
  fst (run (gensquashfs repaired g) o st0) <> 0 ->
  created (tr (snd (run (gensquashfs repaired g) o st0))) = true ->
  exists rest, tr (snd (run (gensquashfs repaired g) o st0)) = EvUnlink FOut :: rest.
Proof.
  unfold gensquashfs. rewrite run_bind.
  pose proof (writer_init_post (g_cfg g) o st0) as H1. cbv zeta in H1.
  destruct (run (writer_init repaired (g_cfg g)) o st0) as [r1 s1]. cbn [fst snd] in H1.
  destruct H1 as [_ [H1 _]].
  destruct (Z.eqb r1 0) eqn:Z1; cbn [negb].
  2: { cbn [run fst snd]. intros _ Hc. apply Z.eqb_neq in Z1. destruct (H1 Z1 Hc) as [X|X]; [discriminate|exact X]. }
  rewrite run_bind.
  destruct (run (pre_steps repaired (g_pre g)) o s1) as [r2 s2].
  destruct (Z.eqb r2 0) eqn:Z2; cbn [negb].
  2: { rewrite cleanup_fail_run. cbn [snd tr]. intros _ _. eexists. reflexivity. }
  rewrite run_bind.
  pose proof (pack_files_home (c_packdir (g_cfg g)) (g_files g) o s2) as Hh.
  destruct (run (pack_files repaired (c_packdir (g_cfg g)) (g_files g)) o s2) as [[r3 aw] s3].
  cbn [fst snd] in Hh |- *. subst aw.
  destruct (Z.eqb r3 0) eqn:Z3; cbn [negb].
  2: { rewrite cleanup_fail_run. cbn [snd tr]. intros _ _. eexists. reflexivity. }
  rewrite run_bind.
  destruct (run (writer_finish repaired (g_finish g)) o s3) as [r4 s4].
  destruct (Z.eqb r4 0) eqn:Z4; cbn [negb].
  2: { rewrite cleanup_fail_run. cbn [snd tr]. intros _ _. eexists. reflexivity. }
  rewrite cleanup_ok_run. cbn [fst]. intros H. exfalso. apply H. reflexivity.
Qed.

(* nothing is ever unlinked unless this run created (or truncated) it *)
Lemma gen_unlink_only_created :
  has_unlink (tr (snd (run (gensquashfs repaired g) o st0))) = true ->
  created (tr (snd (run (gensquashfs repaired g) o st0))) = true.
Proof.
  unfold gensquashfs. rewrite run_bind.
  pose proof (writer_init_post (g_cfg g) o st0) as H1. cbv zeta in H1.
  destruct (run (writer_init repaired (g_cfg g)) o st0) as [r1 s1]. cbn [fst snd] in H1.
  destruct H1 as [H1a [_ H1c]].
  destruct (Z.eqb r1 0) eqn:Z1; cbn [negb].
  2: { cbn [run fst snd]. intros Hu. destruct (H1c Hu) as [X|X]; [discriminate|exact X]. }
  apply Z.eqb_eq in Z1. specialize (H1a Z1). intros _.
  match goal with |- created (tr (snd (run ?p o s1))) = true => apply (created_mono _ p o s1 H1a) end.
Qed.
End Gensquashfs.

(* the property, packer 1 *)
Theorem gensquashfs_failstop : forall g o,
  let rs := run (gensquashfs repaired g) o st0 in
  bad (tr (snd rs)) = true ->
  fst rs <> 0 /\ has_diag (tr (snd rs)) = true /\
  (created (tr (snd rs)) = true -> exists rest, tr (snd rs) = EvUnlink FOut :: rest).
Proof.
  intros g o rs Hb. subst rs.
  assert (N : fst (run (gensquashfs repaired g) o st0) <> 0).
  { intros E. rewrite (gen_exit0_clean g o E) in Hb. discriminate. }
  split; [exact N|]. split; [apply gen_nonzero_diag; exact N|]. apply gen_nonzero_unlink. exact N.
Qed.

Theorem gensquashfs_exit0_faultfree : forall g o,
  fst (run (gensquashfs repaired g) o st0) = 0 ->
  run (gensquashfs repaired g) o st0 = run (gensquashfs repaired g) nofault st0.
Proof. intros g o H. apply run_nofault_eq. apply gen_exit0_clean. exact H. Qed.

(* ================================================================ tar2sqfs *)
Lemma strict_tar_next : forall e, strict (tar_next repaired e).
Proof.
  intros e. unfold tar_next. cbn [fix_tar_next_diag repaired].
  split3 (gstrict_bind okz okz); [ go | | nz_tail ].
  split3 (gstrict_bind okz okz); [ go | | nz_tail ].
  split3 (gstrict_bind okz okz); [ go | go | nz_tail ].
Qed.

Lemma prints_tar_next : forall e, prints (tar_next repaired e).
Proof.
  intros e. unfold tar_next. cbn [fix_tar_next_diag repaired]. pq. pq. pq. auto with c13.
Qed.

Lemma sound_tar_write_file : forall f, sound (tar_write_file repaired f).
Proof. intros f. unfold tar_write_file. sgo. Qed.

Lemma sound_process_tarball : forall l, sound (process_tarball repaired l).
Proof.
  induction l as [|x t IH]; cbn [process_tarball]; [go|].
  split3 (gsound_bind okz okz); [ by_strict; apply strict_tar_next | | nz_tail ].
  destruct (te_body x).
  - exact IH.
  - split3 (gsound_bind okz okz); [ by_strict; auto with c13 | exact IH | nz_tail ].
  - split3 (gsound_bind okz okz); [ by_strict; auto with c13 | | nz_tail ].
    split3 (gsound_bind okz okz); [ apply sound_tar_write_file | exact IH | nz_tail ].
Qed.

Lemma prints_process_tarball : forall l, prints (process_tarball repaired l).
Proof.
  induction l as [|x t IH]; cbn [process_tarball]; [auto with c13|].
  pp; [ apply prints_tar_next | ].
  destruct (te_body x).
  - exact IH.
  - pq. exact IH.
  - pq. pq. exact IH.
Qed.

(* what follows process_tarball inside the `r <- ...` block of tar2sqfs *)
Definition tar_tail (v : variant) (t : tar_script) : prog Z :=
  r <- reads FStdin (t_end_skip t) ;;
  if negb (Z.eqb r 0) then ((if fix_tar_next_diag v then diag 30 else Ret tt) ;;; Ret (-1)) else
  r <- reads FStdin (t_end_reads t) ;;
  if negb (Z.eqb r 0) then (diag 31 ;;; Ret (-1)) else
  r <- stage S_POST (-1) ;;
  if negb (Z.eqb r 0) then (diag 34 ;;; Ret (-1)) else
  writer_finish v (t_finish t).

Definition tar_work (v : variant) (t : tar_script) : prog Z :=
  r <- process_tarball v (t_entries t) ;; on_ok r (tar_tail v t).

Lemma tar2sqfs_unfold : forall v t,
  tar2sqfs v t =
  (r <- stage S_STDIN E_ALLOC ;;
   if negb (Z.eqb r 0) then (diag 40 ;;; Ret EXIT_FAILURE) else
   r <- stage S_TAR_ALLOC E_ALLOC ;;
   if negb (Z.eqb r 0) then (diag 41 ;;; Ret EXIT_FAILURE) else
   r <- reads FStdin (t_probe_reads t) ;;
   if negb (Z.eqb r 0) && fix_tar_probe v then (diag 41 ;;; Ret EXIT_FAILURE) else
   r <- writer_init v (t_cfg t) ;;
   if negb (Z.eqb r 0) then Ret EXIT_FAILURE else
   r <- tar_work v t ;;
   if negb (Z.eqb r 0) then (writer_cleanup (t_cfg t) false EXIT_FAILURE ;;; Ret EXIT_FAILURE) else
   writer_cleanup (t_cfg t) false EXIT_SUCCESS ;;; Ret EXIT_SUCCESS).
Proof. reflexivity. Qed.

Lemma tar_tail_ok : forall t o s,
  fst (run (tar_tail repaired t) o s) = 0 ->
  perr s = false /\ (bad (tr (snd (run (tar_tail repaired t) o s))) = true -> bad (tr s) = true).
Proof.
  intros t o s. unfold tar_tail. cbn [fix_tar_next_diag repaired].
  rewrite run_bind. pose proof (strict_reads FStdin (t_end_skip t) o s) as H1.
  destruct (run (reads FStdin (t_end_skip t)) o s) as [r1 s1]. cbn [fst snd] in H1.
  destruct (Z.eqb r1 0) eqn:Z1; cbn [negb]; [|rewrite fst_run_then_ret; intros H; discriminate].
  apply Z.eqb_eq in Z1. destruct (H1 Z1) as [B1 P1].
  rewrite run_bind. pose proof (strict_reads FStdin (t_end_reads t) o s1) as H2.
  destruct (run (reads FStdin (t_end_reads t)) o s1) as [r2 s2]. cbn [fst snd] in H2.
  destruct (Z.eqb r2 0) eqn:Z2; cbn [negb]; [|rewrite fst_run_then_ret; intros H; discriminate].
  apply Z.eqb_eq in Z2. destruct (H2 Z2) as [B2 P2].
  rewrite run_bind. pose proof (strict_stage S_POST (-1) m1_nz o s2) as H3.
  destruct (run (stage S_POST (-1)) o s2) as [r3 s3]. cbn [fst snd] in H3.
  destruct (Z.eqb r3 0) eqn:Z3; cbn [negb]; [|rewrite fst_run_then_ret; intros H; discriminate].
  apply Z.eqb_eq in Z3. destruct (H3 Z3) as [B3 P3].
  intros H. destruct (writer_finish_ok (t_finish t) o s3 H) as [P4 B4].
  split; [congruence|]. intros Hb. specialize (B4 Hb). congruence.
Qed.

Lemma prints_tar_tail : forall t, prints (tar_tail repaired t).
Proof.
  intros t. unfold tar_tail. cbn [fix_tar_next_diag repaired]. pq. pq. pq. apply prints_writer_finish.
Qed.

Lemma prints_tar_work : forall t, prints (tar_work repaired t).
Proof.
  intros t. unfold tar_work. pp; [ apply prints_process_tarball | apply prints_tar_tail ].
Qed.

Section Tar2sqfs.
Variable t : tar_script.
Variable o : nat -> bool.

Lemma tar_exit0_clean :
  fst (run (tar2sqfs repaired t) o st0) = 0 ->
  bad (tr (snd (run (tar2sqfs repaired t) o st0))) = false.
Proof.
  rewrite tar2sqfs_unfold. cbn [fix_tar_probe repaired]. rewrite run_bind.
  pose proof (strict_stage S_STDIN E_ALLOC E_ALLOC_nz o st0) as H1.
  destruct (run (stage S_STDIN E_ALLOC) o st0) as [r1 s1]. cbn [fst snd] in H1.
  destruct (Z.eqb r1 0) eqn:Z1; cbn [negb]; [|rewrite fst_run_then_ret; intros H; discriminate].
  apply Z.eqb_eq in Z1. destruct (H1 Z1) as [B1 P1]. rewrite bad_st0 in B1. rewrite perr_st0 in P1.
  rewrite run_bind.
  pose proof (strict_stage S_TAR_ALLOC E_ALLOC E_ALLOC_nz o s1) as H2.
  destruct (run (stage S_TAR_ALLOC E_ALLOC) o s1) as [r2 s2]. cbn [fst snd] in H2.
  destruct (Z.eqb r2 0) eqn:Z2; cbn [negb]; [|rewrite fst_run_then_ret; intros H; discriminate].
  apply Z.eqb_eq in Z2. destruct (H2 Z2) as [B2 P2]. rewrite B1 in B2. rewrite P1 in P2.
  rewrite run_bind.
  pose proof (strict_reads FStdin (t_probe_reads t) o s2) as H3.
  destruct (run (reads FStdin (t_probe_reads t)) o s2) as [r3 s3]. cbn [fst snd] in H3.
  rewrite andb_true_r.
  destruct (Z.eqb r3 0) eqn:Z3; cbn [negb]; [|rewrite fst_run_then_ret; intros H; discriminate].
  apply Z.eqb_eq in Z3. destruct (H3 Z3) as [B3 P3]. rewrite B2 in B3. rewrite P2 in P3.
  rewrite run_bind.
  pose proof (strict_writer_init repaired (t_cfg t) o s3) as H4.
  destruct (run (writer_init repaired (t_cfg t)) o s3) as [r4 s4]. cbn [fst snd] in H4.
  destruct (Z.eqb r4 0) eqn:Z4; cbn [negb]; [|cbn [run fst]; intros H; discriminate].
  apply Z.eqb_eq in Z4. destruct (H4 Z4) as [B4 P4]. rewrite B3 in B4. rewrite P3 in P4.
  rewrite run_bind. unfold tar_work at 1. unfold tar_work at 1. rewrite run_bind.
  pose proof (sound_process_tarball (t_entries t) o s4) as H5.
  destruct (run (process_tarball repaired (t_entries t)) o s4) as [r5 s5]. cbn [fst snd] in H5.
  unfold on_ok. destruct (Z.eqb r5 0) eqn:Z5.
  2: { cbn [run]. rewrite Z5. cbn [negb]. rewrite fst_run_then_ret. intros H; discriminate. }
  apply Z.eqb_eq in Z5. specialize (H5 Z5).
  pose proof (tar_tail_ok t o s5) as H6.
  destruct (run (tar_tail repaired t) o s5) as [r6 s6]. cbn [fst snd] in H6.
  destruct (Z.eqb r6 0) eqn:Z6; cbn [negb]; [|rewrite fst_run_then_ret; intros H; discriminate].
  apply Z.eqb_eq in Z6. destruct (H6 Z6) as [P5 B6].
  rewrite cleanup_ok_run. cbn [fst snd tr]. intros _.
  unfold bad. cbn [existsb is_failed orb]. fold (bad (tr s6)).
  destruct (bad (tr s6)) eqn:E6; [|reflexivity].
  specialize (B6 eq_refl). destruct (H5 B6) as [X|X]; congruence.
Qed.

Lemma tar_nonzero_diag :
  fst (run (tar2sqfs repaired t) o st0) <> 0 ->
  has_diag (tr (snd (run (tar2sqfs repaired t) o st0))) = true.
Proof.
  rewrite tar2sqfs_unfold. cbn [fix_tar_probe repaired]. rewrite run_bind.
  destruct (run (stage S_STDIN E_ALLOC) o st0) as [r1 s1].
  destruct (Z.eqb r1 0) eqn:Z1; cbn [negb]; [|intros _; apply run_diag_has].
  rewrite run_bind.
  destruct (run (stage S_TAR_ALLOC E_ALLOC) o s1) as [r2 s2].
  destruct (Z.eqb r2 0) eqn:Z2; cbn [negb]; [|intros _; apply run_diag_has].
  rewrite run_bind.
  destruct (run (reads FStdin (t_probe_reads t)) o s2) as [r3 s3].
  rewrite andb_true_r.
  destruct (Z.eqb r3 0) eqn:Z3; cbn [negb]; [|intros _; apply run_diag_has].
  rewrite run_bind.
  pose proof (prints_writer_init repaired (t_cfg t) o s3) as H4.
  destruct (run (writer_init repaired (t_cfg t)) o s3) as [r4 s4]. cbn [fst snd] in H4.
  destruct (Z.eqb r4 0) eqn:Z4; cbn [negb].
  2: { cbn [run fst snd]. intros _. apply H4. unfold okz. apply Z.eqb_neq. exact Z4. }
  rewrite run_bind.
  pose proof (prints_tar_work t o s4) as H5.
  destruct (run (tar_work repaired t) o s4) as [r5 s5]. cbn [fst snd] in H5.
  destruct (Z.eqb r5 0) eqn:Z5; cbn [negb].
  2: { intros _. apply diag_mono. apply H5. unfold okz. apply Z.eqb_neq. exact Z5. }
  rewrite cleanup_ok_run. cbn [fst]. intros H. exfalso. apply H. reflexivity.
Qed.

(* reads and stages before the init do not create the output *)
Lemma created_reads : forall f n o' s, f <> FOut -> created (tr (snd (run (reads f n) o' s))) = created (tr s).
Proof.
  intros f n o' s Hf. revert s. induction n; intros s; cbn [reads]; [reflexivity|].
  unfold file_read_at, sys_st. cbn [bind run]. destruct (o' (nxt s)); cbn [negb].
  - change (Z.eqb E_IO 0) with false. unfold on_ok. change (Z.eqb E_IO 0) with false.
    cbn [run snd tr]. apply created_cons_false. reflexivity.
  - unfold on_ok. cbn [Z.eqb]. rewrite IHn. cbn [tr]. apply created_cons_false. reflexivity.
Qed.

Lemma created_stage : forall n e o' s, created (tr (snd (run (stage n e) o' s))) = created (tr s).
Proof.
  intros n e o' s. unfold stage, sys_st. cbn [run]. destruct (o' (nxt s)); cbn [negb run snd tr];
  apply created_cons_false; reflexivity.
Qed.

Lemma run_diag_ret : forall d (c : Z) o' s,
  run (diag d ;;; Ret c) o' s = (c, mkst (nxt s) (EvDiag d :: tr s) (perr s)).
Proof. reflexivity. Qed.

Lemma tar_nonzero_unlink :
  fst (run (tar2sqfs repaired t) o st0) <> 0 ->
  created (tr (snd (run (tar2sqfs repaired t) o st0))) = true ->
  exists rest, tr (snd (run (tar2sqfs repaired t) o st0)) = EvUnlink FOut :: rest.
Proof.
  rewrite tar2sqfs_unfold. cbn [fix_tar_probe repaired]. rewrite run_bind.
  pose proof (created_stage S_STDIN E_ALLOC o st0) as C1.
  destruct (run (stage S_STDIN E_ALLOC) o st0) as [r1 s1]. cbn [snd] in C1.
  destruct (Z.eqb r1 0) eqn:Z1; cbn [negb].
  2: { rewrite run_diag_ret. cbn [fst snd tr]. intros _ H.
       rewrite created_cons_false in H by reflexivity. rewrite C1 in H. discriminate. }
  rewrite run_bind.
  pose proof (created_stage S_TAR_ALLOC E_ALLOC o s1) as C2.
  destruct (run (stage S_TAR_ALLOC E_ALLOC) o s1) as [r2 s2]. cbn [snd] in C2.
  destruct (Z.eqb r2 0) eqn:Z2; cbn [negb].
  2: { rewrite run_diag_ret. cbn [fst snd tr]. intros _ H.
       rewrite created_cons_false in H by reflexivity. rewrite C2, C1 in H. discriminate. }
  rewrite run_bind.
  pose proof (created_reads FStdin (t_probe_reads t) o s2) as C3.
  destruct (run (reads FStdin (t_probe_reads t)) o s2) as [r3 s3]. cbn [snd] in C3.
  assert (C3' : created (tr s3) = false).
  { rewrite C3 by discriminate. rewrite C2, C1. reflexivity. }
  rewrite andb_true_r.
  destruct (Z.eqb r3 0) eqn:Z3; cbn [negb].
  2: { rewrite run_diag_ret. cbn [fst snd tr]. intros _ H.
       rewrite created_cons_false in H by reflexivity. congruence. }
  rewrite run_bind.
  pose proof (writer_init_post (t_cfg t) o s3) as H4. cbv zeta in H4.
  destruct (run (writer_init repaired (t_cfg t)) o s3) as [r4 s4]. cbn [fst snd] in H4.
  destruct H4 as [_ [H4 _]].
  destruct (Z.eqb r4 0) eqn:Z4; cbn [negb].
  2: { cbn [run fst snd]. intros _ Hc. apply Z.eqb_neq in Z4. destruct (H4 Z4 Hc) as [X|X]; [congruence|exact X]. }
  rewrite run_bind.
  destruct (run (tar_work repaired t) o s4) as [r5 s5].
  destruct (Z.eqb r5 0) eqn:Z5; cbn [negb].
  2: { rewrite cleanup_fail_run. cbn [snd tr]. intros _ _. eexists. reflexivity. }
  rewrite cleanup_ok_run. cbn [fst]. intros H. exfalso. apply H. reflexivity.
Qed.
End Tar2sqfs.

Theorem tar2sqfs_failstop : forall t o,
  let rs := run (tar2sqfs repaired t) o st0 in
  bad (tr (snd rs)) = true ->
  fst rs <> 0 /\ has_diag (tr (snd rs)) = true /\
  (created (tr (snd rs)) = true -> exists rest, tr (snd rs) = EvUnlink FOut :: rest).
Proof.
  intros t o rs Hb. subst rs.
  assert (N : fst (run (tar2sqfs repaired t) o st0) <> 0).
  { intros E. rewrite (tar_exit0_clean t o E) in Hb. discriminate. }
  split; [exact N|]. split; [apply tar_nonzero_diag; exact N|]. apply tar_nonzero_unlink. exact N.
Qed.

Theorem tar2sqfs_exit0_faultfree : forall t o,
  fst (run (tar2sqfs repaired t) o st0) = 0 ->
  run (tar2sqfs repaired t) o st0 = run (tar2sqfs repaired t) nofault st0.
Proof. intros t o H. apply run_nofault_eq. apply tar_exit0_clean. exact H. Qed.

(* ================================================= sqfs2tar / rdsquashfs *)
Lemma strict_reader_steps : forall l, strict (reader_steps repaired l).
Proof.
  induction l as [|x t IH]; cbn [reader_steps fix_s2t_term_diag repaired]; [go|].
  destruct x; (split3 (gstrict_bind okz okz); [ go | exact IH | nz_tail ]).
Qed.

Lemma prints_reader_steps : forall l, prints (reader_steps repaired l).
Proof.
  induction l as [|x t IH]; cbn [reader_steps fix_s2t_term_diag repaired]; [auto with c13|].
  destruct x; pq; exact IH.
Qed.

Theorem reader_failstop : forall l o,
  let rs := run (reader_tool repaired l) o st0 in
  bad (tr (snd rs)) = true -> fst rs <> 0 /\ has_diag (tr (snd rs)) = true.
Proof.
  intros l o rs Hb. subst rs. unfold reader_tool in *. rewrite run_bind in *.
  pose proof (strict_reader_steps l o st0) as H1. pose proof (prints_reader_steps l o st0) as H2.
  destruct (run (reader_steps repaired l) o st0) as [r s]. cbn [fst snd run] in *.
  destruct (Z.eqb r 0) eqn:Z.
  - apply Z.eqb_eq in Z. destruct (H1 Z) as [B _]. rewrite B in Hb. discriminate.
  - split; [discriminate|]. apply H2. unfold okz. apply Z.eqb_neq. exact Z.
Qed.

Theorem reader_exit0_faultfree : forall l o,
  fst (run (reader_tool repaired l) o st0) = 0 ->
  run (reader_tool repaired l) o st0 = run (reader_tool repaired l) nofault st0.
Proof.
  intros l o H. apply run_nofault_eq.
  destruct (bad (tr (snd (run (reader_tool repaired l) o st0)))) eqn:E; [|reflexivity].
  destruct (reader_failstop l o E) as [N _]. exfalso. exact (N H).
Qed.
