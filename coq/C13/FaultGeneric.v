(* C13 -- generic facts about [run] (no reference to the tools) *)
From Coq Require Import List ZArith Bool Arith Lia.
From SqfsV Require Import C13.FaultMonad.
Import ListNotations.
Open Scope prog_scope.

Lemma run_bind : forall (A B : Type) (m : prog A) (f : A -> prog B) o s,
  run (bind m f) o s = let (a, s1) := run m o s in run (f a) o s1.
Proof.
  intros A B m f o. induction m as [a|c k IH|e k IH|k IH|k IH]; intros s; cbn [bind run].
  - reflexivity.
  - apply IH.
  - apply IH.
  - apply IH.
  - apply IH.
Qed.

(* the trace only grows, the pool status is sticky *)
Lemma run_ext : forall (A : Type) (p : prog A) o s,
  exists l, tr (snd (run p o s)) = l ++ tr s.
Proof.
  intros A p o. induction p as [a|c k IH|e k IH|k IH|k IH]; intros s; cbn [run].
  - exists []. reflexivity.
  - destruct (IH (negb (o (nxt s))) (mkst (S (nxt s)) (EvCall c (negb (o (nxt s))) :: tr s) (perr s))) as [l H].
    exists (l ++ [EvCall c (negb (o (nxt s)))]). rewrite H. cbn [tr]. rewrite <- app_assoc. reflexivity.
  - destruct (IH (mkst (nxt s) (e :: tr s) (perr s))) as [l H].
    exists (l ++ [e]). rewrite H. cbn [tr]. rewrite <- app_assoc. reflexivity.
  - apply IH.
  - destruct (IH (mkst (nxt s) (tr s) true)) as [l H]. exists l. rewrite H. reflexivity.
Qed.

Lemma perr_mono : forall (A : Type) (p : prog A) o s,
  perr s = true -> perr (snd (run p o s)) = true.
Proof.
  intros A p o. induction p as [a|c k IH|e k IH|k IH|k IH]; intros s H; cbn [run].
  - exact H.
  - apply IH. exact H.
  - apply IH. exact H.
  - apply IH. exact H.
  - apply IH. reflexivity.
Qed.

Lemma existsb_mono_run : forall (f : ev -> bool) (A : Type) (p : prog A) o s,
  existsb f (tr s) = true -> existsb f (tr (snd (run p o s))) = true.
Proof.
  intros f A p o s H. destruct (run_ext A p o s) as [l E]. rewrite E.
  rewrite existsb_app, H. apply orb_true_r.
Qed.

Lemma bad_mono : forall (A : Type) (p : prog A) o s,
  bad (tr s) = true -> bad (tr (snd (run p o s))) = true.
Proof. intros. apply existsb_mono_run. assumption. Qed.
Lemma diag_mono : forall (A : Type) (p : prog A) o s,
  has_diag (tr s) = true -> has_diag (tr (snd (run p o s))) = true.
Proof. intros. apply existsb_mono_run. assumption. Qed.
Lemma created_mono : forall (A : Type) (p : prog A) o s,
  created (tr s) = true -> created (tr (snd (run p o s))) = true.
Proof. intros. apply existsb_mono_run. assumption. Qed.

Lemma bad_false_before : forall (A : Type) (p : prog A) o s,
  bad (tr (snd (run p o s))) = false -> bad (tr s) = false.
Proof.
  intros A p o s H. destruct (bad (tr s)) eqn:E; [|reflexivity].
  rewrite (bad_mono A p o s E) in H. discriminate.
Qed.

(* a run in which no call failed is the fault-free run *)
Lemma run_nofault_eq : forall (A : Type) (p : prog A) o s,
  bad (tr (snd (run p o s))) = false -> run p o s = run p nofault s.
Proof.
  intros A p o. induction p as [a|c k IH|e k IH|k IH|k IH]; intros s H; cbn [run] in *.
  - reflexivity.
  - destruct (o (nxt s)) eqn:E; cbn [negb] in *.
    + apply bad_false_before in H. cbn in H. discriminate.
    + unfold nofault at 1. cbn [negb]. apply IH. exact H.
  - apply IH. exact H.
  - apply IH. exact H.
  - apply IH. exact H.
Qed.

(* ------------------------------------------------------------------------
   status disciplines.  [P a] reads "the result a reports success". *)
Section Disciplines.
Context {A : Type}.

(* sound: a success result hides no failure, except one parked in the pool status *)
Definition gsound (P : A -> Prop) (p : prog A) : Prop :=
  forall o s, P (fst (run p o s)) -> bad (tr (snd (run p o s))) = true ->
              bad (tr s) = true \/ perr (snd (run p o s)) = true.

(* strict: a success result means nothing failed and the pool status is untouched *)
Definition gstrict (P : A -> Prop) (p : prog A) : Prop :=
  forall o s, P (fst (run p o s)) ->
              bad (tr (snd (run p o s))) = bad (tr s) /\ perr (snd (run p o s)) = perr s.

(* an error result comes with a diagnostic *)
Definition gdiag (P : A -> Prop) (p : prog A) : Prop :=
  forall o s, ~ P (fst (run p o s)) -> has_diag (tr (snd (run p o s))) = true.

(* never reports success *)
Definition gnever (P : A -> Prop) (p : prog A) : Prop :=
  forall o s, ~ P (fst (run p o s)).

Lemma gstrict_gsound : forall P p, gstrict P p -> gsound P p.
Proof.
  intros P p H o s HP Hb. destruct (H o s HP) as [E _]. rewrite E in Hb. left. exact Hb.
Qed.

Lemma gnever_gsound : forall P p, gnever P p -> gsound P p.
Proof. intros P p H o s HP. exfalso. exact (H o s HP). Qed.
Lemma gnever_gstrict : forall P p, gnever P p -> gstrict P p.
Proof. intros P p H o s HP. exfalso. exact (H o s HP). Qed.

Lemma gsound_ret : forall P a, gsound P (Ret a).
Proof. intros P a o s _ H. left. exact H. Qed.
Lemma gstrict_ret : forall P a, gstrict P (Ret a).
Proof. intros P a o s _. split; reflexivity. Qed.
Lemma gnever_ret : forall (P : A -> Prop) a, ~ P a -> gnever P (Ret a).
Proof. intros P a H o s. exact H. Qed.
Lemma gdiag_ret_ok : forall (P : A -> Prop) a, P a -> gdiag P (Ret a).
Proof. intros P a H o s N. exfalso. exact (N H). Qed.
End Disciplines.

Section Bind.
Context {A B : Type}.
Variables (P : A -> Prop) (Q : B -> Prop).

Lemma gsound_bind : forall (m : prog A) (f : A -> prog B),
  gsound P m ->
  (forall a, P a -> gsound Q (f a)) ->
  (forall a, ~ P a -> gnever Q (f a)) ->
  (forall a, P a \/ ~ P a) ->
  gsound Q (bind m f).
Proof.
  intros m f Hm Hok Hnz Hdec o s. rewrite run_bind.
  destruct (run m o s) as [a s1] eqn:E. intros HQ Hb.
  destruct (Hdec a) as [Pa|NPa].
  - destruct (Hok a Pa o s1 HQ Hb) as [Hb1|Hp]; [|right; exact Hp].
    specialize (Hm o s). rewrite E in Hm. cbn [fst snd] in Hm.
    destruct (Hm Pa Hb1) as [Hb0|Hp1]; [left; exact Hb0|].
    right. apply perr_mono. exact Hp1.
  - exfalso. exact (Hnz a NPa o s1 HQ).
Qed.

Lemma gstrict_bind : forall (m : prog A) (f : A -> prog B),
  gstrict P m ->
  (forall a, P a -> gstrict Q (f a)) ->
  (forall a, ~ P a -> gnever Q (f a)) ->
  (forall a, P a \/ ~ P a) ->
  gstrict Q (bind m f).
Proof.
  intros m f Hm Hok Hnz Hdec o s. rewrite run_bind.
  destruct (run m o s) as [a s1] eqn:E. intros HQ.
  destruct (Hdec a) as [Pa|NPa].
  - destruct (Hok a Pa o s1 HQ) as [E1 E2].
    specialize (Hm o s). rewrite E in Hm. cbn [fst snd] in Hm.
    destruct (Hm Pa) as [E3 E4]. split; congruence.
  - exfalso. exact (Hnz a NPa o s1 HQ).
Qed.

Lemma gnever_bind : forall (m : prog A) (f : A -> prog B),
  (forall a, gnever Q (f a)) -> gnever Q (bind m f).
Proof.
  intros m f H o s. rewrite run_bind. destruct (run m o s) as [a s1]. apply H.
Qed.

(* diagnostics: the callee printed, or the continuation prints *)
Lemma gdiag_bind : forall (m : prog A) (f : A -> prog B),
  gdiag P m ->
  (forall a, P a -> gdiag Q (f a)) ->
  (forall a, ~ P a -> gnever Q (f a)) ->
  (forall a, P a \/ ~ P a) ->
  gdiag Q (bind m f).
Proof.
  intros m f Hm Hok Hnz Hdec o s. rewrite run_bind.
  destruct (run m o s) as [a s1] eqn:E. intros HQ.
  destruct (Hdec a) as [Pa|NPa].
  - exact (Hok a Pa o s1 HQ).
  - apply diag_mono. specialize (Hm o s). rewrite E in Hm. exact (Hm NPa).
Qed.

(* the callee does not print: every continuation after an error must *)
Lemma gdiag_bind_quiet : forall (m : prog A) (f : A -> prog B),
  (forall a, P a -> gdiag Q (f a)) ->
  (forall a, ~ P a -> forall o s, has_diag (tr (snd (run (f a) o s))) = true) ->
  (forall a, P a \/ ~ P a) ->
  gdiag Q (bind m f).
Proof.
  intros m f Hok Hnz Hdec o s. rewrite run_bind.
  destruct (run m o s) as [a s1] eqn:E. intros HQ.
  destruct (Hdec a) as [Pa|NPa].
  - exact (Hok a Pa o s1 HQ).
  - apply Hnz. exact NPa.
Qed.
End Bind.

Definition okz (r : Z) : Prop := r = 0%Z.
Definition oku (_ : unit) : Prop := True.
Lemma okz_dec : forall a, okz a \/ ~ okz a.
Proof. intros a. unfold okz. destruct (Z.eq_dec a 0); [left|right]; assumption. Qed.
Lemma oku_dec : forall a, oku a \/ ~ oku a.
Proof. intros a. left. exact I. Qed.

Notation sound := (gsound okz).
Notation strict := (gstrict okz).
Notation prints := (gdiag okz).
Notation never0 := (gnever okz).

Lemma strict_sys_st : forall c e, e <> 0%Z -> strict (sys_st c e).
Proof.
  intros c e He o s. unfold sys_st. cbn [run fst snd].
  destruct (o (nxt s)); cbn [negb fst snd tr perr].
  - intros H. exfalso. exact (He H).
  - intros _. split; reflexivity.
Qed.

Lemma strict_pool_status : forall e, strict (pool_status e).
Proof. intros e o s _. unfold pool_status. cbn [run fst snd]. split; reflexivity. Qed.

(* unit-valued emitters change neither [bad] nor the pool status *)
Lemma strict_emit : forall e, is_failed e = false -> gstrict oku (emit e).
Proof.
  intros e He o s _. unfold emit. cbn [run snd tr perr]. split; [|reflexivity].
  unfold bad. cbn [existsb]. rewrite He. reflexivity.
Qed.
Lemma strict_diag : forall n, gstrict oku (diag n).
Proof. intros n. apply strict_emit. reflexivity. Qed.
Lemma strict_diag_if : forall r n, gstrict oku (diag_if r n).
Proof. intros r n. unfold diag_if. destruct (Z.eqb r 0). apply gstrict_ret. apply strict_diag. Qed.

Lemma run_diag_has : forall (A : Type) n (k : prog A) o s,
  has_diag (tr (snd (run (diag n ;;; k) o s))) = true.
Proof.
  intros. unfold diag. cbn [bind run]. apply diag_mono. reflexivity.
Qed.
