(* C13 -- status propagation, layer by layer, for the repaired code *)
From Coq Require Import List ZArith Bool Arith Lia.
From SqfsV Require Import Gen.Constants C13.FaultMonad C13.FaultGeneric C13.FaultModel.
Import ListNotations.
Open Scope prog_scope.
Local Open Scope Z_scope.

(* the error codes the plumbing relies on are non-zero (re-checked against the
   headers through Gen/Constants.v on every run) *)
Lemma E_IO_nz : E_IO <> 0. Proof. unfold E_IO, c_SQFS_ERROR_IO. discriminate. Qed.
Lemma E_ALLOC_nz : E_ALLOC <> 0. Proof. unfold E_ALLOC, c_SQFS_ERROR_ALLOC. discriminate. Qed.
Lemma E_COMP_nz : E_COMP <> 0. Proof. unfold E_COMP, c_SQFS_ERROR_COMPRESSOR. discriminate. Qed.
Lemma E_INTERNAL_nz : E_INTERNAL <> 0. Proof. unfold E_INTERNAL, c_SQFS_ERROR_INTERNAL. discriminate. Qed.
Lemma m1_nz : -1 <> 0. Proof. discriminate. Qed.
Lemma one_nz : EXIT_FAILURE <> 0. Proof. discriminate. Qed.
#[export] Hint Resolve E_IO_nz E_ALLOC_nz E_COMP_nz E_INTERNAL_nz m1_nz one_nz : c13.
#[export] Hint Resolve strict_pool_status : c13.

(* ---- tactics ---- *)
Ltac zok a H := unfold okz in H; subst a; cbn [on_ok diag_if Z.eqb negb andb fst snd].
Ltac znz a H :=
  unfold okz in H; apply Z.eqb_neq in H; unfold on_ok, diag_if; rewrite ?H; cbn [negb andb fst snd].

Ltac leaf :=
  first
    [ assumption
    | apply gsound_ret | apply gstrict_ret
    | apply gnever_ret; unfold okz;
      first [ assumption | discriminate
            | (match goal with H : Z.eqb ?a 0 = false |- _ => apply Z.eqb_neq; exact H end)
            | solve [ auto with c13 ] ]
    | apply strict_sys_st; auto with c13
    | apply strict_pool_status
    | apply strict_diag | apply strict_diag_if | apply strict_emit; reflexivity
    | solve [ auto with c13 ] ].

Ltac in_ok := let a := fresh "a" in let H := fresh "H" in intros a H; zok a H.
Ltac in_nz := let a := fresh "a" in let H := fresh "H" in intros a H; znz a H.
Ltac in_u := let a := fresh "a" in let H := fresh "H" in intros a H; cbv beta.
Ltac in_nu := let a := fresh "a" in let H := fresh "H" in intros a H; exfalso; apply H; exact I.
Ltac sbind :=
  lazymatch goal with
  | |- gsound okz (@bind Z _ _ _) =>
      apply (gsound_bind okz okz); [ | in_ok | in_nz | apply okz_dec ]
  | |- gstrict okz (@bind Z _ _ _) =>
      apply (gstrict_bind okz okz); [ | in_ok | in_nz | apply okz_dec ]
  | |- gsound okz (@bind unit _ _ _) =>
      apply (gsound_bind oku okz); [ | in_u | in_nu | apply oku_dec ]
  | |- gstrict okz (@bind unit _ _ _) =>
      apply (gstrict_bind oku okz); [ | in_u | in_nu | apply oku_dec ]
  | |- gnever okz (bind _ _) => apply gnever_bind; let a := fresh "a" in intros a; cbv beta
  end.

Ltac scrut :=
  match goal with
  | |- context [match ?x with Some _ => _ | None => _ end] => destruct x
  | |- context [if ?b then _ else _] =>
      lazymatch b with
      | Z.eqb _ _ => fail
      | negb (Z.eqb _ _) => fail
      | _ => destruct b
      end
  | |- context [let (_, _) := ?x in _] => destruct x
  end.

Ltac go := repeat first [ leaf | sbind | scrut ].

(* strict computations are sound *)
Ltac by_strict := apply gstrict_gsound.

(* ---------------------------------------------------------------- io, meta *)
Lemma strict_write_at : forall f, strict (file_write_at f).
Proof. intros. unfold file_write_at. go. Qed.
Lemma strict_read_at : forall f, strict (file_read_at f).
Proof. intros. unfold file_read_at. go. Qed.
Lemma strict_truncate : forall f, strict (file_truncate f).
Proof. intros. unfold file_truncate. go. Qed.
Lemma strict_open : forall f, strict (file_open f).
Proof. intros. unfold file_open. go. Qed.
Lemma strict_fsync : forall f, strict (file_fsync f).
Proof. intros. unfold file_fsync. go. Qed.
Lemma strict_stage : forall n e, e <> 0 -> strict (stage n e).
Proof. intros. unfold stage. apply strict_sys_st. assumption. Qed.
#[export] Hint Resolve strict_write_at strict_read_at strict_truncate strict_open strict_fsync : c13.
#[export] Hint Extern 1 (gstrict okz (stage _ _)) => apply strict_stage; auto with c13 : c13.

Lemma strict_reads : forall f n, strict (reads f n).
Proof. intros f n. induction n; cbn [reads]; go. Qed.
Lemma strict_writes : forall f n, strict (writes f n).
Proof. intros f n. induction n; cbn [writes]; go. Qed.
#[export] Hint Resolve strict_reads strict_writes : c13.

Lemma strict_meta_flush : forall b, strict (meta_flush b).
Proof. intros b. unfold meta_flush. go. Qed.
#[export] Hint Resolve strict_meta_flush : c13.
Lemma strict_meta_flushes : forall b n, strict (meta_flushes b n).
Proof. intros b n. induction n; cbn [meta_flushes]; go. Qed.
#[export] Hint Resolve strict_meta_flushes : c13.
Lemma strict_write_table : forall n, strict (write_table n).
Proof. intros n. unfold write_table. go. Qed.
#[export] Hint Resolve strict_write_table : c13.

(* ------------------------------------------------- block writer / backend *)
Lemma strict_dedup : forall d, strict (deduplicate_blocks d).
Proof. intros d. unfold deduplicate_blocks. go. Qed.
#[export] Hint Resolve strict_dedup : c13.
Lemma strict_write_data_block : forall p, strict (write_data_block p).
Proof. intros p. unfold write_data_block. go. Qed.
#[export] Hint Resolve strict_write_data_block : c13.
Lemma strict_pcb : forall p, strict (process_completed_block p).
Proof. intros p. unfold process_completed_block. go. destruct (pcb_post p); go. Qed.
#[export] Hint Resolve strict_pcb : c13.

Lemma strict_pool_submit : forall b, strict (pool_submit b).
Proof. intros b. unfold pool_submit. go. Qed.
#[export] Hint Resolve strict_pool_submit : c13.

Lemma never0_status_or_alloc : never0 (s <- pool_status E_COMP ;; Ret (if Z.eqb s 0 then E_ALLOC else s)).
Proof.
  intros o s. unfold pool_status. cbn [bind run fst]. unfold okz.
  destruct (perr s); cbn; [exact E_COMP_nz | exact E_ALLOC_nz].
Qed.

Lemma strict_enqueue_block : forall e, strict (enqueue_block e).
Proof.
  intros e. unfold enqueue_block. go.
  all: apply gnever_ret; unfold okz;
    match goal with |- (if Z.eqb ?x 0 then _ else _) <> 0 =>
      destruct (Z.eqb x 0) eqn:E; [ exact E_ALLOC_nz | apply Z.eqb_neq; exact E ] end.
Qed.
#[export] Hint Resolve strict_enqueue_block : c13.

Lemma strict_lookups : forall n, strict (lookups n).
Proof. intros n. induction n; cbn [lookups]; go. Qed.
#[export] Hint Resolve strict_lookups : c13.

Lemma strict_pcf : forall s, strict (process_completed_fragment repaired s).
Proof.
  intros s. destruct s; cbn [process_completed_fragment fix_sparse_frag repaired]; go.
  (* PcfSparse with inode: the status of set_block_size is returned *)
  all: try (apply (gstrict_bind okz okz);
            [ go | intros a H; zok a H; go | intros a H; apply gnever_ret; exact H | apply okz_dec ]).
Qed.
#[export] Hint Resolve strict_pcf : c13.

(* the worker: a failure is parked in the pool status *)
Lemma sound_worker : gsound oku worker.
Proof.
  intros o s _. unfold worker. cbn [run]. destruct (o (nxt s)); cbn [negb run snd tr perr].
  - intros _. right. reflexivity.
  - unfold bad. cbn [existsb is_failed orb]. intros H. left. exact H.
Qed.
#[export] Hint Resolve sound_worker : c13.

Lemma never0_null : never0 (s <- pool_status E_COMP ;; Ret (if Z.eqb s 0 then E_INTERNAL else s)).
Proof.
  intros o s. unfold pool_status. cbn [bind run fst]. unfold okz.
  destruct (perr s); cbn; [exact E_COMP_nz | exact E_INTERNAL_nz].
Qed.

Ltac sgo := repeat first [ leaf | (by_strict; solve [ auto with c13 ]) | sbind | scrut ].

Lemma sound_dequeue_block : forall l, sound (dequeue_block repaired l).
Proof.
  induction l as [|x t IH]; cbn [dequeue_block]; [go|].
  destruct x; [ sgo | sgo | sgo | apply gnever_gsound, never0_null ].
Qed.
#[export] Hint Resolve sound_dequeue_block : c13.

Lemma sound_dq_many : forall l, sound (dq_many repaired l).
Proof. induction l as [|x t IH]; cbn [dq_many]; sgo. Qed.
#[export] Hint Resolve sound_dq_many : c13.

(* ---------------------------------------------------------------- frontend *)
Lemma sound_get_new_block : forall g, sound (get_new_block repaired g).
Proof. intros g. unfold get_new_block. sgo. Qed.
#[export] Hint Resolve sound_get_new_block : c13.

Lemma sound_bp_append : forall l, sound (bp_append repaired l).
Proof. induction l as [|x t IH]; cbn [bp_append]; [go|]. destruct x; sgo. Qed.
#[export] Hint Resolve sound_bp_append : c13.

Lemma sound_add_sentinel : forall g e, sound (add_sentinel_block repaired g e).
Proof. intros. unfold add_sentinel_block. sgo. Qed.
#[export] Hint Resolve sound_add_sentinel : c13.

Lemma sound_bp_end_file : forall s, sound (bp_end_file repaired s).
Proof.
  intros s. destruct s as [|g e|e|sent e]; cbn [bp_end_file]; sgo.
Qed.
#[export] Hint Resolve sound_bp_end_file : c13.

Lemma sound_bp_finish : forall f, sound (bp_finish repaired f).
Proof.
  intros f. unfold bp_finish. cbn [fix_worker_status repaired]. sgo.
Qed.
#[export] Hint Resolve sound_bp_finish : c13.

(* after a successful finish nothing is parked in the pool status any more *)
Lemma bp_finish_clears : forall f o s,
  fst (run (bp_finish repaired f) o s) = 0 -> perr (snd (run (bp_finish repaired f) o s)) = false.
Proof.
  intros f o s. unfold bp_finish. cbn [fix_worker_status repaired].
  rewrite run_bind. destruct (run (dq_many repaired (fin_sync1 f)) o s) as [a s1].
  unfold on_ok. destruct (Z.eqb a 0) eqn:Ea; [|cbn [run fst]; intros H; rewrite H in Ea; discriminate].
  rewrite run_bind.
  destruct (run match fin_frag f with
                | Some (e, s2) => r <- enqueue_block e;; (if r =? 0 then dq_many repaired s2 else Ret r)
                | None => Ret 0 end o s1) as [b s2'].
  destruct (Z.eqb b 0) eqn:Eb; [|cbn [run fst]; intros H; rewrite H in Eb; discriminate].
  unfold pool_status. cbn [run fst snd]. destruct (perr s2') eqn:Ep; [|reflexivity].
  intros H. exfalso. exact (E_COMP_nz H).
Qed.

(* ------------------------------------------------------ packing one file *)
Lemma sound_splice_all : forall f l, sound (splice_all repaired f l).
Proof.
  intros f. induction l as [|x t IH]; cbn [splice_all]; [go|]. sgo.
Qed.
#[export] Hint Resolve sound_splice_all : c13.

(* closes [gnever okz (x ;;; y ;;; Ret c)] with c visibly non-zero *)
Ltac nz_tail :=
  repeat (apply gnever_bind; let a := fresh "a" in intros a; cbv beta);
  apply gnever_ret; unfold okz;
  first [ assumption | discriminate | exact m1_nz | exact one_nz
        | (match goal with H : Z.eqb ?a 0 = false |- _ => apply Z.eqb_neq; exact H end) ].

(* [r <- m ;; if r = 0 then K else FAIL]: split into the three obligations *)
Ltac split3 L :=
  apply L; [ | in_ok | in_nz | first [ apply okz_dec | apply oku_dec ] ].

Lemma sound_copy_data : forall src f, sound (copy_data repaired src f).
Proof.
  intros src f. unfold copy_data.
  split3 (gsound_bind okz okz); [ auto with c13 | auto with c13 | nz_tail ].
Qed.
#[export] Hint Resolve sound_copy_data : c13.

Lemma sound_pack_file : forall f, sound (pack_file repaired f).
Proof.
  intros f. unfold pack_file.
  split3 (gsound_bind okz okz); [ by_strict; auto with c13 | | nz_tail ].
  split3 (gsound_bind okz okz); [ by_strict; auto with c13 | | nz_tail ].
  apply (gsound_bind okz okz); [ auto with c13 | in_ok | | apply okz_dec ].
  - sgo.
  - intros ? ?. nz_tail.
Qed.
#[export] Hint Resolve sound_pack_file : c13.

Lemma sound_pack_loop : forall l, sound (pack_loop repaired l).
Proof.
  induction l as [|x t IH]; cbn [pack_loop]; [go|].
  split3 (gsound_bind okz okz); [ by_strict; auto with c13 | | nz_tail ].
  split3 (gsound_bind okz okz); [ auto with c13 | exact IH | nz_tail ].
Qed.
#[export] Hint Resolve sound_pack_loop : c13.

Definition okp (ra : Z * bool) : Prop := fst ra = 0.
Lemma okp_dec : forall a, okp a \/ ~ okp a.
Proof. intros [a b]. unfold okp. cbn. destruct (Z.eq_dec a 0); [left|right]; assumption. Qed.

Ltac nzp_tail :=
  repeat (apply gnever_bind; let a := fresh "a" in intros a; cbv beta);
  apply gnever_ret; unfold okp; cbn [fst];
  first [ assumption | discriminate
        | (match goal with H : Z.eqb ?a 0 = false |- _ => apply Z.eqb_neq; exact H end) ].

Lemma sound_pack_files : forall pd l, gsound okp (pack_files repaired pd l).
Proof.
  intros pd l. unfold pack_files. cbn [fix_cwd repaired]. destruct pd.
  - split3 (gsound_bind okz okp); [ by_strict; auto with c13 | | nzp_tail ].
    apply (gsound_bind oku okp); [ by_strict; apply strict_emit; reflexivity | in_u | in_nu | apply oku_dec ].
    apply (gsound_bind okz okp); [ auto with c13 | in_ok | | apply okz_dec ].
    + apply (gsound_bind oku okp); [ by_strict; apply strict_emit; reflexivity | in_u; apply gsound_ret | in_nu | apply oku_dec ].
    + intros ? ?. nzp_tail.
  - apply (gsound_bind okz okp); [ auto with c13 | intros a H; apply gsound_ret | intros a H; apply gnever_ret; exact H | apply okz_dec ].
Qed.

(* the working directory is the original one again when pack_files returns *)
Lemma pack_files_home : forall pd l o s, snd (fst (run (pack_files repaired pd l) o s)) = false.
Proof.
  intros pd l o s. unfold pack_files. cbn [fix_cwd repaired]. destruct pd.
  - rewrite run_bind. destruct (run (stage S_CHDIR (-1)) o s) as [a s1].
    destruct (negb (Z.eqb a 0)).
    + unfold diag. cbn [bind run fst snd]. reflexivity.
    + unfold emit. cbn [bind]. cbn [run]. rewrite run_bind.
      destruct (run (pack_loop repaired l) o _) as [b s2]. cbn [bind run fst snd]. reflexivity.
  - rewrite run_bind. destruct (run (pack_loop repaired l) o s) as [b s2]. reflexivity.
Qed.

(* ------------------------------------------------------- serialize, finish *)
Lemma strict_serialize_node : forall n, strict (serialize_tree_node n).
Proof. intros n. unfold serialize_tree_node. go. Qed.
#[export] Hint Resolve strict_serialize_node : c13.
Lemma strict_serialize_nodes : forall l, strict (serialize_nodes l).
Proof. induction l as [|x t IH]; cbn [serialize_nodes]; go. Qed.
#[export] Hint Resolve strict_serialize_nodes : c13.

Lemma strict_serialize_fstree : forall s, strict (serialize_fstree s).
Proof.
  intros s. unfold serialize_fstree.
  apply (gstrict_bind okz okz); [ go | in_ok; go | intros ? ?; nz_tail | apply okz_dec ].
Qed.
#[export] Hint Resolve strict_serialize_fstree : c13.

Lemma strict_xattr_flush : forall x, strict (xattr_writer_flush x).
Proof. intros x. destruct x as [x|]; cbn [xattr_writer_flush]; go. Qed.
#[export] Hint Resolve strict_xattr_flush : c13.

Lemma strict_export : forall n, strict (write_export_table repaired n).
Proof.
  intros n. unfold write_export_table. cbn [fix_export_ret repaired].
  split3 (gstrict_bind okz okz); [ go | go | nz_tail ].
Qed.
#[export] Hint Resolve strict_export : c13.

Lemma strict_padd : forall b, strict (padd_sqfs b).
Proof.
  intros b. unfold padd_sqfs. destruct b; [|go].
  apply (gstrict_bind okz okz); [ | in_ok; go | intros ? ?; nz_tail | apply okz_dec ].
  split3 (gstrict_bind okz okz); [ go | | go ].
  split3 (gstrict_bind okz okz); [ go | go | nz_tail ].
Qed.
#[export] Hint Resolve strict_padd : c13.

(* or_fail with a strict / sound callee *)
Lemma strict_or_fail : forall d m k, strict m -> strict k -> strict (or_fail d m k).
Proof.
  intros d m k Hm Hk. unfold or_fail.
  split3 (gstrict_bind okz okz); [ exact Hm | exact Hk | nz_tail ].
Qed.
Lemma sound_or_fail : forall d m k, sound m -> sound k -> sound (or_fail d m k).
Proof.
  intros d m k Hm Hk. unfold or_fail.
  split3 (gsound_bind okz okz); [ exact Hm | exact Hk | nz_tail ].
Qed.

(* the part of sqfs_writer_finish after the data blocks *)
Definition finish_tail (v : variant) (f : finish_script) : prog Z :=
  r <- serialize_fstree (fi_ser f) ;;
  if negb (Z.eqb r 0) then Ret (-1) else
  or_fail 4 (match fi_frag f with Some n => write_table n | None => Ret 0 end) (
  r <- (match fi_export f with Some n => write_export_table v n | None => Ret 0 end) ;;
  if negb (Z.eqb r 0) then ((if fix_export_diag v then diag 5 else Ret tt) ;;; Ret (-1)) else
  or_fail 6 (write_table (fi_id f)) (
  or_fail 7 (match fi_xattr f with Some x => xattr_writer_flush x | None => Ret 0 end) (
  or_fail 8 (file_write_at FOut) (
  r <- padd_sqfs (fi_pad f) ;;
  if negb (Z.eqb r 0) then Ret (-1) else Ret 0)))).

Lemma writer_finish_unfold : forall v f,
  writer_finish v f = or_fail 3 (bp_finish v (fi_bp f)) (finish_tail v f).
Proof. reflexivity. Qed.

Lemma strict_finish_tail : forall f, strict (finish_tail repaired f).
Proof.
  intros f. unfold finish_tail. cbn [fix_export_diag repaired].
  split3 (gstrict_bind okz okz); [ go | | nz_tail ].
  apply strict_or_fail; [ destruct (fi_frag f); go | ].
  split3 (gstrict_bind okz okz); [ destruct (fi_export f); go | | nz_tail ].
  apply strict_or_fail; [ go | ].
  apply strict_or_fail; [ destruct (fi_xattr f); go | ].
  apply strict_or_fail; [ go | ].
  split3 (gstrict_bind okz okz); [ go | go | nz_tail ].
Qed.

Lemma sound_writer_finish : forall f, sound (writer_finish repaired f).
Proof.
  intros f. rewrite writer_finish_unfold. apply sound_or_fail; [ auto with c13 | ].
  by_strict. apply strict_finish_tail.
Qed.

(* a successful sqfs_writer_finish: nothing was parked in the pool status when it
   started, and it hides no failure *)
Lemma writer_finish_ok : forall f o s,
  fst (run (writer_finish repaired f) o s) = 0 ->
  perr s = false /\
  (bad (tr (snd (run (writer_finish repaired f) o s))) = true -> bad (tr s) = true).
Proof.
  intros f o s. rewrite writer_finish_unfold. unfold or_fail. rewrite run_bind.
  destruct (run (bp_finish repaired (fi_bp f)) o s) as [a s1] eqn:E1.
  destruct (Z.eqb a 0) eqn:Ea.
  2: { unfold diag. cbn [bind run fst]. intros H. discriminate. }
  apply Z.eqb_eq in Ea. subst a. intros H0.
  pose proof (bp_finish_clears (fi_bp f) o s) as Hc. rewrite E1 in Hc. cbn [fst snd] in Hc.
  specialize (Hc eq_refl).
  assert (Hp : perr s = false).
  { destruct (perr s) eqn:Ep; [|reflexivity].
    pose proof (perr_mono _ (bp_finish repaired (fi_bp f)) o s Ep) as Hm.
    rewrite E1 in Hm. cbn [snd] in Hm. rewrite Hm in Hc. discriminate. }
  split; [exact Hp|]. intros Hb.
  destruct (strict_finish_tail f o s1 H0) as [Eb Ep]. rewrite Eb in Hb.
  pose proof (sound_bp_finish (fi_bp f) o s) as Hs. rewrite E1 in Hs. cbn [fst snd] in Hs.
  destruct (Hs eq_refl Hb) as [H|H]; [exact H|].
  rewrite Hc in H. discriminate.
Qed.

(* ------------------------------------------------------------ init, pre *)
Lemma never0_init_fail : forall v, never0 (init_fail v).
Proof. intros v. unfold init_fail. nz_tail. Qed.

Lemma strict_init_stages : forall v n, strict (init_stages v n).
Proof.
  intros v n. induction n; cbn [init_stages]; [go|].
  split3 (gstrict_bind okz okz); [ go | exact IHn | ].
  apply gnever_bind. intros _. apply never0_init_fail.
Qed.
#[export] Hint Resolve strict_init_stages : c13.

Lemma strict_writer_init : forall v c, strict (writer_init v c).
Proof.
  intros v c. unfold writer_init.
  split3 (gstrict_bind okz okz); [ go | | nz_tail ].
  split3 (gstrict_bind okz okz); [ go | | nz_tail ].
  split3 (gstrict_bind okz okz); [ go | | nz_tail ].
  split3 (gstrict_bind okz okz); [ go | | apply gnever_bind; intros _; apply never0_init_fail ].
  split3 (gstrict_bind okz okz); [ destruct (c_compopts c); go | go | apply gnever_bind; intros _; apply never0_init_fail ].
Qed.

Lemma strict_pre_steps : forall v l, strict (pre_steps v l).
Proof.
  intros v. induction l as [|x t IH]; cbn [pre_steps]; [go|].
  destruct x; (split3 (gstrict_bind okz okz); [ go | exact IH | nz_tail ]).
Qed.
