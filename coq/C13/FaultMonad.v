(* C13 -- fail-stop.  Programs over an event trace with a fault oracle.

   A tool run is a value of the free monad [prog]: a tree whose nodes are the
   *fallible calls* the C code makes (I/O primitives of lib/sqfs/src/io/*.c and
   abstract "stage" calls: allocations, compressor calls, parsers), trace
   events (diagnostics on stderr, close, unlink, chdir) and reads/writes of the
   one piece of hidden state the status plumbing depends on: the thread pool's
   sticky [status] field.  [run] interprets a program against a fault oracle
   [o : nat -> bool]: the n-th fallible call of the run fails iff [o n].
   Nothing is assumed about the oracle: single faults, several faults,
   persistent faults are all instances. *)
From Coq Require Import List ZArith Bool Arith.
Import ListNotations.

Inductive fileid := FOut | FIn | FStdin | FStdout | FImg | FUnp | FWrong.

Inductive call :=
| KOpen (f : fileid)
| KWrite (f : fileid)
| KRead (f : fileid)
| KTrunc (f : fileid)
| KFsync (f : fileid)
| KStage (site : nat).

Inductive ev :=
| EvCall (c : call) (ok : bool)
| EvClose (f : fileid)
| EvUnlink (f : fileid)
| EvChdir (away : bool)
| EvDiag (site : nat).

Inductive prog (A : Type) : Type :=
| Ret (a : A)
| Sys (c : call) (k : bool -> prog A)     (* k true: the call succeeded *)
| Emit (e : ev) (k : prog A)
| PoolGet (k : bool -> prog A)            (* pool->status != 0 ? *)
| PoolSet (k : prog A).                   (* a worker stored a non-zero status *)
Arguments Ret {A} a.
Arguments Sys {A} c k.
Arguments Emit {A} e k.
Arguments PoolGet {A} k.
Arguments PoolSet {A} k.

Fixpoint bind {A B : Type} (m : prog A) (f : A -> prog B) : prog B :=
  match m with
  | Ret a => f a
  | Sys c k => Sys c (fun b => bind (k b) f)
  | Emit e k => Emit e (bind k f)
  | PoolGet k => PoolGet (fun b => bind (k b) f)
  | PoolSet k => PoolSet (bind k f)
  end.

Declare Scope prog_scope.
Delimit Scope prog_scope with prog.
Notation "x <- m ;; f" := (bind m (fun x => f))
  (at level 61, m at next level, right associativity) : prog_scope.
Notation "m ;;; f" := (bind m (fun _ => f))
  (at level 61, right associativity) : prog_scope.
Open Scope prog_scope.

(* interpreter state: index of the next fallible call, trace (newest event first),
   sticky pool status *)
Record st := mkst { nxt : nat; tr : list ev; perr : bool }.

Definition st0 : st := mkst 0 [] false.

Fixpoint run {A : Type} (p : prog A) (o : nat -> bool) (s : st) : A * st :=
  match p with
  | Ret a => (a, s)
  | Sys c k =>
      let ok := negb (o (nxt s)) in
      run (k ok) o (mkst (S (nxt s)) (EvCall c ok :: tr s) (perr s))
  | Emit e k => run k o (mkst (nxt s) (e :: tr s) (perr s))
  | PoolGet k => run (k (perr s)) o s
  | PoolSet k => run k o (mkst (nxt s) (tr s) true)
  end.

Definition nofault : nat -> bool := fun _ => false.
Definition single (k : nat) : nat -> bool := fun n => Nat.eqb n k.

(* ---- observations on traces (newest first) ---- *)
Definition is_failed (e : ev) : bool :=
  match e with EvCall _ false => true | _ => false end.
Definition is_diag (e : ev) : bool :=
  match e with EvDiag _ => true | _ => false end.
Definition is_unlink (e : ev) : bool :=
  match e with EvUnlink _ => true | _ => false end.
Definition is_out_created (e : ev) : bool :=
  match e with EvCall (KOpen FOut) true => true | _ => false end.

Definition bad (l : list ev) : bool := existsb is_failed l.
Definition has_diag (l : list ev) : bool := existsb is_diag l.
Definition has_unlink (l : list ev) : bool := existsb is_unlink l.
Definition created (l : list ev) : bool := existsb is_out_created l.

(* ---- small vocabulary used by every layer ---- *)
Definition sys_st (c : call) (e : Z) : prog Z :=
  Sys c (fun ok => Ret (if ok then 0%Z else e)).
Definition stage (site : nat) (e : Z) : prog Z := sys_st (KStage site) e.
Definition diag (n : nat) : prog unit := Emit (EvDiag n) (Ret tt).
Definition emit (e : ev) : prog unit := Emit e (Ret tt).
(* `if (ret) return ret;` *)
Definition on_ok (r : Z) (k : prog Z) : prog Z :=
  if Z.eqb r 0 then k else Ret r.
(* `if (ret) { diagnostic; }` *)
Definition diag_if (r : Z) (n : nat) : prog unit :=
  if Z.eqb r 0 then Ret tt else diag n.
Definition pool_status (e : Z) : prog Z :=
  PoolGet (fun b => Ret (if b then e else 0%Z)).
