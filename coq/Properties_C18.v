(* C18 — path canonicalisation and file-name sanity.  Statements only; every
   proof is one [exact] of a lemma from C18/CanonProofs.v. *)
From Coq Require Import List NArith Bool.
From SqfsV Require Import C18.CanonModel C18.CanonSpec C18.CanonProofs.
Import ListNotations.
Local Open Scope N_scope.

(* the loop of the model always terminates within its fuel *)
Theorem canon_total : forall s, canon_model s <> CanonFuel.
Proof. exact canon_total_l. Qed.
Print Assumptions canon_total.

(* the character-level state machine computes the component-level spec *)
Theorem canon_refines : forall s, canon_result s = canon_spec s.
Proof. exact canon_refines_l. Qed.
Print Assumptions canon_refines.

(* fails exactly when some component is ".." *)
Theorem canon_fails_iff : forall s,
  canon_result s = None <-> In [dot; dot] (split_slash s).
Proof. exact canon_fails_iff_l. Qed.
Print Assumptions canon_fails_iff.

(* result is empty or every '/'-separated piece is non-empty, not ".", not ".." *)
Theorem canon_clean : forall s r, canon_result s = Some r ->
  r = [] \/ Forall clean_comp (split_slash r).
Proof. exact canon_clean_l. Qed.
Print Assumptions canon_clean.

Theorem canon_clean_no_leading : forall r,
  Forall clean_comp (split_slash r) -> forall x, r <> slash :: x.
Proof. exact clean_no_leading_slash. Qed.
Theorem canon_clean_no_trailing : forall r,
  Forall clean_comp (split_slash r) -> forall x, r <> x ++ [slash].
Proof. exact clean_no_trailing_slash. Qed.
Theorem canon_clean_no_repeated : forall r,
  Forall clean_comp (split_slash r) -> forall x y, r <> x ++ slash :: slash :: y.
Proof. exact clean_no_double_slash. Qed.
Print Assumptions canon_clean_no_repeated.

Theorem canon_no_grow : forall s r, canon_result s = Some r -> (length r <= length s)%nat.
Proof. exact canon_no_grow_l. Qed.
Print Assumptions canon_no_grow.

Theorem canon_idem : forall s r, canon_result s = Some r -> canon_result r = Some r.
Proof. exact canon_idem_l. Qed.
Print Assumptions canon_idem.

(* names the same entry: in every directory tree, with every meaning of "..",
   resolving the input and resolving the result reach the same node *)
Theorem canon_same_entry :
  forall (node : Type) (child : node -> list N -> option node) (up : node -> option node)
         s r n,
  canon_result s = Some r ->
  walk node child up n (split_slash s) = walk node child up n (split_slash r).
Proof. exact canon_same_entry_l. Qed.
Print Assumptions canon_same_entry.

Theorem sane_iff : forall n,
  is_filename_sane_model n = true <-> n <> [dot] /\ n <> [dot; dot] /\ ~ In slash n.
Proof. exact sane_iff_l. Qed.
Print Assumptions sane_iff.

(* ---- non-vacuity: the hypotheses are met by concrete non-trivial inputs ---- *)
Definition str (l : list N) := l.
(* "./foo/././bar/test/./." -> "foo/bar/test" *)
Example ex_canon_1 :
  canon_result [46;47;102;111;111;47;46;47;46;47;98;97;114;47;116;101;115;116;47;46;47;46]
  = Some [102;111;111;47;98;97;114;47;116;101;115;116].
Proof. vm_compute. reflexivity. Qed.
(* "a/.../b" stays *)
Example ex_canon_2 : canon_result [97;47;46;46;46;47;98] = Some [97;47;46;46;46;47;98].
Proof. vm_compute. reflexivity. Qed.
(* "foo/bar/.." fails *)
Example ex_canon_3 : canon_result [102;111;111;47;98;97;114;47;46;46] = None.
Proof. vm_compute. reflexivity. Qed.
(* "//" -> "" *)
Example ex_canon_4 : canon_result [47;47] = Some [].
Proof. vm_compute. reflexivity. Qed.
