(* C05 — reading an untrusted image never corrupts memory, hangs or aborts.
   Statements only; every proof is one [exact] of a lemma from coq/C05/*Proofs.v
   (or a closed computation for examples and witnesses).

   The model (coq/C05/{Meta,Super,Inode,Dir,Data,Xattr,Run}.v) re-states the reader
   stack with explicit buffer sizes; [Crash] = the C code would access memory outside
   the valid part of a buffer / past an array / through NULL.  The decompressor is an
   oracle with the contract [codec_ok] (total, output fits the buffer it was given). *)
From Coq Require Import List NArith ZArith Bool.
From SqfsV Require Import Gen.Constants Base.Bytes C05.RBase C05.GenC05 C05.Meta C05.Super C05.Inode C05.Dir
  C05.Data C05.Xattr C05.Run C05.BaseProofs C05.MetaProofs C05.SuperProofs C05.InodeProofs C05.DirProofs
  C05.DataProofs C05.XattrProofs C05.RunProofs C05.Examples C05.Top.
Import ListNotations.
Local Open Scope N_scope.

(* ---- the property ---- *)

(* for every byte list offered as an image, every query, every amount of fuel: no step of
   the reader stack leaves a buffer *)
Theorem reader_safe :
  forall codec depth efuel fuel img q, codecs_ok codec ->
  Forall (fun i => item_crash i = false) (run_reader codec depth efuel fuel img q).
Proof. exact reader_safe_l. Qed.
Print Assumptions reader_safe.

(* ... and it terminates: with fuel_bound = alloc_limit + 65538 rounds for the block loop of
   one read, 2^32 + 1 rounds for loops counted by a 32 bit on-disk field, 2^32 + 3 levels of
   directory recursion, no loop of the stack is cut short (none of these depends on the image;
   the work actually done is bounded by the bytes the image can deliver) *)
Theorem reader_total :
  forall codec depth efuel fuel img, codecs_ok codec ->
  (N.to_nat depth_bound <= depth)%nat -> (N.to_nat efuel_bound <= efuel)%nat ->
  (N.to_nat fuel_bound <= fuel)%nat ->
  Forall (fun i => item_oof i = false) (run_reader codec depth efuel fuel img QAll) /\
  Forall (fun i => item_oof i = false) (run_reader codec depth efuel fuel img QXattr).
Proof. exact reader_total_l. Qed.
Print Assumptions reader_total.

Theorem meta_ops_total :
  forall codec depth efuel fuel img ops, codecs_ok codec ->
  (forall n, In (MRead n) ops -> (N.to_nat n <= fuel)%nat) ->
  Forall (fun i => item_oof i = false) (run_reader codec depth efuel fuel img (QMeta ops)).
Proof. exact meta_ops_total_l. Qed.
Print Assumptions meta_ops_total.

(* the same for the reader stack as a concrete build runs it: the compressor named by the super block is
   created first, and a back end that is not compiled in (c5_comp_available, regenerated from the
   working tree's config.h on every run) ends the run with SQFS_ERROR_UNSUPPORTED *)
Theorem reader_build_safe :
  forall avail codec depth efuel fuel img q, codecs_ok codec ->
  Forall (fun i => item_crash i = false) (run_reader_build avail codec depth efuel fuel img q).
Proof. exact reader_build_safe_l. Qed.
Print Assumptions reader_build_safe.

Theorem reader_build_total :
  forall avail codec depth efuel fuel img, codecs_ok codec ->
  (N.to_nat depth_bound <= depth)%nat -> (N.to_nat efuel_bound <= efuel)%nat ->
  (N.to_nat fuel_bound <= fuel)%nat ->
  Forall (fun i => item_oof i = false) (run_reader_build avail codec depth efuel fuel img QAll) /\
  Forall (fun i => item_oof i = false) (run_reader_build avail codec depth efuel fuel img QXattr).
Proof. exact reader_build_total_l. Qed.
Print Assumptions reader_build_total.

Theorem reader_build_unavailable :
  forall avail codec depth efuel fuel img q s r,
  run_reader codec depth efuel fuel img q = ISuper (Ok s) :: r -> avail (s_comp s) = false ->
  run_reader_build avail codec depth efuel fuel img q = [ISuper (Ok s); IComp (Err E_UNSUPPORTED)].
Proof. exact reader_build_unavailable_l. Qed.
Print Assumptions reader_build_unavailable.

(* ---- the carrying lemmas ---- *)

(* meta_window: seek keeps offset < data_used <= sizeof(data), also when it fails *)
Theorem meta_window :
  forall uc img m blk off, codec_ok uc -> mr_inv m ->
  mr_inv (fst (mr_seek' uc true img m blk off)) /\
  post False (snd (mr_seek' uc true img m blk off))
       (fun _ => m_off (fst (mr_seek' uc true img m blk off)) = off /\
                 off < lenN (m_data (fst (mr_seek' uc true img m blk off)))).
Proof. exact meta_window_l. Qed.
Print Assumptions meta_window.

(* a read of n bytes returns exactly n bytes or an error, within n rounds *)
Theorem meta_read_exact :
  forall uc img fuel m cap size, codec_ok uc -> mr_inv m -> (N.to_nat cap <= fuel)%nat -> size <= cap ->
  post False (mr_read uc true img fuel m cap size) (fun p => mr_inv (fst p) /\ lenN (snd p) = size).
Proof. exact meta_read_exact_l. Qed.
Print Assumptions meta_read_exact.

(* table_read_fits: sqfs_read_table stores exactly table_size bytes, never past its location list *)
Theorem table_read_fits :
  forall uc img fuel size loc lo up, codec_ok uc -> (N.to_nat fuel_bound <= fuel)%nat ->
  post False (read_table uc img fuel size loc lo up) (fun d => lenN d = size).
Proof. exact table_read_fits_l. Qed.
Print Assumptions table_read_fits.

(* inode_alloc_no_wrap: every store while reading an inode is inside its allocation *)
Theorem inode_alloc_no_wrap :
  forall uc img fuel m s blk off, codec_ok uc -> (N.to_nat fuel_bound <= fuel)%nat -> mr_inv m ->
  s_block_size s <> 0 ->
  post False (read_inode uc img fuel m s blk off) (fun p => mr_inv (fst p) /\ inode_wf (snd p)).
Proof. exact inode_alloc_no_wrap_l. Qed.
Print Assumptions inode_alloc_no_wrap.

(* index_growth: the doubling loop of read_inode_dir_ext *)
Theorem index_growth :
  forall k new_sz need used, 1 <= new_sz < two64 -> two64 <= new_sz * 2 ^ N.of_nat k -> used <= new_sz ->
  (exists q, new_sz = 128 * q) ->
  post False (grow k new_sz need used)
       (fun s => new_sz <= s /\ need <= s - used /\ s < two64 /\ exists q, s = 128 * q).
Proof. exact (grow_spec False). Qed.
Print Assumptions index_growth.

(* readdir_accounting: every entry handed out shrinks the size still to be read *)
Theorem readdir_accounting :
  forall uc img fuel m it, codec_ok uc -> (N.to_nat fuel_bound <= fuel)%nat -> mr_inv m ->
  post False (mr_readdir uc img fuel m it)
       (fun p => mr_inv (fst (fst p)) /\ (forall x, snd p = Some x -> r_size (snd (fst p)) < r_size it)).
Proof. exact readdir_accounting_l. Qed.
Print Assumptions readdir_accounting.

(* tree_walk_bounded: would_be_own_parent bounds the recursion by the number of distinct
   32 bit inode numbers *)
Theorem tree_walk_bounded :
  forall uc img efuel fuel s ids depth dr anc it, codec_ok uc ->
  (N.to_nat fuel_bound <= fuel)%nat -> (N.to_nat (two32 + 1) <= efuel)%nat ->
  dr_inv dr -> s_block_size s <> 0 -> NoDup anc -> (forall x, In x anc -> x < two32) ->
  two32 + 2 <= N.of_nat depth + lenN anc -> r_size it < two32 ->
  post False (fill_dir uc img depth efuel fuel s ids dr anc it)
       (fun p => dr_inv (fst p) /\ nodes_wf (flat_all (snd p))).
Proof. exact tree_walk_bounded_l. Qed.
Print Assumptions tree_walk_bounded.

(* path_assembly (sqfs_tree_node_get_path): the second pass ends exactly at the buffer start *)
Theorem path_assembly :
  forall names, post False (get_path names) (fun p => lenN p = N.max 1 (path_len names)).
Proof. exact (get_path_safe False). Qed.
Print Assumptions path_assembly.

(* block_fits_buffer: get_block *)
Theorem block_fits_buffer :
  forall uc img bs off word max_size, codec_ok uc -> max_size <= bs ->
  post False (get_block uc img bs off word max_size) (fun p => lenN (fst p) = max_size /\ snd p <= max_size).
Proof. exact block_fits_buffer_l. Qed.
Print Assumptions block_fits_buffer.

(* frag_slice_in_block: sqfs_data_reader_get_fragment (repaired, F13) *)
Theorem frag_slice_in_block :
  forall uc img d i, codec_ok uc -> dd_inv d ->
  post False (dr_get_fragment uc true img d i) (fun p => dd_inv (fst p)).
Proof. exact frag_slice_in_block_l. Qed.
Print Assumptions frag_slice_in_block.

(* sqfs_data_reader_read never leaves the cached block / the fragment block *)
Theorem data_read_in_block :
  forall uc img d i off size, codec_ok uc -> dd_inv d -> i_used i <= 4 * lenN (i_words i) ->
  post False (dr_read uc img d i off size) (fun p => dd_inv (fst p)).
Proof. exact data_read_in_block_l. Qed.
Print Assumptions data_read_in_block.

(* stream_block_fits: the stream reader (repaired, F12) *)
Theorem stream_block_fits :
  forall uc img d st, codec_ok uc -> dd_inv d ->
  post False (stream_next uc true img d st)
       (fun p => dd_inv (fst (fst p)) /\ dd_bs (fst (fst p)) = dd_bs d /\
                 forall x, snd p = Some x -> 1 <= lenN x).
Proof. exact stream_block_fits_l. Qed.
Print Assumptions stream_block_fits.

(* xattr_no_null: seek_kv on a reader without a table (repaired, F22) *)
Theorem xattr_no_null :
  forall uc img x ref count, codec_ok uc -> xr_inv x ->
  post False (xattr_seek_kv uc true img x ref count) (fun x' => xr_inv x' /\ (count <> 0 -> x_kvrd x' <> None)).
Proof. exact xattr_no_null_l. Qed.
Print Assumptions xattr_no_null.

(* ---- the code as found violates the property: witnesses ---- *)
Theorem stream_block_overflow_refuted :
  exists uc img d st, codec_ok uc /\ dd_inv d /\ stream_next uc false img d st = Crash.
Proof. exact stream_block_overflow_refuted_l. Qed.
Print Assumptions stream_block_overflow_refuted.
Theorem get_fragment_wrap_refuted :
  exists uc img d i, codec_ok uc /\ dd_inv d /\ dr_get_fragment uc false img d i = Crash.
Proof. exact get_fragment_wrap_refuted_l. Qed.
Print Assumptions get_fragment_wrap_refuted.
Theorem xattr_null_refuted :
  exists uc img, codec_ok uc /\ xr_inv xr_empty /\ xattr_seek_kv uc false img xr_empty 0 0 = Crash.
Proof. exact xattr_null_refuted_l. Qed.
Print Assumptions xattr_null_refuted.
Theorem meta_stale_state_refuted :
  exists uc img ops, codec_ok uc /\ In Crash (mr_ops uc false img 10 (mr_create 0 (lenN img)) ops).
Proof. exact meta_stale_state_refuted_l. Qed.
Print Assumptions meta_stale_state_refuted.
(* the same sequences are harmless for the repaired code *)
Example stream_w12_fixed : stream_next (nocodec 1) true w12_img w12_d w12_st = Err E_OVERFLOW.
Proof. vm_compute. reflexivity. Qed.
Example frag_w13_fixed : dr_get_fragment (nocodec 1) true w12_img (dd_create 4 w13_frags) w13_ino = Err E_OOB.
Proof. vm_compute. reflexivity. Qed.
Example meta_w23_fixed :
  mr_ops (nocodec 1) true w23_img 10 (mr_create 0 (lenN w23_img)) w23_ops = [Ok []; Ok [7; 7]; Err E_OOB; Err E_OOB].
Proof. vm_compute. reflexivity. Qed.

(* ---- non-vacuity ---- *)
Example codecs_ok_inhabited : codecs_ok nocodec.
Proof. intros id inp cap. exact I. Qed.
(* a real (Builder) image is read completely: tree with f and l, f streams as "hello" *)
Example ex_tiny_tree :
  option_map (fun r => match r with Ok t => tree_names t | _ => [] end)
             (tree_of (run_reader nocodec 10 100 100 tiny_img QAll)) = Some [[]; [102]; [108]].
Proof. vm_compute. reflexivity. Qed.
Example ex_tiny_data :
  stream_of (run_reader nocodec 10 100 100 tiny_img QAll) = Some [104; 101; 108; 108; 111]
  /\ all_fine (run_reader nocodec 10 100 100 tiny_img QAll) = true
  /\ length (run_reader nocodec 10 100 100 tiny_img QAll) = 16%nat.
Proof. vm_compute. auto. Qed.
(* a directory loop is refused by the ancestor check, with very little fuel *)
Example ex_loop_refused :
  tree_of (run_reader nocodec 10 100 100 loop_img QAll) = Some (Err E_LINK_LOOP).
Proof. vm_compute. reflexivity. Qed.
(* fuel matters: the same image with depth fuel 1 runs out (the bounds of reader_total are not vacuous) *)
Example ex_depth_fuel_needed :
  tree_of (run_reader nocodec 1 100 100 loop_img QAll) = Some OutOfFuel.
Proof. vm_compute. reflexivity. Qed.
(* path assembly on a concrete chain: "/ab/c" *)
Example ex_path : get_path [[99]; [97; 98]] = Ok [47; 97; 98; 47; 99].
Proof. vm_compute. reflexivity. Qed.

(* ---- non-vacuity of index_growth: all four hypotheses on one instance, and the run (independent audit) ---- *)
Example ex_index_growth_hyps :
  1 <= 128 < two64 /\ two64 <= 128 * 2 ^ N.of_nat 57 /\ 100 <= 128 /\ (exists q, 128 = 128 * q) /\
  grow 57 128 1000 100 = Ok 2048.
Proof. vm_compute. repeat split; try discriminate. exists 1. reflexivity. Qed.
