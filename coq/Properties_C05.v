(* C05 — reading an untrusted image never corrupts memory, hangs or aborts.
   Statements only; every proof is one [exact] of a lemma from coq/C05/*Proofs.v
   (or a closed computation for examples and witnesses).

   The model (coq/C05/{Meta,Super,Inode,Dir,Data,Xattr,Run}.v) re-states the reader
   stack with explicit buffer sizes; [Crash] = the C code would access memory outside
   the valid part of a buffer / past an array / through NULL.  The decompressor is an
   oracle with the contract [codec_ok] (total, output fits the buffer it was given). *)
From Coq Require Import List NArith ZArith Bool.
From SqfsV Require Import Gen.Constants Base.Bytes C05.RBase C05.GenC05 C05.Meta C05.Super C05.Inode C05.Dir
  C05.Data C05.Xattr C05.Run C05.BaseProofs C05.MetaProofs C05.SuperProofs C05.InodeProofs C05.DirProofs
  C05.DataProofs C05.XattrProofs C05.RunProofs C05.Examples C05.Top.
Import ListNotations.
Local Open Scope N_scope.

(* ---- the property ---- *)

(* for every byte list offered as an image, every query, every amount of fuel: no step of
   the reader stack leaves a buffer *)
Theorem reader_safe :
  forall codec depth efuel fuel img q, codecs_ok codec ->
  Forall (fun i => item_crash i = false) (run_reader codec depth efuel fuel img q).
Proof. exact reader_safe_l. Qed.
Print Assumptions reader_safe.

(* ... and it terminates: with fuel_bound = alloc_limit + 65538 rounds for the block loop of
   one read, 2^32 + 1 rounds for loops counted by a 32 bit on-disk field, 2^32 + 3 levels of
   directory recursion, no loop of the stack is cut short (none of these depends on the image;
   the work actually done is bounded by the bytes the image can deliver) *)
Theorem reader_total :
  forall codec depth efuel fuel img, codecs_ok codec ->
  (N.to_nat depth_bound <= depth)%nat -> (N.to_nat efuel_bound <= efuel)%nat ->
  (N.to_nat fuel_bound <= fuel)%nat ->
  Forall (fun i => item_oof i = false) (run_reader codec depth efuel fuel img QAll) /\
  Forall (fun i => item_oof i = false) (run_reader codec depth efuel fuel img QXattr).
Proof. exact reader_total_l. Qed.
Print Assumptions reader_total.

Theorem meta_ops_total :
  forall codec depth efuel fuel img ops, codecs_ok codec ->
  (forall n, In (MRead n) ops -> (N.to_nat n <= fuel)%nat) ->
  Forall (fun i => item_oof i = false) (run_reader codec depth efuel fuel img (QMeta ops)).
Proof. exact meta_ops_total_l. Qed.
Print Assumptions meta_ops_total.

(* the same for the reader stack as a concrete build runs it: the compressor named by the super block is
   created first, and a back end that is not compiled in (c5_comp_available, regenerated from the
   working tree's config.h on every run) ends the run with SQFS_ERROR_UNSUPPORTED *)
Theorem reader_build_safe :
  forall avail codec depth efuel fuel img q, codecs_ok codec ->
  Forall (fun i => item_crash i = false) (run_reader_build avail codec depth efuel fuel img q).
Proof. exact reader_build_safe_l. Qed.
Print Assumptions reader_build_safe.

Theorem reader_build_total :
  forall avail codec depth efuel fuel img, codecs_ok codec ->
  (N.to_nat depth_bound <= depth)%nat -> (N.to_nat efuel_bound <= efuel)%nat ->
  (N.to_nat fuel_bound <= fuel)%nat ->
  Forall (fun i => item_oof i = false) (run_reader_build avail codec depth efuel fuel img QAll) /\
  Forall (fun i => item_oof i = false) (run_reader_build avail codec depth efuel fuel img QXattr).
Proof. exact reader_build_total_l. Qed.
Print Assumptions reader_build_total.

Theorem reader_build_unavailable :
  forall avail codec depth efuel fuel img q s r,
  run_reader codec depth efuel fuel img q = ISuper (Ok s) :: r -> avail (s_comp s) = false ->
  run_reader_build avail codec depth efuel fuel img q = [ISuper (Ok s); IComp (Err E_UNSUPPORTED)].
Proof. exact reader_build_unavailable_l. Qed.
Print Assumptions reader_build_unavailable.

(* ---- the carrying lemmas ---- *)

(* meta_window: seek keeps offset < data_used <= sizeof(data), also when it fails *)
Theorem meta_window :
  forall uc img m blk off, codec_ok uc -> mr_inv m ->
  mr_inv (fst (mr_seek' uc true img m blk off)) /\
  post False (snd (mr_seek' uc true img m blk off))
       (fun _ => m_off (fst (mr_seek' uc true img m blk off)) = off /\
                 off < lenN (m_data (fst (mr_seek' uc true img m blk off)))).
Proof. exact meta_window_l. Qed.
Print Assumptions meta_window.

(* a read of n bytes returns exactly n bytes or an error, within n rounds *)
Theorem meta_read_exact :
  forall uc img fuel m cap size, codec_ok uc -> mr_inv m -> (N.to_nat cap <= fuel)%nat -> size <= cap ->
  post False (mr_read uc true img fuel m cap size) (fun p => mr_inv (fst p) /\ lenN (snd p) = size).
Proof. exact meta_read_exact_l. Qed.
Print Assumptions meta_read_exact.

(* table_read_fits: sqfs_read_table stores exactly table_size bytes, never past its location list *)
Theorem table_read_fits :
  forall uc img fuel size loc lo up, codec_ok uc -> (N.to_nat fuel_bound <= fuel)%nat ->
  post False (read_table uc img fuel size loc lo up) (fun d => lenN d = size).
Proof. exact table_read_fits_l. Qed.
Print Assumptions table_read_fits.

(* inode_alloc_no_wrap: every store while reading an inode is inside its allocation *)
Theorem inode_alloc_no_wrap :
  forall uc img fuel m s blk off, codec_ok uc -> (N.to_nat fuel_bound <= fuel)%nat -> mr_inv m ->
  s_block_size s <> 0 ->
  post False (read_inode uc img fuel m s blk off) (fun p => mr_inv (fst p) /\ inode_wf (snd p)).
Proof. exact inode_alloc_no_wrap_l. Qed.
Print Assumptions inode_alloc_no_wrap.

(* index_growth: the doubling loop of read_inode_dir_ext *)
Theorem index_growth :
  forall k new_sz need used, 1 <= new_sz < two64 -> two64 <= new_sz * 2 ^ N.of_nat k -> used <= new_sz ->
  (exists q, new_sz = 128 * q) ->
  post False (grow k new_sz need used)
       (fun s => new_sz <= s /\ need <= s - used /\ s < two64 /\ exists q, s = 128 * q).
Proof. exact (grow_spec False). Qed.
Print Assumptions index_growth.

(* readdir_accounting: every entry handed out shrinks the size still to be read *)
Theorem readdir_accounting :
  forall uc img fuel m it, codec_ok uc -> (N.to_nat fuel_bound <= fuel)%nat -> mr_inv m ->
  post False (mr_readdir uc img fuel m it)
       (fun p => mr_inv (fst (fst p)) /\ (forall x, snd p = Some x -> r_size (snd (fst p)) < r_size it)).
Proof. exact readdir_accounting_l. Qed.
Print Assumptions readdir_accounting.

(* tree_walk_bounded: would_be_own_parent bounds the recursion by the number of distinct
   32 bit inode numbers *)
Theorem tree_walk_bounded :
  forall uc img efuel fuel s ids depth dr anc it, codec_ok uc ->
  (N.to_nat fuel_bound <= fuel)%nat -> (N.to_nat (two32 + 1) <= efuel)%nat ->
  dr_inv dr -> s_block_size s <> 0 -> NoDup anc -> (forall x, In x anc -> x < two32) ->
  two32 + 2 <= N.of_nat depth + lenN anc -> r_size it < two32 ->
  post False (fill_dir uc img depth efuel fuel s ids dr anc it)
       (fun p => dr_inv (fst p) /\ nodes_wf (flat_all (snd p))).
Proof. exact tree_walk_bounded_l. Qed.
Print Assumptions tree_walk_bounded.

(* path_assembly (sqfs_tree_node_get_path): the second pass ends exactly at the buffer start *)
Theorem path_assembly :
  forall names, post False (get_path names) (fun p => lenN p = N.max 1 (path_len names)).
Proof. exact (get_path_safe False). Qed.
Print Assumptions path_assembly.

(* block_fits_buffer: get_block *)
Theorem block_fits_buffer :
  forall uc img bs off word max_size, codec_ok uc -> max_size <= bs ->
  post False (get_block uc img bs off word max_size) (fun p => lenN (fst p) = max_size /\ snd p <= max_size).
Proof. exact block_fits_buffer_l. Qed.
Print Assumptions block_fits_buffer.

(* frag_slice_in_block: sqfs_data_reader_get_fragment (repaired, F13) *)
Theorem frag_slice_in_block :
  forall uc img d i, codec_ok uc -> dd_inv d ->
  post False (dr_get_fragment uc true img d i) (fun p => dd_inv (fst p)).
Proof. exact frag_slice_in_block_l. Qed.
Print Assumptions frag_slice_in_block.

(* sqfs_data_reader_read never leaves the cached block / the fragment block *)
Theorem data_read_in_block :
  forall uc img d i off size, codec_ok uc -> dd_inv d -> i_used i <= 4 * lenN (i_words i) ->
  post False (dr_read uc img d i off size) (fun p => dd_inv (fst p)).
Proof. exact data_read_in_block_l. Qed.
Print Assumptions data_read_in_block.

(* stream_block_fits: the stream reader (repaired, F12) *)
Theorem stream_block_fits :
  forall uc img d st, codec_ok uc -> dd_inv d ->
  post False (stream_next uc true img d st)
       (fun p => dd_inv (fst (fst p)) /\ dd_bs (fst (fst p)) = dd_bs d /\
                 forall x, snd p = Some x -> 1 <= lenN x).
Proof. exact stream_block_fits_l. Qed.
Print Assumptions stream_block_fits.

(* xattr_no_null: seek_kv on a reader without a table (repaired, F22) *)
Theorem xattr_no_null :
  forall uc img x ref count, codec_ok uc -> xr_inv x ->
  post False (xattr_seek_kv uc true img x ref count) (fun x' => xr_inv x' /\ (count <> 0 -> x_kvrd x' <> None)).
Proof. exact xattr_no_null_l. Qed.
Print Assumptions xattr_no_null.

(* ---- the code as found violates the property: witnesses ---- *)
Theorem stream_block_overflow_refuted :
  exists uc img d st, codec_ok uc /\ dd_inv d /\ stream_next uc false img d st = Crash.
Proof. exact stream_block_overflow_refuted_l. Qed.
Print Assumptions stream_block_overflow_refuted.
Theorem get_fragment_wrap_refuted :
  exists uc img d i, codec_ok uc /\ dd_inv d /\ dr_get_fragment uc false img d i = Crash.
Proof. exact get_fragment_wrap_refuted_l. Qed.
Print Assumptions get_fragment_wrap_refuted.
Theorem xattr_null_refuted :
  exists uc img, codec_ok uc /\ xr_inv xr_empty /\ xattr_seek_kv uc false img xr_empty 0 0 = Crash.
Proof. exact xattr_null_refuted_l. Qed.
Print Assumptions xattr_null_refuted.
Theorem meta_stale_state_refuted :
  exists uc img ops, codec_ok uc /\ In Crash (mr_ops uc false img 10 (mr_create 0 (lenN img)) ops).
Proof. exact meta_stale_state_refuted_l. Qed.
Print Assumptions meta_stale_state_refuted.
(* the same sequences are harmless for the repaired code *)
Example stream_w12_fixed : stream_next (nocodec 1) true w12_img w12_d w12_st = Err E_OVERFLOW.
Proof. vm_compute. reflexivity. Qed.
Example frag_w13_fixed : dr_get_fragment (nocodec 1) true w12_img (dd_create 4 w13_frags) w13_ino = Err E_OOB.
Proof. vm_compute. reflexivity. Qed.
Example meta_w23_fixed :
  mr_ops (nocodec 1) true w23_img 10 (mr_create 0 (lenN w23_img)) w23_ops = [Ok []; Ok [7; 7]; Err E_OOB; Err E_OOB].
Proof. vm_compute. reflexivity. Qed.

(* ---- non-vacuity ---- *)
Example codecs_ok_inhabited : codecs_ok nocodec.
Proof. intros id inp cap. exact I. Qed.
(* a real (Builder) image is read completely: tree with f and l, f streams as "hello" *)
Example ex_tiny_tree :
  option_map (fun r => match r with Ok t => tree_names t | _ => [] end)
             (tree_of (run_reader nocodec 10 100 100 tiny_img QAll)) = Some [[]; [102]; [108]].
Proof. vm_compute. reflexivity. Qed.
Example ex_tiny_data :
  stream_of (run_reader nocodec 10 100 100 tiny_img QAll) = Some [104; 101; 108; 108; 111]
  /\ all_fine (run_reader nocodec 10 100 100 tiny_img QAll) = true
  /\ length (run_reader nocodec 10 100 100 tiny_img QAll) = 16%nat.
Proof. vm_compute. auto. Qed.
(* a directory loop is refused by the ancestor check, with very little fuel *)
Example ex_loop_refused :
  tree_of (run_reader nocodec 10 100 100 loop_img QAll) = Some (Err E_LINK_LOOP).
Proof. vm_compute. reflexivity. Qed.
(* fuel matters: the same image with depth fuel 1 runs out (the bounds of reader_total are not vacuous) *)
Example ex_depth_fuel_needed :
  tree_of (run_reader nocodec 1 100 100 loop_img QAll) = Some OutOfFuel.
Proof. vm_compute. reflexivity. Qed.
(* path assembly on a concrete chain: "/ab/c" *)
Example ex_path : get_path [[99]; [97; 98]] = Ok [47; 97; 98; 47; 99].
Proof. vm_compute. reflexivity. Qed.

(* ---- non-vacuity of index_growth: all four hypotheses on one instance, and the run (independent audit) ---- *)
Example ex_index_growth_hyps :
  1 <= 128 < two64 /\ two64 <= 128 * 2 ^ N.of_nat 57 /\ 100 <= 128 /\ (exists q, 128 = 128 * q) /\
  grow 57 128 1000 100 = Ok 2048.
Proof. vm_compute. repeat split; try discriminate. exists 1. reflexivity. Qed.

(* ==================================================================================================== *)
(* CompOpt (session 3): compressor configuration and the on-disk compressor options block.             *)
(*                                                                                                      *)
(* Models (coq/CompOpt/Model.v, Parse.v; constants regenerated into CompOpt/GenCompOpt.v):              *)
(*   compressor.c  sqfs_compressor_config_init / sqfs_compressor_create / sqfs_generic_{write,read}_options *)
(*   gzip.c xz.c lzma.c lz4.c zstd.c  *_create checks, *_write_options, *_read_options, *_get_configuration *)
(*   comp_opt.c compressor_cfg_init_options, parse_size.c, parse_int.c, getsubopt / strtol              *)
(*   sqfsdiff.c: how a reader opens the compressor and its options block ([open_image])                 *)
(* [fixes]: [as_found] = the tree as it is; [repaired] = with props/C05/fixes/F26, F27, F28.            *)
(* Statements quantify over the variant [fx] unless a finding is about one of them.                     *)
(* ==================================================================================================== *)
From SqfsV Require Import CompOpt.GenCompOpt CompOpt.Model CompOpt.Parse CompOpt.BaseLemmas CompOpt.CreateProofs
  CompOpt.RoundTrip CompOpt.ReadProofs CompOpt.ParseProofs CompOpt.Top.

(* ---- the options block round trip ----
   For every configuration create accepts (block size one a super block can carry): write_options writes nothing
   exactly for the defaults, else exactly the block doc/format.adoc describes ([fmt_block (fmt_payload st)]: 16 bit
   header with bit 15 set, little endian fields); the reading side (default uncompressor for the same id and block
   size, as every tool creates it) accepts that block, recovers the option fields listed in [kept] (gzip level / window /
   strategies, xz dictionary size / filters; [kept] is EMPTY for lz4 and zstd: their level / HC flag are read but dropped by the C
   code on the reading side, shown as an example, so nothing is claimed for them - independent audit 3, C2) and ends in a configuration create accepts again.
   When nothing is written the reader's defaults are the writer's values. *)
Theorem comp_options_rt : forall fx avail c st pre tail,
  compressor_create fx avail c = Ok st -> In (c_bs c) block_sizes -> lenN pre = sizeof_sqfs_super_t ->
  exists st0, reader_default fx avail (c_id c) (c_bs c) = Ok st0 /\
    write_options st = Ok (if is_default st then [] else fmt_block (fmt_payload st)) /\
    (if is_default st then kept st0 = kept st
     else exists st1, read_options fx st0 (pre ++ fmt_block (fmt_payload st) ++ tail) = (Ok tt, st1) /\
          kept st1 = kept st /\
          exists st2, compressor_create fx avail (get_configuration st1) = Ok st2 /\ kept st2 = kept st).
Proof. exact comp_options_rt_l. Qed.
Print Assumptions comp_options_rt.

Theorem comp_write_none_iff : forall st, write_options st = Ok [] <-> is_default st = true.
Proof. exact comp_write_none_iff_l. Qed.
Print Assumptions comp_write_none_iff.

(* the configuration sqfs_compressor_config_init makes is the one nothing is written for (lz4 always writes; xz with
   a block size below the minimal dictionary size writes although nothing was asked for: ex_xz_4096_default_writes) *)
Theorem comp_default_writes_nothing : forall fx avail id bs st,
  In bs block_sizes -> id <> ID_LZ4 -> (id = ID_XZ -> co_SQFS_XZ_MIN_DICT_SIZE <= bs) ->
  compressor_create fx avail (snd (config_init id bs 0)) = Ok st -> write_options st = Ok [].
Proof. exact comp_default_writes_nothing_l. Qed.
Print Assumptions comp_default_writes_nothing.

(* ---- C05's clause for the options block: EVERY byte string, every compressor object ----
   read_options never leaves its 64 byte buffer or the bytes the file delivered ([Crash]), has no loop
   ([OutOfFuel] does not occur), and answers 0 or one of four error codes *)
Theorem comp_read_options_safe : forall fx st img,
  fst (read_options fx st img) <> Crash /\ fst (read_options fx st img) <> OutOfFuel.
Proof. exact comp_read_options_safe_l. Qed.
Print Assumptions comp_read_options_safe.

Theorem comp_read_options_total : forall fx st img, verdict_ok (fst (read_options fx st img)).
Proof. exact read_options_verdict. Qed.
Print Assumptions comp_read_options_total.

(* an accepted block leaves a configuration that passes create's validation -- for xz under the hypothesis that the
   dictionary size is inside create's range: xz_read_options does not test it (xz_read_accepts_create_rejects_refuted) *)
Theorem comp_read_accepts_valid : forall fx avail c st img st',
  compressor_create fx avail c = Ok st -> read_options fx st img = (Ok tt, st') ->
  (forall s, st' = SXz s -> co_SQFS_XZ_MIN_DICT_SIZE <= xz_dictsz s <= co_SQFS_XZ_MAX_DICT_SIZE) ->
  exists st2, compressor_create fx avail (get_configuration st') = Ok st2.
Proof. exact comp_read_accepts_valid_l. Qed.
Print Assumptions comp_read_accepts_valid.

(* the whole opening sequence of a reader (super block, sqfs_compressor_create, options block if flagged) on every
   byte list, next to reader_safe for everything behind it *)
Theorem reader_with_options_safe :
  forall fx avail codec depth efuel fuel img q, codecs_ok codec ->
  Forall (fun i => item_crash i = false) (run_reader_build avail codec depth efuel fuel img q) /\
  opened_ok (open_image fx avail img).
Proof. exact reader_with_options_safe_l. Qed.
Print Assumptions reader_with_options_safe.

Theorem open_image_unavailable : forall fx avail img s,
  super_read img = Ok s -> avail (s_comp s) = false -> open_image fx avail img = OCreateErr (Err E_UNSUPPORTED).
Proof. exact open_image_unavailable_l. Qed.
Print Assumptions open_image_unavailable.

(* ---- the -X option string ----
   whatever the string (or NULL): the parser terminates within the fuel it is given, and either fails with a
   diagnostic or returns a configuration whose fields are inside the documented ranges (each of lc, lp <= 4; the JOINT bound lc + lp <= 4 is
   NOT part of [opts_in_range] - independent audit 3, C1; the parser's own lc + lp test is a separate clause) ... *)
Theorem comp_opt_string_total : forall fx id bs o, cfg_init_options fx id bs o <> PFuel.
Proof. exact comp_opt_string_total_l. Qed.
Print Assumptions comp_opt_string_total.

(* ... which create accepts -- for xz / lzma provided the dictionary size has a shape create accepts (the parser only
   tests the range 8 KiB .. 1 MiB; "dictsize=9000" is refused by create, not by the parser) and lies in the range
   (always, when the block size is one a super block can carry); lzo is parsed but never in create's table *)
Theorem comp_opt_string_sound : forall fx avail id bs o c,
  cfg_init_options fx id bs o = POk c ->
  opts_in_range id bs c /\
  (avail id = true ->
   (id = ID_GZIP \/ id = ID_LZ4 \/ id = ID_ZSTD \/
    (id = ID_XZ /\ is_dict_size_valid fx (xz_dict c) = true /\ dict_range_ok (xz_dict c)) \/
    (id = ID_LZMA /\ dict_shape_ok (xz_dict c) = true /\ dict_range_ok (xz_dict c))) ->
   exists st, compressor_create fx avail c = Ok st).
Proof. exact comp_opt_string_sound_l. Qed.
Print Assumptions comp_opt_string_sound.

(* ---- refusal of out-of-range values ----
   create: whatever it accepts lies inside the ranges of the format (literals of doc/format.adoc), so a level / window /
   dictionary size / lc / lp / pb / flag outside is refused *)
Theorem comp_refuses_out_of_range : forall fx avail c st,
  compressor_create fx avail c = Ok st -> cfg_in_range c.
Proof. exact comp_refuses_out_of_range_l. Qed.
Print Assumptions comp_refuses_out_of_range.

(* read_options: gzip level 1..9, window 8..15, strategy bits; xz dictionary shape test and filter bits *)
Theorem gzip_read_refuses : forall fx s img s',
  read_options fx (SGzip s) img = (Ok tt, SGzip s') ->
  1 <= gz_level s' <= 9 /\ 8 <= gz_window s' <= 15 /\ N.ldiff (gz_strategies s') 31 = 0.
Proof. exact gzip_read_refuses_l. Qed.
Print Assumptions gzip_read_refuses.
Theorem xz_read_refuses : forall fx s img s',
  read_options fx (SXz s) img = (Ok tt, SXz s') ->
  is_dict_size_valid fx (xz_dictsz s') = true /\ xz_dictsz s' < two32 /\ N.ldiff (xz_flags s') 319 = 0.
Proof. exact xz_read_refuses_l. Qed.
Print Assumptions xz_read_refuses.
(* the option parser: a value is stored only if it passed the range test of its table row *)
Theorem comp_opt_step_range : forall fx c o v c', step fx c o v = inr c' ->
  (o = None /\ exists name, v = Some name /\ set_flag c name = Some c') \/
  (exists name, o = Some co_OPT_ALG /\ opt_avail (c_id c) co_OPT_ALG = true /\ v = Some name /\ find_lzo_alg c name = Some c') \/
  (exists i ival, o = Some i /\ i <> co_OPT_ALG /\ opt_avail (c_id c) i = true /\
     (fst (range_of (c_id c) i) <= ival <= snd (range_of (c_id c) i))%Z /\ c' = assign c i ival).
Proof. exact step_inv. Qed.
Print Assumptions comp_opt_step_range.

(* ---- findings: the code as found violates the full-strength statements in four places ---- *)
(* F26  xz.c is_dict_size_valid accepts any run of adjacent one bits: create accepts, and write_options stores, a
   dictionary size that is neither 2^n nor 2^n + 2^(n+1) (the Linux kernel refuses to mount such an image) *)
Theorem xz_dict_shape_refuted :
  exists st, compressor_create as_found build_avail w26_cfg = Ok st /\
             write_options st = Ok (fmt_block (fmt_xz 14336 0)) /\ dict_shape_ok (xz_dict w26_cfg) = false.
Proof. exact xz_dict_shape_refuted_l. Qed.
Print Assumptions xz_dict_shape_refuted.
(* with the repaired test create (and read_options) admit exactly the shapes of the format *)
Theorem xz_dict_shape_fixed : forall fx avail c st,
  fx_shape fx = true -> compressor_create fx avail c = Ok st -> c_id c = ID_XZ -> dict_shape_ok (xz_dict c) = true.
Proof. exact xz_dict_shape_fixed_l. Qed.
Print Assumptions xz_dict_shape_fixed.
Theorem xz_read_shape_fixed : forall fx s img s',
  fx_shape fx = true -> read_options fx (SXz s) img = (Ok tt, SXz s') ->
  xz_dictsz s' = 0 \/ dict_shape_ok (xz_dictsz s') = true.
Proof. exact xz_read_shape_fixed_l. Qed.
Print Assumptions xz_read_shape_fixed.
Theorem xz_dict_shape_complete : forall fx d, d < two32 -> dict_shape_ok d = true -> is_dict_size_valid fx d = true.
Proof. exact dict_shape_valid. Qed.
Print Assumptions xz_dict_shape_complete.

(* xz_read_options accepts what xz_compressor_create rejects (dictionary size 0: no range test), both variants;
   harmless for the decoder (it does not use the field), visible through get_configuration (sqfsdiff) *)
Theorem xz_read_accepts_create_rejects_refuted : forall fx,
  exists st0 st1, reader_default fx build_avail ID_XZ 131072 = Ok st0 /\
    read_options fx st0 w_xz_zero_img = (Ok tt, st1) /\
    compressor_create fx build_avail (get_configuration st1) = Err E_UNSUPPORTED.
Proof. exact xz_read_accepts_create_rejects_refuted_l. Qed.
Print Assumptions xz_read_accepts_create_rejects_refuted.

(* F27  parse_size.c does not step over the percent sign: NO string containing one is accepted, so the documented
   "dictsize=<n>%" can never be used *)
Theorem parse_size_percent_refuted : forall fx s reference,
  fx_pct fx = false -> In 37 s -> exists d, parse_size fx s reference = inl d.
Proof. exact parse_size_percent_refuted_l. Qed.
Print Assumptions parse_size_percent_refuted.
Example parse_size_percent_fixed : parse_size repaired s_pct 131072 = inr 65536.
Proof. exact parse_size_percent_fixed_l. Qed.

(* F28  comp_opt.c stores strtol's long and parse_size's size_t into an int and ignores trailing text:
   "level=4294967305" is accepted as level 9, "dictsize=4294975488" as 8192, "level=9x" as 9 *)
Theorem comp_opt_number_altered_refuted :
  (exists c, cfg_init_options as_found ID_XZ 131072 (Some s_level_wrap) = POk c /\ c_level c = 9) /\
  (exists c, cfg_init_options as_found ID_XZ 131072 (Some s_dict_wrap) = POk c /\ xz_dict c = 8192) /\
  (exists c, cfg_init_options as_found ID_XZ 131072 (Some s_level_junk) = POk c /\ c_level c = 9).
Proof. exact comp_opt_number_altered_refuted_l. Qed.
Print Assumptions comp_opt_number_altered_refuted.
Example comp_opt_number_altered_fixed :
  cfg_init_options repaired ID_XZ 131072 (Some s_level_wrap) = PFail (DRange co_OPT_LEVEL 0 9) /\
  cfg_init_options repaired ID_XZ 131072 (Some s_dict_wrap) = PFail (DRange co_OPT_DICT 8192 1048576) /\
  cfg_init_options repaired ID_XZ 131072 (Some s_level_junk) = PFail (DRange co_OPT_LEVEL 0 9).
Proof. exact comp_opt_number_altered_fixed_l. Qed.

(* with the F28 repair a numeric option (level, window, lc, lp, pb) is stored only if its text is an optional minus sign
   and decimal digits whose VALUE lies in the table row's range, and it is that value which is stored *)
Theorem comp_opt_number_faithful_fixed : forall fx c o v c',
  fx_num fx = true -> c_id c < 7 -> step fx c (Some o) (Some v) = inr c' -> o <> co_OPT_ALG -> o <> co_OPT_DICT ->
  exists (neg : bool) ds, v = (if neg then [45] else []) ++ ds /\ ds <> [] /\ Forall (fun ch => c_isdigit ch = true) ds /\
    let z := (if neg then - Z.of_N (dec_prefix ds 0) else Z.of_N (dec_prefix ds 0))%Z in
    (fst (range_of (c_id c) o) <= z <= snd (range_of (c_id c) o))%Z /\ c' = assign c o z.
Proof. exact comp_opt_number_faithful_fixed_l. Qed.
Print Assumptions comp_opt_number_faithful_fixed.

(* ---- the C structs / header limits agree with the format description (doc/format.adoc) ---- *)
Example option_structs_match_format :
  (forall a b c, mk_struct co_sizeof_gzip_options_t
     [(co_off_gzip_options_t_level, co_width_gzip_options_t_level, a);
      (co_off_gzip_options_t_window, co_width_gzip_options_t_window, b);
      (co_off_gzip_options_t_strategies, co_width_gzip_options_t_strategies, c)] = le 4 a ++ le 2 b ++ le 2 c) /\
  (forall a b, mk_struct co_sizeof_xz_options_t
     [(co_off_xz_options_t_dict_size, co_width_xz_options_t_dict_size, a);
      (co_off_xz_options_t_flags, co_width_xz_options_t_flags, b)] = le 4 a ++ le 4 b) /\
  (forall a b, mk_struct co_sizeof_lz4_options
     [(co_off_lz4_options_version, co_width_lz4_options_version, a);
      (co_off_lz4_options_flags, co_width_lz4_options_flags, b)] = le 4 a ++ le 4 b) /\
  (forall a, mk_struct co_sizeof_zstd_options_t [(co_off_zstd_options_t_level, co_width_zstd_options_t_level, a)] = le 4 a).
Proof.
  split; [intros; apply struct_gzip|split; [intros; apply struct_xz|split; [intros; apply struct_lz4|intros; apply struct_zstd]]].
Qed.
Example header_limits_match_format :
  (co_SQFS_GZIP_MIN_LEVEL, co_SQFS_GZIP_MAX_LEVEL, co_SQFS_GZIP_DEFAULT_LEVEL) = (1, 9, 9) /\
  (co_SQFS_GZIP_MIN_WINDOW, co_SQFS_GZIP_MAX_WINDOW, co_SQFS_GZIP_DEFAULT_WINDOW) = (8, 15, 15) /\
  (co_SQFS_XZ_MIN_DICT_SIZE, co_SQFS_XZ_MAX_DICT_SIZE) = (8192, 1048576) /\
  (co_SQFS_ZSTD_MIN_LEVEL, co_SQFS_ZSTD_MAX_LEVEL, co_SQFS_ZSTD_DEFAULT_LEVEL) = (1, 22, 15) /\
  (co_SQFS_COMP_FLAG_GZIP_ALL, N.ldiff co_SQFS_COMP_FLAG_XZ_ALL co_SQFS_COMP_FLAG_XZ_EXTREME, co_SQFS_COMP_FLAG_LZ4_HC,
   co_LZ4LEGACY) = (31, 63, 1, 1) /\
  (co_SQFS_XZ_DEFAULT_LC, co_SQFS_XZ_DEFAULT_LP, co_SQFS_XZ_DEFAULT_PB, co_SQFS_XZ_DEFAULT_LEVEL) = (3, 0, 2, 6) /\
  co_SQFS_ZSTD_MAX_LEVEL <= co_ZSTD_maxCLevel /\
  (* xz and lzma share one member of the union: comp_opt.c writes opt.xz.* for both *)
  (co_off_opt_lzma_dict_size, co_off_opt_lzma_lc, co_off_opt_lzma_lp, co_off_opt_lzma_pb, co_off_opt_lzma_padd0) =
  (co_off_opt_xz_dict_size, co_off_opt_xz_lc, co_off_opt_xz_lp, co_off_opt_xz_pb, co_off_opt_xz_padd0).
Proof. repeat split; vm_compute; congruence. Qed.

(* ---- non-vacuity ---- *)
(* comp_options_rt on two configurations from the command line, with the bytes *)
Example ex_string_gzip : cfg_init_options as_found ID_GZIP 131072 (Some s_gzip_good) = POk ex_cfg_gzip.
Proof. vm_compute. reflexivity. Qed.
Example ex_string_xz : cfg_init_options as_found ID_XZ 131072 (Some s_xz_good) = POk ex_cfg_xz.
Proof. vm_compute. reflexivity. Qed.
Example ex_rt_gzip :
  In (c_bs ex_cfg_gzip) block_sizes /\
  match compressor_create as_found build_avail ex_cfg_gzip with
  | Ok st => is_default st = false /\ write_options st = Ok [8; 128; 3; 0; 0; 0; 10; 0; 8; 0] /\
             match reader_default as_found build_avail ID_GZIP 131072 with
             | Ok st0 => match read_options as_found st0 (ex_super_area ++ [8; 128; 3; 0; 0; 0; 10; 0; 8; 0] ++ [7; 7]) with
                         | (Ok tt, st1) => kept st1 = [3; 10; 8]
                         | _ => False
                         end
             | _ => False
             end
  | _ => False
  end.
Proof. vm_compute. repeat split; auto 10. Qed.
Example ex_rt_xz :
  match compressor_create as_found build_avail ex_cfg_xz with
  | Ok st => is_default st = false /\ write_options st = Ok [8; 128; 0; 0; 1; 0; 1; 0; 0; 0] /\ kept st = [65536; 1]
  | _ => False
  end.
Proof. vm_compute. repeat split. Qed.
(* defaults: nothing is written (hypotheses of comp_default_writes_nothing), except ... *)
Example ex_default_gzip_writes_nothing :
  In 131072 block_sizes /\
  match compressor_create as_found build_avail (snd (config_init ID_GZIP 131072 0)) with
  | Ok st => write_options st = Ok [] | _ => False end.
Proof. vm_compute. split; auto 10. Qed.
Example ex_xz_4096_default_writes :
  match compressor_create as_found build_avail (snd (config_init ID_XZ 4096 0)) with
  | Ok st => write_options st = Ok (fmt_block (fmt_xz 8192 0)) | _ => False end.
Proof. vm_compute. reflexivity. Qed.
(* information the block carries but the reading side drops (no influence on decompression): lz4 HC flag, zstd level *)
Example ex_lz4_hc_not_read_back :
  match compressor_create as_found build_avail (MkCfg ID_LZ4 1 131072 0 zero_opt),
        reader_default as_found build_avail ID_LZ4 131072 with
  | Ok st, Ok st0 => write_options st = Ok (fmt_block (fmt_lz4 1 1)) /\
                     snd (read_options as_found st0 (ex_super_area ++ fmt_block (fmt_lz4 1 1))) = st0
  | _, _ => False
  end.
Proof. vm_compute. split; reflexivity. Qed.
(* hostile options blocks behind a valid super block: out-of-range fields, truncated file, and a good one *)
Example ex_open_hostile :
  (exists st, open_image as_found build_avail ex_img_gzip_hostile = OOptions (Err E_UNSUPPORTED) st) /\
  (exists st, open_image as_found build_avail ex_img_truncated = OOptions (Err E_OOB) st) /\
  (exists st, open_image as_found build_avail ex_img_gzip_opts = OOptions (Ok tt) st /\ kept st = [3; 10; 8]).
Proof. repeat split; eexists; vm_compute; try split; reflexivity. Qed.
(* the option parser refuses values outside its table, with the diagnostic of that row *)
Example ex_string_refused :
  cfg_init_options as_found ID_GZIP 131072 (Some s_level_10) = PFail (DRange co_OPT_LEVEL 1 9) /\
  cfg_init_options as_found ID_GZIP 131072 (Some s_window_16) = PFail (DRange co_OPT_WINDOW 8 15) /\
  cfg_init_options as_found ID_LZ4 131072 (Some s_level_10) = PFail DOpt /\
  cfg_init_options as_found ID_XZ 131072 (Some s_dict_pct) = PFail DSizeSuffix /\
  cfg_init_options as_found 9 131072 None = PFail DInit.
Proof. vm_compute. repeat split. Qed.
(* create refuses the neighbours of the range ends *)
Example ex_create_refuses :
  compressor_create as_found build_avail (MkCfg ID_GZIP 0 131072 10 (og 15)) = Err E_UNSUPPORTED /\
  compressor_create as_found build_avail (MkCfg ID_GZIP 0 131072 0 (og 15)) = Err E_UNSUPPORTED /\
  compressor_create as_found build_avail (MkCfg ID_GZIP 0 131072 9 (og 16)) = Err E_UNSUPPORTED /\
  compressor_create as_found build_avail (MkCfg ID_GZIP 0 131072 9 (og 7)) = Err E_UNSUPPORTED /\
  compressor_create as_found build_avail (MkCfg ID_XZ 0 131072 6 (ox 8191 3 0 2)) = Err E_UNSUPPORTED /\
  compressor_create as_found build_avail (MkCfg ID_XZ 0 131072 6 (ox 1048577 3 0 2)) = Err E_UNSUPPORTED /\
  compressor_create as_found build_avail (MkCfg ID_XZ 0 131072 6 (ox 131072 3 2 2)) = Err E_UNSUPPORTED /\
  compressor_create as_found build_avail (MkCfg ID_XZ 0 131072 6 (ox 131072 3 0 5)) = Err E_UNSUPPORTED /\
  compressor_create as_found build_avail (MkCfg ID_ZSTD 0 131072 23 zero_opt) = Err E_UNSUPPORTED /\
  compressor_create as_found build_avail (MkCfg ID_LZ4 0 131072 1 zero_opt) = Err E_UNSUPPORTED /\
  compressor_create as_found build_avail (MkCfg ID_GZIP 0 131072 9 (setk 1 9 1 (og 15))) = Err E_ARG_INVALID /\
  compressor_create as_found build_avail (MkCfg ID_LZO 0 131072 8 (og 4)) = Err E_UNSUPPORTED.
Proof. vm_compute. repeat split. Qed.
(* the dictionary size accepted by the parser but by create only as found (F26); refused with the repair *)
Example ex_string_dict_shape :
  match cfg_init_options as_found ID_XZ 131072 (Some s_dict_3bits), cfg_init_options repaired ID_XZ 131072 (Some s_dict_3bits) with
  | POk c, POk c' => c = c' /\ xz_dict c = 14336 /\
                     (exists st, compressor_create as_found build_avail c = Ok st) /\
                     compressor_create repaired build_avail c = Err E_UNSUPPORTED
  | _, _ => False
  end.
Proof. vm_compute. repeat split. eexists. reflexivity. Qed.
(* the repaired variant accepts what it should (hypotheses of xz_dict_shape_fixed / comp_opt_number_faithful_fixed) *)
Example ex_repaired_accepts :
  (exists st, compressor_create repaired build_avail ex_cfg_xz = Ok st) /\
  cfg_init_options repaired ID_XZ 131072 (Some s_xz_good) = POk ex_cfg_xz /\
  cfg_init_options repaired ID_GZIP 131072 (Some s_gzip_good) = POk ex_cfg_gzip /\
  (exists c', step repaired (snd (config_init ID_GZIP 131072 0)) (Some co_OPT_LEVEL) (Some [51]) = inr c' /\ c_level c' = 3) /\
  cfg_init_options repaired ID_XZ 131072 (Some s_dict_pct) =
  POk (MkCfg ID_XZ 0 131072 6 (ox 65536 3 0 2)).
Proof. repeat split; try (eexists; vm_compute; try split; reflexivity); vm_compute; reflexivity. Qed.

(* ======================================================================================================
   Wrap: the register width of the array sizes derived from on-disk counts (coq/C05/Wrap.v; strengthening,
   session 3).  The model writes count * element_size in unbounded N; these statements make the obligation
   the C code has to meet explicit, and props/C05/wrap.py generates the images that sit on the boundaries
   named here (2^W / element size for W = 16, 32).
   ====================================================================================================== *)
From SqfsV Require C05.Wrap.

(* no product (and no location-array size derived from one) reaches 2^64 for any value the on-disk
   fields can carry and any block size the super block check admits: the model's unbounded
   arithmetic is size_t arithmetic, there is no 64 bit wrap boundary to test *)
Theorem size_products_fit_size_t :
  forall num fcnt idc fsize bs fi fo cnt esz,
  num < two32 -> fcnt < two32 -> idc < two16 -> fsize < two64 -> c_SQFS_MIN_BLOCK_SIZE <= bs -> esz < two32 ->
  C05.Inode.get_block_count fsize bs fi fo = C05.RBase.Ok cnt ->
  num * C05.Xattr.idsz < 2 ^ 36 /\ 8 * C05.Wrap.blocks_of (num * C05.Xattr.idsz) < 2 ^ 27 /\
  fcnt * sizeof_sqfs_fragment_t < 2 ^ 36 /\ 8 * C05.Wrap.blocks_of (fcnt * sizeof_sqfs_fragment_t) < 2 ^ 27 /\
  idc * 4 < 2 ^ 18 /\ 8 * C05.Wrap.blocks_of (idc * 4) < 2 ^ 9 /\
  C05.Inode.gsz + cnt * 4 < 2 ^ 55 /\
  sizeof_sqfs_dir_index_t + esz + 1 < 2 ^ 33.
Proof. exact C05.Wrap.size_products_fit_size_t_l. Qed.
Print Assumptions size_products_fit_size_t.
Example ex_size_products_hyps :
  C05.Inode.get_block_count 18446744073709551615 4096 C05.RBase.max32 0 = C05.RBase.Ok 4503599627370496.
Proof. vm_compute. reflexivity. Qed.

(* ... but 32 bits are not enough: witnesses a 32 / 64 bit field can carry *)
Theorem xattr_tbl_exceeds_u32 :
  exists num, num < two32 /\ C05.RBase.u32 (num * C05.Xattr.idsz) <> num * C05.Xattr.idsz /\
              C05.RBase.u32 (num * C05.Xattr.idsz) = C05.Xattr.idsz.
Proof. exact C05.Wrap.xattr_tbl_exceeds_u32_l. Qed.
Print Assumptions xattr_tbl_exceeds_u32.
Theorem frag_tbl_exceeds_u32 :
  exists fcnt, fcnt < two32 /\ C05.RBase.u32 (fcnt * sizeof_sqfs_fragment_t) = 0 /\ fcnt * sizeof_sqfs_fragment_t <> 0.
Proof. exact C05.Wrap.frag_tbl_exceeds_u32_l. Qed.
Print Assumptions frag_tbl_exceeds_u32.
Theorem file_blocks_exceed_u32 :
  exists fsize cnt, fsize < two64 /\
    C05.Inode.get_block_count fsize c_SQFS_MIN_BLOCK_SIZE C05.RBase.max32 0 = C05.RBase.Ok cnt /\
    C05.RBase.u32 (cnt * 4) = 8 /\ C05.RBase.alloc_limit < C05.Inode.gsz + cnt * 4.
Proof. exact C05.Wrap.file_blocks_exceed_u32_l. Qed.
Print Assumptions file_blocks_exceed_u32.

(* sqfs_xattr_reader_load with the table size held in a w bit register: identical to the model for
   every w >= 36 (so it keeps the invariant get_desc relies on) ... *)
Theorem xattr_load_w_faithful :
  forall w img s, 36 <= w -> C05.Wrap.xattr_load_w w img s = C05.Xattr.xattr_load img s.
Proof. exact C05.Wrap.xattr_load_w_faithful_l. Qed.
Print Assumptions xattr_load_w_faithful.
Theorem xattr_load_w_inv :
  forall o w img s, 36 <= w -> C05.BaseProofs.post o (C05.Wrap.xattr_load_w w img s) C05.XattrProofs.xr_inv.
Proof. exact C05.Wrap.xattr_load_w_inv_l. Qed.
Print Assumptions xattr_load_w_inv.
(* ... and for w = 32 an image exists that the truncated loader accepts (2^28 + 1 ids, one location)
   although the model refuses it, and whose descriptor 512 -- inside the announced count -- is looked up
   past id_block_starts[] *)
Theorem xattr_load_w32_refuted :
  exists x,
    C05.Wrap.xattr_load_w 32 C05.Wrap.w32_ximg C05.Wrap.w32_xsup = C05.RBase.Ok x /\
    C05.Xattr.x_num_ids x = 268435457 /\ C05.RBase.lenN (C05.Xattr.x_blocks x) = 1 /\
    ~ C05.XattrProofs.xr_inv x /\
    C05.Xattr.xattr_load C05.Wrap.w32_ximg C05.Wrap.w32_xsup = C05.RBase.Err C05.RBase.E_OOB /\
    (forall uc fuel, C05.Xattr.xattr_get_desc uc C05.Wrap.w32_ximg fuel x 512 = C05.RBase.Crash) /\
    (forall uc fixed efuel fuel, C05.Xattr.xattr_read_all uc fixed C05.Wrap.w32_ximg efuel fuel x 512 = C05.RBase.Crash).
Proof. exact C05.Wrap.xattr_load_w32_refuted_l. Qed.
Print Assumptions xattr_load_w32_refuted.

(* the same for sqfs_frag_table_read (the object keeps the announced count beside the raw table) *)
Theorem frag_table_read_w_faithful :
  forall uc img w fuel s, 36 <= w -> C05.Super.s_frag_count s < two32 ->
  match C05.Wrap.frag_table_read_w uc img w fuel s, C05.Super.frag_table_read uc img fuel s with
  | C05.RBase.Ok t, C05.RBase.Ok tbl => fst t = tbl
  | C05.RBase.Err a, C05.RBase.Err b => a = b
  | C05.RBase.Crash, C05.RBase.Crash => True
  | C05.RBase.OutOfFuel, C05.RBase.OutOfFuel => True
  | _, _ => False
  end.
Proof. exact C05.Wrap.frag_table_read_w_faithful_l. Qed.
Print Assumptions frag_table_read_w_faithful.
Theorem frag_lookup_used_eq :
  forall tbl used idx, C05.RBase.lenN tbl = used * sizeof_sqfs_fragment_t ->
  C05.Wrap.frag_lookup_used (tbl, used) idx = C05.Super.frag_lookup tbl idx.
Proof. exact C05.Wrap.frag_lookup_used_eq. Qed.
Print Assumptions frag_lookup_used_eq.
Theorem frag_table_read_w32_refuted :
  forall uc img fuel,
    C05.Wrap.frag_table_read_w uc img 32 fuel C05.Wrap.w32_fsup = C05.RBase.Ok ([], 268435456) /\
    C05.Wrap.frag_lookup_used ([], 268435456) 0 = C05.RBase.Crash /\
    C05.Super.frag_table_read uc img fuel C05.Wrap.w32_fsup = C05.RBase.Err C05.RBase.E_ALLOC.
Proof. exact C05.Wrap.frag_table_read_w32_refuted_l. Qed.
Print Assumptions frag_table_read_w32_refuted.

(* ---- strengthening after seed C05-10: the component loop of sqfs_dir_reader_resolve_path (coq/C05/Lookup.v) ----
   The caller's path is a buffer of exactly strlen+1 bytes ([rdc] = None outside it, answered by LCrash);
   ent->name = the size+1 stored bytes (NUL allowed) + one terminator.  For every directory content, every path and
   every fuel the loop as repaired (compare length = strlen of the stored name) never indexes the path outside its
   buffer, ends within strlen+1 rounds, and a match is an exact match of the component with the C string of the
   stored name; with the compare length taken from the on-disk size field it leaves the buffer (witness). *)
From SqfsV Require C05.Lookup.
Theorem resolve_path_safe :
  forall d path fuel cur, C05.Lookup.nonul path ->
  C05.Lookup.resolve C05.Lookup.LenStrlen d path fuel cur 0 <> C05.Lookup.LCrash.
Proof. exact C05.Lookup.resolve_path_safe_l. Qed.
Print Assumptions resolve_path_safe.
Theorem resolve_path_total :
  forall d path cur, C05.Lookup.nonul path ->
  C05.Lookup.resolve C05.Lookup.LenStrlen d path (S (length path)) cur 0 <> C05.Lookup.LFuel.
Proof. exact C05.Lookup.resolve_path_total_l. Qed.
Print Assumptions resolve_path_total.
Theorem resolve_path_match_exact :
  forall ents path off ref off', C05.Lookup.nonul path -> (off <= length path)%nat ->
  C05.Lookup.scan C05.Lookup.LenStrlen ents path off = Some (Some (ref, off')) ->
  exists name, In (name, ref) ents /\ off' = (off + C05.Lookup.c_strlen name)%nat /\ (off' <= length path)%nat /\
    (forall j, (j < C05.Lookup.c_strlen name)%nat -> nth_error name j = nth_error path (off + j)) /\
    (exists c, C05.Lookup.rdc path off' = Some c /\ (c = 47 \/ c = 0)).
Proof. exact C05.Lookup.scan_match_exact_l. Qed.
Print Assumptions resolve_path_match_exact.
Theorem resolve_path_size_len_refuted :
  C05.Lookup.nonul [97] /\
  C05.Lookup.resolve C05.Lookup.LenSize C05.Lookup.wit_dirs [97] 2 0 0 = C05.Lookup.LCrash /\
  C05.Lookup.resolve C05.Lookup.LenStrlen C05.Lookup.wit_dirs [97] 2 0 0 = C05.Lookup.LOk 1.
Proof. exact C05.Lookup.resolve_size_len_refuted_l. Qed.
Print Assumptions resolve_path_size_len_refuted.
Example resolve_path_ex_nested :
  C05.Lookup.resolve C05.Lookup.LenStrlen C05.Lookup.wit_dirs [47; 97; 47; 47; 120; 47] 7 0 0 = C05.Lookup.LOk 3.
Proof. exact C05.Lookup.resolve_ex_nested. Qed.
Example resolve_path_ex_no_entry :
  C05.Lookup.resolve C05.Lookup.LenStrlen C05.Lookup.wit_dirs [97; 98; 99] 4 0 0 = C05.Lookup.LErr C05.Lookup.ENoEntry.
Proof. exact C05.Lookup.resolve_ex_prefix. Qed.
Example resolve_path_ex_not_dir :
  C05.Lookup.resolve C05.Lookup.LenStrlen C05.Lookup.wit_dirs [97; 98; 47; 120] 5 0 0 = C05.Lookup.LErr C05.Lookup.ENotDir.
Proof. exact C05.Lookup.resolve_ex_notdir. Qed.
