(* C11 — the layers above the native iterator are order independent on their own: the unsorted walk
   (the native iterator as it was before fixes/F09, or any other source of entries) builds the same
   fstree for every enumeration order, provided the hard link filter never fires (it is switched
   off, or no file has two names).  With multiply-linked files it does not: Properties_C11 has the
   witness. *)
From Coq Require Import List NArith ZArith Bool Permutation.
From SqfsV Require Import C11.StrOrder C11.FstreeModel C11.ScanModel C11.OrderProofs C11.CanonProofs
     C11.TreeProofs.
Import ListNotations.

Section ScanLocal.
  Variable fnmatch : list N -> list N -> bool -> bool.
  Variable dflt : fsdefaults.
  Variable cfg : scfg.

  Notation classify := (classify fnmatch cfg).
  Notation walk_node := (walk_node fnmatch dflt cfg).
  Notation walk_list := (walk_list fnmatch dflt cfg).

  (* ------------------------------------------------------------ the walk, tree component only,
     for entries that are not turned into hard links *)

  Fixpoint rwalk_node (pdev : N) (pp : path) (n : hnode) (root : tnode) {struct n} : option tnode :=
    match n with
    | HNode nm s cs =>
      if is_dots nm then Some root else
      let rel := pp ++ [nm] in
      let descend (r : tnode) : option tnode :=
        if enters cfg s then oiter (rwalk_node (h_dev s) rel) cs r else Some r in
      match classify pdev rel s false [] with
      | DSkip => Some root
      | DPass => descend root
      | DDeliver e extra =>
          if negb (parent_ok (e_path e) root) then Some root
          else match add_generic dflt root e extra with
               | None => None
               | Some r => descend r
               end
      end
    end.

  Definition rwalk_list (pdev : N) (pp : path) (l : list hnode) (root : tnode) : option tnode :=
    oiter (rwalk_node pdev pp) l root.

  Lemma rwalk_node_eq : forall pdev pp nm s cs root,
    rwalk_node pdev pp (HNode nm s cs) root =
    if is_dots nm then Some root else
    let rel := pp ++ [nm] in
    let descend (r : tnode) : option tnode :=
      if enters cfg s then rwalk_list (h_dev s) rel cs r else Some r in
    match classify pdev rel s false [] with
    | DSkip => Some root
    | DPass => descend root
    | DDeliver e extra =>
        if negb (parent_ok (e_path e) root) then Some root
        else match add_generic dflt root e extra with
             | None => None
             | Some r => descend r
             end
    end.
  Proof. reflexivity. Qed.

  Lemma walk_node_eq : forall pdev pp nm s cs st,
    walk_node pdev pp (HNode nm s cs) st =
    if is_dots nm then Some st else
    let rel := pp ++ [nm] in
    let '(hard, tgt, hl1) := hl_step cfg s rel (w_hl st) in
    let descend (st' : wstate) : option wstate :=
      if enters cfg s then walk_list (h_dev s) rel cs st' else Some st' in
    match classify pdev rel s hard tgt with
    | DSkip => Some (mkW hl1 (w_fs st) (w_stream st))
    | DPass => descend (mkW hl1 (w_fs st) (w_stream st))
    | DDeliver e extra =>
        if negb (parent_ok (e_path e) (fs_root (w_fs st))) then
          Some (mkW hl1 (w_fs st) (mkSent e extra false :: w_stream st))
        else
          match fs_add dflt (w_fs st) e extra with
          | None => None
          | Some fs' => descend (mkW hl1 fs' (mkSent e extra true :: w_stream st))
          end
    end.
  Proof. reflexivity. Qed.

  (* ------------------------------------------------------------ when the hard link filter is inert *)

  (* (dev, ino) of everything that is not a directory, in walk order *)
  Fixpoint nondir_keys (n : hnode) : list (N * N) :=
    match n with
    | HNode _ s cs =>
        (if ftype_eqb (h_type s) FDir then [] else [(h_dev s, h_ino s)]) ++ flat_map nondir_keys cs
    end.

  Definition hl_keys (m : list ((N * N) * path)) : list (N * N) := map fst m.

  Lemma hl_lookup_none : forall k m, ~ In k (hl_keys m) -> hl_lookup k m = None.
  Proof.
    induction m as [|[[d i] p] r IH]; simpl; intros H; auto.
    destruct (N.eqb d (fst k) && N.eqb i (snd k)) eqn:E.
    - apply andb_true_iff in E. destruct E as [E1 E2].
      apply N.eqb_eq in E1. apply N.eqb_eq in E2. exfalso. apply H. left.
      destruct k; simpl in *; subst; reflexivity.
    - apply IH. intros Hin. apply H. right. exact Hin.
  Qed.

  (* the filter is off, or no (dev, ino) pair occurs twice and none is in the map yet *)
  Definition inert_for (keys : list (N * N)) (hl : list ((N * N) * path)) : Prop :=
    c_nohl cfg = true \/ (NoDup keys /\ forall k, In k keys -> ~ In k (hl_keys hl)).

  Lemma NoDup_app_disjoint : forall (A : Type) (l1 l2 : list A),
    NoDup (l1 ++ l2) -> forall k, In k l1 -> ~ In k l2.
  Proof.
    induction l1 as [|a l1 IH]; simpl; intros l2 Hn k Hin; [contradiction|].
    inversion Hn as [|? ? Ha Hn']; subst. destruct Hin as [E|Hin].
    - subst. intros H2. apply Ha. apply in_or_app. right. exact H2.
    - apply IH; auto.
  Qed.

  Lemma NoDup_app_l : forall (A : Type) (l1 l2 : list A), NoDup (l1 ++ l2) -> NoDup l1.
  Proof.
    induction l1 as [|a l1 IH]; simpl; intros l2 Hn; [constructor|].
    inversion Hn as [|? ? Ha Hn']; subst. constructor.
    - intros H. apply Ha. apply in_or_app. left. exact H.
    - eapply IH; eauto.
  Qed.

  Lemma NoDup_app_r : forall (A : Type) (l1 l2 : list A), NoDup (l1 ++ l2) -> NoDup l2.
  Proof.
    induction l1 as [|a l1 IH]; simpl; intros l2 Hn; auto.
    inversion Hn; subst. auto.
  Qed.

  Lemma inert_app_l : forall k1 k2 hl, inert_for (k1 ++ k2) hl -> inert_for k1 hl.
  Proof.
    intros k1 k2 hl [H|[Hn Hd]]; [left; exact H|right]. split.
    - eapply NoDup_app_l; eauto.
    - intros k Hk. apply Hd. apply in_or_app. left. exact Hk.
  Qed.

  Lemma inert_app_r : forall k1 k2 hl hl',
    inert_for (k1 ++ k2) hl ->
    (forall k, In k (hl_keys hl') -> In k (hl_keys hl) \/ In k k1) ->
    inert_for k2 hl'.
  Proof.
    intros k1 k2 hl hl' [H|[Hn Hd]] Hsub; [left; exact H|right]. split.
    - eapply NoDup_app_r; eauto.
    - intros k Hk Hin. destruct (Hsub k Hin) as [H1|H1].
      + apply (Hd k); auto. apply in_or_app. right. exact Hk.
      + eapply NoDup_app_disjoint; eauto.
  Qed.

  Lemma hl_step_inert : forall s rel hl,
    inert_for (if ftype_eqb (h_type s) FDir then [] else [(h_dev s, h_ino s)]) hl ->
    exists hl', hl_step cfg s rel hl = (false, [], hl') /\
      forall k, In k (hl_keys hl') ->
        In k (hl_keys hl) \/ In k (if ftype_eqb (h_type s) FDir then [] else [(h_dev s, h_ino s)]).
  Proof.
    intros s rel hl H. unfold hl_step.
    destruct H as [H|[Hn Hd]].
    - rewrite H. simpl. exists hl. split; auto.
    - destruct (ftype_eqb (h_type s) FDir) eqn:D.
      + rewrite orb_true_r. exists hl. split; auto.
      + rewrite orb_false_r. destruct (c_nohl cfg).
        * exists hl. split; auto.
        * rewrite hl_lookup_none by (apply Hd; left; reflexivity).
          eexists. split; [reflexivity|]. simpl. intros k [E|Hin]; [right; left; exact E | left; exact Hin].
  Qed.

  Lemma classify_hard : forall pdev rel s hard tgt e extra,
    classify pdev rel s hard tgt = DDeliver e extra -> e_hard e = hard /\ e_path e = c_prefix cfg ++ rel.
  Proof.
    intros pdev rel s hard tgt e extra. unfold ScanModel.classify.
    destruct (_ || _); [discriminate|].
    destruct (_ && _); [discriminate|].
    destruct (negb _); [discriminate|].
    intros H. inversion H; subst. simpl. auto.
  Qed.

  (* what the simulation preserves *)
  Definition sim_result (keys : list (N * N)) (st : wstate) (r : option wstate) (r0 : option tnode) : Prop :=
    match r with
    | Some st' =>
        r0 = Some (fs_root (w_fs st')) /\ fs_unres (w_fs st') = fs_unres (w_fs st) /\
        (forall k, In k (hl_keys (w_hl st')) -> In k (hl_keys (w_hl st)) \/ In k keys)
    | None => r0 = None
    end.

  Definition sim_node (n : hnode) : Prop :=
    forall pdev pp st, inert_for (nondir_keys n) (w_hl st) ->
    sim_result (nondir_keys n) st (walk_node pdev pp n st) (rwalk_node pdev pp n (fs_root (w_fs st))).

  Lemma walk_list_sim : forall l, Forall sim_node l ->
    forall pdev pp st, inert_for (flat_map nondir_keys l) (w_hl st) ->
    sim_result (flat_map nondir_keys l) st (walk_list pdev pp l st) (rwalk_list pdev pp l (fs_root (w_fs st))).
  Proof.
    induction 1 as [|c r Hc Hr IH]; intros pdev pp st Hin.
    - simpl. auto.
    - unfold ScanModel.walk_list, rwalk_list. simpl oiter. simpl flat_map in *.
      pose proof (Hc pdev pp st (inert_app_l _ _ _ Hin)) as Sc. unfold sim_result in Sc.
      destruct (ScanModel.walk_node fnmatch dflt cfg pdev pp c st) as [st1|].
      + destruct Sc as [R1 [U1 K1]]. rewrite R1.
        pose proof (IH pdev pp st1 (inert_app_r _ _ _ _ Hin K1)) as Sr.
        unfold sim_result, ScanModel.walk_list, rwalk_list in *.
        destruct (oiter (ScanModel.walk_node fnmatch dflt cfg pdev pp) r st1) as [st2|].
        * destruct Sr as [R2 [U2 K2]]. split; [exact R2|]. split; [congruence|].
          intros k Hk. destruct (K2 k Hk) as [H1|H1].
          -- destruct (K1 k H1) as [H2|H2]; [left; exact H2|right; apply in_or_app; left; exact H2].
          -- right. apply in_or_app. right. exact H1.
        * exact Sr.
      + rewrite Sc. reflexivity.
  Qed.

  Lemma walk_node_sim : forall n, sim_node n.
  Proof.
    induction n as [nm s cs IH] using hnode_ind'. intros pdev pp st Hin.
    rewrite walk_node_eq, rwalk_node_eq.
    destruct (is_dots nm).
    - simpl. auto.
    - cbv zeta. simpl nondir_keys in *.
      destruct (hl_step_inert s (pp ++ [nm]) (w_hl st) (inert_app_l _ _ _ Hin)) as [hl1 [Hstep Hk1]].
      rewrite Hstep.
      assert (Hkids : forall fs' str,
                 inert_for (flat_map nondir_keys cs) (w_hl (mkW hl1 fs' str))).
      { intros. simpl. eapply inert_app_r; eauto. }
      assert (Hdesc : forall fs' str,
                 sim_result ((if ftype_eqb (h_type s) FDir then [] else [(h_dev s, h_ino s)]) ++ flat_map nondir_keys cs)
                            (mkW (w_hl st) fs' str)
                            (if enters cfg s then walk_list (h_dev s) (pp ++ [nm]) cs (mkW hl1 fs' str) else Some (mkW hl1 fs' str))
                            (if enters cfg s then rwalk_list (h_dev s) (pp ++ [nm]) cs (fs_root fs') else Some (fs_root fs'))).
      { intros fs' str. destruct (enters cfg s).
        - pose proof (walk_list_sim cs IH (h_dev s) (pp ++ [nm]) (mkW hl1 fs' str) (Hkids fs' str)) as S.
          unfold sim_result in *. simpl in *.
          destruct (ScanModel.walk_list fnmatch dflt cfg (h_dev s) (pp ++ [nm]) cs (mkW hl1 fs' str)) as [st2|]; auto.
          destruct S as [R [U K]]. split; [exact R|]. split; [exact U|].
          intros k Hk. destruct (K k Hk) as [H1|H1].
          + destruct (Hk1 k H1) as [H2|H2]; [left; exact H2|right; apply in_or_app; left; exact H2].
          + right. apply in_or_app. right. exact H1.
        - simpl. split; [reflexivity|]. split; [reflexivity|].
          intros k Hk. destruct (Hk1 k Hk) as [H2|H2]; [left; exact H2|right; apply in_or_app; left; exact H2]. }
      destruct (classify pdev (pp ++ [nm]) s false []) as [| |e extra] eqn:C.
      + simpl. split; [reflexivity|]. split; [reflexivity|].
        intros k Hk. destruct (Hk1 k Hk) as [H2|H2]; [left; exact H2|right; apply in_or_app; left; exact H2].
      + pose proof (Hdesc (w_fs st) (w_stream st)) as S. exact S.
      + destruct (classify_hard _ _ _ _ _ _ _ C) as [Hh _].
        destruct (negb (parent_ok (e_path e) (fs_root (w_fs st)))).
        * simpl. split; [reflexivity|]. split; [reflexivity|].
          intros k Hk. destruct (Hk1 k Hk) as [H2|H2]; [left; exact H2|right; apply in_or_app; left; exact H2].
        * unfold fs_add. rewrite Hh. simpl andb.
          destruct (add_generic dflt (fs_root (w_fs st)) e extra) as [r|]; [|reflexivity].
          pose proof (Hdesc (mkFs r (fs_unres (w_fs st))) (mkSent e extra true :: w_stream st)) as S.
          exact S.
  Qed.

  (* ------------------------------------------------------------ the walk as operations on one child *)

  Lemma mknode_name : forall nm e extra x, mknode nm e extra = Some x -> node_name x = nm.
  Proof.
    intros nm e extra x. unfold mknode.
    destruct (if e_hard e then _ else _); [|discriminate].
    intros H. inversion H. reflexivity.
  Qed.

  Lemma fill_dir_props : forall x e x1,
    fill_dir x e = Some x1 -> node_name x1 = node_name x /\ is_dir x1 = true.
  Proof.
    intros [nm a ch] e x1. simpl.
    destruct (_ && _); [|discriminate]. intros H. inversion H. auto.
  Qed.

  Lemma add_path_single : forall nm e extra dn a ch,
    ftype_eqb (a_type a) FDir = true ->
    add_path dflt [nm] e extra (TNode dn a ch) =
    match find_child nm ch with
    | Some x => match fill_dir x e with
                | Some x' => Some (TNode dn a (replace_child nm x' ch))
                | None => None
                end
    | None => match mknode nm e extra with
              | Some x => Some (TNode dn (inc_links a) (insert_sorted x ch))
              | None => None
              end
    end.
  Proof. intros. cbn [add_path]. rewrite H. reflexivity. Qed.

  Definition add_here (nm : name) (e : gent) (extra : option (list N)) (d : tnode) : option tnode :=
    if ftype_eqb (e_type e) FLnk && is_none extra then None else add_path dflt [nm] e extra d.

  Lemma add_here_keeps : forall nm e extra, keeps (add_here nm e extra).
  Proof.
    intros nm e extra [dn a ch] d' Hd. unfold add_here.
    destruct (_ && _); [discriminate|].
    unfold is_dir in Hd. simpl in Hd. rewrite add_path_single by exact Hd.
    destruct (find_child nm ch).
    - destruct (fill_dir t e); [|discriminate]. intros H. inversion H. auto.
    - destruct (mknode nm e extra); [|discriminate]. intros H. inversion H. auto.
  Qed.

  Lemma add_generic_local : forall P nm e extra root,
    e_path e = P ++ [nm] ->
    add_generic dflt root e extra =
    match dir_at P root with
    | Some d => option_map (fun d' => subst_at P d' root) (add_here nm e extra d)
    | None => add_generic dflt root e extra
    end.
  Proof.
    intros P nm e extra root Hp. destruct (dir_at P root) as [d|] eqn:D; auto.
    unfold add_generic, add_here. rewrite Hp.
    replace (match extra with None => true | Some _ => false end) with (is_none extra) by (destruct extra; reflexivity).
    destruct (ftype_eqb (e_type e) FLnk && is_none extra); auto.
    destruct (P ++ [nm]) eqn:E; [destruct P; discriminate|]. rewrite <- E.
    apply add_path_local. exact D.
  Qed.

  (* enter the sub directory that is (now) the child *)
  Definition ldescend (enter : bool) (g : tnode -> option tnode) (cur : option tnode) : option (option tnode) :=
    if enter then
      match cur with
      | Some x => if is_dir x then option_map Some (g x) else Some cur
      | None => Some None
      end
    else Some cur.

  (* fstree_add_generic for the child, then k *)
  Definition ldeliver (nm : name) (e : gent) (extra : option (list N))
             (k : option tnode -> option (option tnode)) (cur : option tnode) : option (option tnode) :=
    if ftype_eqb (e_type e) FLnk && is_none extra then None
    else match cur with
         | Some x => match fill_dir x e with Some x1 => k (Some x1) | None => None end
         | None => match mknode nm e extra with Some x1 => k (Some x1) | None => None end
         end.

  (* everything the walk of the host node n does to the fstree directory that corresponds to n's
     parent directory, as an operation on that directory's child of the same name *)
  Fixpoint lop (pdev : N) (pp : path) (n : hnode) {struct n} : local_op :=
    match n with
    | HNode nm s cs =>
        fun cur =>
        if is_dots nm then Some cur else
        let g := lfold hname (lop (h_dev s) (pp ++ [nm])) cs in
        match classify pdev (pp ++ [nm]) s false [] with
        | DSkip => Some cur
        | DPass => ldescend (enters cfg s) g cur
        | DDeliver e extra => ldeliver nm e extra (ldescend (enters cfg s) g) cur
        end
    end.

  Lemma apply_local_id : forall a F d, (forall cur, F cur = Some cur) -> apply_local a F d = Some d.
  Proof.
    intros a F [nm ta ch] H. simpl. destruct (find_child a ch) as [x|] eqn:E; rewrite H; auto.
    rewrite replace_child_same; auto.
  Qed.

  Lemma apply_local_ext : forall a F G d, (forall cur, F cur = G cur) -> apply_local a F d = apply_local a G d.
  Proof.
    intros a F G [nm ta ch] H. simpl. destruct (find_child a ch); rewrite H; reflexivity.
  Qed.

  Lemma at_path_id : forall P f root, (forall d, is_dir d = true -> f d = Some d) -> at_path P f root = Some root.
  Proof.
    intros P f root H. unfold at_path. destruct (dir_at P root) as [d|] eqn:D; auto.
    rewrite (H d (dir_at_is_dir _ _ _ D)). simpl. rewrite (subst_at_self _ _ _ D). reflexivity.
  Qed.

  Lemma ldescend_local : forall nm enter g d,
    apply_local nm (ldescend enter g) d = if enter then at_child nm g d else Some d.
  Proof.
    intros nm enter g [dn a ch]. destruct enter.
    - simpl. destruct (find_child nm ch) as [x|] eqn:E; auto.
      destruct (is_dir x).
      + destruct (g x); reflexivity.
      + rewrite replace_child_same; auto.
    - apply apply_local_id. reflexivity.
  Qed.

  Lemma ldeliver_local : forall nm e extra enter g d,
    is_dir d = true -> keeps g ->
    apply_local nm (ldeliver nm e extra (ldescend enter g)) d =
    obind (add_here nm e extra d) (fun d1 => if enter then at_child nm g d1 else Some d1).
  Proof.
    intros nm e extra enter g [dn a ch] Hd Hg. unfold add_here, ldeliver.
    unfold is_dir in Hd. simpl in Hd.
    cbn [apply_local].
    destruct (ftype_eqb (e_type e) FLnk && is_none extra).
    - destruct (find_child nm ch); reflexivity.
    - rewrite add_path_single by exact Hd.
      destruct (find_child nm ch) as [x|] eqn:Fc.
      + destruct (fill_dir x e) as [x1|] eqn:Ff; [|reflexivity].
        destruct (fill_dir_props _ _ _ Ff) as [Hn1 Hd1].
        assert (Hn1' : node_name x1 = nm) by (rewrite Hn1; eapply find_child_name; eauto).
        unfold ldescend. destruct enter; simpl.
        * rewrite (find_child_replace_same nm x1 ch x Fc Hn1'), Hd1.
          destruct (g x1) as [x2|]; simpl; auto.
          rewrite replace_replace_same; auto.
        * reflexivity.
      + destruct (mknode nm e extra) as [x1|] eqn:Fm; [|reflexivity].
        pose proof (mknode_name _ _ _ _ Fm) as Hn1.
        unfold ldescend. destruct enter; simpl.
        * rewrite (find_child_insert_same nm x1 ch Hn1 Fc).
          destruct (is_dir x1) eqn:Hd1; auto.
          destruct (g x1) as [x2|] eqn:G1; simpl; auto.
          destruct (Hg x1 x2 Hd1 G1) as [_ Hn2].
          rewrite (replace_insert_same nm x1 x2 ch); auto. congruence.
        * reflexivity.
  Qed.

  Lemma lop_eq : forall pdev pp nm s cs cur,
    lop pdev pp (HNode nm s cs) cur =
    if is_dots nm then Some cur else
    let g := lfold hname (lop (h_dev s) (pp ++ [nm])) cs in
    match classify pdev (pp ++ [nm]) s false [] with
    | DSkip => Some cur
    | DPass => ldescend (enters cfg s) g cur
    | DDeliver e extra => ldeliver nm e extra (ldescend (enters cfg s) g) cur
    end.
  Proof. reflexivity. Qed.

  Definition local_node (n : hnode) : Prop :=
    forall pdev pp root,
      rwalk_node pdev pp n root = at_path (c_prefix cfg ++ pp) (apply_local (hname n) (lop pdev pp n)) root.

  Lemma rwalk_list_local : forall l, Forall local_node l ->
    forall pdev pp root,
      rwalk_list pdev pp l root = at_path (c_prefix cfg ++ pp) (lfold hname (lop pdev pp) l) root.
  Proof.
    induction 1 as [|c r Hc Hr IH]; intros pdev pp root.
    - simpl. symmetry. apply at_path_id. reflexivity.
    - unfold rwalk_list in *. simpl oiter. rewrite (Hc pdev pp root).
      cbn [lfold].
      rewrite <- (at_path_compose _ _ _ root (apply_local_keeps (hname c) (lop pdev pp c))).
      destruct (at_path (c_prefix cfg ++ pp) (apply_local (hname c) (lop pdev pp c)) root) as [r1|]; simpl; auto.
  Qed.

  Lemma rwalk_node_local : forall n, local_node n.
  Proof.
    induction n as [nm s cs IH] using hnode_ind'. intros pdev pp root.
    set (P := c_prefix cfg ++ pp).
    set (g := lfold hname (lop (h_dev s) (pp ++ [nm])) cs).
    assert (Hkids : forall r, rwalk_list (h_dev s) (pp ++ [nm]) cs r = at_path P (at_child nm g) r).
    { intros r. rewrite (rwalk_list_local cs IH). rewrite app_assoc. apply at_path_app1. }
    assert (Hg : keeps g) by (apply lfold_keeps).
    rewrite rwalk_node_eq. simpl hname.
    destruct (is_dots nm) eqn:Dots.
    - symmetry. apply at_path_id. intros d _. apply apply_local_id. intros cur.
      rewrite lop_eq, Dots. reflexivity.
    - cbv zeta.
      destruct (classify pdev (pp ++ [nm]) s false []) as [| |e extra] eqn:C.
      + symmetry. apply at_path_id. intros d _. apply apply_local_id. intros cur.
        rewrite lop_eq, Dots. cbv zeta. rewrite C. reflexivity.
      + transitivity (at_path P (fun d => if enters cfg s then at_child nm g d else Some d) root).
        * destruct (enters cfg s).
          -- apply Hkids.
          -- symmetry. apply at_path_id. reflexivity.
        * apply at_path_ext. intros d _. rewrite <- ldescend_local.
          apply apply_local_ext. intros cur. rewrite lop_eq, Dots. cbv zeta. rewrite C. reflexivity.
      + destruct (classify_hard _ _ _ _ _ _ _ C) as [_ Hp].
        assert (Hp' : e_path e = P ++ [nm]) by (rewrite Hp; unfold P; rewrite app_assoc; reflexivity).
        transitivity (at_path P (fun d => obind (add_here nm e extra d)
                                               (fun d1 => if enters cfg s then at_child nm g d1 else Some d1)) root).
        * rewrite Hp', parent_ok_dir_at.
          rewrite (add_generic_local P nm e extra root Hp').
          unfold at_path at 1.
          destruct (dir_at P root) as [d|] eqn:D; simpl; [|reflexivity].
          destruct (add_here nm e extra d) as [d1|] eqn:A; simpl; [|reflexivity].
          destruct (add_here_keeps nm e extra d d1 (dir_at_is_dir _ _ _ D) A) as [Hd1 Hn1].
          destruct (enters cfg s).
          -- rewrite Hkids. unfold at_path. rewrite (dir_at_subst P root d d1 D Hd1 Hn1).
             destruct (at_child nm g d1) as [d2|]; simpl; auto.
             rewrite (subst_subst P root d d1 d2 D Hn1). reflexivity.
          -- reflexivity.
        * apply at_path_ext. intros d Hd. rewrite <- (ldeliver_local nm e extra (enters cfg s) g d Hd Hg).
          apply apply_local_ext. intros cur. rewrite lop_eq, Dots. cbv zeta. rewrite C. reflexivity.
  Qed.

  (* ------------------------------------------------------------ order independence *)

  Lemma ldescend_name : forall nm enter g cur x',
    keeps g ->
    match cur with Some x => node_name x = nm | None => True end ->
    ldescend enter g cur = Some (Some x') -> node_name x' = nm.
  Proof.
    intros nm enter g cur x' Hg Hc. unfold ldescend. destruct enter.
    - destruct cur as [x|]; [|discriminate].
      destruct (is_dir x) eqn:D.
      + destruct (g x) as [x2|] eqn:G; simpl; [|discriminate]. intros H. inversion H as [H1].
        rewrite H1 in G. destruct (Hg x x' D G) as [_ Hn]. simpl in Hc. congruence.
      + intros H. inversion H as [H1]. rewrite <- H1. exact Hc.
    - intros H. inversion H as [H1]. rewrite H1 in Hc. exact Hc.
  Qed.

  Lemma lop_wf : forall n pdev pp, local_wf (hname n) (lop pdev pp n).
  Proof.
    intros [nm s cs] pdev pp. unfold local_wf. intros cur x' Hc. simpl hname in *. rewrite lop_eq.
    destruct (is_dots nm); [intros H; inversion H as [H1]; rewrite H1 in Hc; exact Hc|].
    cbv zeta.
    assert (Hg : keeps (lfold hname (lop (h_dev s) (pp ++ [nm])) cs)) by apply lfold_keeps.
    destruct (classify pdev (pp ++ [nm]) s false []) as [| |e extra].
    - intros H; inversion H as [H1]; rewrite H1 in Hc; exact Hc.
    - apply ldescend_name; auto.
    - unfold ldeliver. destruct (_ && _); [discriminate|].
      destruct cur as [x|].
      + destruct (fill_dir x e) as [x1|] eqn:Ff; [|discriminate].
        destruct (fill_dir_props _ _ _ Ff) as [Hn1 _].
        apply ldescend_name; auto. simpl. congruence.
      + destruct (mknode nm e extra) as [x1|] eqn:Fm; [|discriminate].
        apply ldescend_name; auto. simpl. eapply mknode_name; eauto.
  Qed.

  Lemma ldescend_ext : forall enter g g' cur,
    (forall x, g x = g' x) -> ldescend enter g cur = ldescend enter g' cur.
  Proof.
    intros enter g g' cur H. unfold ldescend. destruct enter; auto.
    destruct cur as [x|]; auto. rewrite H. reflexivity.
  Qed.

  Lemma lfold_ext2 : forall (op op' : hnode -> local_op) l l',
    Forall2 (fun a b => hname a = hname b /\ forall cur, op a cur = op' b cur) l l' ->
    forall d, lfold hname op l d = lfold hname op' l' d.
  Proof.
    induction 1 as [|a b l l' [Hn Ho] HF IH]; intros d; simpl; auto.
    rewrite Hn, (apply_local_ext (hname b) (op a) (op' b) d Ho).
    destruct (apply_local (hname b) (op' b) d); simpl; auto.
  Qed.

  Definition lop_stable (c : hnode) : Prop :=
    hwf c -> forall c', hperm c c' -> forall pdev pp cur, lop pdev pp c cur = lop pdev pp c' cur.

  Lemma lfold_hperm : forall cs cs1 cs',
    Forall lop_stable cs -> Forall hwf cs -> NoDup (map hname cs) ->
    Forall2 hperm cs cs1 -> Permutation cs1 cs' ->
    forall pdev pp d, lfold hname (lop pdev pp) cs d = lfold hname (lop pdev pp) cs' d.
  Proof.
    intros cs cs1 cs' Hst Hwf Hn HF HP pdev pp d.
    transitivity (lfold hname (lop pdev pp) cs1 d).
    - apply lfold_ext2. clear Hn HP. revert Hst Hwf.
      induction HF as [|a b l l' Hab HF IH]; intros Hst Hwf; constructor.
      + inversion Hst; subst. inversion Hwf; subst. split.
        * apply hperm_name. exact Hab.
        * intros cur. apply H1; auto.
      + inversion Hst; subst. inversion Hwf; subst. apply IH; auto.
    - apply lfold_perm; auto.
      + rewrite (Forall2_hperm_names _ _ HF). exact Hn.
      + intros c _. apply lop_wf.
  Qed.

  Lemma lop_hperm : forall c, lop_stable c.
  Proof.
    induction c as [nm s cs IH] using hnode_ind'. intros Hw c' Hp pdev pp cur.
    inversion Hp as [? ? ? cs1 cs' HF HP]; subst. inversion Hw as [? ? ? Hn Hws]; subst.
    rewrite !lop_eq. destruct (is_dots nm); auto. cbv zeta.
    assert (Hg : forall x, lfold hname (lop (h_dev s) (pp ++ [nm])) cs x =
                           lfold hname (lop (h_dev s) (pp ++ [nm])) cs' x).
    { intros x. eapply lfold_hperm; eauto. }
    destruct (classify pdev (pp ++ [nm]) s false []) as [| |e extra]; auto.
    - apply ldescend_ext. exact Hg.
    - unfold ldeliver. destruct (_ && _); auto.
      destruct cur as [x|].
      + destruct (fill_dir x e); auto. apply ldescend_ext. exact Hg.
      + destruct (mknode nm e extra); auto. apply ldescend_ext. exact Hg.
  Qed.

  Lemma rwalk_hperm : forall t t' root,
    hwf t -> hperm t t' ->
    rwalk_list (h_dev (hstat_of t)) [] (hchildren t) root =
    rwalk_list (h_dev (hstat_of t')) [] (hchildren t') root.
  Proof.
    intros t t' root Hw Hp.
    inversion Hp as [nm s cs cs1 cs' HF HP]; subst. inversion Hw as [? ? ? Hn Hws]; subst. simpl.
    assert (Hall : forall l, Forall local_node l).
    { intros l. apply Forall_forall. intros x _. apply rwalk_node_local. }
    rewrite !(rwalk_list_local _ (Hall _)).
    apply at_path_ext. intros d _.
    eapply lfold_hperm; eauto.
    apply Forall_forall. intros x _. apply lop_hperm.
  Qed.

  Lemma nondir_keys_hperm : forall t t', hperm t t' -> Permutation (nondir_keys t) (nondir_keys t').
  Proof.
    induction t as [nm s cs IH] using hnode_ind'. intros t' Hp.
    inversion Hp as [? ? ? cs1 cs' HF HP]; subst. simpl.
    apply Permutation_app_head.
    transitivity (flat_map nondir_keys cs1).
    - clear HP Hp. revert IH. induction HF as [|a b l l' Hab HF IHF]; intros IH; simpl; auto.
      inversion IH; subst. apply Permutation_app; auto.
    - apply Permutation_flat_map. exact HP.
  Qed.

  Definition no_multilinks (t : hnode) : Prop := NoDup (nondir_keys t).

  Lemma scan_dir_unsorted_root : forall t fs,
    (c_nohl cfg = true \/ no_multilinks t) ->
    option_map fst (scan_dir fnmatch dflt cfg false t fs) =
    option_map (fun r => mkFs r (fs_unres fs))
               (rwalk_list (h_dev (hstat_of t)) [] (hchildren t) (fs_root fs)).
  Proof.
    intros [nm s cs] fs H. unfold scan_dir. simpl.
    assert (Hin : inert_for (flat_map nondir_keys cs) (w_hl (mkW [] fs []))).
    { destruct H as [H|H]; [left; exact H|right]. split.
      - unfold no_multilinks in H. simpl in H. eapply NoDup_app_r; eauto.
      - intros k _ []. }
    assert (Hall : Forall sim_node cs) by (apply Forall_forall; intros x _; apply walk_node_sim).
    pose proof (walk_list_sim cs Hall (h_dev s) [] (mkW [] fs []) Hin) as S.
    unfold sim_result in S. simpl in S.
    destruct (ScanModel.walk_list fnmatch dflt cfg (h_dev s) [] cs (mkW [] fs [])) as [st|].
    - destruct S as [R [U _]]. rewrite R. simpl. f_equal.
      destruct (w_fs st) as [r u]. simpl in *. congruence.
    - rewrite S. reflexivity.
  Qed.

  (* scan_order_free_nolinks *)
  Lemma scan_order_free_nolinks_l : forall t t' fs,
    hwf t -> hperm t t' -> (c_nohl cfg = true \/ no_multilinks t) ->
    option_map fst (scan_dir fnmatch dflt cfg false t fs) =
    option_map fst (scan_dir fnmatch dflt cfg false t' fs).
  Proof.
    intros t t' fs Hw Hp H.
    rewrite (scan_dir_unsorted_root t fs H).
    rewrite (scan_dir_unsorted_root t' fs).
    - rewrite (rwalk_hperm t t' (fs_root fs) Hw Hp). reflexivity.
    - destruct H as [H|H]; [left; exact H|right].
      unfold no_multilinks in *. eapply Permutation_NoDup; [apply nondir_keys_hperm; exact Hp | exact H].
  Qed.

  Lemma hperm_canon : forall t, hperm t (canon t).
  Proof.
    induction t as [nm s cs IH] using hnode_ind'. simpl.
    apply hperm_node with (cs1 := map canon cs).
    - induction IH; simpl; constructor; auto.
    - apply Permutation_sym, sort_h_perm.
  Qed.

  (* the repair does not change what is built from a tree whose files have one name each *)
  Lemma fix_preserves_nolinks_l : forall t fs,
    hwf t -> (c_nohl cfg = true \/ no_multilinks t) ->
    option_map fst (scan_dir fnmatch dflt cfg true t fs) =
    option_map fst (scan_dir fnmatch dflt cfg false t fs).
  Proof.
    intros t fs Hw H.
    rewrite (scan_order_free_nolinks_l t (canon t) fs Hw (hperm_canon t) H).
    unfold scan_dir. reflexivity.
  Qed.
End ScanLocal.
