(* C11 — strcmp on NUL-free byte strings, as a total order on [list N].
   Model of the comparison used by insert_sorted (lib/fstree/src/fstree.c) and by the
   sorting native directory iterator (lib/sqfs/src/io/dir_unix.c, compare_names). *)
From Coq Require Import List NArith Bool.
Import ListNotations.
Local Open Scope N_scope.

Definition name := list N.

(* strcmp(a, b) compares unsigned bytes; the terminating NUL makes a proper prefix smaller. *)
Fixpoint str_cmp (a b : name) : comparison :=
  match a, b with
  | [], [] => Eq
  | [], _ :: _ => Lt
  | _ :: _, [] => Gt
  | x :: a', y :: b' =>
      match N.compare x y with
      | Eq => str_cmp a' b'
      | c => c
      end
  end.

(* strcmp(a, b) < 0 *)
Definition str_ltb (a b : name) : bool :=
  match str_cmp a b with Lt => true | _ => false end.

(* strcmp(a, b) == 0 *)
Definition str_eqb (a b : name) : bool :=
  match str_cmp a b with Eq => true | _ => false end.

Definition str_lt (a b : name) : Prop := str_cmp a b = Lt.

Lemma str_cmp_refl : forall a, str_cmp a a = Eq.
Proof.
  induction a as [|x a IH]; simpl; auto.
  rewrite N.compare_refl. exact IH.
Qed.

Lemma str_cmp_eq : forall a b, str_cmp a b = Eq -> a = b.
Proof.
  induction a as [|x a IH]; destruct b as [|y b]; simpl; intros H; try discriminate; auto.
  destruct (N.compare x y) eqn:E; try discriminate.
  apply N.compare_eq in E. subst. f_equal. auto.
Qed.

Lemma str_cmp_antisym : forall a b, str_cmp b a = CompOpp (str_cmp a b).
Proof.
  induction a as [|x a IH]; destruct b as [|y b]; simpl; auto.
  rewrite (N.compare_antisym x y).
  destruct (N.compare x y); simpl; auto.
Qed.

Lemma str_lt_trans : forall a b c, str_lt a b -> str_lt b c -> str_lt a c.
Proof.
  unfold str_lt.
  induction a as [|x a IH]; destruct b as [|y b]; destruct c as [|z c]; simpl; intros H1 H2;
    try discriminate; auto.
  destruct (N.compare x y) eqn:E1; try discriminate.
  - apply N.compare_eq in E1. subst y.
    destruct (N.compare x z) eqn:E2; try discriminate; auto.
    eapply IH; eauto.
  - destruct (N.compare y z) eqn:E2; try discriminate.
    + apply N.compare_eq in E2. subst z. rewrite E1. reflexivity.
    + rewrite N.compare_lt_iff in E1, E2.
      assert (E3 : (x ?= z) = Lt) by (rewrite N.compare_lt_iff; eapply N.lt_trans; eauto).
      rewrite E3. reflexivity.
Qed.

Lemma str_lt_irrefl : forall a, ~ str_lt a a.
Proof. unfold str_lt. intros a H. rewrite str_cmp_refl in H. discriminate. Qed.

Lemma str_lt_asym : forall a b, str_lt a b -> ~ str_lt b a.
Proof.
  unfold str_lt. intros a b H1 H2. rewrite (str_cmp_antisym a b), H1 in H2. discriminate.
Qed.

Lemma str_total : forall a b, str_lt a b \/ a = b \/ str_lt b a.
Proof.
  intros a b. unfold str_lt. destruct (str_cmp a b) eqn:E.
  - right. left. apply str_cmp_eq. exact E.
  - left. reflexivity.
  - right. right. rewrite (str_cmp_antisym a b), E. reflexivity.
Qed.

Lemma str_ltb_lt : forall a b, str_ltb a b = true <-> str_lt a b.
Proof.
  unfold str_ltb, str_lt. intros a b. destruct (str_cmp a b); split; intros; auto; discriminate.
Qed.

Lemma str_ltb_false : forall a b, str_ltb a b = false <-> (a = b \/ str_lt b a).
Proof.
  intros a b. split.
  - intros H. destruct (str_total a b) as [L|[E|G]]; auto.
    apply str_ltb_lt in L. congruence.
  - intros [E|G].
    + subst. unfold str_ltb. rewrite str_cmp_refl. reflexivity.
    + destruct (str_ltb a b) eqn:L; auto.
      apply str_ltb_lt in L. exfalso. eapply str_lt_asym; eauto.
Qed.

Lemma str_eqb_eq : forall a b, str_eqb a b = true <-> a = b.
Proof.
  unfold str_eqb. intros a b. split.
  - destruct (str_cmp a b) eqn:E; try discriminate. intros _. apply str_cmp_eq. exact E.
  - intros ->. rewrite str_cmp_refl. reflexivity.
Qed.

Lemma str_eqb_refl : forall a, str_eqb a a = true.
Proof. intros. apply str_eqb_eq. reflexivity. Qed.

Lemma str_eqb_neq : forall a b, str_eqb a b = false <-> a <> b.
Proof.
  intros a b. split.
  - intros H E. apply str_eqb_eq in E. congruence.
  - intros H. destruct (str_eqb a b) eqn:E; auto. apply str_eqb_eq in E. contradiction.
Qed.
