(* C11 — structural facts about the fstree model: operations addressed by a path act on the
   directory the path leads to ("locality"), and operations on differently named children of one
   directory commute. *)
From Coq Require Import List NArith Bool Permutation.
From SqfsV Require Import C11.StrOrder C11.FstreeModel C11.OrderProofs C11.CanonProofs.
Import ListNotations.

Definition obind {A B : Type} (o : option A) (f : A -> option B) : option B :=
  match o with Some x => f x | None => None end.

(* ------------------------------------------------------------------ child lists *)

Lemma find_child_name : forall a l x, find_child a l = Some x -> node_name x = a.
Proof.
  induction l as [|c r IH]; simpl; intros x H; [discriminate|].
  destruct (str_eqb (node_name c) a) eqn:E.
  - inversion H; subst. apply str_eqb_eq. exact E.
  - auto.
Qed.

Lemma find_child_insert_other : forall a x l,
  node_name x <> a -> find_child a (insert_sorted x l) = find_child a l.
Proof.
  intros a x l Hx. apply str_eqb_neq in Hx.
  induction l as [|c r IH]; simpl.
  - rewrite Hx. reflexivity.
  - destruct (str_ltb (node_name c) (node_name x)); simpl.
    + rewrite IH. reflexivity.
    + rewrite Hx. reflexivity.
Qed.

Lemma find_child_insert_same : forall a x l,
  node_name x = a -> find_child a l = None -> find_child a (insert_sorted x l) = Some x.
Proof.
  intros a x l Hx. assert (Hx' : str_eqb (node_name x) a = true) by (apply str_eqb_eq; exact Hx).
  induction l as [|c r IH]; simpl; intros Hn.
  - rewrite Hx'. reflexivity.
  - destruct (str_eqb (node_name c) a) eqn:E; [discriminate|].
    destruct (str_ltb (node_name c) (node_name x)); simpl.
    + rewrite E. auto.
    + rewrite Hx'. reflexivity.
Qed.

Lemma find_child_replace_other : forall a b y l,
  a <> b -> node_name y = b -> find_child a (replace_child b y l) = find_child a l.
Proof.
  intros a b y l Hab Hy.
  induction l as [|c r IH]; simpl; auto.
  destruct (str_eqb (node_name c) b) eqn:E; simpl.
  - apply str_eqb_eq in E.
    assert (E1 : str_eqb (node_name y) a = false) by (apply str_eqb_neq; congruence).
    assert (E2 : str_eqb (node_name c) a = false) by (apply str_eqb_neq; congruence).
    rewrite E1, E2. reflexivity.
  - rewrite IH. reflexivity.
Qed.

Lemma find_child_replace_same : forall a y l x,
  find_child a l = Some x -> node_name y = a -> find_child a (replace_child a y l) = Some y.
Proof.
  intros a y l x H Hy. assert (Hy' : str_eqb (node_name y) a = true) by (apply str_eqb_eq; exact Hy).
  revert H. induction l as [|c r IH]; simpl; intros H; [discriminate|].
  destruct (str_eqb (node_name c) a) eqn:E; simpl.
  - rewrite Hy'. reflexivity.
  - rewrite E. auto.
Qed.

Lemma replace_child_same : forall a l x, find_child a l = Some x -> replace_child a x l = l.
Proof.
  induction l as [|c r IH]; simpl; intros x H; auto.
  destruct (str_eqb (node_name c) a).
  - inversion H; subst. reflexivity.
  - rewrite IH; auto.
Qed.

Lemma replace_child_none : forall a y l, find_child a l = None -> replace_child a y l = l.
Proof.
  induction l as [|c r IH]; simpl; intros H; auto.
  destruct (str_eqb (node_name c) a); [discriminate|]. rewrite IH; auto.
Qed.

Lemma replace_replace_same : forall a x y l,
  node_name x = a -> replace_child a y (replace_child a x l) = replace_child a y l.
Proof.
  intros a x y l Hx. assert (Hx' : str_eqb (node_name x) a = true) by (apply str_eqb_eq; exact Hx).
  induction l as [|c r IH]; simpl; auto.
  destruct (str_eqb (node_name c) a) eqn:E; simpl.
  - rewrite Hx'. reflexivity.
  - rewrite E, IH. reflexivity.
Qed.

Lemma replace_replace_comm : forall a b x y l,
  a <> b -> node_name x = a -> node_name y = b ->
  replace_child a x (replace_child b y l) = replace_child b y (replace_child a x l).
Proof.
  intros a b x y l Hab Hx Hy.
  assert (Exb : str_eqb (node_name x) b = false) by (apply str_eqb_neq; congruence).
  assert (Eya : str_eqb (node_name y) a = false) by (apply str_eqb_neq; congruence).
  induction l as [|c r IH]; simpl; auto.
  destruct (str_eqb (node_name c) b) eqn:Eb; destruct (str_eqb (node_name c) a) eqn:Ea; simpl.
  - apply str_eqb_eq in Eb. apply str_eqb_eq in Ea. congruence.
  - rewrite ?Eya, ?Ea, ?Eb. reflexivity.
  - rewrite ?Ea, ?Exb, ?Eb. reflexivity.
  - rewrite ?Ea, ?Eb, ?IH. reflexivity.
Qed.

Lemma replace_insert_comm : forall a x y l,
  node_name x = a -> node_name y <> a ->
  replace_child a x (insert_sorted y l) = insert_sorted y (replace_child a x l).
Proof.
  intros a x y l Hx Hy.
  assert (Eya : str_eqb (node_name y) a = false) by (apply str_eqb_neq; exact Hy).
  induction l as [|c r IH].
  - simpl. rewrite Eya. reflexivity.
  - cbn [insert_sorted replace_child].
    destruct (str_eqb (node_name c) a) eqn:Ea.
    + assert (Hcx : node_name c = node_name x) by (apply str_eqb_eq in Ea; congruence).
      cbn [insert_sorted]. rewrite <- Hcx.
      destruct (str_ltb (node_name c) (node_name y)) eqn:L; cbn [replace_child].
      * rewrite Ea. reflexivity.
      * rewrite Eya, Ea. reflexivity.
    + cbn [insert_sorted].
      destruct (str_ltb (node_name c) (node_name y)) eqn:L; cbn [replace_child].
      * rewrite Ea, IH. reflexivity.
      * rewrite Eya, Ea. reflexivity.
Qed.

Lemma replace_insert_same : forall a x x' l,
  node_name x = a -> node_name x' = a -> find_child a l = None ->
  replace_child a x' (insert_sorted x l) = insert_sorted x' l.
Proof.
  intros a x x' l Hx Hx'.
  assert (Ex : str_eqb (node_name x) a = true) by (apply str_eqb_eq; exact Hx).
  induction l as [|c r IH]; simpl; intros Hn.
  - rewrite Ex. reflexivity.
  - destruct (str_eqb (node_name c) a) eqn:Ea; [discriminate|].
    rewrite Hx, Hx'.
    destruct (str_ltb (node_name c) a) eqn:L; simpl.
    + rewrite Ea, IH; auto.
    + rewrite Ex. reflexivity.
Qed.

Lemma insert_insert_comm : forall x y l,
  node_name x <> node_name y ->
  insert_sorted x (insert_sorted y l) = insert_sorted y (insert_sorted x l).
Proof.
  intros. rewrite !insert_sorted_is. apply insert_by_comm. exact H.
Qed.

(* ------------------------------------------------------------------ paths into the tree *)

(* the directory a path leads to (every node on the way, and the last one, is a directory) *)
Definition dir_at (P : path) (root : tnode) : option tnode :=
  match lookup_path P root with
  | Some d => if is_dir d then Some d else None
  | None => None
  end.

(* the tree with the node at P replaced *)
Fixpoint subst_at (P : path) (new : tnode) (n : tnode) {struct P} : tnode :=
  match P with
  | [] => new
  | c :: rest =>
      match n with
      | TNode nm a ch =>
          match find_child c ch with
          | Some x => TNode nm a (replace_child c (subst_at rest new x) ch)
          | None => n
          end
      end
  end.

(* run f on the directory at P; nothing happens when P does not lead to a directory *)
Definition at_path (P : path) (f : tnode -> option tnode) (root : tnode) : option tnode :=
  match dir_at P root with
  | Some d => option_map (fun d' => subst_at P d' root) (f d)
  | None => Some root
  end.

(* run f on the sub directory c of the directory d; nothing happens when there is none *)
Definition at_child (c : name) (f : tnode -> option tnode) (d : tnode) : option tnode :=
  match d with
  | TNode nm a ch =>
      match find_child c ch with
      | Some x => if is_dir x then option_map (fun x' => TNode nm a (replace_child c x' ch)) (f x)
                  else Some d
      | None => Some d
      end
  end.

(* f keeps a directory a directory of the same name *)
Definition keeps (f : tnode -> option tnode) : Prop :=
  forall d d', is_dir d = true -> f d = Some d' -> is_dir d' = true /\ node_name d' = node_name d.

Lemma dir_at_nil : forall root, dir_at [] root = if is_dir root then Some root else None.
Proof. reflexivity. Qed.

Lemma dir_at_cons : forall c P nm a ch,
  dir_at (c :: P) (TNode nm a ch) =
  if negb (ftype_eqb (a_type a) FDir) then None
  else match find_child c ch with Some x => dir_at P x | None => None end.
Proof.
  intros. unfold dir_at. simpl. unfold is_dir at 1. simpl.
  destruct (negb (ftype_eqb (a_type a) FDir)); auto.
  destruct (find_child c ch); auto.
Qed.

Lemma dir_at_is_dir : forall P root d, dir_at P root = Some d -> is_dir d = true.
Proof.
  unfold dir_at. intros P root d H. destruct (lookup_path P root); [|discriminate].
  destruct (is_dir t) eqn:E; inversion H; subst; auto.
Qed.

Lemma dir_at_root_dir : forall P root d, dir_at P root = Some d -> is_dir root = true.
Proof.
  intros [|c P] [nm a ch] d H.
  - rewrite dir_at_nil in H. destruct (is_dir (TNode nm a ch)); [reflexivity|discriminate].
  - rewrite dir_at_cons in H. unfold is_dir. simpl.
    destruct (ftype_eqb (a_type a) FDir); [reflexivity|discriminate].
Qed.

Lemma parent_ok_dir_at : forall P nm root,
  parent_ok (P ++ [nm]) root = match dir_at P root with Some _ => true | None => false end.
Proof.
  induction P as [|c P IH]; intros nm root.
  - simpl. rewrite dir_at_nil. destruct (is_dir root); reflexivity.
  - destruct root as [rn a ch]. rewrite dir_at_cons.
    change ((c :: P) ++ [nm]) with (c :: (P ++ [nm])).
    cbn [parent_ok]. unfold is_dir at 1. simpl.
    destruct (negb (ftype_eqb (a_type a) FDir)); auto.
    destruct (P ++ [nm]) eqn:E; [destruct P; discriminate|]. rewrite <- E.
    destruct (find_child c ch); auto.
Qed.

Lemma subst_at_name : forall P root d d',
  dir_at P root = Some d -> node_name d' = node_name d -> node_name (subst_at P d' root) = node_name root.
Proof.
  intros [|c P] [nm a ch] d d' H Hn.
  - rewrite dir_at_nil in H. destruct (is_dir (TNode nm a ch)); inversion H; subst. exact Hn.
  - simpl. destruct (find_child c ch); reflexivity.
Qed.

Lemma dir_at_subst : forall P root d d',
  dir_at P root = Some d -> is_dir d' = true -> node_name d' = node_name d ->
  dir_at P (subst_at P d' root) = Some d'.
Proof.
  induction P as [|c P IH]; intros root d d' H Hd Hn.
  - simpl. rewrite dir_at_nil, Hd. reflexivity.
  - destruct root as [nm a ch]. rewrite dir_at_cons in H. simpl.
    destruct (negb (ftype_eqb (a_type a) FDir)) eqn:Ed; [discriminate|].
    destruct (find_child c ch) as [x|] eqn:F; [|discriminate].
    rewrite dir_at_cons, Ed.
    rewrite (find_child_replace_same c _ ch x F).
    + eapply IH; eauto.
    + rewrite (subst_at_name P x d d' H Hn). eapply find_child_name; eauto.
Qed.

Lemma subst_subst : forall P root d d' d'',
  dir_at P root = Some d -> node_name d' = node_name d ->
  subst_at P d'' (subst_at P d' root) = subst_at P d'' root.
Proof.
  induction P as [|c P IH]; intros root d d' d'' H Hn; simpl; auto.
  destruct root as [nm a ch]. rewrite dir_at_cons in H.
  destruct (negb (ftype_eqb (a_type a) FDir)); [discriminate|].
  destruct (find_child c ch) as [x|] eqn:F; [|discriminate].
  assert (Hname : node_name (subst_at P d' x) = c).
  { rewrite (subst_at_name P x d d' H Hn). eapply find_child_name; eauto. }
  rewrite (find_child_replace_same c _ ch x F Hname).
  rewrite replace_replace_same; auto.
  f_equal. f_equal. eapply IH; eauto.
Qed.

Lemma subst_at_self : forall P root d, dir_at P root = Some d -> subst_at P d root = root.
Proof.
  induction P as [|c P IH]; intros root d H; simpl.
  - rewrite dir_at_nil in H. destruct (is_dir root); inversion H; reflexivity.
  - destruct root as [nm a ch]. rewrite dir_at_cons in H.
    destruct (negb (ftype_eqb (a_type a) FDir)); [discriminate|].
    destruct (find_child c ch) as [x|] eqn:F; [|discriminate].
    rewrite (IH x d H). rewrite replace_child_same; auto.
Qed.

(* composition of two operations on the same directory *)
Lemma at_path_compose : forall P f g root,
  keeps f ->
  obind (at_path P f root) (at_path P g) = at_path P (fun d => obind (f d) g) root.
Proof.
  intros P f g root Hk. unfold at_path at 1 3.
  destruct (dir_at P root) as [d|] eqn:D.
  - destruct (f d) as [d'|] eqn:Fd; simpl; auto.
    destruct (Hk d d' (dir_at_is_dir _ _ _ D) Fd) as [Hd Hn].
    unfold at_path. rewrite (dir_at_subst P root d d' D Hd Hn).
    destruct (g d') as [d''|]; simpl; auto.
    rewrite (subst_subst P root d d' d'' D Hn). reflexivity.
  - simpl. unfold at_path. rewrite D. reflexivity.
Qed.

Lemma dir_at_app1 : forall P c root,
  dir_at (P ++ [c]) root =
  match dir_at P root with
  | Some d => match find_child c (node_children d) with
              | Some x => if is_dir x then Some x else None
              | None => None
              end
  | None => None
  end.
Proof.
  induction P as [|b P IH]; intros c root.
  - simpl. rewrite dir_at_nil. destruct root as [nm a ch]. rewrite dir_at_cons.
    unfold is_dir at 1. simpl.
    destruct (ftype_eqb (a_type a) FDir); simpl; auto;
      try (destruct (find_child c ch) as [x|]; auto).
  - destruct root as [nm a ch]. change ((b :: P) ++ [c]) with (b :: (P ++ [c])).
    rewrite !dir_at_cons.
    destruct (negb (ftype_eqb (a_type a) FDir)); auto.
    destruct (find_child b ch); auto.
Qed.

Lemma subst_at_app1 : forall P c root nm a ch x x',
  dir_at P root = Some (TNode nm a ch) -> find_child c ch = Some x ->
  subst_at (P ++ [c]) x' root = subst_at P (TNode nm a (replace_child c x' ch)) root.
Proof.
  induction P as [|b P IH]; intros c root nm a ch x x' D F.
  - simpl. rewrite dir_at_nil in D. destruct (is_dir root); inversion D; subst.
    rewrite F. reflexivity.
  - destruct root as [rn ra rch]. rewrite dir_at_cons in D.
    destruct (negb (ftype_eqb (a_type ra) FDir)); [discriminate|].
    change ((b :: P) ++ [c]) with (b :: (P ++ [c])). simpl.
    destruct (find_child b rch) as [y|] eqn:Fb; [|discriminate].
    rewrite (IH c y nm a ch x x' D F). reflexivity.
Qed.

(* an operation on the directory P/c is an operation on the child c of the directory P *)
Lemma at_path_app1 : forall P c f root,
  at_path (P ++ [c]) f root = at_path P (at_child c f) root.
Proof.
  intros P c f root. unfold at_path. rewrite dir_at_app1.
  destruct (dir_at P root) as [[nm a ch]|] eqn:D; auto.
  simpl. destruct (find_child c ch) as [x|] eqn:F.
  - destruct (is_dir x).
    + destruct (f x) as [x'|]; simpl; auto.
      rewrite (subst_at_app1 P c root nm a ch x x' D F). reflexivity.
    + simpl. rewrite (subst_at_self P root _ D). reflexivity.
  - simpl. rewrite (subst_at_self P root _ D). reflexivity.
Qed.

Lemma at_path_ext : forall P f g root,
  (forall d, is_dir d = true -> f d = g d) -> at_path P f root = at_path P g root.
Proof.
  intros P f g root H. unfold at_path. destruct (dir_at P root) as [d|] eqn:D; auto.
  rewrite (H d (dir_at_is_dir _ _ _ D)). reflexivity.
Qed.

Lemma add_path_cons2 : forall dflt c c2 rest e extra nm a ch,
  add_path dflt (c :: c2 :: rest) e extra (TNode nm a ch) =
  if negb (ftype_eqb (a_type a) FDir) then None
  else match find_child c ch with
       | Some x =>
           match add_path dflt (c2 :: rest) e extra x with
           | Some x' => Some (TNode nm a (replace_child c x' ch))
           | None => None
           end
       | None =>
           match add_path dflt (c2 :: rest) e extra (implicit_dir dflt c) with
           | Some x' => Some (TNode nm (inc_links a) (insert_sorted x' ch))
           | None => None
           end
       end.
Proof. reflexivity. Qed.

(* fstree_add_generic on the path P/nm is mknode / fill_dir in the directory P *)
Lemma add_path_local : forall dflt P nm e extra root d,
  dir_at P root = Some d ->
  add_path dflt (P ++ [nm]) e extra root =
  option_map (fun d' => subst_at P d' root) (add_path dflt [nm] e extra d).
Proof.
  induction P as [|c P IH]; intros nm e extra root d D.
  - rewrite dir_at_nil in D. destruct (is_dir root); inversion D; subst.
    change ([] ++ [nm]) with [nm]. destruct (add_path dflt [nm] e extra d); reflexivity.
  - destruct root as [rn a ch]. rewrite dir_at_cons in D.
    change ((c :: P) ++ [nm]) with (c :: (P ++ [nm])).
    remember (add_path dflt [nm] e extra d) as R eqn:HR.
    destruct (P ++ [nm]) as [|c2 rest] eqn:E; [destruct P; discriminate|].
    rewrite add_path_cons2.
    destruct (negb (ftype_eqb (a_type a) FDir)); [discriminate|].
    destruct (find_child c ch) as [x|] eqn:F; [|discriminate].
    rewrite <- E, (IH nm e extra x d D), <- HR.
    destruct R as [d'|]; simpl; auto.
    rewrite F. reflexivity.
Qed.

(* ------------------------------------------------------------------ operations on one child *)

(* what an operation does to the child named a: current child (if any) -> failure, or the child
   afterwards (None: still no child; an existing child is never removed) *)
Definition local_op := option tnode -> option (option tnode).

Definition apply_local (a : name) (F : local_op) (d : tnode) : option tnode :=
  match d with
  | TNode nm ta ch =>
      match find_child a ch with
      | Some x =>
          match F (Some x) with
          | Some (Some x') => Some (TNode nm ta (replace_child a x' ch))
          | Some None => Some d
          | None => None
          end
      | None =>
          match F None with
          | Some (Some x') => Some (TNode nm (inc_links ta) (insert_sorted x' ch))
          | Some None => Some d
          | None => None
          end
      end
  end.

(* the child an operation leaves behind carries the name it was looked up by *)
Definition local_wf (a : name) (F : local_op) : Prop :=
  forall cur x',
    match cur with Some x => node_name x = a | None => True end ->
    F cur = Some (Some x') -> node_name x' = a.

Lemma apply_local_keeps : forall a F, keeps (apply_local a F).
Proof.
  intros a F [nm ta ch] d' Hd H. simpl in H.
  destruct (find_child a ch).
  - destruct (F (Some t)) as [[x'|]|]; inversion H; subst; auto.
  - destruct (F None) as [[x'|]|]; inversion H; subst; auto.
Qed.

Lemma apply_local_comm : forall a b F G d,
  a <> b -> local_wf a F -> local_wf b G ->
  obind (apply_local a F d) (apply_local b G) = obind (apply_local b G d) (apply_local a F).
Proof.
  intros a b F G [nm ta ch] Hab HF HG.
  assert (Hba : b <> a) by congruence.
  assert (HFs : forall x x', find_child a ch = Some x -> F (Some x) = Some (Some x') -> node_name x' = a).
  { intros x x' Hf HFx. apply (HF (Some x) x'); [eapply find_child_name; eauto | exact HFx]. }
  assert (HFn : forall x', F None = Some (Some x') -> node_name x' = a) by (intros x' HFx; apply (HF None x' I HFx)).
  assert (HGs : forall y y', find_child b ch = Some y -> G (Some y) = Some (Some y') -> node_name y' = b).
  { intros y y' Hf HGy. apply (HG (Some y) y'); [eapply find_child_name; eauto | exact HGy]. }
  assert (HGn : forall y', G None = Some (Some y') -> node_name y' = b) by (intros y' HGy; apply (HG None y' I HGy)).
  unfold apply_local at 1 3.
  destruct (find_child a ch) as [x|] eqn:Fa; destruct (find_child b ch) as [y|] eqn:Fb.
  - (* both exist *)
    destruct (F (Some x)) as [[x'|]|] eqn:EF; destruct (G (Some y)) as [[y'|]|] eqn:EG; simpl;
      rewrite ?Fa, ?Fb, ?EF, ?EG; auto.
    + assert (Hx : node_name x' = a) by (first [eapply HFs; [reflexivity|eassumption] | apply HFn; first [assumption | reflexivity]]). assert (Hy : node_name y' = b) by (first [eapply HGs; [reflexivity|eassumption] | apply HGn; first [assumption | reflexivity]]).
      rewrite (find_child_replace_other b a x' ch Hba Hx), Fb, ?EG.
      rewrite (find_child_replace_other a b y' ch Hab Hy), Fa, ?EF.
      rewrite (replace_replace_comm a b x' y' ch Hab Hx Hy). reflexivity.
    + assert (Hx : node_name x' = a) by (first [eapply HFs; [reflexivity|eassumption] | apply HFn; first [assumption | reflexivity]]).
      rewrite (find_child_replace_other b a x' ch Hba Hx), Fb, ?EG. reflexivity.
    + assert (Hx : node_name x' = a) by (first [eapply HFs; [reflexivity|eassumption] | apply HFn; first [assumption | reflexivity]]).
      rewrite (find_child_replace_other b a x' ch Hba Hx), Fb, ?EG. reflexivity.
    + assert (Hy : node_name y' = b) by (first [eapply HGs; [reflexivity|eassumption] | apply HGn; first [assumption | reflexivity]]).
      rewrite (find_child_replace_other a b y' ch Hab Hy), Fa, ?EF. reflexivity.
    + assert (Hy : node_name y' = b) by (first [eapply HGs; [reflexivity|eassumption] | apply HGn; first [assumption | reflexivity]]).
      rewrite (find_child_replace_other a b y' ch Hab Hy), Fa, ?EF. reflexivity.
  - (* a exists, b does not *)
    destruct (F (Some x)) as [[x'|]|] eqn:EF; destruct (G None) as [[y'|]|] eqn:EG; simpl;
      rewrite ?Fa, ?Fb, ?EF, ?EG; auto.
    + assert (Hx : node_name x' = a) by (first [eapply HFs; [reflexivity|eassumption] | apply HFn; first [assumption | reflexivity]]). assert (Hy : node_name y' = b) by (first [eapply HGs; [reflexivity|eassumption] | apply HGn; first [assumption | reflexivity]]).
      rewrite (find_child_replace_other b a x' ch Hba Hx), Fb, ?EG.
      rewrite (find_child_insert_other a y' ch) by congruence. rewrite Fa, ?EF.
      rewrite (replace_insert_comm a x' y' ch Hx) by congruence. reflexivity.
    + assert (Hx : node_name x' = a) by (first [eapply HFs; [reflexivity|eassumption] | apply HFn; first [assumption | reflexivity]]).
      rewrite (find_child_replace_other b a x' ch Hba Hx), Fb, ?EG. reflexivity.
    + assert (Hx : node_name x' = a) by (first [eapply HFs; [reflexivity|eassumption] | apply HFn; first [assumption | reflexivity]]).
      rewrite (find_child_replace_other b a x' ch Hba Hx), Fb, ?EG. reflexivity.
    + assert (Hy : node_name y' = b) by (first [eapply HGs; [reflexivity|eassumption] | apply HGn; first [assumption | reflexivity]]).
      rewrite (find_child_insert_other a y' ch) by congruence. rewrite Fa, ?EF. reflexivity.
    + assert (Hy : node_name y' = b) by (first [eapply HGs; [reflexivity|eassumption] | apply HGn; first [assumption | reflexivity]]).
      rewrite (find_child_insert_other a y' ch) by congruence. rewrite Fa, ?EF. reflexivity.
  - (* b exists, a does not *)
    destruct (F None) as [[x'|]|] eqn:EF; destruct (G (Some y)) as [[y'|]|] eqn:EG; simpl;
      rewrite ?Fa, ?Fb, ?EF, ?EG; auto.
    + assert (Hx : node_name x' = a) by (first [eapply HFs; [reflexivity|eassumption] | apply HFn; first [assumption | reflexivity]]). assert (Hy : node_name y' = b) by (first [eapply HGs; [reflexivity|eassumption] | apply HGn; first [assumption | reflexivity]]).
      rewrite (find_child_insert_other b x' ch) by congruence. rewrite Fb, ?EG.
      rewrite (find_child_replace_other a b y' ch Hab Hy), Fa, ?EF.
      rewrite (replace_insert_comm b y' x' ch Hy) by congruence. reflexivity.
    + assert (Hx : node_name x' = a) by (first [eapply HFs; [reflexivity|eassumption] | apply HFn; first [assumption | reflexivity]]).
      rewrite (find_child_insert_other b x' ch) by congruence. rewrite Fb, ?EG. reflexivity.
    + assert (Hx : node_name x' = a) by (first [eapply HFs; [reflexivity|eassumption] | apply HFn; first [assumption | reflexivity]]).
      rewrite (find_child_insert_other b x' ch) by congruence. rewrite Fb, ?EG. reflexivity.
    + assert (Hy : node_name y' = b) by (first [eapply HGs; [reflexivity|eassumption] | apply HGn; first [assumption | reflexivity]]).
      rewrite (find_child_replace_other a b y' ch Hab Hy), Fa, ?EF. reflexivity.
    + assert (Hy : node_name y' = b) by (first [eapply HGs; [reflexivity|eassumption] | apply HGn; first [assumption | reflexivity]]).
      rewrite (find_child_replace_other a b y' ch Hab Hy), Fa, ?EF. reflexivity.
  - (* neither exists *)
    destruct (F None) as [[x'|]|] eqn:EF; destruct (G None) as [[y'|]|] eqn:EG; simpl;
      rewrite ?Fa, ?Fb, ?EF, ?EG; auto.
    + assert (Hx : node_name x' = a) by (first [eapply HFs; [reflexivity|eassumption] | apply HFn; first [assumption | reflexivity]]). assert (Hy : node_name y' = b) by (first [eapply HGs; [reflexivity|eassumption] | apply HGn; first [assumption | reflexivity]]).
      rewrite (find_child_insert_other b x' ch) by congruence. rewrite Fb, ?EG.
      rewrite (find_child_insert_other a y' ch) by congruence. rewrite Fa, ?EF.
      rewrite (insert_insert_comm y' x' ch) by congruence. reflexivity.
    + assert (Hx : node_name x' = a) by (first [eapply HFs; [reflexivity|eassumption] | apply HFn; first [assumption | reflexivity]]).
      rewrite (find_child_insert_other b x' ch) by congruence. rewrite Fb, ?EG. reflexivity.
    + assert (Hx : node_name x' = a) by (first [eapply HFs; [reflexivity|eassumption] | apply HFn; first [assumption | reflexivity]]).
      rewrite (find_child_insert_other b x' ch) by congruence. rewrite Fb, ?EG. reflexivity.
    + assert (Hy : node_name y' = b) by (first [eapply HGs; [reflexivity|eassumption] | apply HGn; first [assumption | reflexivity]]).
      rewrite (find_child_insert_other a y' ch) by congruence. rewrite Fa, ?EF. reflexivity.
    + assert (Hy : node_name y' = b) by (first [eapply HGs; [reflexivity|eassumption] | apply HGn; first [assumption | reflexivity]]).
      rewrite (find_child_insert_other a y' ch) by congruence. rewrite Fa, ?EF. reflexivity.
Qed.

(* ------------------------------------------------------------------ a sequence of child operations *)

Section LocalFold.
  Variable A : Type.
  Variable key : A -> name.
  Variable op : A -> local_op.

  Fixpoint lfold (l : list A) (d : tnode) : option tnode :=
    match l with
    | [] => Some d
    | c :: r => obind (apply_local (key c) (op c) d) (lfold r)
    end.

  Lemma lfold_keeps : forall l, keeps (lfold l).
  Proof.
    induction l as [|c r IH]; intros d d' Hd H; simpl in H.
    - inversion H; subst; auto.
    - destruct (apply_local (key c) (op c) d) as [d1|] eqn:E; [|discriminate]. simpl in H.
      destruct (apply_local_keeps _ _ d d1 Hd E) as [H1 H2].
      destruct (IH d1 d' H1 H) as [H3 H4]. split; congruence.
  Qed.

  (* the result does not depend on the order of the operations when their names differ *)
  Lemma lfold_perm : forall l l',
    Permutation l l' -> NoDup (map key l) -> (forall c, In c l -> local_wf (key c) (op c)) ->
    forall d, lfold l d = lfold l' d.
  Proof.
    induction 1 as [|x l l' Hp IH|x y l|l l' l'' Hp1 IH1 Hp2 IH2]; intros Hn Hw d; simpl.
    - reflexivity.
    - inversion Hn; subst.
      destruct (apply_local (key x) (op x) d); simpl; auto.
      apply IH; auto. intros c Hc. apply Hw. right. exact Hc.
    - inversion Hn as [|? ? Hy Hn']; subst.
      assert (Hxy : key x <> key y) by (intros E; apply Hy; left; exact E).
      pose proof (apply_local_comm (key x) (key y) (op x) (op y) d Hxy
                    (Hw x (or_intror (or_introl eq_refl))) (Hw y (or_introl eq_refl))) as C.
      destruct (apply_local (key y) (op y) d) as [d1|] eqn:E1;
        destruct (apply_local (key x) (op x) d) as [d2|] eqn:E2; simpl in *.
      + destruct (apply_local (key x) (op x) d1) as [d3|] eqn:E3;
          destruct (apply_local (key y) (op y) d2) as [d4|] eqn:E4; simpl in *;
          try discriminate; auto. inversion C; subst. reflexivity.
      + rewrite <- C. reflexivity.
      + rewrite C. reflexivity.
      + reflexivity.
    - rewrite IH1; auto. apply IH2.
      + eapply Permutation_NoDup; [apply Permutation_map; exact Hp1 | exact Hn].
      + intros c Hc. apply Hw. eapply Permutation_in; [apply Permutation_sym; exact Hp1 | exact Hc].
  Qed.
End LocalFold.

Arguments lfold {A} key op l d.
