(* C11 — model of lib/fstree/src/hardlink.c and lib/fstree/src/post_process.c.  Definitions only.

   fstree_resolve_hard_links / resolve_link -> [resolve_all] / [resolve_walk]
   alloc_inode_num_dfs + map_inodes_dfs     -> [alloc_list] (the nodes in the order in which they are
                                               numbered: position k holds the node with inode_num k+1,
                                               which is exactly what fs->inodes holds afterwards)
   reorder_hard_links                       -> [reorder_loop] / [reorder_children]
   file_list_dfs                            -> [file_list]
   fstree_post_process                      -> [post_process]

   Nodes are named by their path.  The invariant "fs->inodes[k]->inode_num == k+1" holds after
   map_inodes_dfs and is re-established by every shift in reorder_hard_links, so the array alone
   determines all inode numbers.  The SZ_ADD_OV / 2^32 refusals are not modelled. *)
From Coq Require Import List NArith ZArith Bool Arith.
From SqfsV Require Import C11.StrOrder C11.FstreeModel.
Import ListNotations.

Fixpoint path_eqb (p q : path) : bool :=
  match p, q with
  | [], [] => true
  | a :: p', b :: q' => str_eqb a b && path_eqb p' q'
  | _, _ => false
  end.

Definition is_hardlink (n : tnode) : bool :=
  ftype_eqb (a_type (node_attr n)) FLnk && a_hard (node_attr n).

Fixpoint tree_size (n : tnode) : nat :=
  match n with
  | TNode _ _ ch => S ((fix go (l : list tnode) : nat :=
                          match l with [] => O | c :: r => tree_size c + go r end) ch)
  end.

(* The fields resolve_link mutates (FLAG_LINK_RESOVED + target_node of the link, link_count of the
   target) are kept beside the tree, keyed by node (= path), while the links are being resolved:
     rs_res : link -> node it was resolved to        rs_cnt : one entry per link_count++
   [decorate] writes them into the nodes afterwards. *)
Record rstate := mkRs { rs_res : list (path * path); rs_cnt : list path }.

Fixpoint assoc_path (p : path) (m : list (path * path)) : option path :=
  match m with
  | [] => None
  | (q, t) :: r => if path_eqb q p then Some t else assoc_path p r
  end.

Fixpoint count_path (p : path) (l : list path) : N :=
  match l with
  | [] => 0%N
  | q :: r => if path_eqb q p then (1 + count_path p r)%N else count_path p r
  end.

(* resolve_link: follow hard links (through target_node when already resolved, through the target
   path otherwise) until a node that is not a hard link; coming back to the start is EMLINK.
   A cycle that does not contain the start makes the C loop spin for ever: [RFuel]. *)
Inductive rres := ROk (target : path) | RErr | RFuel.

Fixpoint resolve_walk (fuel : nat) (root : tnode) (res : list (path * path)) (start cur : path)
         (curnode : tnode) : rres :=
  match fuel with
  | O => RFuel
  | S f =>
      if negb (is_hardlink curnode) then (if is_dir curnode then RErr else ROk cur)
      else
        let nxt := match assoc_path cur res with
                   | Some t => t
                   | None => a_hardtgt (node_attr curnode)
                   end in
        match lookup_path nxt root with
        | None => RErr
        | Some nd => if path_eqb nxt start then RErr else resolve_walk f root res start nxt nd
        end
  end.

Inductive pres (A : Type) := POk (v : A) | PErr | PFuel.
Arguments POk {A} v.
Arguments PErr {A}.
Arguments PFuel {A}.

(* fstree_resolve_hard_links: pop links_unresolved one by one *)
Fixpoint resolve_all (root : tnode) (l : list path) (st : rstate) : pres rstate :=
  match l with
  | [] => POk st
  | p :: r =>
      match lookup_path p root with
      | None => PErr
      | Some sn =>
          match resolve_walk (S (tree_size root)) root (rs_res st) p p sn with
          | ROk t => resolve_all root r (mkRs ((p, t) :: rs_res st) (t :: rs_cnt st))
          | RErr => PErr
          | RFuel => PFuel
          end
      end
  end.

Definition set_post (a : tattr) (extra_links : N) (res : option path) : tattr :=
  mkAttr (a_type a) (a_perm a) (a_uid a) (a_gid a) (a_mtime a) (a_links a + extra_links) (a_implicit a)
         (a_hard a) (a_input a) (a_target a) (a_hardtgt a) (a_devno a) res.

(* the tree with link_count and target_node as the C nodes hold them after the resolution *)
Fixpoint decorate (st : rstate) (pp : path) (n : tnode) : tnode :=
  match n with
  | TNode nm a ch =>
      TNode nm (set_post a (count_path pp (rs_cnt st)) (assoc_path pp (rs_res st)))
            (map (fun c => decorate st (pp ++ [node_name c]) c) ch)
  end.

(* alloc_inode_num_dfs: first all sub directories (in child order), then this directory's own
   children that are not hard links; the caller numbers the root last *)
Definition own_children (pp : path) (ch : list tnode) : list path :=
  map (fun c => pp ++ [node_name c]) (filter (fun c => negb (is_hardlink c)) ch).

Fixpoint alloc_list (pp : path) (n : tnode) : list path :=
  match n with
  | TNode _ _ ch =>
      (fix subs (l : list tnode) : list path :=
         match l with
         | [] => []
         | c :: r => (if is_dir c then alloc_list (pp ++ [node_name c]) c else []) ++ subs r
         end) ch
      ++ own_children pp ch
  end.

Fixpoint index_of (p : path) (l : list path) : option nat :=
  match l with
  | [] => None
  | q :: r => if path_eqb q p then Some O else option_map S (index_of p r)
  end.

Fixpoint remove_nth (k : nat) (l : list path) : list path :=
  match l, k with
  | [], _ => []
  | _ :: r, O => r
  | x :: r, S k' => x :: remove_nth k' r
  end.

Fixpoint insert_nth (k : nat) (p : path) (l : list path) : list path :=
  match k, l with
  | O, _ => p :: l
  | S k', x :: r => x :: insert_nth k' p r
  | S _, [] => [p]
  end.

(* the shift loop: inodes[to..from-1] move up by one, the element at [from] lands at [to] *)
Definition move_to (arr : list path) (from to : nat) : list path :=
  match nth_error arr from with
  | Some p => insert_nth to p (remove_nth from arr)
  | None => arr
  end.

(* inner loop of reorder_hard_links over the children of the directory currently at index i *)
Fixpoint reorder_children (ch : list tnode) (i : nat) (arr : list path) : nat * list path :=
  match ch with
  | [] => (i, arr)
  | c :: r =>
      if is_hardlink c then
        match a_resolved (node_attr c) with
        | Some t =>
            match index_of t arr with
            | Some ti => if (ti <=? i)%nat then reorder_children r i arr
                         else reorder_children r (S i) (move_to arr ti i)
            | None => reorder_children r i arr
            end
        | None => reorder_children r i arr
        end
      else reorder_children r i arr
  end.

Fixpoint reorder_loop (fuel : nat) (root : tnode) (i : nat) (arr : list path) : option (list path) :=
  match fuel with
  | O => None
  | S f =>
      match nth_error arr i with
      | None => Some arr
      | Some p =>
          match lookup_path p root with
          | Some nd =>
              if is_dir nd then
                let '(i', arr') := reorder_children (node_children nd) i arr in
                reorder_loop f root (S i') arr'
              else reorder_loop f root (S i) arr
          | None => reorder_loop f root (S i) arr
          end
      end
  end.

(* file_list_dfs: regular files in depth-first child order *)
Fixpoint file_list (pp : path) (n : tnode) : list path :=
  match n with
  | TNode _ a ch =>
      if ftype_eqb (a_type a) FReg then [pp]
      else if ftype_eqb (a_type a) FDir then
        (fix go (l : list tnode) : list path :=
           match l with
           | [] => []
           | c :: r => file_list (pp ++ [node_name c]) c ++ go r
           end) ch
      else []
  end.

Record ppout := mkOut {
  pp_root : tnode;          (* the tree with link counts and resolved targets *)
  pp_inodes : list path;    (* fs->inodes: position k = the node with inode number k+1 *)
  pp_files : list path      (* fs->files *)
}.

Definition post_process (fs : fstree) : pres ppout :=
  match resolve_all (fs_root fs) (fs_unres fs) (mkRs [] []) with
  | POk st =>
      let root := decorate st [] (fs_root fs) in
      let arr := alloc_list [] root ++ [[]] in
      match reorder_loop (S (length arr)) root O arr with
      | Some arr' => POk (mkOut root arr' (file_list [] root))
      | None => PFuel
      end
  | PErr => PErr
  | PFuel => PFuel
  end.

(* inode number of a node (0 = none: hard links) *)
Definition inode_num (o : ppout) (p : path) : nat :=
  match index_of p (pp_inodes o) with Some k => S k | None => O end.
