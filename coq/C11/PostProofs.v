(* C11 — post_process does not depend on the order of the links_unresolved list. *)
From Coq Require Import List NArith Bool Permutation Arith Lia.
From SqfsV Require Import C11.StrOrder C11.FstreeModel C11.PostModel.
Import ListNotations.

Lemma path_eqb_eq : forall p q, path_eqb p q = true <-> p = q.
Proof.
  induction p as [|a p IH]; destruct q as [|b q]; simpl; split; intros H; try discriminate; auto.
  - apply andb_true_iff in H. destruct H as [H1 H2]. apply str_eqb_eq in H1. apply IH in H2. subst. reflexivity.
  - inversion H; subst. apply andb_true_iff. split; [apply str_eqb_refl | apply IH; reflexivity].
Qed.

Lemma path_eqb_refl : forall p, path_eqb p p = true.
Proof. intros. apply path_eqb_eq. reflexivity. Qed.

Lemma path_eqb_neq : forall p q, path_eqb p q = false <-> p <> q.
Proof.
  intros p q. split.
  - intros H E. apply path_eqb_eq in E. congruence.
  - intros H. destruct (path_eqb p q) eqn:E; auto. apply path_eqb_eq in E. contradiction.
Qed.

Lemma tnode_ind' (P : tnode -> Prop) :
  (forall nm a ch, Forall P ch -> P (TNode nm a ch)) -> forall t, P t.
Proof.
  intros H. fix IH 1. intros [nm a ch]. apply H.
  induction ch as [|c r IHr]; constructor; auto.
Qed.

(* ---- the maps ---- *)

Lemma assoc_path_notin : forall p m, ~ In p (map fst m) -> assoc_path p m = None.
Proof.
  induction m as [|[q t] r IH]; simpl; intros H; auto.
  destruct (path_eqb q p) eqn:E.
  - apply path_eqb_eq in E. exfalso. apply H. left. exact E.
  - apply IH. intros Hin. apply H. right. exact Hin.
Qed.

Lemma assoc_path_perm : forall m m', Permutation m m' -> NoDup (map fst m) ->
  forall p, assoc_path p m = assoc_path p m'.
Proof.
  induction 1 as [|[q t] m m' Hp IH|[q1 t1] [q2 t2] m|m m' m'' Hp1 IH1 Hp2 IH2]; intros Hn p; simpl.
  - reflexivity.
  - inversion Hn; subst. rewrite IH; auto.
  - destruct (path_eqb q2 p) eqn:E2; destruct (path_eqb q1 p) eqn:E1; auto.
    apply path_eqb_eq in E1. apply path_eqb_eq in E2. subst.
    inversion Hn as [|? ? Hx ?]; subst. exfalso. apply Hx. left. reflexivity.
  - rewrite IH1; auto. apply IH2.
    eapply Permutation_NoDup; [apply Permutation_map; exact Hp1 | exact Hn].
Qed.

Lemma count_path_perm : forall l l', Permutation l l' -> forall p, count_path p l = count_path p l'.
Proof.
  induction 1 as [|q l l' Hp IH|q1 q2 l|l l' l'' Hp1 IH1 Hp2 IH2]; intros p; simpl.
  - reflexivity.
  - rewrite IH. reflexivity.
  - destruct (path_eqb q2 p); destruct (path_eqb q1 p); reflexivity.
  - rewrite IH1. apply IH2.
Qed.

Lemma decorate_ext : forall st st',
  (forall p, assoc_path p (rs_res st) = assoc_path p (rs_res st')) ->
  (forall p, count_path p (rs_cnt st) = count_path p (rs_cnt st')) ->
  forall n pp, decorate st pp n = decorate st' pp n.
Proof.
  intros st st' Ha Hc. induction n as [nm a ch IH] using tnode_ind'. intros pp. simpl.
  rewrite Ha, Hc. f_equal.
  induction IH as [|c r Hc' _ IHr]; simpl; auto. rewrite Hc', IHr. reflexivity.
Qed.

(* ---- one link, when no hard link points at a hard link ---- *)

(* resolve_link for a link whose target is not itself a hard link: no state is consulted *)
Definition resolve_plain (root : tnode) (p : path) (sn : tnode) : rres :=
  if negb (is_hardlink sn) then (if is_dir sn then RErr else ROk p)
  else
    let nxt := a_hardtgt (node_attr sn) in
    match lookup_path nxt root with
    | None => RErr
    | Some nd => if path_eqb nxt p then RErr else if is_dir nd then RErr else ROk nxt
    end.

(* the hypothesis: the target path of every queued hard link does not lead to another hard link
   (the directory scan only ever links to the first name it saw, which is a real file) *)
Definition links_primary (root : tnode) (l : list path) : Prop :=
  forall p sn nd, In p l -> lookup_path p root = Some sn ->
    lookup_path (a_hardtgt (node_attr sn)) root = Some nd -> is_hardlink nd = false.

Lemma resolve_walk_plain : forall f root res p sn,
  assoc_path p res = None ->
  (forall nd, lookup_path (a_hardtgt (node_attr sn)) root = Some nd -> is_hardlink nd = false) ->
  resolve_walk (S (S f)) root res p p sn = resolve_plain root p sn.
Proof.
  intros f root res p sn Hres Hprim. unfold resolve_plain. simpl.
  destruct (negb (is_hardlink sn)); auto.
  rewrite Hres.
  destruct (lookup_path (a_hardtgt (node_attr sn)) root) as [nd|] eqn:L; auto.
  destruct (path_eqb (a_hardtgt (node_attr sn)) p); auto.
  rewrite (Hprim nd eq_refl). simpl. reflexivity.
Qed.

Lemma tree_size_pos : forall t, exists k, tree_size t = S k.
Proof. intros [nm a ch]. simpl. eexists. reflexivity. Qed.

(* all links, as a pure function of the tree *)
Fixpoint targets (root : tnode) (l : list path) : option (list (path * path)) :=
  match l with
  | [] => Some []
  | p :: r =>
      match lookup_path p root with
      | None => None
      | Some sn =>
          match resolve_plain root p sn with
          | ROk t => match targets root r with Some ts => Some ((p, t) :: ts) | None => None end
          | _ => None
          end
      end
  end.

Lemma resolve_plain_no_fuel : forall root p sn, resolve_plain root p sn <> RFuel.
Proof.
  intros. unfold resolve_plain.
  destruct (negb (is_hardlink sn)); [destruct (is_dir sn); discriminate|].
  destruct (lookup_path _ root); [|discriminate].
  destruct (path_eqb _ p); [discriminate|]. destruct (is_dir t); discriminate.
Qed.

Lemma resolve_all_targets : forall root l st,
  NoDup l -> links_primary root l ->
  (forall p, In p l -> ~ In p (map fst (rs_res st))) ->
  resolve_all root l st =
  match targets root l with
  | Some ts => POk (mkRs (rev ts ++ rs_res st) (rev (map snd ts) ++ rs_cnt st))
  | None => PErr
  end.
Proof.
  induction l as [|p r IH]; intros st Hn Hprim Hfresh; cbn [resolve_all targets].
  - destruct st; reflexivity.
  - inversion Hn as [|? ? Hp Hn']; subst.
    destruct (lookup_path p root) as [sn|] eqn:L; auto.
    destruct (tree_size_pos root) as [k Hk]. rewrite Hk.
    rewrite resolve_walk_plain.
    + destruct (resolve_plain root p sn) as [t| |] eqn:R; auto.
      * rewrite IH; auto.
        -- simpl. destruct (targets root r) as [ts|]; auto.
           simpl. rewrite <- !app_assoc. simpl. reflexivity.
        -- intros q sq nd Hq. apply Hprim. right. exact Hq.
        -- simpl. intros q Hq [E|Hin]; [subst; contradiction|].
           eapply Hfresh; [right; exact Hq | exact Hin].
      * exfalso. eapply resolve_plain_no_fuel; eauto.
    + apply assoc_path_notin. apply Hfresh. left. reflexivity.
    + intros nd Hnd. apply (Hprim p sn nd); [left; reflexivity | exact L | exact Hnd].
Qed.

Lemma targets_fst : forall root l ts, targets root l = Some ts -> map fst ts = l.
Proof.
  induction l as [|p r IH]; simpl; intros ts H.
  - inversion H. reflexivity.
  - destruct (lookup_path p root); [|discriminate].
    destruct (resolve_plain root p t); try discriminate.
    destruct (targets root r) eqn:T; [|discriminate]. inversion H; subst. simpl. f_equal. auto.
Qed.

Lemma targets_perm : forall root l l', Permutation l l' ->
  match targets root l, targets root l' with
  | Some ts, Some ts' => Permutation ts ts'
  | None, None => True
  | _, _ => False
  end.
Proof.
  induction 1 as [|p l l' Hp IH|p q l|l l' l'' Hp1 IH1 Hp2 IH2]; simpl.
  - constructor.
  - destruct (lookup_path p root) as [sn|]; auto.
    destruct (resolve_plain root p sn); auto.
    destruct (targets root l), (targets root l'); auto.
  - destruct (lookup_path q root) as [sq|]; destruct (lookup_path p root) as [sp|]; auto.
    + destruct (resolve_plain root q sq); destruct (resolve_plain root p sp); auto;
        destruct (targets root l); auto; try apply perm_swap.
    + destruct (resolve_plain root q sq); auto; destruct (targets root l); auto.
    + destruct (resolve_plain root p sp); auto; destruct (targets root l); auto.
  - destruct (targets root l), (targets root l'), (targets root l''); auto; try contradiction.
    eapply perm_trans; eauto.
Qed.

Lemma post_process_order_free_l : forall root l l',
  Permutation l l' -> NoDup l -> links_primary root l ->
  post_process (mkFs root l) = post_process (mkFs root l').
Proof.
  intros root l l' Hp Hn Hprim. unfold post_process. simpl.
  assert (Hn' : NoDup l') by (eapply Permutation_NoDup; eauto).
  assert (Hprim' : links_primary root l').
  { intros p sn nd Hin. apply Hprim. eapply Permutation_in; [apply Permutation_sym; exact Hp | exact Hin]. }
  rewrite !resolve_all_targets; auto.
  pose proof (targets_perm root l l' Hp) as HT.
  destruct (targets root l) as [ts|] eqn:T; destruct (targets root l') as [ts'|] eqn:T'; try contradiction; auto.
  simpl. rewrite !app_nil_r.
  assert (Hd : forall n pp, decorate (mkRs (rev ts) (rev (map snd ts))) pp n =
                            decorate (mkRs (rev ts') (rev (map snd ts'))) pp n).
  { apply decorate_ext; simpl.
    - apply assoc_path_perm.
      + eapply perm_trans; [apply Permutation_sym, Permutation_rev|].
        eapply perm_trans; [exact HT | apply Permutation_rev].
      + eapply Permutation_NoDup; [apply Permutation_map, Permutation_rev|].
        rewrite (targets_fst _ _ _ T). exact Hn.
    - apply count_path_perm.
      eapply perm_trans; [apply Permutation_sym, Permutation_rev|].
      eapply perm_trans; [apply Permutation_map; exact HT | apply Permutation_rev]. }
  rewrite Hd. reflexivity.
Qed.

(* ---- the fuel of reorder_loop is never exhausted ---- *)

Lemma remove_nth_length : forall k l, (k < length l)%nat -> length (remove_nth k l) = pred (length l).
Proof.
  induction k as [|k IH]; destruct l as [|x r]; simpl; intros H; try (inversion H; fail); auto.
  rewrite IH by (apply Nat.succ_lt_mono; exact H).
  destruct r; simpl in *; [inversion H; inversion H1 | reflexivity].
Qed.

Lemma insert_nth_length : forall k p l, length (insert_nth k p l) = S (length l).
Proof.
  induction k as [|k IH]; destruct l as [|x r]; simpl; auto.
Qed.

Lemma move_to_length : forall arr from to, length (move_to arr from to) = length arr.
Proof.
  intros arr from to. unfold move_to.
  destruct (nth_error arr from) as [p|] eqn:E; auto.
  assert (H : (from < length arr)%nat) by (apply nth_error_Some; congruence).
  rewrite insert_nth_length, remove_nth_length by exact H.
  destruct arr; simpl in *; [inversion H | reflexivity].
Qed.

Lemma reorder_children_inv : forall ch i arr i' arr',
  reorder_children ch i arr = (i', arr') -> (i <= i')%nat /\ length arr' = length arr.
Proof.
  induction ch as [|c r IH]; simpl; intros i arr i' arr' H.
  - inversion H; subst. auto.
  - destruct (is_hardlink c); [|apply IH; exact H].
    destruct (a_resolved (node_attr c)) as [t|]; [|apply IH; exact H].
    destruct (index_of t arr) as [ti|]; [|apply IH; exact H].
    destruct (ti <=? i)%nat; [apply IH; exact H|].
    apply IH in H. destruct H as [H1 H2]. rewrite move_to_length in H2. split; [|exact H2].
    apply Nat.le_trans with (S i); auto.
Qed.

Lemma reorder_loop_total : forall fuel root i arr,
  (length arr - i < fuel)%nat -> reorder_loop fuel root i arr <> None.
Proof.
  induction fuel as [|f IH]; intros root i arr H; [inversion H|].
  simpl. destruct (nth_error arr i) as [p|] eqn:E; [|discriminate].
  assert (Hi : (i < length arr)%nat) by (apply nth_error_Some; congruence).
  assert (Hnext : forall j arr2, (i <= j)%nat -> length arr2 = length arr ->
                                 reorder_loop f root (S j) arr2 <> None).
  { intros j arr2 Hj Hl. apply IH. rewrite Hl. lia. }
  destruct (lookup_path p root) as [nd|]; [|apply Hnext; auto].
  destruct (is_dir nd); [|apply Hnext; auto].
  destruct (reorder_children (node_children nd) i arr) as [i' arr'] eqn:R.
  destruct (reorder_children_inv _ _ _ _ _ R) as [H1 H2]. apply Hnext; auto.
Qed.

(* post_process never runs out of fuel in reorder_hard_links: [PFuel] can only come from the link
   resolution, where it stands for the endless loop of resolve_link on a link cycle (F11) *)
Lemma post_process_fuel : forall fs,
  post_process fs = PFuel -> resolve_all (fs_root fs) (fs_unres fs) (mkRs [] []) = PFuel.
Proof.
  intros fs. unfold post_process.
  destruct (resolve_all (fs_root fs) (fs_unres fs) (mkRs [] [])) as [st| |]; auto; try discriminate.
  set (arr := alloc_list [] (decorate st [] (fs_root fs)) ++ [[]]).
  pose proof (reorder_loop_total (S (length arr)) (decorate st [] (fs_root fs)) 0 arr) as T.
  destruct (reorder_loop (S (length arr)) (decorate st [] (fs_root fs)) 0 arr); [discriminate|].
  exfalso. apply T; [lia | reflexivity].
Qed.
