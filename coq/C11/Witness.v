(* C11 — concrete host trees used by the non-vacuity examples and by the F09 witness. *)
From Coq Require Import List NArith ZArith Bool Permutation.
From SqfsV Require Import C11.StrOrder C11.FstreeModel C11.PostModel C11.ScanModel C11.CanonProofs C11.ScanProofs.
Import ListNotations.
Local Open Scope N_scope.

Definition st_file (ino : N) : hstat := mkStat FReg 420 0 0 1577836800%Z 1 ino 0 [].
Definition st_dir (ino : N) : hstat := mkStat FDir 493 0 0 1577836800%Z 1 ino 0 [].

Definition n_a : name := [97].
Definition n_m : name := [109].
Definition n_z : name := [122].
Definition n_sub : name := [115; 117; 98].
Definition n_s : name := [115].

(* directory with a, m, sub/s, z where a and z are two names of one inode (10) *)
Definition h_a := HNode n_a (st_file 10) [].
Definition h_m := HNode n_m (st_file 11) [].
Definition h_z := HNode n_z (st_file 10) [].
Definition h_sub := HNode n_sub (st_dir 12) [HNode n_s (st_file 13) []].

Definition w_tree : hnode := HNode [] (st_dir 2) [h_a; h_m; h_sub; h_z].
(* the same directory, readdir returns the entries in the opposite order *)
Definition w_tree_rev : hnode := HNode [] (st_dir 2) [h_z; h_sub; h_m; h_a].

(* the same directory without the second name *)
Definition w_tree_nolinks : hnode := HNode [] (st_dir 2) [h_a; h_m; h_sub].
Definition w_tree_nolinks_rev : hnode := HNode [] (st_dir 2) [h_sub; h_m; h_a].

Definition w_dflt : fsdefaults := mkDefaults 0 0 0 493.

(* gensquashfs --pack-dir DIR --all-root *)
Definition w_cfg : scfg :=
  mkCfg false false false true  false false false false
        false false false false false false false
        0 0 0 0%Z [] None None.

(* ... with --no-hard-links *)
Definition w_cfg_nohl : scfg :=
  mkCfg false false false true  false false true false
        false false false false false false false
        0 0 0 0%Z [] None None.

Definition w_fnmatch (pat s : list N) (pathname : bool) : bool := true.

Lemma w_tree_wf : hwf w_tree.
Proof.
  repeat (constructor; simpl); try (intuition discriminate).
Qed.

Lemma w_tree_perm : hperm w_tree w_tree_rev.
Proof.
  apply hperm_node with (cs1 := [h_a; h_m; h_sub; h_z]).
  - repeat constructor; apply hperm_refl.
  - change [h_z; h_sub; h_m; h_a] with (rev [h_a; h_m; h_sub; h_z]). apply Permutation_rev.
Qed.

Lemma w_tree_nolinks_wf : hwf w_tree_nolinks.
Proof.
  repeat (constructor; simpl); try (intuition discriminate).
Qed.

Lemma w_tree_nolinks_perm : hperm w_tree_nolinks w_tree_nolinks_rev.
Proof.
  apply hperm_node with (cs1 := [h_a; h_m; h_sub]).
  - repeat constructor; apply hperm_refl.
  - change [h_sub; h_m; h_a] with (rev [h_a; h_m; h_sub]). apply Permutation_rev.
Qed.

(* what the packer computes from a host tree: scan, then post processing *)
Definition pack (sorted : bool) (cfg : scfg) (t : hnode) : option (pres ppout) :=
  match scan_dir w_fnmatch w_dflt cfg sorted t (fs_init w_dflt) with
  | Some (fs, _) => Some (post_process fs)
  | None => None
  end.

Definition inum_of (r : option (pres ppout)) (p : path) : nat :=
  match r with
  | Some (POk o) => inode_num o p
  | _ => O
  end.

(* F09 on the model of the unrepaired code *)
Lemma scan_hardlink_order_refuted_l :
  exists t t' cfg,
    hwf t /\ hperm t t' /\ c_nohl cfg = false /\ ~ no_multilinks t /\
    option_map fst (scan_dir w_fnmatch w_dflt cfg false t (fs_init w_dflt)) <>
    option_map fst (scan_dir w_fnmatch w_dflt cfg false t' (fs_init w_dflt)).
Proof.
  exists w_tree, w_tree_rev, w_cfg.
  split; [exact w_tree_wf|]. split; [exact w_tree_perm|]. split; [reflexivity|]. split.
  - intros H. vm_compute in H. inversion H as [|? ? H1 _]; subst. apply H1. vm_compute. tauto.
  - intros H. vm_compute in H. discriminate H.
Qed.
