(* C11 — generic facts about sorted insertion by a string key: the result of inserting a set of
   elements with pairwise distinct keys does not depend on the insertion order. *)
From Coq Require Import List NArith Bool Permutation Sorted.
From SqfsV Require Import C11.StrOrder.
Import ListNotations.

Section Keyed.
  Variable A : Type.
  Variable key : A -> name.

  Definition klt (a b : A) : Prop := str_lt (key a) (key b).

  (* the loop of insert_sorted / the insertion step of the native sort *)
  Fixpoint insert_by (n : A) (l : list A) : list A :=
    match l with
    | [] => [n]
    | x :: r => if str_ltb (key x) (key n) then x :: insert_by n r else n :: x :: r
    end.

  Definition sort_by (l : list A) : list A := fold_right insert_by [] l.

  Lemma insert_by_perm : forall n l, Permutation (insert_by n l) (n :: l).
  Proof.
    induction l as [|x r IH]; simpl; auto.
    destruct (str_ltb (key x) (key n)); auto.
    eapply perm_trans; [apply perm_skip; exact IH | apply perm_swap].
  Qed.

  Lemma insert_by_sorted : forall n l,
    StronglySorted klt l -> ~ In (key n) (map key l) -> StronglySorted klt (insert_by n l).
  Proof.
    induction l as [|x r IH]; simpl; intros Hs Hn.
    - constructor; constructor.
    - inversion Hs as [|? ? Hr Hx]; subst.
      destruct (str_ltb (key x) (key n)) eqn:E.
      + constructor.
        * apply IH; auto.
        * eapply Permutation_Forall; [apply Permutation_sym, insert_by_perm|].
          constructor; auto. apply str_ltb_lt. exact E.
      + apply str_ltb_false in E. destruct E as [E|E].
        * exfalso. apply Hn. left. exact E.
        * constructor; auto. constructor; auto.
          eapply Forall_impl; [|exact Hx]. intros y Hy. unfold klt in *. eapply str_lt_trans; eauto.
  Qed.

  Lemma sort_by_perm : forall l, Permutation (sort_by l) l.
  Proof.
    induction l as [|x r IH]; simpl; auto.
    eapply perm_trans; [apply insert_by_perm|]. auto.
  Qed.

  Lemma sort_by_sorted : forall l, NoDup (map key l) -> StronglySorted klt (sort_by l).
  Proof.
    induction l as [|x r IH]; simpl; intros Hn.
    - constructor.
    - inversion Hn; subst. apply insert_by_sorted; auto.
      intros Hin. apply H1.
      eapply Permutation_in; [apply Permutation_map, sort_by_perm|]. exact Hin.
  Qed.

  (* two strictly sorted lists with the same elements are equal *)
  Lemma sorted_perm_unique : forall l l',
    StronglySorted klt l -> StronglySorted klt l' -> Permutation l l' -> l = l'.
  Proof.
    induction l as [|a r IH]; intros l' Hs Hs' Hp.
    - apply Permutation_nil in Hp. subst. reflexivity.
    - destruct l' as [|b r'].
      + apply Permutation_sym, Permutation_nil in Hp. discriminate.
      + inversion Hs as [|? ? Hr Ha]; subst. inversion Hs' as [|? ? Hr' Hb]; subst.
        assert (Hab : a = b).
        { assert (Ia : In a (b :: r')) by (eapply Permutation_in; [exact Hp | left; reflexivity]).
          assert (Ib : In b (a :: r)) by (eapply Permutation_in; [apply Permutation_sym; exact Hp | left; reflexivity]).
          destruct Ia as [Ia|Ia]; [auto|]. destruct Ib as [Ib|Ib]; [auto|].
          rewrite Forall_forall in Ha, Hb. exfalso.
          eapply str_lt_asym; [apply (Ha _ Ib) | apply (Hb _ Ia)]. }
        subst b. f_equal. apply IH; auto. eapply Permutation_cons_inv; eauto.
  Qed.

  (* insertions of elements with different keys commute, whatever the list (sorted or not) *)
  Lemma insert_by_comm : forall a b l,
    key a <> key b -> insert_by a (insert_by b l) = insert_by b (insert_by a l).
  Proof.
    intros a b l Hk.
    assert (Hab : (str_ltb (key a) (key b) = true /\ str_ltb (key b) (key a) = false) \/
                  (str_ltb (key a) (key b) = false /\ str_ltb (key b) (key a) = true)).
    { destruct (str_total (key a) (key b)) as [L|[E|G]]; [left|contradiction|right]; split.
      - apply str_ltb_lt; auto.
      - apply str_ltb_false; auto.
      - apply str_ltb_false; auto.
      - apply str_ltb_lt; auto. }
    induction l as [|y r IH]; simpl.
    - destruct Hab as [[H1 H2]|[H1 H2]]; rewrite H1, H2; reflexivity.
    - destruct (str_ltb (key y) (key a)) eqn:Ya; destruct (str_ltb (key y) (key b)) eqn:Yb; simpl;
        rewrite ?Ya, ?Yb.
      + rewrite IH. reflexivity.
      + (* y < a, not y < b: then b < a *)
        assert (Hba : str_ltb (key b) (key a) = true).
        { apply str_ltb_lt. apply str_ltb_lt in Ya. apply str_ltb_false in Yb. destruct Yb as [E|L].
          - rewrite <- E. exact Ya.
          - eapply str_lt_trans; eauto. }
        rewrite Hba. simpl. rewrite ?Ya. reflexivity.
      + assert (Hab' : str_ltb (key a) (key b) = true).
        { apply str_ltb_lt. apply str_ltb_lt in Yb. apply str_ltb_false in Ya. destruct Ya as [E|L].
          - rewrite <- E. exact Yb.
          - eapply str_lt_trans; eauto. }
        rewrite Hab'. simpl. rewrite ?Yb. reflexivity.
      + destruct Hab as [[H1 H2]|[H1 H2]]; rewrite H1, H2; simpl; rewrite ?Ya, ?Yb; reflexivity.
  Qed.

  Lemma NoDup_keys_perm : forall l l', Permutation l l' -> NoDup (map key l) -> NoDup (map key l').
  Proof.
    intros l l' Hp Hn. eapply Permutation_NoDup; [apply Permutation_map; exact Hp | exact Hn].
  Qed.

  (* insert_sorted_order_free, generic form: a sequence of insertions into any list *)
  Lemma fold_insert_perm : forall l l',
    Permutation l l' -> NoDup (map key l) ->
    forall base, fold_left (fun acc n => insert_by n acc) l base = fold_left (fun acc n => insert_by n acc) l' base.
  Proof.
    induction 1 as [|x l l' Hp IH|x y l|l l' l'' Hp1 IH1 Hp2 IH2]; intros Hn base; simpl.
    - reflexivity.
    - inversion Hn; subst. apply IH; auto.
    - inversion Hn as [|? ? Hx Hn']; subst. f_equal. apply insert_by_comm.
      intros E. apply Hx. left. congruence.
    - rewrite IH1; auto. apply IH2. eapply NoDup_keys_perm; eauto.
  Qed.

  Lemma sort_by_perm_eq : forall l l', Permutation l l' -> NoDup (map key l) -> sort_by l = sort_by l'.
  Proof.
    induction 1 as [|x l l' Hp IH|x y l|l l' l'' Hp1 IH1 Hp2 IH2]; intros Hn; simpl.
    - reflexivity.
    - inversion Hn; subst. rewrite IH; auto.
    - inversion Hn as [|? ? Hx Hn']; subst. apply insert_by_comm.
      intros E. apply Hx. left. congruence.
    - rewrite IH1; auto. apply IH2. eapply NoDup_keys_perm; eauto.
  Qed.

  (* whatever (correct) sorting algorithm qsort is: with distinct keys its result is [sort_by] *)
  Lemma sort_by_unique : forall l l',
    NoDup (map key l) -> Permutation l l' -> StronglySorted klt l' -> l' = sort_by l.
  Proof.
    intros l l' Hn Hp Hs. apply sorted_perm_unique; auto.
    - apply sort_by_sorted; auto.
    - eapply perm_trans; [apply Permutation_sym; exact Hp | apply Permutation_sym, sort_by_perm].
  Qed.

  Lemma fold_insert_sorted : forall l base,
    StronglySorted klt base -> NoDup (map key (l ++ base)) ->
    StronglySorted klt (fold_left (fun acc n => insert_by n acc) l base).
  Proof.
    induction l as [|x r IH]; simpl; intros base Hs Hn; auto.
    inversion Hn as [|? ? Hx Hn']; subst.
    apply IH.
    - apply insert_by_sorted; auto. intros Hin. apply Hx. rewrite map_app. apply in_or_app. right. exact Hin.
    - eapply Permutation_NoDup; [|exact Hn].
      change (key x :: map key (r ++ base)) with (map key (x :: r ++ base)).
      apply Permutation_map. eapply perm_trans; [apply Permutation_middle|].
      apply Permutation_app_head. apply Permutation_sym, insert_by_perm.
  Qed.
End Keyed.

Arguments insert_by {A} key n l.
Arguments sort_by {A} key l.
Arguments klt {A} key a b.
