(* C11 — insert_sorted and the sorting native iterator: order independence. *)
From Coq Require Import List NArith Bool Permutation Sorted.
From SqfsV Require Import C11.StrOrder C11.FstreeModel C11.PostModel C11.ScanModel C11.OrderProofs.
Import ListNotations.

(* ---------- insert_sorted (fstree.c) ---------- *)

Lemma insert_sorted_is : forall n l, insert_sorted n l = insert_by node_name n l.
Proof. induction l as [|x r IH]; simpl; auto; rewrite ?IH; reflexivity. Qed.

Definition add_children (l base : list tnode) : list tnode :=
  fold_left (fun acc n => insert_sorted n acc) l base.

Lemma add_children_is : forall l base,
  add_children l base = fold_left (fun acc n => insert_by node_name n acc) l base.
Proof.
  unfold add_children. induction l as [|x r IH]; simpl; intros; auto;
    try (rewrite insert_sorted_is; apply IH).
Qed.

Lemma insert_sorted_order_free_l : forall l l' base,
  Permutation l l' -> NoDup (map node_name l) -> add_children l base = add_children l' base.
Proof.
  intros. rewrite !add_children_is. apply fold_insert_perm; auto.
Qed.

Definition names_sorted (l : list tnode) : Prop := StronglySorted (klt node_name) l.

Lemma insert_sorted_sorted_l : forall l base,
  names_sorted base -> NoDup (map node_name (l ++ base)) -> names_sorted (add_children l base).
Proof.
  intros. unfold names_sorted. rewrite add_children_is. apply fold_insert_sorted; auto.
Qed.

Lemma insert_sorted_perm_l : forall l base, Permutation (add_children l base) (l ++ base).
Proof.
  unfold add_children. induction l as [|x r IH]; simpl; intros; auto.
  eapply perm_trans; [apply IH|].
  rewrite insert_sorted_is.
  eapply perm_trans; [apply Permutation_app_head, insert_by_perm|].
  apply Permutation_sym, Permutation_middle.
Qed.

(* the child list is THE sorted arrangement of the inserted nodes: any other sorted arrangement of
   the same nodes is equal to it *)
Lemma insert_sorted_canonical_l : forall l base other,
  names_sorted base -> NoDup (map node_name (l ++ base)) ->
  Permutation other (l ++ base) -> names_sorted other -> other = add_children l base.
Proof.
  intros l base other Hb Hn Hp Hs.
  apply (sorted_perm_unique _ node_name); auto.
  - apply insert_sorted_sorted_l; auto.
  - eapply perm_trans; [exact Hp|]. apply Permutation_sym, insert_sorted_perm_l.
Qed.

(* ---------- the repaired native iterator: sort_h / canon ---------- *)

Lemma insert_h_is : forall n l, insert_h n l = insert_by hname n l.
Proof. induction l as [|x r IH]; simpl; auto; rewrite ?IH; reflexivity. Qed.

Lemma sort_h_is : forall l, sort_h l = sort_by hname l.
Proof.
  unfold sort_h, sort_by. induction l as [|x r IH]; simpl; auto;
    try (rewrite IH; apply insert_h_is).
Qed.

(* [hperm t t']: t' is t with the entries of every directory returned in another order *)
Inductive hperm : hnode -> hnode -> Prop :=
| hperm_node : forall nm s cs cs1 cs',
    Forall2 hperm cs cs1 -> Permutation cs1 cs' -> hperm (HNode nm s cs) (HNode nm s cs').

(* names within one directory are pairwise distinct *)
Inductive hwf : hnode -> Prop :=
| hwf_node : forall nm s cs, NoDup (map hname cs) -> Forall hwf cs -> hwf (HNode nm s cs).

Lemma hnode_ind' (P : hnode -> Prop) :
  (forall nm s cs, Forall P cs -> P (HNode nm s cs)) -> forall t, P t.
Proof.
  intros H. fix IH 1. intros [nm s cs]. apply H.
  induction cs as [|c r IHr]; constructor; auto.
Qed.

Lemma hperm_refl : forall t, hperm t t.
Proof.
  induction t as [nm s cs IH] using hnode_ind'.
  apply hperm_node with (cs1 := cs); auto.
  induction IH; constructor; auto.
Qed.

Lemma hperm_name : forall t t', hperm t t' -> hname t = hname t'.
Proof. intros t t' H. inversion H; reflexivity. Qed.

Lemma canon_name : forall t, hname (canon t) = hname t.
Proof. intros [nm s cs]. reflexivity. Qed.

Lemma map_hname_canon : forall l, map hname (map canon l) = map hname l.
Proof. induction l as [|x r IH]; simpl; auto. rewrite canon_name, IH. reflexivity. Qed.

Lemma Forall2_hperm_names : forall cs cs1, Forall2 hperm cs cs1 -> map hname cs1 = map hname cs.
Proof.
  induction 1; simpl; auto. f_equal; auto. symmetry. apply hperm_name. auto.
Qed.

Lemma canon_hperm : forall t t', hwf t -> hperm t t' -> canon t = canon t'.
Proof.
  induction t as [nm s cs IH] using hnode_ind'. intros t' Hw Hp.
  inversion Hp as [? ? ? cs1 cs' HF HP]; subst. inversion Hw as [? ? ? Hn Hws]; subst.
  simpl. f_equal.
  assert (Hmap : map canon cs = map canon cs1).
  { clear Hn HP Hp Hw. revert Hws IH. induction HF as [|x y l l' Hxy HF IHF]; intros Hws IH; simpl; auto.
    inversion Hws; subst. inversion IH; subst. f_equal; auto. }
  rewrite Hmap, !sort_h_is. apply sort_by_perm_eq.
  - apply Permutation_map. exact HP.
  - rewrite map_hname_canon, (Forall2_hperm_names _ _ HF). exact Hn.
Qed.

(* the sorted listing is sorted and complete: [sort_h] really is a sort *)
Lemma sort_h_sorted : forall l, NoDup (map hname l) -> StronglySorted (klt hname) (sort_h l).
Proof. intros. rewrite sort_h_is. apply sort_by_sorted. auto. Qed.

Lemma sort_h_perm : forall l, Permutation (sort_h l) l.
Proof. intros. rewrite sort_h_is. apply sort_by_perm. Qed.

Lemma sort_h_unique : forall l l',
  NoDup (map hname l) -> Permutation l l' -> StronglySorted (klt hname) l' -> l' = sort_h l.
Proof. intros. rewrite sort_h_is. apply sort_by_unique; auto. Qed.

Section ScanSorted.
  Variable fnmatch : list N -> list N -> bool -> bool.
  Variable dflt : fsdefaults.
  Variable cfg : scfg.

  (* scan_order_free: with the repaired native iterator the whole result of the scan (tree, unresolved
     links, even the order in which entries are delivered) is the same for every enumeration order *)
  Lemma scan_order_free_l : forall t t' fs,
    hwf t -> hperm t t' ->
    scan_dir fnmatch dflt cfg true t fs = scan_dir fnmatch dflt cfg true t' fs.
  Proof.
    intros t t' fs Hw Hp. unfold scan_dir. rewrite (canon_hperm t t' Hw Hp). reflexivity.
  Qed.

  (* scan, then post processing *)
  Definition pack_with (sorted : bool) (t : hnode) (fs : fstree) :=
    option_map (fun r => post_process (fst r)) (scan_dir fnmatch dflt cfg sorted t fs).

  Lemma pack_order_free_l : forall t t' fs,
    hwf t -> hperm t t' -> pack_with true t fs = pack_with true t' fs.
  Proof.
    intros. unfold pack_with. rewrite (scan_order_free_l t t' fs); auto.
  Qed.
End ScanSorted.
