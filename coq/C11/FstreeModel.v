(* C11 — model of lib/fstree/src/fstree.c: the in-memory tree gensquashfs builds.
   Definitions only.

   tree_node_t            -> [tnode] (name, attributes, children in list order = the `next` chain)
   insert_sorted          -> [insert_sorted]
   child_by_name          -> [find_child]
   mknode                 -> [mknode]
   fstree_get_node_by_path-> [lookup_path] (create_implicitly = false, stop_at_parent = false),
                             [parent_ok]   (create_implicitly = false, stop_at_parent = true),
                             the creating variant is fused into [add_path]
   fstree_add_generic     -> [add_generic] / [fs_add]

   Paths are lists of components (the C code walks '/'-separated strings; every path the directory
   scan produces is a clean relative path, see ScanModel.v).  Nodes are identified by their path
   where the C code uses pointers (links_unresolved, target_node, the inode array).
   Not modelled: the EMLINK refusal at link_count = 0xFFFFFFFF (a directory with 2^32-2 entries);
   link counts are unbounded [N]. *)
From Coq Require Import List NArith ZArith Bool.
From SqfsV Require Import C11.StrOrder.
Import ListNotations.
Local Open Scope N_scope.

Inductive ftype := FReg | FDir | FLnk | FBlk | FChr | FFifo | FSock.

Definition ftype_eqb (a b : ftype) : bool :=
  match a, b with
  | FReg, FReg | FDir, FDir | FLnk, FLnk | FBlk, FBlk | FChr, FChr | FFifo, FFifo | FSock, FSock => true
  | _, _ => false
  end.

Definition path := list name.

Record tattr := mkAttr {
  a_type : ftype;
  a_perm : N;                    (* mode & 07777 *)
  a_uid : N;
  a_gid : N;
  a_mtime : N;                   (* mod_time, 32 bit *)
  a_links : N;                   (* link_count *)
  a_implicit : bool;             (* FLAG_DIR_CREATED_IMPLICITLY *)
  a_hard : bool;                 (* FLAG_LINK_IS_HARD *)
  a_input : option (list N);     (* data.file.input_file (regular files; None = NULL) *)
  a_target : list N;             (* data.target of a symbolic link *)
  a_hardtgt : path;              (* data.target of a hard link (canonical path), as components *)
  a_devno : N;                   (* data.devno *)
  a_resolved : option path       (* FLAG_LINK_RESOVED and data.target_node (node named by its path) *)
}.

Inductive tnode := TNode (nm : name) (a : tattr) (ch : list tnode).

Definition node_name (n : tnode) : name := match n with TNode nm _ _ => nm end.
Definition node_attr (n : tnode) : tattr := match n with TNode _ a _ => a end.
Definition node_children (n : tnode) : list tnode := match n with TNode _ _ ch => ch end.
Definition is_dir (n : tnode) : bool := ftype_eqb (a_type (node_attr n)) FDir.

(* fstree_defaults_t: uid, gid, mtime (u32), mode & 07777 *)
Record fsdefaults := mkDefaults { fd_uid : N; fd_gid : N; fd_mtime : N; fd_perm : N }.

(* sqfs_dir_entry_t as handed to fstree_add_generic (size, dev, inode are not read there) *)
Record gent := mkEnt {
  e_path : path;
  e_type : ftype;
  e_perm : N;
  e_uid : N;
  e_gid : N;
  e_mtime : Z;                   (* sqfs_s64 *)
  e_rdev : N;
  e_hard : bool                  (* SQFS_DIR_ENTRY_FLAG_HARD_LINK *)
}.

(* ---- insert_sorted: walk while strcmp(it->name, n->name) < 0, link n in front of it ---- *)
Fixpoint insert_sorted (n : tnode) (l : list tnode) : list tnode :=
  match l with
  | [] => [n]
  | x :: r => if str_ltb (node_name x) (node_name n) then x :: insert_sorted n r else n :: x :: r
  end.

(* ---- child_by_name: first child whose name equals the component ---- *)
Fixpoint find_child (nm : name) (l : list tnode) : option tnode :=
  match l with
  | [] => None
  | c :: r => if str_eqb (node_name c) nm then Some c else find_child nm r
  end.

(* in-place modification of that child, written as replacement of the first child of that name *)
Fixpoint replace_child (nm : name) (new : tnode) (l : list tnode) : list tnode :=
  match l with
  | [] => []
  | c :: r => if str_eqb (node_name c) nm then new :: r else c :: replace_child nm new r
  end.

(* ---- clamp_timestamp ---- *)
Definition clamp_ts (t : Z) : N :=
  if (t <? 0)%Z then 0 else if (t >? 4294967295)%Z then 4294967295 else Z.to_N t.

(* (sqfs_u32)ts, the unclamped store in fstree_add_generic's "fill in an implicit directory" branch *)
Definition trunc_u32 (t : Z) : N := Z.to_N (t mod 4294967296)%Z.

(* ---- canonicalize_name on a hard link target, at component level (this is C18's canon_spec:
        split at '/', drop empty and "." components, refuse ".."), result kept as components ---- *)
Definition slash : N := 47.
Definition dot : N := 46.

Fixpoint split_slash_aux (s : list N) (cur : list N) : list (list N) :=
  match s with
  | [] => [rev cur]
  | c :: r => if N.eqb c slash then rev cur :: split_slash_aux r [] else split_slash_aux r (c :: cur)
  end.
Definition split_slash (s : list N) : list (list N) := split_slash_aux s [].

Definition is_dot (c : name) : bool := match c with [d] => N.eqb d dot | _ => false end.
Definition is_dotdot (c : name) : bool :=
  match c with [d1; d2] => N.eqb d1 dot && N.eqb d2 dot | _ => false end.
Definition is_empty (c : name) : bool := match c with [] => true | _ => false end.

Definition canon_comps (s : list N) : option path :=
  let comps := split_slash s in
  if existsb is_dotdot comps then None
  else Some (filter (fun c => negb (is_empty c || is_dot c)) comps).

Fixpoint join_slash (p : path) : list N :=
  match p with
  | [] => []
  | [c] => c
  | c :: r => c ++ slash :: join_slash r
  end.

(* ---- mknode (without the link into the parent) ----
   None: canonicalize_name refused the hard link target (EINVAL), or a hard link entry without a
   target (the C code would keep a NULL target; not reachable from the tools). *)
Definition mknode (nm : name) (e : gent) (extra : option (list N)) : option tnode :=
  let hard := e_hard e in
  let typ := if hard then FLnk else e_type e in
  let islnk := ftype_eqb typ FLnk in
  let hp := if hard then match extra with Some x => canon_comps x | None => None end else Some [] in
  match hp with
  | None => None
  | Some hpath =>
    Some (TNode nm
      (mkAttr typ
              (if islnk then 511 else e_perm e)
              (e_uid e) (e_gid e) (clamp_ts (e_mtime e))
              (if ftype_eqb typ FDir then 2 else 1)
              false hard
              (if ftype_eqb typ FReg then extra else None)
              (if islnk && negb hard then match extra with Some x => x | None => [] end else [])
              hpath
              (if ftype_eqb typ FBlk || ftype_eqb typ FChr then e_rdev e else 0)
              None)
      [])
  end.

(* the directory fstree_get_node_by_path creates for a missing component *)
Definition implicit_dir (d : fsdefaults) (nm : name) : tnode :=
  TNode nm (mkAttr FDir (fd_perm d) (fd_uid d) (fd_gid d) (fd_mtime d) 2 true false None [] [] 0 None) [].

Definition inc_links (a : tattr) : tattr :=
  mkAttr (a_type a) (a_perm a) (a_uid a) (a_gid a) (a_mtime a) (a_links a + 1) (a_implicit a) (a_hard a)
         (a_input a) (a_target a) (a_hardtgt a) (a_devno a) (a_resolved a).

(* fstree_add_generic, the node exists already: only an implicitly created directory may be
   "created" again, as a directory; uid, gid, mode and (unclamped) mtime are overwritten *)
Definition fill_dir (c : tnode) (e : gent) : option tnode :=
  match c with
  | TNode nm a ch =>
      if ftype_eqb (a_type a) FDir && ftype_eqb (e_type e) FDir && a_implicit a
      then Some (TNode nm (mkAttr FDir (e_perm e) (e_uid e) (e_gid e) (trunc_u32 (e_mtime e)) (a_links a)
                                  false (a_hard a) (a_input a) (a_target a) (a_hardtgt a) (a_devno a)
                                  (a_resolved a)) ch)
      else None
  end.

(* fstree_add_generic below the root: fstree_get_node_by_path(create_implicitly, stop_at_parent),
   then child_by_name in the parent, then fill_dir or mknode + insert_sorted + parent->link_count++.
   Recursion on the path components; every node walked through must be a directory (ENOTDIR). *)
Fixpoint add_path (d : fsdefaults) (comps : path) (e : gent) (extra : option (list N)) (n : tnode)
  {struct comps} : option tnode :=
  match n with
  | TNode nm a ch =>
    if negb (ftype_eqb (a_type a) FDir) then None else
    match comps with
    | [] => None
    | c :: rest =>
      match rest with
      | [] =>
          match find_child c ch with
          | Some x =>
              match fill_dir x e with
              | Some x' => Some (TNode nm a (replace_child c x' ch))
              | None => None
              end
          | None =>
              match mknode c e extra with
              | Some x => Some (TNode nm (inc_links a) (insert_sorted x ch))
              | None => None
              end
          end
      | _ :: _ =>
          match find_child c ch with
          | Some x =>
              match add_path d rest e extra x with
              | Some x' => Some (TNode nm a (replace_child c x' ch))
              | None => None
              end
          | None =>
              match add_path d rest e extra (implicit_dir d c) with
              | Some x' => Some (TNode nm (inc_links a) (insert_sorted x' ch))
              | None => None
              end
          end
      end
    end
  end.

Definition add_generic (d : fsdefaults) (root : tnode) (e : gent) (extra : option (list N)) : option tnode :=
  if ftype_eqb (e_type e) FLnk && match extra with None => true | Some _ => false end then None
  else match e_path e with
       | [] => fill_dir root e
       | p => add_path d p e extra root
       end.

(* fstree_get_node_by_path(fs, root, path, false, false) *)
Fixpoint lookup_path (comps : path) (n : tnode) {struct comps} : option tnode :=
  match comps with
  | [] => Some n
  | c :: rest =>
      if negb (is_dir n) then None
      else match find_child c (node_children n) with
           | Some x => lookup_path rest x
           | None => None
           end
  end.

(* fstree_get_node_by_path(fs, root, path, false, true) != NULL *)
Fixpoint parent_ok (comps : path) (n : tnode) {struct comps} : bool :=
  match comps with
  | [] => true
  | c :: rest =>
      if negb (is_dir n) then false
      else match rest with
           | [] => true
           | _ :: _ => match find_child c (node_children n) with
                       | Some x => parent_ok rest x
                       | None => false
                       end
           end
  end.

(* fstree_get_node_by_path(fs, root, path, true, false): mkdir -p with implicit directories *)
Fixpoint mkdir_path (d : fsdefaults) (comps : path) (n : tnode) {struct comps} : option tnode :=
  match comps with
  | [] => Some n
  | c :: rest =>
      match n with
      | TNode nm a ch =>
          if negb (ftype_eqb (a_type a) FDir) then None
          else match find_child c ch with
               | Some x =>
                   match mkdir_path d rest x with
                   | Some x' => Some (TNode nm a (replace_child c x' ch))
                   | None => None
                   end
               | None =>
                   match mkdir_path d rest (implicit_dir d c) with
                   | Some x' => Some (TNode nm (inc_links a) (insert_sorted x' ch))
                   | None => None
                   end
               end
      end
  end.

(* fstree_t: the root and the links_unresolved list (most recently created link first) *)
Record fstree := mkFs { fs_root : tnode; fs_unres : list path }.

(* fstree_init *)
Definition fs_init (d : fsdefaults) : fstree :=
  mkFs (TNode [] (mkAttr FDir (fd_perm d) (fd_uid d) (fd_gid d) (fd_mtime d) 2 true false None [] [] 0 None) []) [].

Definition is_none {A} (o : option A) : bool := match o with None => true | Some _ => false end.

(* fstree_add_generic including the links_unresolved bookkeeping of mknode: a hard link entry is
   queued iff a new node was created for it (the path did not resolve before the call) *)
Definition fs_add (d : fsdefaults) (fs : fstree) (e : gent) (extra : option (list N)) : option fstree :=
  match add_generic d (fs_root fs) e extra with
  | None => None
  | Some r =>
      Some (mkFs r (if e_hard e && is_none (lookup_path (e_path e) (fs_root fs))
                    then e_path e :: fs_unres fs else fs_unres fs))
  end.

(* glob_files (bin/gensquashfs/src/glob.c): the target node of a glob line is fetched with
   create_implicitly and must be a directory *)
Definition glob_target (d : fsdefaults) (fs : fstree) (comps : path) : option fstree :=
  match mkdir_path d comps (fs_root fs) with
  | Some r =>
      match lookup_path comps r with
      | Some n => if is_dir n then Some (mkFs r (fs_unres fs)) else None
      | None => None
      end
  | None => None
  end.
