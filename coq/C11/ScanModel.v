(* C11 — model of the directory scan of gensquashfs.  Definitions only.

   lib/sqfs/src/io/dir_unix.c        native iterator: one directory, entries in the order of the host's
                                     readdir (the oracle: the order of the [cs] list of an [HNode]);
                                     the repaired iterator (fixes/F09) reads all names first and
                                     qsorts them with strcmp: [sort_h] / [canon]
   lib/sqfs/src/io/dir_rec.c         recursive pre-order walk, "." and ".." dropped, parent path prepended
   lib/sqfs/src/io/dir_hl.c          hard link filter: first path seen per (dev, ino) is the file, later
                                     ones become links to that path
   lib/common/src/dir_tree_iterator.c  should_skip / prefix / apply_changes / NO_DIR / name pattern
   bin/gensquashfs/src/glob.c        scan_directory: parent lookup, read_link / input path, fstree_add_generic

   The four iterator layers are pull-based and stacked; their composition is written here as one
   recursive function over the host tree that threads the state the layers keep (the (dev, ino) map of
   the hard link filter, the fstree).  "ignore_subdir" = the recursive call is not made.
   I/O failures (readdir, fstatat, openat, readlink) are not modelled. *)
From Coq Require Import List NArith ZArith Bool.
From SqfsV Require Import C11.StrOrder C11.FstreeModel.
Import ListNotations.
Local Open Scope N_scope.

(* lstat result of a host directory entry (+ readlink for symbolic links) *)
Record hstat := mkStat {
  h_type : ftype;
  h_perm : N;
  h_uid : N;
  h_gid : N;
  h_mtime : Z;
  h_dev : N;
  h_ino : N;
  h_rdev : N;
  h_target : list N
}.

(* a host file system object with, for directories, its entries IN THE ORDER readdir RETURNS THEM
   ("." and ".." may be present, they are entries of type directory without children here) *)
Inductive hnode := HNode (nm : name) (s : hstat) (cs : list hnode).

Definition hname (n : hnode) : name := match n with HNode nm _ _ => nm end.
Definition hstat_of (n : hnode) : hstat := match n with HNode _ s _ => s end.
Definition hchildren (n : hnode) : list hnode := match n with HNode _ _ cs => cs end.

(* ---- repaired native iterator: qsort(names, strcmp) before anything is reported.
        Names in one directory are distinct and strcmp is a total order on them, so every correct
        sorting algorithm returns the same array; insertion sort stands for qsort. ---- *)
Fixpoint insert_h (n : hnode) (l : list hnode) : list hnode :=
  match l with
  | [] => [n]
  | x :: r => if str_ltb (hname x) (hname n) then x :: insert_h n r else n :: x :: r
  end.

Definition sort_h (l : list hnode) : list hnode := fold_right insert_h [] l.

(* the host tree as the stack above the repaired native iterator sees it *)
Fixpoint canon (n : hnode) : hnode :=
  match n with
  | HNode nm s cs => HNode nm s (sort_h (map canon cs))
  end.

(* dir_tree_cfg_t + the two extra arguments of scan_directory *)
Record scfg := mkCfg {
  c_keep_time : bool; c_keep_uid : bool; c_keep_gid : bool; c_keep_mode : bool;
  c_onefs : bool; c_norec : bool; c_nohl : bool; c_fullpath : bool;
  c_no_sock : bool; c_no_slink : bool; c_no_file : bool; c_no_blk : bool;
  c_no_dir : bool; c_no_chr : bool; c_no_fifo : bool;
  c_def_uid : N; c_def_gid : N; c_def_perm : N; c_def_mtime : Z;
  c_prefix : path;                  (* cfg.prefix, canonical, as components *)
  c_pattern : option (list N);      (* cfg.name_pattern *)
  c_fileprefix : option (list N)    (* scan_directory's file_prefix *)
}.

(* should_skip's type mask *)
Definition type_masked (cfg : scfg) (t : ftype) : bool :=
  match t with
  | FSock => c_no_sock cfg
  | FLnk => c_no_slink cfg
  | FReg => c_no_file cfg
  | FBlk => c_no_blk cfg
  | FChr => c_no_chr cfg
  | FFifo => c_no_fifo cfg
  | FDir => false
  end.

(* one entry as it reaches scan_directory, with what scan_directory did with it *)
Record sent := mkSent { s_ent : gent; s_extra : option (list N); s_added : bool }.

Record wstate := mkW {
  w_hl : list ((N * N) * path);     (* dir_hl.c inumtree: (dev, ino) -> first path seen *)
  w_fs : fstree;
  w_stream : list sent              (* newest first *)
}.

Fixpoint hl_lookup (k : N * N) (m : list ((N * N) * path)) : option path :=
  match m with
  | [] => None
  | ((d, i), p) :: r => if N.eqb d (fst k) && N.eqb i (snd k) then Some p else hl_lookup k r
  end.

Definition is_dots (nm : name) : bool := is_dot nm || is_dotdot nm.

Definition last_comp (p : path) : name := last p [].

Definition is_nil {A : Type} (l : list A) : bool := match l with [] => true | _ => false end.

(* run a step function over a list, stopping at the first failure *)
Section Iter.
  Variables (S A : Type) (f : A -> S -> option S).
  Fixpoint oiter (l : list A) (st : S) {struct l} : option S :=
    match l with
    | [] => Some st
    | c :: r => match f c st with
                | Some st' => oiter r st'
                | None => None
                end
    end.
End Iter.
Arguments oiter {S A} f l st.

Section Scan.
  (* fnmatch(pattern, string, FNM_PATHNAME if the flag is set else 0) == 0; no contract assumed *)
  Variable fnmatch : list N -> list N -> bool -> bool.
  Variable dflt : fsdefaults.
  Variable cfg : scfg.

  Definition pattern_ok (full : path) : bool :=
    match c_pattern cfg with
    | None => true
    | Some pat => if c_fullpath cfg then fnmatch pat (join_slash full) true
                  else fnmatch pat (last_comp full) false
    end.

  (* what scan_directory passes as `extra` *)
  Definition scan_extra (typ : ftype) (hard : bool) (tgt : path) (s : hstat) (rel : path) : option (list N) :=
    if ftype_eqb typ FLnk then Some (if hard then join_slash tgt else h_target s)
    else if ftype_eqb typ FReg &&
            (negb (is_nil (c_prefix cfg)) || negb (is_none (c_fileprefix cfg)))
    then Some (match c_fileprefix cfg with
               | None => join_slash rel
               | Some fp => fp ++ slash :: join_slash rel
               end)
    else None.

  (* dir_hl.c next(): (is a hard link, its target, new map) *)
  Definition hl_step (s : hstat) (rel : path) (hl : list ((N * N) * path))
    : bool * path * list ((N * N) * path) :=
    if c_nohl cfg || ftype_eqb (h_type s) FDir then (false, [], hl)
    else match hl_lookup (h_dev s, h_ino s) hl with
         | Some t => (true, t, hl)
         | None => (false, [], ((h_dev s, h_ino s), rel) :: hl)
         end.

  (* dir_tree_iterator.c next(): what happens to one entry coming out of the hard link filter *)
  Inductive decision :=
  | DSkip                                        (* should_skip: dropped, sub directory ignored *)
  | DPass                                        (* NO_DIR / pattern mismatch: dropped, sub directory still entered *)
  | DDeliver (e : gent) (extra : option (list N)).  (* handed to scan_directory *)

  Definition classify (pdev : N) (rel : path) (s : hstat) (hard : bool) (tgt : path) : decision :=
    let isdir := ftype_eqb (h_type s) FDir in
    let mount := negb (N.eqb (h_dev s) pdev) in                     (* dir_unix.c: MOUNT_POINT flag *)
    let typ := if hard then FLnk else h_type s in
    if (c_onefs cfg && mount) || type_masked cfg typ then DSkip
    else
      let full := c_prefix cfg ++ rel in
      if isdir && c_no_dir cfg then DPass
      else if negb (pattern_ok full) then DPass
      else DDeliver (mkEnt full typ
                           (if c_keep_mode cfg then (if hard then 511 else h_perm s) else c_def_perm cfg)
                           (if c_keep_uid cfg then h_uid s else c_def_uid cfg)
                           (if c_keep_gid cfg then h_gid s else c_def_gid cfg)
                           (if c_keep_time cfg then h_mtime s else c_def_mtime cfg)
                           (h_rdev s) hard)
                    (scan_extra typ hard tgt s rel).

  (* is the sub directory entered (dir_rec.c pushes it unless ignore_subdir was called) *)
  Definition enters (s : hstat) : bool := ftype_eqb (h_type s) FDir && negb (c_norec cfg).

  Fixpoint walk_node (pdev : N) (pp : path) (n : hnode) (st : wstate) {struct n} : option wstate :=
    match n with
    | HNode nm s cs =>
      if is_dots nm then Some st else                               (* dir_rec.c next() *)
      let rel := pp ++ [nm] in
      let '(hard, tgt, hl1) := hl_step s rel (w_hl st) in
      let descend (st' : wstate) : option wstate :=
        if enters s then oiter (walk_node (h_dev s) rel) cs st' else Some st' in
      match classify pdev rel s hard tgt with
      | DSkip => Some (mkW hl1 (w_fs st) (w_stream st))
      | DPass => descend (mkW hl1 (w_fs st) (w_stream st))
      | DDeliver e extra =>
          (* scan_directory *)
          if negb (parent_ok (e_path e) (fs_root (w_fs st))) then
            Some (mkW hl1 (w_fs st) (mkSent e extra false :: w_stream st))
          else
            match fs_add dflt (w_fs st) e extra with
            | None => None
            | Some fs' => descend (mkW hl1 fs' (mkSent e extra true :: w_stream st))
            end
      end
    end.

  Definition walk_list (pdev : N) (pp : path) (l : list hnode) (st : wstate) : option wstate :=
    oiter (walk_node pdev pp) l st.

  (* dir_tree_iterator_create(path, cfg) + scan_directory(fs, dir, strlen(prefix), file_prefix) on the
     directory [h]; [sorted] = the native iterator is the repaired (sorting) one *)
  Definition scan_dir (sorted : bool) (h : hnode) (fs : fstree) : option (fstree * list sent) :=
    let h' := if sorted then canon h else h in
    match walk_list (h_dev (hstat_of h')) [] (hchildren h') (mkW [] fs []) with
    | Some st => Some (w_fs st, rev (w_stream st))
    | None => None
    end.
End Scan.
