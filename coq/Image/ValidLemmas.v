(* Image — what the meta writer / table writer leave behind satisfies the block-level checks of the executable
   validator (ValidModel: block_ok, area_ok, tile, table_span). *)
From Coq Require Import List NArith ZArith Lia Bool ZifyBool ZifyNat ZifyN.
From SqfsV Require Import Base.Bytes Gen.Constants C03.Common C03.ListN C03.MetaModel C03.MetaProofs C03.MetaRT
  C03.DirModel C03.TableModel C03.TableProofs.
From SqfsV Require C14.SuperModel C14.SuperProofs.
From SqfsV Require Import C01.GenC01 C01.Res C01.InodeModel C01.InodeProofs.
From SqfsV Require Import Img.TreeModel Img.SerDefs Img.SerProofs Img.Final Img.Domain Img.TreeRT.
From SqfsV Require Import Image.FinishModel Image.ReaderModel Image.ValidModel Image.ReadLemmas Image.TableRead
  Image.SerX Image.FinishProofs.
Import ListNotations.
Local Open Scope N_scope.

Section BL.
  Variable compress : list N -> cres.
  Variable uncompress : list N -> option (list N).
  Hypothesis compress_ok :
    forall b c, compress b = CData c -> lenN c <= lenN b /\ uncompress c = Some b.

  Notation enc := (enc compress).
  Notation blk_ok := (blk_ok).

  Lemma block_ok_enc r : blk_ok r -> block_ok (r, stored_size compress r, is_comp compress r) = true.
  Proof.
    intro OK. pose proof (stored_le compress uncompress compress_ok r OK) as SL. pose proof OK as [H0 H1].
    rewrite MB_val in H1. unfold block_ok, META_SIZE.
    destruct (enc_cases compress uncompress compress_ok r OK) as [[IC _]|[IC E]]; rewrite IC.
    - rewrite !andb_true_iff, !N.leb_le. lia.
    - assert (S : stored_size compress r = lenN r).
      { unfold stored_size. rewrite E, lenN_app. unfold le16. rewrite lenN_le. lia. }
      rewrite !andb_true_iff, !N.leb_le, N.eqb_eq. lia.
  Qed.

  (* a metadata area written by the meta writer, found in the image between a and b *)
  Lemma area_ok_written img raws pre post a b :
    Forall blk_ok raws -> img = pre ++ concat (map enc raws) ++ post -> a = lenN pre ->
    b = lenN pre + lenN (concat (map enc raws)) ->
    area_ok uncompress img a b = true.
  Proof.
    intros F -> -> ->. unfold area_ok, area.
    assert (C : (lenN pre <=? lenN pre + lenN (concat (map enc raws))) &&
                (lenN pre + lenN (concat (map enc raws)) <=? lenN (pre ++ concat (map enc raws) ++ post)) = true).
    { rewrite andb_true_iff, !N.leb_le, !lenN_app. lia. }
    rewrite C. rewrite (slice_app pre (concat (map enc raws)) post) by reflexivity.
    pose proof (parse_blocks_spec compress uncompress compress_ok raws [] (length (concat (map enc raws))) F
                  (blocks_le_disk compress uncompress compress_ok raws F)) as P.
    cbn [app] in P. rewrite lenN_nil in P. rewrite P.
    apply forallb_forall. intros x Hx. apply in_map_iff in Hx. destruct Hx as (r & <- & Hr).
    apply block_ok_enc. rewrite Forall_forall in F. exact (F r Hr).
  Qed.

  Lemma area_written img raws pre post a b :
    Forall blk_ok raws -> img = pre ++ concat (map enc raws) ++ post -> a = lenN pre ->
    b = lenN pre + lenN (concat (map enc raws)) ->
    area uncompress img a b = Some (map (fun r => (r, stored_size compress r, is_comp compress r)) raws).
  Proof.
    intros F -> -> ->. unfold area.
    assert (C : (lenN pre <=? lenN pre + lenN (concat (map enc raws))) &&
                (lenN pre + lenN (concat (map enc raws)) <=? lenN (pre ++ concat (map enc raws) ++ post)) = true).
    { rewrite andb_true_iff, !N.leb_le, !lenN_app. lia. }
    rewrite C. rewrite (slice_app pre (concat (map enc raws)) post) by reflexivity.
    pose proof (parse_blocks_spec compress uncompress compress_ok raws [] (length (concat (map enc raws))) F
                  (blocks_le_disk compress uncompress compress_ok raws F)) as P.
    cbn [app] in P. rewrite lenN_nil in P. exact P.
  Qed.

  (* the blocks of a lookup table tile the space before its location list *)
  Lemma tile_written img : forall chunks size0 pre,
    Forall blk_ok chunks -> chunks <> [] ->
    (forall k, (k < length chunks)%nat ->
       read_block uncompress img (size0 + lenN (concat (map enc (pre ++ firstn k chunks))))
       = Some (nth k chunks [], stored_size compress (nth k chunks []), is_comp compress (nth k chunks []))) ->
    tile uncompress img (map (fun k => size0 + lenN (concat (map enc (pre ++ firstn k chunks)))) (seq 0 (length chunks)))
         (size0 + lenN (concat (map enc (pre ++ chunks)))) = true.
  Proof.
    induction chunks as [|c r IH]; intros size0 pre F Hne R; [congruence|].
    inversion F as [|? ? OKc Fr]; subst.
    cbn [length seq map tile]. rewrite (R 0%nat ltac:(simpl; lia)). cbn [nth firstn].
    rewrite (block_ok_enc c OKc). cbn [andb].
    pose proof (enc_len compress uncompress compress_ok c OKc) as EL.
    assert (Step : forall x, size0 + lenN (concat (map enc (pre ++ c :: x)))
                             = size0 + lenN (concat (map enc ((pre ++ [c]) ++ x)))).
    { intro x. rewrite <- app_assoc. reflexivity. }
    assert (Nxt : size0 + lenN (concat (map enc (pre ++ []))) + 2 + stored_size compress c
                  = size0 + lenN (concat (map enc (pre ++ [c])))).
    { rewrite app_nil_r, map_app, concat_app, lenN_app. cbn [map concat]. rewrite app_nil_r. lia. }
    destruct r as [|c2 r2].
    - cbn [length seq map]. rewrite Nxt, N.eqb_refl. reflexivity.
    - rewrite <- seq_shift, map_map.
      specialize (IH size0 (pre ++ [c]) Fr ltac:(discriminate)).
      assert (R' : forall k, (k < length (c2 :: r2))%nat ->
                read_block uncompress img (size0 + lenN (concat (map enc ((pre ++ [c]) ++ firstn k (c2 :: r2)))))
                = Some (nth k (c2 :: r2) [], stored_size compress (nth k (c2 :: r2) []), is_comp compress (nth k (c2 :: r2) []))).
      { intros k Hk. specialize (R (S k) ltac:(simpl in *; lia)). cbn [firstn nth] in R.
        rewrite <- app_assoc. exact R. }
      specialize (IH R').
      assert (M : map (fun x => size0 + lenN (concat (map enc (pre ++ firstn (S x) (c :: c2 :: r2))))) (seq 0 (length (c2 :: r2)))
                  = map (fun k => size0 + lenN (concat (map enc ((pre ++ [c]) ++ firstn k (c2 :: r2))))) (seq 0 (length (c2 :: r2)))).
      { apply map_ext. intro k. cbn [firstn]. rewrite <- app_assoc. reflexivity. }
      rewrite M. rewrite (Step (c2 :: r2)).
      remember (map (fun k => size0 + lenN (concat (map enc ((pre ++ [c]) ++ firstn k (c2 :: r2))))) (seq 0 (length (c2 :: r2)))) as locs eqn:EL2.
      destruct locs as [|l1 lr]; [cbn [length seq map] in EL2; discriminate|].
      assert (H1 : l1 = size0 + lenN (concat (map enc (pre ++ [c])))).
      { cbn [length seq map firstn] in EL2. injection EL2 as -> _. rewrite app_nil_r. reflexivity. }
      rewrite Nxt, <- H1, N.eqb_refl. cbn [andb]. exact IH.
  Qed.

  (* table_span of a written lookup table *)
  Lemma table_span_written size0 data bytes start pre post count esz :
    write_table compress size0 data = Common.Ok (bytes, start) ->
    lenN pre = size0 -> count * esz = lenN data -> data <> [] -> size0 + lenN bytes < 2 ^ 64 ->
    table_span uncompress (pre ++ bytes ++ post) start count esz = Some (size0, size0 + lenN bytes).
  Proof.
    intros W Lp Hsz Hne Hb.
    destruct (write_table_ok_l compress uncompress compress_ok _ _ _ _ W)
      as (chunks & C1 & C2 & C3 & C4 & C5 & C6 & C7).
    set (B := concat (map enc chunks)) in *.
    set (locs := table_locs compress size0 chunks) in *.
    assert (Ll : length locs = length chunks) by (unfold locs, table_locs; rewrite map_length, seq_length; reflexivity).
    assert (Hn : table_blocks count esz = lenN chunks).
    { unfold table_blocks, META_SIZE. rewrite Hsz, C4, MB_val. f_equal. lia. }
    assert (Lb : lenN bytes = lenN B + 8 * lenN chunks).
    { rewrite C5, lenN_app, lenN_concat_le64. unfold lenN. rewrite Ll. reflexivity. }
    assert (Cne : chunks <> []) by (intro Z; apply Hne; rewrite <- C1, Z; reflexivity).
    assert (Fl : Forall (fun x => x < 2 ^ 64) locs).
    { apply Forall_forall. intros x Hx. unfold locs, table_locs in Hx. apply in_map_iff in Hx.
      destruct Hx as (k & <- & Hk). apply in_seq in Hk.
      pose proof (table_locs_bound compress uncompress compress_ok size0 chunks k C2 ltac:(lia)). fold B in H. lia. }
    unfold table_span. rewrite Hn.
    replace (N.to_nat (lenN chunks)) with (length locs) by (unfold lenN; lia).
    assert (Img : pre ++ bytes ++ post = (pre ++ B) ++ concat (map le64 locs) ++ post).
    { rewrite C5, <- !app_assoc. reflexivity. }
    rewrite Img at 1. replace start with (lenN (pre ++ B)) at 1 by (rewrite lenN_app; lia).
    rewrite read_locs_spec by exact Fl.
    assert (T : tile uncompress (pre ++ bytes ++ post) locs start = true).
    { replace start with (size0 + lenN (concat (map enc ([] ++ chunks)))) by (cbn [app]; fold B; lia).
      unfold locs, table_locs, loc_of.
      apply (tile_written (pre ++ bytes ++ post) chunks size0 [] C2 Cne).
      intros k Hk. specialize (C7 k Hk). fold locs in C7.
      assert (E : nth k locs 0 = size0 + lenN (concat (map enc ([] ++ firstn k chunks)))).
      { unfold locs, table_locs. rewrite (nth_indep _ 0 (loc_of compress size0 [] chunks 0))
          by (rewrite map_length, seq_length; exact Hk).
        rewrite map_nth, seq_nth by exact Hk. reflexivity. }
      rewrite <- E.
      assert (Hge : size0 <= nth k locs 0) by (rewrite E; lia).
      replace (nth k locs 0) with (lenN pre + (nth k locs 0 - size0)) by lia.
      apply read_block_in. exact C7. }
    destruct locs as [|l0 lr] eqn:EL; [destruct chunks; [congruence|discriminate]|].
    rewrite T. f_equal. f_equal.
    - destruct chunks as [|c0 cr]; [congruence|]. unfold locs, table_locs in EL. cbn [length seq map] in EL.
      injection EL as <- _. unfold loc_of. cbn [app firstn map concat]. rewrite lenN_nil. lia.
    - lia.
  Qed.
End BL.
