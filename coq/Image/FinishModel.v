(* Image — the whole-image level of the writer: lib/common/src/writer/init.c (the parts of sqfs_writer_init that
   fix the layout) and lib/common/src/writer/finish.c (sqfs_writer_finish), on top of
     C14.SuperModel      sqfs_super_init, sqfs_super_write (encode), the output-call trace (C14.TraceModel)
     Img.TreeModel       sqfs_serialize_fstree (inode table, directory table, root reference, id table)
     C03.TableModel      sqfs_write_table, sqfs_dir_writer_write_export_table
     C01.InodeModel      id table payload (sqfs_id_table_write)
   Definitions only.

   C (init.c)                                         model
   sqfs_super_init(&super, block_size, mtime, comp)   SuperModel.super_init
   sqfs_super_write(&super, outfile)                  first event PWrite 0 (encode s0)
   cmp->write_options(cmp, outfile)                   in_opts: the bytes the compressor wrote at offset 96 (oracle;
                                                      compressor.c sqfs_generic_write_options: one uncompressed
                                                      metadata block); ret > 0 <-> in_opts <> []
   super.flags |= SQFS_FLAG_COMPRESSOR_OPTIONS        flag_set
   sqfs_dir_writer_create(dm, EXPORT_TABLE?)          st_init_x (c_exportable cfg)
   block writer / block processor                     in_data: the bytes they append between init and finish (C08
                                                      owns them; only their length matters here);
                                                      in_frags: the fragment table they leave (location, size word)

   C (finish.c: sqfs_writer_finish)                   model
   super.inode_count = fs.unique_inode_count          nlen t
   sqfs_serialize_fstree                              serialize_fstree_x (= Img.TreeModel.serialize_fstree, with the
                                                      export flag of the directory writer as a parameter)
   sqfs_frag_table_write                              frag_write (write_table + the three flag bits)
   if (cfg->exportable) ..._write_export_table        dw_write_export_table, flag EXPORTABLE
   sqfs_id_table_write                                id_count (16 bit), write_table of the le32 ids
   if (!cfg->no_xattr) sqfs_xattr_writer_flush        ABSTRACT: in_xattr = None ("no blocks": start = ~0, NO_XATTRS)
                                                      or Some (bytes appended, offset of the xattr id table header in
                                                      them).  C01.XattrModel models the logical streams; composing its
                                                      on-disk form is not done here.
   super.bytes_used = outfile->get_size()             size of everything written
   sqfs_super_write                                   PWrite 0 (encode sf)
   padd_sqfs(outfile, bytes_used, devblksize)         pad_len zero bytes at bytes_used (devblksize = 0: the C code
                                                      divides by zero: Crash)

   Every failure of a step makes the C function return -1; the model keeps the libsquashfs error code. *)
From Coq Require Import List NArith ZArith Bool.
From SqfsV Require Import Base.Bytes Gen.Constants C03.Common C03.MetaModel C03.DirModel C03.TableModel.
From SqfsV Require C14.SuperModel C14.TraceModel.
From SqfsV Require Import C01.GenC01 C01.Res C01.InodeModel Img.TreeModel.
Import ListNotations.
Local Open Scope N_scope.

(* sqfs_writer_cfg_t, as far as the layout depends on it *)
Record wcfg := mkCfg {
  c_block_size : N;
  c_mtime : N;            (* fs.defaults.mtime *)
  c_comp_id : N;
  c_devblk : N;
  c_exportable : bool;
  c_no_xattr : bool
}.

Record winput := mkIn {
  in_opts : list N;
  in_data : list N;
  in_frags : list (N * N);            (* sqfs_frag_table_append(location, size) in order *)
  in_tree : fstree;
  in_xattr : option (list N * N)
}.

(* flags |= f; flags &= ~f *)
Definition flag_set (flags f : N) : N := N.lor flags f.
Definition flag_clr (flags f : N) : N := N.ldiff flags f.

(* sqfs_fragment_t as sqfs_frag_table_append stores it (memset 0, start_offset, size) *)
Definition frag_entry (f : N * N) : list N := le64 (fst f) ++ le32 (snd f) ++ le32 0.
Definition frag_table_bytes (l : list (N * N)) : list N := flat_map frag_entry l.

(* SQFS_IS_BLOCK_COMPRESSED(le32toh(size)): bit 24 clear *)
Definition frag_compressed (f : N * N) : bool := N.land (snd f mod 4294967296) 16777216 =? 0.

Definition zeros (n : N) : list N := repeat 0 (N.to_nat n).

(* what the model reports besides the bytes *)
Record wimage := mkW {
  w_super0 : SuperModel.super;      (* provisional super block (init.c) *)
  w_super : SuperModel.super;       (* committed super block (finish.c) *)
  w_body : list N;                  (* file bytes [96, bytes_used) *)
  w_pad : N;                        (* number of zero bytes after bytes_used *)
  w_img : simg;                     (* sqfs_serialize_fstree's outputs *)
  w_fragb : list N;                 (* bytes sqfs_frag_table_write appended *)
  w_export : option (list N);       (* the export array handed to sqfs_write_table *)
  w_exportb : list N;
  w_idb : list N;
  w_xattrb : list N;
  w_trace : list TraceModel.event   (* the output calls in order (one event per section) *)
}.

Definition image_bytes (w : wimage) : list N :=
  SuperModel.encode (w_super w) ++ w_body w ++ zeros (w_pad w).

Section Finish.
  Variable compress : list N -> cres.
  Variable limit : N.

  (* sqfs_writer_init: im, dm (KEEP_IN_MEMORY), dirwr with or without export table, empty id table *)
  Definition st_init_x (export : bool) : sstate :=
    mkS (mw_init false) (dw_create (mw_init true) export) [] [] [] [].

  (* sqfs_serialize_fstree; also hands back the directory writer (for the export table) *)
  Definition serialize_fstree_x (export : bool) (t : fstree) : res (simg * dw) :=
    do st <- ser_loop compress limit t (st_init_x export) 1 t;
    do im1 <- lift (mw_flush compress (s_im st));
    do dm1 <- lift (mw_flush compress (dw_dm (s_dw st)));
    let root_ref := ref_of (s_refs st) (nlen t) in
    let dm2 := mw_write_to_file dm1 in
    Ok (mkImg (mw_out im1) (mw_out dm2) root_ref (s_refs st) (s_ids st) (s_nodes st) (s_inodes st), s_dw st).

  (* sqfs_frag_table_write: (bytes appended, fragment_table_start, fragment_entry_count, flags) *)
  Definition frag_write (size0 : N) (frags : list (N * N)) (count0 flags : N) : res (list N * N * N * N) :=
    match frags with
    | [] =>
      Ok ([], SuperModel.NO_TABLE, count0,
          flag_clr (flag_clr (flag_set flags c_SQFS_FLAG_NO_FRAGMENTS) c_SQFS_FLAG_ALWAYS_FRAGMENTS)
                   c_SQFS_FLAG_UNCOMPRESSED_FRAGMENTS)
    | _ =>
      do (bytes, start) <- lift (write_table compress size0 (frag_table_bytes frags));
      let f1 := flag_set (flag_set (flag_clr flags c_SQFS_FLAG_NO_FRAGMENTS) c_SQFS_FLAG_ALWAYS_FRAGMENTS)
                         c_SQFS_FLAG_UNCOMPRESSED_FRAGMENTS in
      let f2 := if existsb frag_compressed frags then flag_clr f1 c_SQFS_FLAG_UNCOMPRESSED_FRAGMENTS else f1 in
      Ok (bytes, start, nlen frags mod 4294967296, f2)
    end.

  (* if (cfg->exportable) sqfs_dir_writer_write_export_table(dirwr, file, cmp, root->inode_num, root->inode_ref, &super):
     (the export array, bytes appended, export_table_start, flags) *)
  Definition export_write (exportable : bool) (w : dw) (size0 root_num root_ref start0 flags : N)
    : res (option (list N) * list N * N * N) :=
    if exportable then
      do (w', bytes, st) <- lift (dw_write_export_table compress w size0 root_num root_ref);
      match st with
      | Some start => Ok (dw_export w', bytes, start, flag_set flags c_SQFS_FLAG_EXPORTABLE)
      | None => Ok (dw_export w', bytes, start0, flags)
      end
    else Ok (None, [], start0, flags).

  (* if (!cfg->no_xattr) sqfs_xattr_writer_flush(xwr, file, &super, cmp): (bytes appended, xattr_id_table_start, flags) *)
  Definition xattr_write (no_xattr : bool) (x : option (list N * N)) (size0 start0 flags : N) : list N * N * N :=
    if no_xattr then ([], start0, flags)
    else match x with
         | None => ([], SuperModel.NO_TABLE, flag_set flags c_SQFS_FLAG_NO_XATTRS)
         | Some (xb, off) => (xb, size0 + off, flag_clr flags c_SQFS_FLAG_NO_XATTRS)
         end.

  Definition ev_write (off : N) (d : list N) : list TraceModel.event :=
    match d with [] => [] | _ => [TraceModel.PWrite off d] end.

  Definition write_image (cfg : wcfg) (inp : winput) : res wimage :=
    match SuperModel.super_init (c_block_size cfg) (c_mtime cfg) (c_comp_id cfg) with
    | SuperModel.Err e => Err e
    | SuperModel.OutOfFuel => OutOfFuel
    | SuperModel.Ok s0 =>
      let SB := sizeof_sqfs_super_t in
      let t := in_tree inp in
      (* init.c *)
      let flags0 := match in_opts inp with
                    | [] => SuperModel.s_flags s0
                    | _ => flag_set (SuperModel.s_flags s0) c_SQFS_FLAG_COMPRESSOR_OPTIONS
                    end in
      let data_start := SB + lenN (in_opts inp) in
      (* finish.c *)
      let inode_start := data_start + lenN (in_data inp) in
      do (img, w) <- serialize_fstree_x (c_exportable cfg) t;
      let dir_start := inode_start + lenN (si_itbl img) in
      let size1 := dir_start + lenN (si_dtbl img) in
      do (fragb, frag_start, frag_count, flags1) <-
        frag_write size1 (in_frags inp) (SuperModel.s_frag_count s0) flags0;
      let size2 := size1 + lenN fragb in
      do (xt, exportb, export_start, flags2) <-
        export_write (c_exportable cfg) w size2 (nlen t) (si_root img) (SuperModel.s_export_start s0) flags1;
      let size3 := size2 + lenN exportb in
      do (idb, id_start) <- lift (write_table compress size3 (id_table_bytes (si_ids img)));
      let size4 := size3 + lenN idb in
      let '(xattrb, xattr_start, flags3) :=
        xattr_write (c_no_xattr cfg) (in_xattr inp) size4 (SuperModel.s_xattr_start s0) flags2 in
      let bytes_used := size4 + lenN xattrb in
      if c_devblk cfg =? 0 then Crash else
      let pad := pad_len bytes_used (c_devblk cfg) in
      let sf := SuperModel.mkSuper
                  (SuperModel.s_magic s0) (nlen t mod 4294967296) (SuperModel.s_mtime s0) (SuperModel.s_block_size s0)
                  frag_count (SuperModel.s_comp_id s0) (SuperModel.s_block_log s0) flags3
                  (id_count_field (si_ids img)) (SuperModel.s_vmaj s0) (SuperModel.s_vmin s0)
                  (si_root img) bytes_used id_start xattr_start inode_start dir_start frag_start export_start in
      let body := in_opts inp ++ in_data inp ++ si_itbl img ++ si_dtbl img ++ fragb ++ exportb ++ idb ++ xattrb in
      let trace :=
        [TraceModel.PWrite 0 (SuperModel.encode s0)] ++
        ev_write SB (in_opts inp) ++ ev_write data_start (in_data inp) ++
        ev_write inode_start (si_itbl img) ++ ev_write dir_start (si_dtbl img) ++
        ev_write size1 fragb ++ ev_write size2 exportb ++ ev_write size3 idb ++ ev_write size4 xattrb ++
        [TraceModel.PWrite 0 (SuperModel.encode sf)] ++ ev_write bytes_used (zeros pad) in
      Ok (mkW s0 sf body pad img fragb xt exportb idb xattrb trace)
    end.

  (* the file the run leaves *)
  Definition write_image_bytes (cfg : wcfg) (inp : winput) : res (list N) :=
    do w <- write_image cfg inp; Ok (image_bytes w).
End Finish.
