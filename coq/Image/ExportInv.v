(* Image — the export table the directory writer collects while sqfs_serialize_fstree runs (dir_writer.c
   add_export_table_entry, called from sqfs_dir_writer_add_entry with the child's inode number and reference) and
   sqfs_dir_writer_write_export_table completes with the root: slot k holds the reference recorded for inode
   k + 1 whenever that inode is the root or an entry of some directory, every other slot is 0xFFFFFFFFFFFFFFFF, and
   the table has exactly one slot per inode. *)
From Coq Require Import List NArith ZArith Lia Bool ZifyBool ZifyNat ZifyN.
From SqfsV Require Import Base.Bytes Gen.Constants C03.Common C03.ListN C03.MetaModel C03.DirModel.
From SqfsV Require Import C01.GenC01 C01.Res C01.InodeModel Img.TreeModel Img.SerDefs.
From SqfsV Require Import Image.FinishModel.
Import ListNotations.
Local Open Scope N_scope.

Lemma nth_firstn_lt {A} (d : A) : forall n k l, (k < n)%nat -> nth k (firstn n l) d = nth k l d.
Proof.
  induction n as [|n IH]; intros k l H; [lia|].
  destruct l as [|x l]; [destruct k; reflexivity|]. destruct k as [|k]; [reflexivity|].
  cbn [firstn nth]. apply IH. lia.
Qed.

Lemma nth_skipn' {A} (d : A) : forall n k l, nth k (skipn n l) d = nth (n + k) l d.
Proof.
  induction n as [|n IH]; intros k l; [reflexivity|].
  destruct l as [|x l]; [destruct k; reflexivity|]. cbn [skipn plus nth]. apply IH.
Qed.

Lemma nth_pad (l : list N) m k : nth k (l ++ repeat U64MAX m) U64MAX = nth k l U64MAX.
Proof.
  destruct (Nat.lt_ge_cases k (length l)) as [H|H].
  - apply app_nth1. exact H.
  - rewrite app_nth2 by exact H. rewrite (nth_overflow l) by exact H.
    destruct (Nat.lt_ge_cases (k - length l) m) as [H2|H2].
    + apply nth_repeat.
    + apply nth_overflow. rewrite repeat_length. exact H2.
Qed.

(* add_export_table_entry *)
Lemma export_add_nth l c r l' :
  export_add (Some l) c r = Common.Ok (Some l') ->
  1 <= c /\ lenN l' = N.max (lenN l) c /\
  forall k, nth k l' U64MAX = if N.of_nat k =? c - 1 then r else nth k l U64MAX.
Proof.
  unfold export_add. destruct (c <? 1) eqn:C1; [discriminate|]. apply N.ltb_ge in C1.
  intro H. injection H as <-. split; [exact C1|].
  set (l1 := if lenN l <=? c - 1 then l ++ repeat U64MAX (N.to_nat (c - lenN l)) else l).
  assert (L1 : lenN l1 = N.max (lenN l) c).
  { unfold l1. destruct (lenN l <=? c - 1) eqn:Q.
    - apply N.leb_le in Q. rewrite lenN_app, lenN_repeat. lia.
    - apply N.leb_gt in Q. lia. }
  assert (N1 : forall k, nth k l1 U64MAX = nth k l U64MAX).
  { intro k. unfold l1. destruct (lenN l <=? c - 1); [apply nth_pad|reflexivity]. }
  assert (LT : length (takeN (c - 1) l1) = N.to_nat (c - 1)).
  { unfold takeN. rewrite firstn_length. unfold lenN in L1. lia. }
  split.
  - rewrite lenN_app, lenN_cons, lenN_takeN, lenN_dropN. lia.
  - intro k. destruct (N.eqb_spec (N.of_nat k) (c - 1)) as [E|E].
    + rewrite app_nth2 by (rewrite LT; lia). rewrite LT. replace (k - N.to_nat (c - 1))%nat with 0%nat by lia. reflexivity.
    + destruct (Nat.lt_ge_cases k (N.to_nat (c - 1))) as [H|H].
      * rewrite app_nth1 by (rewrite LT; exact H). unfold takeN. rewrite nth_firstn_lt by exact H. apply N1.
      * rewrite app_nth2 by (rewrite LT; exact H). rewrite LT.
        assert (Hk : (k - N.to_nat (c - 1) = S (k - N.to_nat c))%nat) by lia.
        rewrite Hk. cbn [nth]. unfold dropN. rewrite nth_skipn'.
        replace (N.to_nat c + (k - N.to_nat c))%nat with k by lia. apply N1.
Qed.

(* what the collected table says *)
Definition exp_ok (refs : list N) (l : list N) : Prop :=
  lenN l <= nlen refs /\
  forall k, nth k l U64MAX = ref_of refs (N.of_nat k + 1) \/ nth k l U64MAX = U64MAX.

(* the entries of the directories done so far are recorded *)
Definition exp_has (refs : list N) (l : list N) (cs : list N) : Prop :=
  forall c, In c cs -> nth (N.to_nat (c - 1)) l U64MAX = ref_of refs c.

Lemma exp_ok_grow refs l m : exp_ok refs l -> exp_ok (refs ++ m) l.
Proof.
  intros [L H]. split; [unfold nlen in *; rewrite app_length; lia|].
  intro k. destruct (Nat.lt_ge_cases k (length l)) as [Hk|Hk].
  - destruct (H k) as [E|E]; [left|right; exact E]. rewrite E. symmetry. apply ref_of_app; unfold nlen, lenN in *; lia.
  - right. apply nth_overflow. exact Hk.
Qed.

Lemma exp_has_grow refs l m cs :
  Forall (fun c => 1 <= c /\ c <= nlen refs) cs -> exp_has refs l cs -> exp_has (refs ++ m) l cs.
Proof.
  intros F H c Hc. rewrite (H c Hc). symmetry. rewrite Forall_forall in F. destruct (F c Hc). apply ref_of_app; assumption.
Qed.

Section EX.
  Variable compress : list N -> cres.
  Variable limit : N.

  Lemma add_entry_export w name c r mode w' l :
    dir_add_entry w name c r mode = Ok w' -> dw_export w = Some l ->
    exists l', dw_export w' = Some l' /\ export_add (Some l) c r = Common.Ok (Some l').
  Proof.
    unfold dir_add_entry. destruct (get_type mode) as [ty|] eqn:G; [|discriminate].
    destruct ((lenN name =? 0) || (c <? 1)) eqn:C; [discriminate|].
    destruct (65536 <? lenN name); [discriminate|].
    unfold dw_add_entry. rewrite G, C. intros H E. rewrite E in H.
    destruct (export_add (Some l) c r) as [[l'|]|e|] eqn:X; try discriminate.
    - cbn [lift] in H. injection H as <-. exists l'. split; reflexivity.
    - exfalso. unfold export_add in X. destruct (c <? 1); discriminate.
  Qed.

  Lemma add_children_export t refs : forall ch w w' l cs,
    add_children t refs w ch = Ok w' -> dw_export w = Some l ->
    Forall (fun e => 1 <= snd e /\ snd e <= nlen refs) ch ->
    exp_ok refs l -> exp_has refs l cs ->
    exists l', dw_export w' = Some l' /\ exp_ok refs l' /\ exp_has refs l' (cs ++ map snd ch).
  Proof.
    induction ch as [|[name c] r IH]; intros w w' l cs H E F OK HS.
    - injection H as <-. exists l. rewrite app_nil_r. auto.
    - cbn [add_children] in H. destruct (get t c) as [tgt|]; [|discriminate].
      destruct (dir_add_entry w name c (ref_of refs c) (fn_mode tgt)) as [w1| | |] eqn:A; try discriminate.
      cbn [bind] in H. inversion F as [|? ? [C1 C2] Fr]; subst. cbn [snd] in C1, C2.
      destruct (add_entry_export _ _ _ _ _ _ _ A E) as (l1 & E1 & X).
      destruct (export_add_nth _ _ _ _ X) as (_ & L1 & N1).
      assert (OK1 : exp_ok refs l1).
      { destruct OK as [L H0]. split; [lia|]. intro k. rewrite N1.
        destruct (N.eqb_spec (N.of_nat k) (c - 1)) as [Q|Q]; [left; f_equal; lia|apply H0]. }
      assert (HS1 : exp_has refs l1 (cs ++ [c])).
      { intros x Hx. rewrite N1. apply in_app_or in Hx. destruct Hx as [Hx|[<-|[]]].
        - destruct (N.eqb_spec (N.of_nat (N.to_nat (x - 1))) (c - 1)) as [Q|Q].
          + unfold ref_of. f_equal. lia.
          + apply HS. exact Hx.
        - rewrite N2Nat.id, N.eqb_refl. reflexivity. }
      destruct (IH _ _ _ _ H E1 Fr OK1 HS1) as (l' & E' & OK' & HS').
      exists l'. split; [exact E'|]. split; [exact OK'|].
      cbn [map snd]. rewrite <- app_assoc in HS'. exact HS'.
  Qed.

  (* the inode numbers that occur as entries of a node / of the first [done] nodes *)
  Definition kids (n : fnode) : list N := match fn_payload n with PDir _ ch => map snd ch | _ => [] end.
  Definition kids_upto (t : fstree) (done : nat) : list N := flat_map kids (firstn done t).

  Definition EI (t : fstree) (done : nat) (st : sstate) : Prop :=
    length (s_refs st) = done /\
    exists l, dw_export (s_dw st) = Some l /\ exp_ok (s_refs st) l /\ exp_has (s_refs st) l (kids_upto t done).

  Lemma firstn_S_nth {A} (l : list A) j x : nth_error l j = Some x -> firstn (S j) l = firstn j l ++ [x].
  Proof.
    revert j. induction l as [|y l IH]; intros j H; [destruct j; discriminate|].
    destruct j as [|j]; cbn [nth_error] in H; [injection H as <-; reflexivity|].
    change (firstn (S (S j)) (y :: l)) with (y :: firstn (S j) l). rewrite (IH j H). reflexivity.
  Qed.

  Lemma kids_upto_S t j n : nth_error t j = Some n -> kids_upto t (S j) = kids_upto t j ++ kids n.
  Proof.
    intro H. unfold kids_upto. rewrite (firstn_S_nth _ _ _ H), flat_map_app. cbn [flat_map]. rewrite app_nil_r.
    reflexivity.
  Qed.

  Lemma kids_range t j : children_before t -> (j <= length t)%nat ->
    Forall (fun c => 1 <= c /\ c + 1 <= N.of_nat j) (kids_upto t j).
  Proof.
    intros CB. induction j as [|j IH]; intro Hj; [constructor|].
    destruct (nth_error t j) as [n|] eqn:E; [|apply nth_error_None in E; lia].
    rewrite (kids_upto_S _ _ _ E). apply Forall_app. split.
    - eapply Forall_impl; [|apply IH; lia]. intros c [A B]. split; [exact A|lia].
    - unfold kids. destruct (fn_payload n) as [par ch| | | |] eqn:P; try constructor.
      pose proof (CB j n par ch E P) as Q. apply Forall_forall. intros c Hc. apply in_map_iff in Hc.
      destruct Hc as (e & <- & He). rewrite Forall_forall in Q. destruct (Q e He). split; [assumption|lia].
  Qed.

  Lemma write_dir_export t refs w par ch w' k l cs :
    write_dir_entries compress t refs w par ch = Ok (w', k) -> dw_export w = Some l ->
    Forall (fun e => 1 <= snd e /\ snd e <= nlen refs) ch -> exp_ok refs l -> exp_has refs l cs ->
    exists l', dw_export w' = Some l' /\ exp_ok refs l' /\ exp_has refs l' (cs ++ map snd ch).
  Proof.
    unfold write_dir_entries. intros H E F OK HS.
    destruct (add_children t refs (dw_begin w) ch) as [w1| | |] eqn:A; try discriminate. cbn [bind] in H.
    destruct (lift (dw_end compress w1)) as [w2| | |] eqn:D; try discriminate. cbn [bind] in H.
    injection H as <- _.
    assert (E0 : dw_export (dw_begin w) = Some l) by exact E.
    destruct (add_children_export t refs ch _ _ _ cs A E0 F OK HS) as (l' & E1 & OK' & HS').
    exists l'. split; [|split; assumption].
    apply lift_ok in D. unfold dw_end in D.
    destruct (dw_end_loop compress (S (length (dw_list w1))) (dw_dm w1) (dw_size w1) (dw_idx w1) (dw_list w1))
      as [[[dm size] idx]|e|]; try discriminate.
    injection D as <-. exact E1.
  Qed.

  Lemma ser_node_export t st n st' j :
    children_before t -> nth_error t j = Some n ->
    ser_node compress limit t st (N.of_nat j + 1) n = Ok st' -> EI t j st -> EI t (S j) st'.
  Proof.
    intros CB Hn H (Lr & l & E & OK & HS).
    assert (Hj : (S j <= length t)%nat) by (assert (j < length t)%nat by (apply nth_error_Some; congruence); lia).
    assert (KR : Forall (fun c => 1 <= c /\ c <= nlen (s_refs st)) (kids_upto t (S j))).
    { eapply Forall_impl; [|apply (kids_range t (S j) CB Hj)]. intros c [A B]. split; [exact A|].
      unfold nlen. rewrite Lr. lia. }
    unfold ser_node in H.
    destruct (negb (N.land (fn_mode n) c_S_IFMT =? payload_fmt (fn_payload n))); [discriminate|].
    assert (G : exists w' kind, (match fn_payload n with
              | PDir par ch => match write_dir_entries compress t (s_refs st) (s_dw st) par ch with
                               | Err _ => Err c_SQFS_ERROR_INTERNAL | r => r end
              | PFile b => Ok (s_dw st, KFile b) | PSlink tg => Ok (s_dw st, KSlink tg)
              | PDev c d => Ok (s_dw st, KDev c d) | PIpc s => Ok (s_dw st, KIpc s) end) = Ok (w', kind) /\
              exists ids' ref i im', st' = mkS im' w' ids' (s_refs st ++ [ref]) (s_nodes st ++ [mkNode (fn_mode n) (fn_uid n) (fn_gid n) (fn_mtime n) (N.of_nat j + 1) (fn_nlink n) (fn_xattr n) kind]) (s_inodes st ++ [i])).
    { match type of H with bind ?r _ = _ => destruct r as [[w' kind]| | |]; try discriminate end.
      cbn [bind] in H. exists w', kind. split; [reflexivity|].
      match type of H with context [serialize limit (s_ids st) ?tn] =>
        destruct (serialize limit (s_ids st) tn) as [[ids' i]| | |]; try discriminate end.
      cbn [bind] in H. destruct (mw_position (s_im st)) as [block offset].
      destruct (encode i); try discriminate. cbn [bind] in H.
      match type of H with bind ?r _ = _ => destruct r as [im'| | |]; try discriminate end.
      cbn [bind] in H. injection H as <-. eauto. }
    destruct G as (w' & kind & G & ids' & ref & i & im' & ->).
    unfold EI. cbn [s_refs s_dw]. split; [rewrite app_length, Lr; cbn [length]; lia|].
    rewrite (kids_upto_S _ _ _ Hn). unfold kids.
    destruct (fn_payload n) as [par ch|b|tg|c d|s] eqn:P.
    - destruct (write_dir_entries compress t (s_refs st) (s_dw st) par ch) as [[w2 k2]| | |] eqn:W; try discriminate.
      injection G as <- _.
      assert (F : Forall (fun e => 1 <= snd e /\ snd e <= nlen (s_refs st)) ch).
      { pose proof (CB j n par ch Hn P) as Q. eapply Forall_impl; [|exact Q]. intros e [A B]. split; [exact A|].
        unfold nlen. rewrite Lr. exact B. }
      destruct (write_dir_export _ _ _ _ _ _ _ _ _ W E F OK HS) as (l' & E' & OK' & HS').
      exists l'. split; [exact E'|]. split; [apply exp_ok_grow; exact OK'|].
      apply exp_has_grow; [|exact HS'].
      rewrite (kids_upto_S _ _ _ Hn) in KR. unfold kids in KR. rewrite P in KR. exact KR.
    - injection G as <- _. exists l. rewrite app_nil_r. split; [exact E|]. split; [apply exp_ok_grow; exact OK|].
      apply exp_has_grow; [|exact HS]. rewrite (kids_upto_S _ _ _ Hn) in KR. unfold kids in KR. rewrite P, app_nil_r in KR. exact KR.
    - injection G as <- _. exists l. rewrite app_nil_r. split; [exact E|]. split; [apply exp_ok_grow; exact OK|].
      apply exp_has_grow; [|exact HS]. rewrite (kids_upto_S _ _ _ Hn) in KR. unfold kids in KR. rewrite P, app_nil_r in KR. exact KR.
    - injection G as <- _. exists l. rewrite app_nil_r. split; [exact E|]. split; [apply exp_ok_grow; exact OK|].
      apply exp_has_grow; [|exact HS]. rewrite (kids_upto_S _ _ _ Hn) in KR. unfold kids in KR. rewrite P, app_nil_r in KR. exact KR.
    - injection G as <- _. exists l. rewrite app_nil_r. split; [exact E|]. split; [apply exp_ok_grow; exact OK|].
      apply exp_has_grow; [|exact HS]. rewrite (kids_upto_S _ _ _ Hn) in KR. unfold kids in KR. rewrite P, app_nil_r in KR. exact KR.
  Qed.

  Lemma ser_loop_export t : children_before t -> forall l done st st',
    t = done ++ l -> ser_loop compress limit t st (N.of_nat (length done) + 1) l = Ok st' ->
    EI t (length done) st -> EI t (length t) st'.
  Proof.
    intro CB. induction l as [|n r IH]; intros done st st' Ht H I.
    - injection H as <-. replace (length t) with (length done) by (rewrite Ht, app_nil_r; reflexivity). exact I.
    - cbn [ser_loop] in H.
      destruct (ser_node compress limit t st (N.of_nat (length done) + 1) n) as [st1| | |] eqn:E; try discriminate.
      cbn [bind] in H.
      assert (Hn : nth_error t (length done) = Some n).
      { rewrite Ht, nth_error_app2 by lia. rewrite Nat.sub_diag. reflexivity. }
      pose proof (ser_node_export t st n st1 (length done) CB Hn E I) as I1.
      apply (IH (done ++ [n]) st1 st').
      + rewrite Ht, <- app_assoc. reflexivity.
      + rewrite app_length. cbn [length]. replace (N.of_nat (length done + 1) + 1) with (N.of_nat (length done) + 1 + 1) by lia.
        exact H.
      + rewrite app_length. cbn [length]. replace (length done + 1)%nat with (S (length done)) by lia. exact I1.
  Qed.

  (* the table after sqfs_serialize_fstree, and after sqfs_dir_writer_write_export_table added the root *)
  Theorem export_table_l t img dwr :
    children_before t -> (1 <= length t)%nat ->
    serialize_fstree_x compress limit true t = Ok (img, dwr) ->
    exists l, export_add (dw_export dwr) (nlen t) (si_root img) = Common.Ok (Some l) /\
      lenN l = nlen t /\ length (si_refs img) = length t /\
      (forall k, nth k l U64MAX = ref_of (si_refs img) (N.of_nat k + 1) \/ nth k l U64MAX = U64MAX) /\
      (forall c, c = nlen t \/ In c (kids_upto t (length t)) ->
                 nth (N.to_nat (c - 1)) l U64MAX = ref_of (si_refs img) c).
  Proof.
    intros CB T1 H. unfold serialize_fstree_x in H.
    destruct (ser_loop compress limit t (st_init_x true) 1 t) as [st| | |] eqn:L; try discriminate. cbn [bind] in H.
    destruct (lift (mw_flush compress (s_im st))) as [im1| | |]; try discriminate. cbn [bind] in H.
    destruct (lift (mw_flush compress (dw_dm (s_dw st)))) as [dm1| | |]; try discriminate. cbn [bind] in H.
    injection H as <- <-. cbn [si_root si_refs].
    assert (I0 : EI t (length (@nil fnode)) (st_init_x true)).
    { unfold EI, st_init_x, dw_create. cbn [s_refs s_dw dw_export length]. split; [reflexivity|].
      exists []. split; [reflexivity|]. split.
      - split; [unfold lenN, nlen; cbn; lia|]. intro k. right. destruct k; reflexivity.
      - intros c []. }
    destruct (ser_loop_export t CB t [] _ st eq_refl L I0) as (Lr & l & E & (OL & OK) & HS).
    destruct (export_add (Some l) (nlen t) (ref_of (s_refs st) (nlen t))) as [[l'|]|e|] eqn:X.
    - destruct (export_add_nth _ _ _ _ X) as (_ & L1 & N1).
      exists l'. rewrite E. split; [exact X|]. split; [unfold nlen in *; lia|]. split; [exact Lr|]. split.
      + intro k. rewrite N1. destruct (N.eqb_spec (N.of_nat k) (nlen t - 1)) as [Q|Q]; [left; f_equal; unfold nlen in *; lia|apply OK].
      + intros c [->|Hc]; rewrite N1.
        * rewrite N2Nat.id, N.eqb_refl. reflexivity.
        * destruct (N.eqb_spec (N.of_nat (N.to_nat (c - 1))) (nlen t - 1)) as [Q|Q]; [unfold ref_of; f_equal; lia|].
          apply HS. exact Hc.
    - exfalso. unfold export_add in X. destruct (nlen t <? 1); discriminate.
    - exfalso. unfold export_add in X. destruct (nlen t <? 1) eqn:Q; [|discriminate]. apply N.ltb_lt in Q. unfold nlen in Q. lia.
    - exfalso. unfold export_add in X. destruct (nlen t <? 1); discriminate.
  Qed.
End EX.
